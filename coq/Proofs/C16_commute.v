(* C16, part 2: the ORDER in which the hoistable declarations of one level (struct types,
   methods, functions) are written -- and therefore executed, treeSort being stable inside a
   level (C16_sort.v) -- does not matter to the VM.

   Over the reload machine of Model/Reload.v: for signatures S, S' whose stypes / smethods /
   sfuncs are permutations of each other and whose svars agree (variables are NOT hoisted and
   keep their order), running version_of S B and version_of S' B from the empty VM -- and more
   generally from any VM reached by loading earlier (permuted) versions of the package --
   either both fail or both succeed, and then the two final states are ISOMORPHIC: there are
   permutations rf of the function addresses and rt of the type addresses under which
   function objects, type objects (fields as lists, methods as finite maps: the order of the
   method association list DOES depend on the order of execution), instances, globals
   (as a finite map read through gget, where an absent key reads nil: the order of the
   association list depends on the order of execution) and host slots correspond.  Isomorphic states cannot be told apart by any history of
   loads, stores, calls and identity tests (c16_commute_run).

   One hypothesis is needed beyond wf_sig: the constants a declaration carries (default field
   values of a struct type, zero values of `var x T`) are scalars (nil or integers), which is
   what ZERO ty produces.  The model's instruction type also allows a raw function / type
   address there, and a raw address is not invariant under the renaming: see
   Example.c16_needs_scalar at the end for the concrete counterexample (found by vm_compute).
   wf_sig S' is implied by wf_sig S and the permutations (wf_sig_perm); it is kept as a
   hypothesis only to make the statements symmetric.

   Main statements: c16_commute (empty VM), c16_commute_reload (any VM reached by earlier loads),
   c16_commute_from (any closed state with the C17 invariant), c16_commute_fn_bodies,
   c16_commute_calls, c16_commute_run, state_iso_bijective, Example.c16_example. *)
From Coq Require Import ZArith List Bool Lia Permutation.
From GV Require Import Model.Reload Proofs.C17_base Proofs.C17_reload.
Import ListNotations.
Open Scope nat_scope.

(* ================================================================================== *)
(* 1. renamings of addresses                                                          *)
(* ================================================================================== *)

(* a permutation of nat that moves addresses below n only *)
Definition renaming (n : nat) (r : addr -> addr) : Prop :=
  (forall a, a < n -> r a < n) /\ (forall a, n <= a -> r a = a) /\ (forall a b, r a = r b -> a = b).

Lemma renaming_id : forall n, renaming n (fun a => a).
Proof. intros. repeat split; auto. Qed.
Lemma renaming_mono : forall n m r, n <= m -> renaming n r -> renaming m r.
Proof.
  intros n m r LE (B & I & J). repeat split; auto.
  - intros a LT. destruct (Nat.lt_ge_cases a n) as [H|H].
    + specialize (B a H). lia.
    + rewrite I by auto. auto.
  - intros a H. apply I. lia.
Qed.
Lemma renaming_comp : forall n r1 r2, renaming n r1 -> renaming n r2 -> renaming n (fun a => r2 (r1 a)).
Proof.
  intros n r1 r2 (B1 & I1 & J1) (B2 & I2 & J2). repeat split; auto.
  - intros a H. rewrite I1 by auto. auto.
Qed.
Lemma renaming_fix : forall n r a, renaming n r -> n <= a -> r a = a.
Proof. intros n r a (_ & I & _). auto. Qed.
Lemma renaming_lt : forall n r a, renaming n r -> a < n -> r a < n.
Proof. intros n r a (B & _). auto. Qed.
Lemma renaming_inj : forall n r a b, renaming n r -> r a = r b -> a = b.
Proof. intros n r a b (_ & _ & J). auto. Qed.
Lemma renaming_neq : forall n r a b, renaming n r -> a <> b -> r a <> r b.
Proof. intros n r a b R N E. apply N. eapply renaming_inj; eauto. Qed.

(* a renaming is onto: together with injectivity, a bijection of the addresses below n *)
Lemma renaming_surj : forall n r, renaming n r -> forall b, exists a, r a = b /\ (b < n -> a < n).
Proof.
  intros n r (B & I & J) b. destruct (Nat.lt_ge_cases b n) as [LT|GE].
  - assert (INCL : incl (seq 0 n) (map r (seq 0 n))).
    { apply NoDup_length_incl.
      - apply FinFun.Injective_map_NoDup. exact J. apply seq_NoDup.
      - rewrite map_length. apply Nat.le_refl.
      - intros x HI. apply in_map_iff in HI. destruct HI as (a & <- & HI). apply in_seq in HI.
        apply in_seq. specialize (B a). lia. }
    assert (HI : In b (seq 0 n)) by (apply in_seq; lia).
    apply INCL in HI. apply in_map_iff in HI. destruct HI as (a & E & HI). apply in_seq in HI.
    exists a. split; auto. intros; lia.
  - exists b. split; [auto | lia].
Qed.

(* the transposition of p and q *)
Definition swp (p q a : addr) : addr := if a =? p then q else if a =? q then p else a.
Lemma swp_l : forall p q, swp p q p = q.
Proof. intros. unfold swp. now rewrite Nat.eqb_refl. Qed.
Lemma swp_r : forall p q, swp p q q = p.
Proof. intros. unfold swp. rewrite Nat.eqb_refl. destruct (q =? p) eqn:E; auto. now apply Nat.eqb_eq in E. Qed.
Lemma swp_other : forall p q a, a <> p -> a <> q -> swp p q a = a.
Proof. intros. unfold swp. destruct (a =? p) eqn:E; [apply Nat.eqb_eq in E; lia|]. destruct (a =? q) eqn:E'; [apply Nat.eqb_eq in E'; lia|]. auto. Qed.
Lemma renaming_swp : forall n p q, p < n -> q < n -> renaming n (swp p q).
Proof.
  intros n p q P Q. repeat split.
  - intros a H. unfold swp. destruct (a =? p); auto. destruct (a =? q); auto.
  - intros a H. apply swp_other; lia.
  - intros a b. unfold swp.
    destruct (a =? p) eqn:E1; destruct (b =? p) eqn:E2;
    try (destruct (a =? q) eqn:E3); try (destruct (b =? q) eqn:E4);
    repeat match goal with H : (_ =? _) = true |- _ => apply Nat.eqb_eq in H
                      | H : (_ =? _) = false |- _ => apply Nat.eqb_neq in H end; lia.
Qed.

(* ================================================================================== *)
(* 2. renaming values, association lists, objects                                     *)
(* ================================================================================== *)
Section Ren.
  Variables rf rt : addr -> addr.

  Definition rv (v : val) : val :=
    match v with VFunc a => VFunc (rf a) | VType a => VType (rt a) | _ => v end.
  Definition rkv (l : list (name * val)) : list (name * val) := map (fun kv => (fst kv, rv (snd kv))) l.
  Definition rfobj (x : fobj) : fobj := match x with FBody b => FBody b | FBound r f => FBound r (rf f) end.
  Definition rinst (o : iobj) : iobj := mkInst (rt (ity o)) (rkv (ifields o)).
  (* l' is l with its values renamed, as a finite map *)
  Definition maps_to (l l' : list (name * val)) : Prop := forall k, lookup k l' = option_map rv (lookup k l).
  Definition ty_rel (ty ty' : tyobj) : Prop := tfields ty' = rkv (tfields ty) /\ maps_to (tmethods ty) (tmethods ty').

  Lemma lookup_rkv : forall k l, lookup k (rkv l) = option_map rv (lookup k l).
  Proof. induction l as [|[k' v] r IH]; simpl; auto. destruct (k =? k')%Z; auto. Qed.
  Lemma rkv_upsert : forall k v l, upsert k (rv v) (rkv l) = rkv (upsert k v l).
  Proof. induction l as [|[k' v'] r IH]; simpl; auto. destruct (k =? k')%Z; simpl; auto. now rewrite IH. Qed.
  Lemma rkv_assign : forall k v l, assign k (rv v) (rkv l) = rkv (assign k v l).
  Proof. induction l as [|[k' v'] r IH]; simpl; auto. destruct (k =? k')%Z; simpl; auto. now rewrite IH. Qed.
  Lemma rkv_set_fields : forall vs l, set_fields (rkv l) (rkv vs) = rkv (set_fields l vs).
  Proof.
    unfold set_fields. induction vs as [|[k v] r IH]; simpl; intros; auto.
    rewrite rkv_assign. apply IH.
  Qed.
  Lemma maps_to_upsert : forall k v l l', maps_to l l' -> maps_to (upsert k v l) (upsert k (rv v) l').
  Proof.
    intros k v l l' M k'. destruct (Z.eq_dec k' k).
    - subst. now rewrite !lookup_upsert_same.
    - rewrite !lookup_upsert_other by auto. apply M.
  Qed.
  Lemma is_nil_rv : forall v, is_nil (rv v) = is_nil v.
  Proof. destruct v; reflexivity. Qed.
End Ren.

Definition scalar (v : val) : Prop := match v with VNil | VInt _ => True | _ => False end.
Definition kv_scalar (l : list (name * val)) : Prop := Forall (fun kv => scalar (snd kv)) l.
Lemma rv_scalar : forall rf rt v, scalar v -> rv rf rt v = v.
Proof. destruct v; simpl; tauto. Qed.
Lemma rkv_scalar : forall rf rt l, kv_scalar l -> rkv rf rt l = l.
Proof.
  induction l as [|[k v] r IH]; simpl; intros H; auto. inv H. simpl in *.
  rewrite rv_scalar by auto. now rewrite IH.
Qed.

Lemma rv_id : forall v, rv (fun a => a) (fun a => a) v = v.
Proof. destruct v; reflexivity. Qed.
Lemma rkv_id : forall l, rkv (fun a => a) (fun a => a) l = l.
Proof. induction l as [|[k v] r IH]; simpl; auto. now rewrite rv_id, IH. Qed.
Lemma rfobj_id : forall x, rfobj (fun a => a) x = x.
Proof. destruct x; reflexivity. Qed.
Lemma rv_comp : forall f1 t1 f2 t2 v, rv f2 t2 (rv f1 t1 v) = rv (fun a => f2 (f1 a)) (fun a => t2 (t1 a)) v.
Proof. destruct v; reflexivity. Qed.
Lemma rkv_comp : forall f1 t1 f2 t2 l, rkv f2 t2 (rkv f1 t1 l) = rkv (fun a => f2 (f1 a)) (fun a => t2 (t1 a)) l.
Proof. intros. unfold rkv. rewrite map_map. apply map_ext. intros [k v]. simpl. now rewrite rv_comp. Qed.
Lemma rfobj_comp : forall f1 f2 x, rfobj f2 (rfobj f1 x) = rfobj (fun a => f2 (f1 a)) x.
Proof. destruct x; reflexivity. Qed.

(* ================================================================================== *)
(* 3. isomorphic states                                                               *)
(* ================================================================================== *)

(* st' is st with function addresses renamed by rf and type addresses by rt.
   Instances are only allocated by the (unpermuted) variable initialisers and by the host, in
   the same order on both sides: their addresses coincide. *)
Record state_iso (rf rt : addr -> addr) (st st' : state) : Prop := {
  iso_rf : renaming (length (funcs st)) rf;
  iso_rt : renaming (length (types st)) rt;
  iso_flen : length (funcs st') = length (funcs st);
  iso_tlen : length (types st') = length (types st);
  iso_funcs : forall a x, nth_error (funcs st) a = Some x -> nth_error (funcs st') (rf a) = Some (rfobj rf x);
  iso_types : forall a ty, nth_error (types st) a = Some ty ->
                exists ty', nth_error (types st') (rt a) = Some ty' /\ ty_rel rf rt ty ty';
  iso_insts : insts st' = map (rinst rf rt) (insts st);
  iso_globals : forall n, gget st' n = rv rf rt (gget st n);
  iso_slots : slots st' = map (rv rf rt) (slots st)
}.

Lemma ty_rel_id : forall ty, ty_rel (fun a => a) (fun a => a) ty ty.
Proof.
  intros. split. now rewrite rkv_id. intro k. destruct (lookup k (tmethods ty)); simpl; auto. now rewrite rv_id.
Qed.

Lemma state_iso_refl : forall st, state_iso (fun a => a) (fun a => a) st st.
Proof.
  intros. split; auto using renaming_id.
  - intros. now rewrite rfobj_id.
  - intros. exists ty. split; auto. apply ty_rel_id.
  - rewrite <- (map_id (insts st)) at 1. apply map_ext. intros [t f]. unfold rinst. simpl. now rewrite rkv_id.
  - intros. now rewrite rv_id.
  - rewrite <- (map_id (slots st)) at 1. apply map_ext. intros. now rewrite rv_id.
Qed.

Lemma state_iso_trans : forall f1 t1 f2 t2 a b c, state_iso f1 t1 a b -> state_iso f2 t2 b c ->
  state_iso (fun x => f2 (f1 x)) (fun x => t2 (t1 x)) a c.
Proof.
  intros f1 t1 f2 t2 a b c H1 H2. destruct H1, H2. split.
  - apply renaming_comp; auto. now rewrite <- iso_flen0.
  - apply renaming_comp; auto. now rewrite <- iso_tlen0.
  - congruence.
  - congruence.
  - intros x o N. apply iso_funcs0 in N. apply iso_funcs1 in N. now rewrite rfobj_comp in N.
  - intros x ty N. apply iso_types0 in N. destruct N as (ty1 & N & F1 & M1).
    apply iso_types1 in N. destruct N as (ty2 & N & F2 & M2). exists ty2. split; auto. split.
    + now rewrite F2, F1, rkv_comp.
    + intro k. rewrite M2, M1. destruct (lookup k (tmethods ty)); simpl; auto. now rewrite rv_comp.
  - rewrite iso_insts1, iso_insts0, map_map. apply map_ext. intros [t f]. unfold rinst. simpl. now rewrite rkv_comp.
  - intros. now rewrite iso_globals1, iso_globals0, rv_comp.
  - rewrite iso_slots1, iso_slots0, map_map. apply map_ext. intros. now rewrite rv_comp.
Qed.

(* ---- the elementary state changes preserve the isomorphism ---------------------------- *)
Section IsoSteps.
  Variables rf rt : addr -> addr.
  Variables st st' : state.
  Hypothesis I : state_iso rf rt st st'.

  Lemma iso_flen_fix : rf (length (funcs st)) = length (funcs st').
  Proof. rewrite (iso_flen _ _ _ _ I). eapply renaming_fix. apply (iso_rf _ _ _ _ I). lia. Qed.
  Lemma iso_tlen_fix : rt (length (types st)) = length (types st').
  Proof. rewrite (iso_tlen _ _ _ _ I). eapply renaming_fix. apply (iso_rt _ _ _ _ I). lia. Qed.

  Lemma iso_alloc_func : forall x,
    state_iso rf rt (set_funcs st (funcs st ++ [x])) (set_funcs st' (funcs st' ++ [rfobj rf x])).
  Proof.
    intros x. pose proof iso_flen_fix as FX. destruct I. split; simpl; auto.
    - rewrite app_length. simpl. eapply renaming_mono; [|eauto]. lia.
    - rewrite !app_length. simpl. lia.
    - intros a o N. destruct (Nat.lt_ge_cases a (length (funcs st))) as [LT|GE].
      + rewrite nth_error_app1 in N by auto. apply iso_funcs0 in N. now apply nth_app_old.
      + assert (a = length (funcs st)).
        { apply nth_lt in N. rewrite app_length in N. simpl in N. lia. }
        subst a. rewrite nth_app_new in N. inv N. rewrite FX. apply nth_app_new.
  Qed.

  Lemma iso_upd_func : forall a x, a < length (funcs st) ->
    state_iso rf rt (set_funcs st (upd (funcs st) a x)) (set_funcs st' (upd (funcs st') (rf a) (rfobj rf x))).
  Proof.
    intros a x LT. destruct I. split; simpl; auto.
    - now rewrite upd_length.
    - now rewrite !upd_length.
    - intros a0 o N. destruct (Nat.eq_dec a a0).
      + subst a0. rewrite nth_upd_same in N by auto. inv N. apply nth_upd_same.
        rewrite iso_flen0. eapply renaming_lt; eauto.
      + rewrite nth_upd_other in N by auto. rewrite nth_upd_other; auto. eapply renaming_neq; eauto.
  Qed.

  Lemma iso_gset : forall n v, state_iso rf rt (gset st n v) (gset st' n (rv rf rt v)).
  Proof.
    intros n v. destruct I. split; simpl; auto.
    intros k. destruct (Z.eq_dec k n).
    - subst. now rewrite !gget_gset_same.
    - rewrite !gget_gset_other by auto. auto.
  Qed.

  Lemma iso_alloc_type : forall ty ty', ty_rel rf rt ty ty' ->
    state_iso rf rt (set_types st (types st ++ [ty])) (set_types st' (types st' ++ [ty'])).
  Proof.
    intros ty ty' R. pose proof iso_tlen_fix as FX. destruct I. split; simpl; auto.
    - rewrite app_length. simpl. eapply renaming_mono; [|eauto]. lia.
    - rewrite !app_length. simpl. lia.
    - intros a o N. destruct (Nat.lt_ge_cases a (length (types st))) as [LT|GE].
      + rewrite nth_error_app1 in N by auto. apply iso_types0 in N. destruct N as (o' & N & R').
        exists o'. split; auto. now apply nth_app_old.
      + assert (a = length (types st)).
        { apply nth_lt in N. rewrite app_length in N. simpl in N. lia. }
        subst a. rewrite nth_app_new in N. inv N. rewrite FX. exists ty'. split; auto. apply nth_app_new.
  Qed.

  Lemma iso_upd_type : forall a ty ty', a < length (types st) -> ty_rel rf rt ty ty' ->
    state_iso rf rt (set_types st (upd (types st) a ty)) (set_types st' (upd (types st') (rt a) ty')).
  Proof.
    intros a ty ty' LT R. destruct I. split; simpl; auto.
    - now rewrite upd_length.
    - now rewrite !upd_length.
    - intros a0 o N. destruct (Nat.eq_dec a a0).
      + subst a0. rewrite nth_upd_same in N by auto. inv N. exists ty'. split; auto. apply nth_upd_same.
        rewrite iso_tlen0. eapply renaming_lt; eauto.
      + rewrite nth_upd_other in N by auto. apply iso_types0 in N. destruct N as (o' & N & R').
        exists o'. split; auto. rewrite nth_upd_other; auto. eapply renaming_neq; eauto.
  Qed.

  Lemma iso_alloc_inst : forall o,
    state_iso rf rt (set_insts st (insts st ++ [o])) (set_insts st' (insts st' ++ [rinst rf rt o])).
  Proof.
    intros o. destruct I. split; simpl; auto. rewrite map_app. simpl. now rewrite iso_insts0.
  Qed.

  Lemma map_upd : forall {A B} (f : A -> B) l n x, map f (upd l n x) = upd (map f l) n (f x).
  Proof. induction l; destruct n; simpl; intros; auto. now rewrite IHl. Qed.

  Lemma iso_upd_inst : forall i o,
    state_iso rf rt (set_insts st (upd (insts st) i o)) (set_insts st' (upd (insts st') i (rinst rf rt o))).
  Proof.
    intros i o. destruct I. split; simpl; auto. rewrite map_upd. now rewrite iso_insts0.
  Qed.

  Lemma iso_push_slot : forall v,
    state_iso rf rt (set_slots st (slots st ++ [v])) (set_slots st' (slots st' ++ [rv rf rt v])).
  Proof.
    intros v. destruct I. split; simpl; auto. rewrite map_app. simpl. now rewrite iso_slots0.
  Qed.

  Lemma iso_ilen : length (insts st') = length (insts st).
  Proof. rewrite (iso_insts _ _ _ _ I). apply map_length. Qed.
  Lemma iso_inst_nth : forall i, nth_error (insts st') i = option_map (rinst rf rt) (nth_error (insts st) i).
  Proof. intros. rewrite (iso_insts _ _ _ _ I). apply nth_error_map. Qed.
  Lemma iso_slot_nth : forall i, nth_error (slots st') i = option_map (rv rf rt) (nth_error (slots st) i).
  Proof. intros. rewrite (iso_slots _ _ _ _ I). apply nth_error_map. Qed.
End IsoSteps.

(* ================================================================================== *)
(* 4. simulation: the same instruction / expression / host operation in isomorphic    *)
(*    states gives isomorphic states and corresponding values                          *)
(* ================================================================================== *)
Section Sim.
  Variables rf rt : addr -> addr.
  Notation iso := (state_iso rf rt).
  Notation rv' := (rv rf rt).

  Lemma sim_get_index : forall st st' i a st1 v, iso st st' -> get_index st i a = Some (st1, v) ->
    exists st1', get_index st' i a = Some (st1', rv' v) /\ iso st1 st1'.
  Proof.
    unfold get_index. intros st st' i a st1 v I E.
    rewrite (iso_inst_nth _ _ _ _ I). destruct (nth_error (insts st) i) as [o|]; try discriminate. simpl.
    rewrite lookup_rkv. destruct (lookup a (ifields o)) as [w|]; simpl.
    - inv E. eauto.
    - destruct (nth_error (types st) (ity o)) as [t|] eqn:N; try discriminate.
      destruct (iso_types _ _ _ _ I _ _ N) as (t' & N' & _ & M). rewrite N', M.
      destruct (lookup a (tmethods t)) as [[| |f| |]|]; try discriminate. simpl. inv E.
      rewrite <- (iso_flen_fix _ _ _ _ I).
      eexists. split. reflexivity. exact (iso_alloc_func _ _ _ _ I (FBound i f)).
  Qed.

  Lemma sim_eval_path : forall p st st' st1 v, iso st st' -> eval_path st p = Some (st1, v) ->
    exists st1', eval_path st' p = Some (st1', rv' v) /\ iso st1 st1'.
  Proof.
    induction p as [n|k|q IH a]; simpl; intros st st' st1 v I E.
    - inv E. rewrite (iso_globals _ _ _ _ I). eauto.
    - rewrite (iso_slot_nth _ _ _ _ I). destruct (nth_error (slots st) k); inv E. simpl. eauto.
    - destruct (eval_path st q) as [[s1 w]|] eqn:E1; try discriminate.
      destruct (IH _ _ _ _ I E1) as (s1' & E1' & I1). rewrite E1'.
      destruct w; try discriminate. simpl. eapply sim_get_index; eauto.
  Qed.

  Lemma sim_eval_arg : forall a st st' st1 v, iso st st' -> eval_arg st a = Some (st1, v) ->
    exists st1', eval_arg st' a = Some (st1', rv' v) /\ iso st1 st1'.
  Proof.
    destruct a; simpl; intros.
    - inv H0. eauto.
    - eapply sim_eval_path; eauto.
  Qed.

  Lemma sim_eval_args : forall fs st st' st1 vs, iso st st' -> eval_args st fs = Some (st1, vs) ->
    exists st1', eval_args st' fs = Some (st1', rkv rf rt vs) /\ iso st1 st1'.
  Proof.
    induction fs as [|[k a] r IH]; simpl; intros st st' st1 vs I E.
    - inv E. eauto.
    - destruct (eval_arg st a) as [[s1 v]|] eqn:E1; try discriminate.
      destruct (sim_eval_arg _ _ _ _ _ I E1) as (s1' & E1' & I1). rewrite E1'.
      destruct (eval_args s1 r) as [[s2 vs']|] eqn:E2; try discriminate. inv E.
      destruct (IH _ _ _ _ I1 E2) as (s2' & E2' & I2). rewrite E2'. eauto.
  Qed.

  Lemma sim_eval_expr : forall e st st' st1 v, iso st st' -> eval_expr st e = Some (st1, v) ->
    exists st1', eval_expr st' e = Some (st1', rv' v) /\ iso st1 st1'.
  Proof.
    destruct e as [a|t fs]; simpl; intros st st' st1 v I E.
    - eapply sim_eval_arg; eauto.
    - destruct (eval_args st fs) as [[s1 vs]|] eqn:E1; try discriminate.
      destruct (sim_eval_args _ _ _ _ _ I E1) as (s1' & E1' & I1). rewrite E1'.
      rewrite (iso_globals _ _ _ _ I1). destruct (gget s1 t) as [| | |ta|]; try discriminate. simpl.
      destruct (nth_error (types s1) ta) as [ty|] eqn:N; try discriminate. inv E.
      destruct (iso_types _ _ _ _ I1 _ _ N) as (ty' & N' & F & _). rewrite N', F, rkv_set_fields.
      rewrite (iso_ilen _ _ _ _ I1).
      eexists. split. reflexivity. exact (iso_alloc_inst _ _ _ _ I1 (mkInst ta (set_fields (tfields ty) vs))).
  Qed.

  (* the constants an instruction carries are scalars *)
  Definition iscalar (i : instr) : Prop :=
    match i with
    | GlobalStruct _ fs => kv_scalar fs
    | GlobalZero _ z => scalar z
    | _ => True
    end.

  Lemma fold_upsert_rkv : forall fs l, kv_scalar fs ->
    fold_left (fun acc kv => upsert (fst kv) (snd kv) acc) fs (rkv rf rt l) =
    rkv rf rt (fold_left (fun acc kv => upsert (fst kv) (snd kv) acc) fs l).
  Proof.
    induction fs as [|[k v] r IH]; simpl; intros l H; auto. inv H. simpl in *.
    rewrite <- IH by auto. f_equal. rewrite <- rkv_upsert. now rewrite rv_scalar.
  Qed.

  Lemma sim_exec_instr : forall i st st' st1, iscalar i -> iso st st' -> exec_instr st i = Some st1 ->
    exists st1', exec_instr st' i = Some st1' /\ iso st1 st1'.
  Proof.
    intros i st st' st1 SC I E. destruct i as [t fs|t m b|n b|n z|n e]; simpl in SC.
    - (* GlobalStruct *)
      apply exec_GlobalStruct in E. simpl. rewrite (iso_globals _ _ _ _ I).
      destruct E as [[G ->]|(ta & ty & G & N & ->)]; rewrite G; simpl.
      + eexists. split. reflexivity. rewrite <- (iso_tlen_fix _ _ _ _ I).
        apply (iso_gset _ _ _ _ (iso_alloc_type _ _ _ _ I (mkTy fs []) (mkTy fs []) ltac:(split; simpl; [now rewrite rkv_scalar | intro; reflexivity])) t (VType (length (types st)))).
      + destruct (iso_types _ _ _ _ I _ _ N) as (ty' & N' & F & M). rewrite N'.
        eexists. split. reflexivity. apply iso_upd_type; auto. eapply nth_lt; eauto.
        split; simpl; auto. rewrite F. now apply fold_upsert_rkv.
    - (* SetMethod *)
      apply exec_SetMethod in E. simpl. rewrite (iso_globals _ _ _ _ I).
      destruct E as (ta & ty & G & N & E). rewrite G. simpl.
      destruct (iso_types _ _ _ _ I _ _ N) as (ty' & N' & F & M). rewrite N', M.
      destruct E as [(a & L & LT & ->)|(FN & ->)].
      + rewrite L. simpl. unfold overwrite. rewrite (iso_flen _ _ _ _ I).
        assert (LT' : rf a < length (funcs st)) by (eapply renaming_lt; eauto; apply (iso_rf _ _ _ _ I)).
        apply Nat.ltb_lt in LT'. rewrite LT'. eexists. split. reflexivity.
        apply (iso_upd_func _ _ _ _ I a (FBody b) LT).
      + simpl in FN. rewrite G, N in FN.
        assert (exists st1', match option_map rv' (lookup m (tmethods ty)) with
                             | Some (VFunc a) => overwrite st' a b
                             | _ => Some (set_types (set_funcs st' (funcs st' ++ [FBody b]))
                                      (upd (types st') (rt ta) (mkTy (tfields ty') (upsert m (VFunc (length (funcs st'))) (tmethods ty')))))
                             end = Some st1' /\
                  iso (set_types (set_funcs st (funcs st ++ [FBody b]))
                        (upd (types st) ta (mkTy (tfields ty) (upsert m (VFunc (length (funcs st))) (tmethods ty))))) st1') as X.
        { assert (II : iso (set_types (set_funcs st (funcs st ++ [FBody b]))
                        (upd (types st) ta (mkTy (tfields ty) (upsert m (VFunc (length (funcs st))) (tmethods ty)))))
                      (set_types (set_funcs st' (funcs st' ++ [FBody b]))
                                      (upd (types st') (rt ta) (mkTy (tfields ty') (upsert m (VFunc (length (funcs st'))) (tmethods ty')))))).
          { apply (iso_upd_type _ _ _ _ (iso_alloc_func _ _ _ _ I (FBody b))).
            - simpl. eapply nth_lt; eauto.
            - split; simpl; auto. rewrite <- (iso_flen_fix _ _ _ _ I).
              apply (maps_to_upsert rf rt m (VFunc (length (funcs st)))). exact M. }
          destruct (lookup m (tmethods ty)) as [[]|]; simpl; try discriminate; eauto. }
        exact X.
    - (* GlobalFunc *)
      apply exec_GlobalFunc in E. simpl. rewrite (iso_globals _ _ _ _ I).
      destruct E as [[G ->]|(a & G & LT & ->)]; rewrite G; simpl.
      + eexists. split. reflexivity. rewrite <- (iso_flen_fix _ _ _ _ I).
        apply (iso_gset _ _ _ _ (iso_alloc_func _ _ _ _ I (FBody b)) n (VFunc (length (funcs st)))).
      + unfold overwrite. rewrite (iso_flen _ _ _ _ I).
        assert (LT' : rf a < length (funcs st)) by (eapply renaming_lt; eauto; apply (iso_rf _ _ _ _ I)).
        apply Nat.ltb_lt in LT'. rewrite LT'. eexists. split. reflexivity.
        apply (iso_upd_func _ _ _ _ I a (FBody b) LT).
    - (* GlobalZero *)
      apply exec_GlobalZero in E. simpl. rewrite (iso_globals _ _ _ _ I), is_nil_rv.
      destruct E as [[G ->]|[G ->]]; rewrite G.
      + eexists. split. reflexivity. rewrite <- (rv_scalar rf rt z SC) at 2. now apply iso_gset.
      + eauto.
    - (* GlobalSet *)
      simpl in E. simpl. destruct (eval_expr st e) as [[s1 v]|] eqn:E1; inv E.
      destruct (sim_eval_expr _ _ _ _ _ I E1) as (s1' & E1' & I1). rewrite E1'.
      eexists. split. reflexivity. now apply iso_gset.
  Qed.

  Lemma sim_exec_list : forall l st st' st1, Forall iscalar l -> iso st st' -> exec_list st l = Some st1 ->
    exists st1', exec_list st' l = Some st1' /\ iso st1 st1'.
  Proof.
    induction l as [|i l IH]; simpl; intros st st' st1 SC I E.
    - inv E. eauto.
    - inv SC. destruct (exec_instr st i) as [s1|] eqn:E1; try discriminate.
      destruct (sim_exec_instr _ _ _ _ H1 I E1) as (s1' & E1' & I1). rewrite E1'. eauto.
  Qed.

  (* ---- what the host can see ---------------------------------------------------------- *)
  Lemma iso_funcs_none : forall st st' a, iso st st' -> nth_error (funcs st) a = None -> nth_error (funcs st') (rf a) = None.
  Proof.
    intros st st' a I N. apply nth_error_None in N. apply nth_error_None.
    rewrite (renaming_fix _ _ _ (iso_rf _ _ _ _ I) N). now rewrite (iso_flen _ _ _ _ I).
  Qed.

  (* CALL of corresponding values: the same body, the same receiver *)
  Lemma sim_call_obs : forall st st' v, iso st st' -> call_obs st' (rv' v) = call_obs st v.
  Proof.
    intros st st' v I. destruct v as [| |c| |]; simpl; auto.
    destruct (nth_error (funcs st) c) as [x|] eqn:N.
    - rewrite (iso_funcs _ _ _ _ I _ _ N). destruct x as [b|r f]; simpl; auto.
      destruct (nth_error (funcs st) f) as [y|] eqn:N'.
      + rewrite (iso_funcs _ _ _ _ I _ _ N'). destruct y; simpl; auto.
      + now rewrite (iso_funcs_none _ _ _ I N').
    - now rewrite (iso_funcs_none _ _ _ I N).
  Qed.

  Lemma sim_same_obj : forall st st' v w, iso st st' -> same_obj (rv' v) (rv' w) = same_obj v w.
  Proof.
    intros st st' v w I.
    assert (EF : forall a b, (rf a =? rf b) = (a =? b)).
    { intros. destruct (a =? b) eqn:E.
      - apply Nat.eqb_eq in E. subst. apply Nat.eqb_refl.
      - apply Nat.eqb_neq. apply Nat.eqb_neq in E. eapply renaming_neq; eauto. apply (iso_rf _ _ _ _ I). }
    assert (ET : forall a b, (rt a =? rt b) = (a =? b)).
    { intros. destruct (a =? b) eqn:E.
      - apply Nat.eqb_eq in E. subst. apply Nat.eqb_refl.
      - apply Nat.eqb_neq. apply Nat.eqb_neq in E. eapply renaming_neq; eauto. apply (iso_rt _ _ _ _ I). }
    destruct v, w; simpl; auto. now rewrite EF. now rewrite ET.
  Qed.

  Lemma sim_store : forall l v st st' st1, iso st st' -> store st l v = Some st1 ->
    exists st1', store st' l (rv' v) = Some st1' /\ iso st1 st1'.
  Proof.
    destruct l as [|n|p f]; simpl; intros v st st' st1 I E.
    - inv E. eexists. split. reflexivity. now apply iso_push_slot.
    - inv E. eexists. split. reflexivity. now apply iso_gset.
    - destruct (eval_path st p) as [[s1 w]|] eqn:E1; try discriminate.
      destruct (sim_eval_path _ _ _ _ _ I E1) as (s1' & E1' & I1). rewrite E1'.
      destruct w as [| | | |i]; try discriminate. simpl.
      rewrite (iso_inst_nth _ _ _ _ I1). destruct (nth_error (insts s1) i) as [o|]; inv E. simpl.
      eexists. split. reflexivity. rewrite rkv_assign.
      apply (iso_upd_inst _ _ _ _ I1 i (mkInst (ity o) (assign f v (ifields o)))).
  Qed.
End Sim.

(* ================================================================================== *)
(* 5. closed states: no dangling function / type address                              *)
(* ================================================================================== *)
Definition vok (nf nt : nat) (v : val) : Prop :=
  match v with VFunc a => a < nf | VType a => a < nt | _ => True end.
Definition kvok (nf nt : nat) (l : list (name * val)) : Prop := Forall (fun kv => vok nf nt (snd kv)) l.
Definition fok (nf : nat) (x : fobj) : Prop := match x with FBound _ f => f < nf | FBody _ => True end.
Definition tyok (nf nt : nat) (ty : tyobj) : Prop := kvok nf nt (tfields ty) /\ kvok nf nt (tmethods ty).
Definition iok (nf nt : nat) (o : iobj) : Prop := ity o < nt /\ kvok nf nt (ifields o).

Record closed_at (nf nt : nat) (st : state) : Prop := {
  cl_g : kvok nf nt (globals st);
  cl_f : Forall (fok nf) (funcs st);
  cl_t : Forall (tyok nf nt) (types st);
  cl_i : Forall (iok nf nt) (insts st);
  cl_s : Forall (vok nf nt) (slots st)
}.
Definition closed (st : state) : Prop := closed_at (length (funcs st)) (length (types st)) st.

Lemma closed_init : closed init_state.
Proof. split; simpl; constructor. Qed.

Lemma vok_mono : forall nf nt nf' nt' v, nf <= nf' -> nt <= nt' -> vok nf nt v -> vok nf' nt' v.
Proof. destruct v; simpl; intros; auto; lia. Qed.
Lemma vok_scalar : forall nf nt v, scalar v -> vok nf nt v.
Proof. destruct v; simpl; tauto. Qed.
Lemma kvok_mono : forall nf nt nf' nt' l, nf <= nf' -> nt <= nt' -> kvok nf nt l -> kvok nf' nt' l.
Proof. intros. eapply Forall_impl; [|eauto]. intros. eapply vok_mono; eauto. Qed.
Lemma kvok_scalar : forall nf nt l, kv_scalar l -> kvok nf nt l.
Proof. intros. eapply Forall_impl; [|eauto]. intros. now apply vok_scalar. Qed.
Lemma closed_at_mono : forall nf nt nf' nt' st, nf <= nf' -> nt <= nt' -> closed_at nf nt st -> closed_at nf' nt' st.
Proof.
  intros nf nt nf' nt' st LF LT [G F T I S]. split.
  - eapply kvok_mono; eauto.
  - eapply Forall_impl; [|eauto]. intros [b|r f]; simpl; auto. lia.
  - eapply Forall_impl; [|eauto]. intros ty [A B]. split; eapply kvok_mono; eauto.
  - eapply Forall_impl; [|eauto]. intros o [A B]. split; [lia | eapply kvok_mono; eauto].
  - eapply Forall_impl; [|eauto]. intros. eapply vok_mono; eauto.
Qed.

Lemma kvok_lookup : forall nf nt l k v, kvok nf nt l -> lookup k l = Some v -> vok nf nt v.
Proof.
  induction l as [|[k' v'] r IH]; simpl; intros k v H E; try discriminate. inv H.
  destruct (k =? k')%Z; [inv E; auto | eauto].
Qed.
Lemma kvok_upsert : forall nf nt k v l, kvok nf nt l -> vok nf nt v -> kvok nf nt (upsert k v l).
Proof.
  induction l as [|[k' v'] r IH]; simpl; intros H V.
  - repeat constructor. exact V.
  - inv H. destruct (k =? k')%Z; constructor; auto. apply IH; auto.
Qed.
Lemma kvok_assign : forall nf nt k v l, kvok nf nt l -> vok nf nt v -> kvok nf nt (assign k v l).
Proof.
  induction l as [|[k' v'] r IH]; simpl; intros H V; auto.
  inv H. destruct (k =? k')%Z; constructor; auto. apply IH; auto.
Qed.
Lemma kvok_fold_upsert : forall nf nt fs l, kvok nf nt l -> kvok nf nt fs ->
  kvok nf nt (fold_left (fun acc kv => upsert (fst kv) (snd kv) acc) fs l).
Proof.
  induction fs as [|[k v] r IH]; simpl; intros l H F; auto. inv F. apply IH; auto. apply kvok_upsert; auto.
Qed.
Lemma kvok_set_fields : forall nf nt vs l, kvok nf nt l -> kvok nf nt vs -> kvok nf nt (set_fields l vs).
Proof.
  unfold set_fields. induction vs as [|[k v] r IH]; simpl; intros l H F; auto. inv F. apply IH; auto. apply kvok_assign; auto.
Qed.
Lemma Forall_upd : forall {A} (P : A -> Prop) l n x, Forall P l -> P x -> Forall P (upd l n x).
Proof. induction l; destruct n; simpl; intros x H Px; auto; inv H; constructor; auto. Qed.
Lemma Forall_snoc : forall {A} (P : A -> Prop) l x, Forall P l -> P x -> Forall P (l ++ [x]).
Proof. intros. apply Forall_app. split; auto. Qed.
Lemma Forall_nth : forall {A} (P : A -> Prop) l n x, Forall P l -> nth_error l n = Some x -> P x.
Proof. intros. eapply Forall_forall; eauto. eapply nth_error_In; eauto. Qed.

Lemma closed_gget : forall st n, closed st -> vok (length (funcs st)) (length (types st)) (gget st n).
Proof.
  intros st n C. unfold gget. destruct (lookup n (globals st)) eqn:L; simpl; auto.
  eapply kvok_lookup; eauto. apply C.
Qed.

(* the elementary state changes *)
Lemma closed_alloc_func : forall st x, closed st -> fok (S (length (funcs st))) x -> closed (set_funcs st (funcs st ++ [x])).
Proof.
  intros st x C X. unfold closed. simpl. rewrite app_length. simpl. rewrite Nat.add_1_r.
  assert (C' : closed_at (S (length (funcs st))) (length (types st)) st) by (eapply closed_at_mono; [| |exact C]; lia).
  destruct C' as [G F T I S].
  split; simpl; auto. apply Forall_snoc; auto.
Qed.
Lemma closed_upd_func : forall st a b, closed st -> closed (set_funcs st (upd (funcs st) a (FBody b))).
Proof.
  intros st a b C. unfold closed. simpl. rewrite upd_length. destruct C as [G F T I S].
  split; simpl; auto. apply Forall_upd; simpl; auto.
Qed.
Lemma closed_gset : forall st n v, closed st -> vok (length (funcs st)) (length (types st)) v -> closed (gset st n v).
Proof.
  intros st n v C V. unfold closed. simpl. destruct C as [G F T I S]. split; simpl; auto. apply kvok_upsert; auto.
Qed.
Lemma closed_alloc_type : forall st ty, closed st -> tyok (length (funcs st)) (S (length (types st))) ty ->
  closed (set_types st (types st ++ [ty])).
Proof.
  intros st ty C X. unfold closed. simpl. rewrite app_length. simpl. rewrite Nat.add_1_r.
  assert (C' : closed_at (length (funcs st)) (S (length (types st))) st) by (eapply closed_at_mono; [| |exact C]; lia).
  destruct C' as [G F T I S].
  split; simpl; auto. apply Forall_snoc; auto.
Qed.
Lemma closed_upd_type : forall st a ty, closed st -> tyok (length (funcs st)) (length (types st)) ty ->
  closed (set_types st (upd (types st) a ty)).
Proof.
  intros st a ty C X. unfold closed. simpl. rewrite upd_length. destruct C as [G F T I S].
  split; simpl; auto. apply Forall_upd; auto.
Qed.
Lemma closed_alloc_inst : forall st o, closed st -> iok (length (funcs st)) (length (types st)) o ->
  closed (set_insts st (insts st ++ [o])).
Proof.
  intros st o C X. unfold closed. simpl. destruct C as [G F T I S]. split; simpl; auto. apply Forall_snoc; auto.
Qed.
Lemma closed_upd_inst : forall st i o, closed st -> iok (length (funcs st)) (length (types st)) o ->
  closed (set_insts st (upd (insts st) i o)).
Proof.
  intros st i o C X. unfold closed. simpl. destruct C as [G F T I S]. split; simpl; auto. apply Forall_upd; auto.
Qed.
Lemma closed_push_slot : forall st v, closed st -> vok (length (funcs st)) (length (types st)) v ->
  closed (set_slots st (slots st ++ [v])).
Proof.
  intros st v C X. unfold closed. simpl. destruct C as [G F T I S]. split; simpl; auto. apply Forall_snoc; auto.
Qed.

(* evaluation: the state stays closed and the value is closed *)
Definition cval (st : state) (v : val) : Prop := vok (length (funcs st)) (length (types st)) v.

Lemma frame_len : forall st st', frame st st' ->
  length (funcs st) <= length (funcs st') /\ length (types st') = length (types st).
Proof.
  intros st st' (T & _ & _ & [x F] & _). rewrite F, T, app_length. split; lia.
Qed.
Lemma cval_frame : forall st st' v, frame st st' -> cval st v -> cval st' v.
Proof.
  intros st st' v F V. destruct (frame_len _ _ F) as [A B]. unfold cval in *. rewrite B.
  eapply vok_mono; eauto.
Qed.

Lemma closed_get_index : forall st i a st1 v, closed st -> get_index st i a = Some (st1, v) -> closed st1 /\ cval st1 v.
Proof.
  unfold get_index. intros st i a st1 v C E.
  destruct (nth_error (insts st) i) as [o|] eqn:NI; try discriminate.
  destruct (lookup a (ifields o)) as [w|] eqn:L.
  - inv E. split; auto. destruct (Forall_nth _ _ _ _ (cl_i _ _ _ C) NI) as [_ K].
    eapply kvok_lookup; eauto.
  - destruct (nth_error (types st) (ity o)) as [t|] eqn:NT; try discriminate.
    destruct (lookup a (tmethods t)) as [[| |f| |]|] eqn:LM; try discriminate. inv E.
    destruct (Forall_nth _ _ _ _ (cl_t _ _ _ C) NT) as [_ K].
    pose proof (kvok_lookup _ _ _ _ _ K LM) as V. simpl in V. split.
    + apply closed_alloc_func; auto. simpl. lia.
    + unfold cval. simpl. rewrite app_length. simpl. lia.
Qed.
Lemma closed_eval_path : forall p st st1 v, closed st -> eval_path st p = Some (st1, v) -> closed st1 /\ cval st1 v.
Proof.
  induction p as [n|k|q IH a]; simpl; intros st st1 v C E.
  - inv E. split; auto. now apply closed_gget.
  - destruct (nth_error (slots st) k) eqn:N; inv E. split; auto. eapply Forall_nth; [apply (cl_s _ _ _ C) | exact N].
  - destruct (eval_path st q) as [[s1 w]|] eqn:E1; try discriminate. destruct w; try discriminate.
    destruct (IH _ _ _ C E1) as [C1 _]. eapply closed_get_index; eauto.
Qed.
Lemma closed_eval_arg : forall a st st1 v, closed st -> eval_arg st a = Some (st1, v) -> closed st1 /\ cval st1 v.
Proof.
  destruct a; simpl; intros.
  - inv H0. split; auto. exact Logic.I.
  - eapply closed_eval_path; eauto.
Qed.
Lemma closed_eval_args : forall fs st st1 vs, closed st -> eval_args st fs = Some (st1, vs) ->
  closed st1 /\ kvok (length (funcs st1)) (length (types st1)) vs.
Proof.
  induction fs as [|[k a] r IH]; simpl; intros st st1 vs C E.
  - inv E. split; auto. constructor.
  - destruct (eval_arg st a) as [[s1 v]|] eqn:E1; try discriminate.
    destruct (eval_args s1 r) as [[s2 vs']|] eqn:E2; try discriminate. inv E.
    destruct (closed_eval_arg _ _ _ _ C E1) as [C1 V1]. destruct (IH _ _ _ C1 E2) as [C2 V2]. split; auto.
    constructor; auto. simpl. eapply cval_frame; eauto. eapply eval_args_frame; eauto.
Qed.
Lemma closed_eval_expr : forall e st st1 v, closed st -> eval_expr st e = Some (st1, v) -> closed st1 /\ cval st1 v.
Proof.
  destruct e as [a|t fs]; simpl; intros st st1 v C E.
  - eapply closed_eval_arg; eauto.
  - destruct (eval_args st fs) as [[s1 vs]|] eqn:E1; try discriminate.
    destruct (closed_eval_args _ _ _ _ C E1) as [C1 V1].
    destruct (gget s1 t) as [| | |ta|] eqn:G; try discriminate.
    destruct (nth_error (types s1) ta) as [ty|] eqn:N; try discriminate. inv E. split.
    + apply closed_alloc_inst; auto. split; simpl. eapply nth_lt; eauto.
      apply kvok_set_fields; auto. apply (Forall_nth _ _ _ _ (cl_t _ _ _ C1) N).
    + exact Logic.I.
Qed.

Lemma closed_exec_instr : forall i st st1, iscalar i -> closed st -> exec_instr st i = Some st1 -> closed st1.
Proof.
  intros i st st1 SC C E. destruct i as [t fs|t m b|n b|n z|n e]; simpl in SC.
  - apply exec_GlobalStruct in E. destruct E as [[G ->]|(ta & ty & G & N & ->)].
    + apply closed_gset.
      * apply closed_alloc_type; auto. split; simpl; [now apply kvok_scalar | constructor].
      * simpl. rewrite app_length. simpl. lia.
    + apply closed_upd_type; auto. destruct (Forall_nth _ _ _ _ (cl_t _ _ _ C) N) as [A B]. split; simpl; auto.
      apply kvok_fold_upsert; auto. now apply kvok_scalar.
  - apply exec_SetMethod in E. destruct E as (ta & ty & G & N & [(a & L & LT & ->)|(FN & ->)]).
    + now apply closed_upd_func.
    + pose proof (closed_alloc_func st (FBody b) C Logic.I) as C1.
      apply (closed_upd_type _ ta _ C1). simpl. rewrite app_length. simpl.
      destruct (Forall_nth _ _ _ _ (cl_t _ _ _ C) N) as [A B]. split; simpl.
      * eapply kvok_mono; [| |eauto]; lia.
      * apply kvok_upsert; [eapply kvok_mono; [| |eauto]; lia | simpl; lia].
  - apply exec_GlobalFunc in E. destruct E as [[G ->]|(a & G & LT & ->)].
    + apply closed_gset. apply closed_alloc_func; simpl; auto. simpl. rewrite app_length. simpl. lia.
    + now apply closed_upd_func.
  - apply exec_GlobalZero in E. destruct E as [[G ->]|[G ->]]; auto. apply closed_gset; auto. now apply vok_scalar.
  - simpl in E. destruct (eval_expr st e) as [[s1 v]|] eqn:E1; inv E.
    destruct (closed_eval_expr _ _ _ _ C E1) as [C1 V1]. now apply closed_gset.
Qed.

Lemma closed_exec_list : forall l st st1, Forall iscalar l -> closed st -> exec_list st l = Some st1 -> closed st1.
Proof.
  induction l as [|i l IH]; simpl; intros st st1 SC C E.
  - now inv E.
  - inv SC. destruct (exec_instr st i) as [s1|] eqn:E1; try discriminate.
    eapply (IH s1); [exact H2 | eapply closed_exec_instr; eauto | exact E].
Qed.

(* ================================================================================== *)
(* 6. two different declarations of one level commute, up to a renaming               *)
(* ================================================================================== *)
Lemma upd_app_l : forall {A} (l r : list A) a x, a < length l -> upd (l ++ r) a x = upd l a x ++ r.
Proof. induction l as [|z l IH]; intros r n x; destruct n; simpl; intros; try lia; auto. rewrite IH by lia. auto. Qed.
Lemma upd_comm : forall {A} (l : list A) a b x y, a <> b -> upd (upd l a x) b y = upd (upd l b y) a x.
Proof. induction l as [|z l IH]; intros n m x y; destruct n, m; simpl; intros; auto; try congruence. rewrite IH; auto. Qed.
Lemma upd_upd : forall {A} (l : list A) a x y, upd (upd l a x) a y = upd l a y.
Proof. induction l as [|z l IH]; intros n x y; destruct n; simpl; auto. now rewrite IH. Qed.

(* F ++ [u; v]: the two fresh cells *)
Lemma nth_two_inv : forall {A} (l : list A) u v a x, nth_error (l ++ [u; v]) a = Some x ->
  (a < length l /\ nth_error l a = Some x) \/ (a = length l /\ x = u) \/ (a = S (length l) /\ x = v).
Proof.
  intros A l u v a x N. destruct (Nat.lt_ge_cases a (length l)) as [LT|GE].
  - left. rewrite nth_error_app1 in N by auto. auto.
  - right. rewrite nth_error_app2 in N by auto.
    destruct (a - length l) as [|[|k]] eqn:D; simpl in N.
    + inv N. left. split; auto. lia.
    + inv N. right. split; auto. lia.
    + destruct k; discriminate.
Qed.
Lemma nth_two_0 : forall {A} (l : list A) u v, nth_error (l ++ [u; v]) (length l) = Some u.
Proof. intros. rewrite nth_error_app2 by lia. now rewrite Nat.sub_diag. Qed.
Lemma nth_two_1 : forall {A} (l : list A) u v, nth_error (l ++ [u; v]) (S (length l)) = Some v.
Proof. intros. rewrite nth_error_app2 by lia. replace (S (length l) - length l) with 1 by lia. reflexivity. Qed.
Lemma nth_two_old : forall {A} (l : list A) u v a x, nth_error l a = Some x -> nth_error (l ++ [u; v]) a = Some x.
Proof. intros. now apply nth_app_old. Qed.

(* a renaming that fixes every address of a closed state fixes everything in it *)
Section Fix.
  Variables rf rt : addr -> addr.
  Variables nf nt : nat.
  Hypothesis FF : forall a, a < nf -> rf a = a.
  Hypothesis FT : forall a, a < nt -> rt a = a.

  Lemma rv_fix : forall v, vok nf nt v -> rv rf rt v = v.
  Proof. destruct v; simpl; intros; auto; f_equal; auto. Qed.
  Lemma rkv_fix : forall l, kvok nf nt l -> rkv rf rt l = l.
  Proof.
    induction l as [|[k v] r IH]; simpl; intros H; auto. inv H. simpl in *. rewrite rv_fix by auto. now rewrite IH.
  Qed.
  Lemma maps_to_fix : forall l, kvok nf nt l -> maps_to rf rt l l.
  Proof.
    intros l H k. destruct (lookup k l) eqn:L; simpl; auto. f_equal. symmetry. apply rv_fix. eapply kvok_lookup; eauto.
  Qed.
  Lemma rfobj_fix : forall x, fok nf x -> rfobj rf x = x.
  Proof. destruct x; simpl; intros; auto; rewrite FF; auto. Qed.
  Lemma ty_rel_fix : forall ty, tyok nf nt ty -> ty_rel rf rt ty ty.
  Proof. intros ty [A B]. split. now rewrite rkv_fix. now apply maps_to_fix. Qed.
  Lemma rinst_fix : forall l, Forall (iok nf nt) l -> map (rinst rf rt) l = l.
  Proof.
    induction l as [|[t f] r IH]; simpl; intros H; auto. inv H. destruct H2 as [A B]. simpl in *.
    unfold rinst at 1. simpl. rewrite FT, rkv_fix by auto. now rewrite IH.
  Qed.
  Lemma rvs_fix : forall l, Forall (vok nf nt) l -> map (rv rf rt) l = l.
  Proof. induction l; simpl; intros H; auto. inv H. rewrite rv_fix by auto. now rewrite IHl. Qed.
End Fix.

(* forward computation rules *)
Lemma run_GlobalFunc_A : forall st n b, gget st n = VNil ->
  exec_instr st (GlobalFunc n b) = Some (gset (set_funcs st (funcs st ++ [FBody b])) n (VFunc (length (funcs st)))).
Proof. intros. simpl. now rewrite H. Qed.
Lemma run_GlobalFunc_O : forall st n b a, gget st n = VFunc a -> a < length (funcs st) ->
  exec_instr st (GlobalFunc n b) = Some (set_funcs st (upd (funcs st) a (FBody b))).
Proof. intros. simpl. rewrite H. unfold overwrite. apply Nat.ltb_lt in H0. now rewrite H0. Qed.
Lemma run_GlobalStruct_A : forall st t fs, gget st t = VNil ->
  exec_instr st (GlobalStruct t fs) = Some (gset (set_types st (types st ++ [mkTy fs []])) t (VType (length (types st)))).
Proof. intros. simpl. now rewrite H. Qed.
Lemma run_GlobalStruct_O : forall st t fs ta ty, gget st t = VType ta -> nth_error (types st) ta = Some ty ->
  exec_instr st (GlobalStruct t fs) = Some (set_types st (upd (types st) ta
             (mkTy (fold_left (fun acc kv => upsert (fst kv) (snd kv) acc) fs (tfields ty)) (tmethods ty)))).
Proof. intros. simpl. now rewrite H, H0. Qed.
Lemma run_SetMethod_O : forall st t m b ta ty a, gget st t = VType ta -> nth_error (types st) ta = Some ty ->
  lookup m (tmethods ty) = Some (VFunc a) -> a < length (funcs st) ->
  exec_instr st (SetMethod t m b) = Some (set_funcs st (upd (funcs st) a (FBody b))).
Proof. intros. simpl. rewrite H, H0, H1. unfold overwrite. apply Nat.ltb_lt in H2. now rewrite H2. Qed.
Lemma run_SetMethod_A : forall st t m b ta ty, gget st t = VType ta -> nth_error (types st) ta = Some ty ->
  (forall a, lookup m (tmethods ty) <> Some (VFunc a)) ->
  exec_instr st (SetMethod t m b) = Some (set_types (set_funcs st (funcs st ++ [FBody b]))
            (upd (types st) ta (mkTy (tfields ty) (upsert m (VFunc (length (funcs st))) (tmethods ty))))).
Proof.
  intros. simpl. rewrite H, H0. destruct (lookup m (tmethods ty)) as [[]|] eqn:L; auto. exfalso. eapply H1; eauto.
Qed.

Section Swap.
  Variable S : sig.
  Hypothesis WF : wf_sig S.

  (* same level, different declared key *)
  Definition indep (x y : instr) : Prop :=
    match x, y with
    | GlobalStruct t _, GlobalStruct t' _ => t <> t'
    | SetMethod t m _, SetMethod t' m' _ => (t, m) <> (t', m')
    | GlobalFunc n _, GlobalFunc n' _ => n <> n'
    | _, _ => False
    end.

  Definition swap_ok (st : state) (x y : instr) : Prop :=
    forall s1 s2, exec_instr st x = Some s1 -> exec_instr s1 y = Some s2 ->
    exists s1' s2' rf rt, exec_instr st y = Some s1' /\ exec_instr s1' x = Some s2' /\ state_iso rf rt s2 s2'.

  Lemma closed_fok : forall st a x, closed st -> nth_error (funcs st) a = Some x -> fok (length (funcs st)) x.
  Proof. intros. eapply Forall_nth; [apply (cl_f _ _ _ H)|eauto]. Qed.


  Lemma app_two : forall {A} (l : list A) u v, (l ++ [u]) ++ [v] = l ++ [u; v].
  Proof. intros. now rewrite <- app_assoc. Qed.

  (* two fresh function objects allocated in either order *)
  Lemma swap_funcs_nth : forall st b1 b2 a x, closed st ->
    nth_error (funcs st ++ [FBody b1; FBody b2]) a = Some x ->
    nth_error (funcs st ++ [FBody b2; FBody b1]) (swp (length (funcs st)) (Datatypes.S (length (funcs st))) a) =
      Some (rfobj (swp (length (funcs st)) (Datatypes.S (length (funcs st)))) x).
  Proof.
    intros st b1 b2 a x C N. apply nth_two_inv in N. destruct N as [[LT N]|[[-> ->]|[-> ->]]].
    - rewrite swp_other by lia. rewrite (rfobj_fix _ (length (funcs st))).
      + now apply nth_two_old.
      + intros. apply swp_other; lia.
      + eapply closed_fok; eauto.
    - rewrite swp_l. apply nth_two_1.
    - rewrite swp_r. apply nth_two_0.
  Qed.

  Lemma iso_eq : forall s s', s = s' -> state_iso (fun a => a) (fun a => a) s s'.
  Proof. intros. subst. apply state_iso_refl. Qed.

  Lemma swap_FF : forall st n1 b1 n2 b2, n1 <> n2 -> In n1 (sfuncs S) -> In n2 (sfuncs S) -> Inv S st -> closed st ->
    swap_ok st (GlobalFunc n1 b1) (GlobalFunc n2 b2).
  Proof.
    intros st n1 b1 n2 b2 NE IN1 IN2 IV C s1 s2 E1 E2.
    apply exec_GlobalFunc in E1. destruct E1 as [[G1 ->]|(a1 & G1 & L1 & ->)];
    apply exec_GlobalFunc in E2; destruct E2 as [[G2 E2]|(a2 & G2 & L2 & E2)];
      try rewrite gget_gset_other in G2 by auto; rewrite gget_set_funcs in G2.
    - (* both allocate *)
      set (n := length (funcs st)) in *.
      assert (FXf : forall a, a < n -> swp n (Datatypes.S n) a = a) by (intros; apply swp_other; lia).
      assert (FXt : forall a, a < length (types st) -> a = a) by auto.
      eexists. eexists. exists (swp n (Datatypes.S n)), (fun a => a).
      split. { apply run_GlobalFunc_A. exact G2. }
      split. { apply run_GlobalFunc_A. rewrite gget_gset_other by auto. exact G1. }
      subst s2. simpl. rewrite !app_length. simpl. fold n. rewrite !app_two. replace (n + 1) with (Datatypes.S n) by lia.
      split; simpl.
      + rewrite app_length. simpl. apply renaming_swp; lia.
      + apply renaming_id.
      + rewrite !app_length. reflexivity.
      + reflexivity.
      + intros a x N. now apply swap_funcs_nth.
      + intros a ty N. exists ty. split; auto. apply (ty_rel_fix _ _ n (length (types st))); auto.
        eapply Forall_nth; [apply (cl_t _ _ _ C)|eauto].
      + symmetry. apply (rinst_fix _ _ n (length (types st))); auto. apply C.
      + intros k. unfold gget. simpl.
        destruct (Z.eq_dec k n2) as [->|K2].
        * rewrite lookup_upsert_same. rewrite lookup_upsert_other by auto. rewrite lookup_upsert_same.
          simpl. now rewrite swp_r.
        * rewrite (lookup_upsert_other n2) by auto.
          destruct (Z.eq_dec k n1) as [->|K1].
          -- rewrite !lookup_upsert_same. simpl. now rewrite swp_l.
          -- rewrite !lookup_upsert_other by auto. symmetry.
             apply (rv_fix _ _ n (length (types st))); auto. apply (closed_gget st k C).
      + symmetry. apply (rvs_fix _ _ n (length (types st))); auto. apply C.
    - (* x allocates, y overwrites *)
      assert (A2 : a2 < length (funcs st)) by (pose proof (closed_gget st n2 C) as V; rewrite G2 in V; exact V).
      eexists. eexists. exists (fun a => a), (fun a => a).
      split. { apply run_GlobalFunc_O; eauto. }
      split. { apply run_GlobalFunc_A. rewrite gget_set_funcs. exact G1. }
      apply iso_eq. subst s2. unfold gset, set_funcs, set_globals. simpl.
      rewrite upd_length. rewrite upd_app_l by auto. reflexivity.
    - (* x overwrites, y allocates *)
      eexists. eexists. exists (fun a => a), (fun a => a).
      split. { apply run_GlobalFunc_A; eauto. }
      split. { eapply run_GlobalFunc_O. rewrite gget_gset_other by auto. rewrite gget_set_funcs. eauto.
               simpl. rewrite app_length. lia. }
      apply iso_eq. subst s2. unfold gset, set_funcs, set_globals. simpl.
      rewrite upd_length. rewrite upd_app_l by auto. reflexivity.
    - (* both overwrite: different function objects *)
      assert (NA : a1 <> a2).
      { intro. subst a2. apply NE.
        assert (KFunc n1 = KFunc n2) as EQ; [|now inv EQ].
        apply (inv_inj S st IV (KFunc n1) (KFunc n2) a1); simpl; auto. now rewrite G1. now rewrite G2. }
      simpl in L2. rewrite upd_length in L2.
      eexists. eexists. exists (fun a => a), (fun a => a).
      split. { eapply run_GlobalFunc_O; eauto. }
      split. { eapply run_GlobalFunc_O. rewrite gget_set_funcs. eauto. simpl. now rewrite upd_length. }
      apply iso_eq. subst s2. unfold set_funcs. simpl. now rewrite upd_comm by auto.
  Qed.

  Lemma closed_gget_type : forall st t ta, closed st -> gget st t = VType ta -> ta < length (types st).
  Proof. intros st t ta C G. pose proof (closed_gget st t C) as V. rewrite G in V. exact V. Qed.
  Lemma closed_gget_func : forall st t a, closed st -> gget st t = VFunc a -> a < length (funcs st).
  Proof. intros st t ta C G. pose proof (closed_gget st t C) as V. rewrite G in V. exact V. Qed.

  Lemma swap_TT : forall st t1 fs1 t2 fs2, t1 <> t2 -> In t1 (tnames S) -> In t2 (tnames S) ->
    kv_scalar fs1 -> kv_scalar fs2 -> Inv S st -> closed st ->
    swap_ok st (GlobalStruct t1 fs1) (GlobalStruct t2 fs2).
  Proof.
    intros st t1 fs1 t2 fs2 NE IN1 IN2 SC1 SC2 IV C s1 s2 E1 E2.
    apply exec_GlobalStruct in E1. destruct E1 as [[G1 ->]|(ta1 & ty1 & G1 & N1 & ->)];
    apply exec_GlobalStruct in E2; destruct E2 as [[G2 E2]|(ta2 & ty2 & G2 & N2 & E2)];
      try rewrite gget_gset_other in G2 by auto; rewrite gget_set_types in G2.
    - (* both allocate *)
      set (n := length (types st)) in *.
      assert (FXt : forall a, a < n -> swp n (Datatypes.S n) a = a) by (intros; apply swp_other; lia).
      assert (FXf : forall a, a < length (funcs st) -> a = a) by auto.
      eexists. eexists. exists (fun a => a), (swp n (Datatypes.S n)).
      split. { apply run_GlobalStruct_A. exact G2. }
      split. { apply run_GlobalStruct_A. rewrite gget_gset_other by auto. exact G1. }
      subst s2. simpl. rewrite !app_length. simpl. fold n. rewrite !app_two. replace (n + 1) with (Datatypes.S n) by lia.
      split; simpl.
      + apply renaming_id.
      + rewrite app_length. simpl. apply renaming_swp; lia.
      + reflexivity.
      + rewrite !app_length. reflexivity.
      + intros a x N. rewrite (rfobj_fix _ (length (funcs st))); auto. eapply closed_fok; eauto.
      + intros a ty N. apply nth_two_inv in N. destruct N as [[LT N]|[[-> ->]|[-> ->]]].
        * rewrite swp_other by (fold n; lia). exists ty. split. now apply nth_two_old.
          apply (ty_rel_fix _ _ (length (funcs st)) n); auto. eapply Forall_nth; [apply (cl_t _ _ _ C)|eauto].
        * fold n. rewrite swp_l. eexists. split. apply nth_two_1. split; simpl. now rewrite rkv_scalar. intro; reflexivity.
        * fold n. rewrite swp_r. eexists. split. apply nth_two_0. split; simpl. now rewrite rkv_scalar. intro; reflexivity.
      + symmetry. apply (rinst_fix _ _ (length (funcs st)) n); auto. apply C.
      + intros k. unfold gget. simpl.
        destruct (Z.eq_dec k t2) as [->|K2].
        * rewrite lookup_upsert_same. rewrite lookup_upsert_other by auto. rewrite lookup_upsert_same.
          simpl. now rewrite swp_r.
        * rewrite (lookup_upsert_other t2) by auto.
          destruct (Z.eq_dec k t1) as [->|K1].
          -- rewrite !lookup_upsert_same. simpl. now rewrite swp_l.
          -- rewrite !lookup_upsert_other by auto. symmetry.
             apply (rv_fix _ _ (length (funcs st)) n); auto. apply (closed_gget st k C).
      + symmetry. apply (rvs_fix _ _ (length (funcs st)) n); auto. apply C.
    - (* x allocates, y syncs *)
      pose proof (closed_gget_type _ _ _ C G2) as A2.
      simpl in N2. rewrite nth_error_app1 in N2 by auto.
      eexists. eexists. exists (fun a => a), (fun a => a).
      split. { eapply run_GlobalStruct_O; eauto. }
      split. { apply run_GlobalStruct_A. rewrite gget_set_types. exact G1. }
      apply iso_eq. subst s2. unfold gset, set_types, set_globals. simpl.
      rewrite upd_length. rewrite upd_app_l by auto. reflexivity.
    - (* x syncs, y allocates *)
      pose proof (nth_lt _ _ _ N1) as A1.
      eexists. eexists. exists (fun a => a), (fun a => a).
      split. { apply run_GlobalStruct_A; eauto. }
      split. { eapply run_GlobalStruct_O. rewrite gget_gset_other by auto. rewrite gget_set_types. eauto.
               simpl. apply nth_app_old. eauto. }
      apply iso_eq. subst s2. unfold gset, set_types, set_globals. simpl.
      rewrite upd_length. rewrite upd_app_l by auto. reflexivity.
    - (* both sync: different type objects *)
      assert (NA : ta1 <> ta2).
      { intro. subst ta2. apply NE. eapply (inv_tyinj S st IV); eauto. }
      simpl in N2. rewrite nth_upd_other in N2 by auto.
      eexists. eexists. exists (fun a => a), (fun a => a).
      split. { eapply run_GlobalStruct_O; eauto. }
      split. { eapply run_GlobalStruct_O. rewrite gget_set_types. eauto. simpl. rewrite nth_upd_other by auto. eauto. }
      apply iso_eq. subst s2. unfold set_types. simpl. now rewrite upd_comm by auto.
  Qed.

  Lemma fn_addr_meth_inv : forall st t m a, fn_addr st (KMeth t m) = Some a ->
    exists ta ty, gget st t = VType ta /\ nth_error (types st) ta = Some ty /\ lookup m (tmethods ty) = Some (VFunc a).
  Proof.
    simpl. intros st t m a H. destruct (gget st t) as [| | |ta|] eqn:G; try discriminate.
    destruct (nth_error (types st) ta) as [ty|] eqn:N; try discriminate.
    destruct (lookup m (tmethods ty)) as [[| |f| |]|] eqn:L; try discriminate. inv H. exists ta, ty. auto.
  Qed.
  Lemma fn_addr_meth_none : forall st t m ta ty, gget st t = VType ta -> nth_error (types st) ta = Some ty ->
    fn_addr st (KMeth t m) = None -> forall a, lookup m (tmethods ty) <> Some (VFunc a).
  Proof. simpl. intros st t m ta ty G N H a L. rewrite G, N, L in H. discriminate. Qed.
  Lemma fn_addr_meth_some : forall st t m ta ty a, gget st t = VType ta -> nth_error (types st) ta = Some ty ->
    lookup m (tmethods ty) = Some (VFunc a) -> fn_addr st (KMeth t m) = Some a.
  Proof. simpl. intros st t m ta ty a G N L. now rewrite G, N, L. Qed.

  Lemma key_is_meth_other : forall t1 m1 b1 t2 m2, (t1, m1) <> (t2, m2) -> key_is (SetMethod t1 m1 b1) (KMeth t2 m2) = false.
  Proof. intros. apply key_is_false. simpl. intro E. inv E. congruence. Qed.

  Lemma lookup_upsert_comm : forall {V} a b (x y : V) l k, a <> b ->
    lookup k (upsert a x (upsert b y l)) = lookup k (upsert b y (upsert a x l)).
  Proof.
    intros V a b x y l k NE. destruct (Z.eq_dec k a) as [Ka|Ka]; destruct (Z.eq_dec k b) as [Kb|Kb]; try congruence.
    - subst k. rewrite lookup_upsert_same, lookup_upsert_other, lookup_upsert_same by auto. auto.
    - subst k. rewrite lookup_upsert_other, !lookup_upsert_same by auto. auto.
    - now rewrite !lookup_upsert_other by auto.
  Qed.

  Lemma swap_MM : forall st t1 m1 b1 t2 m2 b2, (t1, m1) <> (t2, m2) -> In (t1, m1) (smethods S) -> In (t2, m2) (smethods S) ->
    Inv S st -> closed st -> swap_ok st (SetMethod t1 m1 b1) (SetMethod t2 m2 b2).
  Proof.
    intros st t1 m1 b1 t2 m2 b2 NE IN1 IN2 IV C s1 s2 E1 E2.
    assert (OK1 : instr_ok S (SetMethod t1 m1 b1)) by exact IN1.
    assert (OK2 : instr_ok S (SetMethod t2 m2 b2)) by exact IN2.
    assert (KO1 : key_ok S (KMeth t1 m1)) by exact IN1.
    assert (KO2 : key_ok S (KMeth t2 m2)) by exact IN2.
    pose proof (wf_meth S WF _ _ IN1) as T1. pose proof (wf_meth S WF _ _ IN2) as T2.
    pose proof (exec_inv S WF _ _ _ OK1 IV E1) as IV1.
    (* the address of y's key is not affected by x *)
    pose proof (exec_fn_addr S WF _ _ _ OK1 IV E1 _ KO2) as FA2. rewrite key_is_meth_other in FA2 by auto.
    assert (FA2' : fn_addr s1 (KMeth t2 m2) = fn_addr st (KMeth t2 m2)) by (rewrite FA2; destruct (fn_addr st (KMeth t2 m2)); auto).
    clear FA2.
    pose proof E1 as X1. pose proof E2 as X2.
    apply exec_SetMethod in X1. destruct X1 as (ta1 & ty1 & G1 & N1 & X1).
    apply exec_SetMethod in X2. destruct X2 as (ta2 & ty2' & G2' & N2' & X2).
    assert (G2 : gget st t2 = VType ta2).
    { destruct X1 as [(a1 & L1 & LT1 & ->)|(FN1 & ->)]; exact G2'. }
    pose proof (closed_gget_type _ _ _ C G2) as LT2.
    destruct (nth_error (types st) ta2) as [ty2|] eqn:N2; [|apply nth_error_None in N2; lia].
    assert (SAME : ta1 = ta2 -> t1 = t2 /\ m1 <> m2 /\ ty1 = ty2).
    { intro. subst ta2. assert (t1 = t2) by (eapply (inv_tyinj S st IV); eauto). subst t2.
      split; auto. split; [congruence|]. congruence. }
    destruct X1 as [(a1 & L1 & LT1 & ->)|(FN1 & ->)]; destruct X2 as [(a2 & L2 & LT2' & ->)|(FN2 & ->)].
    - (* both overwrite: different function objects *)
      simpl in N2'. rewrite N2 in N2'. inv N2'. simpl in LT2'. rewrite upd_length in LT2'.
      assert (NA : a1 <> a2).
      { intro. subst a2. apply NE.
        assert (KMeth t1 m1 = KMeth t2 m2) as EQ; [|now inv EQ].
        apply (inv_inj S st IV _ _ a1 KO1 KO2); eapply fn_addr_meth_some; eauto. }
      eexists. eexists. exists (fun a => a), (fun a => a).
      split. { eapply run_SetMethod_O; eauto. }
      split. { eapply run_SetMethod_O; simpl; eauto. now rewrite upd_length. }
      apply iso_eq. unfold set_funcs. simpl. now rewrite upd_comm by auto.
    - (* x overwrites, y allocates *)
      simpl in N2'. rewrite N2 in N2'. inv N2'. rewrite FA2' in FN2.
      pose proof (fn_addr_meth_none _ _ _ _ _ G2 N2 FN2) as NL2.
      pose proof (run_SetMethod_A st t2 m2 b2 ta2 ty2' G2 N2 NL2) as R2.
      (* x's key keeps its address across y *)
      pose proof (exec_fn_addr S WF _ _ _ OK2 IV R2 _ KO1) as FA1.
      rewrite (fn_addr_meth_some _ _ _ _ _ _ G1 N1 L1) in FA1.
      apply fn_addr_meth_inv in FA1. destruct FA1 as (ta1' & ty1' & G1' & N1' & L1').
      eexists. eexists. exists (fun a => a), (fun a => a).
      split. { exact R2. }
      split. { eapply run_SetMethod_O; eauto. simpl. rewrite app_length. lia. }
      apply iso_eq. unfold set_funcs, set_types. simpl. rewrite upd_length. now rewrite upd_app_l by auto.
    - (* x allocates, y overwrites *)
      pose proof (fn_addr_meth_some _ _ _ _ _ _ G2' N2' L2) as F2. rewrite FA2' in F2.
      destruct (inv_faddr S st IV _ _ KO2 F2) as [b0 NB]. apply nth_lt in NB.
      apply fn_addr_meth_inv in F2. destruct F2 as (ta2_ & ty2_ & G2_ & N2_ & L2_).
      pose proof (fn_addr_meth_none _ _ _ _ _ G1 N1 FN1) as NL1.
      eexists. eexists. exists (fun a => a), (fun a => a).
      split. { eapply run_SetMethod_O; eauto. }
      split. { eapply run_SetMethod_A; simpl; eauto. }
      apply iso_eq. unfold set_funcs, set_types. simpl. rewrite upd_length. now rewrite upd_app_l by auto.
    - (* both allocate *)
      rewrite FA2' in FN2.
      pose proof (fn_addr_meth_none _ _ _ _ _ G2 N2 FN2) as NL2.
      pose proof (run_SetMethod_A st t2 m2 b2 ta2 ty2 G2 N2 NL2) as R2.
      pose proof (exec_fn_addr S WF _ _ _ OK2 IV R2 _ KO1) as FA1.
      rewrite FN1 in FA1. rewrite key_is_meth_other in FA1 by congruence.
      pose proof (nth_lt _ _ _ N1) as LT1.
      set (n := length (funcs st)) in *.
      set (s1' := set_types (set_funcs st (funcs st ++ [FBody b2]))
            (upd (types st) ta2 (mkTy (tfields ty2) (upsert m2 (VFunc n) (tmethods ty2))))) in *.
      assert (G1' : gget s1' t1 = VType ta1) by exact G1.
      destruct (nth_error (types s1') ta1) as [ty1''|] eqn:N1''; [|apply nth_error_None in N1''; simpl in N1''; rewrite upd_length in N1''; lia].
      pose proof (fn_addr_meth_none _ _ _ _ _ G1' N1'' FA1) as NL1.
      pose proof (run_SetMethod_A s1' t1 m1 b1 ta1 ty1'' G1' N1'' NL1) as R1.
      assert (FXf : forall a, a < n -> swp n (Datatypes.S n) a = a) by (intros; apply swp_other; lia).
      assert (FXt : forall a, a < length (types st) -> a = a) by auto.
      assert (OLD : forall a ty, nth_error (types st) a = Some ty -> ty_rel (swp n (Datatypes.S n)) (fun a => a) ty ty).
      { intros a ty N. apply (ty_rel_fix _ _ n (length (types st))); auto. eapply Forall_nth; [apply (cl_t _ _ _ C)|eauto]. }
      eexists. eexists. exists (swp n (Datatypes.S n)), (fun a => a).
      split. { exact R2. }
      split. { exact R1. }
      simpl. rewrite !app_length. simpl. fold n. rewrite !app_two. replace (n + 1) with (Datatypes.S n) by lia.
      split; simpl.
      + rewrite app_length. simpl. apply renaming_swp; lia.
      + apply renaming_id.
      + rewrite !app_length. reflexivity.
      + now rewrite !upd_length.
      + intros a x N. now apply swap_funcs_nth.
      + assert (RL : rv (swp n (Datatypes.S n)) (fun a => a) (VFunc n) = VFunc (Datatypes.S n)) by (simpl; now rewrite swp_l).
        assert (RR : rv (swp n (Datatypes.S n)) (fun a => a) (VFunc (Datatypes.S n)) = VFunc n) by (simpl; now rewrite swp_r).
        unfold s1' in N1''. simpl in N1'', N2'.
        destruct (Nat.eq_dec ta1 ta2) as [EQ|NEQ].
        * (* two methods of one type *)
          destruct (SAME EQ) as (_ & NM & ->). subst ta2.
          rewrite nth_upd_same in N2' by auto. inv N2'. rewrite nth_upd_same in N1'' by auto. inv N1''. simpl.
          rewrite !upd_upd. destruct (OLD _ _ N1) as [Fx Mx].
          intros a ty N. destruct (Nat.eq_dec ta1 a) as [<-|NA].
          -- rewrite nth_upd_same in N by auto. inv N. rewrite nth_upd_same by auto.
             eexists. split. reflexivity. split; simpl; auto.
             pose proof (maps_to_upsert _ _ m2 (VFunc (Datatypes.S n)) _ _ (maps_to_upsert _ _ m1 (VFunc n) _ _ Mx)) as M.
             rewrite RL, RR in M. intro k. rewrite <- M. apply lookup_upsert_comm. auto.
          -- rewrite nth_upd_other in N by auto. rewrite nth_upd_other by auto. eauto.
        * (* methods of two types *)
          rewrite nth_upd_other in N2' by auto. rewrite N2 in N2'. inv N2'.
          rewrite nth_upd_other in N1'' by auto. rewrite N1 in N1''. inv N1''.
          intros a ty N. destruct (Nat.eq_dec ta1 a) as [<-|NA1]; [|destruct (Nat.eq_dec ta2 a) as [<-|NA2]].
          -- rewrite nth_upd_other in N by auto. rewrite nth_upd_same in N by auto. inv N.
             rewrite nth_upd_same by (rewrite upd_length; auto).
             eexists. split. reflexivity. destruct (OLD _ _ N1) as [Fx Mx]. split; simpl; auto.
             rewrite <- RL. now apply maps_to_upsert.
          -- rewrite nth_upd_same in N by (rewrite upd_length; auto). inv N.
             rewrite nth_upd_other by auto. rewrite nth_upd_same by auto.
             eexists. split. reflexivity. destruct (OLD _ _ N2) as [Fx Mx]. split; simpl; auto.
             rewrite <- RR. now apply maps_to_upsert.
          -- rewrite !nth_upd_other in N by auto. rewrite !nth_upd_other by auto. eauto.
      + symmetry. apply (rinst_fix _ _ n (length (types st))); auto. apply C.
      + intros k. symmetry. apply (rv_fix _ _ n (length (types st))); auto. apply (closed_gget st k C).
      + symmetry. apply (rvs_fix _ _ n (length (types st))); auto. apply C.
  Qed.

  Lemma swap_indep : forall st x y, indep x y -> instr_ok S x -> instr_ok S y -> iscalar x -> iscalar y ->
    Inv S st -> closed st -> swap_ok st x y.
  Proof.
    intros st x y ID OX OY SX SY IV C.
    destruct x as [t1 fs1|t1 m1 b1|n1 b1|n1 z1|n1 e1]; destruct y as [t2 fs2|t2 m2 b2|n2 b2|n2 z2|n2 e2];
      simpl in ID; try contradiction.
    - apply swap_TT; auto.
    - apply swap_MM; auto.
    - apply swap_FF; auto.
  Qed.
End Swap.

(* ================================================================================== *)
(* 7. a permuted level                                                                *)
(* ================================================================================== *)
Section Perm.
  Variable S : sig.
  Hypothesis WF : wf_sig S.

  (* a list of declarations of one level: declared, scalar constants, pairwise equal or of different keys *)
  Definition level_ok (l : list instr) : Prop :=
    Forall (fun i => instr_ok S i /\ iscalar i) l /\ forall x y, In x l -> In y l -> x = y \/ indep x y.

  Lemma level_ok_tail : forall x l, level_ok (x :: l) -> level_ok l.
  Proof. intros x l [A B]. inv A. split; auto. intros. apply B; simpl; auto. Qed.
  Lemma level_ok_perm : forall l l', Permutation l l' -> level_ok l -> level_ok l'.
  Proof.
    intros l l' P [A B]. split.
    - eapply Permutation_Forall; eauto.
    - intros x y X Y. apply Permutation_sym in P. apply B; eapply Permutation_in; eauto.
  Qed.
  Lemma level_ok_scalar : forall l, level_ok l -> Forall iscalar l.
  Proof. intros l [A _]. eapply Forall_impl; [|exact A]. intros i [_ H]. exact H. Qed.

  Lemma perm_exec : forall l l', Permutation l l' -> level_ok l ->
    forall st st' rf rt s, Inv S st -> closed st -> state_iso rf rt st st' -> exec_list st l = Some s ->
    exists s' rf' rt', exec_list st' l' = Some s' /\ state_iso rf' rt' s s'.
  Proof.
    induction 1 as [|x l l' P IH|x y l|l l' l'' P1 IH1 P2 IH2]; intros LO st st' rf rt s IV C I E.
    - simpl in E. inv E. exists st', rf, rt. auto.
    - simpl in E. destruct (exec_instr st x) as [s1|] eqn:E1; try discriminate.
      pose proof LO as [A _]. inv A. destruct H1 as [OX SX].
      destruct (sim_exec_instr _ _ _ _ _ _ SX I E1) as (s1' & E1' & I1).
      simpl. rewrite E1'. apply (IH (level_ok_tail _ _ LO) s1 s1' rf rt s); auto.
      + eapply exec_inv; eauto.
      + eapply closed_exec_instr; eauto.
    - (* y :: x :: l against x :: y :: l *)
      pose proof LO as [A B]. inv A. inv H2. destruct H1 as [OY SY]. destruct H3 as [OX SX].
      pose proof (level_ok_scalar _ (level_ok_tail _ _ (level_ok_tail _ _ LO))) as SL.
      destruct (B y x) as [EQ|ID]; simpl; auto.
      + subst y. destruct (sim_exec_list rf rt (x :: x :: l) st st' s) as (s' & E' & I'); auto. eauto.
      + simpl in E. destruct (exec_instr st y) as [s1|] eqn:E1; try discriminate.
        destruct (exec_instr s1 x) as [s2|] eqn:E2; try discriminate.
        destruct (swap_indep S WF st y x ID OY OX SY SX IV C s1 s2 E1 E2) as (s1b & s2b & rf1 & rt1 & F1 & F2 & IS).
        destruct (sim_exec_instr _ _ _ _ _ _ SX I F1) as (s1b' & F1' & I1).
        destruct (sim_exec_instr _ _ _ _ _ _ SY I1 F2) as (s2b' & F2' & I2).
        pose proof (state_iso_trans _ _ _ _ _ _ _ IS I2) as I3.
        destruct (sim_exec_list _ _ _ _ _ _ SL I3 E) as (s' & E' & I').
        exists s'. eexists. eexists. split; [|exact I']. simpl. now rewrite F1', F2'.
    - destruct (IH1 LO st st _ _ s IV C (state_iso_refl st) E) as (sm & rf1 & rt1 & Em & Im).
      destruct (IH2 (level_ok_perm _ _ P1 LO) st st' rf rt sm IV C I Em) as (s' & rf2 & rt2 & E' & I').
      exists s'. eexists. eexists. split; [exact E'|]. eapply state_iso_trans; eauto.
  Qed.
End Perm.

(* ================================================================================== *)
(* 8. whole versions                                                                  *)
(* ================================================================================== *)
Definition sig_perm (S S' : sig) : Prop :=
  Permutation (stypes S) (stypes S') /\ Permutation (smethods S) (smethods S') /\
  Permutation (sfuncs S) (sfuncs S') /\ svars S = svars S'.

(* the constants of the declarations are scalars: what ZERO ty produces *)
Definition sig_scalar (S : sig) : Prop :=
  (forall t fs, In (t, fs) (stypes S) -> kv_scalar fs) /\ (forall n z, In (VZero n z) (svars S) -> scalar z).

Lemma sig_perm_sym : forall S S', sig_perm S S' -> sig_perm S' S.
Proof. intros S S' (A & B & C & D). repeat split; auto using Permutation_sym. Qed.
Lemma sig_perm_refl : forall S, sig_perm S S.
Proof. intros. repeat split; auto. Qed.
Lemma sig_scalar_perm : forall S S', sig_perm S S' -> sig_scalar S -> sig_scalar S'.
Proof.
  intros S S' (A & _ & _ & D) [X Y]. split.
  - intros t fs HI. eapply X. eapply Permutation_in; [apply Permutation_sym|]; eauto.
  - intros n z HI. rewrite <- D in HI. eauto.
Qed.
Lemma tnames_perm : forall S S', sig_perm S S' -> Permutation (tnames S) (tnames S').
Proof. intros S S' (A & _). unfold tnames. now apply Permutation_map. Qed.
Lemma vnames_perm : forall S S', sig_perm S S' -> vnames S = vnames S'.
Proof. intros S S' (_ & _ & _ & D). unfold vnames. now rewrite D. Qed.
Lemma key_ok_perm : forall S S' k, sig_perm S S' -> key_ok S k -> key_ok S' k.
Proof. intros S S' k (_ & B & C & _). destruct k; simpl; intros; eapply Permutation_in; eauto. Qed.
Lemma instr_ok_perm : forall S S' i, sig_perm S S' -> instr_ok S i -> instr_ok S' i.
Proof.
  intros S S' i P. pose proof (tnames_perm _ _ P) as T. pose proof (vnames_perm _ _ P) as V.
  destruct P as (_ & B & C & _). destruct i; simpl; intros; try (rewrite <- V; auto); eapply Permutation_in; eauto.
Qed.
Lemma Inv_perm : forall S S' st, sig_perm S S' -> Inv S st -> Inv S' st.
Proof.
  intros S S' st P [A B C D]. pose proof (sig_perm_sym _ _ P) as P'.
  pose proof (tnames_perm _ _ P') as T.
  split.
  - intros k a K. apply A. eapply key_ok_perm; eauto.
  - intros k k' a K K'. apply B; eapply key_ok_perm; eauto.
  - intros t ta HI. apply C. eapply Permutation_in; eauto.
  - intros t t' ta HI HI'. apply D; eapply Permutation_in; eauto.
Qed.

(* wf_sig S' follows from wf_sig S: the theorems keep both hypotheses only for symmetry of the statement *)
Lemma wf_sig_perm : forall S S', sig_perm S S' -> wf_sig S -> wf_sig S'.
Proof.
  intros S S' P [A B C]. pose proof (tnames_perm _ _ P) as T. pose proof (vnames_perm _ _ P) as V.
  destruct P as (PT & PM & PF & _). split.
  - rewrite <- V. eapply Permutation_NoDup; [|exact A].
    apply Permutation_app; auto. apply Permutation_app; auto.
  - intros t m HI. eapply Permutation_in; [exact T|]. eapply B. eapply Permutation_in; [apply Permutation_sym|]; eauto.
  - intros t fs HI. eapply C. eapply Permutation_in; [apply Permutation_sym|]; eauto.
Qed.

Definition Ts (S : sig) : list instr := map (fun tf => GlobalStruct (fst tf) (snd tf)) (stypes S).
Definition Ms (S : sig) (B : bodies) : list instr := map (fun tm => SetMethod (fst tm) (snd tm) (mbody B (fst tm) (snd tm))) (smethods S).
Definition Fs (S : sig) (B : bodies) : list instr := map (fun n => GlobalFunc n (fbody B n)) (sfuncs S).
Definition Vs (S : sig) : list instr := map vinstr (svars S).
Lemma version_of_eq : forall S B, version_of S B = (Ts S ++ Ms S B ++ Fs S B ++ Vs S)%list.
Proof. reflexivity. Qed.

Lemma exec_list_app : forall a b st, exec_list st (a ++ b) = match exec_list st a with Some s => exec_list s b | None => None end.
Proof. induction a as [|i a IH]; simpl; intros; auto. destruct (exec_instr st i); auto. Qed.

Lemma nodup_app_l : forall {A} (a b : list A), NoDup (a ++ b) -> NoDup a.
Proof.
  induction a; simpl; intros. constructor. inv H. constructor; eauto. intro. apply H2. apply in_or_app. auto.
Qed.
Lemma nodup_fst_fun : forall {V} (l : list (name * V)) k v v', NoDup (map fst l) -> In (k, v) l -> In (k, v') l -> v = v'.
Proof.
  induction l as [|[k0 v0] r IH]; simpl; intros k v v' ND H H'; [tauto|]. inv ND.
  destruct H as [H|H]; destruct H' as [H'|H'].
  - congruence.
  - inv H. exfalso. apply H2. change k with (fst (k, v')). now apply in_map.
  - inv H'. exfalso. apply H2. change k with (fst (k, v)). now apply in_map.
  - eauto.
Qed.

Section Version.
  Variable S : sig.
  Hypothesis WF : wf_sig S.
  Hypothesis SC : sig_scalar S.
  Variable B : bodies.

  Lemma Ts_level : level_ok S (Ts S).
  Proof.
    split.
    - apply Forall_forall. intros i HI. apply in_map_iff in HI. destruct HI as ([t fs] & <- & HI). split; simpl.
      + change t with (fst (t, fs)). now apply in_map.
      + eapply (proj1 SC); eauto.
    - intros x y HX HY. apply in_map_iff in HX. destruct HX as ([t1 fs1] & <- & H1).
      apply in_map_iff in HY. destruct HY as ([t2 fs2] & <- & H2). simpl.
      destruct (Z.eq_dec t1 t2) as [->|NE]; [left|right; auto].
      f_equal. eapply nodup_fst_fun; eauto. eapply nodup_app_l. apply (wf_names S WF).
  Qed.
  Lemma Ms_level : level_ok S (Ms S B).
  Proof.
    split.
    - apply Forall_forall. intros i HI. apply in_map_iff in HI. destruct HI as ([t m] & <- & HI). split; simpl; auto.
    - intros x y HX HY. apply in_map_iff in HX. destruct HX as ([t1 m1] & <- & H1).
      apply in_map_iff in HY. destruct HY as ([t2 m2] & <- & H2). simpl.
      destruct (Z.eq_dec t1 t2) as [->|NE]; [destruct (Z.eq_dec m1 m2) as [->|NE]|]; auto; right; congruence.
  Qed.
  Lemma Fs_level : level_ok S (Fs S B).
  Proof.
    split.
    - apply Forall_forall. intros i HI. apply in_map_iff in HI. destruct HI as (n & <- & HI). split; simpl; auto.
    - intros x y HX HY. apply in_map_iff in HX. destruct HX as (n1 & <- & H1).
      apply in_map_iff in HY. destruct HY as (n2 & <- & H2). simpl.
      destruct (Z.eq_dec n1 n2) as [->|NE]; auto.
  Qed.
  Lemma Vs_scalar : Forall iscalar (Vs S).
  Proof.
    apply Forall_forall. intros i HI. apply in_map_iff in HI. destruct HI as ([n z|n e] & <- & HI); simpl; auto.
    eapply (proj2 SC); eauto.
  Qed.
  Lemma version_scalar : Forall iscalar (version_of S B).
  Proof.
    rewrite version_of_eq. repeat rewrite Forall_app. repeat split.
    - apply (level_ok_scalar S _ Ts_level).
    - apply (level_ok_scalar S _ Ms_level).
    - apply (level_ok_scalar S _ Fs_level).
    - apply Vs_scalar.
  Qed.
  Lemma level_instr_ok : forall l, level_ok S l -> Forall (instr_ok S) l.
  Proof. intros l [A _]. eapply Forall_impl; [|exact A]. intros i [H _]. exact H. Qed.

  (* one direction: if the version loads in the order of S, it loads in the order of S', with an isomorphic result *)
  Lemma commute_fwd : forall S' st s, sig_perm S S' -> Inv S st -> closed st ->
    exec_list st (version_of S B) = Some s ->
    exists s' rf rt, exec_list st (version_of S' B) = Some s' /\ state_iso rf rt s s'.
  Proof.
    intros S' st s (PT & PM & PF & PV) IV C E.
    rewrite version_of_eq in *. rewrite exec_list_app in E.
    destruct (exec_list st (Ts S)) as [s1|] eqn:E1; try discriminate. rewrite exec_list_app in E.
    destruct (exec_list s1 (Ms S B)) as [s2|] eqn:E2; try discriminate. rewrite exec_list_app in E.
    destruct (exec_list s2 (Fs S B)) as [s3|] eqn:E3; try discriminate.
    pose proof (exec_list_inv S WF _ _ _ (level_instr_ok _ Ts_level) IV E1) as IV1.
    pose proof (closed_exec_list _ _ _ (level_ok_scalar S _ Ts_level) C E1) as C1.
    pose proof (exec_list_inv S WF _ _ _ (level_instr_ok _ Ms_level) IV1 E2) as IV2.
    pose proof (closed_exec_list _ _ _ (level_ok_scalar S _ Ms_level) C1 E2) as C2.
    destruct (perm_exec S WF (Ts S) (Ts S') (Permutation_map _ PT) Ts_level st st _ _ s1 IV C (state_iso_refl st) E1)
      as (s1' & rf1 & rt1 & E1' & I1).
    destruct (perm_exec S WF (Ms S B) (Ms S' B) (Permutation_map _ PM) Ms_level s1 s1' _ _ s2 IV1 C1 I1 E2)
      as (s2' & rf2 & rt2 & E2' & I2).
    destruct (perm_exec S WF (Fs S B) (Fs S' B) (Permutation_map _ PF) Fs_level s2 s2' _ _ s3 IV2 C2 I2 E3)
      as (s3' & rf3 & rt3 & E3' & I3).
    destruct (sim_exec_list _ _ _ _ _ _ Vs_scalar I3 E) as (s' & E' & I').
    exists s', rf3, rt3. split; auto.
    rewrite exec_list_app, E1', exec_list_app, E2', exec_list_app, E3'. unfold Vs in *. now rewrite <- PV.
  Qed.
End Version.

(* both runs fail, or both succeed with isomorphic results *)
Definition outcome_iso (o o' : option state) : Prop :=
  match o, o' with
  | Some s, Some s' => exists rf rt, state_iso rf rt s s'
  | None, None => True
  | _, _ => False
  end.

(* from any closed state that satisfies the invariant of the reload machine *)
Theorem c16_commute_from : forall S S' B st, wf_sig S -> wf_sig S' -> sig_perm S S' -> sig_scalar S ->
  Inv S st -> closed st ->
  outcome_iso (exec_list st (version_of S B)) (exec_list st (version_of S' B)).
Proof.
  intros S S' B st WF WF' P SC IV C. unfold outcome_iso.
  destruct (exec_list st (version_of S B)) as [s|] eqn:E.
  - destruct (commute_fwd S WF SC B S' st s P IV C E) as (s' & rf & rt & E' & I). rewrite E'. eauto.
  - destruct (exec_list st (version_of S' B)) as [s'|] eqn:E'; auto.
    destruct (commute_fwd S' WF' (sig_scalar_perm _ _ P SC) B S st s' (sig_perm_sym _ _ P) (Inv_perm _ _ _ P IV) C E')
      as (s & rf & rt & E2 & I). congruence.
Qed.

(* ---- C16: from the empty VM ---------------------------------------------------------- *)
Theorem c16_commute : forall S S' B, wf_sig S -> wf_sig S' ->
  Permutation (stypes S) (stypes S') -> Permutation (smethods S) (smethods S') ->
  Permutation (sfuncs S) (sfuncs S') -> svars S = svars S' -> sig_scalar S ->
  outcome_iso (exec_list init_state (version_of S B)) (exec_list init_state (version_of S' B)).
Proof.
  intros S S' B WF WF' PT PM PF PV SC. apply c16_commute_from; auto.
  - repeat split; auto.
  - now apply inv_init.
  - apply closed_init.
Qed.

(* ---- C16: reloading into a VM that already loaded earlier versions, in any declaration orders ---- *)
Inductive reach (S : sig) : state -> Prop :=
| reach_init : reach S init_state
| reach_load : forall st S1 B1 st', reach S st -> sig_perm S S1 ->
    exec_list st (version_of S1 B1) = Some st' -> reach S st'.

Lemma reach_inv : forall S st, wf_sig S -> sig_scalar S -> reach S st -> Inv S st /\ closed st.
Proof.
  intros S st WF SC R. induction R as [|st S1 B1 st' R [IV C] P E].
  - split. now apply inv_init. apply closed_init.
  - pose proof (wf_sig_perm _ _ P WF) as WF1. pose proof (sig_scalar_perm _ _ P SC) as SC1. split.
    + apply (Inv_perm S1 S); [now apply sig_perm_sym|].
      eapply (exec_list_inv S1 WF1); [apply (version_ok S1 B1) | eapply Inv_perm; eauto | exact E].
    + eapply closed_exec_list; [apply (version_scalar S1 WF1 SC1 B1) | exact C | exact E].
Qed.

Theorem c16_commute_reload : forall S S' B st, wf_sig S -> wf_sig S' ->
  Permutation (stypes S) (stypes S') -> Permutation (smethods S) (smethods S') ->
  Permutation (sfuncs S) (sfuncs S') -> svars S = svars S' -> sig_scalar S ->
  reach S st ->
  outcome_iso (exec_list st (version_of S B)) (exec_list st (version_of S' B)).
Proof.
  intros S S' B st WF WF' PT PM PF PV SC R. destruct (reach_inv S st WF SC R) as [IV C].
  apply c16_commute_from; auto. repeat split; auto.
Qed.

(* ================================================================================== *)
(* 9. what isomorphic states have in common                                           *)
(* ================================================================================== *)
Lemma iso_fn_addr : forall rf rt s s' k, state_iso rf rt s s' -> fn_addr s' k = option_map rf (fn_addr s k).
Proof.
  intros rf rt s s' k I. destruct k as [n|t m]; simpl; rewrite (iso_globals _ _ _ _ I).
  - destruct (gget s n); reflexivity.
  - destruct (gget s t) as [| | |ta|]; simpl; auto.
    destruct (nth_error (types s) ta) as [ty|] eqn:N.
    + destruct (iso_types _ _ _ _ I _ _ N) as (ty' & N' & _ & M). rewrite N', M.
      destruct (lookup m (tmethods ty)) as [[]|]; reflexivity.
    + apply nth_error_None in N. assert (N' : nth_error (types s') (rt ta) = None).
      { apply nth_error_None. rewrite (renaming_fix _ _ _ (iso_rt _ _ _ _ I) N). now rewrite (iso_tlen _ _ _ _ I). }
      now rewrite N'.
Qed.

(* every declared function and method has a function object on both sides, at corresponding addresses,
   holding the body the version gives it; any key (declared or not) has an address on one side iff on the other *)
Theorem c16_commute_fn_bodies : forall S S' B s s', wf_sig S -> wf_sig S' ->
  Permutation (stypes S) (stypes S') -> Permutation (smethods S) (smethods S') ->
  Permutation (sfuncs S) (sfuncs S') -> svars S = svars S' -> sig_scalar S ->
  exec_list init_state (version_of S B) = Some s -> exec_list init_state (version_of S' B) = Some s' ->
  exists rf rt, state_iso rf rt s s' /\
    (forall k, fn_addr s' k = option_map rf (fn_addr s k)) /\
    (forall k, key_ok S k -> exists a,
       fn_addr s k = Some a /\ fn_addr s' k = Some (rf a) /\
       nth_error (funcs s) a = Some (FBody (body_of B k)) /\
       nth_error (funcs s') (rf a) = Some (FBody (body_of B k))).
Proof.
  intros S S' B s s' WF WF' PT PM PF PV SC E E'.
  pose proof (c16_commute S S' B WF WF' PT PM PF PV SC) as H. rewrite E, E' in H. destruct H as (rf & rt & I).
  exists rf, rt. split; auto. split. { intro k. eapply iso_fn_addr; eauto. }
  intros k KO. destruct (version_ok S B) as [OK BO].
  destruct (exec_list_defined S WF _ _ _ OK (inv_init S) E k KO (version_has_key S B k KO)) as [a F].
  destruct (exec_list_latest S WF B _ _ _ OK BO (inv_init S) E k a KO F) as [Y _].
  specialize (Y (version_has_key S B k KO)).
  exists a. repeat split; auto.
  - rewrite (iso_fn_addr _ _ _ _ k I), F. reflexivity.
  - apply (iso_funcs _ _ _ _ I _ _ Y).
Qed.

(* ---- histories: loads, stores, calls, identity tests ------------------------------------ *)
Section SimRun.
  Variables rf rt : addr -> addr.
  Variable prog : nat -> list instr.
  Hypothesis PS : forall v, Forall iscalar (prog v).

  Lemma sim_step : forall o st st' st1 ob, state_iso rf rt st st' -> step prog st o = Some (st1, ob) ->
    exists st1', step prog st' o = Some (st1', ob) /\ state_iso rf rt st1 st1'.
  Proof.
    intros o st st' st1 ob I E. destruct o as [v|l e|p|p q]; simpl in *.
    - destruct (exec_list st (prog v)) as [s1|] eqn:E1; inv E.
      destruct (sim_exec_list _ _ _ _ _ _ (PS v) I E1) as (s1' & E1' & I1). rewrite E1'. eauto.
    - destruct (eval_expr st e) as [[s1 w]|] eqn:E1; try discriminate.
      destruct (sim_eval_expr _ _ _ _ _ _ _ I E1) as (s1' & E1' & I1). rewrite E1'.
      destruct (store s1 l w) as [s2|] eqn:E2; inv E.
      destruct (sim_store _ _ _ _ _ _ _ I1 E2) as (s2' & E2' & I2). rewrite E2'. eauto.
    - destruct (eval_path st p) as [[s1 w]|] eqn:E1; try discriminate.
      destruct (sim_eval_path _ _ _ _ _ _ _ I E1) as (s1' & E1' & I1). rewrite E1'.
      rewrite (sim_call_obs _ _ _ _ w I1). destruct (call_obs s1 w); inv E. eauto.
    - destruct (eval_path st p) as [[s1 w]|] eqn:E1; try discriminate.
      destruct (sim_eval_path _ _ _ _ _ _ _ I E1) as (s1' & E1' & I1). rewrite E1'.
      destruct (eval_path s1 q) as [[s2 w2]|] eqn:E2; try discriminate.
      destruct (sim_eval_path _ _ _ _ _ _ _ I1 E2) as (s2' & E2' & I2). rewrite E2'.
      rewrite (sim_same_obj _ _ _ _ w w2 I2). destruct (same_obj w w2); inv E. eauto.
  Qed.

  Lemma sim_run : forall h st st' st1 obs, state_iso rf rt st st' -> run prog st h = Some (st1, obs) ->
    exists st1', run prog st' h = Some (st1', obs) /\ state_iso rf rt st1 st1'.
  Proof.
    induction h as [|o h IH]; simpl; intros st st' st1 obs I E.
    - inv E. eauto.
    - destruct (step prog st o) as [[s1 ob]|] eqn:E1; try discriminate.
      destruct (sim_step _ _ _ _ _ I E1) as (s1' & E1' & I1). rewrite E1'.
      destruct (run prog s1 h) as [[s2 obs2]|] eqn:E2; inv E.
      destruct (IH _ _ _ _ I1 E2) as (s2' & E2' & I2). rewrite E2'. eauto.
  Qed.
End SimRun.

(* a call through corresponding values, and through any path, observes the same body and receiver *)
Theorem c16_commute_calls : forall S S' B s s', wf_sig S -> wf_sig S' ->
  Permutation (stypes S) (stypes S') -> Permutation (smethods S) (smethods S') ->
  Permutation (sfuncs S) (sfuncs S') -> svars S = svars S' -> sig_scalar S ->
  exec_list init_state (version_of S B) = Some s -> exec_list init_state (version_of S' B) = Some s' ->
  exists rf rt, state_iso rf rt s s' /\
    (forall v, call_obs s' (rv rf rt v) = call_obs s v) /\
    (forall n, gget s' n = rv rf rt (gget s n)) /\
    (forall p s1 v, eval_path s p = Some (s1, v) ->
       exists s1', eval_path s' p = Some (s1', rv rf rt v) /\ call_obs s1' (rv rf rt v) = call_obs s1 v).
Proof.
  intros S S' B s s' WF WF' PT PM PF PV SC E E'.
  pose proof (c16_commute S S' B WF WF' PT PM PF PV SC) as H. rewrite E, E' in H. destruct H as (rf & rt & I).
  exists rf, rt. split; auto. split; [|split].
  - intro v. now apply sim_call_obs.
  - apply (iso_globals _ _ _ _ I).
  - intros p s1 v EP. destruct (sim_eval_path _ _ _ _ _ _ _ I EP) as (s1' & EP' & I1).
    exists s1'. split; auto. now apply sim_call_obs.
Qed.

(* no history of later loads (of any scalar programs), stores, calls and identity tests tells the two VMs apart *)
Theorem c16_commute_run : forall S S' B s s', wf_sig S -> wf_sig S' ->
  Permutation (stypes S) (stypes S') -> Permutation (smethods S) (smethods S') ->
  Permutation (sfuncs S) (sfuncs S') -> svars S = svars S' -> sig_scalar S ->
  exec_list init_state (version_of S B) = Some s -> exec_list init_state (version_of S' B) = Some s' ->
  forall prog h, (forall v, Forall iscalar (prog v)) ->
    option_map snd (run prog s h) = option_map snd (run prog s' h).
Proof.
  intros S S' B s s' WF WF' PT PM PF PV SC E E' prog h PS.
  pose proof (c16_commute S S' B WF WF' PT PM PF PV SC) as H. rewrite E, E' in H. destruct H as (rf & rt & I).
  assert (SC' : sig_scalar S') by (eapply sig_scalar_perm; [|exact SC]; repeat split; auto).
  pose proof (c16_commute S' S B WF' WF (Permutation_sym PT) (Permutation_sym PM) (Permutation_sym PF) (eq_sym PV) SC') as H.
  rewrite E, E' in H. destruct H as (rf' & rt' & I').
  destruct (run prog s h) as [[s2 obs]|] eqn:R.
  - destruct (sim_run _ _ _ PS _ _ _ _ _ I R) as (s2' & R' & _). now rewrite R'.
  - destruct (run prog s' h) as [[s2' obs']|] eqn:R'; auto.
    destruct (sim_run _ _ _ PS _ _ _ _ _ I' R') as (s2 & R2 & _). congruence.
Qed.

(* the renamings are bijections between the two heaps *)
Lemma state_iso_bijective : forall rf rt s s', state_iso rf rt s s' ->
  (forall a b, rf a = rf b -> a = b) /\ (forall a b, rt a = rt b -> a = b) /\
  (forall b, b < length (funcs s') -> exists a, a < length (funcs s) /\ rf a = b) /\
  (forall b, b < length (types s') -> exists a, a < length (types s) /\ rt a = b).
Proof.
  intros rf rt s s' I. pose proof (iso_rf _ _ _ _ I) as RF. pose proof (iso_rt _ _ _ _ I) as RT.
  repeat split.
  - intros a b. eapply renaming_inj; eauto.
  - intros a b. eapply renaming_inj; eauto.
  - intros b LT. rewrite (iso_flen _ _ _ _ I) in LT. destruct (renaming_surj _ _ RF b) as (a & E & L). eauto.
  - intros b LT. rewrite (iso_tlen _ _ _ _ I) in LT. destruct (renaming_surj _ _ RT b) as (a & E & L). eauto.
Qed.

(* ================================================================================== *)
(* 10. non-vacuity, and why the scalar hypothesis is there                            *)
(* ================================================================================== *)
Module Example.
  Open Scope Z_scope.
  Definition B0 := mkBodies (fun n => 100 + n) (fun t m => 1000 + 10 * t + m).
  (* type T1 struct{f11 int; f12 *T}; type T2 struct{f11 int}; func (T1) m21; func (T2) m22; func (T1) m22;
     func f3; func f4; var v5 int; var v6 = f4; var v7 = &T2{f11: 7}; var v8 = v7.m22 *)
  Definition vars := [VZero 5 (VInt 0); VSet 6 (EArg (APath (PGlobal 4))); VSet 7 (ENew 2 [(11, AConst 7)]);
                      VSet 8 (EArg (APath (PAttr (PGlobal 7) 22)))].
  Definition S1 := mkSig [(1, [(11, VInt 0); (12, VNil)]); (2, [(11, VInt 0)])] [(1, 21); (2, 22); (1, 22)] [3; 4] vars.
  Definition S2 := mkSig [(2, [(11, VInt 0)]); (1, [(11, VInt 0); (12, VNil)])] [(1, 22); (2, 22); (1, 21)] [4; 3] vars.

  Ltac nodup := repeat constructor; simpl; intuition congruence.
  Lemma wf1 : wf_sig S1.
  Proof.
    split.
    - nodup.
    - simpl. intros t m [H|[H|[H|[]]]]; inv H; auto.
    - simpl. intros t fs [H|[H|[]]]; inv H; nodup.
  Qed.
  Lemma wf2 : wf_sig S2.
  Proof.
    split.
    - nodup.
    - simpl. intros t m [H|[H|[H|[]]]]; inv H; auto.
    - simpl. intros t fs [H|[H|[]]]; inv H; nodup.
  Qed.
  Lemma sc1 : sig_scalar S1.
  Proof.
    split; simpl.
    - intros t fs [H|[H|[]]]; inv H; repeat constructor.
    - intros n z [H|[H|[H|[H|[]]]]]; inv H. exact Logic.I.
  Qed.
  Lemma pt : Permutation (stypes S1) (stypes S2). Proof. apply perm_swap. Qed.
  Lemma pm : Permutation (smethods S1) (smethods S2).
  Proof.
    simpl. eapply perm_trans; [apply perm_swap|]. eapply perm_trans; [apply perm_skip, perm_swap|]. apply perm_swap.
  Qed.
  Lemma pf : Permutation (sfuncs S1) (sfuncs S2). Proof. apply perm_swap. Qed.

  (* the theorem applies, both orders load, and the function objects really sit at different addresses:
     a non-trivial renaming is needed *)
  Example c16_example :
    wf_sig S1 /\ wf_sig S2 /\ sig_scalar S1 /\
    Permutation (stypes S1) (stypes S2) /\ stypes S1 <> stypes S2 /\
    Permutation (smethods S1) (smethods S2) /\ smethods S1 <> smethods S2 /\
    Permutation (sfuncs S1) (sfuncs S2) /\ sfuncs S1 <> sfuncs S2 /\ svars S1 = svars S2 /\
    exists s s', exec_list init_state (version_of S1 B0) = Some s /\ exec_list init_state (version_of S2 B0) = Some s' /\
      (exists rf rt, state_iso rf rt s s') /\
      fn_addr s (KFunc 3) = Some 3%nat /\ fn_addr s' (KFunc 3) = Some 4%nat /\
      fn_addr s (KMeth 1 21) = Some 0%nat /\ fn_addr s' (KMeth 1 21) = Some 2%nat /\
      gget s 1 = VType 0%nat /\ gget s' 1 = VType 1%nat /\
      gget s 6 = VFunc 4%nat /\ gget s' 6 = VFunc 3%nat /\
      call_obs s (gget s 6) = Some (OCall 104 None) /\ call_obs s' (gget s' 6) = Some (OCall 104 None) /\
      call_obs s (gget s 8) = Some (OCall 1042 (Some 0%nat)) /\ call_obs s' (gget s' 8) = Some (OCall 1042 (Some 0%nat)) /\
      globals s <> globals s'.
  Proof.
    split; [exact wf1|]. split; [exact wf2|]. split; [exact sc1|].
    split; [exact pt|]. split; [discriminate|]. split; [exact pm|]. split; [discriminate|].
    split; [exact pf|]. split; [discriminate|]. split; [reflexivity|].
    pose proof (c16_commute S1 S2 B0 wf1 wf2 pt pm pf eq_refl sc1) as H.
    destruct (exec_list init_state (version_of S1 B0)) as [s|] eqn:E; [|vm_compute in E; discriminate].
    destruct (exec_list init_state (version_of S2 B0)) as [s'|] eqn:E'; [|vm_compute in E'; discriminate].
    exists s, s'. split; auto. split; auto. split; [exact H|].
    vm_compute in E. vm_compute in E'. inv E. inv E'. vm_compute. repeat split; discriminate.
  Qed.

  (* without the scalar hypothesis the statement is false in this model: `var v5 T` whose zero value is a raw
     function address (which no compiled program contains) calls f3 after one order and f4 after the other *)
  Definition S3 := mkSig [] [] [3; 4] [VZero 5 (VFunc 0%nat)].
  Definition S4 := mkSig [] [] [4; 3] [VZero 5 (VFunc 0%nat)].
  Example c16_needs_scalar :
    wf_sig S3 /\ wf_sig S4 /\ Permutation (sfuncs S3) (sfuncs S4) /\ ~ sig_scalar S3 /\
    exists s s', exec_list init_state (version_of S3 B0) = Some s /\ exec_list init_state (version_of S4 B0) = Some s' /\
      call_obs s (gget s 5) = Some (OCall 103 None) /\ call_obs s' (gget s' 5) = Some (OCall 104 None) /\
      ~ exists rf rt, state_iso rf rt s s'.
  Proof.
    split. { split; [nodup | simpl; tauto | simpl; tauto]. }
    split. { split; [nodup | simpl; tauto | simpl; tauto]. }
    split. { apply perm_swap. }
    split. { intros [_ H]. apply (H 5 (VFunc 0%nat)). simpl. auto. }
    eexists. eexists. split. { vm_compute. reflexivity. } split. { vm_compute. reflexivity. }
    split. { reflexivity. } split. { reflexivity. }
    intros (rf & rt & I).
    pose proof (sim_call_obs _ _ _ _ (VFunc 0%nat) I) as H.
    pose proof (iso_globals _ _ _ _ I 5) as G. vm_compute in G. injection G as G.
    unfold rv in H. rewrite <- G in H. vm_compute in H. discriminate.
  Qed.
End Example.

Print Assumptions c16_commute_from.
Print Assumptions c16_commute.
Print Assumptions c16_commute_reload.
Print Assumptions c16_commute_fn_bodies.
Print Assumptions c16_commute_calls.
Print Assumptions c16_commute_run.
Print Assumptions state_iso_bijective.
Print Assumptions Example.c16_example.
Print Assumptions Example.c16_needs_scalar.
