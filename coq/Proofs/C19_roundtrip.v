(* C19 (part 1) -- values built with the constructors read back unchanged through
   the matching accessors.  Everything here is stated over the definitions that
   tools/go2v REGENERATES from /repo/value.go on every run (Gen/ValueOps_gen.v):
   fn_Int ... fn_String are value.go's Int ... String, Value_Int ... Value_Bool are
   the accessor methods.  int/uint are 64 bit on the platform under test, goatlang
   stores them as int32/uint32 (Int(v int) truncates), float64 payloads are kept
   as floats. *)
From Coq Require Import ZArith List Bool Floats Lia.
From GV Require Import GoSpec.GoPrim Gen.ValueOps_gen Proofs.C04_ops.
Import ListNotations.
Open Scope Z_scope.

(* the bounds as literals: written with [change] so that the proofs do not depend on how
   GoPrim spells lo / hi (powers or literals) *)
Ltac bounds :=
  unfold in_range;
  change (lo I32) with (-2147483648); change (hi I32) with 2147483647;
  change (lo U32) with 0; change (hi U32) with 4294967295;
  change (lo I64) with (-9223372036854775808); change (hi I64) with 9223372036854775807;
  change (lo U64) with 0; change (hi U64) with 18446744073709551615.

Lemma in_range_I32_I64 z : in_range I32 z = true -> in_range I64 z = true.
Proof. bounds. lia. Qed.

Lemma in_range_U32_U64 z : in_range U32 z = true -> in_range U64 z = true.
Proof. bounds. lia. Qed.

Lemma in_range_U32_I64 z : in_range U32 z = true -> in_range I64 z = true.
Proof. bounds. lia. Qed.

(* ---- the fixed-width constructors: identity on the whole domain ---------------- *)

Lemma rt_int32 x : in_range I32 x = true -> Value_Int32 (fn_Int32 x) = x.
Proof. intro H. unfold Value_Int32, fn_Int32, mkV. cbn. now apply cvt_id. Qed.

Lemma rt_uint32 x : in_range U32 x = true -> Value_Uint32 (fn_Uint32 x) = x.
Proof. intro H. unfold Value_Uint32, fn_Uint32, mkV. cbn. now apply cvt_id. Qed.

Lemma rt_int8 x : in_range I8 x = true -> Value_Int8 (fn_Int8 x) = x.
Proof. intro H. unfold Value_Int8, fn_Int8, mkV. cbn. now apply cvt_id. Qed.

Lemma rt_byte x : in_range U8 x = true -> Value_Byte (fn_Byte x) = x.
Proof. intro H. unfold Value_Byte, fn_Byte, mkV. cbn. now apply cvt_id. Qed.

Lemma rt_uint8 x : in_range U8 x = true -> Value_Uint8 (fn_Uint8 x) = x.
Proof. intro H. unfold Value_Uint8, fn_Uint8, mkV. cbn. now apply cvt_id. Qed.

Lemma rt_bool b : Value_Bool (fn_Bool b) = b.
Proof. destruct b; vm_compute; reflexivity. Qed.

Lemma rt_float64 f : Value_Float64 (fn_Float64 (Fn f)) = Fn f.
Proof. reflexivity. Qed.

Lemma rt_string s : vval (fn_String s) = PStr s /\ as_str (vval (fn_String s)) = Ok s.
Proof. split; reflexivity. Qed.

(* ---- Int / Uint: the host type is 64 bit wide, the stored value is 32 bit ------- *)

Lemma rt_int_wrap x : Value_Int (fn_Int x) = wrap I32 x.
Proof.
  unfold Value_Int, fn_Int, mkV. cbn.
  apply cvt_id, in_range_I32_I64, wrap_in_range.
Qed.

Lemma rt_int x : in_range I32 x = true -> Value_Int (fn_Int x) = x.
Proof. intro H. rewrite rt_int_wrap. now apply wrap_id. Qed.

Lemma rt_uint_wrap x : Value_Uint (fn_Uint x) = wrap U32 x.
Proof.
  unfold Value_Uint, fn_Uint, mkV. cbn.
  apply cvt_id, in_range_U32_U64, wrap_in_range.
Qed.

Lemma rt_uint x : in_range U32 x = true -> Value_Uint (fn_Uint x) = x.
Proof. intro H. rewrite rt_uint_wrap. now apply wrap_id. Qed.

(* the 32-bit accessors read the same number back from an Int / Uint value *)
Lemma rt_int_int32 x : Value_Int32 (fn_Int x) = wrap I32 x.
Proof. unfold Value_Int32, fn_Int, mkV. cbn. apply cvt_id, wrap_in_range. Qed.

Lemma rt_uint_uint32 x : Value_Uint32 (fn_Uint x) = wrap U32 x.
Proof. unfold Value_Uint32, fn_Uint, mkV. cbn. apply cvt_id, wrap_in_range. Qed.

(* the wide accessors on the narrow constructors: no change either *)
Lemma rt_int32_int x : in_range I32 x = true -> Value_Int (fn_Int32 x) = x.
Proof. intro H. unfold Value_Int, fn_Int32, mkV. cbn. now apply cvt_id, in_range_I32_I64. Qed.

Lemma rt_uint32_uint x : in_range U32 x = true -> Value_Uint (fn_Uint32 x) = x.
Proof. intro H. unfold Value_Uint, fn_Uint32, mkV. cbn. now apply cvt_id, in_range_U32_U64. Qed.

(* ---- type tags --------------------------------------------------------------- *)

Lemma rt_tags :
  (forall x, vt (fn_Int x) = TypeInt32) /\ (forall x, vt (fn_Int32 x) = TypeInt32) /\
  (forall x, vt (fn_Uint x) = TypeUint32) /\ (forall x, vt (fn_Uint32 x) = TypeUint32) /\
  (forall x, vt (fn_Int8 x) = TypeInt8) /\ (forall x, vt (fn_Byte x) = TypeUint8) /\
  (forall x, vt (fn_Uint8 x) = TypeUint8) /\ (forall n, vt (fn_Float64 n) = TypeFloat64) /\
  (forall b, vt (fn_Bool b) = TypeBool) /\ (forall s, vt (fn_String s) = TypeString) /\
  vt fn_Nil = TypeNil.
Proof. repeat split; try reflexivity. intros []; reflexivity. Qed.

(* every scalar constructor leaves the object part empty, String leaves the number 0 *)
Lemma rt_payloads :
  (forall x, vval (fn_Int x) = PNone) /\ (forall x, vval (fn_Int32 x) = PNone) /\
  (forall x, vval (fn_Uint x) = PNone) /\ (forall x, vval (fn_Uint32 x) = PNone) /\
  (forall x, vval (fn_Int8 x) = PNone) /\ (forall x, vval (fn_Byte x) = PNone) /\
  (forall x, vval (fn_Uint8 x) = PNone) /\ (forall n, vval (fn_Float64 n) = PNone) /\
  (forall b, vval (fn_Bool b) = PNone) /\ (forall s, vnum (fn_String s) = Zn 0).
Proof. repeat split; try reflexivity. intros []; reflexivity. Qed.

(* the whole of item 1 as one statement *)
Lemma roundtrip_all :
  (forall x, in_range I32 x = true -> Value_Int32 (fn_Int32 x) = x) /\
  (forall x, in_range U32 x = true -> Value_Uint32 (fn_Uint32 x) = x) /\
  (forall x, in_range I8 x = true -> Value_Int8 (fn_Int8 x) = x) /\
  (forall x, in_range U8 x = true -> Value_Byte (fn_Byte x) = x) /\
  (forall x, in_range U8 x = true -> Value_Uint8 (fn_Uint8 x) = x) /\
  (forall b, Value_Bool (fn_Bool b) = b) /\
  (forall f, Value_Float64 (fn_Float64 (Fn f)) = Fn f) /\
  (forall s, vval (fn_String s) = PStr s /\ as_str (vval (fn_String s)) = Ok s).
Proof.
  exact (conj rt_int32 (conj rt_uint32 (conj rt_int8 (conj rt_byte (conj rt_uint8
        (conj rt_bool (conj rt_float64 rt_string))))))).
Qed.

Lemma roundtrip_wide :
  (forall x, Value_Int (fn_Int x) = wrap I32 x) /\
  (forall x, in_range I32 x = true -> Value_Int (fn_Int x) = x) /\
  (forall x, Value_Uint (fn_Uint x) = wrap U32 x) /\
  (forall x, in_range U32 x = true -> Value_Uint (fn_Uint x) = x) /\
  (forall x, Value_Int32 (fn_Int x) = wrap I32 x) /\
  (forall x, Value_Uint32 (fn_Uint x) = wrap U32 x) /\
  (forall x, in_range I32 x = true -> Value_Int (fn_Int32 x) = x) /\
  (forall x, in_range U32 x = true -> Value_Uint (fn_Uint32 x) = x).
Proof.
  exact (conj rt_int_wrap (conj rt_int (conj rt_uint_wrap (conj rt_uint
        (conj rt_int_int32 (conj rt_uint_uint32 (conj rt_int32_int rt_uint32_uint))))))).
Qed.
