(* Proofs about Model/Str.v: indexing, slicing, range, conversions, ordering,
   concatenation, literal glue.  All statements are for arbitrary byte lists. *)
From Coq Require Import ZArith List Bool Lia Sorted ZifyBool.
From GV Require Import GoSpec.GoPrim GoSpec.Utf8 Gen.ValueOps_gen Model.Str Proofs.C13_utf8.
Import ListNotations.
Open Scope Z_scope.

(* ---- small facts ------------------------------------------------------------------ *)

Lemma blen_app {A} (a b : list A) : blen (a ++ b) = blen a + blen b.
Proof. unfold blen. rewrite app_length. lia. Qed.

Lemma blen_nonneg {A} (a : list A) : 0 <= blen a.
Proof. unfold blen. lia. Qed.

Lemma str_tag s : fn_String s = mkValue 64 (Zn 0) (PStr s).
Proof. reflexivity. Qed.

Lemma uint8_val b : fn_Uint8 b = mkValue 3 (Zn b) PNone.
Proof. reflexivity. Qed.

Lemma byte_val b : fn_Byte b = mkValue 3 (Zn b) PNone.
Proof. reflexivity. Qed.

Lemma int32_val z : fn_Int32 z = mkValue 23 (Zn z) PNone.
Proof. reflexivity. Qed.

Lemma wrap_I32_id z : in_range I32 z = true -> wrap I32 z = z.
Proof. unfold in_range, wrap, lo, hi, signed, bits. cbn. intros H. Ltac Zify.zify_post_hook ::= Z.div_mod_to_equations. lia. Qed.

Lemma int_val z : in_range I32 z = true -> fn_Int z = mkValue 23 (Zn z) PNone.
Proof. intros H. unfold fn_Int. rewrite (wrap_I32_id z H). reflexivity. Qed.

Lemma in_range_I32_I64 z : in_range I32 z = true -> in_range I64 z = true.
Proof. unfold in_range, lo, hi, signed, bits. cbn. lia. Qed.

(* Value.Int() of an integer-valued number within int64 is that integer *)
Lemma Value_Int_Zn t z p : in_range I64 z = true -> Value_Int (mkValue t (Zn z) p) = z.
Proof. intros H. unfold Value_Int, cvt, cvt_z, cvt64. cbn [vnum]. rewrite H. reflexivity. Qed.

Lemma Value_Int_Int32 z : in_range I32 z = true -> Value_Int (fn_Int32 z) = z.
Proof. intros H. rewrite int32_val. apply Value_Int_Zn, in_range_I32_I64, H. Qed.

Lemma Value_Int_untyped z : in_range I32 z = true -> Value_Int (fn_newUntypedInt z) = z.
Proof. intros H. apply Value_Int_Zn, in_range_I32_I64, H. Qed.

(* ---- C13 index ------------------------------------------------------------------------ *)

Lemma go_index_in s i b : 0 <= i -> nth_error s (Z.to_nat i) = Some b -> go_index s i = Ok b.
Proof.
  intros Hi Hn. unfold go_index, blen.
  assert (Z.to_nat i < length s)%nat by (apply nth_error_Some; congruence).
  replace ((i <? 0) || (Z.of_nat (length s) <=? i)) with false by lia.
  f_equal. apply nth_error_nth. exact Hn.
Qed.

Lemma go_index_out s i : ~ (0 <= i < blen s) -> go_index s i = Panic.
Proof. intros H. unfold go_index. replace ((i <? 0) || (blen s <=? i)) with true by lia. reflexivity. Qed.

Lemma go_index_total s i : 0 <= i < blen s -> exists b, nth_error s (Z.to_nat i) = Some b /\ go_index s i = Ok b.
Proof.
  intros H. unfold blen in H. destruct (nth_error s (Z.to_nat i)) as [b|] eqn:E.
  - exists b. split; [reflexivity|]. apply go_index_in; [lia|exact E].
  - apply nth_error_None in E. lia.
Qed.

(* s[k] through codeGet / Value.Get / stringT.Get, for any key value k *)
Lemma index_in s k b : 0 <= Value_Int k -> nth_error s (Z.to_nat (Value_Int k)) = Some b ->
  Value_Get (fn_String s) k = Ok (mkValue 3 (Zn b) PNone, true) /\
  code_get (fn_String s) k = Ok (mkValue 3 (Zn b) PNone).
Proof.
  intros H0 Hn. unfold code_get, Value_Get. cbn [fn_String mkV vval Z.eqb]. unfold stringT_Get.
  rewrite (go_index_in s _ b H0 Hn). cbn [bind fst]. split; reflexivity.
Qed.

Lemma index_out s k : ~ (0 <= Value_Int k < blen s) ->
  Value_Get (fn_String s) k = Panic /\ code_get (fn_String s) k = Panic.
Proof.
  intros H. unfold code_get, Value_Get. cbn [fn_String mkV vval Z.eqb]. unfold stringT_Get.
  rewrite (go_index_out s _ H). split; reflexivity.
Qed.

Lemma index_thm : forall s k,
  (forall b, 0 <= Value_Int k -> nth_error s (Z.to_nat (Value_Int k)) = Some b ->
     Value_Get (fn_String s) k = Ok (mkValue 3 (Zn b) PNone, true) /\
     code_get (fn_String s) k = Ok (mkValue 3 (Zn b) PNone)) /\
  (0 <= Value_Int k < blen s -> exists b, nth_error s (Z.to_nat (Value_Int k)) = Some b) /\
  (~ (0 <= Value_Int k < blen s) ->
     Value_Get (fn_String s) k = Panic /\ code_get (fn_String s) k = Panic).
Proof.
  intros s k. split; [intros b; apply index_in|]. split; [|apply index_out].
  intros H. destruct (go_index_total s _ H) as [b [Hb _]]. exists b. exact Hb.
Qed.

(* with the key spelled as the values scripts and hosts pass: int32, untyped constant *)
Lemma index_keys : forall i, in_range I32 i = true ->
  Value_Int (fn_Int32 i) = i /\ Value_Int (fn_newUntypedInt i) = i /\ Value_Int (fn_Int i) = i.
Proof.
  intros i H. split; [apply Value_Int_Int32, H|]. split; [apply Value_Int_untyped, H|].
  rewrite (int_val i H). apply Value_Int_Zn, in_range_I32_I64, H.
Qed.

Lemma len_thm s : Value_Len (fn_String s) = Ok (blen s) /\
  (in_range I32 (blen s) = true -> code_len (fn_String s) = Ok (mkValue 23 (Zn (blen s)) PNone)).
Proof.
  split; [reflexivity|]. intros H. unfold code_len, Value_Len, stringT_Len. rewrite str_tag.
  cbn [vval payload_is_nil bind]. rewrite (int_val _ H). reflexivity.
Qed.

(* strings are immutable: every mutator of the object interface panics *)
Lemma set_thm s k x : Value_Set (fn_String s) k x = Panic.
Proof. reflexivity. Qed.

(* ---- C13 slice ------------------------------------------------------------------------ *)

Lemma firstn_app_exact {A} (a b : list A) : firstn (length a) (a ++ b) = a.
Proof. induction a; [destruct b; reflexivity|]. cbn. f_equal. assumption. Qed.

Lemma go_slice_in {A} (a m c : list A) : go_slice (a ++ m ++ c) (blen a) (blen a + blen m) = Ok m.
Proof.
  unfold go_slice. rewrite !blen_app.
  pose proof (blen_nonneg a). pose proof (blen_nonneg m). pose proof (blen_nonneg c).
  replace ((blen a <? 0) || (blen a + blen m <? blen a) || (blen a + (blen m + blen c) <? blen a + blen m)) with false by lia.
  f_equal. unfold blen. replace (Z.of_nat (length a) + Z.of_nat (length m) - Z.of_nat (length a)) with (Z.of_nat (length m)) by lia.
  rewrite !Nat2Z.id, skipn_app_exact. apply firstn_app_exact.
Qed.

Lemma go_slice_out {A} (s : list A) i j : ~ (0 <= i <= j /\ j <= blen s) -> go_slice s i j = Panic.
Proof. intros H. unfold go_slice. replace ((i <? 0) || (j <? i) || (blen s <? j)) with true by lia. reflexivity. Qed.

(* every in-range pair of bounds cuts the string in three *)
Lemma split3 {A} (s : list A) i j : 0 <= i <= j -> j <= blen s ->
  exists a m c, s = (a ++ m ++ c)%list /\ blen a = i /\ blen m = j - i.
Proof.
  intros H1 H2. unfold blen in *.
  exists (firstn (Z.to_nat i) s), (firstn (Z.to_nat (j - i)) (skipn (Z.to_nat i) s)), (skipn (Z.to_nat (j - i)) (skipn (Z.to_nat i) s)).
  split; [now rewrite !firstn_skipn|]. rewrite !firstn_length, skipn_length. lia.
Qed.

Lemma slice_thm : forall (a m c : list Z),
  Value_Slice (fn_String (a ++ m ++ c)) (blen a) (blen a + blen m) = Ok (fn_String m).
Proof.
  intros. unfold Value_Slice. cbn [fn_String mkV vval Z.eqb]. unfold stringT_Slice.
  rewrite go_slice_in. reflexivity.
Qed.

Lemma slice_out_thm : forall s i j, ~ (0 <= i <= j /\ j <= blen s) -> Value_Slice (fn_String s) i j = Panic.
Proof.
  intros. unfold Value_Slice. cbn [fn_String mkV vval Z.eqb]. unfold stringT_Slice.
  rewrite go_slice_out by assumption. reflexivity.
Qed.

(* codeSlice: both bounds given, and the omitted upper bound (nil) meaning len *)
Lemma code_slice_thm : forall (a m c : list Z) ka kb,
  Value_Int ka = blen a -> Value_Int kb = blen a + blen m -> vt kb <> 0 ->
  code_slice (fn_String (a ++ m ++ c)) ka kb = Ok (fn_String m).
Proof.
  intros a m c ka kb Ha Hb Ht. unfold code_slice. rewrite Ha, Hb.
  replace (vt kb =? TypeNil) with false by (unfold TypeNil; lia). cbn [bind]. apply slice_thm.
Qed.

Lemma code_slice_nil_thm : forall (a m : list Z) ka,
  Value_Int ka = blen a -> code_slice (fn_String (a ++ m)) ka fn_Nil = Ok (fn_String m).
Proof.
  intros a m ka Ha. unfold code_slice. rewrite Ha. cbn [fn_Nil mkV vt Z.eqb TypeNil].
  unfold Value_Len. cbn [fn_String mkV vval Z.eqb bind stringT_Len]. unfold stringT_Len.
  rewrite blen_app. rewrite <- (app_nil_r m) at 1. apply slice_thm.
Qed.

Lemma code_slice_out_thm : forall s ka kb, vt kb <> 0 ->
  ~ (0 <= Value_Int ka <= Value_Int kb /\ Value_Int kb <= blen s) -> code_slice (fn_String s) ka kb = Panic.
Proof.
  intros s ka kb Ht H. unfold code_slice.
  replace (vt kb =? TypeNil) with false by (unfold TypeNil; lia). cbn [bind]. apply slice_out_thm, H.
Qed.

Lemma code_slice_nil_out_thm : forall s ka,
  ~ (0 <= Value_Int ka <= blen s) -> code_slice (fn_String s) ka fn_Nil = Panic.
Proof.
  intros s ka H. unfold code_slice. cbn [fn_Nil mkV vt Z.eqb TypeNil].
  unfold Value_Len. cbn [fn_String mkV vval Z.eqb bind stringT_Len]. apply slice_out_thm. unfold stringT_Len. lia.
Qed.

(* ---- C13 range ------------------------------------------------------------------------ *)

Definition range_pair (p : Z * Z) : value * value := (fn_Int (fst p), fn_Int32 (snd p)).

Lemma iter_all_at (l : list (Z * Z)) : forall fuel n, (length l - n < fuel)%nat -> (n <= length l)%nat ->
  iter_all fuel (mkIter (map snd l) (map fst l) n) = map range_pair (skipn n l).
Proof.
  induction fuel as [|f IH]; intros n Hf Hn; [lia|].
  cbn [iter_all]. unfold iter_next. cbn [it_r it_offsets it_n]. rewrite map_length.
  destruct (length l <=? n)%nat eqn:E.
  - apply Nat.leb_le in E. rewrite skipn_all2 by lia. reflexivity.
  - apply Nat.leb_gt in E. rewrite IH by lia.
    destruct (nth_error l n) as [p|] eqn:P; [|apply nth_error_None in P; lia].
    assert (S : skipn n l = p :: skipn (S n) l).
    { clear -P. revert n P. induction l as [|x l IHl]; intros [|n] P; cbn in *; try discriminate; [now inversion P|now apply IHl]. }
    rewrite S. cbn [map]. f_equal. unfold range_pair. f_equal.
    + f_equal. change 0 with (fst (0, 0)). rewrite map_nth. erewrite nth_error_nth by exact P. reflexivity.
    + f_equal. change 0 with (snd (0, 0)). rewrite map_nth. erewrite nth_error_nth by exact P. reflexivity.
Qed.

Lemma go_range_length_le s : (length (go_range s) <= length s)%nat.
Proof.
  pose proof (go_range_offsets_sorted s) as S. pose proof (go_range_offsets_bounds s) as B.
  (* strictly increasing integers in [0, length s) *)
  assert (G : forall (l : list (Z * Z)) lo, StronglySorted Z.lt (map fst l) -> Forall (fun p => lo <= fst p < Z.of_nat (length s)) l ->
              Z.of_nat (length l) <= Z.of_nat (length s) - lo \/ l = []).
  { induction l as [|p l IHl]; intros lo Hs Hb; [right; reflexivity|]. left.
    inversion Hs as [|? ? Hs' Hf]; subst. inversion Hb as [|? ? Hp Hb']; subst.
    destruct (IHl (fst p + 1)) as [H|H]; [exact Hs'| |cbn [length]; lia|subst; cbn [length]; lia].
    rewrite Forall_forall in *. intros q Hq. specialize (Hb' q Hq). split; [|lia].
    assert (fst p < fst q) by (apply Hf, in_map, Hq). lia. }
  destruct (G (go_range s) 0 S B) as [H|H]; [lia|rewrite H; cbn; lia].
Qed.

Lemma range_thm s : code_range_string s = map range_pair (go_range s).
Proof.
  unfold code_range_string, stringT_Range. pose proof (go_range_length_le s).
  rewrite iter_all_at by lia. reflexivity.
Qed.

(* after the last rune the iterator keeps answering ok = false *)
Lemma range_end_thm s : snd (fst (iter_next (mkIter (map snd (go_range s)) (map fst (go_range s)) (length (go_range s))))) = false.
Proof. unfold iter_next. cbn [it_r it_n]. rewrite map_length, Nat.leb_refl. reflexivity. Qed.

(* the key of every visit is an int32-tagged byte offset, the value an int32-tagged rune *)
Lemma range_pair_val p : in_range I32 (fst p) = true ->
  range_pair p = (mkValue 23 (Zn (fst p)) PNone, mkValue 23 (Zn (snd p)) PNone).
Proof. intros H. unfold range_pair. rewrite (int_val _ H). reflexivity. Qed.

(* ---- C13 conversions -------------------------------------------------------------------- *)

Lemma cvt_U8_byte b : byte b -> cvt U8 (Zn b) = b.
Proof.
  unfold byte. intros H. unfold cvt, cvt_z, cvt32, in_range, lo, hi, wrap, signed, bits. cbn.
  replace ((-2147483648 <=? b) && (b <=? 2147483647)) with true by lia. lia.
Qed.

Lemma map_cvt_bytes s : bytes s -> map (fun e => cvt U8 (vnum e)) (map fn_Byte s) = s.
Proof.
  induction 1 as [|b s Hb Hs IH]; [reflexivity|]. cbn [map]. f_equal; [|exact IH].
  rewrite byte_val. cbn [vnum]. apply cvt_U8_byte, Hb.
Qed.

(* []byte(s): one uint8 element per byte, slice type []uint8 *)
Lemma to_bytes_thm s : convert_to_slice (fn_String s) = Ok (fn_sliceType TypeUint8, map (fun b => mkValue 3 (Zn b) PNone) s).
Proof. reflexivity. Qed.

(* string([]byte(s)) = s *)
Lemma conv_roundtrip_string s : bytes s ->
  forall t l, convert_to_slice (fn_String s) = Ok (t, l) -> convert_data_to_string l = fn_String s.
Proof.
  intros Hb t l E. rewrite to_bytes_thm in E. inversion E; subst. unfold convert_data_to_string.
  f_equal. exact (map_cvt_bytes s Hb).
Qed.

(* []byte(string(b)) = b for a slice b of uint8 values *)
Lemma conv_roundtrip_bytes b : bytes b ->
  convert_to_slice (convert_data_to_string (map fn_Byte b)) = Ok (fn_sliceType TypeUint8, map fn_Byte b).
Proof.
  intros Hb. unfold convert_data_to_string. rewrite (map_cvt_bytes b Hb). reflexivity.
Qed.

(* string(s) of a string is s itself *)
Lemma conv_string_id s : convert_to_string (fn_String s) = Ok (fn_String s).
Proof. reflexivity. Qed.

(* string(r) for a numeric value: UTF-8 of the rune, U+FFFD for non-scalar values *)
Lemma cvt_I32_id z : in_range I32 z = true -> cvt I32 (Zn z) = z.
Proof. intros H. unfold cvt, cvt_z, cvt32. rewrite H. reflexivity. Qed.

Lemma conv_rune_thm t r : Z.land t 3 <> 0 -> t <> 64 -> 0 <= t -> in_range I32 r = true ->
  convert_to_string (mkValue t (Zn r) PNone) = Ok (fn_String (utf8_encode r)).
Proof.
  intros Hn Hs H0 Hr. unfold convert_to_string, Value_convert. cbn [vt vnum].
  unfold TypeUint8, TypeInt8, TypeInt32, TypeUint32, TypeFloat64, TypeString, isNumericMask.
  cbn [Z.eqb]. replace (t =? 64) with false by lia.
  replace (negb (Z.land t 3 =? 0)) with true by lia. rewrite (cvt_I32_id r Hr). reflexivity.
Qed.

Lemma numeric_tags : Forall (fun t => Z.land t 3 <> 0 /\ t <> 64 /\ 0 <= t) [1; 3; 19; 7; 23].
Proof. repeat constructor; cbn; lia. Qed.

(* the string made from a rune ranges back to that rune (or U+FFFD) at offset 0 *)
Lemma rune_string_range r : go_range (utf8_encode r) = [(0, if valid_runeb r then r else RuneError)].
Proof.
  destruct (valid_runeb r) eqn:V.
  - apply go_range_encode, valid_runeb_spec, V.
  - assert (~ valid_rune r) by (rewrite <- valid_runeb_spec; congruence).
    rewrite encode_invalid by assumption. reflexivity.
Qed.

(* copy(dst, s) *)
Lemma copy_thm dst s :
  code_copy_string dst (fn_String s) =
  Ok (map (fun b => mkValue 3 (Zn b) PNone) (firstn (length dst) s) ++ skipn (length s) dst)%list.
Proof.
  unfold code_copy_string. rewrite to_bytes_thm. cbn [bind snd]. unfold go_copy. rewrite map_length. f_equal.
  destruct (Nat.le_ge_cases (length dst) (length s)) as [H|H].
  - rewrite Nat.min_l by assumption. rewrite firstn_map. f_equal.
    rewrite !skipn_all2 by lia. reflexivity.
  - rewrite Nat.min_r by assumption. rewrite firstn_all2 by (rewrite map_length; lia).
    rewrite firstn_all2 by lia. reflexivity.
Qed.

Lemma copy_length {A} (dst src : list A) : length (go_copy dst src) = length dst.
Proof. unfold go_copy. rewrite app_length, firstn_length, skipn_length. lia. Qed.

(* ---- C13 comparison ------------------------------------------------------------------------ *)

(* lexicographic order, declaratively: s is a proper prefix of t, or at the first
   position where they differ s has the smaller byte *)
Definition lex_lt (s t : list Z) : Prop :=
  exists p, (exists c t', s = p /\ t = (p ++ c :: t')%list) \/
            (exists a b s' t', s = (p ++ a :: s')%list /\ t = (p ++ b :: t')%list /\ a < b).

Lemma bytes_ltb_lex s : forall t, bytes_ltb s t = true <-> lex_lt s t.
Proof.
  induction s as [|x s IH]; intros [|y t]; cbn [bytes_ltb].
  - split; [discriminate|]. intros [p [[c [t' [H1 H2]]]|[a [b [s' [t' [H1 [H2 H3]]]]]]]]; destruct p; discriminate.
  - split; [|reflexivity]. intros _. exists []. left. exists y, t. split; reflexivity.
  - split; [discriminate|]. intros [p [[c [t' [H1 H2]]]|[a [b [s' [t' [H1 [H2 H3]]]]]]]]; destruct p; discriminate.
  - destruct (x <? y) eqn:A.
    { split; [|reflexivity]. intros _. exists []. right. exists x, y, s, t. repeat split; lia. }
    destruct (y <? x) eqn:B.
    { split; [discriminate|]. intros [p [[c [t' [H1 H2]]]|[a [b [s' [t' [H1 [H2 H3]]]]]]]].
      - destruct p; [discriminate|]. cbn in *. inversion H1; inversion H2; subst. lia.
      - destruct p; cbn in *; inversion H1; inversion H2; subst; lia. }
    assert (x = y) by lia. subst y. rewrite IH. split.
    + intros [p [[c [t' [H1 H2]]]|[a [b [s' [t' [H1 [H2 H3]]]]]]]].
      * exists (x :: p). left. exists c, t'. subst. split; reflexivity.
      * exists (x :: p). right. exists a, b, s', t'. subst. repeat split; assumption.
    + intros [p [[c [t' [H1 H2]]]|[a [b [s' [t' [H1 [H2 H3]]]]]]]].
      * destruct p; [discriminate|]. cbn in *. inversion H1; inversion H2; subst.
        exists p. left. exists c, t'. split; reflexivity.
      * destruct p; cbn in *; inversion H1; inversion H2; subst; [lia|].
        exists p. right. exists a, b, s', t'. repeat split; assumption.
Qed.

Lemma bytes_eqb_eq s : forall t, bytes_eqb s t = true <-> s = t.
Proof.
  induction s as [|x s IH]; intros [|y t]; cbn [bytes_eqb]; try (split; [discriminate|discriminate]); [split; reflexivity|].
  rewrite andb_true_iff, IH, Z.eqb_eq. split; [intros [-> ->]; reflexivity|intros H; inversion H; auto].
Qed.

Lemma bytes_ltb_irrefl s : bytes_ltb s s = false.
Proof. induction s as [|x s IH]; [reflexivity|]. cbn. rewrite Z.ltb_irrefl. exact IH. Qed.

Lemma bytes_ltb_trans s : forall t u, bytes_ltb s t = true -> bytes_ltb t u = true -> bytes_ltb s u = true.
Proof.
  induction s as [|x s IH]; intros [|y t] [|z u]; cbn [bytes_ltb]; try discriminate; try reflexivity.
  destruct (x <? y) eqn:A; destruct (y <? x) eqn:A'; destruct (y <? z) eqn:B; destruct (z <? y) eqn:B';
    destruct (x <? z) eqn:C; destruct (z <? x) eqn:C'; try discriminate; try reflexivity; try lia.
  apply IH.
Qed.

(* exactly one of s < t, s = t, t < s *)
Lemma bytes_trichotomy s : forall t,
  (bytes_ltb s t = true /\ bytes_eqb s t = false /\ bytes_ltb t s = false) \/
  (bytes_ltb s t = false /\ bytes_eqb s t = true /\ bytes_ltb t s = false) \/
  (bytes_ltb s t = false /\ bytes_eqb s t = false /\ bytes_ltb t s = true).
Proof.
  induction s as [|x s IH]; intros [|y t]; cbn [bytes_ltb bytes_eqb]; auto.
  destruct (x <? y) eqn:A; destruct (y <? x) eqn:B; destruct (x =? y) eqn:C; try lia; cbn [andb]; auto.
Qed.

Lemma bytes_leb_not_gt s t : bytes_leb s t = negb (bytes_ltb t s).
Proof.
  unfold bytes_leb. destruct (bytes_trichotomy s t) as [[A [B C]]|[[A [B C]]|[A [B C]]]]; rewrite A, B, C; reflexivity.
Qed.

Lemma cmp_values s t :
  Value_opLt (fn_String s) (fn_String t) = Ok (fn_Bool (bytes_ltb s t)) /\
  Value_opLte (fn_String s) (fn_String t) = Ok (fn_Bool (bytes_leb s t)) /\
  Value_opEq (fn_String s) (fn_String t) = Ok (fn_Bool (bytes_eqb s t)) /\
  Value_opNeq (fn_String s) (fn_String t) = Ok (fn_Bool (negb (bytes_eqb s t))).
Proof. repeat split; reflexivity. Qed.

Lemma bool_vals : fn_Bool true = mkValue 32 (Zn 1) PNone /\ fn_Bool false = mkValue 32 (Zn 0) PNone.
Proof. split; reflexivity. Qed.

(* ---- C13 concatenation ------------------------------------------------------------------------ *)

Lemma concat_thm s t : Value_opAdd (fn_String s) (fn_String t) = Ok (fn_String (s ++ t)).
Proof. reflexivity. Qed.

(* ---- C13 literals: the goatlang-side glue around strconv ------------------------------------------ *)

Section Lit.
  Variable unquote : list Z -> option (list Z).
  Variable unquoteChar : list Z -> Z -> option (Z * bool * list Z).

  (* 'body' : the text handed to strconv.UnquoteChar is exactly what is between the quotes, quote = '\'' *)
  Lemma char_glue body q1 q2 :
    token_Char unquoteChar (q1 :: body ++ [q2]) =
    Ok (match unquoteChar body 39 with Some (v, _, _) => v | None => 0 end).
  Proof using unquoteChar.
    clear unquote. unfold token_Char.
    replace (q1 :: body ++ [q2])%list with ([q1] ++ body ++ [q2])%list by reflexivity.
    replace (blen ([q1] ++ body ++ [q2]) - 1) with (blen [q1] + blen body) by (rewrite !blen_app; unfold blen; cbn [length]; lia).
    change 1 with (blen [q1]) at 1. rewrite go_slice_in. cbn [bind].
    destruct (unquoteChar body 39) as [[[v m] tl]|]; reflexivity.
  Qed.

  Lemma char_value body q1 q2 v m tl : unquoteChar body 39 = Some (v, m, tl) ->
    compile_char unquoteChar (q1 :: body ++ [q2]) = Ok (mkValue 1 (Zn v) PNone).
  Proof using unquoteChar. intros H. unfold compile_char. rewrite char_glue, H. reflexivity. Qed.

  (* a text too short to have two quotes cannot be sliced: Go panics (text/scanner never produces one) *)
  Lemma char_short text : (length text < 2)%nat -> token_Char unquoteChar text = Panic.
  Proof using unquoteChar.
    clear unquote. intros H. unfold token_Char. rewrite go_slice_out; [reflexivity|]. unfold blen. lia.
  Qed.

  (* a string literal denotes exactly strconv.Unquote of its full text (quotes or backquotes included) *)
  Lemma string_glue text :
    compile_string unquote text = match unquote text with Some s => Ok (mkValue 64 (Zn 0) (PStr s)) | None => Panic end.
  Proof using unquote. unfold compile_string, token_Unquote. destruct (unquote text); reflexivity. Qed.
End Lit.
