(* C18, run part (2b): one instruction on a shared slot array: renumbering the slots of an instruction by
   b and running it on pre ++ sl ++ post (|pre| = b) is running it on sl, the other slots untouched
   (a walk through every case of step1, by slot class of the opcode). *)
From Coq Require Import ZArith List String Ascii Bool Lia.
From GV Require Import GoSpec.GoPrim Gen.ValueOps_gen Gen.Tables_gen Model.VM Model.Incr Proofs.C18_step Proofs.C18_seq.
Import ListNotations.
Open Scope Z_scope.

Definition map_sres (F : list value -> list value) (r : sres) : sres :=
  match r with
  | SNext sl o s => SNext (F sl) o s
  | SJump d sl o s => SJump d (F sl) o s
  | SCall p fa xa xr sl o s => SCall p fa xa xr (F sl) o s
  | SRet sl o s => SRet (F sl) o s
  | other => other
  end.

Lemma znth_mid : forall {A} (pre sl post : list A) a, 0 <= a < zlen sl ->
  znth (pre ++ sl ++ post) (a + zlen pre) = znth sl a.
Proof.
  intros A pre sl post a H. destruct (znth sl a) eqn:E.
  - rewrite Z.add_comm. apply znth_ctx. exact E.
  - apply znth_none in E. lia.
Qed.
Lemma nset_mid : forall {A} (pre sl post : list A) n v, (n < List.length sl)%nat ->
  nset (pre ++ sl ++ post) (n + List.length pre) v = (pre ++ nset sl n v ++ post)%list.
Proof.
  intros A pre sl post n v H. induction pre as [|x pre IH]; cbn [app List.length].
  - rewrite Nat.add_0_r. revert n H. induction sl as [|y sl IHs]; intros n H; [cbn in H; lia|].
    destruct n; cbn [nset app]; [reflexivity|]. rewrite IHs; [reflexivity|cbn in H; lia].
  - replace (n + S (List.length pre))%nat with (S (n + List.length pre)) by lia. cbn [nset]. rewrite IH. reflexivity.
Qed.
Lemma zset_mid : forall {A} (pre sl post : list A) a v, 0 <= a < zlen sl ->
  zset (pre ++ sl ++ post) (a + zlen pre) v = (pre ++ zset sl a v ++ post)%list.
Proof.
  intros A pre sl post a v H. unfold zset, zlen in *.
  replace (a + Z.of_nat (List.length pre) <? 0) with false by (symmetry; apply Z.ltb_ge; lia).
  replace (a <? 0) with false by (symmetry; apply Z.ltb_ge; lia).
  replace (Z.to_nat (a + Z.of_nat (List.length pre))) with (Z.to_nat a + List.length pre)%nat by lia.
  apply nset_mid. lia.
Qed.

Lemma slotB_slotA : forall c, slotB c = true -> slotA c = true.
Proof.
  intros c H. unfold slotB in H.
  repeat (apply orb_true_iff in H; destruct H as [H|H]); apply Z.eqb_eq in H; subst c; reflexivity.
Qed.
Lemma iter_slotA : forall c, (c =? c_Iter) = true -> slotA c = true /\ slotB c = false.
Proof. intros c H. apply Z.eqb_eq in H. subst c. split; reflexivity. Qed.

Lemma split_shift : forall v b, 0 <= v < 4294967296 -> 0 <= b ->
  fst (splitParams v) + b < 32768 -> snd (splitParams v) + b < 32768 ->
  splitParams (v + b * 65537) = (fst (splitParams v) + b, snd (splitParams v) + b).
Proof.
  intros v b Hv Hb. unfold splitParams. cbn [fst snd].
  change 65535 with (Z.ones 16). rewrite !Z.land_ones by lia. rewrite !Z.shiftr_div_pow2 by lia.
  change (2 ^ 16) with 65536. intros H1 H2.
  pose proof (Z.div_mod v 65536 ltac:(lia)) as Hdm.
  pose proof (Z.mod_pos_bound v 65536 ltac:(lia)) as Hlo.
  assert (Hhi : 0 <= v / 65536 < 65536) by (split; [apply Z.div_pos; lia|apply Z.div_lt_upper_bound; lia]).
  rewrite (Z.mod_small (v / 65536)) in * by lia.
  assert (Hx : v + b * 65537 = (v / 65536 + b) * 65536 + (v mod 65536 + b)) by lia.
  assert (Hd1 : (v + b * 65537) / 65536 = v / 65536 + b).
  { rewrite Hx. rewrite Z.div_add_l by lia. rewrite (Z.div_small (v mod 65536 + b)) by lia. lia. }
  assert (Hd2 : (v + b * 65537) mod 65536 = v mod 65536 + b).
  { rewrite Hx. rewrite Z.add_comm, Z.mod_add by lia. apply Z.mod_small. lia. }
  rewrite Hd1, Hd2. rewrite (Z.mod_small (v / 65536 + b)) by lia. f_equal; lia.
Qed.

Section Slots.
  Variable grow : Z -> Z -> Z.
  Variable ext_get : st -> value -> value -> option (res value).
  Variable ext_set : st -> value -> value -> value -> option (res st).
  Variable ext_len : st -> value -> option Z.
  Variable ext_getattr : st -> value -> Z -> option (res (value * st)).
  Variable ext_setattr : st -> value -> Z -> value -> option (res st).
  Notation step1 := (VM.step1 grow ext_get ext_set ext_len ext_getattr ext_setattr).

  Lemma local_bin_slot : forall c r, local_bin_of c = Some r -> slotA c = true /\ slotB c = true.
  Proof.
    intros c r H. unfold local_bin_of in H.
    repeat match type of H with
    | (if ?b then _ else _) = _ => let E := fresh "E" in destruct b eqn:E; [apply Z.eqb_eq in E; subst c; split; reflexivity|]
    end. discriminate H.
  Qed.

  (* walk through step1 along the hypothesis; the goal's copy of the chain reduces with it *)
  Ltac walk :=
    repeat match goal with
    | |- _ = _ -> _ => intro
    | H : context [match ?x with _ => _ end] |- _ => destruct x eqn:?
    end.
  Ltac split_orbs :=
    repeat match goal with
    | H : (_ || _) = true |- _ => apply orb_true_iff in H; destruct H as [H|H]
    end.
  (* the branch's opcode contradicts what is known of slotA / slotB / Iter *)
  Ltac kill_incons :=
    split_orbs;
    match goal with
    | E : (icode ?i =? ?c) = true, EA : slotA (icode ?i) = _ |- _ =>
        apply Z.eqb_eq in E; rewrite E in EA; vm_compute in EA; discriminate EA
    | E : (icode ?i =? ?c) = true, EB : slotB (icode ?i) = _ |- _ =>
        apply Z.eqb_eq in E; rewrite E in EB; vm_compute in EB; discriminate EB
    | E : (icode ?i =? ?c) = true, EI : (icode ?i =? c_Iter) = _ |- _ =>
        apply Z.eqb_eq in E; rewrite E in EI; vm_compute in EI; discriminate EI
    | E : local_bin_of (icode ?i) = Some _, EA : slotA (icode ?i) = false |- _ =>
        rewrite (proj1 (local_bin_slot _ _ E)) in EA; discriminate EA
    | E : local_bin_of (icode ?i) = Some _, EB : slotB (icode ?i) = false |- _ =>
        rewrite (proj2 (local_bin_slot _ _ E)) in EB; discriminate EB
    end.

  Notation F pre post := (fun x : list value => (pre ++ x ++ post)%list).

  Lemma step1_noslot : forall codes pc i pre sl post ops s r,
    slotA (icode i) = false ->
    step1 codes pc i sl ops s = r ->
    step1 codes pc i (pre ++ sl ++ post)%list ops s = map_sres (F pre post) r.
  Proof.
    intros codes pc i pre sl post ops s r EA. unfold VM.step1, slift.
    walk; try (subst r; reflexivity); kill_incons.
  Qed.

  Lemma step1_slotA : forall codes pc i pre sl post ops s r,
    slotA (icode i) = true -> slotB (icode i) = false -> (icode i =? c_Iter) = false ->
    0 <= iA i < zlen sl ->
    step1 codes pc i sl ops s = r ->
    step1 codes pc (mkI (icode i) (iA i + zlen pre) (iB i) (iC i) (ipos i)) (pre ++ sl ++ post)%list ops s =
    map_sres (F pre post) r.
  Proof.
    intros codes pc i pre sl post ops s r EA EB EI HA. unfold VM.step1, slift. cbn [icode iA iB iC ipos].
    walk; try discriminate; try (subst r; reflexivity); try kill_incons.
    all: subst r; (rewrite ?znth_mid by assumption);
      repeat match goal with H : ?x = _ |- context [?x] => rewrite H end;
      cbv beta iota; (rewrite ?zset_mid by assumption); try reflexivity.
  Qed.

  Lemma step1_slotB : forall codes pc i pre sl post ops s r,
    slotB (icode i) = true -> 0 <= iA i < zlen sl -> 0 <= iB i < zlen sl ->
    step1 codes pc i sl ops s = r ->
    step1 codes pc (mkI (icode i) (iA i + zlen pre) (iB i + zlen pre) (iC i) (ipos i)) (pre ++ sl ++ post)%list ops s =
    map_sres (F pre post) r.
  Proof.
    intros codes pc i pre sl post ops s r EB HA HB. pose proof (slotB_slotA _ EB) as EA.
    unfold VM.step1, slift. cbn [icode iA iB iC ipos].
    walk; try discriminate; try (subst r; reflexivity); try kill_incons.
    all: subst r; (rewrite ?znth_mid by assumption);
      repeat match goal with H : ?x = _ |- context [?x] => rewrite H end;
      cbv beta iota; (rewrite ?zset_mid by assumption); try reflexivity.
  Qed.

  Lemma zlen_zset : forall {A} (l : list A) i v, zlen (zset l i v) = zlen l.
  Proof. intros. unfold zlen. rewrite zset_length. reflexivity. Qed.

  Lemma step1_iter : forall codes pc i pre sl post ops s r b1 b2,
    (icode i =? c_Iter) = true -> 0 <= iA i < zlen sl ->
    splitParams (iB i) = (b1, b2) -> 0 <= b1 < zlen sl -> 0 <= b2 < zlen sl ->
    0 <= iB i < 4294967296 -> zlen pre + zlen sl < 32768 ->
    step1 codes pc i sl ops s = r ->
    step1 codes pc (mkI (icode i) (iA i + zlen pre) (iB i + zlen pre * 65537) (iC i) (ipos i)) (pre ++ sl ++ post)%list ops s =
    map_sres (F pre post) r.
  Proof.
    intros codes pc i pre sl post ops s r b1 b2 EI HA Es H1 H2 HB Hn.
    destruct (iter_slotA _ EI) as [EA EB].
    assert (Hsp : splitParams (iB i + zlen pre * 65537) = (b1 + zlen pre, b2 + zlen pre)).
    { pose proof (split_shift (iB i) (zlen pre) HB) as Hx. rewrite Es in Hx. cbn [fst snd] in Hx.
      apply Hx; unfold zlen in *; lia. }
    unfold VM.step1, slift. cbn [icode iA iB iC ipos]. rewrite Hsp, Es.
    walk; try discriminate; try (subst r; reflexivity); try kill_incons.
    all: subst r; (rewrite ?znth_mid by assumption);
      repeat match goal with H : ?x = _ |- context [?x] => rewrite H end;
      cbv beta iota; (rewrite ?zset_mid by assumption); (rewrite ?zset_mid by (rewrite ?zlen_zset; assumption)); try reflexivity.
  Qed.

  (* an instruction never changes the number of slots *)
  Definition sres_len (n : nat) (r : sres) : Prop :=
    match r with
    | SNext sl _ _ | SJump _ sl _ _ | SCall _ _ _ _ sl _ _ | SRet sl _ _ => List.length sl = n
    | _ => True
    end.
  Lemma step1_len : forall codes pc i sl ops s r,
    step1 codes pc i sl ops s = r -> sres_len (List.length sl) r.
  Proof.
    intros codes pc i sl ops s r. unfold VM.step1, slift.
    walk; subst r; cbn [sres_len]; rewrite ?zset_length; try reflexivity; exact I.
  Qed.

  (* the conditions on the slot operands of i, for a frame of n slots placed after b others *)
  Definition slot_cond (i : instr) (n b : Z) : Prop :=
    (slotA (icode i) = true -> 0 <= iA i < n) /\
    (slotB (icode i) = true -> 0 <= iB i < n) /\
    ((icode i =? c_Iter) = true ->
       0 <= iB i < 4294967296 /\ 0 <= fst (splitParams (iB i)) < n /\ 0 <= snd (splitParams (iB i)) < n /\ b + n < 32768).

  Theorem step1_slots : forall codes pc i pre sl post ops s,
    slot_cond i (zlen sl) (zlen pre) ->
    step1 codes pc (shift_instr (zlen pre) i) (pre ++ sl ++ post)%list ops s =
    map_sres (F pre post) (step1 codes pc i sl ops s).
  Proof.
    intros codes pc i pre sl post ops s [HA [HB HI]]. unfold shift_instr.
    destruct (slotB (icode i)) eqn:EB.
    - rewrite (slotB_slotA _ EB) in *. apply step1_slotB; auto.
    - destruct (icode i =? c_Iter) eqn:EI.
      + destruct (iter_slotA _ EI) as [EA _]. rewrite EA in *.
        destruct (HI eq_refl) as [H0 [H1 [H2 H3]]].
        destruct (splitParams (iB i)) as [b1 b2] eqn:Es. cbn [fst snd] in *.
        eapply step1_iter; eauto.
      + destruct (slotA (icode i)) eqn:EA.
        * rewrite Z.add_0_r. apply step1_slotA; auto.
        * rewrite !Z.add_0_r. replace (mkI (icode i) (iA i) (iB i) (iC i) (ipos i)) with i by (destruct i; reflexivity).
          apply step1_noslot; auto.
  Qed.
End Slots.
