(* C03: every table of parser functions that passes Cursor.table_ok terminates on every token list and
   every oracle; goatlang's table passes. *)
From Coq Require Import ZArith List Bool Lia PeanoNat Wf_nat.
From GV Require Import Model.Cursor.
Import ListNotations.
Open Scope Z_scope.

(* "the bound e holds for the value v" *)
Definition ele (v : Z) (e : ext) : Prop := match e with None => False | Some x => x <= v end.

Lemma ele_min_l : forall v a b, ele v a -> ele v (emin a b).
Proof. intros v [x|] [y|] H; cbn in *; try lia; try contradiction. Qed.
Lemma ele_min_r : forall v a b, ele v b -> ele v (emin a b).
Proof. intros v [x|] [y|] H; cbn in *; try lia; try contradiction. Qed.
Lemma ele_mono : forall v v' e, ele v e -> v <= v' -> ele v' e.
Proof. intros v v' [x|] H L; cbn in *; [lia|contradiction]. Qed.

Section Term.
  Variable tbl : nat -> prog.
  Variable rank : nat -> nat.
  Variable gain : nat -> Z.
  Variable nf : nat.
  Variable n : Z.
  Variable oracle : nat -> bool.

  Notation Exec := (Exec tbl n oracle).

  (* what a terminated call promises *)
  Definition call_post (f : nat) (c : Z) (o : out) : Prop :=
    match o with ONorm c' => c + gain f <= c' <= n | OBrk _ => False | OPanic => True end.

  Section Frame.
    Variable self : nat.
    Variable c0 : Z.                 (* cursor at function entry *)
    (* calls that are smaller in the lexicographic order (tokens left, rank) terminate *)
    Hypothesis IHcall : forall f c k, (f < nf)%nat -> c <= n ->
      (c0 + 1 <= c \/ (c0 <= c /\ (rank f < rank self)%nat)) ->
      exists o k', Exec (Call f) c k o k' /\ call_post f c o.

    Definition post (g : Z) (nb bb : ext) (c : Z) (o : out) : Prop :=
      match o with
      | ONorm c' => ele (c' - c + g) nb /\ c' <= n
      | OBrk c' => ele (c' - c + g) bb /\ c' <= n
      | OPanic => True
      end.

    Lemma frame : forall p g nb bb, chk rank gain nf self g p = Some (nb, bb) ->
      forall c k, c0 + g <= c -> c <= n -> exists o k', Exec p c k o k' /\ post g nb bb c o.
    Proof.
      induction p as [| | | |a IHa b IHb|a IHa b IHb|b IHb| |f]; intros g nb bb H c k Hc Hn; cbn [chk] in H.
      - (* Skip *) inversion H; subst. exists (ONorm c), k. split; [constructor|]. cbn. split; lia.
      - (* Panic *) exists OPanic, k. split; [constructor|exact I].
      - (* Next *) inversion H; subst.
        destruct (Z_lt_dec c n) as [L|L]; [destruct (Z_le_dec 0 c) as [L0|L0]|].
        + exists (ONorm (c + 1)), k. split; [constructor; lia|]. cbn. split; lia.
        + exists OPanic, k. split; [apply E_NextOut; lia|exact I].
        + exists OPanic, k. split; [apply E_NextOut; lia|exact I].
      - (* Back2 *) inversion H; subst. exists (ONorm (c - 2)), k. split; [constructor|]. cbn. split; lia.
      - (* Seq *)
        destruct (chk rank gain nf self g a) as [[[g'|] ba]|] eqn:Ea; try discriminate.
        + destruct (chk rank gain nf self g' b) as [[nb' bb']|] eqn:Eb; [|discriminate]. inversion H; subst.
          destruct (IHa _ _ _ Ea c k Hc Hn) as (oa & ka & Xa & Pa).
          destruct oa as [c'|c'|].
          * cbn in Pa. destruct Pa as [Pa1 Pa2].
            destruct (IHb _ _ _ Eb c' ka ltac:(lia) Pa2) as (ob & kb & Xb & Pb).
            exists ob, kb. split; [eapply E_Seq; eauto|].
            destruct ob as [c''|c''|]; cbn in *; [|split; [apply ele_min_r|]|exact I].
            -- destruct Pb as [Pb1 Pb2]. split; [|assumption]. eapply ele_mono; [exact Pb1|lia].
            -- destruct Pb as [Pb1 Pb2]. eapply ele_mono; [exact Pb1|lia].
            -- tauto.
          * exists (OBrk c'), ka. split; [apply E_SeqBrk; assumption|]. cbn in *. destruct Pa. split; [apply ele_min_l|]; assumption.
          * exists OPanic, ka. split; [apply E_SeqPanic; assumption|exact I].
        + inversion H; subst.
          destruct (IHa _ _ _ Ea c k Hc Hn) as (oa & ka & Xa & Pa).
          destruct oa as [c'|c'|].
          * cbn in Pa. destruct Pa as [[] _].
          * exists (OBrk c'), ka. split; [apply E_SeqBrk; assumption|exact Pa].
          * exists OPanic, ka. split; [apply E_SeqPanic; assumption|exact I].
      - (* Choice *)
        destruct (chk rank gain nf self g a) as [[na ba]|] eqn:Ea; [|discriminate].
        destruct (chk rank gain nf self g b) as [[nb' bb']|] eqn:Eb; [|discriminate]. inversion H; subst.
        destruct (oracle k) eqn:Eo.
        + destruct (IHa _ _ _ Ea c (S k) Hc Hn) as (o & k' & X & P).
          exists o, k'. split; [apply E_ChoiceL; assumption|].
          destruct o; cbn in *; try exact I; destruct P; split; try assumption; apply ele_min_l; assumption.
        + destruct (IHb _ _ _ Eb c (S k) Hc Hn) as (o & k' & X & P).
          exists o, k'. split; [apply E_ChoiceR; assumption|].
          destruct o; cbn in *; try exact I; destruct P; split; try assumption; apply ele_min_r; assumption.
      - (* Loop *)
        destruct (chk rank gain nf self g b) as [[nb' bb']|] eqn:Eb; [|discriminate].
        destruct (match nb' with None => true | Some x => g + 1 <=? x end) eqn:Eg; [|discriminate].
        inversion H; subst. clear H.
        assert (L : forall m c k, n - c <= Z.of_nat m -> c0 + g <= c -> c <= n ->
                  exists o k', Exec (Loop b) c k o k' /\ post g (emin (Some g) bb') None c o).
        { induction m as [|m IHm]; intros c1 k1 Hm Hc1 Hn1.
          - (* no token left: an iteration cannot end normally *)
            destruct (oracle k1) eqn:Eo.
            + destruct (IHb _ _ _ Eb c1 (S k1) Hc1 Hn1) as (o & k' & X & P).
              destruct o as [c'|c'|].
              * cbn in P. destruct P as [P1 P2]. destruct nb' as [x|]; [|destruct P1]. cbn in P1.
                apply Z.leb_le in Eg. lia.
              * exists (ONorm c'), k'. split; [eapply E_LoopBrk; eauto|]. cbn [post] in *. destruct P. split; [apply ele_min_r|]; assumption.
              * exists OPanic, k'. split; [eapply E_LoopPanic; eauto|exact I].
            + exists (ONorm c1), (S k1). split; [apply E_LoopExit; assumption|]. cbn [post]. split; [|assumption].
              apply ele_min_l. cbn. lia.
          - destruct (oracle k1) eqn:Eo.
            + destruct (IHb _ _ _ Eb c1 (S k1) Hc1 Hn1) as (o & k' & X & P).
              destruct o as [c'|c'|].
              * cbn in P. destruct P as [P1 P2]. destruct nb' as [x|]; [|destruct P1]. cbn in P1.
                apply Z.leb_le in Eg.
                destruct (IHm c' k' ltac:(lia) ltac:(lia) P2) as (o2 & k2 & X2 & P2').
                exists o2, k2. split; [eapply E_LoopIter; eauto|].
                destruct o2 as [c2|c2|]; cbn [post] in *; try exact I.
                -- destruct P2' as [Q1 Q2]. split; [|assumption]. eapply ele_mono; [exact Q1|lia].
                -- destruct P2' as [[] _].
              * exists (ONorm c'), k'. split; [eapply E_LoopBrk; eauto|]. cbn [post] in *. destruct P. split; [apply ele_min_r|]; assumption.
              * exists OPanic, k'. split; [eapply E_LoopPanic; eauto|exact I].
            + exists (ONorm c1), (S k1). split; [apply E_LoopExit; assumption|]. cbn [post]. split; [|assumption].
              apply ele_min_l. cbn. lia. }
        apply (L (Z.to_nat (n - c))); lia.
      - (* Break *) inversion H; subst. exists (OBrk c), k. split; [constructor|]. cbn. split; lia.
      - (* Call *)
        destruct ((0 <=? g) && ((1 <=? g) || (rank f <? rank self)%nat) && (f <? nf)%nat) eqn:E; [|discriminate].
        inversion H; subst. apply andb_true_iff in E as [E Ef]. apply andb_true_iff in E as [E0 E1].
        apply Z.leb_le in E0. apply Nat.ltb_lt in Ef.
        assert (Hm : c0 + 1 <= c \/ (c0 <= c /\ (rank f < rank self)%nat)).
        { apply orb_true_iff in E1 as [E1|E1]; [apply Z.leb_le in E1; left; lia|apply Nat.ltb_lt in E1; right; split; [lia|assumption]]. }
        destruct (IHcall f c k Ef Hn Hm) as (o & k' & X & P).
        exists o, k'. split; [assumption|].
        destruct o as [c'|c'|]; cbn in *; [split; lia|contradiction|exact I].
    Qed.
  End Frame.

  Hypothesis Hok : table_ok tbl rank gain nf = true.

  Lemma fun_ok_of : forall f, (f < nf)%nat -> fun_ok tbl rank gain nf f = true.
  Proof.
    intros f Hf. unfold table_ok in Hok. rewrite forallb_forall in Hok. apply Hok. apply in_seq. lia.
  Qed.

  Lemma calls_terminate : forall m r f c k, (f < nf)%nat -> c <= n -> n - c <= Z.of_nat m -> (rank f <= r)%nat ->
    exists o k', Exec (Call f) c k o k' /\ call_post f c o.
  Proof.
    induction m as [m IHm] using lt_wf_ind. induction r as [r IHr] using lt_wf_ind.
    intros f c k Hf Hc Hm Hr.
    pose proof (fun_ok_of f Hf) as Hfo. unfold fun_ok in Hfo.
    destruct (chk rank gain nf f 0 (tbl f)) as [[nb [bb|]]|] eqn:Ec; try discriminate.
    assert (IHcall : forall f' c' k', (f' < nf)%nat -> c' <= n ->
              (c + 1 <= c' \/ (c <= c' /\ (rank f' < rank f)%nat)) ->
              exists o k'', Exec (Call f') c' k' o k'' /\ call_post f' c' o).
    { intros f' c' k' Hf' Hc' [H|[H1 H2]].
      - destruct m as [|m']; [lia|].
        apply (IHm m' ltac:(lia) (rank f') f' c' k' Hf' Hc'); lia.
      - apply (IHr (rank f') ltac:(lia) f' c' k' Hf' Hc'); lia. }
    destruct (frame f c IHcall (tbl f) 0 nb None Ec c k ltac:(lia) Hc) as (o & k' & X & P).
    exists (ret o), k'. split; [constructor; assumption|].
    destruct o as [c'|c'|]; cbn in *.
    - destruct P as [P1 P2]. destruct nb as [x|]; [|destruct P1]. cbn in P1. apply Z.leb_le in Hfo. lia.
    - destruct P as [[] _].
    - exact I.
  Qed.

  Theorem table_terminates_sec : forall f c k, (f < nf)%nat -> c <= n ->
    exists o k', Exec (Call f) c k o k' /\ (forall c', o = ONorm c' -> c + gain f <= c' <= n).
  Proof.
    intros f c k Hf Hc.
    destruct (calls_terminate (Z.to_nat (n - c)) (rank f) f c k Hf Hc ltac:(lia) ltac:(lia)) as (o & k' & X & P).
    exists o, k'. split; [assumption|]. intros c' ->. exact P.
  Qed.
End Term.

Theorem table_terminates : forall (tbl : nat -> prog) (rank : nat -> nat) (gain : nat -> Z) (nf : nat),
  table_ok tbl rank gain nf = true ->
  forall (n : Z) (oracle : nat -> bool) f c k, (f < nf)%nat -> c <= n ->
  exists o k', Exec tbl n oracle (Call f) c k o k' /\ (forall c', o = ONorm c' -> c + gain f <= c' <= n).
Proof. intros tbl rank gain nf H n oracle f c k Hf Hc. eapply table_terminates_sec; eauto. Qed.

Lemma goat_table_ok : table_ok goat_table goat_rank goat_gain goat_nf = true.
Proof. vm_compute. reflexivity. Qed.

Theorem goat_parser_terminates : forall (n : Z) (oracle : nat -> bool) (c : Z) (k : nat),
  0 <= c <= n -> exists o k', Exec goat_table n oracle (Call F_parse) c k o k' /\
    (forall c', o = ONorm c' -> c + 1 <= c' <= n).
Proof.
  intros n oracle c k Hc.
  destruct (table_terminates goat_table goat_rank goat_gain goat_nf goat_table_ok n oracle F_parse c k) as (o & k' & X & Y).
  - unfold F_parse, goat_nf. lia.
  - lia.
  - exists o, k'. split; [exact X|]. intros c' E. specialize (Y c' E).
    change (goat_gain F_parse) with 1 in Y. exact Y.
Qed.
