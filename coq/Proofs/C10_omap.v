(* C10: the ordered-map wrapper of Model/OMap.v behaves like a finite map, and its
   range satisfies Go's iteration contract under arbitrary mutation during the loop. *)
From Coq Require Import ZArith List Bool Lia Permutation.
From GV Require Import Model.OMap.
Import ListNotations.

Section Spec.
  Context {K V : Type}.
  Variable keqb : K -> K -> bool.
  Hypothesis keqb_spec : forall a b, keqb a b = true <-> a = b.
  Variable assignV : V -> Z -> V.
  Variable zeroV : Z -> V.

  Notation omap := (@omap K V).
  Notation lookup := (lookup keqb).
  Notation set := (set keqb assignV).
  Notation delete := (delete keqb).
  Notation get := (get keqb zeroV).
  Notation next := (next keqb).
  Notation apply := (apply keqb assignV).
  Notation apply_all := (apply_all keqb assignV).
  Notation range_loop := (range_loop keqb assignV).
  Notation new_map := (new_map keqb assignV).

  Definition live (m : omap) (k : K) : Prop := lookup k (data m) <> None.

  (* representation invariant: each live key is listed, and listed exactly once *)
  Definition Inv (m : omap) : Prop :=
    NoDup (keys m) /\ NoDup (map fst (data m)) /\ forall k, live m k -> In k (keys m).

  (* an operation whose Delete oracle is a permutation of the keys that stay live *)
  Definition op_ok (m : omap) (o : @op K V) : Prop :=
    match o with OSet _ _ => True | ODelete k order => order_ok keqb m k order end.
  (* all operations of a list are ok in the state in which they are applied *)
  Fixpoint ops_ok (m : omap) (os : list (@op K V)) : Prop :=
    match os with [] => True | o :: r => op_ok m o /\ ops_ok (apply m o) r end.

  (* ---------- auxiliary lemmas ---------- *)
  Notation remove := (OMap.remove keqb).
  Notation upsert := (OMap.upsert keqb).
  Implicit Types d : list (K * V).
  Implicit Types m : omap.

  Lemma keqb_refl : forall a, keqb a a = true.
  Proof. intros a. apply keqb_spec. reflexivity. Qed.

  Lemma keqb_false : forall a b, keqb a b = false <-> a <> b.
  Proof.
    intros a b. destruct (keqb a b) eqn:E.
    - apply keqb_spec in E. split; [discriminate | intros H; contradiction].
    - split; [intros _ H; apply keqb_spec in H; congruence | reflexivity].
  Qed.

  Lemma keqb_neq : forall a b, a <> b -> keqb a b = false.
  Proof. intros a b H. apply keqb_false. exact H. Qed.

  Lemma lookup_In : forall k d, lookup k d <> None <-> In k (map fst d).
  Proof.
    intros k d. induction d as [|[k' v'] d IH]; simpl.
    - split; [intros H; apply H; reflexivity | intros []].
    - destruct (keqb k k') eqn:E.
      + apply keqb_spec in E. subst k'. split; [intros _; left; reflexivity | intros _; discriminate].
      + apply keqb_false in E. rewrite IH. split; [intros H; right; exact H|].
        intros [H|H]; [congruence | exact H].
  Qed.

  Lemma lookup_None_notin : forall k d, lookup k d = None <-> ~ In k (map fst d).
  Proof.
    intros k d. rewrite <- lookup_In. split.
    - intros H H'. apply H'. exact H.
    - intros H. destruct (lookup k d) eqn:E; [|reflexivity]. exfalso. apply H. discriminate.
  Qed.

  Lemma mem_true : forall k d, OMap.mem keqb k d = true <-> lookup k d <> None.
  Proof.
    intros k d. unfold OMap.mem. destruct (lookup k d).
    - split; [intros _; discriminate | reflexivity].
    - split; [discriminate | intros H; exfalso; apply H; reflexivity].
  Qed.

  Lemma mem_false : forall k d, OMap.mem keqb k d = false <-> lookup k d = None.
  Proof.
    intros k d. unfold OMap.mem. destruct (lookup k d).
    - split; discriminate.
    - split; reflexivity.
  Qed.

  Lemma lookup_upsert_same : forall k v d, lookup k (upsert k v d) = Some v.
  Proof.
    intros k v d. induction d as [|[k' v'] d IH]; simpl.
    - rewrite keqb_refl. reflexivity.
    - destruct (keqb k k') eqn:E; simpl; rewrite E; [reflexivity | exact IH].
  Qed.

  Lemma lookup_upsert_other : forall k k' v d, k' <> k -> lookup k' (upsert k v d) = lookup k' d.
  Proof.
    intros k k' v d Hne. induction d as [|[k0 v0] d IH]; simpl.
    - rewrite (keqb_neq _ _ Hne). reflexivity.
    - destruct (keqb k k0) eqn:E; simpl.
      + apply keqb_spec in E. subst k0. rewrite (keqb_neq _ _ Hne). reflexivity.
      + rewrite IH. reflexivity.
  Qed.

  Lemma lookup_remove_same : forall k d, lookup k (remove k d) = None.
  Proof.
    intros k d. induction d as [|[k0 v0] d IH]; simpl.
    - reflexivity.
    - destruct (keqb k k0) eqn:E; simpl; [exact IH | rewrite E; exact IH].
  Qed.

  Lemma lookup_remove_other : forall k k' d, k' <> k -> lookup k' (remove k d) = lookup k' d.
  Proof.
    intros k k' d Hne. induction d as [|[k0 v0] d IH]; simpl.
    - reflexivity.
    - destruct (keqb k k0) eqn:E; simpl.
      + apply keqb_spec in E. subst k0. rewrite (keqb_neq _ _ Hne). exact IH.
      + rewrite IH. reflexivity.
  Qed.

  Lemma map_fst_upsert_mem : forall k v d, lookup k d <> None -> map fst (upsert k v d) = map fst d.
  Proof.
    intros k v d. induction d as [|[k0 v0] d IH]; simpl; intros H.
    - exfalso. apply H. reflexivity.
    - destruct (keqb k k0) eqn:E; simpl.
      + reflexivity.
      + rewrite IH; [reflexivity | exact H].
  Qed.

  Lemma map_fst_upsert_nomem : forall k v d, lookup k d = None -> map fst (upsert k v d) = map fst d ++ [k].
  Proof.
    intros k v d. induction d as [|[k0 v0] d IH]; simpl; intros H.
    - reflexivity.
    - destruct (keqb k k0) eqn:E; simpl.
      + discriminate.
      + rewrite IH; [reflexivity | exact H].
  Qed.

  Lemma In_map_fst_remove : forall x k d, In x (map fst (remove k d)) <-> In x (map fst d) /\ x <> k.
  Proof.
    intros x k d. rewrite <- !lookup_In.
    destruct (keqb x k) eqn:E.
    - apply keqb_spec in E. subst x. rewrite lookup_remove_same. split.
      + intros H. exfalso. apply H. reflexivity.
      + intros [_ H]. exfalso. apply H. reflexivity.
    - apply keqb_false in E. rewrite (lookup_remove_other _ _ _ E). split.
      + intros H. split; assumption.
      + intros [H _]. exact H.
  Qed.

  Lemma NoDup_remove : forall k d, NoDup (map fst d) -> NoDup (map fst (remove k d)).
  Proof.
    intros k d. induction d as [|[k0 v0] d IH]; simpl; intros H.
    - constructor.
    - inversion H as [|a l Hnin Hnd]; subst.
      destruct (keqb k k0) eqn:E; simpl.
      + apply IH. exact Hnd.
      + constructor; [|apply IH; exact Hnd].
        intros Hin. apply In_map_fst_remove in Hin. apply Hnin. apply Hin.
  Qed.

  Lemma NoDup_snoc : forall (l : list K) k, NoDup l -> ~ In k l -> NoDup (l ++ [k]).
  Proof.
    intros l k Hnd Hnin. apply (Permutation_NoDup (Permutation_cons_append l k)).
    constructor; assumption.
  Qed.

  Lemma NoDup_upsert : forall k v d, NoDup (map fst d) -> NoDup (map fst (upsert k v d)).
  Proof.
    intros k v d H. destruct (lookup k d) eqn:E.
    - rewrite map_fst_upsert_mem; [exact H | rewrite E; discriminate].
    - rewrite map_fst_upsert_nomem by exact E. apply NoDup_snoc; [exact H|].
      apply lookup_None_notin. exact E.
  Qed.

  Lemma length_upsert : forall k v d, length (upsert k v d) = if OMap.mem keqb k d then length d else S (length d).
  Proof.
    intros k v d. rewrite <- (map_length fst (upsert k v d)), <- (map_length fst d).
    destruct (OMap.mem keqb k d) eqn:E.
    - apply mem_true in E. rewrite map_fst_upsert_mem by exact E. reflexivity.
    - apply mem_false in E. rewrite map_fst_upsert_nomem by exact E.
      rewrite app_length. simpl. lia.
  Qed.

  Lemma remove_notin : forall k d, lookup k d = None -> remove k d = d.
  Proof.
    intros k d. induction d as [|[k0 v0] d IH]; simpl; intros H.
    - reflexivity.
    - destruct (keqb k k0) eqn:E; [discriminate|]. rewrite IH by exact H. reflexivity.
  Qed.

  Lemma length_remove : forall k d, NoDup (map fst d) ->
    length (remove k d) = if OMap.mem keqb k d then length d - 1 else length d.
  Proof.
    intros k d. induction d as [|[k0 v0] d IH]; simpl; intros H.
    - reflexivity.
    - inversion H as [|a l Hnin Hnd]; subst. unfold OMap.mem. simpl.
      destruct (keqb k k0) eqn:E.
      + apply keqb_spec in E. subst k0.
        rewrite remove_notin; [lia|]. apply lookup_None_notin. exact Hnin.
      + simpl. rewrite (IH Hnd). unfold OMap.mem.
        destruct (lookup k d) eqn:El; [|reflexivity].
        destruct d as [|p d']; [simpl in El; discriminate|]. simpl. lia.
  Qed.

  Lemma NoDup_app_r : forall (pre l : list K), NoDup (pre ++ l) -> NoDup l.
  Proof.
    intros pre l. induction pre as [|a pre IH]; simpl; intros H.
    - exact H.
    - inversion H; subst. apply IH. assumption.
  Qed.

  Lemma next_spec : forall m r k v r', next m r = Some (k, v, r') ->
    exists pre, r = pre ++ k :: r' /\ lookup k (data m) = Some v /\
                forall x, In x pre -> lookup x (data m) = None.
  Proof.
    intros m r. induction r as [|a r IH]; simpl; intros k v r' H.
    - discriminate.
    - destruct (lookup a (data m)) eqn:E.
      + inversion H; subst. exists []. split; [reflexivity|]. split; [exact E|]. intros x [].
      + destruct (IH _ _ _ H) as (pre & Hr & Hl & Hp).
        exists (a :: pre). split; [simpl; rewrite Hr; reflexivity|]. split; [exact Hl|].
        intros x [Hx|Hx]; [subst x; exact E | apply Hp; exact Hx].
  Qed.

  Lemma next_none : forall m r, next m r = None -> forall x, In x r -> lookup x (data m) = None.
  Proof.
    intros m r. induction r as [|a r IH]; simpl; intros H x Hx.
    - contradiction.
    - destruct (lookup a (data m)) eqn:E; [discriminate|].
      destruct Hx as [Hx|Hx]; [subst x; exact E | apply IH; assumption].
  Qed.

  Lemma inv_upsert : forall m k v ks' vt,
    Inv m -> NoDup ks' -> incl (keys m) ks' -> In k ks' ->
    Inv (mkOMap (upsert k v (data m)) ks' vt).
  Proof.
    intros m k v ks' vt (Hk & Hd & Hl) Hnd Hincl Hin.
    unfold Inv, live. simpl. split; [exact Hnd|]. split; [apply NoDup_upsert; exact Hd|].
    intros x Hx. destruct (keqb x k) eqn:E.
    - apply keqb_spec in E. subst x. exact Hin.
    - apply keqb_false in E. rewrite (lookup_upsert_other _ _ _ _ E) in Hx.
      apply Hincl. apply Hl. exact Hx.
  Qed.

  Lemma range_loop_In : forall fuel m r body k, In k (fst (range_loop fuel m r body)) -> In k r.
  Proof.
    induction fuel as [|f IH]; intros m r body k; simpl.
    - intros [].
    - destruct (next m r) as [[[k0 v0] r']|] eqn:En; [|intros []].
      destruct (range_loop f (apply_all m (body k0)) r' body) as [vs mf] eqn:Er.
      simpl. intros H. apply next_spec in En. destruct En as (pre & Hr & _ & _). subst r.
      apply in_or_app. right. destruct H as [H|H]; [left; exact H | right].
      apply (IH (apply_all m (body k0)) r' body). rewrite Er. exact H.
  Qed.

  Lemma range_loop_NoDup : forall fuel m r body, NoDup r -> NoDup (fst (range_loop fuel m r body)).
  Proof.
    induction fuel as [|f IH]; intros m r body Hnd; simpl.
    - constructor.
    - destruct (next m r) as [[[k0 v0] r']|] eqn:En; [|constructor].
      destruct (range_loop f (apply_all m (body k0)) r' body) as [vs mf] eqn:Er.
      simpl. apply next_spec in En. destruct En as (pre & Hr & _ & _). subst r.
      apply NoDup_app_r in Hnd. inversion Hnd as [|a l Hnin Hnd']; subst.
      constructor.
      + intros Hin. apply Hnin. apply (range_loop_In f (apply_all m (body k0)) r' body).
        rewrite Er. exact Hin.
      + specialize (IH (apply_all m (body k0)) r' body Hnd'). rewrite Er in IH. exact IH.
  Qed.

  (* TO PROVE *)

  Theorem inv_new : forall vt ps, NoDup (map fst ps) -> Inv (new_map vt ps).
  Proof.
    intros vt ps. unfold OMap.new_map.
    assert (G : forall ps m, Inv m -> NoDup (map fst ps) ->
                (forall k, In k (map fst ps) -> ~ In k (keys m)) ->
                Inv (from_pairs keqb assignV vt ps m)).
    { clear ps. induction ps as [|[k v] ps IH]; intros m Hm Hnd Hdis; simpl.
      - exact Hm.
      - simpl in Hnd. inversion Hnd as [|a l Hnin Hnd']; subst.
        assert (Hk : ~ In k (keys m)) by (apply Hdis; left; reflexivity).
        apply IH.
        + apply inv_upsert.
          * exact Hm.
          * apply NoDup_snoc; [apply Hm | exact Hk].
          * intros x Hx. apply in_or_app. left. exact Hx.
          * apply in_or_app. right. left. reflexivity.
        + exact Hnd'.
        + simpl. intros x Hx Hin. apply in_app_or in Hin. destruct Hin as [Hin|[Hin|[]]].
          * apply (Hdis x); [right; exact Hx | exact Hin].
          * subst x. apply Hnin. exact Hx. }
    intros Hnd. apply G.
    - unfold Inv, live. simpl. split; [constructor|]. split; [constructor|].
      intros k H. apply H. reflexivity.
    - exact Hnd.
    - simpl. intros k _ [].
  Qed.

  (* refinement to a finite map: lookups see the latest write, a missing key gives the zero value
     of the element type and ok = false, len counts live keys *)
  Theorem get_set_same : forall m k v, get (set m k v) k = (assignV v (vtype m), true).
  Proof.
    intros m k v. unfold OMap.get, OMap.set. simpl. rewrite lookup_upsert_same. reflexivity.
  Qed.
  Theorem get_set_other : forall m k k' v, k' <> k -> get (set m k v) k' = get m k'.
  Proof.
    intros m k k' v Hne. unfold OMap.get, OMap.set. simpl.
    rewrite (lookup_upsert_other _ _ _ _ Hne). reflexivity.
  Qed.
  Theorem get_delete_same : forall m k order,
    get (delete m k order) k = (zeroV (vtype m), false).
  Proof.
    intros m k order. unfold OMap.get, OMap.delete.
    destruct (length (keys m) / 2 <=? length (remove k (data m)))%nat; simpl;
      rewrite lookup_remove_same; reflexivity.
  Qed.
  Theorem get_delete_other : forall m k k' order, k' <> k -> get (delete m k order) k' = get m k'.
  Proof.
    intros m k k' order Hne. unfold OMap.get, OMap.delete.
    destruct (length (keys m) / 2 <=? length (remove k (data m)))%nat; simpl;
      rewrite (lookup_remove_other _ _ _ Hne); reflexivity.
  Qed.
  Theorem len_set : forall m k v, len (set m k v) = if mem keqb k (data m) then len m else S (len m).
  Proof.
    intros m k v. unfold OMap.len, OMap.set. simpl. apply length_upsert.
  Qed.
  Theorem len_delete : forall m k order, Inv m -> len (delete m k order) = if mem keqb k (data m) then len m - 1 else len m.
  Proof.
    intros m k order (_ & Hd & _). unfold OMap.len, OMap.delete.
    destruct (length (keys m) / 2 <=? length (remove k (data m)))%nat; simpl;
      apply length_remove; exact Hd.
  Qed.
  Theorem vtype_preserved : forall m o, vtype (apply m o) = vtype m.
  Proof.
    intros m [k v|k order]; simpl.
    - reflexivity.
    - unfold OMap.delete.
      destruct (length (keys m) / 2 <=? length (remove k (data m)))%nat; reflexivity.
  Qed.

  Theorem inv_apply : forall m o, Inv m -> op_ok m o -> Inv (apply m o).
  Proof.
    intros m [k v|k order] Hinv Hok; simpl.
    - unfold OMap.set. pose proof Hinv as (Hk & Hd & Hl).
      destruct (OMap.mem keqb k (data m)) eqn:Hm.
      + apply inv_upsert; [exact Hinv | exact Hk | apply incl_refl |].
        apply Hl. apply mem_true. exact Hm.
      + apply mem_false in Hm.
        destruct (length (keys m) =? length (data m))%nat eqn:Hlen.
        * apply Nat.eqb_eq in Hlen.
          assert (Hnin : ~ In k (keys m)).
          { intros Hin. apply lookup_None_notin in Hm. apply Hm.
            apply (@NoDup_length_incl K (map fst (data m)) (keys m) Hd); [rewrite map_length; lia | | exact Hin].
            intros x Hx. apply Hl. apply lookup_In. exact Hx. }
          apply inv_upsert; [exact Hinv | apply NoDup_snoc; assumption | |].
          -- intros x Hx. apply in_or_app. left. exact Hx.
          -- apply in_or_app. right. left. reflexivity.
        * destruct (OMap.kmem keqb k (keys m)) eqn:Hkm.
          -- apply inv_upsert; [exact Hinv | exact Hk | apply incl_refl |].
             unfold OMap.kmem in Hkm. apply existsb_exists in Hkm.
             destruct Hkm as (x & Hx & Heq). apply keqb_spec in Heq. subst x. exact Hx.
          -- assert (Hnin : ~ In k (keys m)).
             { intros Hin. unfold OMap.kmem in Hkm.
               assert (Ht : existsb (keqb k) (keys m) = true).
               { apply existsb_exists. exists k. split; [exact Hin | apply keqb_refl]. }
               congruence. }
             apply inv_upsert; [exact Hinv | apply NoDup_snoc; assumption | |].
             ++ intros x Hx. apply in_or_app. left. exact Hx.
             ++ apply in_or_app. right. left. reflexivity.
    - simpl in Hok. unfold order_ok in Hok. destruct Hinv as (Hk & Hd & Hl).
      unfold OMap.delete.
      destruct (length (keys m) / 2 <=? length (remove k (data m)))%nat;
        unfold Inv, live; simpl.
      + split; [exact Hk|]. split; [apply NoDup_remove; exact Hd|].
        intros x Hx. apply Hl. apply lookup_In. apply lookup_In in Hx.
        apply In_map_fst_remove in Hx. apply Hx.
      + split; [apply (Permutation_NoDup (Permutation_sym Hok)); apply NoDup_remove; exact Hd|].
        split; [apply NoDup_remove; exact Hd|].
        intros x Hx. apply lookup_In in Hx.
        apply (Permutation_in x (Permutation_sym Hok)). exact Hx.
  Qed.
  Theorem inv_apply_all : forall os m, Inv m -> ops_ok m os -> Inv (apply_all m os).
  Proof.
    induction os as [|o os IH]; intros m Hinv Hok; simpl.
    - exact Hinv.
    - simpl in Hok. destruct Hok as [Ho Hos]. apply IH; [apply inv_apply; assumption | exact Hos].
  Qed.

  (* the range contract.  [trace m r body fuel] lists the map states at the moments range_loop calls
     `next` (so the liveness of a key "for the whole loop" can be stated) *)
  Fixpoint states (fuel : nat) (m : omap) (r : list K) (body : K -> list (@op K V)) : list omap :=
    match fuel with
    | O => [m]
    | S f => match next m r with
             | None => [m]
             | Some (k, _, r') => m :: states f (apply_all m (body k)) r' body
             end
    end.
  (* body operations are ok whenever they are run *)
  Fixpoint body_ok (fuel : nat) (m : omap) (r : list K) (body : K -> list (@op K V)) : Prop :=
    match fuel with
    | O => True
    | S f => match next m r with
             | None => True
             | Some (k, _, r') => ops_ok m (body k) /\ body_ok f (apply_all m (body k)) r' body
             end
    end.

  Lemma states_head : forall fuel m r body, In m (states fuel m r body).
  Proof.
    intros fuel m r body. destruct fuel as [|f]; simpl.
    - left. reflexivity.
    - destruct (next m r) as [[[k0 v0] r']|]; left; reflexivity.
  Qed.

  Lemma range_loop_complete : forall fuel m r body k,
    length r < fuel -> In k r ->
    (forall s, In s (states fuel m r body) -> live s k) ->
    In k (fst (range_loop fuel m r body)).
  Proof.
    induction fuel as [|f IH]; intros m r body k Hlen Hin Hlive.
    - lia.
    - assert (Hm : live m k) by (apply Hlive; apply states_head).
      revert Hlive. simpl.
      destruct (next m r) as [[[k0 v0] r']|] eqn:En.
      + intros Hlive.
        destruct (range_loop f (apply_all m (body k0)) r' body) as [vs mf] eqn:Er.
        simpl. apply next_spec in En. destruct En as (pre & Hr & _ & Hpre). subst r.
        apply in_app_or in Hin. destruct Hin as [Hin|[Hin|Hin]].
        * exfalso. apply Hm. apply Hpre. exact Hin.
        * left. exact Hin.
        * right. rewrite app_length in Hlen. simpl in Hlen.
          assert (Hgoal : In k (fst (range_loop f (apply_all m (body k0)) r' body))).
          { apply IH; [lia | exact Hin |]. intros s Hs. apply Hlive. right. exact Hs. }
          rewrite Er in Hgoal. exact Hgoal.
      + intros _. exfalso. apply Hm. apply (next_none m r En). exact Hin.
  Qed.

  Lemma range_loop_live : forall fuel m r body k,
    In k (fst (range_loop fuel m r body)) ->
    exists s, In s (states fuel m r body) /\ live s k.
  Proof.
    induction fuel as [|f IH]; intros m r body k; simpl.
    - intros [].
    - destruct (next m r) as [[[k0 v0] r']|] eqn:En; [|intros []].
      destruct (range_loop f (apply_all m (body k0)) r' body) as [vs mf] eqn:Er.
      simpl. intros [H|H].
      + subst k0. exists m. split; [left; reflexivity|].
        apply next_spec in En. destruct En as (pre & _ & Hl & _). unfold live. rewrite Hl. discriminate.
      + destruct (IH (apply_all m (body k0)) r' body k) as (s & Hs & Hlv).
        { rewrite Er. exact H. }
        exists s. split; [right; exact Hs | exact Hlv].
  Qed.

  (* no premise on the body: the contract holds whatever operations it performs, even deletes whose
     compaction order list is not a permutation of the live keys (body_ok above is what inv_apply_all
     needs to carry Inv through the loop; the range contract does not need it) *)
  Theorem range_contract : forall m body, Inv m ->
    let fuel := S (length (keys m)) in
    let vs := fst (range_loop fuel m (keys m) body) in
    (* each key at most once *)
    NoDup vs /\
    (* a key that is live in every state of the loop is visited *)
    (forall k, (forall s, In s (states fuel m (keys m) body) -> live s k) -> In k vs) /\
    (* a visited key was listed when the loop started or ... in any case it was live when visited:
       stated as: every visited key is live in some state of the loop *)
    (forall k, In k vs -> exists s, In s (states fuel m (keys m) body) /\ live s k) /\
    (* keys that are not live when the loop starts and are never inserted are not visited: visited keys
       come from the snapshot *)
    (forall k, In k vs -> In k (keys m)).
  Proof.
    intros m body (Hk & Hd & Hl) fuel vs. subst vs fuel.
    split; [apply range_loop_NoDup; exact Hk|].
    split.
    - intros k Hlive. apply range_loop_complete; [lia | | exact Hlive].
      apply Hl. apply Hlive. apply states_head.
    - split.
      + intros k Hin. apply range_loop_live. exact Hin.
      + intros k Hin. apply (range_loop_In _ _ _ _ _ Hin).
  Qed.

  (* sharper form of "never a deleted key": the i-th visited key is live in the i-th state *)
  Theorem range_visits_live : forall fuel m r body vs mf,
    range_loop fuel m r body = (vs, mf) ->
    Forall2 (fun k s => live s k) vs (firstn (length vs) (states fuel m r body)).
  Proof.
    induction fuel as [|f IH]; intros m r body vs mf; simpl.
    - intros H. inversion H; subst. simpl. constructor.
    - destruct (next m r) as [[[k0 v0] r']|] eqn:En.
      + destruct (range_loop f (apply_all m (body k0)) r' body) as [vs' mf'] eqn:Er.
        intros H. inversion H; subst. simpl. constructor.
        * apply next_spec in En. destruct En as (pre & _ & Hlk & _).
          unfold live. rewrite Hlk. discriminate.
        * apply (IH _ _ _ _ _ Er).
      + intros H. inversion H; subst. simpl. constructor.
  Qed.
End Spec.
