(* C20: the backtrace of the VM lists exactly the active calls, and the reported position is the
   position of the instruction that raised the failure.  Proofs over Model/VM.v exec / call_fn and
   their ghost-instrumented copy Model/Backtrace.v gexec / gcall. *)
From Coq Require Import ZArith List String Bool Lia.
From GV Require Import GoSpec.GoPrim Gen.ValueOps_gen Gen.Tables_gen Model.VM Model.Backtrace.
Import ListNotations.
Open Scope string_scope.
Open Scope Z_scope.

Section BT.
  Variable grow : Z -> Z -> Z.
  Variable ext_get : st -> value -> value -> option (res value).
  Variable ext_set : st -> value -> value -> value -> option (res st).
  Variable ext_len : st -> value -> option Z.
  Variable ext_getattr : st -> value -> Z -> option (res (value * st)).
  Variable ext_setattr : st -> value -> Z -> value -> option (res st).

  (* objects outside the modelled fragment (maps, structs, host objects) do not touch the VM's backtrace:
     Value.Set / getIndex / setIndex have no access to the VM *)
  Hypothesis ext_set_bt : forall s r k v s', ext_set s r k v = Some (Ok s') -> bt s' = bt s.
  Hypothesis ext_getattr_bt : forall s r a v s', ext_getattr s r a = Some (Ok (v, s')) -> bt s' = bt s.
  Hypothesis ext_setattr_bt : forall s r a v s', ext_setattr s r a v = Some (Ok s') -> bt s' = bt s.

  Notation step1 := (step1 grow ext_get ext_set ext_len ext_getattr ext_setattr).
  Notation exec := (exec grow ext_get ext_set ext_len ext_getattr ext_setattr).
  Notation call_fn := (call_fn grow ext_get ext_set ext_len ext_getattr ext_setattr).
  Notation gexec := (gexec grow ext_get ext_set ext_len ext_getattr ext_setattr).
  Notation gcall := (gcall grow ext_get ext_set ext_len ext_getattr ext_setattr).

  (* ---- one instruction never touches the backtrace ------------------------------------------------ *)

  Definition sres_bt (b : list Z) (r : sres) : Prop :=
    match r with
    | SNext _ _ s | SJump _ _ _ s | SCall _ _ _ _ _ _ s | SRet _ _ s | SFail _ s => bt s = b
    | SStuck _ | SUnmod _ => True
    end.

  Lemma slift_bt b r s k : bt s = b -> (forall v, sres_bt b (k v)) -> sres_bt b (slift r s k).
  Proof. intros Hs Hk. destruct r; cbn; auto. Qed.

  Lemma obj_set_bt s r k v s' : obj_set ext_set s r k v = inl (Ok s') -> bt s' = bt s.
  Proof.
    unfold obj_set. destruct (is_slice_tag (vt r)).
    - destruct (slice_parts s r) as [[[[[e arr] off] len] cap]|]; [|discriminate].
      destruct ((0 <=? Value_Int k) && (Value_Int k <? len)); [|discriminate].
      intro H; inversion H; reflexivity.
    - destruct (ext_set s r k v) as [rs|] eqn:E; [|discriminate].
      intro H; inversion H; subst. eapply ext_set_bt; eauto.
  Qed.

  Ltac bt_leaf :=
    cbn [sres_bt];
    first [ reflexivity | exact I | assumption
          | (eapply obj_set_bt; eassumption)
          | (eapply ext_getattr_bt; eassumption)
          | (eapply ext_setattr_bt; eassumption) ].

  Ltac bt_step :=
    match goal with
    | |- sres_bt _ (slift _ _ _) => apply slift_bt; [reflexivity | intro]
    | |- sres_bt _ (if ?c then _ else _) => destruct c
    | |- sres_bt _ (let (_, _) := ?x in _) => let E := fresh "E" in destruct x eqn:E
    | |- sres_bt _ (match ?x with _ => _ end) => let E := fresh "E" in destruct x eqn:E
    end.

  Lemma step1_bt codes pc i slots ops s : sres_bt (bt s) (step1 codes pc i slots ops s).
  Proof.
    unfold VM.step1.
    repeat bt_step; try bt_leaf.
    all: try (unfold alloc in *; unfold new_slice, alloc in *;
              repeat match goal with H : (_, _) = (_, _) |- _ => inversion H; clear H; subst end;
              cbn; reflexivity).
  Qed.

  Local Arguments VM.step1 : simpl never.
  Local Arguments popn : simpl never.
  Local Arguments hget : simpl never.
  Local Arguments znth : simpl never.
  Local Arguments new_slice : simpl never.
  Local Arguments String.eqb : simpl never.
  Local Arguments Z.to_nat : simpl never.
  Local Arguments zlen : simpl never.

  (* unfolding equations (bodies copied from Model/VM.v; checked by reflexivity) *)
  Lemma exec_S f codes pc slots ops s : exec (S f) codes pc slots ops s =

      match znth codes pc with
      | None => RDone slots ops s                      (* v.frame.N reached len(codes) *)
      | Some i =>
          match step1 codes pc i slots ops s with
          | SNext slots' ops' s' => exec f codes (pc + 1) slots' ops' s'
          | SJump d slots' ops' s' => exec f codes (pc + d + 1) slots' ops' s'
          | SCall pack fa xArgs xRets slots' ops' s' =>
              match call_fn f pack fa xArgs xRets (ipos i) ops' s' with
              | COk ops'' s'' => exec f codes (pc + 1) slots' ops'' s''
              | CErr r => r
              end
          | SRet slots' ops' s' => RDone slots' ops' s'
          | SFail msg s' => RFail msg (ipos i) s'
          | SStuck w => RStuck w
          | SUnmod w => RUnmod w
          end
      end.
  Proof. reflexivity. Qed.

  Lemma call_fn_S f pack fa xArgs xRets pos ops s : call_fn (S f) pack fa xArgs xRets pos ops s =

      match hget s fa with
      | Some (HNative name) =>
          (* the print family: variadic natives registered with argc 1: every argument is packed *)
          if (String.eqb name "builtin.println") || (String.eqb name "builtin.print") ||
             (String.eqb name "fmt.Println") || (String.eqb name "fmt.Print") then
            if negb pack then CErr (RUnmod "native with spread") else
            match popn (Z.to_nat xArgs) ops [] with
            | Some (args, rest) =>
                match all_some (map to_string args) with
                | Some strs =>
                    let line := if (String.eqb name "builtin.println") || (String.eqb name "fmt.Println")
                                then (join_sp strs ++ [10])%list else join_sp strs in
                    if 0 <? xRets then CErr (RFail "incorrect returns" pos s) else COk rest (emit s line)
                | None => CErr (RUnmod "printing of this value kind")
                end
            | None => CErr (RStuck "native arguments")
            end
          else CErr (RUnmod "native function")
      | Some (HFunc nargs nrets variadic vtype nslots types body) =>
          (* call: pack surplus arguments of a variadic function *)
          let packed :=
            if variadic && pack then
              let nVar := xArgs - nargs + 1 in
              if nVar <? 0 then inr (RFail "runtime error" pos s) else
              match popn (Z.to_nat nVar) ops [] with
              | Some (vargs, rest) =>
                  let (s1, sv) := variadic_arg s vtype nVar vargs in
                  inl (sv :: rest, xArgs - nVar + 1, s1)
              | None => inr (RStuck "variadic arguments")
              end
            else inl (ops, xArgs, s) in
          match packed with
          | inr r => CErr r
          | inl (ops1, xArgs1, s1) =>
              if negb (xArgs1 =? nargs) then CErr (RFail "incorrect args" pos s1) else
              match popn (Z.to_nat nargs) ops1 [] with
              | None => CErr (RStuck "arguments")
              | Some (args, rest) =>
                  let typed := map (fun p => Value_assign (fst p) (snd p)) (combine args types) in
                  let slots := (typed ++ repeat nilV (Z.to_nat (nslots - nargs)))%list in
                  match exec f body 0 slots [] (push_bt s1 pos) with
                  | RDone _ rops s2 =>
                      let results := rev rops in                   (* bottom first *)
                      let n := zlen results in
                      if n <? nrets then CErr (RFail "missing return" pos (pop_bt s2)) else     (* mkFunc: frame and backtrace restored, then panic("missing return") *)
                      (* result typing applies to the TOP nrets cells *)
                      let rtypes := skipn (Z.to_nat nargs) types in
                      let keep := firstn (Z.to_nat (n - nrets)) results in
                      let top := skipn (Z.to_nat (n - nrets)) results in
                      let results' := (keep ++ map (fun p => Value_assign (fst p) (snd p)) (combine top rtypes))%list in
                      if n <? xRets then CErr (RFail "incorrect returns" pos (pop_bt s2))
                      else COk (rev (firstn (Z.to_nat xRets) results') ++ rest)%list (pop_bt s2)
                  | r => CErr r
                  end
              end
          end
      | Some _ => CErr (RFail "interface conversion" pos s)
      | None => CErr (RFail "interface conversion" pos s)
      end.
  Proof. reflexivity. Qed.

  (* ---- erasure: the ghost bookkeeping does not change what the machine computes ------------------ *)

  Lemma ghost_erase : forall fuel,
    (forall codes pc slots ops s chain, fst (gexec fuel codes pc slots ops s chain) = exec fuel codes pc slots ops s) /\
    (forall pack fa xa xr ci ops s chain, fst (gcall fuel pack fa xa xr ci ops s chain) = call_fn fuel pack fa xa xr (ipos ci) ops s).
  Proof.
    induction fuel as [|f [IHe IHc]]; split; intros; try reflexivity.
    - rewrite exec_S. simpl.
      destruct (znth codes pc) as [i|]; [|reflexivity].
      destruct (step1 codes pc i slots ops s); try reflexivity; try apply IHe.
      rewrite <- IHc with (chain := chain).
      destruct (gcall f pack fa xArgs xRets i ops0 s0 chain) as [[ops'' s''|r] g]; cbn [fst]; [apply IHe | reflexivity].
    - rewrite call_fn_S. simpl.
      destruct (hget s fa) as [[nargs nrets variadic vtype nslots types body|name| | | | |]|]; try reflexivity.
      + match goal with |- context [match ?p with inl _ => _ | inr _ => _ end] => destruct p as [[[ops1 xa1] s1]|r] end; [|reflexivity].
        destruct (negb (xa1 =? nargs)); [reflexivity|].
        destruct (popn (Z.to_nat nargs) ops1 []) as [[args rest]|]; [|reflexivity].
        rewrite <- IHe with (chain := ci :: chain).
        match goal with |- context [gexec f ?b ?p ?sl ?o ?st ?ch] => destruct (gexec f b p sl o st ch) as [[sl' rops s2|msg p' s2|w| |w] g] end;
          cbn [fst]; try reflexivity.
        repeat match goal with |- context [if ?c then _ else _] => destruct c end; reflexivity.
      + repeat match goal with
               | |- context [if ?c then _ else _] => destruct c
               | |- context [match ?x with _ => _ end] => destruct x
               end; reflexivity.
  Qed.

  (* ---- the invariant ------------------------------------------------------------------------------ *)

  Definition chain_pos (chain : list instr) : list Z := map ipos chain.

  (* what holds of a (result, ghost) pair produced from a state whose backtrace is [chain_pos chain] *)
  Definition bt_ok (chain : list instr) (r : result) (g : ghost) : Prop :=
    match r with
    | RDone _ _ s' => bt s' = chain_pos chain
    | RFail msg pos s' =>
        (exists i, g_at g = Some i /\ pos = ipos i) /\
        (exists inner, g_chain g = (inner ++ chain)%list) /\
        bt s' = chain_pos (g_chain g)
    | _ => True
    end.
  Definition cbt_ok (chain : list instr) (r : cres) (g : ghost) : Prop :=
    match r with
    | COk _ s' => bt s' = chain_pos chain
    | CErr r' => match r' with RDone _ _ _ => False | _ => bt_ok chain r' g end   (* call_fn never yields CErr (RDone ..) *)
    end.

  Lemma bt_ok_weaken ci chain r g : (match r with RDone _ _ _ => False | _ => True end) ->
    bt_ok (ci :: chain) r g -> bt_ok chain r g.
  Proof.
    destruct r; cbn; auto; try tauto.
    intros _ [Hat [[inner Hin] Hbt]]. split; [assumption|]. split; [|assumption].
    exists (inner ++ [ci])%list. rewrite <- app_assoc. exact Hin.
  Qed.

  Lemma bt_inv : forall fuel,
    (forall codes pc slots ops s chain, bt s = chain_pos chain ->
       let '(r, g) := gexec fuel codes pc slots ops s chain in bt_ok chain r g) /\
    (forall pack fa xa xr ci ops s chain, bt s = chain_pos chain ->
       let '(r, g) := gcall fuel pack fa xa xr ci ops s chain in cbt_ok chain r g).
  Proof.
    induction fuel as [|f [IHe IHc]]; split; intros; try exact I.
    - simpl.
      destruct (znth codes pc) as [i|]; [|exact H].
      pose proof (step1_bt codes pc i slots ops s) as Hs. rewrite H in Hs.
      destruct (step1 codes pc i slots ops s) as [sl' ops' s'|d sl' ops' s'|pk fa xa xr sl' ops' s'|sl' ops' s'|msg s'|w|w];
        cbn [sres_bt] in Hs; try exact I; try (apply IHe; exact Hs); try exact Hs.
      + specialize (IHc pk fa xa xr i ops' s' chain Hs).
        destruct (gcall f pk fa xa xr i ops' s' chain) as [[ops'' s''|r] g]; cbn [cbt_ok] in IHc.
        * apply IHe; exact IHc.
        * destruct r; try exact I; try exact IHc; contradiction.
      + cbn [bt_ok raised g_at g_chain].
        split; [exists i; auto|]. split; [exists []; reflexivity | exact Hs].
    - simpl.
      assert (Hfail : forall msg, cbt_ok chain (CErr (RFail msg (ipos ci) s)) (raised chain ci)).
      { intros msg. cbn [cbt_ok bt_ok raised g_at g_chain].
        split; [exists ci; auto|]. split; [exists []; reflexivity | exact H]. }
      destruct (hget s fa) as [[nargs nrets variadic vtype nslots types body|name| | | | |]|];
        try exact (Hfail _).
      + (* script function *)
        match goal with |- context [match ?p with inl _ => _ | inr _ => _ end] =>
          assert (Hp : match p with inl (_, _, s1) => bt s1 = chain_pos chain
                                  | inr r => cbt_ok chain (CErr r) (raised chain ci) end) end.
        { destruct (variadic && pack); [|exact H].
          destruct (xa - nargs + 1 <? 0); [exact (Hfail _)|].
          destruct (popn (Z.to_nat (xa - nargs + 1)) ops []) as [[vargs rest]|]; [|exact I].
          unfold variadic_arg. destruct (xa - nargs + 1 =? 0); [exact H|].
          unfold new_slice, alloc; cbn. exact H. }
        match goal with |- context [match ?p with inl _ => _ | inr _ => _ end] => destruct p as [[[ops1 xa1] s1]|r] end;
          [|exact Hp].
        destruct (negb (xa1 =? nargs)).
        { cbn [cbt_ok bt_ok raised g_at g_chain].
          split; [exists ci; auto|]. split; [exists []; reflexivity | exact Hp]. }
        destruct (popn (Z.to_nat nargs) ops1 []) as [[args rest]|]; [|exact I].
        match goal with |- context [gexec f ?b ?p ?sl ?o ?st ?ch] =>
          pose proof (IHe b p sl o st ch) as Hb; destruct (gexec f b p sl o st ch) as [r g] end.
        assert (Hpush : bt (push_bt s1 (ipos ci)) = chain_pos (ci :: chain)).
        { cbn. rewrite Hp. reflexivity. }
        specialize (Hb Hpush).
        destruct r as [sl' rops s2|msg p' s2|w| |w]; try exact I.
        * (* the callee returned *)
          cbn [bt_ok] in Hb.
          destruct (zlen (rev rops) <? nrets).
          { cbn [cbt_ok bt_ok raised g_at g_chain]. cbn.
            split; [exists ci; auto|]. split; [exists []; reflexivity | rewrite Hb; reflexivity]. }
          destruct (zlen (rev rops) <? xr).
          { cbn [cbt_ok bt_ok raised g_at g_chain]. cbn.
            split; [exists ci; auto|]. split; [exists []; reflexivity | rewrite Hb; reflexivity]. }
          cbn [cbt_ok]. cbn. rewrite Hb. reflexivity.
        * (* a failure inside the callee *)
          cbn [cbt_ok]. apply bt_ok_weaken with (ci := ci); [exact I | exact Hb].
      + (* native *)
        repeat match goal with
               | |- context [if ?c then _ else _] => destruct c
               | |- context [popn ?a ?b ?c] => destruct (popn a b c) as [[? ?]|]
               | |- context [all_some ?a] => destruct (all_some a)
               end; first [exact I | exact (Hfail _) | exact H].
  Qed.

  (* ---- the statements used by Props/C20.v -------------------------------------------------------- *)

  Theorem ghost_erase_exec : forall fuel codes pc slots ops s chain,
    fst (gexec fuel codes pc slots ops s chain) = exec fuel codes pc slots ops s.
  Proof. intros; apply (proj1 (ghost_erase fuel)). Qed.

  Theorem ghost_erase_call : forall fuel pack fa xa xr ci ops s chain,
    fst (gcall fuel pack fa xa xr ci ops s chain) = call_fn fuel pack fa xa xr (ipos ci) ops s.
  Proof. intros; apply (proj2 (ghost_erase fuel)). Qed.

  Theorem bt_inv_exec : forall fuel codes pc slots ops s chain, bt s = map ipos chain ->
    forall r g, gexec fuel codes pc slots ops s chain = (r, g) ->
    match r with
    | RDone _ _ s' => bt s' = map ipos chain
    | RFail msg pos s' =>
        (exists inner, g_chain g = (inner ++ chain)%list) /\
        bt s' = map ipos (g_chain g)
    | _ => True
    end.
  Proof.
    intros fuel codes pc slots ops s chain H r g E.
    pose proof (proj1 (bt_inv fuel) codes pc slots ops s chain H) as K. rewrite E in K.
    destruct r; try exact I; [exact K|]. destruct K as [_ [K1 K2]]. split; assumption.
  Qed.

  Theorem bt_inv_call : forall fuel pack fa xa xr ci ops s chain, bt s = map ipos chain ->
    forall r g, gcall fuel pack fa xa xr ci ops s chain = (r, g) ->
    match r with
    | COk _ s' => bt s' = bt s
    | CErr (RFail msg pos s') =>
        (exists inner, g_chain g = (inner ++ chain)%list) /\
        bt s' = map ipos (g_chain g)
    | _ => True
    end.
  Proof.
    intros fuel pack fa xa xr ci ops s chain H r g E.
    pose proof (proj2 (bt_inv fuel) pack fa xa xr ci ops s chain H) as K. rewrite E in K.
    destruct r as [ops' s'|r]; [rewrite H; exact K|].
    destruct r; try exact I. destruct K as [_ [K1 K2]]. split; assumption.
  Qed.

  Theorem fail_pos_ghost : forall fuel codes pc slots ops s chain, bt s = map ipos chain ->
    forall msg pos s' g, gexec fuel codes pc slots ops s chain = (RFail msg pos s', g) ->
    exists i, g_at g = Some i /\ pos = ipos i.
  Proof.
    intros fuel codes pc slots ops s chain H msg pos s' g E.
    pose proof (proj1 (bt_inv fuel) codes pc slots ops s chain H) as K. rewrite E in K.
    exact (proj1 K).
  Qed.

  (* one step of the loop: a failing instruction is reported with its own position ... *)
  Theorem fail_pos_direct : forall f codes pc slots ops s i msg s',
    znth codes pc = Some i -> step1 codes pc i slots ops s = SFail msg s' ->
    exec (S f) codes pc slots ops s = RFail msg (ipos i) s'.
  Proof. intros. rewrite exec_S, H, H0. reflexivity. Qed.

  (* ... a failure of the called function is the caller's result, unchanged ... *)
  Theorem fail_pos_propagates : forall f codes pc slots ops s i pack fa xa xr slots' ops' s' r,
    znth codes pc = Some i -> step1 codes pc i slots ops s = SCall pack fa xa xr slots' ops' s' ->
    call_fn f pack fa xa xr (ipos i) ops' s' = CErr r ->
    exec (S f) codes pc slots ops s = r.
  Proof. intros. rewrite exec_S, H, H0, H1. reflexivity. Qed.

  (* ... and call_fn hands a failure of the callee's body up unchanged (whatever the fuel, arguments, state) *)
  Theorem fail_pos_through_call : forall fuel pack fa xa xr ci ops s chain msg pos s' g,
    gcall fuel pack fa xa xr ci ops s chain = (CErr (RFail msg pos s'), g) ->
    (g_chain g = chain /\ g_at g = Some ci /\ pos = ipos ci) \/       (* raised at the call instruction itself *)
    (exists f' nargs nrets variadic vtype nslots types body slots0 s1,  (* or inside the body, handed up as it is *)
        fuel = S f' /\ hget s fa = Some (HFunc nargs nrets variadic vtype nslots types body) /\ bt s1 = bt s /\
        gexec f' body 0 slots0 [] (push_bt s1 (ipos ci)) (ci :: chain) = (RFail msg pos s', g)).
  Proof.
    intros fuel pack fa xa xr ci ops s chain msg pos s' g.
    destruct fuel as [|f]; [discriminate|]. simpl.
    destruct (hget s fa) as [[nargs nrets variadic vtype nslots types body|name| | | | |]|] eqn:Eh;
      try solve [intro E; inversion E; subst; left; auto].
    - assert (Hbody : forall ops1 xa1 s1, bt s1 = bt s ->
        (if negb (xa1 =? nargs) then (CErr (RFail "incorrect args" (ipos ci) s1), raised chain ci) else
         match popn (Z.to_nat nargs) ops1 [] with
         | None => (CErr (RStuck "arguments"), quiet chain)
         | Some (args, rest) =>
             let typed := map (fun p => Value_assign (fst p) (snd p)) (combine args types) in
             let slots := (typed ++ repeat nilV (Z.to_nat (nslots - nargs)))%list in
             match gexec f body 0 slots [] (push_bt s1 (ipos ci)) (ci :: chain) with
             | (RDone _ rops s2, _) =>
                 let results := rev rops in
                 let n := zlen results in
                 if n <? nrets then (CErr (RFail "missing return" (ipos ci) (pop_bt s2)), raised chain ci) else
                 let rtypes := skipn (Z.to_nat nargs) types in
                 let keep := firstn (Z.to_nat (n - nrets)) results in
                 let top := skipn (Z.to_nat (n - nrets)) results in
                 let results' := (keep ++ map (fun p => Value_assign (fst p) (snd p)) (combine top rtypes))%list in
                 if n <? xr then (CErr (RFail "incorrect returns" (ipos ci) (pop_bt s2)), raised chain ci)
                 else (COk (rev (firstn (Z.to_nat xr) results') ++ rest)%list (pop_bt s2), quiet chain)
             | (r, g) => (CErr r, g)
             end
         end) = (CErr (RFail msg pos s'), g) ->
        g_chain g = chain /\ g_at g = Some ci /\ pos = ipos ci \/
        (exists f' nargs' nrets' variadic' vtype' nslots' types' body' slots0 s1, S f = S f' /\
           Some (HFunc nargs nrets variadic vtype nslots types body) = Some (HFunc nargs' nrets' variadic' vtype' nslots' types' body') /\ bt s1 = bt s /\
           gexec f' body' 0 slots0 [] (push_bt s1 (ipos ci)) (ci :: chain) = (RFail msg pos s', g))).
      { intros ops1 xa1 s1 Hs1.
        destruct (negb (xa1 =? nargs)); [intro E; inversion E; subst; left; auto|].
        destruct (popn (Z.to_nat nargs) ops1 []) as [[args rest]|]; [|discriminate].
        cbv zeta.
        match goal with |- context [gexec f ?b ?p ?sl ?o ?st ?ch] => destruct (gexec f b p sl o st ch) as [r g'] eqn:Eb end.
        destruct r as [sl' rops s2|msg' p' s2|w| |w]; try discriminate.
        * repeat match goal with |- context [if ?c then _ else _] => destruct c end;
            intro E; inversion E; subst; left; auto.
        * intro E; inversion E; subst. right. do 10 eexists. split; [reflexivity|]. split; [reflexivity|]. split; [exact Hs1 | exact Eb]. }
      destruct (variadic && pack); [|apply Hbody; reflexivity].
      destruct (xa - nargs + 1 <? 0); [intro E; inversion E; subst; left; auto|].
      destruct (popn (Z.to_nat (xa - nargs + 1)) ops []) as [[vargs rest]|]; [|discriminate].
      assert (Hb1 : bt (fst (variadic_arg s vtype (xa - nargs + 1) vargs)) = bt s)
        by (unfold variadic_arg; destruct (xa - nargs + 1 =? 0); reflexivity).
      destruct (variadic_arg s vtype (xa - nargs + 1) vargs) as [s1 sv]. cbn [fst] in Hb1.
      apply Hbody. exact Hb1.
    - repeat match goal with
             | |- context [if ?c then _ else _] => destruct c
             | |- context [popn ?a ?b ?c] => destruct (popn a b c) as [[? ?]|]
             | |- context [all_some ?a] => destruct (all_some a)
             end; try discriminate; intro E; inversion E; subst; left; auto.
  Qed.

  (* the error text: what btErr prints is what the ghost predicts *)
  Theorem error_text : forall fuel codes nslots s, bt s = [] ->
    forall msg pos s' g, grun grow ext_get ext_set ext_len ext_getattr ext_setattr fuel codes nslots s = (RFail msg pos s', g) ->
    Some (err_trace pos (bt s')) = ghost_trace g.
  Proof.
    intros fuel codes nslots s H msg pos s' g E. unfold grun in E.
    pose proof (proj1 (bt_inv fuel) codes 0 (repeat nilV (Z.to_nat nslots)) [] s [] H) as K.
    rewrite E in K. destruct K as [[i [Hat Hp]] [_ Hbt]].
    unfold ghost_trace, err_trace. rewrite Hat, Hbt, Hp. reflexivity.
  Qed.
End BT.
