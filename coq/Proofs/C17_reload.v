(* C17, part 2: the invariant of the reload machine and the theorems about
   identity, latest code and state, over all histories. *)
From Coq Require Import ZArith List Bool Lia.
From GV Require Import Model.Reload Proofs.C17_base.
Import ListNotations.
Open Scope Z_scope.

(* ---- signatures ----------------------------------------------------------------- *)
Definition tnames (S : sig) : list name := map fst (stypes S).
Definition vname (d : vdecl) : name := match d with VZero n _ => n | VSet n _ => n end.
Definition vnames (S : sig) : list name := map vname (svars S).

Definition key_ok (S : sig) (k : fkey) : Prop :=
  match k with KFunc n => In n (sfuncs S) | KMeth t m => In (t, m) (smethods S) end.

(* type, function and variable names are pairwise distinct; methods belong to declared types;
   a struct type does not list a field twice *)
Record wf_sig (S : sig) : Prop := {
  wf_names : NoDup (tnames S ++ sfuncs S ++ vnames S);
  wf_meth : forall t m, In (t, m) (smethods S) -> In t (tnames S);
  wf_fields : forall t fs, In (t, fs) (stypes S) -> NoDup (map fst fs)
}.

Definition instr_key (i : instr) : option fkey :=
  match i with GlobalFunc n _ => Some (KFunc n) | SetMethod t m _ => Some (KMeth t m) | _ => None end.
Definition instr_body (i : instr) : body :=
  match i with GlobalFunc _ b | SetMethod _ _ b => b | _ => 0 end.
Definition writes (i : instr) : option name :=
  match i with GlobalFunc n _ | GlobalStruct n _ | GlobalZero n _ | GlobalSet n _ => Some n | SetMethod _ _ _ => None end.
Definition instr_ok (S : sig) (i : instr) : Prop :=
  match i with
  | GlobalFunc n _ => In n (sfuncs S)
  | SetMethod t m _ => In (t, m) (smethods S)
  | GlobalStruct t _ => In t (tnames S)
  | GlobalZero n _ | GlobalSet n _ => In n (vnames S)
  end.

Lemma fkey_dec : forall a b : fkey, {a = b} + {a <> b}.
Proof. decide equality; apply Z.eq_dec. Qed.
Definition key_is (i : instr) (k : fkey) : bool :=
  match instr_key i with Some k' => if fkey_dec k' k then true else false | None => false end.
Lemma key_is_true : forall i k, key_is i k = true <-> instr_key i = Some k.
Proof.
  unfold key_is. intros. destruct (instr_key i); [|split; discriminate].
  destruct (fkey_dec f k); split; intros; try congruence.
Qed.

Lemma key_is_false : forall i k, instr_key i <> Some k -> key_is i k = false.
Proof. intros. destruct (key_is i k) eqn:E; auto. apply key_is_true in E. contradiction. Qed.
Lemma key_is_refl : forall i k, instr_key i = Some k -> key_is i k = true.
Proof. intros. now apply key_is_true. Qed.

Definition key_name (k : fkey) : name := match k with KFunc n => n | KMeth t _ => t end.

Lemma nodup_app_r : forall {A} (a b : list A), NoDup (a ++ b) -> NoDup b.
Proof. induction a; simpl; intros; auto. inversion H; auto. Qed.
Lemma nodup_app_disj : forall {A} (a b : list A) x, NoDup (a ++ b) -> In x a -> In x b -> False.
Proof.
  induction a; simpl; intros; [tauto|]. inv H. destruct H0.
  - subst. apply H4. apply in_or_app. auto.
  - eauto.
Qed.

(* ---- inversion of the instructions -------------------------------------------- *)
Lemma exec_GlobalFunc : forall st n b st', exec_instr st (GlobalFunc n b) = Some st' ->
  (gget st n = VNil /\ st' = gset (set_funcs st (funcs st ++ [FBody b])) n (VFunc (length (funcs st)))) \/
  (exists a, gget st n = VFunc a /\ (a < length (funcs st))%nat /\ st' = set_funcs st (upd (funcs st) a (FBody b))).
Proof.
  simpl. intros. destruct (gget st n); try discriminate.
  - inv H. auto.
  - unfold overwrite in H. destruct (a <? length (funcs st))%nat eqn:E; inv H.
    right. exists a. apply Nat.ltb_lt in E. auto.
Qed.

Lemma exec_SetMethod : forall st t m b st', exec_instr st (SetMethod t m b) = Some st' ->
  exists ta ty, gget st t = VType ta /\ nth_error (types st) ta = Some ty /\
  ((exists a, lookup m (tmethods ty) = Some (VFunc a) /\ (a < length (funcs st))%nat /\ st' = set_funcs st (upd (funcs st) a (FBody b))) \/
   (fn_addr st (KMeth t m) = None /\
    st' = set_types (set_funcs st (funcs st ++ [FBody b]))
            (upd (types st) ta (mkTy (tfields ty) (upsert m (VFunc (length (funcs st))) (tmethods ty)))))).
Proof.
  simpl. intros. destruct (gget st t) eqn:G; try discriminate.
  destruct (nth_error (types st) a) as [ty|] eqn:N; try discriminate.
  exists a, ty. repeat split; auto.
  destruct (lookup m (tmethods ty)) as [[|z|a0|a0|a0]|] eqn:L;
    try (right; split; [reflexivity | now inv H]).
  left. unfold overwrite in H. destruct (a0 <? length (funcs st))%nat eqn:E; inv H.
  exists a0. apply Nat.ltb_lt in E. auto.
Qed.

Lemma exec_GlobalStruct : forall st t fs st', exec_instr st (GlobalStruct t fs) = Some st' ->
  (gget st t = VNil /\ st' = gset (set_types st (types st ++ [mkTy fs []])) t (VType (length (types st)))) \/
  (exists ta ty, gget st t = VType ta /\ nth_error (types st) ta = Some ty /\
     st' = set_types st (upd (types st) ta
             (mkTy (fold_left (fun acc kv => upsert (fst kv) (snd kv) acc) fs (tfields ty)) (tmethods ty)))).
Proof.
  simpl. intros. destruct (gget st t); try discriminate.
  - inv H. auto.
  - destruct (nth_error (types st) a) eqn:N; inv H. right. eauto.
Qed.

Lemma exec_GlobalZero : forall st n z st', exec_instr st (GlobalZero n z) = Some st' ->
  (is_nil (gget st n) = true /\ st' = gset st n z) \/ (is_nil (gget st n) = false /\ st' = st).
Proof. simpl. intros. destruct (is_nil (gget st n)); inv H; auto. Qed.

Lemma exec_GlobalSet : forall st n e st', exec_instr st (GlobalSet n e) = Some st' ->
  exists st1 v, eval_expr st e = Some (st1, v) /\ frame st st1 /\ st' = gset st1 n v.
Proof.
  simpl. intros. destruct (eval_expr st e) as [[st1 v]|] eqn:E; inv H.
  exists st1, v. split; [reflexivity|]. split; [eapply eval_expr_frame; eauto | reflexivity].
Qed.

(* ---- small computation rules ------------------------------------------------------ *)
Lemma fn_addr_set_funcs : forall st f k, fn_addr (set_funcs st f) k = fn_addr st k.
Proof. destruct k; reflexivity. Qed.
Lemma fn_addr_gset_other : forall st n v k, key_name k <> n -> fn_addr (gset st n v) k = fn_addr st k.
Proof. destruct k; simpl; intros; rewrite gget_gset_other; auto. Qed.
Lemma gget_set_funcs : forall st f n, gget (set_funcs st f) n = gget st n. Proof. reflexivity. Qed.
Lemma gget_set_types : forall st f n, gget (set_types st f) n = gget st n. Proof. reflexivity. Qed.

Section WithSig.
  Variable S : sig.
  Hypothesis WF : wf_sig S.

  Lemma t_not_f : forall x, In x (tnames S) -> In x (sfuncs S) -> False.
  Proof.
    intros. eapply (nodup_app_disj (tnames S)); [apply (wf_names S WF)| eauto |]. apply in_or_app. auto.
  Qed.
  Lemma t_not_v : forall x, In x (tnames S) -> In x (vnames S) -> False.
  Proof.
    intros. eapply (nodup_app_disj (tnames S)); [apply (wf_names S WF)| eauto |]. apply in_or_app. auto.
  Qed.
  Lemma f_not_v : forall x, In x (sfuncs S) -> In x (vnames S) -> False.
  Proof.
    intros. pose proof (wf_names S WF) as ND. apply nodup_app_r in ND.
    eapply nodup_app_disj; eauto.
  Qed.

  Lemma key_name_t : forall t m, key_ok S (KMeth t m) -> In t (tnames S).
  Proof. simpl. intros. eapply wf_meth; eauto. Qed.

  (* a key's name is a function or a type name: never a variable *)
  Lemma key_name_not_v : forall k, key_ok S k -> In (key_name k) (vnames S) -> False.
  Proof.
    destruct k; simpl; intros.
    - eapply f_not_v; eauto.
    - eapply t_not_v; eauto. eapply wf_meth; eauto.
  Qed.

  Record Inv (st : state) : Prop := {
    inv_faddr : forall k a, key_ok S k -> fn_addr st k = Some a -> exists b, nth_error (funcs st) a = Some (FBody b);
    inv_inj : forall k k' a, key_ok S k -> key_ok S k' -> fn_addr st k = Some a -> fn_addr st k' = Some a -> k = k';
    inv_ty : forall t ta, In t (tnames S) -> gget st t = VType ta -> (ta < length (types st))%nat;
    inv_tyinj : forall t t' ta, In t (tnames S) -> In t' (tnames S) -> gget st t = VType ta -> gget st t' = VType ta -> t = t'
  }.

  Lemma inv_init : Inv init_state.
  Proof.
    split; intros.
    - destruct k; discriminate.
    - destruct k; discriminate.
    - discriminate.
    - discriminate.
  Qed.

  (* where every declared function object lives after one instruction *)
  Lemma exec_fn_addr : forall st i st', instr_ok S i -> Inv st -> exec_instr st i = Some st' ->
    forall k, key_ok S k ->
      fn_addr st' k = match fn_addr st k with
                      | Some a => Some a
                      | None => if key_is i k then Some (length (funcs st)) else None
                      end.
  Proof.
    intros st i st' OK I E k KO. destruct i.
    - (* GlobalStruct *)
      assert (KI : key_is (GlobalStruct t fields) k = false) by reflexivity. rewrite KI. clear KI.
      simpl in OK. apply exec_GlobalStruct in E. destruct E as [[G ->]|(ta & ty & G & N & ->)].
      + destruct k as [n|t' m].
        * rewrite fn_addr_gset_other by (simpl; intro; subst; eapply t_not_f; eauto).
          unfold fn_addr, gget; simpl. destruct (lookup n (globals st)) as [[]|]; reflexivity.
        * destruct (Z.eq_dec t' t).
          -- subst. simpl. rewrite gget_gset_same. simpl. rewrite nth_app_new. simpl.
             rewrite G. reflexivity.
          -- rewrite fn_addr_gset_other by (simpl; auto). simpl. rewrite gget_set_types.
             destruct (gget st t') eqn:G'; auto.
             pose proof (inv_ty st I t' a (key_name_t _ _ KO) G') as L.
             rewrite nth_error_app1 by auto.
             destruct (nth_error (types st) a); auto. destruct (lookup m (tmethods t0)) as [[]|]; auto.
      + destruct k as [n|t' m]; [unfold fn_addr, gget; simpl; destruct (lookup n (globals st)) as [[]|]; reflexivity|].
        simpl. rewrite gget_set_types. destruct (gget st t') eqn:G'; auto.
        destruct (Nat.eq_dec ta a).
        * subst. rewrite nth_upd_same by (eapply nth_lt; eauto). rewrite N. simpl.
          destruct (lookup m (tmethods ty)) as [[]|]; auto.
        * rewrite nth_upd_other by auto.
          destruct (nth_error (types st) a); auto. destruct (lookup m (tmethods t0)) as [[]|]; auto.
    - (* SetMethod *)
      simpl in OK. apply exec_SetMethod in E. destruct E as (ta & ty & G & N & [(a & L & LT & ->)|(FN & ->)]).
      + rewrite fn_addr_set_funcs. destruct (fn_addr st k) eqn:F; auto.
        destruct (key_is (SetMethod t m b) k) eqn:KI; auto.
        apply key_is_true in KI. simpl in KI. inv KI. simpl in F. rewrite G, N, L in F. discriminate.
      + destruct k as [n|t' m'].
        * rewrite key_is_false by (simpl; congruence).
          unfold fn_addr, gget; simpl; destruct (lookup n (globals st)) as [[]|]; reflexivity.
        * simpl. rewrite gget_set_types, gget_set_funcs. destruct (gget st t') eqn:G';
            try (destruct (key_is (SetMethod t m b) (KMeth t' m')) eqn:KI; auto;
                 apply key_is_true in KI; simpl in KI; inv KI; congruence).
          destruct (Nat.eq_dec ta a).
          -- subst a. assert (t' = t).
             { eapply (inv_tyinj st I); eauto. eapply key_name_t; eauto. eapply wf_meth; eauto. }
             subst t'. rewrite nth_upd_same by (eapply nth_lt; eauto). rewrite N. simpl.
             destruct (Z.eq_dec m' m).
             ++ subst m'. rewrite lookup_upsert_same.
                simpl in FN. rewrite G, N in FN.
                destruct (lookup m (tmethods ty)) as [[]|]; try discriminate;
                  (destruct (key_is (SetMethod t m b) (KMeth t m)) eqn:KI; auto;
                   exfalso; unfold key_is in KI; simpl in KI; destruct (fkey_dec (KMeth t m) (KMeth t m)); congruence).
             ++ rewrite lookup_upsert_other by auto.
                assert (KI : key_is (SetMethod t m b) (KMeth t m') = false).
                { destruct (key_is (SetMethod t m b) (KMeth t m')) eqn:KI; auto.
                  apply key_is_true in KI. simpl in KI. inv KI. congruence. }
                rewrite KI. destruct (lookup m' (tmethods ty)) as [[]|]; auto.
          -- rewrite nth_upd_other by auto.
             assert (KI : key_is (SetMethod t m b) (KMeth t' m') = false).
             { destruct (key_is (SetMethod t m b) (KMeth t' m')) eqn:KI; auto.
               apply key_is_true in KI. simpl in KI. inv KI. congruence. }
             rewrite KI. destruct (nth_error (types st) a); auto. destruct (lookup m' (tmethods t0)) as [[]|]; auto.
    - (* GlobalFunc *)
      simpl in OK. apply exec_GlobalFunc in E. destruct E as [[G ->]|(a & G & LT & ->)].
      + destruct k as [n'|t' m'].
        * destruct (Z.eq_dec n' n).
          -- subst. simpl. rewrite gget_gset_same, G.
             now rewrite key_is_refl by reflexivity.
          -- rewrite fn_addr_gset_other by (simpl; auto). rewrite fn_addr_set_funcs.
             assert (KI : key_is (GlobalFunc n b) (KFunc n') = false).
             { destruct (key_is (GlobalFunc n b) (KFunc n')) eqn:KI; auto.
               apply key_is_true in KI. simpl in KI. inv KI. congruence. }
             rewrite KI. destruct (fn_addr st (KFunc n')); auto.
        * rewrite fn_addr_gset_other, fn_addr_set_funcs.
          -- assert (KI : key_is (GlobalFunc n b) (KMeth t' m') = false).
             { destruct (key_is (GlobalFunc n b) (KMeth t' m')) eqn:KI; auto.
               apply key_is_true in KI. simpl in KI. inv KI. }
             rewrite KI. destruct (fn_addr st (KMeth t' m')); auto.
          -- simpl. intro. subst. eapply t_not_f; eauto. eapply key_name_t; eauto.
      + rewrite fn_addr_set_funcs. destruct (fn_addr st k) eqn:F; auto.
        destruct (key_is (GlobalFunc n b) k) eqn:KI; auto.
        apply key_is_true in KI. simpl in KI. inv KI. simpl in F. rewrite G in F. discriminate.
    - (* GlobalZero *)
      assert (KI : key_is (GlobalZero n zero) k = false) by reflexivity. rewrite KI. clear KI.
      simpl in OK. apply exec_GlobalZero in E. destruct E as [[_ ->]|[_ ->]].
      + rewrite fn_addr_gset_other. destruct (fn_addr st k); auto.
        intro. eapply key_name_not_v; eauto. congruence.
      + destruct (fn_addr st k); auto.
    - (* GlobalSet *)
      assert (KI : key_is (GlobalSet n e) k = false) by reflexivity. rewrite KI. clear KI.
      simpl in OK. apply exec_GlobalSet in E. destruct E as (st1 & v & _ & F & ->).
      rewrite fn_addr_gset_other. rewrite (frame_fn_addr _ _ k F). destruct (fn_addr st k); auto.
      intro. eapply key_name_not_v; eauto. congruence.
  Qed.

  (* what one instruction does to the heap of function objects *)
  Lemma exec_funcs : forall st i st', exec_instr st i = Some st' ->
    match instr_key i with
    | Some k0 =>
        match fn_addr st k0 with
        | Some a => (a < length (funcs st))%nat /\ funcs st' = upd (funcs st) a (FBody (instr_body i))
        | None => funcs st' = (funcs st ++ [FBody (instr_body i)])%list
        end
    | None => exists x, funcs st' = (funcs st ++ x)%list
    end.
  Proof.
    intros st i st' E. destruct i; simpl instr_key; cbv iota.
    - apply exec_GlobalStruct in E. destruct E as [[G ->]|(ta & ty & G & N & ->)]; exists []; simpl; now rewrite app_nil_r.
    - apply exec_SetMethod in E. destruct E as (ta & ty & G & N & [(a & L & LT & ->)|(FN & ->)]).
      + simpl. rewrite G, N, L. auto.
      + rewrite FN. reflexivity.
    - apply exec_GlobalFunc in E. destruct E as [[G ->]|(a & G & LT & ->)]; simpl; rewrite G; auto.
    - apply exec_GlobalZero in E. destruct E as [[_ ->]|[_ ->]]; exists []; simpl; now rewrite app_nil_r.
    - apply exec_GlobalSet in E. destruct E as (st1 & v & _ & (_ & _ & _ & [x F] & _) & ->). exists x. exact F.
  Qed.

  (* type objects: a type name keeps its object; the heap of type objects only grows *)
  Lemma exec_types : forall st i st', instr_ok S i -> exec_instr st i = Some st' ->
    (length (types st) <= length (types st'))%nat /\
    forall t, In t (tnames S) ->
      gget st' t = gget st t \/
      (gget st t = VNil /\ gget st' t = VType (length (types st)) /\ length (types st') = Datatypes.S (length (types st))).
  Proof.
    intros st i st' OK E. destruct i; simpl in OK.
    - apply exec_GlobalStruct in E. destruct E as [[G ->]|(ta & ty & G & N & ->)].
      + split. simpl. rewrite app_length. simpl. lia.
        intros t' T'. destruct (Z.eq_dec t' t).
        * subst. right. rewrite gget_gset_same. repeat split; auto. simpl. rewrite app_length. simpl. lia.
        * left. now rewrite gget_gset_other.
      + split. simpl. rewrite upd_length. lia. intros. left. reflexivity.
    - apply exec_SetMethod in E. destruct E as (ta & ty & G & N & [(a & L & LT & ->)|(FN & ->)]).
      + split; [simpl; lia|]. intros; left; reflexivity.
      + split; [simpl; rewrite upd_length; lia|]. intros; left; reflexivity.
    - apply exec_GlobalFunc in E. destruct E as [[G ->]|(a & G & LT & ->)].
      + split; [simpl; lia|]. intros t T. left. rewrite gget_gset_other. reflexivity.
        intro. subst. eapply t_not_f; eauto.
      + split; [simpl; lia|]. intros; left; reflexivity.
    - apply exec_GlobalZero in E. destruct E as [[_ ->]|[_ ->]].
      + split; [simpl; lia|]. intros t T. left. rewrite gget_gset_other. reflexivity.
        intro. subst. eapply t_not_v; eauto.
      + split; [lia|]. intros; left; reflexivity.
    - apply exec_GlobalSet in E. destruct E as (st1 & v & _ & F & ->).
      pose proof F as (T & _). split; [simpl; rewrite T; lia|]. intros t T'. left.
      rewrite gget_gset_other. eapply frame_gget; eauto.
      intro. subst. eapply t_not_v; eauto.
  Qed.

  Lemma exec_inv : forall st i st', instr_ok S i -> Inv st -> exec_instr st i = Some st' -> Inv st'.
  Proof.
    intros st i st' OK I E.
    pose proof (exec_fn_addr st i st' OK I E) as FA.
    pose proof (exec_funcs st i st' E) as FU.
    pose proof (exec_types st i st' OK E) as [TL TG].
    assert (OLD : forall k a, key_ok S k -> fn_addr st k = Some a -> exists b, nth_error (funcs st') a = Some (FBody b)).
    { intros k a KO F. destruct (inv_faddr st I k a KO F) as [b0 N0].
      destruct (instr_key i) as [k0|].
      - destruct (fn_addr st k0) as [a0|].
        + destruct FU as [LT ->]. destruct (Nat.eq_dec a0 a).
          * subst. rewrite nth_upd_same by auto. eauto.
          * rewrite nth_upd_other by auto. eauto.
        + rewrite FU. exists b0. now apply nth_app_old.
      - destruct FU as [x ->]. exists b0. now apply nth_app_old. }
    split.
    - intros k a KO F. rewrite (FA k KO) in F. destruct (fn_addr st k) as [a0|] eqn:F0.
      + inv F. eauto.
      + destruct (key_is i k) eqn:KI; inv F. apply key_is_true in KI. rewrite KI, F0 in FU.
        rewrite FU. rewrite nth_app_new. eauto.
    - intros k k' a KO KO' F F'. rewrite (FA k KO) in F. rewrite (FA k' KO') in F'.
      destruct (fn_addr st k) as [a0|] eqn:F0; destruct (fn_addr st k') as [a0'|] eqn:F0'.
      + inv F. inv F'. eapply (inv_inj st I); eauto.
      + inv F. destruct (key_is i k'); inv F'.
        destruct (inv_faddr st I k _ KO F0) as [b N]. apply nth_lt in N. lia.
      + inv F'. destruct (key_is i k); inv F.
        destruct (inv_faddr st I k' _ KO' F0') as [b N]. apply nth_lt in N. lia.
      + destruct (key_is i k) eqn:KI; inv F. destruct (key_is i k') eqn:KI'; inv F'.
        apply key_is_true in KI, KI'. congruence.
    - intros t ta T G. destruct (TG t T) as [EQ|(G0 & G1 & L)].
      + rewrite EQ in G. pose proof (inv_ty st I t ta T G). lia.
      + rewrite G1 in G. inv G. lia.
    - intros t t' ta T T' G G'.
      destruct (TG t T) as [EQ|(G0 & G1 & L)]; destruct (TG t' T') as [EQ'|(G0' & G1' & L')].
      + rewrite EQ in G. rewrite EQ' in G'. eapply (inv_tyinj st I); eauto.
      + rewrite EQ in G. rewrite G1' in G'. inv G'. pose proof (inv_ty st I t _ T G). lia.
      + rewrite EQ' in G'. rewrite G1 in G. inv G. pose proof (inv_ty st I t' _ T' G'). lia.
      + (* both created by this instruction: it is one GlobalStruct *)
        destruct i; simpl in OK.
        * apply exec_GlobalStruct in E. destruct E as [[GG ->]|(ta0 & ty & GG & N & ->)].
          -- destruct (Z.eq_dec t t0), (Z.eq_dec t' t0); subst; auto.
             ++ rewrite gget_gset_other in G1' by auto. rewrite gget_set_types in G1'. congruence.
             ++ rewrite gget_gset_other in G1 by auto. rewrite gget_set_types in G1. congruence.
             ++ rewrite gget_gset_other in G1 by auto. rewrite gget_set_types in G1. congruence.
          -- rewrite gget_set_types in G1. congruence.
        * exfalso. apply exec_SetMethod in E. destruct E as (ta0 & ty & GG & N & [(a & LL & LT & ->)|(FN & ->)]);
            simpl in L; try rewrite upd_length in L; lia.
        * exfalso. apply exec_GlobalFunc in E. destruct E as [[GG ->]|(a & GG & LT & ->)]; simpl in L; lia.
        * exfalso. apply exec_GlobalZero in E. destruct E as [[_ ->]|[_ ->]]; simpl in L; lia.
        * exfalso. apply exec_GlobalSet in E. destruct E as (st1 & v & _ & (TT & _) & ->). simpl in L. rewrite TT in L. lia.
  Qed.

  (* the contents of the function objects after one instruction *)
  Lemma exec_content : forall st i st', instr_ok S i -> Inv st -> exec_instr st i = Some st' ->
    forall k a, key_ok S k -> fn_addr st' k = Some a ->
      (instr_key i = Some k /\ nth_error (funcs st') a = Some (FBody (instr_body i))) \/
      (instr_key i <> Some k /\ fn_addr st k = Some a /\ nth_error (funcs st') a = nth_error (funcs st) a).
  Proof.
    intros st i st' OK I E k a KO F.
    pose proof (exec_fn_addr st i st' OK I E k KO) as FA. rewrite F in FA.
    pose proof (exec_funcs st i st' E) as FU.
    destruct (fn_addr st k) as [a0|] eqn:F0.
    - inv FA. destruct (inv_faddr st I k a0 KO F0) as [b0 N0].
      destruct (instr_key i) as [k0|] eqn:IK.
      + destruct (fkey_dec k0 k).
        * subst k0. left. split; auto. rewrite F0 in FU. destruct FU as [LT ->]. now apply nth_upd_same.
        * right. split; [congruence|]. split; auto.
          destruct (fn_addr st k0) as [a1|] eqn:F1.
          -- destruct FU as [LT ->]. apply nth_upd_other. intro. subst a1.
             (* two declared keys share an address only when equal; k0 need not be declared, but then
                it owns no address either: its instruction is declared *)
             apply n. eapply (inv_inj st I); eauto.
             destruct i; simpl in IK; inv IK; exact OK.
          -- rewrite FU. rewrite N0. now apply nth_app_old.
      + right. split; [congruence|]. split; auto. destruct FU as [x ->]. rewrite N0. now apply nth_app_old.
    - destruct (key_is i k) eqn:KI; inv FA. apply key_is_true in KI. left. split; auto.
      rewrite KI, F0 in FU. rewrite FU. apply nth_app_new.
  Qed.

  (* bound-method objects are never overwritten: in-place writes hit FBody objects of declared keys only *)
  Lemma exec_bound : forall st i st' c r f, instr_ok S i -> Inv st -> exec_instr st i = Some st' ->
    nth_error (funcs st) c = Some (FBound r f) -> nth_error (funcs st') c = Some (FBound r f).
  Proof.
    intros st i st' c r f OK I E N. pose proof (exec_funcs st i st' E) as FU.
    destruct (instr_key i) as [k0|] eqn:IK.
    - destruct (fn_addr st k0) as [a|] eqn:F0.
      + destruct FU as [LT ->]. rewrite nth_upd_other; auto. intro. subst.
        assert (KO : key_ok S k0) by (destruct i; simpl in IK; inv IK; exact OK).
        destruct (inv_faddr st I k0 c KO F0) as [b N']. congruence.
      + rewrite FU. now apply nth_app_old.
    - destruct FU as [x ->]. now apply nth_app_old.
  Qed.

  (* ---- a whole Load --------------------------------------------------------------------- *)
  Definition has_key (k : fkey) (is : list instr) : bool := existsb (fun i => key_is i k) is.

  Lemma exec_list_inv : forall is st st', Forall (instr_ok S) is -> Inv st -> exec_list st is = Some st' -> Inv st'.
  Proof.
    induction is as [|i is IH]; simpl; intros st st' OK I E. now inv E.
    inv OK. destruct (exec_instr st i) as [st1|] eqn:E1; try discriminate.
    eapply IH; [eauto | eapply exec_inv; eauto | exact E].
  Qed.

  Lemma exec_list_stable : forall is st st', Forall (instr_ok S) is -> Inv st -> exec_list st is = Some st' ->
    (forall k a, key_ok S k -> fn_addr st k = Some a -> fn_addr st' k = Some a) /\
    (forall c r f, nth_error (funcs st) c = Some (FBound r f) -> nth_error (funcs st') c = Some (FBound r f)).
  Proof.
    induction is as [|i is IH]; simpl; intros st st' OK I E. inv E; auto.
    inv OK. destruct (exec_instr st i) as [st1|] eqn:E1; try discriminate.
    destruct (IH st1 st' H2 (exec_inv _ _ _ H1 I E1) E) as [A B]. split.
    - intros k a KO F. apply A; auto. rewrite (exec_fn_addr _ _ _ H1 I E1 k KO), F. reflexivity.
    - intros. apply B. eapply exec_bound; eauto.
  Qed.

  Section Bodies.
    Variable B : bodies.
    Definition body_ok (i : instr) : Prop := forall k, instr_key i = Some k -> instr_body i = body_of B k.

    Lemma exec_list_latest : forall is st st', Forall (instr_ok S) is -> Forall body_ok is -> Inv st ->
      exec_list st is = Some st' ->
      forall k a, key_ok S k -> fn_addr st' k = Some a ->
        (has_key k is = true -> nth_error (funcs st') a = Some (FBody (body_of B k))) /\
        (has_key k is = false -> fn_addr st k = Some a /\ nth_error (funcs st') a = nth_error (funcs st) a).
    Proof.
      induction is as [|i is IH]; simpl; intros st st' OK BO I E k a KO F.
      - inv E. split; [discriminate|auto].
      - inv OK. inv BO. destruct (exec_instr st i) as [st1|] eqn:E1; try discriminate.
        destruct (IH st1 st' H2 H4 (exec_inv _ _ _ H1 I E1) E k a KO F) as [Y N].
        destruct (has_key k is) eqn:HK.
        + rewrite orb_true_r. split; [auto|discriminate].
        + rewrite orb_false_r. destruct (N eq_refl) as [F1 C1].
          destruct (exec_content _ _ _ H1 I E1 k a KO F1) as [[IK C]|(IK & F0 & C)].
          * split; intros HH.
            -- rewrite C1, C. now rewrite (H3 k IK).
            -- apply key_is_true in IK. congruence.
          * split; intros HH.
            -- apply key_is_true in HH. congruence.
            -- split; auto. congruence.
    Qed.

    Lemma exec_list_defined : forall is st st', Forall (instr_ok S) is -> Inv st -> exec_list st is = Some st' ->
      forall k, key_ok S k -> has_key k is = true -> exists a, fn_addr st' k = Some a.
    Proof.
      induction is as [|i is IH]; simpl; intros st st' OK I E k KO HK; try discriminate.
      inv OK. destruct (exec_instr st i) as [st1|] eqn:E1; try discriminate.
      pose proof (exec_inv _ _ _ H1 I E1) as I1.
      destruct (key_is i k) eqn:KI.
      - pose proof (exec_fn_addr _ _ _ H1 I E1 k KO) as FA. rewrite KI in FA.
        assert (exists a1, fn_addr st1 k = Some a1) as [a1 F1] by (destruct (fn_addr st k); eauto).
        exists a1. eapply (proj1 (exec_list_stable _ _ _ H2 I1 E)); eauto.
      - simpl in HK. eapply IH; eauto.
    Qed.

    Lemma version_ok : Forall (instr_ok S) (version_of S B) /\ Forall body_ok (version_of S B).
    Proof.
      unfold version_of. split; repeat rewrite Forall_app; repeat split; apply Forall_forall; intros i HI;
        apply in_map_iff in HI; destruct HI as (x & <- & HI).
      - simpl. apply in_map. exact HI.
      - simpl. destruct x; exact HI.
      - simpl. exact HI.
      - assert (In (vname x) (vnames S)) by (apply in_map; exact HI). destruct x; exact H.
      - intros k E. discriminate.
      - intros k E. inv E. reflexivity.
      - intros k E. inv E. reflexivity.
      - intros k E. destruct x; discriminate.
    Qed.

    Lemma version_has_key : forall k, key_ok S k -> has_key k (version_of S B) = true.
    Proof.
      intros k KO. unfold has_key, version_of. repeat rewrite existsb_app. destruct k; simpl in KO.
      - assert (existsb (fun i => key_is i (KFunc n)) (map (fun n0 => GlobalFunc n0 (fbody B n0)) (sfuncs S)) = true) as ->.
        { apply existsb_exists. exists (GlobalFunc n (fbody B n)). split. apply in_map_iff. exists n. auto.
          apply key_is_true. reflexivity. }
        now rewrite !orb_true_r.
      - assert (existsb (fun i => key_is i (KMeth t m))
                  (map (fun tm => SetMethod (fst tm) (snd tm) (mbody B (fst tm) (snd tm))) (smethods S)) = true) as ->.
        { apply existsb_exists. exists (SetMethod t m (mbody B t m)). split.
          apply in_map_iff. exists (t, m). auto. apply key_is_true. reflexivity. }
        now rewrite !orb_true_r.
    Qed.
  End Bodies.
End WithSig.
