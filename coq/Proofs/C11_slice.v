(* C11, part 2: the goatlang slice layer (Model/Slice.v) against Go's slices
   (GoSpec/GoSlice.v, GoSpec/GoSliceHist.v). *)
From Coq Require Import ZArith List Bool Lia Arith.
From GV Require Import GoSpec.GoPrim GoSpec.GoSlice GoSpec.GoSliceHist Gen.ValueOps_gen Model.Slice
  Proofs.C04_ops Proofs.C11_goslice.
Import ListNotations.
Open Scope Z_scope.

(* ---- vocabulary of the statements ------------------------------------------------------- *)

(* element types of the property's scope: the scalar types and string (tags 2..127: not nil,
   not the untyped-constant tag, not a nillable reference type) *)
Definition scalar (t : Z) : Prop := 1 < t < nillableMin.

(* what a cell of a backing array can hold: a typed non-nil value, or Value{} *)
Definition sok (v : value) : Prop := (vt v <> untypedInt /\ vt v <> TypeNil) \/ v = nilV.
Definition store_ok (st : vstore) : Prop := forall a i v, cell st a i = Some v -> sok v.

(* representation invariant of a state: every variable's descriptor is well-formed and has a
   scalar element type; no cell holds an untyped constant or a nil-tagged value other than Value{} *)
Definition Inv (s : state) : Prop :=
  store_ok (fst s) /\
  forall x, (x < length (snd s))%nat ->
            wf_slice (fst s) (gdata (pget (snd s) x)) /\ scalar (elemty (pget (snd s) x)).

(* abstraction to the Go-side state: the store as it is; per variable the element type and
   the []Value descriptor (a nil Value and a non-nil Value with nil data both denote Go's nil) *)
Definition abs_var (g : gval) : tvar := (elemty g, gdata g).
Definition abs (s : state) : gstate := (fst s, map abs_var (snd s)).
Definition abs_res (r : res state) : res gstate :=
  match r with Ok s => Ok (abs s) | Panic => Panic | Unmodelled => Unmodelled end.

(* a statement mentions only variables of the pool (n of them) and scalar element types *)
Definition op_wf (n : nat) (o : op) : Prop :=
  match o with
  | ONil x t | OLit x t _ | OMake x t _ => (x < n)%nat /\ scalar t
  | OSlice x y _ _ | OCopy x y => (x < n)%nat /\ (y < n)%nat
  | OSet x _ _ | OCopyStr x _ => (x < n)%nat
  | OAppend x y _ sp _ => (x < n)%nat /\ (y < n)%nat /\ match sp with SpV z => (z < n)%nat | _ => True end
  end.
(* append(y) / append(y, z...) with NO value to add to a nil Value y is the one statement whose
   result differs from Go (Go: nil; goatlang: an empty non-nil slice on a new array) *)
Definition op_nilsafe (s : state) (o : op) : Prop :=
  match o with
  | OAppend _ y vs sp _ =>
      g_isnil (pget (snd s) y) = true ->
      (vs ++ spread_items (fst s) (spread_of (snd s) sp))%list <> []
  | _ => True
  end.
Fixpoint hist_ok (s : state) (os : list op) : Prop :=
  match os with
  | [] => True
  | o :: r => op_wf (length (snd s)) o /\ op_nilsafe s o /\ hist_ok (step s o) r
  end.

(* ---- what assign guarantees --------------------------------------------------------------- *)

Lemma vt_mkV t n p : vt (mkV t n p) = t.
Proof. reflexivity. Qed.

Lemma sok_fix t v : scalar t -> sok v -> Value_assign v t = v.
Proof.
  intros [H1 H2] [[A1 A2]| ->].
  - apply assign_keeps; assumption.
  - unfold Value_assign, nilV. cbn [vt vnum vval].
    assert ((0 =? t) = false) as -> by (apply Z.eqb_neq; lia).
    change (0 =? untypedInt) with false. change (negb (0 =? TypeNil)) with false. cbv iota.
    assert ((t >=? nillableMin) = false) as -> by (rewrite Z.geb_leb; apply Z.leb_gt; lia).
    reflexivity.
Qed.

Lemma assign_sok t v : scalar t -> sok (Value_assign v t).
Proof.
  intros [H1 H2]. unfold nillableMin in H2. unfold Value_assign, sok, untypedInt, TypeNil.
  destruct (vt v =? t) eqn:E.
  { apply Z.eqb_eq in E. left. lia. }
  destruct (vt v =? 1) eqn:E1.
  { left. repeat match goal with |- context [if ?c then _ else _] => destruct c eqn:? end;
      rewrite vt_mkV; unfold TypeInt32; repeat match goal with H : (_ =? _) = true |- _ => apply Z.eqb_eq in H end; lia. }
  destruct (vt v =? 0) eqn:E0; cbn [negb].
  - unfold nillableMin. assert ((t >=? 128) = false) as -> by (rewrite Z.geb_leb; apply Z.leb_gt; lia). right. reflexivity.
  - left. apply Z.eqb_neq in E1, E0. auto.
Qed.

(* values that Go's type checker lets one store into a []T *)
Definition numeric_tag (t : Z) : Prop :=
  t = TypeFloat64 \/ t = TypeInt32 \/ t = TypeUint32 \/ t = TypeInt8 \/ t = TypeUint8.
Definition compat (t : Z) (v : value) : Prop := vt v = t \/ (vt v = untypedInt /\ numeric_tag t).

Lemma assign_compat t v : compat t v -> vt (Value_assign v t) = t.
Proof.
  intros [H|[H N]]; unfold Value_assign.
  - apply Z.eqb_eq in H as H'. rewrite H'. exact H.
  - rewrite H. destruct (untypedInt =? t) eqn:E; [apply Z.eqb_eq in E; cbn [vt]; congruence|].
    rewrite Z.eqb_refl.
    destruct N as [-> | [-> | [-> | [-> | ->]]]]; reflexivity.
Qed.

Lemma assign_newZero t : Value_assign (fn_newZero t) t = fn_newZero t.
Proof.
  unfold Value_assign, fn_newZero. destruct (t =? TypeString) eqn:E.
  - apply Z.eqb_eq in E. subst t. reflexivity.
  - rewrite vt_mkV, Z.eqb_refl. reflexivity.
Qed.
Lemma vt_newZero t : vt (fn_newZero t) = t.
Proof. unfold fn_newZero. destruct (t =? TypeString) eqn:E; [apply Z.eqb_eq in E; subst; reflexivity|reflexivity]. Qed.
Lemma sok_newZero t : scalar t -> sok (fn_newZero t).
Proof. intros [H1 H2]. left. rewrite vt_newZero. unfold untypedInt, TypeNil. lia. Qed.
Lemma sok_Byte b : sok (fn_Byte b).
Proof. left. unfold fn_Byte. rewrite vt_mkV. unfold TypeUint8, untypedInt, TypeNil. lia. Qed.
Lemma sok_nilV : sok nilV.
Proof. right. reflexivity. Qed.

Lemma value_type_sliceType t : 0 <= t -> Type_value (fn_sliceType t) = t.
Proof.
  intros H. unfold Type_value, fn_sliceType, typeShift, TypeSlice.
  rewrite Z.shiftr_lor, Z.shiftr_shiftl_l by lia. rewrite Z.sub_diag, Z.shiftl_0_r.
  change (Z.shiftr 128 8) with 0. apply Z.lor_0_r.
Qed.

(* ---- pool ------------------------------------------------------------------------------- *)

Lemma nth_write_one {A} (l : list A) x g y d :
  nth y (write l x [g]) d = if (y =? x)%nat && (x <? length l)%nat then g else nth y l d.
Proof.
  destruct (Nat.lt_ge_cases x (length l)) as [H|H].
  - rewrite nth_nth_error, nth_error_write by (cbn; lia). cbn [length].
    apply Nat.ltb_lt in H as H'. rewrite H', andb_true_r.
    destruct (y =? x)%nat eqn:E.
    + apply Nat.eqb_eq in E. subst y.
      assert ((x <=? x)%nat && (x <? x + 1)%nat = true) as ->
        by (apply andb_true_intro; split; [apply Nat.leb_le|apply Nat.ltb_lt]; lia).
      rewrite Nat.sub_diag. reflexivity.
    + apply Nat.eqb_neq in E.
      assert ((x <=? y)%nat && (y <? x + 1)%nat = false) as ->.
      { apply andb_false_iff. destruct (Nat.lt_ge_cases y x); [left; apply Nat.leb_gt|right; apply Nat.ltb_ge]; lia. }
      symmetry. apply nth_nth_error.
  - rewrite write_nofit by (cbn; lia). apply Nat.ltb_ge in H. rewrite H, andb_false_r. reflexivity.
Qed.

Lemma pget_pset p x g y : pget (pset p x g) y = if (y =? x)%nat && (x <? length p)%nat then g else pget p y.
Proof. apply nth_write_one. Qed.
Lemma length_pset p x g : length (pset p x g) = length p.
Proof. apply write_length. Qed.
Lemma abs_pset p x g : map abs_var (pset p x g) = tset (map abs_var p) x (abs_var g).
Proof. unfold pset, tset. rewrite map_write. reflexivity. Qed.
Lemma tget_abs p x : tget (map abs_var p) x = abs_var (pget p x).
Proof.
  unfold tget, pget. change (0, SNil) with (abs_var (GNil 0)). apply map_nth.
Qed.

(* ---- cells of appended stores --------------------------------------------------------------- *)

Lemma cell_app (st : vstore) x a i :
  cell (st ++ [x]) a i = if (a <? length st)%nat then cell st a i
                         else if (a =? length st)%nat then nth_error x i else None.
Proof.
  unfold cell. destruct (a <? length st)%nat eqn:E.
  - apply Nat.ltb_lt in E. rewrite array_app_old by exact E. reflexivity.
  - apply Nat.ltb_ge in E. destruct (a =? length st)%nat eqn:E2.
    + apply Nat.eqb_eq in E2. subst a. rewrite array_app_new. reflexivity.
    + apply Nat.eqb_neq in E2. unfold array. rewrite nth_overflow by (rewrite app_length; cbn; lia).
      destruct i; reflexivity.
Qed.

Lemma store_ext_cell (st1 st2 : vstore) : length st1 = length st2 ->
  (forall a i, cell st1 a i = cell st2 a i) -> st1 = st2.
Proof. intros L H. apply store_ext; [exact L|]. intros a _. apply list_ext. intros i. apply H. Qed.

Lemma cell_out (st : vstore) a i : (length st <= a)%nat -> cell st a i = None.
Proof. intros H. unfold cell, array. rewrite nth_overflow by exact H. destruct i; reflexivity. Qed.

Lemma store_ok_app st x : store_ok st -> Forall sok x -> store_ok (st ++ [x]).
Proof.
  intros H F a i v. rewrite cell_app. destruct (a <? length st)%nat; [apply H|].
  destruct (a =? length st)%nat; [|discriminate]. intros E. apply nth_error_In in E.
  rewrite Forall_forall in F. auto.
Qed.

Lemma store_ok_write st a k vs : store_ok st -> Forall sok vs -> store_ok (arr_write st a k vs).
Proof.
  intros H F b i v.
  destruct (Nat.lt_ge_cases a (length st)) as [Ha|Ha]; [|rewrite arr_write_out by exact Ha; apply H].
  destruct (Nat.le_gt_cases (k + length vs) (length (array st a))) as [Hf|Hf].
  - rewrite cell_arr_write by assumption.
    destruct ((b =? a)%nat && ((k <=? i)%nat && (i <? k + length vs)%nat)); [|apply H].
    intros E. apply nth_error_In in E. rewrite Forall_forall in F. auto.
  - unfold cell. rewrite array_arr_write by exact Ha. rewrite write_nofit by exact Hf.
    destruct (b =? a)%nat eqn:E; [apply Nat.eqb_eq in E; subst b|]; apply H.
Qed.

Lemma cells_sok st s : store_ok st -> Forall sok (cells st s).
Proof.
  intros H. apply Forall_forall. intros v Hv. apply In_nth_error in Hv as [i Hi].
  destruct s as [|a o l c]; [destruct i; discriminate|].
  rewrite nth_error_cells in Hi. destruct (i <? l)%nat; [|discriminate]. eapply H. exact Hi.
Qed.

Lemma map_assign_fix t vs : scalar t -> Forall sok vs -> map (assign_to t) vs = vs.
Proof.
  intros S F. induction F as [|v vs Hv _ IH]; [reflexivity|]. cbn [map]. rewrite IH. f_equal.
  apply sok_fix; assumption.
Qed.
Lemma map_assign_sok t vs : scalar t -> Forall sok (map (assign_to t) vs).
Proof. intros S. apply Forall_forall. intros v Hv. apply in_map_iff in Hv as (u & <- & _). apply assign_sok. exact S. Qed.

(* ---- NewSlice: the in-place element-type assignment ------------------------------------------ *)

Lemma write_prefix {A} (p q r : list A) : length p = length q -> write (p ++ r) 0 q = (q ++ r)%list.
Proof.
  intros L. unfold write. rewrite app_length.
  assert ((0 + length q <=? length p + length r)%nat = true) as -> by (apply Nat.leb_le; lia).
  cbn [firstn app Nat.add]. rewrite skipn_app, <- L, skipn_all, Nat.sub_diag. reflexivity.
Qed.
Lemma write_last {A} (l : list A) x y : write (l ++ [x]) (length l) [y] = (l ++ [y])%list.
Proof.
  unfold write. rewrite app_length. cbn [length].
  assert ((length l + 1 <=? length l + 1)%nat = true) as -> by (apply Nat.leb_le; lia).
  rewrite firstn_app, firstn_all, Nat.sub_diag. cbn [firstn]. rewrite app_nil_r.
  rewrite skipn_all2 by (rewrite app_length; cbn; lia). reflexivity.
Qed.

Lemma arr_write_same (st : vstore) a k vs :
  (forall i, (i < length vs)%nat -> cell st a (k + i) = nth_error vs i) -> arr_write st a k vs = st.
Proof.
  intros H. unfold arr_write. rewrite (write_same (array st a) k vs H).
  destruct (Nat.lt_ge_cases a (length st)) as [Ha|Ha].
  - apply write_same. intros i Hi. cbn in Hi. assert (i = 0)%nat as -> by lia. rewrite Nat.add_0_r.
    cbn. unfold array. apply nth_error_nth'. exact Ha.
  - apply write_nofit. cbn. lia.
Qed.

(* on a well-formed slice whose cells are already assign-fixpoints NewSlice changes nothing *)
Lemma NewSlice_fix st t d : store_ok st -> wf_slice st d -> scalar t -> NewSlice st t d = (st, GSl t d).
Proof.
  intros Hs W S. unfold NewSlice, newSlice. f_equal. destruct d as [|a o l c]; [reflexivity|].
  apply arr_write_same. intros i Hi. rewrite map_length, length_cells in Hi by exact W. cbn [slen] in Hi.
  rewrite nth_error_map, nth_error_cells. apply Nat.ltb_lt in Hi. rewrite Hi.
  destruct (cell st a (o + i)) eqn:E; [|reflexivity]. cbn. f_equal. symmetry. apply sok_fix; [exact S|].
  eapply Hs. exact E.
Qed.

(* on a slice at the start of the newest array *)
Lemma NewSlice_last (st : vstore) x r t c :
  NewSlice (st ++ [x ++ r])%list t (SMk (length st) 0 (length x) c) =
  ((st ++ [map (assign_to t) x ++ r])%list, GSl t (SMk (length st) 0 (length x) c)).
Proof.
  unfold NewSlice, newSlice. f_equal. cbn [cells]. rewrite array_app_new. cbn [skipn].
  rewrite firstn_app, firstn_all, Nat.sub_diag. cbn [firstn]. rewrite app_nil_r.
  unfold arr_write. rewrite array_app_new, write_prefix by (rewrite map_length; reflexivity).
  apply write_last.
Qed.

Lemma code_newslice_eq st t vs :
  code_newslice st t vs =
  ((st ++ [map (assign_to t) vs])%list, GSl t (SMk (length st) 0 (length vs) (length vs))).
Proof.
  unfold code_newslice, lit. pose proof (NewSlice_last st vs [] t (length vs)) as H.
  rewrite !app_nil_r in H. exact H.
Qed.

Lemma host_NewSlice_eq st t vs extra :
  host_NewSlice st t vs extra =
  ((st ++ [map (assign_to t) vs ++ repeat nilV extra])%list, GSl t (SMk (length st) 0 (length vs) (length vs + extra))).
Proof. apply NewSlice_last. Qed.

Lemma map_assign_repeat t n : map (assign_to t) (repeat (fn_newZero t) n) = repeat (fn_newZero t) n.
Proof. induction n as [|n IH]; [reflexivity|]. cbn [repeat map]. rewrite IH. f_equal. apply assign_newZero. Qed.

Lemma code_make_eq st t nv :
  code_make st t nv =
  match make_ st (Value_Int nv) (fn_newZero t) with
  | Ok (st', d) => Ok (st', GSl t d) | Panic => Panic | Unmodelled => Unmodelled
  end.
Proof.
  unfold code_make, make_. destruct (Value_Int nv <? 0); [reflexivity|]. f_equal.
  set (n := Z.to_nat (Value_Int nv)).
  pose proof (NewSlice_last st (repeat (fn_newZero t) n) [] t n) as H.
  rewrite repeat_length, !app_nil_r, map_assign_repeat in H. exact H.
Qed.

(* sliceT.Append = Go's append of the values converted to the element type: the re-assignment
   of the elements that were already there is harmless *)
Lemma append_refines grow st t d items : store_ok st -> wf_slice st d -> scalar t ->
  Value_Append grow st (GSl t d) items 0 =
  (fst (append_ nilV grow st d (map (assign_to t) items)),
   GSl t (snd (append_ nilV grow st d (map (assign_to t) items)))).
Proof.
  intros Hs W S. cbn [Value_Append]. unfold append_. rewrite map_length.
  destruct (slen d + length items <=? scap d)%nat eqn:E.
  - apply Nat.leb_le in E. destruct d as [|a o l c].
    + cbn [fst snd]. reflexivity.
    + cbn [slen scap fst snd] in *. destruct W as (Ha & Hl & Hc).
      unfold NewSlice, newSlice. f_equal.
      set (items' := map (assign_to t) items).
      assert (Li : length items' = length items) by apply map_length.
      set (st1 := arr_write st a (o + l) items).
      assert (C1 : cells st1 (SMk a o (l + length items) c) = (cells st (SMk a o l c) ++ items)%list).
      { pose proof (cells_append nilV grow st (SMk a o l c) items (conj Ha (conj Hl Hc))) as H.
        unfold append_ in H. cbn [slen scap] in H. apply Nat.leb_le in E. rewrite E in H. exact H. }
      rewrite C1, map_app. rewrite (map_assign_fix t (cells st (SMk a o l c)) S (cells_sok st _ Hs)).
      fold items'.
      assert (Lc : length (cells st (SMk a o l c)) = l) by (apply (length_cells st (SMk a o l c)); cbn; auto).
      apply store_ext_cell; [unfold st1; rewrite !length_arr_write; reflexivity|].
      intros b i.
      rewrite cell_arr_write
        by (unfold st1; rewrite ?length_arr_write, ?array_length_arr_write, ?app_length, ?Lc, ?Li; auto; lia).
      unfold st1. rewrite !cell_arr_write by (rewrite ?Li; auto; lia).
      rewrite app_length, Lc, Li.
      destruct (b =? a)%nat eqn:Eb; cbn [andb]; [|reflexivity].
      destruct (Nat.leb_spec o i); destruct (Nat.ltb_spec i (o + (l + length items)));
        destruct (Nat.leb_spec (o + l) i); destruct (Nat.ltb_spec i (o + l + length items)); cbn [andb]; try lia; try reflexivity.
      * rewrite nth_error_app2 by lia. rewrite Lc. f_equal. lia.
      * rewrite nth_error_app1 by lia. rewrite nth_error_cells.
        assert ((i - o <? l)%nat = true) as -> by (apply Nat.ltb_lt; lia).
        apply Nat.eqb_eq in Eb. subst b. f_equal. lia.
  - cbn [fst snd].
    set (n := (slen d + length items)%nat). set (c' := Nat.max n (grow (scap d) n)).
    pose proof (NewSlice_last st (cells st d ++ items) (repeat nilV (c' - n)) t c') as H.
    rewrite app_length, length_cells in H by exact W. fold n in H.
    rewrite <- !app_assoc in H. rewrite H. rewrite map_app.
    rewrite (map_assign_fix t (cells st d) S (cells_sok st _ Hs)). rewrite <- !app_assoc. reflexivity.
Qed.

Lemma code_append_nil grow st t items :
  code_append grow st (GNil t) items =
  ((st ++ [map (assign_to (Type_value t)) items])%list,
   GSl (Type_value t) (SMk (length st) 0 (length items) (length items))).
Proof. cbn [code_append]. apply code_newslice_eq. Qed.

(* ---- the invariant is kept by every statement -------------------------------------------------- *)

Lemma Forall_firstn {A} (P : A -> Prop) n l : Forall P l -> Forall P (firstn n l).
Proof. intros H. revert n. induction H; intros [|n]; cbn; constructor; auto. Qed.
Lemma Forall_repeat {A} (P : A -> Prop) x n : P x -> Forall P (repeat x n).
Proof. intros H. induction n; cbn; constructor; auto. Qed.

Lemma store_ok_append grow st d items : store_ok st -> Forall sok items ->
  store_ok (fst (append_ nilV grow st d items)).
Proof.
  intros Hs F. unfold append_. destruct (slen d + length items <=? scap d)%nat.
  - destruct d; cbn [fst]; [exact Hs|apply store_ok_write; assumption].
  - cbn [fst]. apply store_ok_app; [exact Hs|].
    apply Forall_app. split; [apply cells_sok; exact Hs|]. apply Forall_app. split; [exact F|].
    apply Forall_repeat. apply sok_nilV.
Qed.

Lemma inv_update st p st' x g : Inv (st, p) -> store_ok st' ->
  (forall s, wf_slice st s -> wf_slice st' s) -> wf_slice st' (gdata g) -> scalar (elemty g) ->
  Inv (st', pset p x g).
Proof.
  intros [_ HI] Hs Hw Wg Sg. split; [exact Hs|]. cbn [fst snd] in *. intros y Hy.
  rewrite length_pset in Hy. rewrite pget_pset.
  destruct ((y =? x)%nat && (x <? length p)%nat); [split; assumption|].
  destruct (HI y Hy). split; auto.
Qed.
Lemma inv_store st p st' : Inv (st, p) -> store_ok st' ->
  (forall s, wf_slice st s -> wf_slice st' s) -> Inv (st', p).
Proof.
  intros [_ HI] Hs Hw. split; [exact Hs|]. cbn [fst snd] in *. intros y Hy.
  destruct (HI y Hy). split; auto.
Qed.

Lemma Value_Len_data g : Value_Len g = slen (gdata g).
Proof. destruct g; reflexivity. Qed.

Lemma inv_step s o : Inv s -> op_wf (length (snd s)) o ->
  Inv (step s o) /\ length (snd (step s o)) = length (snd s).
Proof.
  destruct s as [st p]. intros HI Hw. pose proof HI as [Hs Hp]. cbn [fst snd] in *.
  unfold step. destruct o as [x t|x t vs|x t nv|x y a b|x k v|x y vs sp c|x y|x bs]; cbn [step_res op_wf] in *.
  - destruct Hw as [Hx St]. split; [|apply length_pset].
    apply (inv_update st p st); auto. exact I.
    cbn [elemty]. rewrite value_type_sliceType by (destruct St; lia). exact St.
  - destruct Hw as [Hx St]. rewrite code_newslice_eq. cbn [snd]. split; [|apply length_pset].
    apply (inv_update st); auto.
    + apply store_ok_app; [exact Hs|apply map_assign_sok; exact St].
    + intros s. apply wf_app.
    + cbn [gdata]. apply wf_new; [lia|rewrite map_length; lia].
  - destruct Hw as [Hx St]. rewrite code_make_eq. unfold make_. destruct (Value_Int nv <? 0).
    + split; [exact HI|reflexivity].
    + cbn [snd]. split; [|apply length_pset]. apply (inv_update st); auto.
      * apply store_ok_app; [exact Hs|]. apply Forall_repeat. apply sok_newZero. exact St.
      * intros s. apply wf_app.
      * cbn [gdata]. apply wf_new; [lia|rewrite repeat_length; lia].
  - destruct Hw as [Hx Hy]. destruct (Hp y Hy) as [Wy Sy]. unfold code_slice, Value_Slice.
    destruct (pget p y) as [t|t d] eqn:Ey.
    + destruct ((Value_Int a =? 0) && _); [|split; [exact HI|reflexivity]].
      cbn [snd]. split; [|apply length_pset]. apply (inv_update st); auto; try exact I.
    + destruct (reslice d _ _) as [d'| |] eqn:R; try (split; [exact HI|reflexivity]).
      cbn [snd]. split; [|apply length_pset]. apply (inv_update st); auto.
      cbn [gdata] in *. eapply wf_reslice; eassumption.
  - destruct (Hp x Hw) as [Wx Sx]. unfold code_set, Value_Set. destruct (pget p x) as [t|t d] eqn:Ex.
    + split; [exact HI|reflexivity].
    + destruct (set st d _ _) as [st'| |] eqn:E; try (split; [exact HI|reflexivity]).
      cbn [snd]. split; [|reflexivity]. apply (inv_store st); auto.
      * cbn [gdata elemty] in *. destruct d as [|a0 o l c0]; [discriminate|]. cbn [set] in E.
        destruct ((0 <=? Value_Int k) && _); [|discriminate]. injection E as <-.
        apply store_ok_write; [exact Hs|]. constructor; [apply assign_sok; exact Sx|constructor].
      * intros s. eapply wf_set. exact E.
  - destruct Hw as (Hx & Hy & Hz). destruct (Hp y Hy) as [Wy Sy].
    set (items := (vs ++ _)%list). destruct (pget p y) as [t|t d] eqn:Ey.
    + rewrite code_append_nil. cbn [snd]. split; [|apply length_pset]. cbn [elemty] in Sy.
      apply (inv_update st); auto.
      * apply store_ok_app; [exact Hs|apply map_assign_sok; exact Sy].
      * intros s. apply wf_app.
      * cbn [gdata]. apply wf_new; [lia|rewrite map_length; lia].
    + cbn [code_append gdata elemty] in *. rewrite append_refines by assumption. cbn [snd].
      split; [|apply length_pset]. apply (inv_update st); auto.
      * apply store_ok_append; [exact Hs|apply map_assign_sok; exact Sy].
      * intros s. apply wf_append_old.
      * cbn [gdata]. apply wf_append_new. exact Wy.
  - destruct Hw as [Hx Hy]. cbn [snd]. split; [|reflexivity]. unfold code_copy.
    apply (inv_store st); auto.
    + destruct (gdata (pget p x)) as [|a o l c]; cbn [copy_vals fst]; [exact Hs|].
      apply store_ok_write; [exact Hs|]. apply Forall_firstn. cbn [csrc_vals]. apply cells_sok. exact Hs.
    + intros s. apply wf_copy_vals.
  - cbn [snd]. split; [|reflexivity]. unfold code_copy. apply (inv_store st); auto.
    + destruct (gdata (pget p x)) as [|a o l c]; cbn [copy_vals fst]; [exact Hs|].
      apply store_ok_write; [exact Hs|]. apply Forall_firstn. cbn [csrc_vals].
      apply Forall_forall. intros v Hv. apply in_map_iff in Hv as (b & <- & _). apply sok_Byte.
    + intros s. apply wf_copy_vals.
Qed.

(* ---- refinement: every statement does what Go does --------------------------------------------- *)

Lemma abs_update st p x g : abs (st, pset p x g) = (st, tset (map abs_var p) x (abs_var g)).
Proof. unfold abs. cbn [fst snd]. rewrite abs_pset. reflexivity. Qed.

Lemma refine_step s o : Inv s -> op_wf (length (snd s)) o -> op_nilsafe s o ->
  exists cap, abs_res (step_res s o) = go_step_res cap (abs s) o.
Proof.
  destruct s as [st p]. intros [Hs Hp] Hw Hn. cbn [fst snd] in *.
  destruct o as [x t|x t vs|x t nv|x y a b|x k v|x y vs sp c|x y|x bs];
    cbn [step_res op_wf op_nilsafe go_step_res abs fst snd] in *.
  all: try rewrite !tget_abs.
  - exists 0%nat. destruct Hw as [Hx St]. cbn [abs_res]. rewrite abs_update. unfold abs_var. cbn [elemty gdata].
    rewrite value_type_sliceType by (destruct St; lia). reflexivity.
  - exists 0%nat. rewrite code_newslice_eq. cbn [abs_res lit]. rewrite abs_update, map_length. reflexivity.
  - exists 0%nat. rewrite code_make_eq. destruct (make_ st (Value_Int nv) (fn_newZero t)) as [[st' d]| |]; cbn [abs_res]; try reflexivity.
    rewrite abs_update. reflexivity.
  - exists 0%nat. unfold abs_var at 1. unfold code_slice. rewrite Value_Len_data.
    destruct (pget p y) as [t|t d]; cbn [Value_Slice gdata elemty slen reslice].
    + destruct ((Value_Int a =? 0) && _); cbn [abs_res]; [|reflexivity]. rewrite abs_update. reflexivity.
    + destruct (reslice d _ _); cbn [abs_res]; try reflexivity. rewrite abs_update. reflexivity.
  - exists 0%nat. unfold abs_var at 1. unfold code_set, Value_Set.
    destruct (pget p x) as [t|t d]; cbn [gdata elemty set abs_res]; [reflexivity|].
    unfold assign_to. destruct (set st d _ _); reflexivity.
  - destruct Hw as (Hx & Hy & Hz). destruct (Hp y Hy) as [Wy Sy].
    unfold abs_var at 1.
    assert (Ez : match sp with
                 | SpN => [] | SpV z => cells st (snd (tget (map abs_var p) z)) | SpS bs => map fn_Byte bs
                 end = spread_items st (spread_of p sp)).
    { destruct sp; [reflexivity|rewrite tget_abs; reflexivity|reflexivity]. }
    rewrite Ez. clear Ez. set (items := (vs ++ _)%list) in *.
    destruct (pget p y) as [t|t d] eqn:Ey; cbn [gdata elemty] in *.
    + exists (length items). rewrite code_append_nil. cbn [abs_res]. rewrite abs_update.
      specialize (Hn eq_refl).
      unfold append_. cbn [slen scap Nat.add]. rewrite map_length.
      destruct items as [|i0 items]; [contradiction|]. cbn [length].
      assert ((S (length items) <=? 0)%nat = false) as -> by (apply Nat.leb_gt; lia).
      rewrite Nat.max_id, Nat.sub_diag. cbn [cells repeat app]. rewrite app_nil_r. reflexivity.
    + exists c. cbn [code_append]. rewrite append_refines by assumption. cbn [abs_res]. rewrite abs_update.
      unfold abs_var. cbn [elemty gdata].
      destruct (append_ nilV (fun _ _ : nat => c) st d (map (assign_to t) items)). reflexivity.
  - exists 0%nat. cbn [abs_res abs fst snd]. unfold abs_var. cbn [snd]. reflexivity.
  - exists 0%nat. cbn [abs_res abs fst snd]. unfold abs_var. cbn [snd]. reflexivity.
Qed.

Lemma refine_run os : forall s, Inv s -> hist_ok s os -> go_run (abs s) os (abs (run s os)).
Proof.
  induction os as [|o os IH]; intros s HI Hh; [constructor|].
  destruct Hh as (Hw & Hn & Hr). destruct (refine_step s o HI Hw Hn) as [cap E].
  cbn [run fold_left]. apply (go_run_cons _ _ _ cap).
  assert (Es : go_step cap (abs s) o = abs (step s o)).
  { unfold go_step, step. rewrite <- E. destruct (step_res s o); reflexivity. }
  rewrite Es. apply IH; [apply inv_step; assumption|exact Hr].
Qed.

Lemma inv_run os : forall s, Inv s -> hist_ok s os -> Inv (run s os).
Proof.
  induction os as [|o os IH]; intros s HI Hh; [exact HI|].
  destruct Hh as (Hw & Hn & Hr). cbn [run fold_left]. apply IH; [apply inv_step; assumption|exact Hr].
Qed.

Lemma inv_init n : Inv ([], repeat (GNil (fn_sliceType TypeInt32)) n).
Proof.
  split.
  - intros a i v. unfold cell, array. destruct a; destruct i; discriminate.
  - cbn [fst snd]. intros x Hx. unfold pget. rewrite nth_nth_error.
    rewrite repeat_length in Hx. rewrite nth_error_repeat by exact Hx. split; [exact I|].
    cbn. unfold scalar, nillableMin. lia.
Qed.

(* ---- consequences, stated on the model's own operations ---------------------------------------- *)

Definition gcapn (g : gval) : nat := scap (gdata g).

(* x := g[i:j]; x[k] = v  is seen as g[i+k], and nothing else of g changes *)
Lemma sub_write_visible st g i j h k v st' kk :
  wf_slice st (gdata g) -> Value_Slice g i j = Ok h -> Value_Set st h k v = Ok st' ->
  Value_Int kk = i + Value_Int k -> i + Value_Int k < Z.of_nat (Value_Len g) ->
  elemty h = elemty g /\
  Value_Get st' g kk = Ok (Value_assign v (elemty g)) /\
  (forall m, Value_Int m <> Value_Int kk -> Value_Get st' g m = Value_Get st g m).
Proof.
  intros W R S Ek Hk. destruct g as [t|t d]; cbn [Value_Slice] in R.
  - destruct ((i =? 0) && (j =? 0)); [|discriminate]. injection R as <-. discriminate.
  - destruct (reslice d i j) as [d'| |] eqn:Rd; try discriminate. injection R as <-.
    cbn [Value_Set Value_Get Value_Len gdata elemty] in *. split; [reflexivity|].
    destruct (sub_write_seen_by_parent st d i j d' (Value_Int k) (Value_assign v t) st' W Rd S Hk) as [A B].
    rewrite Ek. split; [exact A|]. intros m Hm. apply B. lia.
Qed.

(* x := g[i:j]; g[i+k] = v  is seen as x[k] *)
Lemma parent_write_visible st g i j h k v st' kk :
  wf_slice st (gdata g) -> Value_Slice g i j = Ok h -> 0 <= Value_Int k < j - i ->
  Value_Int kk = i + Value_Int k -> Value_Set st g kk v = Ok st' ->
  Value_Get st' h k = Ok (Value_assign v (elemty g)) /\
  (forall m, Value_Int m <> Value_Int k -> Value_Get st' h m = Value_Get st h m).
Proof.
  intros W R Hk Ek S. destruct g as [t|t d]; cbn [Value_Slice] in R.
  - discriminate.
  - destruct (reslice d i j) as [d'| |] eqn:Rd; try discriminate. injection R as <-.
    cbn [Value_Set Value_Get Value_Len gdata elemty] in *. rewrite Ek in S.
    destruct (parent_write_seen_by_sub st d i j d' (Value_Int k) (Value_assign v t) st' W Rd Hk S) as [A B].
    split; [exact A|]. intros m Hm. apply B. exact Hm.
Qed.

(* append within the capacity writes in place: same array, same offset; exactly the cells after
   the old elements receive the (converted) values -- whoever covers those cells sees them *)
Lemma append_within_capacity grow st t a o l c items :
  store_ok st -> wf_slice st (SMk a o l c) -> scalar t -> (l + length items <= c)%nat ->
  Value_Append grow st (GSl t (SMk a o l c)) items 0 =
    (arr_write st a (o + l) (map (assign_to t) items), GSl t (SMk a o (l + length items) c)) /\
  (forall b i, cell (arr_write st a (o + l) (map (assign_to t) items)) b i =
               if (b =? a)%nat && ((o + l <=? i)%nat && (i <? o + l + length items)%nat)
               then nth_error (map (assign_to t) items) (i - (o + l)) else cell st b i).
Proof.
  intros Hs W S H. rewrite append_refines by assumption.
  destruct (append_in_place nilV grow st a o l c (map (assign_to t) items) W) as [E C];
    [rewrite map_length; exact H|].
  rewrite E. cbn [fst snd]. rewrite map_length in *. split; [reflexivity|exact C].
Qed.

(* append beyond the capacity: a new array; no existing array changes (so every existing slice
   keeps its elements); the result holds the old elements followed by the converted values *)
Lemma append_beyond_capacity grow st t d items :
  store_ok st -> wf_slice st d -> scalar t -> (scap d < slen d + length items)%nat ->
  let r := Value_Append grow st (GSl t d) items 0 in
  (forall b, (b < length st)%nat -> array (fst r) b = array st b) /\
  (forall s, wf_slice st s -> cells (fst r) s = cells st s) /\
  (exists c', snd r = GSl t (SMk (length st) 0 (slen d + length items) c') /\ (slen d + length items <= c')%nat) /\
  cells (fst r) (gdata (snd r)) = (cells st d ++ map (assign_to t) items)%list.
Proof.
  intros Hs W S H r. subst r. rewrite append_refines by assumption. cbn [fst snd gdata].
  destruct (append_fresh nilV grow st d (map (assign_to t) items) W) as (c' & Hc & E & A);
    [rewrite map_length; exact H|].
  rewrite map_length in *. split; [exact A|]. split; [|split].
  - intros s Ws. destruct s as [|b o l c]; [reflexivity|]. cbn [cells]. rewrite A; [reflexivity|]. apply Ws.
  - exists c'. rewrite E. cbn [snd]. split; [reflexivity|exact Hc].
  - apply cells_append. exact W.
Qed.

(* copy moves min(len(dst), len(src)) elements *)
Lemma copy_moves_min st a b :
  wf_slice st (gdata a) ->
  let n := Nat.min (Value_Len a) (length (csrc_vals st b)) in
  snd (code_copy st a b) = n /\
  cells (fst (code_copy st a b)) (gdata a) = (firstn n (csrc_vals st b) ++ skipn n (cells st (gdata a)))%list.
Proof. intros W. cbn zeta. rewrite Value_Len_data. apply copy_vals_spec. exact W. Qed.
Lemma csrc_len_slice st g : wf_slice st (gdata g) -> length (csrc_vals st (CSlice g)) = Value_Len g.
Proof. intros W. rewrite Value_Len_data. apply length_cells. exact W. Qed.
Lemma csrc_len_str st s : length (csrc_vals st (CStr s)) = length s.
Proof. apply map_length. Qed.

(* ---- bounds ----------------------------------------------------------------------------------- *)

Lemma get_out st g k : ~ (0 <= Value_Int k < Z.of_nat (Value_Len g)) -> Value_Get st g k = Panic.
Proof. destruct g; [reflexivity|]. apply index_out. Qed.
Lemma get_in st g k : wf_slice st (gdata g) -> 0 <= Value_Int k < Z.of_nat (Value_Len g) ->
  exists v, Value_Get st g k = Ok v.
Proof. destruct g; cbn [Value_Len]; [lia|]. apply index_in. Qed.
Lemma set_out_of_range st g k v : ~ (0 <= Value_Int k < Z.of_nat (Value_Len g)) -> Value_Set st g k v = Panic.
Proof. destruct g; [reflexivity|]. apply set_out. Qed.
Lemma set_in_range st g k v : 0 <= Value_Int k < Z.of_nat (Value_Len g) -> exists st', Value_Set st g k v = Ok st'.
Proof. destruct g; cbn [Value_Len]; [lia|]. apply set_in. Qed.
Lemma slice_out g i j : ~ (0 <= i <= j /\ j <= Z.of_nat (gcapn g)) -> Value_Slice g i j = Panic.
Proof.
  destruct g as [t|t d]; unfold gcapn; cbn [gdata Value_Slice scap].
  - intros H. destruct ((i =? 0) && (j =? 0)) eqn:E; [|reflexivity].
    apply andb_prop in E as [E1 E2]. apply Z.eqb_eq in E1, E2. lia.
  - intros H. rewrite reslice_out by exact H. reflexivity.
Qed.
Lemma slice_in g i j : 0 <= i <= j /\ j <= Z.of_nat (gcapn g) ->
  exists h, Value_Slice g i j = Ok h /\ Value_Len h = (Z.to_nat j - Z.to_nat i)%nat /\ elemty h = elemty g.
Proof.
  destruct g as [t|t d]; unfold gcapn; cbn [gdata Value_Slice scap].
  - intros H. assert (i = 0 /\ j = 0) as [-> ->] by lia. cbn. eauto.
  - intros H. destruct (reslice_in d i j H) as (d' & -> & L & _). eexists. split; [reflexivity|]. cbn. auto.
Qed.
Lemma code_slice_out r a b :
  let i := Value_Int a in
  let j := if vt b =? TypeNil then Z.of_nat (Value_Len r) else Value_Int b in
  ~ (0 <= i <= j /\ j <= Z.of_nat (gcapn r)) -> code_slice r a b = Panic.
Proof. cbn zeta. intros H. unfold code_slice. apply slice_out. exact H. Qed.
Lemma make_out st t n : Value_Int n < 0 -> code_make st t n = Panic.
Proof. intros H. rewrite code_make_eq, make_negative by exact H. reflexivity. Qed.

(* ---- element types ------------------------------------------------------------------------------ *)

(* a cell of an array whose element type is t: a value of type t, or a cell nobody wrote *)
Definition tcell (t : Z) (v : value) : Prop := vt v = t \/ v = nilV.

(* typing invariant; aty = element type of every array (ghost) *)
Definition TInv (aty : list Z) (s : state) : Prop :=
  length aty = length (fst s) /\
  (forall a i v, cell (fst s) a i = Some v -> tcell (nth a aty 0) v) /\
  (forall x, (x < length (snd s))%nat ->
     match gdata (pget (snd s) x) with SNil => True | SMk a _ _ _ => nth a aty 0 = elemty (pget (snd s) x) end).

(* the values a statement stores are ones Go's type checker accepts for the destination *)
Definition op_typed (s : state) (o : op) : Prop :=
  let p := snd s in
  match o with
  | OLit _ t vs => Forall (compat t) vs
  | OSet x _ v => compat (elemty (pget p x)) v
  | OAppend _ y vs sp _ =>
      Forall (compat (elemty (pget p y))) vs /\
      match sp with
      | SpN => True
      | SpV z => elemty (pget p z) = elemty (pget p y)
      | SpS _ => elemty (pget p y) = TypeUint8
      end
  | OCopy x y => elemty (pget p y) = elemty (pget p x)
  | OCopyStr x _ => elemty (pget p x) = TypeUint8
  | _ => True
  end.
Fixpoint hist_typed (s : state) (os : list op) : Prop :=
  match os with
  | [] => True
  | o :: r => op_wf (length (snd s)) o /\ op_typed s o /\ hist_typed (step s o) r
  end.

Lemma assign_tcell t v : scalar t -> compat t v \/ tcell t v -> tcell t (Value_assign v t).
Proof.
  intros S [H|[H| ->]].
  - left. apply assign_compat. exact H.
  - left. apply assign_compat. left. exact H.
  - right. apply sok_fix; [exact S|apply sok_nilV].
Qed.

Lemma nth_app_old {A} (l : list A) x a d : (a < length l)%nat -> nth a (l ++ [x]) d = nth a l d.
Proof. intros H. apply app_nth1. exact H. Qed.
Lemma nth_app_new {A} (l : list A) x d : nth (length l) (l ++ [x]) d = x.
Proof. rewrite app_nth2 by lia. rewrite Nat.sub_diag. reflexivity. Qed.

(* a new array of type t, variable x := a slice on it *)
Lemma tinv_alloc aty st p x t arr g :
  Inv (st, p) -> TInv aty (st, p) -> Forall (tcell t) arr ->
  gdata g = SNil \/ (exists o l c, gdata g = SMk (length st) o l c) -> elemty g = t ->
  TInv (aty ++ [t]) ((st ++ [arr])%list, pset p x g).
Proof.
  intros [_ HI] (L & C & P) F G E. cbn [fst snd] in *. split; [|split]; cbn [fst snd].
  - rewrite !app_length. cbn. lia.
  - intros a i v. rewrite cell_app. destruct (a <? length st)%nat eqn:Ea.
    + apply Nat.ltb_lt in Ea. rewrite nth_app_old by lia. apply C.
    + destruct (a =? length st)%nat eqn:Eb; [|discriminate]. apply Nat.eqb_eq in Eb. subst a.
      rewrite <- L, nth_app_new. intros Hv. apply nth_error_In in Hv. rewrite Forall_forall in F. auto.
  - intros y Hy. rewrite length_pset in Hy. rewrite pget_pset.
    destruct ((y =? x)%nat && (x <? length p)%nat).
    + destruct G as [-> | (o & l & c & ->)]; [exact I|]. rewrite <- L, nth_app_new. symmetry. exact E.
    + specialize (P y Hy). destruct (HI y Hy) as [W _].
      destruct (gdata (pget p y)) as [|a o l c]; [exact I|]. rewrite nth_app_old by (rewrite L; apply W). exact P.
Qed.

(* writing values of the array's type into an existing array *)
Lemma tinv_write aty st p a k vs :
  TInv aty (st, p) -> Forall (tcell (nth a aty 0)) vs -> TInv aty (arr_write st a k vs, p).
Proof.
  intros (L & C & P) F. split; [|split]; cbn [fst snd] in *.
  - rewrite length_arr_write. exact L.
  - intros b i v.
    destruct (Nat.lt_ge_cases a (length st)) as [Ha|Ha]; [|rewrite arr_write_out by exact Ha; apply C].
    destruct (Nat.le_gt_cases (k + length vs) (length (array st a))) as [Hf|Hf].
    + rewrite cell_arr_write by assumption.
      destruct (b =? a)%nat eqn:Eb; cbn [andb]; [|apply C]. apply Nat.eqb_eq in Eb. subst b.
      destruct ((k <=? i)%nat && (i <? k + length vs)%nat); [|apply C].
      intros E. apply nth_error_In in E. rewrite Forall_forall in F. auto.
    + unfold cell. rewrite array_arr_write by exact Ha. rewrite write_nofit by exact Hf.
      destruct (b =? a)%nat eqn:E; [apply Nat.eqb_eq in E; subst b|]; apply C.
  - exact P.
Qed.

Lemma tinv_pset aty st p x g :
  TInv aty (st, p) ->
  match gdata g with SNil => True | SMk a _ _ _ => nth a aty 0 = elemty g end ->
  TInv aty (st, pset p x g).
Proof.
  intros (L & C & P) G. split; [exact L|split; [exact C|]]. cbn [fst snd] in *.
  intros y Hy. rewrite length_pset in Hy. rewrite pget_pset.
  destruct ((y =? x)%nat && (x <? length p)%nat); [exact G|apply P; exact Hy].
Qed.

Lemma tcells aty st p x : TInv aty (st, p) -> (x < length p)%nat ->
  Forall (tcell (elemty (pget p x))) (cells st (gdata (pget p x))).
Proof.
  intros (L & C & P) Hx. cbn [fst snd] in *. specialize (P x Hx).
  apply Forall_forall. intros v Hv. apply In_nth_error in Hv as [i Hi].
  destruct (gdata (pget p x)) as [|a o l c]; [destruct i; discriminate|].
  rewrite nth_error_cells in Hi. destruct (i <? l)%nat; [|discriminate]. rewrite <- P. eapply C. exact Hi.
Qed.

Lemma reslice_arr a o l c i j d' : reslice (SMk a o l c) i j = Ok d' -> exists o' l' c', d' = SMk a o' l' c'.
Proof. cbn [reslice]. destruct (_ && _); [|discriminate]. intros [= <-]. eauto. Qed.

Lemma Forall_map_assign t vs : scalar t -> Forall (fun v => compat t v \/ tcell t v) vs ->
  Forall (tcell t) (map (assign_to t) vs).
Proof. intros S F. induction F; cbn [map]; constructor; auto. apply assign_tcell; assumption. Qed.

Lemma tinv_step aty s o : Inv s -> TInv aty s -> op_wf (length (snd s)) o -> op_typed s o ->
  exists aty', TInv aty' (step s o).
Proof.
  destruct s as [st p]. intros HI HT Hw Ht. pose proof HI as [Hs Hp]. pose proof HT as (L & C & P).
  cbn [fst snd] in *. unfold step.
  destruct o as [x t|x t vs|x t nv|x y a b|x k v|x y vs sp c|x y|x bs]; cbn [step_res op_wf op_typed snd] in *.
  - exists aty. apply tinv_pset; [exact HT|exact I].
  - destruct Hw as [Hx St]. rewrite code_newslice_eq. exists (aty ++ [t])%list.
    apply tinv_alloc; auto.
    + apply Forall_map_assign; [exact St|]. eapply Forall_impl; [|exact Ht]. intros; left; assumption.
    + right. cbn [gdata]. eauto.
  - destruct Hw as [Hx St]. rewrite code_make_eq. unfold make_. destruct (Value_Int nv <? 0); [exists aty; exact HT|].
    exists (aty ++ [t])%list. apply tinv_alloc; auto.
    + apply Forall_repeat. left. apply vt_newZero.
    + right. cbn [gdata]. eauto.
  - destruct Hw as [Hx Hy]. specialize (P y Hy). unfold code_slice, Value_Slice.
    destruct (pget p y) as [t|t d] eqn:Ey.
    + destruct ((Value_Int a =? 0) && _); [|exists aty; exact HT]. exists aty. apply tinv_pset; [exact HT|exact I].
    + destruct (reslice d _ _) as [d'| |] eqn:R; try (exists aty; exact HT).
      exists aty. apply tinv_pset; [exact HT|]. cbn [gdata elemty newSlice] in *.
      destruct d as [|a0 o l c0].
      * cbn [reslice] in R. destruct (_ && _); [|discriminate]. injection R as <-. exact I.
      * destruct (reslice_arr _ _ _ _ _ _ _ R) as (o' & l' & c' & ->). exact P.
  - destruct (Hp x Hw) as [Wx Sx]. specialize (P x Hw). unfold code_set, Value_Set.
    destruct (pget p x) as [t|t d] eqn:Ex; [exists aty; exact HT|].
    destruct (set st d _ _) as [st'| |] eqn:E; try (exists aty; exact HT).
    exists aty. cbn [gdata elemty] in *. destruct d as [|a0 o l c0]; [discriminate|]. cbn [set] in E.
    destruct ((0 <=? Value_Int k) && _); [|discriminate]. injection E as <-.
    apply tinv_write; [exact HT|]. constructor; [|constructor]. rewrite P.
    apply assign_tcell; [exact Sx|left; exact Ht].
  - destruct Hw as (Hx & Hy & Hz). destruct Ht as [Hv Hsp]. destruct (Hp y Hy) as [Wy Sy].
    pose proof (P y Hy) as Py.
    set (items := (vs ++ _)%list).
    assert (Fi : Forall (fun v => compat (elemty (pget p y)) v \/ tcell (elemty (pget p y)) v) items).
    { apply Forall_app. split.
      - eapply Forall_impl; [|exact Hv]. intros; left; assumption.
      - destruct sp as [|z|bs]; cbn [spread_of spread_items]; [constructor| |].
        + rewrite <- Hsp. eapply Forall_impl; [|apply (tcells aty st p z HT Hz)]. intros; right; assumption.
        + rewrite Hsp. apply Forall_forall. intros v0 Hv0. apply in_map_iff in Hv0 as (b0 & <- & _).
          left. left. reflexivity. }
    destruct (pget p y) as [t|t d] eqn:Ey.
    + rewrite code_append_nil. cbn [elemty] in *. exists (aty ++ [Type_value t])%list.
      apply tinv_alloc; auto.
      * apply Forall_map_assign; assumption.
      * right. cbn [gdata]. eauto.
    + cbn [code_append gdata elemty] in *. rewrite append_refines by assumption.
      set (items' := map (assign_to t) items).
      assert (Fi' : Forall (tcell t) items') by (apply Forall_map_assign; assumption).
      unfold append_. destruct (slen d + length items' <=? scap d)%nat.
      * cbn [fst snd]. exists aty. destruct d as [|a0 o l c0]; cbn [fst snd].
        -- apply tinv_pset; [exact HT|exact I].
        -- apply tinv_pset; [|exact Py]. apply tinv_write; [exact HT|]. rewrite Py. exact Fi'.
      * cbn [fst snd]. exists (aty ++ [t])%list. apply tinv_alloc; auto.
        -- apply Forall_app. split.
           ++ pose proof (tcells aty st p y HT Hy) as Hc. rewrite Ey in Hc. exact Hc.
           ++ apply Forall_app. split; [exact Fi'|]. apply Forall_repeat. right. reflexivity.
        -- right. cbn [gdata]. eauto.
  - destruct Hw as [Hx Hy]. exists aty. unfold code_copy. pose proof (P x Hx) as Px.
    destruct (gdata (pget p x)) as [|a o l c]; cbn [copy_vals fst]; [exact HT|].
    apply tinv_write; [exact HT|]. apply Forall_firstn. cbn [csrc_vals]. rewrite Px, <- Ht.
    apply (tcells aty st p y HT Hy).
  - exists aty. unfold code_copy. pose proof (P x Hw) as Px.
    destruct (gdata (pget p x)) as [|a o l c]; cbn [copy_vals fst]; [exact HT|].
    apply tinv_write; [exact HT|]. apply Forall_firstn. cbn [csrc_vals]. rewrite Px, Ht.
    apply Forall_forall. intros v Hv. apply in_map_iff in Hv as (b & <- & _). left. reflexivity.
Qed.

Lemma tinv_run os : forall aty s, Inv s -> TInv aty s -> hist_typed s os -> exists aty', TInv aty' (run s os) /\ Inv (run s os).
Proof.
  induction os as [|o os IH]; intros aty s HI HT Hh; [exists aty; split; assumption|].
  destruct Hh as (Hw & Ht & Hr). destruct (tinv_step aty s o HI HT Hw Ht) as [aty1 HT1].
  cbn [run fold_left]. apply (IH aty1); [apply inv_step; assumption|exact HT1|exact Hr].
Qed.

Lemma tinv_init n : TInv [] ([], repeat (GNil (fn_sliceType TypeInt32)) n).
Proof.
  split; [reflexivity|split]; cbn [fst snd].
  - intros a i v. unfold cell, array. destruct a; destruct i; discriminate.
  - intros x Hx. unfold pget. rewrite nth_nth_error. rewrite repeat_length in Hx.
    rewrite nth_error_repeat by exact Hx. exact I.
Qed.

(* every element of every variable, after any well-typed history *)
Lemma elemty_run os s aty : Inv s -> TInv aty s -> hist_typed s os ->
  forall x, (x < length (snd (run s os)))%nat ->
  Forall (tcell (elemty (pget (snd (run s os)) x))) (cells (fst (run s os)) (gdata (pget (snd (run s os)) x))).
Proof.
  intros HI HT Hh x Hx. destruct (tinv_run os aty s HI HT Hh) as (aty' & HT' & _).
  destruct (run s os) as [st' p']. apply (tcells aty' st' p' x HT' Hx).
Qed.

(* without any typing assumption: no cell ever holds an untyped constant or a nil-tagged value
   other than Value{}; every stored value went through assign *)
Lemma stored_run os s : Inv s -> hist_ok s os ->
  forall x, Forall sok (cells (fst (run s os)) (gdata (pget (snd (run s os)) x))).
Proof. intros HI Hh x. apply cells_sok. apply (inv_run os s HI Hh). Qed.

(* ---- observations ------------------------------------------------------------------------------ *)

Lemma get_refines st g k : Value_Get st g k = index st (gdata g) (Value_Int k).
Proof.
  destruct g as [t|t d]; [|reflexivity]. cbn [Value_Get gdata]. symmetry. apply index_out. cbn. lia.
Qed.

Lemma map_snd_combine {A B} (l1 : list A) (l2 : list B) : length l1 = length l2 -> map snd (combine l1 l2) = l2.
Proof.
  revert l2. induction l1 as [|a l1 IH]; intros [|b l2] H; try discriminate; [reflexivity|].
  cbn. f_equal. apply IH. cbn in H. lia.
Qed.
Lemma map_fst_combine {A B} (l1 : list A) (l2 : list B) : length l1 = length l2 -> map fst (combine l1 l2) = l1.
Proof.
  revert l2. induction l1 as [|a l1 IH]; intros [|b l2] H; try discriminate; [reflexivity|].
  cbn. f_equal. apply IH. cbn in H. lia.
Qed.

(* range visits exactly the elements, in order, with keys Int(0), Int(1), ... *)
Lemma range_refines st g : wf_slice st (gdata g) ->
  map snd (Value_Range st g) = cells st (gdata g) /\
  map fst (Value_Range st g) = map (fun n => fn_Int (Z.of_nat n)) (seq 0 (Value_Len g)).
Proof.
  intros W. destruct g as [t|t d]; [split; reflexivity|]. cbn [Value_Range gdata Value_Len] in *.
  assert (L : length (map (fun n => fn_Int (Z.of_nat n)) (seq 0 (slen d))) = length (cells st d))
    by (rewrite map_length, seq_length, length_cells by exact W; reflexivity).
  split; [apply map_snd_combine|apply map_fst_combine]; exact L.
Qed.
(* the lazy form: the n-th call reads the n-th element of the descriptor fixed at loop start from
   the CURRENT store *)
Lemma range_next_refines st g n :
  range_next st g n = match index st (gdata g) (Z.of_nat n) with
                      | Ok v => Some (fn_Int (Z.of_nat n), v) | _ => None end.
Proof.
  destruct g as [t|t d]; cbn [range_next gdata].
  - rewrite index_out by (cbn; lia). reflexivity.
  - unfold index. assert ((0 <=? Z.of_nat n) = true) as -> by (apply Z.leb_le; lia). cbn [andb].
    rewrite Nat2Z.id. destruct (n <? slen d)%nat eqn:E.
    + apply Nat.ltb_lt in E. assert ((Z.of_nat n <? Z.of_nat (slen d)) = true) as -> by (apply Z.ltb_lt; lia).
      destruct (nth_error (cells st d) n); reflexivity.
    + apply Nat.ltb_ge in E. assert ((Z.of_nat n <? Z.of_nat (slen d)) = false) as -> by (apply Z.ltb_ge; lia).
      reflexivity.
Qed.

(* ---- nil slices ---------------------------------------------------------------------------------- *)

Lemma nil_len t : Value_Len (GNil t) = 0%nat /\ code_len (GNil t) = fn_Int 0.
Proof. split; reflexivity. Qed.
Lemma nil_range st t : Value_Range st (GNil t) = [] /\ forall n, range_next st (GNil t) n = None.
Proof. split; reflexivity. Qed.
Lemma nil_index st t k v : Value_Get st (GNil t) k = Panic /\ Value_Set st (GNil t) k v = Panic.
Proof. split; reflexivity. Qed.
Lemma nil_copy st t b g : code_copy st (GNil t) b = (st, 0%nat) /\ code_copy st g (CSlice (GNil t)) = (fst (code_copy st g (CSlice (GNil t))), 0%nat) /\
  fst (code_copy st g (CSlice (GNil t))) = match gdata g with SNil => st | SMk a o _ _ => arr_write st a o [] end.
Proof.
  split; [reflexivity|]. unfold code_copy. cbn [csrc_vals gdata cells].
  destruct (gdata g) as [|a o l c]; cbn [copy_vals fst snd length]; rewrite ?Nat.min_0_r; split; reflexivity.
Qed.
(* APPEND on a nil Value: a new array holding the values converted to the declared element type;
   nothing that existed changes *)
Lemma nil_append grow st t items :
  code_append grow st (GNil t) items =
  ((st ++ [map (assign_to (Type_value t)) items])%list,
   GSl (Type_value t) (SMk (length st) 0 (length items) (length items))).
Proof. apply code_append_nil. Qed.
Lemma nil_reslice t i j : Value_Slice (GNil t) i j = if (i =? 0) && (j =? 0) then Ok (GSl (Type_value t) SNil) else Panic.
Proof. reflexivity. Qed.

(* ---- findings: where the faithful model and Go differ (witnesses) -------------------------------- *)

(* F1. slicing a nil slice, or appending nothing to it, gives a NON-nil value (Go: nil) *)
Example finding_nil_not_preserved :
  (exists h, Value_Slice (GNil (fn_sliceType TypeInt32)) 0 0 = Ok h /\ g_isnil h = false) /\
  @reslice SNil 0 0 = Ok SNil /\
  g_isnil (snd (code_append (fun _ n => n) [] (GNil (fn_sliceType TypeInt32)) [])) = false /\
  snd (append_ nilV (fun _ n => n) [] SNil []) = SNil.
Proof. split; [eexists; split; reflexivity|]. repeat split; reflexivity. Qed.

(* F2. the spare cells of an array allocated by a growing append hold Value{} (nil), not the zero
   value of the element type: x := []int{1,2,3}; x = append(x, 4) [capacity 6]; x[:6][5] is nil *)
Example finding_slack_is_nil :
  let i32 n := mkValue TypeInt32 (Zn n) PNone in
  let '(st1, x) := code_newslice [] TypeInt32 [i32 1; i32 2; i32 3] in
  let '(st2, y) := code_append (fun _ _ => 6%nat) st1 x [i32 4] in
  match Value_Slice y 0 6 with
  | Ok z => Value_Get st2 z (i32 5) = Ok nilV /\ fn_newZero TypeInt32 <> nilV
  | _ => False
  end.
Proof. vm_compute. split; [reflexivity|discriminate]. Qed.

(* (the former finding F3 -- append(bytes, "s"...) stored runes -- is fixed in /repo: the spread of
   a string is the list of its bytes as uint8 values, for every string) *)
Lemma spread_string_bytes st s :
  spread_items st (SpStr s) = map fn_Byte s /\ Forall (fun v => vt v = TypeUint8) (spread_items st (SpStr s)).
Proof.
  split; [reflexivity|]. apply Forall_forall. intros v Hv. apply in_map_iff in Hv as (b & <- & _). reflexivity.
Qed.

(* F4. host API only: Value.Append on a nil Value keeps the items as they are (no conversion to the
   element type): an untyped constant stays untyped in a []float64 *)
Example finding_host_append_nil_unassigned :
  let '(st, g) := Value_Append (fun _ n => n) [] (GNil (fn_sliceType TypeFloat64)) [mkValue untypedInt (Zn 1) PNone] 1 in
  Value_Get st g (mkValue TypeInt32 (Zn 0) PNone) = Ok (mkValue untypedInt (Zn 1) PNone) /\ elemty g = TypeFloat64.
Proof. vm_compute. split; reflexivity. Qed.
