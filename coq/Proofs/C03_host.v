(* C03: containment proofs over Model/Host.v. *)
From Coq Require Import ZArith List String Bool Lia PeanoNat.
From GV Require Import Model.Loader Model.Host.
Import ListNotations.
Open Scope string_scope.
Open Scope Z_scope.

(* ---- tokenize / parse ------------------------------------------------------------------ *)

Lemma tokenize_nonempty : forall b l, tokenize_model b = SOk l -> l <> [] /\ last l eof = eof.
Proof.
  intros [l0|l0|] l H; cbn in H; try discriminate. inversion H; subst. split.
  - destruct l0; discriminate.
  - apply last_last.
Qed.

Lemma parse_after_tokenize : forall sb pb l, tokenize_model sb = SOk l ->
  forall w, parse_model l pb <> SEscape w.
Proof.
  intros sb pb l H w. destruct (tokenize_nonempty _ _ H) as [Hn _].
  destruct l; [congruence|]. cbn. destruct pb; discriminate.
Qed.

(* ---- positions ----------------------------------------------------------------------------- *)

Lemma bits_high : forall x k n, 0 <= x < 2 ^ k -> 0 <= k <= n -> Z.testbit x n = false.
Proof.
  intros x k n Hx Hk. rewrite <- (Z.mod_small x (2 ^ k)) by lia.
  apply Z.mod_pow2_bits_high. lia.
Qed.

Lemma ones16 : forall n, 0 <= n -> Z.testbit 65535 n = (n <? 16).
Proof.
  intros n Hn. change 65535 with (Z.ones 16).
  destruct (n <? 16) eqn:E.
  - apply Z.ones_spec_low. lia.
  - apply Z.ones_spec_high. lia.
Qed.

Section Pos.
  Variables fi fu line col : Z.
  Hypothesis Hfi : 0 <= fi < 65536.
  Hypothesis Hfu : 0 <= fu < 65536.
  Hypothesis Hline : 0 <= line < 65536.
  Hypothesis Hcol : 0 <= col < 65536.

  Lemma X_bit : forall m, 0 <= m < 64 -> Z.testbit (pack_pos fi fu line col) m =
    (Z.testbit fi (m - 48) || Z.testbit fu (m - 32) || Z.testbit line (m - 16) || Z.testbit col m).
  Proof.
    intros m Hm. unfold pack_pos, two64. rewrite Z.mod_pow2_bits_low by lia.
    rewrite !Z.lor_spec, !Z.shiftl_spec by lia. reflexivity.
  Qed.

  Lemma pos_file_roundtrip : pos_file (pack_pos fi fu line col) = fi.
  Proof.
    apply Z.bits_inj'. intros n Hn. unfold pos_file.
    rewrite Z.land_spec, Z.shiftr_spec, ones16 by lia.
    destruct (n <? 16) eqn:E.
    - rewrite X_bit by lia. replace (n + 48 - 48) with n by lia.
      rewrite (bits_high fu 16 (n + 48 - 32)), (bits_high line 16 (n + 48 - 16)), (bits_high col 16 (n + 48)) by (change (2 ^ 16) with 65536; lia).
      rewrite !orb_false_r, andb_true_r. reflexivity.
    - rewrite andb_false_r. symmetry. apply (bits_high fi 16); [change (2 ^ 16) with 65536|]; lia.
  Qed.

  Lemma pos_func_roundtrip : pos_func (pack_pos fi fu line col) = fu.
  Proof.
    apply Z.bits_inj'. intros n Hn. unfold pos_func.
    rewrite Z.land_spec, Z.shiftr_spec, ones16 by lia.
    destruct (n <? 16) eqn:E.
    - rewrite X_bit by lia. replace (n + 32 - 32) with n by lia.
      rewrite (bits_high line 16 (n + 32 - 16)), (bits_high col 16 (n + 32)) by (change (2 ^ 16) with 65536; lia).
      replace (Z.testbit fi (n + 32 - 48)) with false by (symmetry; apply Z.testbit_neg_r; lia).
      rewrite !orb_false_r, andb_true_r. reflexivity.
    - rewrite andb_false_r. symmetry. apply (bits_high fu 16); [change (2 ^ 16) with 65536|]; lia.
  Qed.
End Pos.

Lemma clamp16_range : forall n, 0 <= clamp16 n < 65536.
Proof. intros n. unfold clamp16. destruct (n <? 0) eqn:A; [lia|]. destruct (65535 <? n) eqn:B; lia. Qed.
Lemma clamp16_le : forall n, 0 <= n -> clamp16 n <= n.
Proof. intros n H. unfold clamp16. destruct (n <? 0) eqn:A; [lia|]. destruct (65535 <? n) eqn:B; lia. Qed.

(* newPos / pos.info for ARBITRARY indices, lines and columns: the fields never disturb each other *)
Lemma new_pos_file : forall fi fu line col, pos_file (new_pos fi fu line col) = clamp16 fi.
Proof. intros. unfold new_pos. apply pos_file_roundtrip; apply clamp16_range. Qed.
Lemma new_pos_func : forall fi fu line col, pos_func (new_pos fi fu line col) = clamp16 fu.
Proof. intros. unfold new_pos. apply pos_func_roundtrip; apply clamp16_range. Qed.

Lemma key_in_range_ok : forall keys idx, Forall (fun k => k <> "") keys -> 0 <= idx < Z.of_nat (List.length keys) ->
  key_tail_ok keys idx = true.
Proof.
  intros keys idx Hne Hi. unfold key_tail_ok.
  destruct (nth_error keys (Z.to_nat idx)) as [k|] eqn:E.
  - rewrite Forall_forall in Hne. specialize (Hne k (nth_error_In _ _ E)).
    destruct (String.eqb_spec k ""); [contradiction|reflexivity].
  - apply nth_error_None in E. lia.
Qed.

Lemma stamped_ok : forall keys p, keys_ok keys -> stamped keys p -> pos_string_ok keys p = true.
Proof.
  intros keys p [Hn Hne] [->|(fi & fu & line & col & -> & Hfi & Hfu)]; unfold pos_string_ok.
  - assert (H0 : 0 <= 0 < Z.of_nat (List.length keys)) by (destruct keys; [congruence|cbn [List.length]; lia]).
    change (pos_file 0) with 0. change (pos_func 0) with 0. rewrite !key_in_range_ok by assumption. reflexivity.
  - rewrite new_pos_file, new_pos_func.
    pose proof (clamp16_range fi). pose proof (clamp16_range fu).
    pose proof (clamp16_le fi ltac:(lia)). pose proof (clamp16_le fu ltac:(lia)).
    rewrite !key_in_range_ok by (assumption || lia). reflexivity.
Qed.

(* ---- btErr is total: any frame.N, any code length ---------------------------------------------- *)

Lemma bt_err_total : forall s, vmstate_ok s -> bt_err_ok (vkeys s) (vcodes s) (vN s) (vbt s) = true.
Proof.
  intros [keys codes n bt] (Hk & Hc & Hb); cbn in *. unfold bt_err_ok. apply andb_true_iff; split.
  - set (len := Z.of_nat (List.length codes)).
    destruct (len <=? n) eqn:E1.
    + destruct (0 <=? len - 1) eqn:E2; [|reflexivity].
      destruct (nth_error codes (Z.to_nat (len - 1))) as [p|] eqn:E3.
      * apply stamped_ok; [assumption|]. rewrite Forall_forall in Hc. apply Hc. eapply nth_error_In; eauto.
      * apply nth_error_None in E3. subst len. lia.
    + destruct (0 <=? n) eqn:E2; [|reflexivity].
      destruct (nth_error codes (Z.to_nat n)) as [p|] eqn:E3.
      * apply stamped_ok; [assumption|]. rewrite Forall_forall in Hc. apply Hc. eapply nth_error_In; eauto.
      * apply nth_error_None in E3. subst len. lia.
  - apply forallb_forall. intros p Hp. rewrite Forall_forall in Hb.
    destruct (p =? 0); [reflexivity|]. apply stamped_ok; auto.
Qed.

Lemma run_no_escape : forall b, run_beh_ok b -> forall w, run_model b <> SEscape w.
Proof.
  intros [|s|] H w; cbn; try discriminate. cbn in H. rewrite bt_err_total by assumption. discriminate.
Qed.

(* ---- the loader returns at least the top package ----------------------------------------------- *)

Section LoadNonEmpty.
  Variable imports : string -> option (list string).

  Lemma discover_keeps : forall f todo d d', discover imports f todo d = Some d' -> packages d <> [] -> packages d' <> [].
  Proof.
    induction f as [|f IH]; intros todo d d' H Hn; cbn in H; [discriminate|].
    destruct todo as [|pkg rest]; [inversion H; subst; assumption|].
    destruct (mem pkg (map fst (packages d))).
    - eapply IH; eauto.
    - destruct (imports pkg); eapply IH; eauto; cbn; discriminate.
  Qed.

  Lemma discover_top : forall f top d', discover imports f [top] (mkDisc [] []) = Some d' -> packages d' <> [].
  Proof.
    intros [|f] top d' H; cbn in H; [discriminate|].
    destruct (imports top); eapply discover_keeps; eauto; cbn; discriminate.
  Qed.

  Lemma insert_sorted_nonempty : forall k l, insert_sorted k l <> [].
  Proof. intros k [|x r]; cbn; [discriminate|]. destruct (String.leb k x); discriminate. Qed.

  Lemma sort_keys_nonempty : forall l, l <> [] -> sort_keys l <> [].
  Proof. intros [|x r] H; [congruence|]. cbn. apply insert_sorted_nonempty. Qed.

  Lemma load_nonempty : forall b top l, load imports b top = LoadOk l -> l <> [].
  Proof.
    intros b top l H. unfold load in H.
    destruct (discover imports b [top] (mkDisc [] [])) as [d|] eqn:Ed; [|discriminate].
    apply discover_top in Ed.
    assert (Hk : sort_keys (map fst (packages d)) <> []).
    { apply sort_keys_nonempty. destruct (packages d); [congruence|discriminate]. }
    destruct (sort_keys (map fst (packages d))) as [|k ks] eqn:Ek; [congruence|].
    cbn [List.length order_loop] in H.
    destruct (first_ready (k :: ks) (deps d)) as [pkg|]; [|discriminate].
    destruct (order_loop _ _ _); [|discriminate]. inversion H. discriminate.
  Qed.
End LoadNonEmpty.

(* ---- the discovery worklist terminates on every finite import graph -------------------------------------
   U: a list that contains top and is closed under imports (the packages that can ever be on the worklist).
   Potential = |todo| + the import entries of the packages of U not yet visited; every iteration lowers it. *)
Section LoadTerm.
  Variable imports : string -> option (list string).
  Variable U : list string.
  Hypothesis U_closed : forall q l x, In q U -> imports q = Some l -> In x l -> In x U.

  Definition w (q : string) : nat := match imports q with Some l => List.length l | None => 0 end.
  Fixpoint uw (V : list string) (visited : list string) : nat :=
    match V with [] => 0 | q :: r => ((if mem q visited then 0 else w q) + uw r visited)%nat end.

  Lemma uw_nil : forall V, uw V [] = weight imports V.
  Proof. induction V as [|q r IH]; cbn; [reflexivity|]. rewrite IH. unfold w. destruct (imports q); reflexivity. Qed.

  Lemma uw_mono : forall V v x, (uw V (x :: v) <= uw V v)%nat.
  Proof. induction V as [|q r IH]; intros v x; cbn; [lia|]. specialize (IH v x). destruct (String.eqb q x); cbn; destruct (mem q v); lia. Qed.

  Lemma uw_visit : forall V v x, In x V -> mem x v = false -> (uw V (x :: v) + w x <= uw V v)%nat.
  Proof.
    induction V as [|q r IH]; intros v x Hin Hm; [destruct Hin|]. cbn [uw mem].
    destruct Hin as [->|Hin].
    - rewrite String.eqb_refl. cbn [orb]. rewrite Hm. pose proof (uw_mono r v x). lia.
    - specialize (IH v x Hin Hm). destruct (String.eqb q x) eqn:E; cbn [orb].
      + apply String.eqb_eq in E. subst q. rewrite Hm. pose proof (uw_mono r v x). lia.
      + destruct (mem q v); lia.
  Qed.

  Lemma discover_enough : forall fuel todo d, (forall x, In x todo -> In x U) ->
    (List.length todo + uw U (map fst (packages d)) < fuel)%nat -> discover imports fuel todo d <> None.
  Proof.
    induction fuel as [|fuel IH]; intros todo d Hsub Hlt; [lia|]. cbn [discover].
    destruct todo as [|pkg rest]; [discriminate|]. cbn [List.length] in Hlt.
    assert (Hrest : forall x, In x rest -> In x U) by (intros; apply Hsub; right; assumption).
    destruct (mem pkg (map fst (packages d))) eqn:Em.
    - apply IH; [assumption|lia].
    - destruct (imports pkg) as [imps|] eqn:Ei.
      + apply IH.
        * intros x Hx. apply in_app_or in Hx as [Hx|Hx]; [|auto].
          apply in_rev in Hx. eapply U_closed; eauto. apply Hsub. left; reflexivity.
        * cbn [packages map fst]. rewrite app_length, rev_length.
          pose proof (uw_visit U (map fst (packages d)) pkg (Hsub pkg (or_introl eq_refl)) Em) as Hv.
          unfold w in Hv. rewrite Ei in Hv. lia.
      + apply IH; [assumption|]. cbn [packages map fst].
        pose proof (uw_mono U (map fst (packages d)) pkg). lia.
  Qed.

  Theorem load_no_fuel : forall top fuel, In top U -> (S (S (weight imports U)) <= fuel)%nat ->
    load imports fuel top <> LoadFuel.
  Proof.
    intros top fuel Hin Hf. unfold load.
    destruct (discover imports fuel [top] (mkDisc [] [])) as [d|] eqn:Ed.
    - destruct (order_loop _ _ _); discriminate.
    - exfalso. revert Ed. apply discover_enough.
      + intros x [<-|[]]. assumption.
      + cbn [packages map List.length]. rewrite uw_nil. lia.
  Qed.
End LoadTerm.

Lemma split_last_some : forall A (l : list A), l <> [] -> exists a b, split_last l = Some (a, b) /\ In b l.
Proof.
  intros A l H. unfold split_last. destruct (rev l) as [|x r] eqn:E.
  - apply (f_equal (@rev A)) in E. rewrite rev_involutive in E. cbn in E. congruence.
  - exists (rev r), x. split; [reflexivity|]. apply in_rev. rewrite E. left; reflexivity.
Qed.

(* ---- tree dump ---------------------------------------------------------------------------------- *)

Lemma length_append : forall a b, String.length (a ++ b) = (String.length a + String.length b)%nat.
Proof. induction a as [|c a IH]; intros b; cbn; [reflexivity|]. rewrite IH. reflexivity. Qed.

(* a node with children renders as "(" text " " ... ")": at least 3 + |text| bytes, whatever the children are
   (nil children print "<nil>") *)
Lemma dump_node_ok : forall sy tx kids, kids <> [] -> (1 <= String.length tx)%nat -> dump_one_ok (TNode sy tx kids) = true.
Proof.
  intros sy tx kids Hk Ht. unfold dump_one_ok. destruct kids as [|k ks]; [congruence|].
  apply Nat.leb_le. cbn [tstr append String.length]. repeat (rewrite length_append; cbn [String.length]). lia.
Qed.

Lemma synthetic_ok : forall pkg, dump_one_ok (synthetic pkg) = true.
Proof. intros pkg. unfold synthetic. apply dump_node_ok; [discriminate|cbn; lia]. Qed.

Lemma fix_empty_ok : forall pkg t, raw_tree_ok t -> dump_one_ok (fix_empty pkg t) = true.
Proof.
  intros pkg t [H|Ht]; unfold fix_empty.
  - rewrite H. apply synthetic_ok.
  - destruct t as [|sy tx kids]; [apply synthetic_ok|]. cbn in Ht; subst tx. cbn [kids_of].
    destruct kids as [|k ks]; [apply synthetic_ok|]. apply dump_node_ok; [discriminate|cbn; lia].
Qed.

(* ---- loadImports never lets a panic escape (its deferred recover) ------------------------------------ *)

Section Contain.
  Variable unq : string -> bool.

  Lemma load_imports_contained : forall sys_is_nil topPkg top fb,
    (forall w, load_imports_model unq sys_is_nil topPkg top fb <> SEscape w) /\
    (raw_tree_ok top -> forall pkgs, load_imports_model unq sys_is_nil topPkg top fb = SOk pkgs ->
       pkgs <> [] /\ forallb dump_one_ok pkgs = true).
  Proof.
    intros nilfs topPkg top fb. unfold load_imports_model.
    destruct (top_imports unq (kids_of top)) as [paths|]; [|split; intros; discriminate].
    assert (Hfin : forall imports raw budget, (forall p, raw_tree_ok (raw p)) ->
      (forall w, match load imports budget topPkg with
                 | LoadOk order => SOk (map (fun p => fix_empty p (if String.eqb p topPkg then top else raw p)) order)
                 | LoadCycle => SErr | LoadFuel => SHang end <> SEscape w) /\
      (raw_tree_ok top -> forall pkgs, match load imports budget topPkg with
                 | LoadOk order => SOk (map (fun p => fix_empty p (if String.eqb p topPkg then top else raw p)) order)
                 | LoadCycle => SErr | LoadFuel => SHang end = SOk pkgs -> pkgs <> [] /\ forallb dump_one_ok pkgs = true)).
    { intros imports raw budget Hraw. destruct (load imports budget topPkg) as [order| |] eqn:El; split; intros; try discriminate.
      match goal with H : SOk _ = SOk _ |- _ => inversion H; subst end. split.
      - apply load_nonempty in El. destruct order; [congruence|discriminate].
      - apply forallb_forall. intros t Ht. apply in_map_iff in Ht as (q & <- & _). apply fix_empty_ok.
        destruct (String.eqb q topPkg); [assumption|apply Hraw]. }
    destruct (nilfs || match paths with [] => true | _ :: _ => false end).
    - apply Hfin. intros q. left. reflexivity.
    - destruct fb as [imports nodes budget| |]; try (split; intros; discriminate).
      apply Hfin. intros q. right. reflexivity.
  Qed.

  (* the loader, on its own: whatever the source imports, whatever the file system holds (or nil) *)
  Theorem load_imports_never_escapes : forall sys_is_nil topPkg top fb w,
    load_imports_model unq sys_is_nil topPkg top fb <> SEscape w.
  Proof. intros. apply load_imports_contained. Qed.

  (* ---- Eval ---------------------------------------------------------------------------------------- *)

  Definition is_escape (o : outcome) : Prop := exists w, o = Escape w.

  Lemma comp_dump_ok : forall dump b kc, comp_beh_ok dump b -> compile_model b = SOk kc ->
    code_dump_ok dump (fst kc) (snd kc) = true.
  Proof.
    intros dump [keys code|c] kc H Hc; cbn in Hc; [|discriminate]. inversion Hc; subst. cbn [fst snd].
    unfold code_dump_ok. destruct dump; [|reflexivity]. cbn in H. destruct (H eq_refl) as [Hk Hcode].
    apply forallb_forall. intros i Hi. rewrite Forall_forall in Hcode. destruct (Hcode i Hi) as [Hs Hkk].
    unfold dins_ok. rewrite (stamped_ok _ _ Hk Hs), Hkk. reflexivity.
  Qed.

  (* what is assumed about the stage bodies in an Eval: nothing about the loader, the parser or the trees *)
  Record eval_hyps (o : options) (a : eval_adv) : Prop := {
    eh_scan : ea_scan a <> ScanPanic;
    eh_rimp : run_beh_ok (ea_rimp a);
    eh_comp : comp_beh_ok (code_dump o) (ea_comp a);
    eh_run : run_beh_ok (ea_run a) }.

  Lemma eval_contained : forall n o a, eval_hyps o a -> ~ is_escape (eval_model unq n o a).
  Proof.
    intros n o a [Hs Hri Hc Hr] [w Hw]. unfold eval_model in Hw.
    destruct (tokenize_model (ea_scan a)) as [tokens| |w0|] eqn:Et; cbn [bind] in Hw; try discriminate.
    2:{ destruct (ea_scan a); cbn in Et; try discriminate. congruence. }
    destruct (parse_model tokens (ea_parse a)) as [tree| |w0|] eqn:Ep; cbn [bind] in Hw; try discriminate.
    2:{ exact (parse_after_tokenize _ _ _ Et _ Ep). }
    assert (Htree : raw_tree_ok tree).
    { destruct tokens; cbn in Ep; [discriminate|]. destruct (ea_parse a); [|discriminate]. inversion Ep. right. reflexivity. }
    destruct (load_imports_contained n "" tree (ea_files a)) as [Hne Hok].
    destruct (load_imports_model unq n "" tree (ea_files a)) as [pkgs| |w0|] eqn:El; cbn [bind] in Hw; try discriminate.
    2:{ exact (Hne _ eq_refl). }
    destruct (Hok Htree _ eq_refl) as [Hnn Hd].
    destruct (split_last_some _ _ Hnn) as (imps & top & Hsl & Hin). rewrite Hsl in Hw.
    destruct (compile_model (ea_cimp a)) as [kc0| |w0|] eqn:Eci; cbn [bind] in Hw; try discriminate.
    2:{ destruct (ea_cimp a); discriminate. }
    destruct (run_model (ea_rimp a)) as [u| |w0|] eqn:Eri; cbn [bind] in Hw; try discriminate.
    2:{ exact (run_no_escape _ Hri _ Eri). }
    assert (Htd : tree_dump_ok (tree_dump o) [top] = true).
    { unfold tree_dump_ok. destruct (tree_dump o); [|reflexivity]. cbn [forallb]. rewrite andb_true_r.
      rewrite forallb_forall in Hd. apply Hd; assumption. }
    rewrite Htd in Hw. cbn [negb] in Hw.
    destruct (compile_model (ea_comp a)) as [kc| |w0|] eqn:Ec; cbn [bind] in Hw; try discriminate.
    2:{ destruct (ea_comp a); discriminate. }
    rewrite (comp_dump_ok _ _ _ Hc Ec) in Hw. cbn [negb] in Hw.
    destruct (run_model (ea_run a)) as [u'| |w0|] eqn:Er; cbn [bind] in Hw; try discriminate.
    exact (run_no_escape _ Hr _ Er).
  Qed.

  (* ---- Load ------------------------------------------------------------------------------------------ *)

  Record load_hyps (o : options) (a : load_adv) : Prop := {
    lh_comp : comp_beh_ok (code_dump o) (la_comp a);
    lh_run : run_beh_ok (la_run a) }.

  Lemma load_contained : forall n p o a, load_hyps o a -> ~ is_escape (load_model unq n p o a).
  Proof.
    intros n p o a [Hc Hr] [w Hw]. unfold load_model in Hw.
    destruct (la_top a) as [nodes| |] eqn:Etop; try discriminate.
    cbv zeta in Hw. set (top := TNode "_" "_" nodes) in *.
    assert (Hraw : raw_tree_ok top) by (right; reflexivity).
    destruct (load_imports_contained n p top (la_files a)) as [Hne Hok].
    destruct (load_imports_model unq n p top (la_files a)) as [pkgs| |w0|] eqn:El; cbn [bind] in Hw; try discriminate.
    2:{ exact (Hne _ eq_refl). }
    destruct (Hok Hraw _ eq_refl) as [_ Hd].
    assert (Htd : tree_dump_ok (tree_dump o) pkgs = true) by (unfold tree_dump_ok; destruct (tree_dump o); auto).
    rewrite Htd in Hw. cbn [negb] in Hw.
    destruct (compile_model (la_comp a)) as [kc| |w0|] eqn:Ec; cbn [bind] in Hw; try discriminate.
    2:{ destruct (la_comp a); discriminate. }
    rewrite (comp_dump_ok _ _ _ Hc Ec) in Hw. cbn [negb] in Hw.
    destruct (run_model (la_run a)) as [u'| |w0|] eqn:Er; cbn [bind] in Hw; try discriminate.
    - destruct (la_rets a); discriminate.
    - exact (run_no_escape _ Hr _ Er).
  Qed.

  (* ---- Func / Call ------------------------------------------------------------------------------------- *)

  Lemma func_contained : forall x b, func_beh_ok b -> ~ is_escape (func_model x b).
  Proof.
    intros x [len keys|s|] H [w Hw]; cbn in Hw.
    - destruct ((0 <=? x) && (x <=? len)); [discriminate|].
      assert (E : bt_err_ok keys [0] 1 [] = true).
      { apply (bt_err_total (mkVmstate keys [0] 1 [])). split; [exact H|]. split; [|constructor].
        constructor; [left; reflexivity|constructor]. }
      rewrite E in Hw. discriminate.
    - cbn in H. rewrite bt_err_total in Hw by assumption. discriminate.
    - discriminate.
  Qed.

  (* ---- all entry points ----------------------------------------------------------------------------------- *)

  Definition entry_hyps (e : entry) : Prop :=
    match e with
    | EEval _ o a => eval_hyps o a
    | ELoad _ _ o a => load_hyps o a
    | ECall _ b | EFunc _ b => func_beh_ok b
    end.

  Theorem contain : forall e, entry_hyps e -> ~ is_escape (entry_model unq e).
  Proof.
    intros [n o a|n p o a|x b|x b] H; cbn [entry_model entry_hyps] in *.
    - apply eval_contained; assumption.
    - apply load_contained; assumption.
    - apply func_contained; assumption.
    - apply func_contained; assumption.
  Qed.

  Theorem contain_neq : forall e, entry_hyps e -> forall w, entry_model unq e <> Escape w.
  Proof. intros e H w E. apply (contain e H). exists w. exact E. Qed.

  Theorem func_contained_neq : forall x b, func_beh_ok b -> forall w, func_model x b <> Escape w.
  Proof. intros x b H w E. apply (func_contained x b H). exists w. exact E. Qed.

  (* ---- error prefixes ---------------------------------------------------------------------------------------- *)

  Definition eval_prefixes : list (string * stage) :=
    [("error in tokenize: ", STokenize); ("error in parse: ", SParse); ("error in loadImports: ", SLoad);
     ("error in compile (imports): ", SCompile); ("error in run (imports): ", SRun);
     ("error in compile: ", SCompile); ("error in run: ", SRun)].
  Definition load_prefixes : list (string * stage) :=
    [("error in load: ", SLoad); ("error in compile: ", SCompile); ("error in run: ", SRun)].

  Lemma bind_err : forall A (r : sres A) pfx st k p, bind r pfx st k = Err p ->
    (r = SErr /\ p = pfx) \/ exists a, r = SOk a /\ k a = Err p.
  Proof. intros A [a| |w|] pfx st k p H; cbn in H; try discriminate; [right; eauto|left; inversion H; auto]. Qed.

  Theorem eval_prefix : forall n o a p, eval_model unq n o a = Err p -> exists st, In (p, st) eval_prefixes.
  Proof.
    intros n o a p H. unfold eval_model in H.
    apply bind_err in H as [[_ ->]|(tokens & _ & H)]; [eexists; cbn; eauto|].
    apply bind_err in H as [[_ ->]|(tree & _ & H)]; [eexists; cbn; eauto|].
    apply bind_err in H as [[_ ->]|(pkgs & _ & H)]; [eexists; cbn; eauto|].
    destruct (split_last pkgs) as [[imps top]|]; [|discriminate].
    apply bind_err in H as [[_ ->]|(kc0 & _ & H)]; [eexists; cbn; eauto 6|].
    apply bind_err in H as [[_ ->]|(u & _ & H)]; [eexists; cbn; eauto 6|].
    destruct (negb (tree_dump_ok (tree_dump o) [top])); [discriminate|].
    apply bind_err in H as [[_ ->]|(kc & _ & H)]; [eexists; cbn; eauto 7|].
    destruct (negb (code_dump_ok (code_dump o) (fst kc) (snd kc))); [discriminate|].
    apply bind_err in H as [[_ ->]|(u' & _ & H)]; [eexists; cbn; eauto 8|discriminate].
  Qed.

  Theorem load_prefix : forall n pk o a p, load_model unq n pk o a = Err p -> exists st, In (p, st) load_prefixes.
  Proof.
    intros n pk o a p H. unfold load_model in H.
    destruct (la_top a) as [nodes| |]; [|inversion H; eexists; cbn; eauto|inversion H; eexists; cbn; eauto].
    cbv zeta in H.
    apply bind_err in H as [[_ ->]|(pkgs & _ & H)]; [eexists; cbn; eauto|].
    destruct (negb (tree_dump_ok (tree_dump o) pkgs)); [discriminate|].
    apply bind_err in H as [[_ ->]|(kc & _ & H)]; [eexists; cbn; eauto|].
    destruct (negb (code_dump_ok (code_dump o) (fst kc) (snd kc))); [discriminate|].
    apply bind_err in H as [[_ ->]|(u & _ & H)]; [eexists; cbn; eauto 6|].
    destruct (la_rets a); [discriminate|]. inversion H. eexists; cbn; eauto 6.
  Qed.

  (* ---- only the run stage (the script) and an unbounded import graph can hang ---------------------------- *)

  Lemma bind_hang : forall A (r : sres A) pfx st k s, bind r pfx st k = Hang s ->
    (r = SHang /\ s = st) \/ exists a, r = SOk a /\ k a = Hang s.
  Proof. intros A [a| |w|] pfx st k s H; cbn in H; try discriminate; [right; eauto|left; inversion H; auto]. Qed.

  (* the loader hangs only when the discovery worklist of Model/Loader.v runs out of the budget it was handed,
     while reading imported packages from a non-nil file system.  The budget is part of the adversary's
     files_beh: nothing here says it is large enough.  load_no_fuel gives the budget that suffices on a graph
     whose reachable part is finite. *)
  Lemma load_imports_hang : forall nilfs topPkg top fb, load_imports_model unq nilfs topPkg top fb = SHang ->
    exists p ps imports nodes budget, nilfs = false /\ top_imports unq (kids_of top) = Some (p :: ps) /\
      fb = FRet imports nodes budget /\
      load (fun q => if String.eqb q topPkg then Some (p :: ps) else imports q) budget topPkg = LoadFuel.
  Proof.
    intros nilfs topPkg top fb H. unfold load_imports_model in H.
    destruct (top_imports unq (kids_of top)) as [paths|]; [|discriminate].
    destruct (nilfs || match paths with [] => true | _ :: _ => false end) eqn:Eb.
    - exfalso.
      set (imps := fun q => if String.eqb q topPkg then Some paths else None) in *.
      assert (Hnf : load imps (S (S (weight imps (topPkg :: paths)))) topPkg <> LoadFuel).
      { apply (load_no_fuel imps (topPkg :: paths)); [|left; reflexivity|lia].
        intros q l x Hq Hl Hx. unfold imps in Hl. destruct (String.eqb q topPkg); [|discriminate].
        inversion Hl; subst. right. assumption. }
      destruct (load imps _ topPkg); try discriminate. congruence.
    - apply orb_false_iff in Eb as [-> Ep]. destruct paths as [|p ps]; [discriminate|].
      destruct fb as [imports nodes budget| |]; try discriminate.
      exists p, ps, imports, nodes, budget. repeat split; auto.
      destruct (load _ budget topPkg); try discriminate. reflexivity.
  Qed.

  Lemma run_hang : forall b, run_model b = SHang -> b = RHang.
  Proof. intros [|s|] H; cbn in H; try discriminate; [|reflexivity]. destruct (bt_err_ok _ _ _ _); discriminate. Qed.

  (* an entry point that does not return: either the run stage of THIS entry was handed a behaviour that does
     not return, or loadImports -- on the tokens, the tree and the file system of THIS entry -- ran out of
     its discovery budget.  (That one of the two stages is named follows from the types of the adversary alone:
     the scanner, parser and compiler behaviours have no "does not return" constructor.  The content is the
     link to the entry's own components.) *)
  Theorem hang_stage : forall e s, entry_model unq e = Hang s ->
    (s = SRun /\ match e with
                 | EEval _ _ a => ea_rimp a = RHang \/ ea_run a = RHang
                 | ELoad _ _ _ a => la_run a = RHang
                 | ECall _ b | EFunc _ b => b = FnHang
                 end) \/
    (s = SLoad /\ match e with
       | EEval n _ a => exists toks tree, tokenize_model (ea_scan a) = SOk toks /\ parse_model toks (ea_parse a) = SOk tree /\
                          load_imports_model unq n "" tree (ea_files a) = SHang
       | ELoad n p _ a => exists nodes, la_top a = TopRet nodes /\
                          load_imports_model unq n p (TNode "_" "_" nodes) (la_files a) = SHang
       | _ => False
       end).
  Proof.
    intros [n o a|n p o a|x b|x b] s H; cbn [entry_model] in H.
    - unfold eval_model in H.
      apply bind_hang in H as [[E _]|(tokens & Et & H)]; [destruct (ea_scan a); discriminate|].
      apply bind_hang in H as [[E _]|(tree & Ep & H)]; [destruct tokens; cbn in E; [discriminate|destruct (ea_parse a); discriminate]|].
      apply bind_hang in H as [[E ->]|(pkgs & _ & H)]; [right; split; [reflexivity|eauto]|].
      destruct (split_last pkgs) as [[imps top]|]; [|discriminate].
      apply bind_hang in H as [[E _]|(kc0 & _ & H)]; [destruct (ea_cimp a); discriminate|].
      apply bind_hang in H as [[E ->]|(u & _ & H)]; [left; split; [reflexivity|left; apply run_hang; exact E]|].
      destruct (negb (tree_dump_ok (tree_dump o) [top])); [discriminate|].
      apply bind_hang in H as [[E _]|(kc & _ & H)]; [destruct (ea_comp a); discriminate|].
      destruct (negb (code_dump_ok (code_dump o) (fst kc) (snd kc))); [discriminate|].
      apply bind_hang in H as [[E ->]|(u' & _ & H)]; [left; split; [reflexivity|right; apply run_hang; exact E]|discriminate].
    - unfold load_model in H. destruct (la_top a) as [nodes| |] eqn:Et; try discriminate.
      apply bind_hang in H as [[E ->]|(pkgs & _ & H)]; [right; split; [reflexivity|eauto]|].
      destruct (negb (tree_dump_ok (tree_dump o) pkgs)); [discriminate|].
      apply bind_hang in H as [[E _]|(kc & _ & H)]; [destruct (la_comp a); discriminate|].
      destruct (negb (code_dump_ok (code_dump o) (fst kc) (snd kc))); [discriminate|].
      apply bind_hang in H as [[E ->]|(u' & _ & H)]; [left; split; [reflexivity|apply run_hang; exact E]|].
      destruct (la_rets a); discriminate.
    - left. unfold call_model, func_model in H. destruct b as [len keys|st|]; cbn in H.
      + destruct ((0 <=? x) && (x <=? len))%Z; [discriminate|]. destruct (bt_err_ok _ _ _ _); discriminate.
      + destruct (bt_err_ok _ _ _ _); discriminate.
      + inversion H; split; reflexivity.
    - left. unfold func_model in H. destruct b as [len keys|st|]; cbn in H.
      + destruct ((0 <=? x) && (x <=? len))%Z; [discriminate|]. destruct (bt_err_ok _ _ _ _); discriminate.
      + destruct (bt_err_ok _ _ _ _); discriminate.
      + inversion H; split; reflexivity.
  Qed.
End Contain.

Theorem inv_tokens : forall sb l, tokenize_model sb = SOk l ->
  l <> [] /\ last l eof = eof /\ forall pb w, parse_model l pb <> SEscape w.
Proof.
  intros sb l H. destruct (tokenize_nonempty sb l H) as [H1 H2]. repeat split; auto.
  intros pb w. exact (parse_after_tokenize sb pb l H w).
Qed.

Theorem pos_roundtrip : forall fi fu line col : Z,
  pos_file (new_pos fi fu line col) = clamp16 fi /\ pos_func (new_pos fi fu line col) = clamp16 fu /\
  (0 <= fi < 65536 -> clamp16 fi = fi) /\ (0 <= fu < 65536 -> clamp16 fu = fu).
Proof.
  intros. split; [apply new_pos_file|]. split; [apply new_pos_func|].
  unfold clamp16. split; intros H; (destruct (_ <? 0) eqn:A; [lia|]; destruct (65535 <? _) eqn:B; lia).
Qed.

(* the hypotheses of the containment theorem are satisfiable (non-vacuity) *)
Lemma eval_hyps_witness :
  let keys := ["nil"; "true"; "false"; "#eval"; "#"] in
  eval_hyps (mkOpt true true false)
    (mkEvalAdv (ScanOk []) (PRet []) FErr (CRet keys []) (RPanic (mkVmstate keys [new_pos 3 4 70000 1] 5 [0; new_pos 3 4 2 2]))
               (CRet keys [mkDins (new_pos 3 4 1 1) [0]]) RRet).
Proof.
  assert (Hk : keys_ok ["nil"; "true"; "false"; "#eval"; "#"]).
  { split; [discriminate|]. repeat constructor; discriminate. }
  assert (Hs : forall l c, stamped ["nil"; "true"; "false"; "#eval"; "#"] (new_pos 3 4 l c)).
  { intros l c. right. exists 3, 4, l, c. cbn. repeat split; lia. }
  Opaque new_pos. split; cbn. Transparent new_pos.
  - discriminate.
  - split; [exact Hk|]. split.
    + constructor; [apply Hs|constructor].
    + constructor; [left; reflexivity|]. constructor; [apply Hs|constructor].
  - intros _. split; [exact Hk|]. constructor; [|constructor]. split; [apply Hs|reflexivity].
  - exact I.
Qed.
