(* Facts about the specification GoSpec/Utf8.v: decoding inverts encoding for
   every Unicode scalar value, decoding accepts only shortest-form encodings,
   range offsets advance by the decoded widths and cover the string. *)
From Coq Require Import ZArith List Bool Lia Sorted ZifyBool.
From GV Require Import GoSpec.GoPrim GoSpec.Utf8.
Import ListNotations.
Open Scope Z_scope.

Ltac Zify.zify_post_hook ::= Z.div_mod_to_equations.

Definition byte (b : Z) : Prop := 0 <= b <= 255.
Definition bytes (s : list Z) : Prop := Forall byte s.

Lemma valid_runeb_spec r : valid_runeb r = true <-> valid_rune r.
Proof. unfold valid_runeb, valid_rune, MaxRune. lia. Qed.

(* ---- encoding -------------------------------------------------------------- *)

Definition rune_len (r : Z) : nat :=
  if r <? 128 then 1%nat else if r <? 2048 then 2%nat else if r <? 65536 then 3%nat else 4%nat.

Lemma encode_invalid r : ~ valid_rune r -> utf8_encode r = [239; 191; 189].
Proof.
  unfold valid_rune, MaxRune, utf8_encode. intros H.
  replace ((r <? 0) || (1114111 <? r) || ((55296 <=? r) && (r <=? 57343))) with true by lia.
  reflexivity.
Qed.

Lemma encode_valid_cond r : valid_rune r ->
  ((r <? 0) || (1114111 <? r) || ((55296 <=? r) && (r <=? 57343))) = false.
Proof. unfold valid_rune, MaxRune. lia. Qed.

Lemma encode_length r : valid_rune r -> length (utf8_encode r) = rune_len r.
Proof.
  intros H. unfold utf8_encode, rune_len. rewrite (encode_valid_cond r H).
  destruct (r <? 128); [reflexivity|]. destruct (r <? 2048); [reflexivity|].
  destruct (r <? 65536); reflexivity.
Qed.

Lemma encode_bytes r : bytes (utf8_encode r).
Proof.
  unfold bytes, byte, utf8_encode.
  set (r' := if (r <? 0) || (1114111 <? r) || ((55296 <=? r) && (r <=? 57343)) then 65533 else r).
  assert (0 <= r' <= 1114111) by (subst r'; destruct ((r <? 0) || (1114111 <? r) || ((55296 <=? r) && (r <=? 57343))) eqn:E; lia).
  clearbody r'.
  destruct (r' <? 128) eqn:A; [repeat constructor; lia|].
  destruct (r' <? 2048) eqn:B; [repeat constructor; lia|].
  destruct (r' <? 65536) eqn:C; repeat constructor; lia.
Qed.

(* ---- decode after encode ------------------------------------------------- *)

Ltac split_ifs :=
  repeat match goal with
         | |- context [if ?a =? ?b then _ else _] => let E := fresh "E" in destruct (a =? b) eqn:E
         end;
  repeat match goal with
         | |- context [if ?c then _ else _] => let E := fresh "E" in destruct c eqn:E
         end.

(* utf8.DecodeRune(utf8.AppendRune(nil, r) ++ rest) = (r, RuneLen(r)) for every scalar value *)
Lemma decode_encode_app r rest : valid_rune r ->
  decode_rune (utf8_encode r ++ rest)%list = (r, length (utf8_encode r)).
Proof.
  intros H. pose proof (encode_valid_cond r H) as E0. destruct H as [[H0 H1] Hs]. unfold MaxRune in *.
  unfold utf8_encode. rewrite E0. clear E0.
  destruct (r <? 128) eqn:A.
  { cbn [app decode_rune length]. rewrite A. reflexivity. }
  destruct (r <? 2048) eqn:B.
  { cbn [app decode_rune length]. unfold cont, between, bad, RuneError.
    split_ifs; try (exfalso; lia); f_equal; lia. }
  destruct (r <? 65536) eqn:C.
  { cbn [app decode_rune length]. unfold cont, between, bad, RuneError.
    split_ifs; try (exfalso; lia); f_equal; lia. }
  cbn [app decode_rune length]. unfold cont, between, bad, RuneError.
  split_ifs; try (exfalso; lia); f_equal; lia.
Qed.

Lemma decode_encode r : valid_rune r -> decode_rune (utf8_encode r) = (r, length (utf8_encode r)).
Proof. intros H. rewrite <- (app_nil_r (utf8_encode r)) at 1. apply decode_encode_app, H. Qed.

(* ---- widths ------------------------------------------------------------------ *)

Lemma decode_width s : s <> [] -> (1 <= snd (decode_rune s) <= 4)%nat /\ (snd (decode_rune s) <= length s)%nat.
Proof.
  destruct s as [|b0 t]; [congruence|]. intros _.
  unfold decode_rune, bad.
  destruct t as [|b1 [|b2 [|b3 t]]]; split_ifs; cbn [snd length]; lia.
Qed.

Lemma decode_empty : decode_rune [] = (RuneError, 0%nat).
Proof. reflexivity. Qed.

(* an invalid result is exactly (U+FFFD, 1); any other result is the rune whose
   shortest-form encoding is the prefix that was consumed *)
Lemma decode_canonical s r w : bytes s -> s <> [] -> decode_rune s = (r, w) ->
  (r = RuneError /\ w = 1%nat) \/ (valid_rune r /\ firstn w s = utf8_encode r).
Proof.
  intros Hb Hne. destruct s as [|b0 t]; [congruence|]. clear Hne.
  assert (B0 : byte b0) by (inversion Hb; assumption).
  assert (Bt : bytes t) by (inversion Hb; assumption).
  unfold decode_rune, bad, cont, between, RuneError, byte in *.
  destruct (b0 <? 128) eqn:A0.
  { intros E; inversion E; subst. right. split; [unfold valid_rune, MaxRune; lia|].
    unfold utf8_encode. replace ((r <? 0) || (1114111 <? r) || ((55296 <=? r) && (r <=? 57343))) with false by lia.
    rewrite A0. reflexivity. }
  destruct (b0 <? 194) eqn:A1; [intros E; inversion E; auto|].
  destruct (b0 <? 224) eqn:A2.
  { destruct t as [|b1 t]; [intros E; inversion E; auto|].
    assert (byte b1) by (inversion Bt; assumption). unfold byte in *.
    destruct ((128 <=? b1) && (b1 <=? 191)) eqn:C1; [|intros E; inversion E; auto].
    intros E; inversion E; subst; clear E. right. split; [unfold valid_rune, MaxRune; lia|].
    unfold utf8_encode.
    replace (((b0 - 192) * 64 + (b1 - 128) <? 0) || (1114111 <? (b0 - 192) * 64 + (b1 - 128)) || ((55296 <=? (b0 - 192) * 64 + (b1 - 128)) && ((b0 - 192) * 64 + (b1 - 128) <=? 57343))) with false by lia.
    replace ((b0 - 192) * 64 + (b1 - 128) <? 128) with false by lia.
    replace ((b0 - 192) * 64 + (b1 - 128) <? 2048) with true by lia.
    cbn [firstn]. f_equal; [lia|]. f_equal. lia. }
  destruct (b0 <? 240) eqn:A3.
  { destruct t as [|b1 [|b2 t]]; try (intros E; inversion E; auto; fail).
    assert (byte b1) by (inversion Bt; assumption).
    assert (byte b2) by (inversion Bt as [|? ? ? Bt']; inversion Bt'; assumption). unfold byte in *.
    match goal with |- (if ?c then _ else _) = _ -> _ => destruct c eqn:C1 end; [|intros E; inversion E; auto].
    intros E; inversion E; subst; clear E. right.
    set (r := (b0 - 224) * 4096 + (b1 - 128) * 64 + (b2 - 128)).
    assert (R : 2048 <= r < 65536 /\ ~ (55296 <= r <= 57343) /\ 128 <= b1 <= 191 /\ 128 <= b2 <= 191).
    { subst r. destruct (b0 =? 224) eqn:X; destruct (b0 =? 237) eqn:Y; lia. }
    clear C1.
    split; [unfold valid_rune, MaxRune; lia|].
    unfold utf8_encode.
    replace ((r <? 0) || (1114111 <? r) || ((55296 <=? r) && (r <=? 57343))) with false by lia.
    replace (r <? 128) with false by lia. replace (r <? 2048) with false by lia. replace (r <? 65536) with true by lia.
    cbn [firstn]. assert (r = (b0 - 224) * 4096 + (b1 - 128) * 64 + (b2 - 128)) by reflexivity. clearbody r.
    f_equal; [lia|]. f_equal; [lia|]. f_equal. lia. }
  destruct (b0 <? 245) eqn:A4; [|intros E; inversion E; auto].
  destruct t as [|b1 [|b2 [|b3 t]]]; try (intros E; inversion E; auto; fail).
  assert (byte b1) by (inversion Bt; assumption).
  assert (byte b2) by (inversion Bt as [|? ? ? Bt']; inversion Bt'; assumption).
  assert (byte b3) by (inversion Bt as [|? ? ? Bt']; inversion Bt' as [|? ? ? Bt'']; inversion Bt''; assumption).
  unfold byte in *.
  match goal with |- (if ?c then _ else _) = _ -> _ => destruct c eqn:C1 end; [|intros E; inversion E; auto].
  intros E; inversion E; subst; clear E. right.
  set (r := (b0 - 240) * 262144 + (b1 - 128) * 4096 + (b2 - 128) * 64 + (b3 - 128)).
  assert (R : 65536 <= r <= 1114111 /\ 128 <= b1 <= 191 /\ 128 <= b2 <= 191 /\ 128 <= b3 <= 191).
  { subst r. destruct (b0 =? 240) eqn:X; destruct (b0 =? 244) eqn:Y; lia. }
  clear C1.
  split; [unfold valid_rune, MaxRune; lia|].
  unfold utf8_encode.
  replace ((r <? 0) || (1114111 <? r) || ((55296 <=? r) && (r <=? 57343))) with false by lia.
  replace (r <? 128) with false by lia. replace (r <? 2048) with false by lia. replace (r <? 65536) with false by lia.
  cbn [firstn]. assert (r = (b0 - 240) * 262144 + (b1 - 128) * 4096 + (b2 - 128) * 64 + (b3 - 128)) by reflexivity. clearbody r.
  f_equal; [lia|]. f_equal; [lia|]. f_equal; [lia|]. f_equal. lia.
Qed.

(* ---- range --------------------------------------------------------------------- *)

Lemma skipn_length_lt {A} (s : list A) w : s <> [] -> (1 <= w)%nat -> (length (skipn w s) < length s)%nat.
Proof. intros Hs Hw. rewrite skipn_length. destruct s; [congruence|]. cbn [length]. lia. Qed.

(* any fuel >= length gives the same answer *)
Lemma go_range_fuel fuel : forall off s, (length s <= fuel)%nat ->
  go_range_from fuel off s = go_range_from (length s) off s.
Proof.
  induction fuel as [fuel IH] using lt_wf_ind. intros off s Hf.
  destruct s as [|b t]. { destruct fuel; reflexivity. }
  destruct fuel as [|f]; [cbn in Hf; lia|].
  cbn [length]. cbn [go_range_from].
  destruct (decode_rune (b :: t)) as [r w] eqn:D.
  pose proof (decode_width (b :: t) ltac:(congruence)) as [W1 W2]. rewrite D in W1, W2. cbn [snd] in *.
  pose proof (skipn_length_lt (b :: t) w ltac:(congruence) ltac:(lia)) as L. cbn [length] in L, Hf.
  f_equal. rewrite (IH f) by lia. symmetry. apply IH; lia.
Qed.

(* unfolding equation *)
Lemma go_range_from_cons off b t :
  go_range_from (length (b :: t)) off (b :: t) =
  (off, fst (decode_rune (b :: t))) ::
    go_range_from (length (skipn (snd (decode_rune (b :: t))) (b :: t))) (off + Z.of_nat (snd (decode_rune (b :: t))))
                  (skipn (snd (decode_rune (b :: t))) (b :: t)).
Proof.
  cbn [length go_range_from]. destruct (decode_rune (b :: t)) as [r w] eqn:D. cbn [fst snd].
  f_equal. apply go_range_fuel.
  pose proof (decode_width (b :: t) ltac:(congruence)) as [W1 W2]. rewrite D in W1, W2. cbn [snd] in *.
  pose proof (skipn_length_lt (b :: t) w ltac:(congruence) ltac:(lia)) as L. cbn [length] in L. lia.
Qed.

Lemma go_widths_fuel fuel : forall s, (length s <= fuel)%nat ->
  go_widths_from fuel s = go_widths_from (length s) s.
Proof.
  induction fuel as [fuel IH] using lt_wf_ind. intros s Hf.
  destruct s as [|b t]. { destruct fuel; reflexivity. }
  destruct fuel as [|f]; [cbn in Hf; lia|].
  cbn [length]. cbn [go_widths_from].
  pose proof (decode_width (b :: t) ltac:(congruence)) as [W1 W2].
  pose proof (skipn_length_lt (b :: t) _ ltac:(congruence) (proj1 W1)) as L. cbn [length] in L, Hf.
  f_equal. rewrite (IH f) by lia. symmetry. apply IH; lia.
Qed.

(* the range of a suffix starting at offset [off]: all offsets lie in [off, off + length),
   strictly increasing; shifting the start offset shifts every offset *)
Lemma go_range_from_bounds n : forall off s, length s = n ->
  Forall (fun p => off <= fst p < off + Z.of_nat (length s)) (go_range_from (length s) off s) /\
  StronglySorted (fun p q => fst p < fst q) (go_range_from (length s) off s).
Proof.
  induction n as [n IH] using lt_wf_ind. intros off s Hn.
  destruct s as [|b t]. { cbn. split; constructor. }
  rewrite go_range_from_cons.
  pose proof (decode_width (b :: t) ltac:(congruence)) as [W1 W2].
  set (w := snd (decode_rune (b :: t))) in *.
  pose proof (skipn_length_lt (b :: t) w ltac:(congruence) ltac:(lia)) as L.
  assert (Ls : (length (skipn w (b :: t)) = length (b :: t) - w)%nat) by apply skipn_length.
  destruct (IH (length (skipn w (b :: t))) ltac:(lia) (off + Z.of_nat w) (skipn w (b :: t)) eq_refl) as [B S].
  split.
  - constructor. { cbn [fst]. lia. }
    eapply Forall_impl; [|exact B]. intros p Hp. cbn beta in *. lia.
  - constructor; [exact S|].
    eapply Forall_impl; [|exact B]. intros p Hp. cbn [fst] in *. lia.
Qed.

Lemma go_range_offsets_sorted s : StronglySorted Z.lt (map fst (go_range s)).
Proof.
  unfold go_range. pose proof (proj2 (go_range_from_bounds _ 0 s eq_refl)) as S.
  induction S as [|p l S IH F]; cbn [map]; constructor; [exact IH|].
  rewrite Forall_map. exact F.
Qed.

Lemma go_range_offsets_bounds s : Forall (fun p => 0 <= fst p < Z.of_nat (length s)) (go_range s).
Proof. exact (proj1 (go_range_from_bounds _ 0 s eq_refl)). Qed.

(* the widths are between 1 and 4 and add up to the length *)
Fixpoint sum_nat (l : list nat) : nat := match l with [] => 0%nat | x :: r => (x + sum_nat r)%nat end.

Lemma go_widths_sum s : sum_nat (go_widths s) = length s /\ Forall (fun w => 1 <= w <= 4)%nat (go_widths s).
Proof.
  unfold go_widths. remember (length s) as n eqn:Hn. revert s Hn.
  induction n as [n IH] using lt_wf_ind. intros s Hn. subst n.
  destruct s as [|b t]. { cbn. split; constructor. }
  cbn [length go_widths_from].
  pose proof (decode_width (b :: t) ltac:(congruence)) as [W1 W2].
  set (w := snd (decode_rune (b :: t))) in *.
  pose proof (skipn_length_lt (b :: t) w ltac:(congruence) ltac:(lia)) as L. cbn [length] in L, W2.
  assert (Ls : (length (skipn w (b :: t)) = length (b :: t) - w)%nat) by apply skipn_length. cbn [length] in Ls.
  rewrite go_widths_fuel by lia.
  destruct (IH (length (skipn w (b :: t))) ltac:(cbn [length]; lia) _ eq_refl) as [S F].
  split; [cbn [sum_nat]; rewrite S; lia | constructor; [lia | exact F]].
Qed.

(* the offsets are the running sums of the widths; each rune is the decoding of the
   suffix at its offset: a full characterisation of go_range by a chain relation *)
Inductive range_chain (s : list Z) : Z -> list (Z * Z) -> Prop :=
| chain_end : forall off, off = Z.of_nat (length s) -> range_chain s off []
| chain_step : forall off r w l, 0 <= off < Z.of_nat (length s) ->
    decode_rune (skipn (Z.to_nat off) s) = (r, w) ->
    range_chain s (off + Z.of_nat w) l -> range_chain s off ((off, r) :: l).

Lemma skipn_skipn {A} (a b : nat) (l : list A) : skipn a (skipn b l) = skipn (b + a) l.
Proof. revert l; induction b; intros l; [reflexivity|]. destruct l; [now rewrite !skipn_nil|]. cbn. apply IHb. Qed.

Lemma go_range_from_chain n : forall s k, (k <= length s)%nat -> length (skipn k s) = n ->
  range_chain s (Z.of_nat k) (go_range_from n (Z.of_nat k) (skipn k s)).
Proof.
  induction n as [n IH] using lt_wf_ind. intros s k Hk Hn.
  destruct (skipn k s) as [|b t] eqn:Sk.
  { cbn in Hn. subst n. cbn. constructor. pose proof (f_equal (@length Z) Sk) as X.
    rewrite skipn_length in X. cbn in X. lia. }
  subst n. rewrite go_range_from_cons.
  pose proof (decode_width (b :: t) ltac:(congruence)) as [W1 W2].
  set (w := snd (decode_rune (b :: t))) in *.
  pose proof (skipn_length_lt (b :: t) w ltac:(congruence) ltac:(lia)) as L.
  assert (Lk : length (b :: t) = (length s - k)%nat) by (rewrite <- Sk; apply skipn_length).
  eapply chain_step with (w := w).
  - lia.
  - rewrite Nat2Z.id, Sk. subst w. apply surjective_pairing.
  - replace (Z.of_nat k + Z.of_nat w) with (Z.of_nat (k + w)) by lia.
    assert (E : skipn w (b :: t) = skipn (k + w) s) by (rewrite <- Sk; apply skipn_skipn).
    rewrite E. apply IH.
    + rewrite <- E. lia.
    + lia.
    + reflexivity.
Qed.

Lemma go_range_chain s : range_chain s 0 (go_range s).
Proof. exact (go_range_from_chain (length s) s 0%nat ltac:(lia) eq_refl). Qed.

Lemma range_chain_unique s off l1 : range_chain s off l1 -> forall l2, range_chain s off l2 -> l1 = l2.
Proof.
  induction 1 as [off E|off r w l B D C IH]; intros l2 H2; inversion H2; subst; try lia; [reflexivity|].
  match goal with H : decode_rune _ = (?r', ?w') |- _ => rewrite D in H; inversion H; subst end.
  f_equal. apply IH. assumption.
Qed.

(* ---- a single encoded rune, and sequences of encoded runes ------------------------- *)

Lemma skipn_app_exact {A} (a b : list A) : skipn (length a) (a ++ b) = b.
Proof. induction a; [reflexivity|assumption]. Qed.

Lemma encode_nonempty r : utf8_encode r <> [].
Proof.
  unfold utf8_encode. split_ifs; congruence.
Qed.

Lemma go_range_from_encode_app r rest off : valid_rune r ->
  go_range_from (length (utf8_encode r ++ rest)) off (utf8_encode r ++ rest) =
  (off, r) :: go_range_from (length rest) (off + Z.of_nat (length (utf8_encode r))) rest.
Proof.
  intros H. destruct (utf8_encode r ++ rest)%list as [|b t] eqn:E.
  { destruct (utf8_encode r) eqn:E'; [exact (False_ind _ (encode_nonempty r E'))|discriminate]. }
  rewrite go_range_from_cons. rewrite <- E. rewrite (decode_encode_app r rest H). cbn [fst snd].
  rewrite skipn_app_exact. reflexivity.
Qed.

Lemma go_range_encode r : valid_rune r -> go_range (utf8_encode r) = [(0, r)].
Proof.
  intros H. unfold go_range. rewrite <- (app_nil_r (utf8_encode r)).
  rewrite (go_range_from_encode_app r [] 0 H). reflexivity.
Qed.

(* []rune(string(rs)) = rs for scalar values *)
Lemma go_runes_encode rs : Forall valid_rune rs -> go_runes (encode_runes rs) = rs.
Proof.
  unfold go_runes, go_range. generalize 0 as off. induction rs as [|r rs IH]; intros off H; [reflexivity|].
  inversion H; subst. cbn [encode_runes flat_map].
  rewrite (go_range_from_encode_app r _ off) by assumption. cbn [map snd]. f_equal. apply IH. assumption.
Qed.
