(* C12 (part 1): cyclic index arithmetic for the robin-hood table. *)
From Coq Require Import ZArith List Bool Lia PeanoNat.
From GV Require Import Model.IntMap.

(* cyclic distance from a forward to b *)
Definition cd (n a b : nat) : nat := (b + n - a) mod n.
(* the index j steps after h *)
Definition at_ (n h j : nat) : nat := (h + j) mod n.

Lemma mod_lt2 : forall n x, n <= x -> x < 2 * n -> x mod n = x - n.
Proof.
  intros n x H1 H2. symmetry. apply Nat.mod_unique with (q := 1); lia.
Qed.

Lemma mod_self_add : forall n x, 0 < n -> x < n -> (x + n) mod n = x.
Proof.
  intros n x Hn Hx. rewrite mod_lt2 by lia. lia.
Qed.

Lemma home_lt : forall n k, 0 < n -> home n k < n.
Proof.
  intros n k Hn. unfold home.
  assert (H : (0 <= k mod Z.of_nat n < Z.of_nat n)%Z) by (apply Z.mod_pos_bound; lia).
  lia.
Qed.

Lemma next_at1 : forall n i, next n i = at_ n i 1.
Proof. reflexivity. Qed.

Lemma next_lt : forall n i, 0 < n -> next n i < n.
Proof. intros n i Hn. unfold next. apply Nat.mod_upper_bound. lia. Qed.

Lemma next_cases : forall n i, i < n ->
  (i + 1 < n /\ next n i = i + 1) \/ (i + 1 = n /\ next n i = 0).
Proof.
  intros n i Hi. unfold next.
  destruct (Nat.eq_dec (i + 1) n) as [E|E].
  - right. split; [exact E|]. rewrite E. apply Nat.mod_same. lia.
  - left. split; [lia|]. apply Nat.mod_small. lia.
Qed.

Lemma next_inj : forall n a b, a < n -> b < n -> next n a = next n b -> a = b.
Proof.
  intros n a b Ha Hb E.
  destruct (next_cases n a Ha) as [[? Ea]|[? Ea]];
  destruct (next_cases n b Hb) as [[? Eb]|[? Eb]]; lia.
Qed.

Lemma next_neq : forall n a, 2 <= n -> a < n -> next n a <> a.
Proof.
  intros n a Hn Ha. destruct (next_cases n a Ha) as [[? Ea]|[? Ea]]; lia.
Qed.

Lemma at_lt : forall n h j, 0 < n -> at_ n h j < n.
Proof. intros n h j Hn. unfold at_. apply Nat.mod_upper_bound. lia. Qed.

Lemma next_at : forall n h j, 0 < n -> next n (at_ n h j) = at_ n h (S j).
Proof.
  intros n h j Hn. unfold next, at_.
  rewrite Nat.add_mod_idemp_l by lia. f_equal. lia.
Qed.

Lemma at_at : forall n h j t, 0 < n -> at_ n (at_ n h j) t = at_ n h (j + t).
Proof.
  intros n h j t Hn. unfold at_.
  rewrite Nat.add_mod_idemp_l by lia. f_equal. lia.
Qed.

Lemma at_0 : forall n h, h < n -> at_ n h 0 = h.
Proof. intros n h Hh. unfold at_. rewrite Nat.add_0_r. apply Nat.mod_small. exact Hh. Qed.

Lemma at_n : forall n h, h < n -> at_ n h n = h.
Proof. intros n h Hh. unfold at_. apply mod_self_add; lia. Qed.

Lemma cd_lt : forall n a b, 0 < n -> cd n a b < n.
Proof. intros n a b Hn. unfold cd. apply Nat.mod_upper_bound. lia. Qed.

Lemma at_cd : forall n h p, h < n -> p < n -> at_ n h (cd n h p) = p.
Proof.
  intros n h p Hh Hp. unfold at_, cd.
  destruct (le_lt_dec h p) as [L|L].
  - replace (p + n - h) with ((p - h) + n) by lia.
    rewrite mod_self_add by lia.
    replace (h + (p - h)) with p by lia. apply Nat.mod_small. exact Hp.
  - rewrite (Nat.mod_small (p + n - h)) by lia.
    replace (h + (p + n - h)) with (p + n) by lia.
    apply mod_self_add; lia.
Qed.

Lemma cd_at : forall n h j, h < n -> j < n -> cd n h (at_ n h j) = j.
Proof.
  intros n h j Hh Hj. unfold at_, cd.
  destruct (le_lt_dec n (h + j)) as [L|L].
  - rewrite (mod_lt2 n (h + j)) by lia.
    replace (h + j - n + n - h) with j by lia. apply Nat.mod_small. exact Hj.
  - rewrite (Nat.mod_small (h + j)) by lia.
    replace (h + j + n - h) with (j + n) by lia. apply mod_self_add; lia.
Qed.

Lemma cd_self : forall n a, a < n -> cd n a a = 0.
Proof.
  intros n a Ha. unfold cd. replace (a + n - a) with n by lia.
  apply Nat.mod_same. lia.
Qed.

Lemma cd_0_eq : forall n a b, a < n -> b < n -> cd n a b = 0 -> a = b.
Proof.
  intros n a b Ha Hb E.
  rewrite <- (at_cd n a b Ha Hb). rewrite E. symmetry. apply at_0. exact Ha.
Qed.

(* stepping the start forward shortens the distance *)
Lemma cd_next_l : forall n i e, i < n -> e < n -> i <> e ->
  cd n i e = S (cd n (next n i) e).
Proof.
  intros n i e Hi He Hne.
  assert (Hn : 0 < n) by lia.
  remember (cd n i e) as t eqn:Et.
  destruct t as [|t'].
  - exfalso. apply Hne. apply (cd_0_eq n); auto.
  - f_equal.
    assert (Hlt : S t' < n) by (rewrite Et; apply cd_lt; exact Hn).
    assert (E2 : e = at_ n (next n i) t').
    { rewrite next_at1, at_at by exact Hn. cbn [Nat.add].
      rewrite Et. symmetry. apply at_cd; auto. }
    rewrite E2 at 1. symmetry. apply cd_at; [apply next_lt; exact Hn | lia].
Qed.

(* stepping the end forward lengthens the distance, unless it wraps to 0 *)
Lemma cd_next_r : forall n h p, h < n -> p < n ->
  cd n h (next n p) <> 0 -> cd n h (next n p) = S (cd n h p).
Proof.
  intros n h p Hh Hp Hnz.
  assert (Hn : 0 < n) by lia.
  pose proof (cd_lt n h p Hn) as Hc.
  assert (E : next n p = at_ n h (S (cd n h p))).
  { rewrite <- next_at by exact Hn. rewrite at_cd by auto. reflexivity. }
  destruct (Nat.eq_dec (S (cd n h p)) n) as [En|En].
  - exfalso. apply Hnz. rewrite E, En, at_n by exact Hh. apply cd_self. exact Hh.
  - rewrite E. apply cd_at; [exact Hh | lia].
Qed.

Lemma cd_sym : forall n a b, a < n -> b < n -> a <> b -> cd n a b + cd n b a = n.
Proof.
  intros n a b Ha Hb Hne. unfold cd.
  destruct (le_lt_dec a b) as [L|L].
  - replace (b + n - a) with ((b - a) + n) by lia.
    rewrite mod_self_add by lia.
    rewrite (Nat.mod_small (a + n - b)) by lia. lia.
  - rewrite (Nat.mod_small (b + n - a)) by lia.
    replace (a + n - b) with ((a - b) + n) by lia.
    rewrite mod_self_add by lia. lia.
Qed.
