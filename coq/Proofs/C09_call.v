(* C09: calls deliver arguments and results in order and with their declared types.
   Theorems about [call_fn] of Model/VM.v (the transcription of vm.go call / callReady /
   mkFunc): parameter passing, parameter typing, variadic packing / spread, result
   delivery, argument- and result-count errors.  The operand stack of the model has
   its TOP at the HEAD: a caller that pushed [args] (first argument first) on top of
   [lo] holds [rev args ++ lo]. *)
From Coq Require Import ZArith String List Bool Lia.
From GV Require Import GoSpec.GoPrim Gen.ValueOps_gen Gen.Tables_gen Model.VM Proofs.C04_ops.
Import ListNotations.
Open Scope Z_scope.

(* ---- vocabulary ------------------------------------------------------------------ *)

(* v_i.assign(t_i), position by position (mkFunc's two loops) *)
Definition assign_zip (vs : list value) (ts : list Z) : list value :=
  map (fun p => Value_assign (fst p) (snd p)) (combine vs ts).

(* the callee's slots on entry: the typed parameters, then nil cells (mkFunc: append(stack, empty...)) *)
Definition entry_slots (args : list value) (types : list Z) (nslots nargs : Z) : list value :=
  (assign_zip args types ++ repeat nilV (Z.to_nat (nslots - nargs)))%list.

(* mkFunc's result loop: the TOP nrets of the values the body left are assigned the declared result types *)
Definition typed_results (nargs nrets : Z) (types : list Z) (results : list value) : list value :=
  let n := zlen results in
  (firstn (Z.to_nat (n - nrets)) results ++
   assign_zip (skipn (Z.to_nat (n - nrets)) results) (skipn (Z.to_nat nargs) types))%list.

(* what callReady + mkFunc make of the body's outcome; [lo] = the caller's operands below the arguments *)
Definition finish (nargs nrets xRets pos : Z) (types : list Z) (lo : list value) (r : result) : cres :=
  match r with
  | RDone _ rops s2 =>
      let results := rev rops in
      if zlen results <? nrets then CErr (RFail "missing return" pos (pop_bt s2))
      else if zlen results <? xRets then CErr (RFail "incorrect returns" pos (pop_bt s2))
      else COk (rev (firstn (Z.to_nat xRets) (typed_results nargs nrets types results)) ++ lo)%list (pop_bt s2)
  | r => CErr r
  end.

(* a function object as codeFunc builds it: one type per parameter and per result *)
Definition wf_func (nargs nrets : Z) (types : list Z) : Prop :=
  0 <= nargs /\ 0 <= nrets /\ zlen types = nargs + nrets.

(* ---- lists ------------------------------------------------------------------------- *)

Lemma zlen_app {A} (a b : list A) : zlen (a ++ b) = zlen a + zlen b.
Proof. unfold zlen. rewrite app_length. lia. Qed.
Lemma zlen_nonneg {A} (a : list A) : 0 <= zlen a.
Proof. unfold zlen. lia. Qed.
Lemma zlen_rev {A} (a : list A) : zlen (rev a) = zlen a.
Proof. unfold zlen. now rewrite rev_length. Qed.
Lemma zlen_map {A B} (f : A -> B) a : zlen (map f a) = zlen a.
Proof. unfold zlen. now rewrite map_length. Qed.
Lemma to_nat_zlen {A} (a : list A) : Z.to_nat (zlen a) = length a.
Proof. unfold zlen. lia. Qed.
Lemma zlen_firstn {A} n (l : list A) : 0 <= n <= zlen l -> zlen (firstn (Z.to_nat n) l) = n.
Proof. unfold zlen. intros. rewrite firstn_length. lia. Qed.
Lemma zlen_skipn {A} n (l : list A) : 0 <= n <= zlen l -> zlen (skipn (Z.to_nat n) l) = zlen l - n.
Proof. unfold zlen. intros. rewrite skipn_length. lia. Qed.

Lemma popn_app_gen (ys lo acc : list value) :
  popn (length ys) (ys ++ lo) acc = Some ((rev ys ++ acc)%list, lo).
Proof.
  revert acc. induction ys as [|y ys IH]; intros acc; cbn [length popn app rev]; [reflexivity|].
  rewrite IH. now rewrite <- app_assoc.
Qed.

(* popping the arguments pushed first-to-last gives them back first-to-last *)
Lemma popn_args (args lo : list value) :
  popn (length args) (rev args ++ lo) [] = Some (args, lo).
Proof.
  rewrite <- (rev_length args). rewrite popn_app_gen. now rewrite rev_involutive, app_nil_r.
Qed.

(* popn never looks below the cells it pops *)
Lemma popn_frame n (ops acc a rest lo : list value) :
  popn n ops acc = Some (a, rest) -> popn n (ops ++ lo) acc = Some (a, (rest ++ lo)%list).
Proof.
  revert ops acc. induction n as [|n IH]; intros ops acc; cbn [popn].
  - intros E. now inversion E.
  - destruct ops as [|x r]; [discriminate|]. cbn [app]. apply IH.
Qed.

Lemma popn_len n (ops acc a rest : list value) :
  popn n ops acc = Some (a, rest) -> (length a = n + length acc)%nat /\ (length ops = n + length rest)%nat.
Proof.
  revert ops acc. induction n as [|n IH]; intros ops acc; cbn [popn].
  - intros E. inversion E. subst. lia.
  - destruct ops as [|x r]; [discriminate|]. intros E. apply IH in E. cbn [length] in *. lia.
Qed.

Lemma zlen_assign_zip vs ts : zlen vs <= zlen ts -> zlen (assign_zip vs ts) = zlen vs.
Proof. unfold assign_zip, zlen. rewrite map_length, combine_length. lia. Qed.

Lemma nth_assign_zip vs ts i a t :
  nth_error vs i = Some a -> nth_error ts i = Some t ->
  nth_error (assign_zip vs ts) i = Some (Value_assign a t).
Proof.
  unfold assign_zip. revert ts i. induction vs as [|v vs IH]; intros ts i; destruct i; cbn; try discriminate.
  - destruct ts; cbn; [discriminate|]. intros E1 E2. inversion E1; inversion E2. reflexivity.
  - destruct ts; cbn; [discriminate|]. apply IH.
Qed.

(* ---- the heap only grows by allocation ------------------------------------------------ *)

Lemma hget_alloc s o a x : hget s a = Some x -> hget (fst (alloc s o)) a = Some x.
Proof.
  unfold hget, alloc, znth. cbn [fst heap]. destruct (a <? 0); [discriminate|].
  intros E. rewrite nth_error_app1; [assumption|]. apply nth_error_Some. congruence.
Qed.

Lemma hget_new_slice s e cells a x :
  hget s a = Some x -> hget (fst (new_slice s e cells)) a = Some x.
Proof.
  intros E. unfold new_slice.
  destruct (alloc s (HArr cells)) as [s1 arr] eqn:A1.
  destruct (alloc s1 (HSlice e arr 0 (zlen cells) (zlen cells))) as [s2 h] eqn:A2. cbn [fst].
  change s2 with (fst (s2, h)). rewrite <- A2. apply hget_alloc.
  change s1 with (fst (s1, arr)). rewrite <- A1. now apply hget_alloc.
Qed.

Lemma hget_variadic_arg s vtype n vargs a x :
  hget s a = Some x -> hget (fst (variadic_arg s vtype n vargs)) a = Some x.
Proof.
  intros E. unfold variadic_arg. destruct (n =? 0); [exact E|]. now apply hget_new_slice.
Qed.

(* ---- facts that do not involve the oracles ---------------------------------------------- *)

  (* the body left fewer values than the caller asks for: "incorrect returns" *)
  Lemma finish_few nargs nrets xRets pos types lo sl rops s2 :
    nrets <= zlen rops -> zlen rops < xRets ->
    finish nargs nrets xRets pos types lo (RDone sl rops s2) = CErr (RFail "incorrect returns" pos (pop_bt s2)).
  Proof.
    intros H1 H2. unfold finish. rewrite zlen_rev.
    destruct (zlen rops <? nrets) eqn:E1; [lia|]. destruct (zlen rops <? xRets) eqn:E2; [reflexivity|lia].
  Qed.

  Lemma zlen_typed_results nargs nrets types results :
    wf_func nargs nrets types -> nrets <= zlen results ->
    zlen (typed_results nargs nrets types results) = zlen results.
  Proof.
    intros (H0 & H1 & HT) Hn. unfold typed_results. rewrite zlen_app.
    pose proof (zlen_nonneg results).
    rewrite zlen_firstn by lia. rewrite zlen_assign_zip.
    - rewrite zlen_skipn by lia. lia.
    - rewrite !zlen_skipn by lia. lia.
  Qed.

  (* a success is never misaligned: exactly xRets values on top of the untouched [lo] *)
  Lemma finish_aligned nargs nrets xRets pos types lo r ops' s' :
    wf_func nargs nrets types -> 0 <= xRets ->
    finish nargs nrets xRets pos types lo r = COk ops' s' ->
    exists res, ops' = (res ++ lo)%list /\ zlen res = xRets.
  Proof.
    intros W Hx. unfold finish. destruct r; try discriminate.
    destruct (zlen (rev ops) <? nrets) eqn:E1; [discriminate|].
    destruct (zlen (rev ops) <? xRets) eqn:E2; [discriminate|].
    intros E. inversion E. eexists. split; [reflexivity|].
    rewrite zlen_rev. apply zlen_firstn. rewrite zlen_typed_results by (auto; lia). lia.
  Qed.

  (* the body left exactly the declared number of results: every one is assigned its declared type *)
  Lemma typed_results_exact nargs nrets types results :
    zlen results = nrets ->
    typed_results nargs nrets types results = assign_zip results (skipn (Z.to_nat nargs) types).
  Proof.
    intros H. unfold typed_results. rewrite H, Z.sub_diag. reflexivity.
  Qed.

  (* slot i of the callee holds argument i assigned to declared type i ... *)
  Lemma entry_slot args types nslots nargs i a t :
    nth_error args i = Some a -> nth_error types i = Some t ->
    nth_error (entry_slots args types nslots nargs) i = Some (Value_assign a t).
  Proof.
    intros Ha Ht. unfold entry_slots. rewrite nth_error_app1.
    - now apply nth_assign_zip.
    - apply nth_error_Some. erewrite nth_assign_zip by eassumption. discriminate.
  Qed.

  (* ... and the slots after the parameters are nil *)
  Lemma entry_slot_local args types nslots nargs i :
    zlen args = nargs -> nargs <= zlen types -> nargs <= i < nslots ->
    nth_error (entry_slots args types nslots nargs) (Z.to_nat i) = Some nilV.
  Proof.
    intros Ha Ht Hi. unfold entry_slots.
    assert (L : length (assign_zip args types) = Z.to_nat nargs).
    { pose proof (zlen_assign_zip args types ltac:(lia)) as Z. unfold zlen in *. lia. }
    rewrite nth_error_app2 by lia. rewrite L.
    apply nth_error_repeat. lia.
  Qed.

  (* what assign does to the three kinds of argument (C04) *)
  Lemma assign_cases a t :
    (forall ty c, a = Untyped c -> t = tag_of ty -> typed ty = true -> in_range ty c = true ->
       Value_assign a t = V ty c) /\
    (forall c, a = Untyped c -> t = TypeFloat64 -> Value_assign a t = F (float_of_Z c)) /\
    (a = nilV -> nillableMin <= t -> Value_assign a t = mkValue t (Zn 0) PNone) /\
    (vt a <> untypedInt -> vt a <> TypeNil -> Value_assign a t = a).
  Proof.
    repeat split.
    - intros ty c -> -> Ht Hc. now apply assign_untyped.
    - intros c -> ->. apply assign_untyped_float.
    - intros -> Ht. unfold nilV. change 0 with TypeNil at 1. rewrite assign_nil.
      destruct (nillableMin <=? t) eqn:E; [|lia]. now rewrite orb_true_r.
    - apply assign_keeps.
  Qed.

Section C09.
  Variable grow : Z -> Z -> Z.
  Variable ext_get : st -> value -> value -> option (res value).
  Variable ext_set : st -> value -> value -> value -> option (res st).
  Variable ext_len : st -> value -> option Z.
  Variable ext_getattr : st -> value -> Z -> option (res (value * st)).
  Variable ext_setattr : st -> value -> Z -> value -> option (res st).

  Notation execf := (exec grow ext_get ext_set ext_len ext_getattr ext_setattr).
  Notation callf := (call_fn grow ext_get ext_set ext_len ext_getattr ext_setattr).


  (* one unfolding of the fixpoint (the text of Model/VM.v call_fn; checked by reflexivity) *)
  Lemma call_fn_S fuel pack fa xArgs xRets pos ops s :
    callf (S fuel) pack fa xArgs xRets pos ops s =
      match hget s fa with
      | Some (HNative name) =>
          if (String.eqb name "builtin.println") || (String.eqb name "builtin.print") ||
             (String.eqb name "fmt.Println") || (String.eqb name "fmt.Print") then
            if negb pack then CErr (RUnmod "native with spread") else
            match popn (Z.to_nat xArgs) ops [] with
            | Some (args, rest) =>
                match all_some (map to_string args) with
                | Some strs =>
                    let line := if (String.eqb name "builtin.println") || (String.eqb name "fmt.Println")
                                then (join_sp strs ++ [10])%list else join_sp strs in
                    if 0 <? xRets then CErr (RFail "incorrect returns" pos s) else COk rest (emit s line)
                | None => CErr (RUnmod "printing of this value kind")
                end
            | None => CErr (RStuck "native arguments")
            end
          else CErr (RUnmod "native function")
      | Some (HFunc nargs nrets variadic vtype nslots types body) =>
          let packed :=
            if variadic && pack then
              let nVar := xArgs - nargs + 1 in
              if nVar <? 0 then inr (RFail "runtime error" pos s) else
              match popn (Z.to_nat nVar) ops [] with
              | Some (vargs, rest) =>
                  let (s1, sv) := variadic_arg s vtype nVar vargs in
                  inl (sv :: rest, xArgs - nVar + 1, s1)
              | None => inr (RStuck "variadic arguments")
              end
            else inl (ops, xArgs, s) in
          match packed with
          | inr r => CErr r
          | inl (ops1, xArgs1, s1) =>
              if negb (xArgs1 =? nargs) then CErr (RFail "incorrect args" pos s1) else
              match popn (Z.to_nat nargs) ops1 [] with
              | None => CErr (RStuck "arguments")
              | Some (args, rest) =>
                  let typed := map (fun p => Value_assign (fst p) (snd p)) (combine args types) in
                  let slots := (typed ++ repeat nilV (Z.to_nat (nslots - nargs)))%list in
                  match execf fuel body 0 slots [] (push_bt s1 pos) with
                  | RDone _ rops s2 =>
                      let results := rev rops in
                      let n := zlen results in
                      if n <? nrets then CErr (RFail "missing return" pos (pop_bt s2)) else
                      let rtypes := skipn (Z.to_nat nargs) types in
                      let keep := firstn (Z.to_nat (n - nrets)) results in
                      let top := skipn (Z.to_nat (n - nrets)) results in
                      let results' := (keep ++ map (fun p => Value_assign (fst p) (snd p)) (combine top rtypes))%list in
                      if n <? xRets then CErr (RFail "incorrect returns" pos (pop_bt s2))
                      else COk (rev (firstn (Z.to_nat xRets) results') ++ rest)%list (pop_bt s2)
                  | r => CErr r
                  end
              end
          end
      | Some _ => CErr (RFail "interface conversion" pos s)
      | None => CErr (RFail "interface conversion" pos s)
      end.
  Proof. reflexivity. Qed.

  (* ---- 1. positional delivery (callReady + mkFunc) ------------------------------------ *)

  (* A call with the declared number of arguments (CALL of a non-variadic function, or
     CALLVARIADIC = callReady of any function) runs the body on a frame whose first slots
     are the arguments assigned to the declared parameter types, in order, the remaining
     slots nil, and an EMPTY operand stack: the callee cannot reach [lo].  The outcome is
     [finish]: the first xRets results, typed, on top of the untouched [lo]. *)
  Lemma call_exact fuel pack fa xRets pos args lo s nargs nrets variadic vtype nslots types body :
    hget s fa = Some (HFunc nargs nrets variadic vtype nslots types body) ->
    variadic && pack = false ->
    zlen args = nargs ->
    callf (S fuel) pack fa nargs xRets pos (rev args ++ lo)%list s =
      finish nargs nrets xRets pos types lo
        (execf fuel body 0 (entry_slots args types nslots nargs) [] (push_bt s pos)).
  Proof.
    intros H HV HA. rewrite call_fn_S. rewrite H. cbv zeta. rewrite HV. rewrite Z.eqb_refl. cbn [negb].
    assert (L : Z.to_nat nargs = List.length args) by (unfold zlen in HA; lia).
    rewrite L, popn_args, <- L.
    unfold finish, entry_slots, typed_results, assign_zip.
    destruct (execf fuel body 0 _ [] (push_bt s pos)); reflexivity.
  Qed.

  (* a different argument count: "incorrect args"; the body is not run, whatever the stack holds *)
  Lemma call_wrong_args fuel pack fa xArgs xRets pos ops s nargs nrets variadic vtype nslots types body :
    hget s fa = Some (HFunc nargs nrets variadic vtype nslots types body) ->
    variadic && pack = false ->
    xArgs <> nargs ->
    callf (S fuel) pack fa xArgs xRets pos ops s = CErr (RFail "incorrect args" pos s).
  Proof.
    intros H HV HA. rewrite call_fn_S. rewrite H. cbv zeta. rewrite HV.
    destruct (xArgs =? nargs) eqn:E; [lia|]. reflexivity.
  Qed.





  Lemma call_aligned fuel pack fa xRets pos args lo s nargs nrets variadic vtype nslots types body ops' s' :
    hget s fa = Some (HFunc nargs nrets variadic vtype nslots types body) ->
    variadic && pack = false -> zlen args = nargs -> wf_func nargs nrets types -> 0 <= xRets ->
    callf (S fuel) pack fa nargs xRets pos (rev args ++ lo)%list s = COk ops' s' ->
    exists res, ops' = (res ++ lo)%list /\ zlen res = xRets.
  Proof.
    intros H HV HA W Hx E. rewrite (call_exact _ _ _ _ _ _ _ _ _ _ _ _ _ _ _ H HV HA) in E.
    eapply finish_aligned; eauto.
  Qed.

  (* ---- 3. variadic functions ------------------------------------------------------------------ *)

  (* CALL of a variadic function, general form: the call proceeds as a call with exactly nargs
     arguments whose last one is the value [variadic_arg] builds from the surplus arguments *)
  Lemma call_variadic_gen fuel fa xRets pos fixed extra lo s nargs nrets vtype nslots types body :
    hget s fa = Some (HFunc nargs nrets true vtype nslots types body) ->
    zlen fixed = nargs - 1 ->
    let p := variadic_arg s vtype (zlen extra) extra in
    callf (S fuel) true fa (zlen fixed + zlen extra) xRets pos (rev extra ++ rev fixed ++ lo)%list s =
      callf (S fuel) false fa nargs xRets pos (rev (fixed ++ [snd p]) ++ lo)%list (fst p).
  Proof.
    intros H HF p.
    assert (Hh : hget (fst p) fa = Some (HFunc nargs nrets true vtype nslots types body))
      by (apply hget_variadic_arg; exact H).
    rewrite !call_fn_S. rewrite H, Hh. cbv zeta. cbn [andb].
    replace (zlen fixed + zlen extra - nargs + 1) with (zlen extra) by lia.
    pose proof (zlen_nonneg extra). destruct (zlen extra <? 0) eqn:E; [lia|].
    rewrite to_nat_zlen, <- (rev_length extra), popn_app_gen, rev_involutive, app_nil_r.
    fold p. rewrite (surjective_pairing p).
    replace (zlen fixed + zlen extra - zlen extra + 1) with nargs by lia.
    rewrite rev_app_distr. cbn [rev app]. reflexivity.
  Qed.

  (* CALL of a variadic function WITH surplus arguments: they become ONE new slice (appended to the
     heap) of the declared element type, its cells the surplus arguments assigned to that type, in
     order; then the call proceeds as a call with exactly nargs arguments whose last one is that slice *)
  Lemma call_variadic_pack fuel fa xRets pos fixed extra lo s nargs nrets vtype nslots types body :
    hget s fa = Some (HFunc nargs nrets true vtype nslots types body) ->
    zlen fixed = nargs - 1 ->
    1 <= zlen extra ->
    let e := Type_value vtype in
    let cells := map (fun a => Value_assign a e) extra in
    let s1 := fst (new_slice s e cells) in
    let sv := snd (new_slice s e cells) in
    callf (S fuel) true fa (zlen fixed + zlen extra) xRets pos (rev extra ++ rev fixed ++ lo)%list s =
      callf (S fuel) false fa nargs xRets pos (rev (fixed ++ [sv]) ++ lo)%list s1 /\
    sv = refV (fn_sliceType e) (zlen (heap s) + 1) /\
    heap s1 = (heap s ++ [HArr cells; HSlice e (zlen (heap s)) 0 (zlen extra) (zlen extra)])%list.
  Proof.
    intros H HF HE e cells s1 sv.
    split; [|split].
    - pose proof (call_variadic_gen fuel fa xRets pos fixed extra lo s nargs nrets vtype nslots types body H HF) as G.
      cbv zeta in G. unfold variadic_arg in G.
      destruct (zlen extra =? 0) eqn:E0; [lia|]. exact G.
    - unfold sv, new_slice, alloc. cbn [snd heap]. rewrite zlen_app. reflexivity.
    - unfold s1, new_slice, alloc. cbn [fst heap]. rewrite <- app_assoc. cbn [app].
      unfold cells. rewrite zlen_map. reflexivity.
  Qed.

  (* CALL of a variadic function WITHOUT surplus arguments: the variadic parameter is the NIL slice of
     the declared variadic type (no object part), nothing is allocated: the call is the exact-count
     call on the SAME state with that nil value as last argument *)
  Lemma call_variadic_none fuel fa xRets pos fixed lo s nargs nrets vtype nslots types body :
    hget s fa = Some (HFunc nargs nrets true vtype nslots types body) ->
    zlen fixed = nargs - 1 ->
    callf (S fuel) true fa (zlen fixed) xRets pos (rev fixed ++ lo)%list s =
      callf (S fuel) false fa nargs xRets pos (rev (fixed ++ [mkValue vtype (Zn 0) PNone]) ++ lo)%list s.
  Proof.
    intros H HF.
    pose proof (call_variadic_gen fuel fa xRets pos fixed [] lo s nargs nrets vtype nslots types body H HF) as G.
    cbv zeta in G. change (zlen (@nil value)) with 0 in G. rewrite Z.add_0_r in G. exact G.
  Qed.

  (* fewer arguments than the fixed parameters: an error (Go: makeslice: len out of range) *)
  Lemma call_variadic_few fuel fa xArgs xRets pos ops s nargs nrets vtype nslots types body :
    hget s fa = Some (HFunc nargs nrets true vtype nslots types body) ->
    xArgs < nargs - 1 ->
    callf (S fuel) true fa xArgs xRets pos ops s = CErr (RFail "runtime error" pos s).
  Proof.
    intros H HX. rewrite call_fn_S. rewrite H. cbv zeta. cbn [andb].
    destruct (xArgs - nargs + 1 <? 0) eqn:E; [reflexivity|lia].
  Qed.

  (* CALLVARIADIC f(a, s...): the spread slice value itself (same heap address, heap untouched at
     entry) is the callee's last parameter *)
  Lemma call_spread fuel fa xRets pos fixed sv lo s nargs nrets vtype nslots types body :
    hget s fa = Some (HFunc nargs nrets true vtype nslots types body) ->
    zlen fixed = nargs - 1 -> zlen types >= nargs ->
    vt sv <> untypedInt -> vt sv <> TypeNil ->
    callf (S fuel) false fa nargs xRets pos (rev (fixed ++ [sv]) ++ lo)%list s =
      finish nargs nrets xRets pos types lo
        (execf fuel body 0 (entry_slots (fixed ++ [sv]) types nslots nargs) [] (push_bt s pos)) /\
    nth_error (entry_slots (fixed ++ [sv]) types nslots nargs) (Z.to_nat (nargs - 1)) = Some sv /\
    heap (push_bt s pos) = heap s.
  Proof.
    intros H HF HT H1 H2. split; [|split].
    - apply call_exact with (variadic := true) (vtype := vtype); auto.
      rewrite zlen_app. unfold zlen at 2. cbn [length]. lia.
    - assert (L : Z.to_nat (nargs - 1) = length fixed) by (unfold zlen in HF; lia).
      destruct (nth_error types (Z.to_nat (nargs - 1))) as [t|] eqn:E.
      + rewrite (entry_slot _ _ _ _ _ sv t); [now rewrite assign_keeps| |exact E].
        rewrite L, nth_error_app2, Nat.sub_diag by lia. reflexivity.
      + apply nth_error_None in E. unfold zlen in *. lia.
    - reflexivity.
  Qed.

  (* ---- 4. codeFunc builds well-formed function objects ------------------------------------------ *)

  Lemma func_wf codes pc i slots ops s sl' ops' s' d :
    icode i = c_Func -> 0 <= snd (splitParams (iA i)) -> 0 <= iC i ->
    step1 grow ext_get ext_set ext_len ext_getattr ext_setattr codes pc i slots ops s = SJump d sl' ops' s' ->
    exists nargs nrets variadic vtype nslots types body,
      ops' = refV TypeFunc (zlen (heap s)) :: ops /\
      heap s' = (heap s ++ [HFunc nargs nrets variadic vtype nslots types body])%list /\
      wf_func nargs nrets types /\ (variadic = true -> 1 <= nargs).
  Proof.
    intros HC HR HJ. unfold step1. rewrite HC.
    change (c_Func =? c_Pass) with false. cbv beta iota zeta.
    change ((c_Func =? c_Push) || (c_Func =? c_GlobalRef)) with false.
    change (c_Func =? c_Pop) with false. cbv iota.
    change (bin_of c_Func) with (@None (value -> value -> res value)).
    change (local_bin_of c_Func) with (@None (value -> value -> res value)). cbv iota.
    repeat match goal with |- context [c_Func =? ?k] =>
      let b := eval vm_compute in (c_Func =? k) in change (c_Func =? k) with b; cbv iota end.
    destruct (splitParams (iA i)) as [args rets] eqn:SP. cbn [snd] in HR.
    set (nargs := Z.abs args). set (n := nargs + rets + iC i).
    set (tokens := firstn (Z.to_nat n) (skipn (Z.to_nat (pc + 1)) codes)).
    destruct (zlen tokens <? n) eqn:EL; [discriminate|].
    unfold alloc. intros E. inversion E. subst.
    do 7 eexists. split; [reflexivity|]. split; [reflexivity|]. split.
    - unfold wf_func. split; [lia|]. split; [lia|].
      rewrite zlen_map. apply zlen_firstn. lia.
    - intros HV. lia.
  Qed.
End C09.
