(* C03: termination facts about the front end that are not already stated by other packages.
   1. the Pratt expression loop (Model/Pratt.v) never runs out of the budget |tokens|+1, for ANY token
      list (C05 shows this only for the lists it accepts) and ANY binding-power table;
   2. its recursion depth is bounded by the number of tokens (and grows linearly with the nesting);
   3. the peephole pass (Model/Peephole.v) is insensitive to extra fuel: S (length code) suffices. *)
From Coq Require Import ZArith List String Bool Lia PeanoNat.
From GV Require Import GoSpec.GoPrec Model.Pratt Model.PeepTypes Model.VM Model.Peephole.
Import ListNotations.
Open Scope string_scope.
Open Scope Z_scope.

Section PrattTotal.
  Variable lbp : string -> Z.
  Variable infix : string -> bool.
  Variables neg_rbp compl_rbp not_rbp paren_rbp : Z.

  Let expr := Pratt.expr lbp infix neg_rbp compl_rbp not_rbp paren_rbp.
  Let led_loop := Pratt.led_loop lbp infix neg_rbp compl_rbp not_rbp paren_rbp.

  Notation len := (@List.length tok).

  Definition nud (fuel : nat) (ts : list tok) : (tree * list tok) + perr :=
    match ts with
    | [] => inr PErrSyntax
    | TAtom i s :: rest => inl (Atom i s, rest)
    | TSym s :: rest =>
        if String.eqb s "(" then
          match expr fuel paren_rbp rest with
          | inl (e, TSym c :: rest') => if String.eqb c ")" then inl (Paren e, rest') else inr PErrSyntax
          | inl _ => inr PErrSyntax
          | inr e => inr e
          end
        else if String.eqb s "-" then
          match expr fuel neg_rbp rest with inl (e, r) => inl (Un UNeg e, r) | inr e => inr e end
        else if String.eqb s "^" then
          match expr fuel compl_rbp rest with inl (e, r) => inl (Un UCompl e, r) | inr e => inr e end
        else if String.eqb s "!" then
          match expr fuel not_rbp rest with inl (e, r) => inl (Un UNot e, r) | inr e => inr e end
        else inr PErrSyntax
    end.

  Lemma expr_S : forall fuel rbp ts,
    expr (S fuel) rbp ts =
    match nud fuel ts with
    | inr e => inr e
    | inl (lft, rest) => led_loop fuel rbp lft rest
    end.
  Proof. reflexivity. Qed.

  Lemma led_O : forall rbp lft ts,
    led_loop O rbp lft ts = if rbp <? cur_lbp lbp ts then inr PErrFuel else inl (lft, ts).
  Proof. reflexivity. Qed.

  Lemma led_S : forall fuel rbp lft ts,
    led_loop (S fuel) rbp lft ts =
    match ts with
    | TSym s :: rest =>
        if rbp <? lbp s then
          if infix s then
            match expr fuel (lbp s) rest with
            | inl (rgt, rest') => led_loop fuel rbp (Bin s lft rgt) rest'
            | inr e => inr e
            end
          else inr PErrSyntax
        else inl (lft, ts)
    | _ => inl (lft, ts)
    end.
  Proof. reflexivity. Qed.


  Lemma nud_shrink_gen : forall fuel,
    (forall rbp ts t rest, expr fuel rbp ts = inl (t, rest) -> (len rest < len ts)%nat) ->
    forall ts t rest, nud fuel ts = inl (t, rest) -> (len rest < len ts)%nat.
  Proof.
    intros fuel IHe ts t rest H. destruct ts as [|[i s|s] r]; cbn in H; [discriminate|inversion H; subst; cbn; lia|].
    destruct (String.eqb s "(").
    { destruct (expr fuel paren_rbp r) as [[e [|[i c|c] r']]|] eqn:E; try discriminate.
      destruct (String.eqb c ")"); [|discriminate]. inversion H; subst. apply IHe in E. cbn in *. lia. }
    destruct (String.eqb s "-").
    { destruct (expr fuel neg_rbp r) as [[e r']|] eqn:E; [|discriminate]. inversion H; subst. apply IHe in E. cbn. lia. }
    destruct (String.eqb s "^").
    { destruct (expr fuel compl_rbp r) as [[e r']|] eqn:E; [|discriminate]. inversion H; subst. apply IHe in E. cbn. lia. }
    destruct (String.eqb s "!").
    { destruct (expr fuel not_rbp r) as [[e r']|] eqn:E; [|discriminate]. inversion H; subst. apply IHe in E. cbn. lia. }
    discriminate.
  Qed.

  (* every successful call consumes at least one token; the led loop never gives tokens back *)
  Lemma shrink : forall fuel,
    (forall rbp ts t rest, expr fuel rbp ts = inl (t, rest) -> (len rest < len ts)%nat) /\
    (forall rbp lft ts t rest, led_loop fuel rbp lft ts = inl (t, rest) -> (len rest <= len ts)%nat).
  Proof.
    induction fuel as [|fuel [IHe IHl]].
    - split; [intros; discriminate|]. intros rbp lft ts t rest H. rewrite led_O in H.
      destruct (rbp <? cur_lbp lbp ts); [discriminate|]. inversion H; subst. lia.
    - pose proof (nud_shrink_gen fuel IHe) as Hnud.
      split.
      + intros rbp ts t rest H. rewrite expr_S in H.
        destruct (nud fuel ts) as [[lft r]|] eqn:En; [|discriminate].
        apply Hnud in En. apply IHl in H. lia.
      + intros rbp lft ts t rest H. rewrite led_S in H.
        destruct ts as [|[i s|s] r]; try (inversion H; subst; lia).
        destruct (rbp <? lbp s); [|inversion H; subst; lia].
        destruct (infix s); [|discriminate].
        destruct (expr fuel (lbp s) r) as [[rgt r']|] eqn:E; [|discriminate].
        apply IHe in E. apply IHl in H. cbn. lia.
  Qed.

  (* the budget |tokens|+1 is never exhausted *)
  Lemma no_fuel : forall fuel,
    (forall rbp ts, (len ts < fuel)%nat -> expr fuel rbp ts <> inr PErrFuel) /\
    (forall rbp lft ts, (len ts < fuel)%nat -> led_loop fuel rbp lft ts <> inr PErrFuel).
  Proof.
    induction fuel as [|fuel [IHe IHl]]; [split; intros; lia|].
    assert (Hnud : forall ts, (len ts < S fuel)%nat -> nud fuel ts <> inr PErrFuel).
    { intros ts Hl. destruct ts as [|[i s|s] r]; cbn; try discriminate. cbn in Hl.
      assert (Hr : (len r < fuel)%nat) by lia.
      destruct (String.eqb s "(").
      { pose proof (IHe paren_rbp r Hr) as H. destruct (expr fuel paren_rbp r) as [[e [|[i c|c] r']]|[|]]; try discriminate; try congruence.
        destruct (String.eqb c ")"); discriminate. }
      destruct (String.eqb s "-").
      { pose proof (IHe neg_rbp r Hr) as H. destruct (expr fuel neg_rbp r) as [[e r']|[|]]; try discriminate; congruence. }
      destruct (String.eqb s "^").
      { pose proof (IHe compl_rbp r Hr) as H. destruct (expr fuel compl_rbp r) as [[e r']|[|]]; try discriminate; congruence. }
      destruct (String.eqb s "!").
      { pose proof (IHe not_rbp r Hr) as H. destruct (expr fuel not_rbp r) as [[e r']|[|]]; try discriminate; congruence. }
      discriminate. }
    split.
    - intros rbp ts Hl. rewrite expr_S. specialize (Hnud ts Hl).
      destruct (nud fuel ts) as [[lft r]|e] eqn:En; [|congruence].
      apply IHl.
      pose proof (nud_shrink_gen fuel (proj1 (shrink fuel)) ts lft r En) as Hs.
      lia.
    - intros rbp lft ts Hl. rewrite led_S.
      destruct ts as [|[i s|s] r]; try discriminate.
      destruct (rbp <? lbp s); [|discriminate]. destruct (infix s); [|discriminate]. cbn in Hl.
      assert (Hr : (len r < fuel)%nat) by lia.
      pose proof (IHe (lbp s) r Hr) as H.
      destruct (expr fuel (lbp s) r) as [[rgt r']|e] eqn:E; [|congruence].
      apply IHl. apply (proj1 (shrink fuel)) in E. lia.
  Qed.
End PrattTotal.

(* ---- recursion depth of the expression loop ------------------------------------------------------
   exprD is Pratt.expr with a second budget d that is spent only by NESTED calls (the operand of a
   prefix operator, the inside of a parenthesis, the right operand of a binary operator): d bounds the
   depth of the Go call stack of doExpression.  |tokens|+1 frames always suffice; a nest of n
   parentheses needs more than n frames (c03_depth_witness in Props/C03.v). *)
Inductive derr := DDepth | DErr (e : perr).

Section PrattDepth.
  Variable lbp : string -> Z.
  Variable infix : string -> bool.
  Variables neg_rbp compl_rbp not_rbp paren_rbp : Z.

  Fixpoint exprD (d : nat) (fuel : nat) (rbp : Z) (ts : list tok) {struct fuel} : (tree * list tok) + derr :=
    match d with
    | O => inr DDepth
    | S d' =>
      match fuel with
      | O => inr (DErr PErrFuel)
      | S fuel =>
          let nud :=
            match ts with
            | [] => inr (DErr PErrSyntax)
            | TAtom i s :: rest => inl (Atom i s, rest)
            | TSym s :: rest =>
                if String.eqb s "(" then
                  match exprD d' fuel paren_rbp rest with
                  | inl (e, TSym c :: rest') => if String.eqb c ")" then inl (Paren e, rest') else inr (DErr PErrSyntax)
                  | inl _ => inr (DErr PErrSyntax)
                  | inr e => inr e
                  end
                else if String.eqb s "-" then
                  match exprD d' fuel neg_rbp rest with inl (e, r) => inl (Un UNeg e, r) | inr e => inr e end
                else if String.eqb s "^" then
                  match exprD d' fuel compl_rbp rest with inl (e, r) => inl (Un UCompl e, r) | inr e => inr e end
                else if String.eqb s "!" then
                  match exprD d' fuel not_rbp rest with inl (e, r) => inl (Un UNot e, r) | inr e => inr e end
                else inr (DErr PErrSyntax)
            end in
          match nud with
          | inr e => inr e
          | inl (lft, rest) => led_loopD d' fuel rbp lft rest
          end
      end
    end
  with led_loopD (d : nat) (fuel : nat) (rbp : Z) (lft : tree) (ts : list tok) {struct fuel} : (tree * list tok) + derr :=
    match fuel with
    | O => if rbp <? cur_lbp lbp ts then inr (DErr PErrFuel) else inl (lft, ts)
    | S fuel =>
        match ts with
        | TSym s :: rest =>
            if rbp <? lbp s then
              if infix s then
                match exprD d fuel (lbp s) rest with
                | inl (rgt, rest') => led_loopD d fuel rbp (Bin s lft rgt) rest'
                | inr e => inr e
                end
              else inr (DErr PErrSyntax)
            else inl (lft, ts)
        | _ => inl (lft, ts)
        end
    end.

  Definition lift (r : (tree * list tok) + perr) : (tree * list tok) + derr :=
    match r with inl x => inl x | inr e => inr (DErr e) end.

  Let expr := Pratt.expr lbp infix neg_rbp compl_rbp not_rbp paren_rbp.
  Let led_loop := Pratt.led_loop lbp infix neg_rbp compl_rbp not_rbp paren_rbp.
  Notation len := (@List.length tok).

  Lemma depth_enough : forall fuel,
    (forall d rbp ts, (len ts < d)%nat -> exprD d fuel rbp ts = lift (expr fuel rbp ts)) /\
    (forall d rbp lft ts, (len ts <= d)%nat -> led_loopD d fuel rbp lft ts = lift (led_loop fuel rbp lft ts)).
  Proof.
    induction fuel as [|fuel [IHe IHl]].
    - split.
      + intros [|d] rbp ts H; [lia|reflexivity].
      + intros d rbp lft ts H. cbn. destruct (rbp <? cur_lbp lbp ts); reflexivity.
    - split.
      + intros [|d] rbp ts H; [lia|].
        change (expr (S fuel) rbp ts) with
          (match nud lbp infix neg_rbp compl_rbp not_rbp paren_rbp fuel ts with
           | inr e => inr e | inl (lft, rest) => led_loop fuel rbp lft rest end).
        cbn [exprD]. destruct ts as [|[i s|s] r]; cbn [nud]; [reflexivity| |].
        * apply IHl. cbn in H. lia.
        * cbn in H. assert (Hr : (len r < d)%nat) by lia.
          fold expr.
          assert (Hsub : forall rb, exprD d fuel rb r = lift (expr fuel rb r)) by (intros; apply IHe; exact Hr).
          assert (Hsh : forall rb e r', expr fuel rb r = inl (e, r') -> (len r' <= d)%nat).
          { intros rb e r' E. apply (proj1 (shrink lbp infix neg_rbp compl_rbp not_rbp paren_rbp fuel)) in E. lia. }
          destruct (String.eqb s "(").
          { rewrite Hsub. destruct (expr fuel paren_rbp r) as [[e [|[i c|c] r']]|err] eqn:E; cbn [lift]; try reflexivity.
            destruct (String.eqb c ")"); [|reflexivity]. apply IHl. apply Hsh in E. cbn in E. lia. }
          destruct (String.eqb s "-").
          { rewrite Hsub. destruct (expr fuel neg_rbp r) as [[e r']|err] eqn:E; cbn [lift]; [|reflexivity]. apply IHl. eapply Hsh; eauto. }
          destruct (String.eqb s "^").
          { rewrite Hsub. destruct (expr fuel compl_rbp r) as [[e r']|err] eqn:E; cbn [lift]; [|reflexivity]. apply IHl. eapply Hsh; eauto. }
          destruct (String.eqb s "!").
          { rewrite Hsub. destruct (expr fuel not_rbp r) as [[e r']|err] eqn:E; cbn [lift]; [|reflexivity]. apply IHl. eapply Hsh; eauto. }
          reflexivity.
      + intros d rbp lft ts H.
        change (led_loop (S fuel) rbp lft ts) with
          (match ts with
           | TSym s :: rest =>
               if rbp <? lbp s then
                 if infix s then
                   match expr fuel (lbp s) rest with
                   | inl (rgt, rest') => led_loop fuel rbp (Bin s lft rgt) rest'
                   | inr e => inr e
                   end
                 else inr PErrSyntax
               else inl (lft, ts)
           | _ => inl (lft, ts)
           end).
        cbn [led_loopD]. destruct ts as [|[i s|s] r]; try reflexivity.
        destruct (rbp <? lbp s); [|reflexivity]. destruct (infix s); [|reflexivity].
        cbn in H. rewrite IHe by lia.
        destruct (expr fuel (lbp s) r) as [[rgt r']|err] eqn:E; cbn [lift]; [|reflexivity].
        apply IHl. apply (proj1 (shrink lbp infix neg_rbp compl_rbp not_rbp paren_rbp fuel)) in E. lia.
  Qed.
End PrattDepth.

(* ---- peephole: more fuel changes nothing ------------------------------------------------------------ *)

Lemma skipn_shorter : forall A k (l : list A), (1 <= k)%nat -> l <> [] -> (List.length (skipn k l) < List.length l)%nat.
Proof. intros A k l Hk Hl. rewrite skipn_length. destruct l; [congruence|]. cbn [List.length]. lia. Qed.

Lemma first_match_in : forall rs w r, first_match rs w = Some r -> In r rs.
Proof.
  induction rs as [|x rs IH]; intros w r H; cbn in H; [discriminate|].
  destruct (rule_matches x w); [inversion H; left; reflexivity|right; eauto].
Qed.

Lemma do_optimize_fuel_stable : forall rs, (forall r, In r rs -> (1 <= rule_len r)%nat) ->
  forall f1 f2 code, (List.length code <= f1)%nat -> (List.length code <= f2)%nat ->
  do_optimize_fuel f1 rs code = do_optimize_fuel f2 rs code.
Proof.
  intros rs Hrs. induction f1 as [|f1 IH]; intros f2 code H1 H2.
  - destruct code; [|cbn in H1; lia]. destruct f2; reflexivity.
  - destruct code as [|i rest]; [destruct f2; reflexivity|].
    destruct f2 as [|f2]; [cbn in H2; lia|]. cbn [do_optimize_fuel].
    destruct (first_match rs (i :: rest)) as [r|] eqn:E.
    + f_equal. pose proof (skipn_shorter _ (rule_len r) (i :: rest) (Hrs r (first_match_in _ _ _ E)) ltac:(discriminate)) as Hs.
      cbn in H1, H2, Hs. apply IH; cbn; lia.
    + f_equal. cbn in H1, H2. apply IH; lia.
Qed.

From GV Require Import Model.PrattInst Gen.Tables_gen.

Theorem pratt_terminates : forall lbp infix neg_rbp compl_rbp not_rbp paren_rbp fuel rbp ts,
  (List.length ts < fuel)%nat ->
  Pratt.expr lbp infix neg_rbp compl_rbp not_rbp paren_rbp fuel rbp ts <> inr PErrFuel.
Proof. intros. apply (proj1 (no_fuel lbp infix neg_rbp compl_rbp not_rbp paren_rbp fuel)). assumption. Qed.

Theorem goat_parse_terminates : forall ts, goat_parse ts <> inr PErrFuel.
Proof. intros ts. unfold goat_parse, parse. apply pratt_terminates. lia. Qed.

Theorem expr_consumes : forall lbp infix neg_rbp compl_rbp not_rbp paren_rbp fuel rbp ts t rest,
  Pratt.expr lbp infix neg_rbp compl_rbp not_rbp paren_rbp fuel rbp ts = inl (t, rest) ->
  (List.length rest < List.length ts)%nat.
Proof. intros. eapply (proj1 (shrink lbp infix neg_rbp compl_rbp not_rbp paren_rbp fuel)); eauto. Qed.

Theorem depth_bound : forall lbp infix neg_rbp compl_rbp not_rbp paren_rbp fuel d rbp ts,
  (List.length ts < d)%nat ->
  exprD lbp infix neg_rbp compl_rbp not_rbp paren_rbp d fuel rbp ts =
  lift (Pratt.expr lbp infix neg_rbp compl_rbp not_rbp paren_rbp fuel rbp ts).
Proof. intros. apply (proj1 (depth_enough lbp infix neg_rbp compl_rbp not_rbp paren_rbp fuel)). assumption. Qed.

Theorem peephole_terminates : forall fuel code, (S (List.length code) <= fuel)%nat ->
  do_optimize_fuel fuel peephole_rules code = do_optimize peephole_rules code.
Proof.
  intros fuel code H. unfold do_optimize. apply do_optimize_fuel_stable; try lia.
  assert (Hall : forallb (fun r => (1 <=? rule_len r)%nat) peephole_rules = true) by (vm_compute; reflexivity).
  intros r Hr. rewrite forallb_forall in Hall. apply Nat.leb_le. apply Hall. exact Hr.
Qed.
