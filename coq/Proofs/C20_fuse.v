(* C20: positions under the peephole optimizer and under compile's stamping loop.
   - the fused instruction carries the position of ONE instruction of the window (r_pos, regenerated from
     compiler.go by go2v); when the window sits on one source line the reported line is unaffected; when it
     spans two lines it is not (witness: GLOBALGET on line 5, CALL on line 6 -> FASTCALL reports line 5);
   - a small model of compile's stamping loop: every instruction carries the position of the innermost
     syntax node whose compile call emitted it. *)
From Coq Require Import ZArith List String Bool Lia.
From GV Require Import GoSpec.GoPrim Gen.ValueOps_gen Gen.Tables_gen Model.PeepTypes Model.VM Model.Peephole Model.Backtrace Proofs.C02_rules.
Import ListNotations.
Open Scope Z_scope.

(* all instructions of the window on one source line of one function *)
Definition one_line (w : list instr) : Prop := forall i j, In i w -> In j w -> same_line (ipos i) (ipos j).

Lemma rule_pos_in_range : forall r, In r peephole_rules -> (r_pos r < rule_len r)%nat.
Proof.
  assert (H : forallb (fun r => Nat.ltb (r_pos r) (rule_len r)) peephole_rules = true) by (vm_compute; reflexivity).
  intros r Hr. apply (proj1 (forallb_forall _ _) H r) in Hr. apply Nat.ltb_lt in Hr. exact Hr.
Qed.

Theorem fuse_pos : forall r w, ipos (fused r w) = ipos (win w (r_pos r)).
Proof. reflexivity. Qed.

Theorem fuse_line : forall r, In r peephole_rules ->
  forall w, List.length w = rule_len r -> one_line w ->
  forall k, (k < List.length w)%nat -> same_line (ipos (fused r w)) (ipos (win w k)).
Proof.
  intros r Hr w Hl H1 k Hk. rewrite fuse_pos. apply H1; unfold win; apply nth_In; [|exact Hk].
  rewrite Hl. apply rule_pos_in_range; exact Hr.
Qed.

Section Exec.
  Variable grow : Z -> Z -> Z.
  Variable ext_get : st -> value -> value -> option (res value).
  Variable ext_set : st -> value -> value -> value -> option (res st).
  Variable ext_len : st -> value -> option Z.
  Variable ext_getattr : st -> value -> Z -> option (res (value * st)).
  Variable ext_setattr : st -> value -> Z -> value -> option (res st).
  Notation step1 := (step1 grow ext_get ext_set ext_len ext_getattr ext_setattr).

  (* the position that reaches the error text when an instruction fails (first line) or calls (backtrace line) *)
  Definition step_report (i : instr) (r : sres) : option Z :=
    match r with
    | SFail _ _ => Some (ipos i)
    | SCall _ _ _ _ _ _ _ => Some (ipos i)
    | _ => None
    end.

  (* the unfused window run instruction by instruction (as Proofs/C02_rules.v run_window): the report of the
     first instruction that fails or calls *)
  Fixpoint window_report (codes : list instr) (pc : Z) (w : list instr) (slots ops : list value) (s : st) : option Z :=
    match w with
    | [] => None
    | i :: w' =>
        match step1 codes pc i slots ops s with
        | SNext slots' ops' s' => window_report codes (pc + 1) w' slots' ops' s'
        | SJump 0 slots' ops' s' => window_report codes (pc + 1) w' slots' ops' s'
        | r => step_report i r
        end
    end.
  Definition fused_report (codes : list instr) (pc : Z) (r : rule) (w : list instr) (slots ops : list value) (s : st) : option Z :=
    step_report (fused r w) (step1 codes pc (fused r w) slots ops s).

  Lemma window_report_in : forall w codes pc slots ops s p,
    window_report codes pc w slots ops s = Some p -> exists i, In i w /\ p = ipos i.
  Proof.
    induction w as [|i w IH]; intros codes pc slots ops s p; cbn [window_report]; [discriminate|].
    destruct (step1 codes pc i slots ops s) as [sl o s'|d sl o s'|pk fa xa xr sl o s'|sl o s'|m s'|m|m]; cbn [step_report];
      try discriminate.
    - intro H. destruct (IH _ _ _ _ _ _ H) as [j [Hj Hp]]. exists j; split; [right; exact Hj | exact Hp].
    - destruct d; cbn [step_report]; try discriminate.
      intro H. destruct (IH _ _ _ _ _ _ H) as [j [Hj Hp]]. exists j; split; [right; exact Hj | exact Hp].
    - intro H; inversion H. exists i; split; [left; reflexivity | reflexivity].
    - intro H; inversion H. exists i; split; [left; reflexivity | reflexivity].
  Qed.

  Theorem fuse_line_exec : forall r, In r peephole_rules ->
    forall w, List.length w = rule_len r -> one_line w ->
    forall codes pc pc' slots ops s p q,
      window_report codes pc w slots ops s = Some p ->
      fused_report codes pc' r w slots ops s = Some q ->
      same_line p q.
  Proof.
    intros r Hr w Hl H1 codes pc pc' slots ops s p q Hp Hq.
    destruct (window_report_in _ _ _ _ _ _ _ Hp) as [i [Hi Ep]]. subst p.
    assert (Eq : q = ipos (fused r w)).
    { unfold fused_report, step_report in Hq.
      destruct (step1 codes pc' (fused r w) slots ops s); inversion Hq; reflexivity. }
    subst q. rewrite fuse_pos. apply H1; [exact Hi|].
    unfold win; apply nth_In. rewrite Hl. apply rule_pos_in_range; exact Hr.
  Qed.

  (* ---- which instruction of a window can reach the error text ------------------------------------ *)
  (* LOCALGET, GLOBALGET, CONST and PUSH never fail and never call: they push a value (or are stuck on
     malformed code, which is no run-time error of the script) *)
  Definition quiet_code (c : Z) : bool := (c =? c_LocalGet) || (c =? c_GlobalGet) || (c =? c_Const) || (c =? c_Push).

  Lemma quiet_step : forall codes pc i slots ops s, quiet_code (icode i) = true ->
    (exists sl op s', step1 codes pc i slots ops s = SNext sl op s') \/ (exists m, step1 codes pc i slots ops s = SStuck m).
  Proof.
    intros codes pc i slots ops s H. unfold quiet_code in H.
    repeat (apply orb_true_iff in H; destruct H as [H|H]); apply Z.eqb_eq in H.
    - rewrite (step1_LocalGet grow ext_get ext_set ext_len ext_getattr ext_setattr codes pc i slots ops s H).
      destruct (znth slots (iA i)); [left; eauto | right; eauto].
    - rewrite (step1_GlobalGet grow ext_get ext_set ext_len ext_getattr ext_setattr codes pc i slots ops s H).
      destruct (znth (globals s) (iA i)); [left; eauto | right; eauto].
    - rewrite (step1_Const grow ext_get ext_set ext_len ext_getattr ext_setattr codes pc i slots ops s H).
      destruct (znth (globals s) (iA i)); [left; eauto | right; eauto].
    - rewrite (step1_Push grow ext_get ext_set ext_len ext_getattr ext_setattr codes pc i slots ops s H). left; eauto.
  Qed.

  (* all instructions of the window but the last are quiet *)
  Definition early_quiet_w (w : list instr) : bool := forallb (fun i => quiet_code (icode i)) (removelast w).

  (* then whatever the window reports is reported by its LAST instruction *)
  Lemma last_reports : forall w codes pc slots ops s p, early_quiet_w w = true ->
    window_report codes pc w slots ops s = Some p -> p = ipos (win w (pred (List.length w))).
  Proof.
    induction w as [|i w IH]; intros codes pc slots ops s p Hq; [discriminate|].
    destruct w as [|j w'].
    - cbn [window_report]. unfold win; cbn [List.length pred nth].
      destruct (step1 codes pc i slots ops s) as [sl o s'|d sl o s'|pk fa xa xr sl o s'|sl o s'|m s'|m|m]; cbn [step_report window_report];
        try discriminate; try (intro H; inversion H; reflexivity).
      destruct d; cbn [step_report]; discriminate.
    - unfold early_quiet_w in Hq. cbn [removelast forallb] in Hq. apply andb_true_iff in Hq. destruct Hq as [Hi Hq].
      change (window_report codes pc (i :: j :: w') slots ops s) with
        (match step1 codes pc i slots ops s with
         | SNext slots' ops' s' => window_report codes (pc + 1) (j :: w') slots' ops' s'
         | SJump 0 slots' ops' s' => window_report codes (pc + 1) (j :: w') slots' ops' s'
         | r => step_report i r
         end).
      destruct (quiet_step codes pc i slots ops s Hi) as [[sl [o [s' E]]]|[m E]]; rewrite E; [|discriminate].
      intro H. apply IH in H; [|exact Hq]. exact H.
  Qed.
End Exec.

(* ---- the generated table ------------------------------------------------------------------------------ *)

(* every rule keeps the position of the LAST instruction of its window *)
Lemma rule_keeps_last : forall r, In r peephole_rules -> r_pos r = pred (rule_len r).
Proof.
  assert (H : forallb (fun r => Nat.eqb (r_pos r) (pred (rule_len r))) peephole_rules = true) by (vm_compute; reflexivity).
  intros r Hr. apply (proj1 (forallb_forall _ _) H r) in Hr. apply Nat.eqb_eq in Hr. exact Hr.
Qed.

Theorem fuse_pos_last : forall r, In r peephole_rules ->
  forall w, List.length w = rule_len r -> ipos (fused r w) = ipos (win w (pred (List.length w))).
Proof. intros r Hr w Hl. rewrite fuse_pos, (rule_keeps_last r Hr), Hl. reflexivity. Qed.

(* the rule's own opcode list: all but the last are quiet *)
Definition early_quiet (r : rule) : bool := forallb (fun n => quiet_code (C n)) (removelast (r_codes r)).

Lemma codes_match_map : forall names w, codes_match names w = true -> List.length w = List.length names ->
  map icode w = map C names.
Proof.
  induction names as [|n ns IH]; intros [|i w] H Hl; try discriminate; [reflexivity|].
  cbn [codes_match] in H. apply andb_true_iff in H. destruct H as [Hc Hm]. apply Z.eqb_eq in Hc.
  cbn [map]. rewrite Hc. f_equal. apply IH; [exact Hm | cbn [List.length] in Hl; congruence].
Qed.

Lemma removelast_map {A B} (f : A -> B) : forall l, removelast (map f l) = map f (removelast l).
Proof.
  induction l as [|a l IH]; [reflexivity|]. destruct l as [|b l']; [reflexivity|].
  cbn [map removelast] in *. rewrite IH. reflexivity.
Qed.

Lemma forallb_map' {A B} (f : B -> bool) (g : A -> B) : forall l, forallb f (map g l) = forallb (fun x => f (g x)) l.
Proof. induction l as [|a l IH]; [reflexivity|]. cbn. rewrite IH. reflexivity. Qed.

Lemma early_quiet_window : forall r w, early_quiet r = true -> rule_matches r w = true ->
  List.length w = rule_len r -> early_quiet_w w = true.
Proof.
  intros r w Hq Hm Hl. unfold rule_matches in Hm. apply andb_true_iff in Hm. destruct Hm as [Hm _].
  pose proof (codes_match_map _ _ Hm Hl) as E.
  unfold early_quiet_w, early_quiet in *.
  assert (F : forallb quiet_code (removelast (map icode w)) = true).
  { rewrite E, removelast_map, forallb_map'. exact Hq. }
  rewrite removelast_map, forallb_map' in F. exact F.
Qed.

(* POSITIVE: for every rule whose earlier instructions are quiet and every matching window -- on however many
   lines it is written -- what the unfused window reports (failure or call) IS the position of its last
   instruction, which is the position the fused instruction carries: both optimizer modes name the same
   function, line and column *)
Theorem fuse_same_report : forall grow ext_get ext_set ext_len ext_getattr ext_setattr,
  forall r, In r peephole_rules -> early_quiet r = true ->
  forall w, List.length w = rule_len r -> rule_matches r w = true ->
  forall codes pc slots ops s p,
    window_report grow ext_get ext_set ext_len ext_getattr ext_setattr codes pc w slots ops s = Some p ->
    p = ipos (fused r w).
Proof.
  intros grow ext_get ext_set ext_len ext_getattr ext_setattr r Hr Hq w Hl Hm codes pc slots ops s p Hp.
  rewrite (fuse_pos_last r Hr w Hl).
  eapply last_reports; [|exact Hp]. eapply early_quiet_window; eassumption.
Qed.

(* the rules that are NOT covered: (fused opcode, [(index, opcode) of the earlier instructions that can fail]) *)
Definition early_loud (r : rule) : list (nat * string) :=
  filter (fun p => negb (quiet_code (C (snd p)))) (combine (seq 0 (List.length (r_codes r))) (removelast (r_codes r))).
Theorem early_loud_rules :
  map (fun r => (r_out r, early_loud r)) (filter (fun r => negb (early_quiet r)) peephole_rules) =
  [ ("codeLocalIncDec", [(1%nat, "codeIncDec")]); ("codeFastCallAttr", [(1%nat, "codeGetAttr")]) ]%string.
Proof. vm_compute. reflexivity. Qed.

(* ... but the first of the two is loud only SYNTACTICALLY.  INCDEC never fails in the model: Value_incDec adds
   (or subtracts) an UNTYPED int; the only panicking branch of Value_opAdd is the one for TypeString, and the
   mixed type Z.lor (vt v) 1 is odd, hence never TypeString (64).  (So `s++` on a string does not panic at
   run time either: it takes the default, untyped-number branch.) *)
Lemma incdec_never_panics : forall v n, exists r, Value_incDec v n = Ok r.
Proof.
  intros v n. unfold Value_incDec. destruct (n <? 0); [eexists; reflexivity|].
  unfold Value_opAdd, fn_mixType.
  change (vt (fn_newUntypedInt n)) with 1.
  repeat match goal with |- context [if ?c then _ else _] =>
    match c with
    | (_ =? TypeString) => fail 1
    | _ => destruct c; [cbn; eexists; reflexivity|]
    end end.
  destruct (Z.lor (vt v) 1 =? TypeString) eqn:E; [|cbn; eexists; reflexivity].
  exfalso. apply Z.eqb_eq in E.
  assert (T : Z.testbit (Z.lor (vt v) 1) 0 = Z.testbit TypeString 0) by (rewrite E; reflexivity).
  rewrite Z.lor_spec in T. cbn in T. rewrite orb_true_r in T. discriminate.
Qed.

Lemma localincdec_codes : forall r, In r peephole_rules -> r_out r = "codeLocalIncDec"%string ->
  r_codes r = ["codeLocalGet"; "codeIncDec"; "codeLocalSet"]%string.
Proof.
  assert (H : forallb (fun r => if String.eqb (r_out r) "codeLocalIncDec"
                                then if list_eq_dec string_dec (r_codes r) ["codeLocalGet"; "codeIncDec"; "codeLocalSet"]%string
                                     then true else false
                                else true) peephole_rules = true) by (vm_compute; reflexivity).
  intros r Hr Ho. apply (proj1 (forallb_forall _ _) H r) in Hr. rewrite Ho, String.eqb_refl in Hr.
  destruct (list_eq_dec string_dec (r_codes r) _) as [E|]; [exact E | discriminate Hr].
Qed.

(* so a window LOCALGET; INCDEC; LOCALSET never reports anything (no failure, no call): for the LOCALINCDEC
   rule there is nothing the two optimizer modes could disagree about *)
Theorem localincdec_window_silent : forall grow eg es el ega esa,
  forall r, In r peephole_rules -> r_out r = "codeLocalIncDec"%string ->
  forall w, List.length w = rule_len r -> rule_matches r w = true ->
  forall codes pc slots ops s, window_report grow eg es el ega esa codes pc w slots ops s = None.
Proof.
  intros grow eg es el ega esa r Hr Ho w Hl Hm codes pc slots ops s.
  pose proof (localincdec_codes r Hr Ho) as Hc.
  unfold rule_len in Hl. rewrite Hc in Hl.
  destruct w as [|i1 [|i2 [|i3 [|i4 w]]]]; try discriminate Hl.
  unfold rule_matches in Hm. apply andb_true_iff in Hm. destruct Hm as [Hm _].
  rewrite Hc in Hm. cbn [codes_match] in Hm.
  apply andb_true_iff in Hm. destruct Hm as [H1 Hm].
  apply andb_true_iff in Hm. destruct Hm as [H2 Hm].
  apply andb_true_iff in Hm. destruct Hm as [H3 _].
  apply Z.eqb_eq in H1, H2, H3.
  change (C "codeLocalGet") with c_LocalGet in H1.
  change (C "codeIncDec") with c_IncDec in H2.
  change (C "codeLocalSet") with c_LocalSet in H3.
  cbn [window_report].
  rewrite (step1_LocalGet grow eg es el ega esa codes pc i1 slots ops s H1).
  destruct (znth slots (iA i1)) as [v|]; [|reflexivity].
  rewrite (step1_IncDec grow eg es el ega esa codes (pc + 1) i2 slots (v :: ops) s H2).
  destruct (incdec_never_panics v (iA i2)) as [r' Er]. rewrite Er. cbn [slift].
  rewrite (step1_LocalSet grow eg es el ega esa codes (pc + 1 + 1) i3 slots (r' :: ops) s H3).
  destruct (znth slots (iA i3)); reflexivity.
Qed.

(* ---- witnesses ------------------------------------------------------------------------------------------ *)

Definition no_get : st -> value -> value -> option (res value) := fun _ _ _ => None.
Definition no_set : st -> value -> value -> value -> option (res st) := fun _ _ _ _ => None.
Definition no_len : st -> value -> option Z := fun _ _ => None.
Definition no_getattr : st -> value -> Z -> option (res (value * st)) := fun _ _ _ => None.
Definition no_setattr : st -> value -> Z -> value -> option (res st) := fun _ _ _ _ => None.
Definition run0 := run (fun _ n => n) no_get no_set no_len no_getattr no_setattr.

(* (former finding D21) f() written as
       f(      <- line 5: the callee's name (GLOBALGET)
       )       <- line 6: the token after "(" (the "call" node, CALL)
   with f = func() { 1 / 0 } on line 2; function-name indices 1 (f) and 2 (the caller): both modes now report
   the CALL's line *)
Definition d21_code : list instr :=
  [ mkI c_Func (joinParams 0 0) 0 3 (mk_pos 0 2 1);
    mkI c_Push 1 0 0 (mk_pos 1 2 10); mkI c_Push 0 0 0 (mk_pos 1 2 14); mkI c_Div 0 0 0 (mk_pos 1 2 12);
    mkI c_GlobalFunc 0 0 0 (mk_pos 0 2 1);
    mkI c_GlobalGet 0 0 0 (mk_pos 2 5 2); mkI c_Call 0 0 0 (mk_pos 2 6 3) ].
Definition d21_state : st := mkSt [nilV] [] [] [].
Definition d21_lines_off : option (list (Z * Z)) := option_map trace_lines (result_trace (run0 100 d21_code 0 d21_state)).
Definition d21_lines_on : option (list (Z * Z)) := option_map trace_lines (result_trace (run0 100 (optimize true d21_code) 0 d21_state)).
Theorem fuse_run_witness : d21_lines_off = Some [(1, 2); (2, 6)] /\ d21_lines_on = Some [(1, 2); (2, 6)].
Proof. split; vm_compute; reflexivity. Qed.

(* REFUTATION of the unrestricted statement, for what is still true: in LOCALGET; GETATTR; CALL the GETATTR can
   fail (nil receiver).  Written as
       t.f(    <- line 5: LOCALGET t, GETATTR f
         a)    <- line 6: CALL
   the unfused window reports the GETATTR's line 5, the fused FASTCALLATTR the CALL's line 6.
   (attribute access on the receiver panics: oracle [Some Panic]) *)
Definition nil_getattr : st -> value -> Z -> option (res (value * st)) := fun _ _ _ => Some Panic.
Definition res_window : list instr :=
  [mkI c_LocalGet 0 0 0 (mk_pos 2 5 9); mkI c_GetAttr 7 0 0 (mk_pos 2 5 10); mkI c_Call 1 1 0 (mk_pos 2 6 3)].
Theorem fuse_early_failure_refuted :
  exists r, first_match peephole_rules res_window = Some r /\ r_out r = "codeFastCallAttr"%string /\
  exists p q,
    window_report (fun _ n => n) no_get no_set no_len nil_getattr no_setattr [] 0 res_window [nilV] [] d21_state = Some p /\
    fused_report (fun _ n => n) no_get no_set no_len nil_getattr no_setattr [] 0 r res_window [nilV] [] d21_state = Some q /\
    line_of p = 5 /\ line_of q = 6.
Proof.
  eexists. split; [vm_compute; reflexivity|]. split; [reflexivity|].
  eexists. eexists. split; [vm_compute; reflexivity|]. split; [vm_compute; reflexivity|]. split; vm_compute; reflexivity.
Qed.

(* ---- compile's stamping loop ----------------------------------------------------------------------- *)
(* compile(tok) builds [res] from instructions it emits itself (Pos zero) and from the results of the
   compile calls on sub-nodes (already stamped), in some order; before returning it gives every
   instruction whose Pos is still zero the position of tok:
       for n, i := range res { if !i.Pos.IsZero() { continue }; res[n].Pos = newPos(.., tok.Pos.Line, tok.Pos.Column) } *)
Inductive tree := Node (p : Z) (items : list item)
with item := Emit (i : instr) | Sub (t : tree).

Definition set_pos (i : instr) (p : Z) : instr := mkI (icode i) (iA i) (iB i) (iC i) p.
Definition stamp (p : Z) (res : list instr) : list instr :=
  map (fun i => if ipos i =? 0 then set_pos i p else i) res.

Fixpoint compile (t : tree) : list instr :=
  match t with
  | Node p items =>
      stamp p ((fix go (l : list item) : list instr :=
                  match l with
                  | [] => []
                  | Emit i :: r => i :: go r
                  | Sub t' :: r => (compile t' ++ go r)%list
                  end) items)
  end.

(* the specification: each emitted instruction paired with the position of the innermost node that emitted it *)
Fixpoint origins (t : tree) : list Z :=
  match t with
  | Node p items =>
      (fix go (l : list item) : list Z :=
         match l with
         | [] => []
         | Emit _ :: r => p :: go r
         | Sub t' :: r => (origins t' ++ go r)%list
         end) items
  end.

(* well-formed input: node positions are real positions (non-zero) and freshly emitted instructions have no position yet *)
Fixpoint wf (t : tree) : Prop :=
  match t with
  | Node p items =>
      p <> 0 /\
      (fix go (l : list item) : Prop :=
         match l with
         | [] => True
         | Emit i :: r => ipos i = 0 /\ go r
         | Sub t' :: r => wf t' /\ go r
         end) items
  end.

Lemma stamp_app p a b : stamp p (a ++ b) = (stamp p a ++ stamp p b)%list.
Proof. unfold stamp. apply map_app. Qed.

Lemma stamp_id p l : Forall (fun i => ipos i <> 0) l -> stamp p l = l.
Proof.
  induction 1 as [|i l Hi _ IH]; [reflexivity|]. cbn [stamp map]. fold (stamp p l). rewrite IH.
  destruct (ipos i =? 0) eqn:E; [apply Z.eqb_eq in E; contradiction | reflexivity].
Qed.

Fixpoint tree_ind' (P : tree -> Prop)
  (H : forall p items, (fix all (l : list item) : Prop :=
                           match l with [] => True | Emit _ :: r => all r | Sub t :: r => P t /\ all r end) items ->
                       P (Node p items)) (t : tree) : P t :=
  match t with
  | Node p items =>
      H p items ((fix go (l : list item) :
                    (fix all (l : list item) : Prop :=
                       match l with [] => True | Emit _ :: r => all r | Sub t :: r => P t /\ all r end) l :=
                    match l with
                    | [] => I
                    | Emit _ :: r => go r
                    | Sub t' :: r => conj (tree_ind' P H t') (go r)
                    end) items)
  end.

Theorem stamp_innermost : forall t, wf t ->
  map ipos (compile t) = origins t /\ Forall (fun i => ipos i <> 0) (compile t).
Proof.
  induction t as [p items IH] using tree_ind'. intros [Hp Hw].
  cbn [compile origins].
  induction items as [|it r IHr]; [split; [reflexivity | constructor]|].
  destruct it as [i|t'].
  - destruct Hw as [Hi Hw]. specialize (IHr IH Hw). destruct IHr as [E F].
    cbn [stamp map]. rewrite Hi. cbn [Z.eqb set_pos ipos]. fold (stamp p).
    split; [f_equal; exact E | constructor; [cbn; exact Hp | exact F]].
  - destruct IH as [IHt IHrest]. destruct Hw as [Hwt Hw].
    specialize (IHr IHrest Hw). destruct IHr as [E F]. destruct (IHt Hwt) as [Et Ft].
    rewrite stamp_app, (stamp_id p _ Ft), map_app, Et.
    split; [f_equal; exact E | apply Forall_app; split; assumption].
Qed.
