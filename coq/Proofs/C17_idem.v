(* C17, part 4: loading the same version twice in a row is the same as loading it
   once -- the second Load leaves the machine state unchanged, so every later
   observation sequence gets the same answers.  Assumption on initialisers: they
   are constants or references to declared functions (an initialiser that
   allocates -- &T{...}, a bound method -- gives a new object on every Load; that
   case is covered by the differential, c17-script group "unchanged"). *)
From Coq Require Import ZArith List Bool Lia.
From GV Require Import Model.Reload Proofs.C17_base Proofs.C17_reload Proofs.C17_hist.
Import ListNotations.
Open Scope Z_scope.

Definition simple_init (S : sig) : Prop :=
  forall n e, In (VSet n e) (svars S) ->
    (exists z, e = EArg (AConst z)) \/ (exists f, e = EArg (APath (PGlobal f)) /\ In f (sfuncs S)).

Lemma st_eta_funcs : forall st, set_funcs st (funcs st) = st. Proof. destruct st; reflexivity. Qed.
Lemma st_eta_types : forall st, set_types st (types st) = st. Proof. destruct st; reflexivity. Qed.
Lemma st_eta_globals : forall st, set_globals st (globals st) = st. Proof. destruct st; reflexivity. Qed.

Lemma lookup_nodup : forall {V} (fs : list (name * V)) k v, NoDup (map fst fs) -> In (k, v) fs -> lookup k fs = Some v.
Proof.
  induction fs as [|[k0 v0] r IH]; simpl; intros k v ND HI; [tauto|]. inv ND.
  destruct HI as [E|HI].
  - inv E. now rewrite Z.eqb_refl.
  - destruct (k =? k0) eqn:E.
    + apply Z.eqb_eq in E. subst. exfalso. apply H1. apply in_map_iff. exists (k0, v). auto.
    + auto.
Qed.

Lemma noop_list : forall is st, Forall (fun i => exec_instr st i = Some st) is -> exec_list st is = Some st.
Proof. induction is; simpl; intros; auto. inv H. rewrite H2. auto. Qed.

Lemma exec_list_cons : forall i r st st', exec_list st (i :: r) = Some st' ->
  exists st1, exec_instr st i = Some st1 /\ exec_list st1 r = Some st'.
Proof. simpl. intros. destruct (exec_instr st i); try discriminate. eauto. Qed.

Section Idem.
  Variable S : sig.
  Hypothesis WF : wf_sig S.
  Hypothesis SI : simple_init S.
  Variable B : bodies.

  (* the default field values of a type object survive every instruction but its own GlobalStruct *)
  Lemma exec_tfields : forall st i st' t ta ty, Inv S st -> instr_ok S i -> exec_instr st i = Some st' ->
    In t (tnames S) -> gget st t = VType ta -> nth_error (types st) ta = Some ty ->
    (forall fs, i <> GlobalStruct t fs) ->
    gget st' t = VType ta /\ exists ty', nth_error (types st') ta = Some ty' /\ tfields ty' = tfields ty.
  Proof.
    intros st i st' t ta ty I OK E T G N NE.
    split.
    { destruct (exec_types S WF _ _ _ OK E) as [_ TG]. destruct (TG t T) as [EQ|(G0 & _)]; congruence. }
    destruct i; simpl in OK.
    - apply exec_GlobalStruct in E. destruct E as [[G0 ->]|(ta0 & ty0 & G0 & N0 & ->)]; simpl.
      + exists ty. split; auto. now apply nth_app_old.
      + assert (ta0 <> ta).
        { intro. subst. assert (t0 = t) by (eapply (inv_tyinj S st I); eauto). subst. eapply NE; eauto. }
        exists ty. split; auto. rewrite nth_upd_other; auto.
    - apply exec_SetMethod in E. destruct E as (ta0 & ty0 & G0 & N0 & [(a & _ & _ & ->)|(_ & ->)]); simpl.
      + eauto.
      + destruct (Nat.eq_dec ta0 ta).
        * subst. rewrite nth_upd_same by (eapply nth_lt; eauto). eexists. split; eauto. simpl. congruence.
        * exists ty. split; auto. rewrite nth_upd_other; auto.
    - apply exec_GlobalFunc in E. destruct E as [[_ ->]|(a & _ & _ & ->)]; simpl; eauto.
    - apply exec_GlobalZero in E. destruct E as [[_ ->]|[_ ->]]; simpl; eauto.
    - apply exec_GlobalSet in E. destruct E as (st1 & v & _ & (TT & _) & ->). simpl. rewrite TT. eauto.
  Qed.

  Lemma exec_list_tfields : forall is st st' t ta ty, Inv S st -> Forall (instr_ok S) is -> exec_list st is = Some st' ->
    In t (tnames S) -> gget st t = VType ta -> nth_error (types st) ta = Some ty ->
    Forall (fun i => forall fs, i <> GlobalStruct t fs) is ->
    gget st' t = VType ta /\ exists ty', nth_error (types st') ta = Some ty' /\ tfields ty' = tfields ty.
  Proof.
    induction is as [|i is IH]; simpl; intros st st' t ta ty I OK E T G N NE.
    - inv E. eauto.
    - inv OK. inv NE. destruct (exec_instr st i) as [st1|] eqn:E1; try discriminate.
      destruct (exec_tfields _ _ _ _ _ _ I H1 E1 T G N H3) as (G1 & ty1 & N1 & TF1).
      destruct (IH _ _ _ _ _ (exec_inv S WF _ _ _ H1 I E1) H2 E T G1 N1 H4) as (G2 & ty2 & N2 & TF2).
      split; auto. exists ty2. split; auto. congruence.
  Qed.

  (* facts about the state right after a Load *)
  Lemma post_types : forall st st1 t fs, Inv S st -> exec_list st (version_of S B) = Some st1 -> In (t, fs) (stypes S) ->
    exists ta ty, gget st1 t = VType ta /\ nth_error (types st1) ta = Some ty /\
                  forall k v, In (k, v) fs -> lookup k (tfields ty) = Some v.
  Proof.
    intros st st1 t fs I E HI.
    destruct (in_split _ _ HI) as (s1 & s2 & EQ).
    pose proof (wf_fields S WF t fs HI) as NDF.
    destruct (version_ok S B) as [VO _].
    assert (T : In t (tnames S)) by (unfold tnames; apply in_map_iff; exists (t, fs); auto).
    set (GS := fun tf : name * list (name * val) => GlobalStruct (fst tf) (snd tf)).
    assert (VEQ : version_of S B = (map GS s1 ++ GlobalStruct t fs :: (map GS s2 ++
               map (fun tm => SetMethod (fst tm) (snd tm) (mbody B (fst tm) (snd tm))) (smethods S)
               ++ map (fun n => GlobalFunc n (fbody B n)) (sfuncs S) ++ map vinstr (svars S)))%list).
    { unfold version_of. fold GS. rewrite EQ. rewrite map_app. simpl. now rewrite <- app_assoc. }
    rewrite VEQ in VO. apply Forall_app in VO. destruct VO as [VO1 VO2]. inv VO2.
    rewrite VEQ in E. apply exec_list_app in E. destruct E as (sa & E1 & E2).
    apply exec_list_cons in E2. destruct E2 as (sb & EB & E2).
    pose proof (exec_list_inv S WF _ _ _ VO1 I E1) as Ia.
    pose proof (exec_inv S WF _ _ _ H1 Ia EB) as Ib.
    assert (exists ta ty, gget sb t = VType ta /\ nth_error (types sb) ta = Some ty /\
                          forall k v, In (k, v) fs -> lookup k (tfields ty) = Some v) as (ta & ty & Gb & Nb & Lb).
    { apply exec_GlobalStruct in EB. destruct EB as [[G0 ->]|(ta & ty & G0 & N0 & ->)].
      - exists (length (types sa)), (mkTy fs []). rewrite gget_gset_same. simpl. rewrite nth_app_new.
        repeat split; auto. intros. now apply lookup_nodup.
      - exists ta. eexists. simpl. rewrite gget_set_types. rewrite nth_upd_same by (eapply nth_lt; eauto).
        repeat split; eauto. simpl. intros. now apply lookup_fold_upsert. }
    assert (NE : Forall (fun i => forall fs', i <> GlobalStruct t fs')
                   (map GS s2 ++ map (fun tm => SetMethod (fst tm) (snd tm) (mbody B (fst tm) (snd tm))) (smethods S)
                    ++ map (fun n => GlobalFunc n (fbody B n)) (sfuncs S) ++ map vinstr (svars S))%list).
    { pose proof (wf_names S WF) as ND. unfold tnames in ND. rewrite EQ in ND. rewrite map_app in ND. simpl in ND.
      repeat rewrite Forall_app. repeat split; apply Forall_forall; intros i II; apply in_map_iff in II;
        destruct II as (x & <- & II); intros fs' EE; try discriminate; try (destruct x; discriminate).
      unfold GS in EE. injection EE as EF _.
      rewrite <- app_assoc in ND. apply nodup_app_r in ND. simpl in ND. apply NoDup_cons_iff in ND.
      destruct ND as [NI _]. apply NI. apply in_or_app. left. rewrite <- EF. apply in_map. exact II. }
    destruct (exec_list_tfields _ _ _ _ _ _ Ib H2 E2 T Gb Nb NE) as (G1 & ty1 & N1 & TF1).
    exists ta, ty1. repeat split; auto. intros. rewrite TF1. auto.
  Qed.

  Lemma post_zero : forall st st1 n z, exec_list st (version_of S B) = Some st1 -> In (VZero n z) (svars S) ->
    is_nil (gget st1 n) = false \/ lookup n (globals st1) = Some z.
  Proof.
    intros st st1 n z E HI. destruct (version_split S WF B _ HI) as (v1 & v2 & _ & EQ & W1 & W2). simpl in *.
    rewrite EQ in E. apply exec_list_app in E. destruct E as (sa & E1 & E2).
    apply exec_list_cons in E2. destruct E2 as (sb & EB & E2).
    pose proof (exec_list_writes _ _ _ _ E2 W2) as L.
    apply exec_GlobalZero in EB. destruct EB as [[NIL ->]|[NIL ->]].
    - right. rewrite L. unfold gset. simpl. apply lookup_upsert_same.
    - left. rewrite (gget_lookup _ _ _ L). exact NIL.
  Qed.

  Lemma post_const : forall st st1 n z, exec_list st (version_of S B) = Some st1 -> In (VSet n (EArg (AConst z))) (svars S) ->
    lookup n (globals st1) = Some (VInt z).
  Proof.
    intros st st1 n z E HI. destruct (version_split S WF B _ HI) as (v1 & v2 & _ & EQ & W1 & W2). simpl in *.
    rewrite EQ in E. apply exec_list_app in E. destruct E as (sa & E1 & E2). simpl in E2.
    rewrite (exec_list_writes _ _ _ _ E2 W2). unfold gset. simpl. apply lookup_upsert_same.
  Qed.

  Lemma post_funcref : forall st st1 n f, Inv S st -> exec_list st (version_of S B) = Some st1 ->
    In (VSet n (EArg (APath (PGlobal f)))) (svars S) -> In f (sfuncs S) ->
    lookup n (globals st1) = Some (gget st1 f).
  Proof.
    intros st st1 n f I E HI HF.
    destruct (state_funcref S WF B _ _ _ _ HI HF E) as [EQ [a G]].
    (* the slot exists: it was written by this Load *)
    destruct (version_split S WF B _ HI) as (v1 & v2 & _ & VEQ & W1 & W2). simpl in *.
    rewrite VEQ in E. apply exec_list_app in E. destruct E as (sa & E1 & E2). simpl in E2.
    pose proof (exec_list_writes _ _ _ _ E2 W2) as L. unfold gset in L. simpl in L.
    rewrite lookup_upsert_same in L. rewrite L. f_equal.
    rewrite <- EQ. unfold gget. now rewrite L.
  Qed.

  Theorem load_idem : forall st st1, Inv S st -> exec_list st (version_of S B) = Some st1 ->
    exec_list st1 (version_of S B) = Some st1.
  Proof.
    intros st st1 I E. apply noop_list.
    destruct (version_ok S B) as [VO VB].
    pose proof (exec_list_inv S WF _ _ _ VO I E) as I1.
    assert (P1 : forall k, key_ok S k -> exists a, fn_addr st1 k = Some a /\ nth_error (funcs st1) a = Some (FBody (body_of B k))).
    { intros k KO. destruct (exec_list_defined S WF _ _ _ VO I E k KO (version_has_key S B k KO)) as [a F].
      exists a. split; auto.
      destruct (exec_list_latest S WF B _ _ _ VO VB I E k a KO F) as [Y _]. apply Y. now apply version_has_key. }
    unfold version_of. repeat rewrite Forall_app. repeat split; apply Forall_forall; intros i II;
      apply in_map_iff in II; destruct II as (x & <- & II).
    - (* GlobalStruct *)
      destruct x as [t fs]. simpl.
      destruct (post_types _ _ _ _ I E II) as (ta & ty & G & N & L).
      rewrite G, N. rewrite fold_upsert_noop by exact L.
      assert (mkTy (tfields ty) (tmethods ty) = ty) as -> by (destruct ty; reflexivity).
      rewrite upd_noop by exact N. now rewrite st_eta_types.
    - (* SetMethod *)
      destruct x as [t m]. simpl fst. simpl snd.
      destruct (P1 (KMeth t m) II) as (a & F & C). simpl in F. simpl.
      destruct (gget st1 t); try discriminate. destruct (nth_error (types st1) a0) as [ty|]; try discriminate.
      destruct (lookup m (tmethods ty)) as [[| |a1| |]|]; try discriminate. inv F.
      unfold overwrite. pose proof (nth_lt _ _ _ C) as LT. apply Nat.ltb_lt in LT. rewrite LT.
      simpl in C. rewrite upd_noop by exact C. now rewrite st_eta_funcs.
    - (* GlobalFunc *)
      destruct (P1 (KFunc x) II) as (a & F & C). simpl in F. simpl.
      destruct (gget st1 x); try discriminate. inv F.
      unfold overwrite. pose proof (nth_lt _ _ _ C) as LT. apply Nat.ltb_lt in LT. rewrite LT.
      simpl in C. rewrite upd_noop by exact C. now rewrite st_eta_funcs.
    - (* variables *)
      destruct x as [n z|n e]; simpl.
      + destruct (post_zero _ _ _ _ E II) as [NN|L].
        * now rewrite NN.
        * destruct (is_nil (gget st1 n)); auto. unfold gset. rewrite upsert_noop by exact L. now rewrite st_eta_globals.
      + destruct (SI _ _ II) as [[z ->]|(f & -> & HF)]; simpl.
        * unfold gset. rewrite upsert_noop by (eapply post_const; eauto). now rewrite st_eta_globals.
        * unfold gset. rewrite (upsert_noop _ _ _ (post_funcref _ _ _ _ I E II HF)). now rewrite st_eta_globals.
  Qed.
End Idem.

(* over histories: Load v; Load v is observationally equal to Load v *)
Theorem idem : forall S beta, wf_sig S -> simple_init S ->
  forall h0 st o0 v h, hist_ok S h0 -> run (prog S beta) init_state h0 = Some (st, o0) ->
    run (prog S beta) st (HLoad v :: HLoad v :: h) = run (prog S beta) st (HLoad v :: h).
Proof.
  intros S beta WF SI h0 st o0 v h OK R.
  destruct (run_good S WF beta _ _ _ _ OK (inv_init S) R) as (I & _).
  simpl. destruct (exec_list st (prog S beta v)) as [st1|] eqn:E; auto.
  unfold prog in *. rewrite (load_idem S WF SI (beta v) _ _ I E).
  destruct (run (fun v0 => version_of S (beta v0)) st1 h) as [[st2 ob]|]; reflexivity.
Qed.
