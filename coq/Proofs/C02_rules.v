(* C02: every peephole rule of the table regenerated from compiler.go is semantically transparent:
   executing the window instruction by instruction equals executing the fused instruction, from
   every frame state, for every heap, every object oracle. *)
From Coq Require Import ZArith List String Bool Lia Floats.
From GV Require Import GoSpec.GoPrim Gen.ValueOps_gen Gen.Tables_gen Model.PeepTypes Model.VM Model.Peephole Proofs.C04_ops.
Import ListNotations.
Open Scope Z_scope.

Ltac Zify.zify_post_hook ::= Z.div_mod_to_equations.

(* ---- arithmetic facts used by the guards ------------------------------------------------ *)

(* joinParams / splitParams round-trip on 16-bit signed operands *)
Lemma split_join x y : -32768 <= x <= 32767 -> -32768 <= y <= 32767 ->
  splitParams (joinParams x y) = (x, y).
Proof.
  intros Hx Hy. unfold splitParams, joinParams.
  set (u := x + 32768). set (v := y + 32768).
  assert (Hu : 0 <= u < 2 ^ 16) by (norm_pow; lia).
  assert (Hv : 0 <= v < 2 ^ 16) by (norm_pow; lia).
  change 65535 with (Z.ones 16).
  rewrite (Z.land_ones u 16), (Z.land_ones v 16) by lia.
  rewrite (Z.mod_small u), (Z.mod_small v) by assumption.
  assert (E1 : Z.land (Z.shiftr (Z.lor (Z.shiftl u 16) v) 16) (Z.ones 16) = u).
  { rewrite Z.shiftr_lor, Z.shiftr_shiftl_l by lia. rewrite Z.sub_diag, Z.shiftl_0_r.
    rewrite (Z.shiftr_div_pow2 v 16) by lia. rewrite (Z.div_small v) by assumption.
    rewrite Z.lor_0_r, Z.land_ones by lia. apply Z.mod_small; assumption. }
  assert (E2 : Z.land (Z.lor (Z.shiftl u 16) v) (Z.ones 16) = v).
  { rewrite Z.land_lor_distr_l, !Z.land_ones by lia.
    rewrite Z.shiftl_mul_pow2 by lia. rewrite Z.mod_mul by (norm_pow; lia).
    rewrite Z.lor_0_l. apply Z.mod_small; assumption. }
  rewrite E1, E2. subst u v. f_equal; lia.
Qed.

Definition small16 (x : Z) : bool := (-32768 <=? x) && (x <=? 32767).
Lemma small16_spec x : small16 x = true -> -32768 <= x <= 32767.
Proof. unfold small16. lia. Qed.

Definition is_int_tag (t : Z) : bool :=
  (t =? TypeUint8) || (t =? TypeInt8) || (t =? TypeUint32) || (t =? TypeInt32).

Lemma in_range_32_64 n : in_range I32 n = true -> in_range I64 n = true.
Proof. unfold in_range, lo, hi; cbv [signed bits modulus half]; lia. Qed.

(* conversion of a small untyped constant to a typed integer is two's-complement wrap *)
Lemma cvt_small_wrap t n : typed t = true -> in_range I32 n = true -> cvt t (Zn n) = wrap t n.
Proof.
  intros Ht Hn. pose proof (in_range_32_64 n Hn) as H64.
  destruct t; try discriminate; unfold cvt, cvt_z, cvt32, cvt64; rewrite ?Hn, ?H64; try reflexivity.
  symmetry; apply wrap_id; assumption.
Qed.

Lemma add_sub_wrap t x n : typed t = true -> wrap t (x + wrap t n) = wrap t (x - wrap t (- n)).
Proof. destruct t; try discriminate; intros _; unfold wrap; cbv [signed modulus half]; lia. Qed.

Lemma is_int_tag_cases t : is_int_tag t = true ->
  t = TypeUint8 \/ t = TypeInt8 \/ t = TypeUint32 \/ t = TypeInt32.
Proof. unfold is_int_tag. lia. Qed.

(* a + c = a - (-c) in every typed integer type, for every payload of the typed operand *)
Lemma add_neg_is_sub a n : is_int_tag (vt a) = true -> -2147483648 < n < 2147483648 ->
  Value_opAdd a (fn_newUntypedInt n) = Ok (Value_opSub a (fn_newUntypedInt (- n))).
Proof.
  intros Ht Hn. destruct a as [t nu p]. cbn [vt] in Ht.
  assert (R1 : in_range I32 n = true) by (unfold in_range, lo, hi; cbv [signed bits modulus half]; lia).
  assert (R2 : in_range I32 (- n) = true) by (unfold in_range, lo, hi; cbv [signed bits modulus half]; lia).
  apply is_int_tag_cases in Ht.
  destruct Ht as [->|[->|[->| ->]]];
    unfold Value_opAdd, Value_opSub, fn_mixType, fn_newUntypedInt;
    cbn [vt vnum vval mkV Z.lor Pos.lor Z.eqb Pos.eqb
         TypeInt8 TypeUint8 TypeInt32 TypeUint32 TypeFloat64 TypeString untypedInt];
    unfold iadd, isub.
  - rewrite (cvt_small_wrap U8 n eq_refl R1), (cvt_small_wrap U8 (- n) eq_refl R2), (add_sub_wrap U8) by reflexivity; reflexivity.
  - rewrite (cvt_small_wrap I8 n eq_refl R1), (cvt_small_wrap I8 (- n) eq_refl R2), (add_sub_wrap I8) by reflexivity; reflexivity.
  - rewrite (cvt_small_wrap U32 n eq_refl R1), (cvt_small_wrap U32 (- n) eq_refl R2), (add_sub_wrap U32) by reflexivity; reflexivity.
  - rewrite (cvt_small_wrap I32 n eq_refl R1), (cvt_small_wrap I32 (- n) eq_refl R2), (add_sub_wrap I32) by reflexivity; reflexivity.
Qed.

Lemma ineg64_small n : in_range I64 (- n) = true -> ineg I64 n = - n.
Proof. intro H. unfold ineg. apply wrap_id; assumption. Qed.

Lemma bind_ok_id {A} (x : res A) : (r1 <- x ;; Ok r1) = x.
Proof. destruct x; reflexivity. Qed.

(* PUSH n; ADD  =  INCDEC n *)
Lemma incdec_add_nonneg a n : 0 <= n -> Value_incDec a n = Value_opAdd a (fn_newUntypedInt n).
Proof.
  intro H. unfold Value_incDec. destruct (n <? 0) eqn:E; [lia|]. apply bind_ok_id.
Qed.
(* the negative direction on typed integers: x + (-c) = x - c *)
Lemma incdec_add_neg_int a n : is_int_tag (vt a) = true -> -2147483648 < n < 0 ->
  Value_incDec a n = Value_opAdd a (fn_newUntypedInt n).
Proof.
  intros Ht Hn. unfold Value_incDec. destruct (n <? 0) eqn:E; [|lia].
  rewrite ineg64_small by (unfold in_range, lo, hi; cbv [signed bits modulus half]; lia).
  rewrite add_neg_is_sub by (assumption || lia). reflexivity.
Qed.
(* PUSH n; SUB  =  INCDEC (-n) *)
Lemma incdec_sub_pos a n : 0 < n -> n <= 9223372036854775807 ->
  Value_incDec a (- n) = Ok (Value_opSub a (fn_newUntypedInt n)).
Proof.
  intros H H'. unfold Value_incDec. destruct (- n <? 0) eqn:E; [|lia].
  rewrite ineg64_small by (unfold in_range, lo, hi; cbv [signed bits modulus half]; lia).
  rewrite Z.opp_involutive. reflexivity.
Qed.
Lemma incdec_sub_nonpos_int a n : is_int_tag (vt a) = true -> -2147483648 < n <= 0 ->
  Value_incDec a (- n) = Ok (Value_opSub a (fn_newUntypedInt n)).
Proof.
  intros Ht Hn. unfold Value_incDec. destruct (- n <? 0) eqn:E; [lia|]. rewrite bind_ok_id.
  rewrite add_neg_is_sub by (assumption || lia). rewrite Z.opp_involutive. reflexivity.
Qed.

(* the lemma asked for: on typed integers (any payload, in particular in-range ones), the fused
   INCDEC with a NEGATIVE step equals the unfused PUSH n; ADD *)
Lemma incdec_neg_int t a n : typed t = true -> in_range t a = true -> -2147483648 < n < 0 ->
  Value_opAdd (V t a) (Untyped n) = Value_incDec (V t a) n.
Proof.
  intros Ht _ Hn. symmetry. apply (incdec_add_neg_int (V t a) n); [|assumption].
  destruct t; try discriminate; reflexivity.
Qed.
Lemma incdec_neg_int_sub t a n : typed t = true -> in_range t a = true -> -2147483648 < n <= 0 ->
  Ok (Value_opSub (V t a) (Untyped n)) = Value_incDec (V t a) (- n).
Proof.
  intros Ht _ Hn. symmetry. apply (incdec_sub_nonpos_int (V t a) n); [|assumption].
  destruct t; try discriminate; reflexivity.
Qed.

(* x++ keeps the tag of a numeric value, so re-assigning to the old tag is the identity *)
Lemma incdec_tag v n r : is_num_tag (vt v) = true -> Value_incDec v n = Ok r -> vt r = vt v.
Proof.
  intros Ht H. destruct v as [t nu p]. cbn [vt] in *.
  assert (Hc : t = untypedInt \/ t = TypeUint8 \/ t = TypeInt8 \/ t = TypeUint32 \/ t = TypeInt32 \/ t = TypeFloat64)
    by (unfold is_num_tag in Ht; lia).
  unfold Value_incDec in H. destruct (n <? 0).
  - inversion H; subst r; clear H.
    destruct Hc as [->|[->|[->|[->|[->| ->]]]]]; reflexivity.
  - rewrite bind_ok_id in H.
    destruct Hc as [->|[->|[->|[->|[->| ->]]]]]; inversion H; reflexivity.
Qed.
Lemma assign_same v : Value_assign v (vt v) = v.
Proof. unfold Value_assign. rewrite Z.eqb_refl. reflexivity. Qed.

(* ---- the same facts for EVERY operand (floats, untyped constants), from Coq's IEEE-754 float specification ------
   (Coq.Floats specification facts add_spec, sub_spec, opp_spec, SF2Prim_Prim2SF).  Not used by c02_rule_sound, which stays
   free of them; used by c02_rule_sound_ieee below. *)

Lemma SFsub_add_opp prec emax x y : SFsub prec emax x y = SFadd prec emax x (SFopp y).
Proof.
  destruct x as [sx|sx| |sx mx ex], y as [sy|sy| |sy my ey]; cbn; try reflexivity.
  destruct sy; cbn; f_equal; lia.
Qed.
Lemma float_add_opp f g : PrimFloat.add f (PrimFloat.opp g) = PrimFloat.sub f g.
Proof.
  apply Prim2SF_inj. rewrite add_spec, sub_spec, opp_spec. unfold SF64add, SF64sub.
  symmetry. apply SFsub_add_opp.
Qed.
Lemma float_opp_opp g : PrimFloat.opp (PrimFloat.opp g) = g.
Proof.
  apply Prim2SF_inj. rewrite !opp_spec. destruct (Prim2SF g); cbn; rewrite ?negb_involutive; reflexivity.
Qed.
Lemma as_float_neg c : c <> 0 -> as_float (Zn c) = PrimFloat.opp (as_float (Zn (- c))).
Proof.
  intro Hc. cbn [as_float]. unfold float_of_Z.
  destruct (c <? 0) eqn:E1; destruct (- c <? 0) eqn:E2; try lia.
  - reflexivity.
  - rewrite float_opp_opp, Z.opp_involutive. reflexivity.
Qed.
(* x + c = x - (-c) on the float64 payload, c <> 0 (c = 0: -0.0 + 0 = +0.0 but -0.0 - 0 = -0.0) *)
Lemma num_add_sub_opp nu c : c <> 0 -> num_add nu (Zn c) = num_sub nu (Zn (- c)).
Proof.
  intro Hc. unfold num_add, num_sub, num_arith. pose proof (as_float_neg c Hc) as E.
  destruct nu as [x|f].
  - replace (x - - c) with (x + c) by lia. replace (Z.abs (- c)) with (Z.abs c) by lia.
    destruct ((Z.abs x <=? two53) && (Z.abs c <=? two53) && (Z.abs (x + c) <=? two53)); [reflexivity|].
    rewrite E, float_add_opp. reflexivity.
  - rewrite E, float_add_opp. reflexivity.
Qed.
Lemma lor1_not_string t : (Z.lor t untypedInt =? TypeString) = false.
Proof.
  apply Z.eqb_neq. intro H. apply (f_equal Z.odd) in H. rewrite <- !Z.bit0_odd, Z.lor_spec in H.
  rewrite orb_true_r in H. discriminate H.
Qed.
Lemma add_sub_any a c : -2147483648 < c < 2147483648 -> c <> 0 ->
  Value_opAdd a (fn_newUntypedInt c) = Ok (Value_opSub a (fn_newUntypedInt (- c))).
Proof.
  intros Hr Hc.
  assert (R1 : in_range I32 c = true) by (unfold in_range, lo, hi; cbv [signed bits modulus half]; lia).
  assert (R2 : in_range I32 (- c) = true) by (unfold in_range, lo, hi; cbv [signed bits modulus half]; lia).
  unfold Value_opAdd, Value_opSub, fn_mixType, fn_newUntypedInt.
  cbn [vt vnum vval mkV Z.eqb Pos.eqb untypedInt]. fold untypedInt.
  rewrite (num_add_sub_opp (vnum a) c Hc), lor1_not_string.
  destruct (Z.lor (vt a) untypedInt =? TypeFloat64); [reflexivity|].
  destruct (Z.lor (vt a) untypedInt =? TypeInt32).
  { unfold iadd, isub. rewrite (cvt_small_wrap I32 c eq_refl R1), (cvt_small_wrap I32 (- c) eq_refl R2), (add_sub_wrap I32) by reflexivity; reflexivity. }
  destruct (Z.lor (vt a) untypedInt =? TypeUint32).
  { unfold iadd, isub. rewrite (cvt_small_wrap U32 c eq_refl R1), (cvt_small_wrap U32 (- c) eq_refl R2), (add_sub_wrap U32) by reflexivity; reflexivity. }
  destruct (Z.lor (vt a) untypedInt =? TypeInt8).
  { unfold iadd, isub. rewrite (cvt_small_wrap I8 c eq_refl R1), (cvt_small_wrap I8 (- c) eq_refl R2), (add_sub_wrap I8) by reflexivity; reflexivity. }
  destruct (Z.lor (vt a) untypedInt =? TypeUint8).
  { unfold iadd, isub. rewrite (cvt_small_wrap U8 c eq_refl R1), (cvt_small_wrap U8 (- c) eq_refl R2), (add_sub_wrap U8) by reflexivity; reflexivity. }
  reflexivity.
Qed.
Lemma incdec_add_any a n : -2147483648 < n -> Value_incDec a n = Value_opAdd a (fn_newUntypedInt n).
Proof.
  intro H. destruct (Z_le_gt_dec 0 n) as [Hn|Hn]; [apply incdec_add_nonneg; assumption|].
  unfold Value_incDec. destruct (n <? 0) eqn:E; [|lia].
  rewrite ineg64_small by (unfold in_range, lo, hi; cbv [signed bits modulus half]; lia).
  rewrite add_sub_any by lia. reflexivity.
Qed.
Lemma incdec_sub_any a n : -2147483648 < n <= 9223372036854775807 -> n <> 0 \/ is_int_tag (vt a) = true ->
  Value_incDec a (- n) = Ok (Value_opSub a (fn_newUntypedInt n)).
Proof.
  intros H Hz. destruct (Z_lt_ge_dec 0 n) as [Hn|Hn]; [apply incdec_sub_pos; lia|].
  destruct (Z.eq_dec n 0) as [->|Hn0].
  - destruct Hz as [Hz|Hz]; [contradiction|]. apply incdec_sub_nonpos_int; [assumption|lia].
  - unfold Value_incDec. destruct (- n <? 0) eqn:E; [lia|]. rewrite bind_ok_id.
    rewrite add_sub_any by lia. rewrite Z.opp_involutive. reflexivity.
Qed.

Lemma incdec_add_guard a n :
  (0 <=? n) || (is_int_tag (vt a) && (-2147483648 <? n)) = true ->
  Value_incDec a n = Value_opAdd a (fn_newUntypedInt n).
Proof.
  intro H. destruct (Z_le_gt_dec 0 n) as [Hn|Hn].
  - apply incdec_add_nonneg; assumption.
  - apply incdec_add_neg_int; [destruct (is_int_tag (vt a)); [reflexivity|lia] | lia].
Qed.
Lemma incdec_sub_guard a n :
  ((0 <? n) && (n <=? 9223372036854775807)) || (is_int_tag (vt a) && (-2147483648 <? n) && (n <=? 0)) = true ->
  Value_incDec a (- n) = Ok (Value_opSub a (fn_newUntypedInt n)).
Proof.
  intro H. destruct (Z_lt_ge_dec 0 n) as [Hn|Hn].
  - apply incdec_sub_pos; [assumption|]. destruct (is_int_tag (vt a)); lia.
  - apply incdec_sub_nonpos_int; [destruct (is_int_tag (vt a)); [reflexivity|lia] | lia].
Qed.

Definition nonempty {A} (l : list A) : bool := match l with [] => false | _ => true end.

(* ---- the guard ---------------------------------------------------------------------------- *)

Inductive gkind := GNone | GLocalIncDec | GNeedOperand | GIntKey | GIntKeyOperand | GCallAttr | GIncAdd | GIncSub.
Definition guard_kind (r : rule) : gkind :=
  let out := r_out r in
  if String.eqb out "codeLocalIncDec" then GLocalIncDec
  else if String.eqb out "codeFastSet" || String.eqb out "codeFastSetAttr" then GNeedOperand
  else if String.eqb out "codeFastGetInt" then GIntKey
  else if String.eqb out "codeFastSetInt" then GIntKeyOperand
  else if String.eqb out "codeFastCallAttr" then GCallAttr
  else if String.eqb out "codeIncDec" then
    (if String.eqb (nth 1 (r_codes r) ""%string) "codeAdd" then GIncAdd else GIncSub)
  else GNone.

Section Rules.
  Variable grow : Z -> Z -> Z.
  Variable ext_get : st -> value -> value -> option (res value).
  Variable ext_set : st -> value -> value -> value -> option (res st).
  Variable ext_len : st -> value -> option Z.
  Variable ext_getattr : st -> value -> Z -> option (res (value * st)).
  Variable ext_setattr : st -> value -> Z -> value -> option (res st).
  (* container keys are used only through their numeric payload and object payload, never through the tag
     (sliceT.Get uses k.Int(), numericMap uses k.num, stringMap uses the string) *)
  Hypothesis ext_get_key : forall s r k k', vnum k = vnum k' -> vval k = vval k' -> ext_get s r k = ext_get s r k'.
  Hypothesis ext_set_key : forall s r k k' v, vnum k = vnum k' -> vval k = vval k' -> ext_set s r k v = ext_set s r k' v.

  Notation step1 := (step1 grow ext_get ext_set ext_len ext_getattr ext_setattr).

  (* run the instructions of a window one after the other; every instruction but the last must fall
     through (SNext, or SJump 0 which is the same thing); the result of the window is the result of the last *)
  Fixpoint run_window (codes : list instr) (pc : Z) (w : list instr) (slots ops : list value) (s : st) : sres :=
    match w with
    | [] => SNext slots ops s
    | [i] => step1 codes pc i slots ops s
    | i :: w' =>
        match step1 codes pc i slots ops s with
        | SNext slots' ops' s' => run_window codes (pc + 1) w' slots' ops' s'
        | SJump 0 slots' ops' s' => run_window codes (pc + 1) w' slots' ops' s'
        | r => r
        end
    end.

  (* observational equality of step results: a jump by 0 is a fall-through *)
  Definition sres_equiv (a b : sres) : Prop :=
    a = b \/
    (exists slots ops s, (a = SJump 0 slots ops s /\ b = SNext slots ops s) \/ (a = SNext slots ops s /\ b = SJump 0 slots ops s)).

  (* The side condition under which rule r applied to window w is transparent in a frame with local
     slots [slots] and operand stack [ops]:
     - LocalIncDec: the incremented slot holds a numeric value (LOCALSET re-assigns to the slot's tag);
     - FastSet / FastSetInt / FastSetAttr / IncDec: the operand stack is not empty (on underflow both
       sides are SStuck, but with different diagnostic strings);
     - FastGetInt / FastSetInt: the PUSH constant is within int32 (PUSH gives an untyped constant, the
       fused instruction an int32);
     - FastCallAttr: the CALL operands fit the 16-bit halves of joinParams;
     - PUSH n; ADD -> INCDEC n: n >= 0, or the operand is a typed integer and n > -2^31;
     - PUSH n; SUB -> INCDEC (-n): 0 < n <= MaxInt64, or the operand is a typed integer and -2^31 < n <= 0
       (n = 0 on the float64 -0.0 would be a genuine difference: -0.0 - 0 = -0.0 but incDec(0) = -0.0 + 0 = +0.0;
       the generated rule excludes n = 0 by its own side condition, so that window is not fused). *)
  Definition guard (r : rule) (w : list instr) (slots ops : list value) : bool :=
    let f := fused r w in
    match guard_kind r with
    | GNone => true
    | GLocalIncDec => match znth slots (iA f) with Some v => is_num_tag (vt v) | None => true end
    | GNeedOperand => nonempty ops
    | GIntKey => true
    | GIntKeyOperand => nonempty ops
    | GCallAttr => small16 (iA (win w 2)) && small16 (iB (win w 2))
    | GIncAdd =>
        match ops with
        | a :: _ => let n := iA (win w 0) in (0 <=? n) || (is_int_tag (vt a) && (-2147483648 <? n))
        | [] => false
        end
    | GIncSub =>
        match ops with
        | a :: _ => let n := iA (win w 0) in
                    ((0 <? n) && (n <=? 9223372036854775807)) || (is_int_tag (vt a) && (-2147483648 <? n) && (n <=? 0))
        | [] => false
        end
    end.

  (* the form of the side condition the proof uses: for the two INCDEC rules, exactly the value-level
     equation needed; [guard] and [guard_ieee] both imply it *)
  Definition guardP (r : rule) (w : list instr) (slots ops : list value) : Prop :=
    match guard_kind r with
    | GIncAdd => match ops with
                 | a :: _ => Value_incDec a (iA (win w 0)) = Value_opAdd a (fn_newUntypedInt (iA (win w 0)))
                 | [] => False end
    | GIncSub => match ops with
                 | a :: _ => Value_incDec a (- iA (win w 0)) = Ok (Value_opSub a (fn_newUntypedInt (iA (win w 0))))
                 | [] => False end
    | _ => guard r w slots ops = true
    end.

  Lemma guard_guardP r w slots ops : guard r w slots ops = true -> guardP r w slots ops.
  Proof.
    unfold guardP. destruct (guard_kind r) eqn:K; try (intro H; exact H).
    - unfold guard; rewrite K. destruct ops as [|a l]; [discriminate|]. cbv zeta. apply incdec_add_guard.
    - unfold guard; rewrite K. destruct ops as [|a l]; [discriminate|]. cbv zeta. apply incdec_sub_guard.
  Qed.

  (* the weaker side condition available when Coq's IEEE-754 float specification is accepted: the INCDEC rules only
     need the constant in range, and PUSH 0; SUB a typed-integer operand *)
  Definition guard_ieee (r : rule) (w : list instr) (slots ops : list value) : bool :=
    match guard_kind r with
    | GIncAdd => match ops with a :: _ => -2147483648 <? iA (win w 0) | [] => false end
    | GIncSub => match ops with
                 | a :: _ => let n := iA (win w 0) in
                             (-2147483648 <? n) && (n <=? 9223372036854775807) && (negb (n =? 0) || is_int_tag (vt a))
                 | [] => false end
    | _ => guard r w slots ops
    end.

  Lemma guard_ieee_guardP r w slots ops : guard_ieee r w slots ops = true -> guardP r w slots ops.
  Proof.
    unfold guardP, guard_ieee. destruct (guard_kind r) eqn:K; try (intro H; exact H).
    - destruct ops as [|a l]; [discriminate|]. intro H. apply incdec_add_any. lia.
    - destruct ops as [|a l]; [discriminate|]. cbv zeta. intro H. apply incdec_sub_any; [lia|].
      destruct (is_int_tag (vt a)); [right; reflexivity | left; lia].
  Qed.
  Lemma guard_guard_ieee r w slots ops : guard r w slots ops = true -> guard_ieee r w slots ops = true.
  Proof.
    unfold guard_ieee, guard. destruct (guard_kind r); try (intro H; exact H);
      (destruct ops as [|a l]; [intro H; exact H|]); cbv zeta; destruct (is_int_tag (vt a)); lia.
  Qed.

  (* ---- one unfolding lemma per opcode ----------------------------------------------------- *)

  Ltac step_unfold := let H := fresh in intros H; unfold VM.step1; rewrite H; reflexivity.

  Section Steps.
    Variables (codes : list instr) (pc : Z) (i : instr) (slots ops : list value) (s : st).

    Lemma step1_Pass : icode i = c_Pass -> step1 codes pc i slots ops s = SNext slots ops s.
    Proof. step_unfold. Qed.
    Lemma step1_Push : icode i = c_Push -> step1 codes pc i slots ops s = SNext slots (fn_newUntypedInt (iA i) :: ops) s.
    Proof. step_unfold. Qed.
    Lemma step1_Add : icode i = c_Add -> step1 codes pc i slots ops s =
      match ops with b :: a :: r => slift (Value_opAdd a b) s (fun v => SNext slots (v :: r) s) | _ => SStuck "binary operator" end.
    Proof. step_unfold. Qed.
    Lemma step1_Sub : icode i = c_Sub -> step1 codes pc i slots ops s =
      match ops with b :: a :: r => slift (Ok (Value_opSub a b)) s (fun v => SNext slots (v :: r) s) | _ => SStuck "binary operator" end.
    Proof. step_unfold. Qed.
    Lemma step1_Mul : icode i = c_Mul -> step1 codes pc i slots ops s =
      match ops with b :: a :: r => slift (Ok (Value_opMul a b)) s (fun v => SNext slots (v :: r) s) | _ => SStuck "binary operator" end.
    Proof. step_unfold. Qed.
    Lemma step1_Div : icode i = c_Div -> step1 codes pc i slots ops s =
      match ops with b :: a :: r => slift (Value_opDiv a b) s (fun v => SNext slots (v :: r) s) | _ => SStuck "binary operator" end.
    Proof. step_unfold. Qed.
    Lemma step1_LocalAdd : icode i = c_LocalAdd -> step1 codes pc i slots ops s =
      match znth slots (iA i), znth slots (iB i) with
      | Some a, Some b => slift (Value_opAdd a b) s (fun v => SNext slots (v :: ops) s)
      | _, _ => SStuck "local slot" end.
    Proof. step_unfold. Qed.
    Lemma step1_LocalSub : icode i = c_LocalSub -> step1 codes pc i slots ops s =
      match znth slots (iA i), znth slots (iB i) with
      | Some a, Some b => slift (Ok (Value_opSub a b)) s (fun v => SNext slots (v :: ops) s)
      | _, _ => SStuck "local slot" end.
    Proof. step_unfold. Qed.
    Lemma step1_LocalMul : icode i = c_LocalMul -> step1 codes pc i slots ops s =
      match znth slots (iA i), znth slots (iB i) with
      | Some a, Some b => slift (Ok (Value_opMul a b)) s (fun v => SNext slots (v :: ops) s)
      | _, _ => SStuck "local slot" end.
    Proof. step_unfold. Qed.
    Lemma step1_LocalDiv : icode i = c_LocalDiv -> step1 codes pc i slots ops s =
      match znth slots (iA i), znth slots (iB i) with
      | Some a, Some b => slift (Value_opDiv a b) s (fun v => SNext slots (v :: ops) s)
      | _, _ => SStuck "local slot" end.
    Proof. step_unfold. Qed.
    Lemma step1_IncDec : icode i = c_IncDec -> step1 codes pc i slots ops s =
      match ops with a :: r => slift (Value_incDec a (iA i)) s (fun v => SNext slots (v :: r) s) | [] => SStuck "INCDEC" end.
    Proof. step_unfold. Qed.
    Lemma step1_LocalIncDec : icode i = c_LocalIncDec -> step1 codes pc i slots ops s =
      match znth slots (iA i) with
      | Some a => slift (Value_incDec a (iB i)) s (fun v => SNext (zset slots (iA i) v) ops s)
      | None => SStuck "local slot" end.
    Proof. step_unfold. Qed.
    Lemma step1_GlobalGet : icode i = c_GlobalGet -> step1 codes pc i slots ops s =
      match znth (globals s) (iA i) with Some v => SNext slots (v :: ops) s | None => SStuck "global index" end.
    Proof. step_unfold. Qed.
    Lemma step1_Const : icode i = c_Const -> step1 codes pc i slots ops s =
      match znth (globals s) (iA i) with Some v => SNext slots (v :: ops) s | None => SStuck "global index" end.
    Proof. step_unfold. Qed.
    Lemma step1_LocalGet : icode i = c_LocalGet -> step1 codes pc i slots ops s =
      match znth slots (iA i) with Some v => SNext slots (v :: ops) s | None => SStuck "local slot" end.
    Proof. step_unfold. Qed.
    Lemma step1_LocalSet : icode i = c_LocalSet -> step1 codes pc i slots ops s =
      match ops, znth slots (iA i) with
      | v :: r, Some old => SNext (zset slots (iA i) (Value_assign v (vt old))) r s
      | [], _ => SStuck "LOCALSET" | _, None => SStuck "local slot" end.
    Proof. step_unfold. Qed.
    Lemma step1_Jump : icode i = c_Jump -> step1 codes pc i slots ops s = SJump (iA i) slots ops s.
    Proof. step_unfold. Qed.
    Lemma step1_Call : icode i = c_Call -> step1 codes pc i slots ops s =
      match ops with
      | fv :: r => match addr_of fv with
                   | Some a => SCall true a (iA i) (iB i) slots r s
                   | None => SFail "interface conversion" s end
      | [] => SStuck "CALL" end.
    Proof. step_unfold. Qed.
    Lemma step1_FastCall : icode i = c_FastCall -> step1 codes pc i slots ops s =
      match znth (globals s) (iA i) with
      | Some fv => match addr_of fv with
                   | Some a => SCall true a (iB i) (iC i) slots ops s
                   | None => SFail "interface conversion" s end
      | None => SStuck "global index" end.
    Proof. step_unfold. Qed.
    Lemma step1_Get : icode i = c_Get -> step1 codes pc i slots ops s =
      match ops with
      | k :: r :: rest => match obj_get ext_get s r k (ipos i) with
                          | inl rv => slift rv s (fun v => SNext slots (v :: rest) s)
                          | inr w => SUnmod w end
      | _ => SStuck "GET" end.
    Proof. step_unfold. Qed.
    Lemma step1_Set : icode i = c_Set -> step1 codes pc i slots ops s =
      match ops with
      | key :: obj :: v :: rest => match obj_set ext_set s obj key v with
                                   | inl (Ok s') => SNext slots rest s'
                                   | inl _ => SFail "runtime error" s
                                   | inr w => SUnmod w end
      | _ => SStuck "SET" end.
    Proof. step_unfold. Qed.
    Lemma step1_FastGetInt : icode i = c_FastGetInt -> step1 codes pc i slots ops s =
      match znth slots (iA i) with
      | Some r => match obj_get ext_get s r (fn_newUntypedInt (iB i)) (ipos i) with
                  | inl rv => slift rv s (fun v => SNext slots (v :: ops) s)
                  | inr w => SUnmod w end
      | None => SStuck "local slot" end.
    Proof. step_unfold. Qed.
    Lemma step1_FastSetInt : icode i = c_FastSetInt -> step1 codes pc i slots ops s =
      match ops, znth slots (iA i) with
      | v :: rest, Some r => match obj_set ext_set s r (fn_newUntypedInt (iB i)) v with
                             | inl (Ok s') => SNext slots rest s'
                             | inl _ => SFail "runtime error" s
                             | inr w => SUnmod w end
      | [], _ => SStuck "FASTSETINT" | _, None => SStuck "local slot" end.
    Proof. step_unfold. Qed.
    Lemma step1_FastGet : icode i = c_FastGet -> step1 codes pc i slots ops s =
      match znth slots (iA i), znth (globals s) (iB i) with
      | Some r, Some k => match obj_get ext_get s r k (ipos i) with
                          | inl rv => slift rv s (fun v => SNext slots (v :: ops) s)
                          | inr w => SUnmod w end
      | None, _ => SStuck "local slot" | _, None => SStuck "global index" end.
    Proof. step_unfold. Qed.
    Lemma step1_FastSet : icode i = c_FastSet -> step1 codes pc i slots ops s =
      match ops, znth slots (iA i), znth (globals s) (iB i) with
      | v :: rest, Some r, Some k => match obj_set ext_set s r k v with
                                     | inl (Ok s') => SNext slots rest s'
                                     | inl _ => SFail "runtime error" s
                                     | inr w => SUnmod w end
      | [], _, _ => SStuck "FASTSET" | _, None, _ => SStuck "local slot" | _, _, None => SStuck "global index" end.
    Proof. step_unfold. Qed.
    Lemma step1_GetAttr : icode i = c_GetAttr -> step1 codes pc i slots ops s =
      match ops with
      | r :: rest => match ext_getattr s r (iA i) with
                     | Some (Ok (v, s')) => SNext slots (v :: rest) s'
                     | Some _ => SFail "runtime error" s
                     | None => SUnmod "getIndex" end
      | [] => SStuck "GETATTR" end.
    Proof. step_unfold. Qed.
    Lemma step1_SetAttr : icode i = c_SetAttr -> step1 codes pc i slots ops s =
      match ops with
      | obj :: v :: rest => match ext_setattr s obj (iA i) v with
                            | Some (Ok s') => SNext slots rest s'
                            | Some _ => SFail "runtime error" s
                            | None => SUnmod "setIndex" end
      | _ => SStuck "SETATTR" end.
    Proof. step_unfold. Qed.
    Lemma step1_FastGetAttr : icode i = c_FastGetAttr -> step1 codes pc i slots ops s =
      match znth slots (iA i) with
      | Some r => match ext_getattr s r (iB i) with
                  | Some (Ok (v, s')) => SNext slots (v :: ops) s'
                  | Some _ => SFail "runtime error" s
                  | None => SUnmod "getIndex" end
      | None => SStuck "local slot" end.
    Proof. step_unfold. Qed.
    Lemma step1_FastSetAttr : icode i = c_FastSetAttr -> step1 codes pc i slots ops s =
      match ops, znth slots (iA i) with
      | v :: rest, Some obj => match ext_setattr s obj (iB i) v with
                               | Some (Ok s') => SNext slots rest s'
                               | Some _ => SFail "runtime error" s
                               | None => SUnmod "setIndex" end
      | [], _ => SStuck "FASTSETATTR" | _, None => SStuck "local slot" end.
    Proof. step_unfold. Qed.
    Lemma step1_FastCallAttr : icode i = c_FastCallAttr -> step1 codes pc i slots ops s =
      match znth slots (iA i) with
      | Some obj => match ext_getattr s obj (iB i) with
                    | Some (Ok (fv, s')) =>
                        match addr_of fv with
                        | Some a => let '(c1, c2) := splitParams (iC i) in SCall true a c1 c2 slots ops s'
                        | None => SFail "interface conversion" s' end
                    | Some _ => SFail "runtime error" s
                    | None => SUnmod "getIndex" end
      | None => SStuck "local slot" end.
    Proof. step_unfold. Qed.
  End Steps.

  (* container access depends on the key only through its numeric payload and object payload *)
  Lemma obj_get_key s r k k' pos pos' : vnum k = vnum k' -> vval k = vval k' ->
    obj_get ext_get s r k pos = obj_get ext_get s r k' pos'.
  Proof.
    intros Hn Hv. unfold obj_get, Value_Int. rewrite Hn, (ext_get_key s r k k' Hn Hv). reflexivity.
  Qed.
  Lemma obj_set_key s r k k' v : vnum k = vnum k' -> vval k = vval k' ->
    obj_set ext_set s r k v = obj_set ext_set s r k' v.
  Proof.
    intros Hn Hv. unfold obj_set, Value_Int. rewrite Hn, (ext_set_key s r k k' v Hn Hv). reflexivity.
  Qed.
  Lemma push_key_num n : in_range I32 n = true -> vnum (fn_newUntypedInt n) = vnum (fn_Int n).
  Proof. intro H. unfold fn_newUntypedInt, fn_Int. cbn. rewrite (wrap_id I32 n H). reflexivity. Qed.
  Lemma push_key_val n : vval (fn_newUntypedInt n) = vval (fn_Int n).
  Proof. reflexivity. Qed.

  Lemma sres_equiv_refl a : sres_equiv a a.
  Proof. left; reflexivity. Qed.

  (* ---- tactics ---------------------------------------------------------------------------- *)

  Ltac rw_step H :=
    first [ rewrite (step1_Pass _ _ _ _ _ _ H) | rewrite (step1_Push _ _ _ _ _ _ H)
          | rewrite (step1_Add _ _ _ _ _ _ H) | rewrite (step1_Sub _ _ _ _ _ _ H)
          | rewrite (step1_Mul _ _ _ _ _ _ H) | rewrite (step1_Div _ _ _ _ _ _ H)
          | rewrite (step1_LocalAdd _ _ _ _ _ _ H) | rewrite (step1_LocalSub _ _ _ _ _ _ H)
          | rewrite (step1_LocalMul _ _ _ _ _ _ H) | rewrite (step1_LocalDiv _ _ _ _ _ _ H)
          | rewrite (step1_IncDec _ _ _ _ _ _ H) | rewrite (step1_LocalIncDec _ _ _ _ _ _ H)
          | rewrite (step1_GlobalGet _ _ _ _ _ _ H) | rewrite (step1_Const _ _ _ _ _ _ H)
          | rewrite (step1_LocalGet _ _ _ _ _ _ H) | rewrite (step1_LocalSet _ _ _ _ _ _ H)
          | rewrite (step1_Jump _ _ _ _ _ _ H) | rewrite (step1_Call _ _ _ _ _ _ H)
          | rewrite (step1_FastCall _ _ _ _ _ _ H) | rewrite (step1_Get _ _ _ _ _ _ H)
          | rewrite (step1_Set _ _ _ _ _ _ H) | rewrite (step1_FastGetInt _ _ _ _ _ _ H)
          | rewrite (step1_FastSetInt _ _ _ _ _ _ H) | rewrite (step1_FastGet _ _ _ _ _ _ H)
          | rewrite (step1_FastSet _ _ _ _ _ _ H) | rewrite (step1_GetAttr _ _ _ _ _ _ H)
          | rewrite (step1_SetAttr _ _ _ _ _ _ H) | rewrite (step1_FastGetAttr _ _ _ _ _ _ H)
          | rewrite (step1_FastSetAttr _ _ _ _ _ _ H) | rewrite (step1_FastCallAttr _ _ _ _ _ _ H) ].

  (* unfold one step1 whose opcode is known, either from a hypothesis or because the instruction is a literal *)
  Ltac step_one :=
    match goal with
    | H : icode ?i = _ |- context [VM.step1 _ _ _ _ _ _ _ _ ?i _ _ _] => rw_step H
    | |- context [VM.step1 _ _ _ _ _ _ _ _ (mkI ?c ?a ?b ?d ?p) _ _ _] =>
        rw_step (@eq_refl Z (icode (mkI c a b d p))); cbn [icode iA iB iC ipos]
    end.

  (* rewrites that must happen before a case analysis: known scrutinees, equal slot indices, position
     arguments (ignored by obj_get), untyped/int32 keys, joinParams round trip, INCDEC as ADD / SUB *)
  Ltac hook :=
    match goal with
    | E : ?x = _ |- context [match ?x with _ => _ end] => rewrite E
    | E : ?x = _ |- context [slift ?x _ _] => rewrite E
    | H : iA ?x = iA ?y |- context [iA ?y] => rewrite <- H
    | Hr : in_range I32 ?n = true |- context [obj_get ext_get ?s ?r (fn_newUntypedInt ?n) ?p] =>
        rewrite (obj_get_key s r (fn_newUntypedInt n) (fn_Int n) p p (push_key_num n Hr) (push_key_val n))
    | Hr : in_range I32 ?n = true |- context [obj_set ext_set ?s ?r (fn_newUntypedInt ?n) ?v] =>
        rewrite (obj_set_key s r (fn_newUntypedInt n) (fn_Int n) v (push_key_num n Hr) (push_key_val n))
    | |- context [obj_get ext_get ?s ?r ?k (ipos ?i)] =>
        change (obj_get ext_get s r k (ipos i)) with (obj_get ext_get s r k 0)
    | Hx : small16 ?x = true, Hy : small16 ?y = true |- context [splitParams (joinParams ?x ?y)] =>
        rewrite (split_join x y (small16_spec x Hx) (small16_spec y Hy))
    | Hg : Value_incDec ?a ?n = _ |- context [Value_incDec ?a ?n] => rewrite Hg
    end.

  (* case analysis on the innermost scrutinee *)
  Ltac dmatch :=
    match goal with
    | |- context [match ?x with _ => _ end] =>
        lazymatch x with
        | context [match _ with _ => _ end] => fail
        | context [VM.step1] => fail
        | context [slift] => fail
        | _ => destruct x eqn:?
        end
    | |- context [slift ?r _ _] => lazymatch r with Ok _ => fail | _ => destruct r eqn:? end
    end.

  Ltac crunch := repeat (repeat step_one; repeat hook; cbn [slift]; try dmatch; cbn [slift]).

  (* split the guard into its conjuncts; a non-empty operand stack is destructed right away *)
  Ltac prep H :=
    lazymatch type of H with
    | (_ && _) = true =>
        let H1 := fresh "Hg" in let H2 := fresh "Hg" in
        apply andb_true_iff in H; destruct H as [H1 H2]; prep H1; prep H2
    | nonempty ?o = true => destruct o; [discriminate H | clear H]
    | match ?o with _ => _ end = true =>
        first [ is_var o; destruct o; [discriminate H|] | destruct o eqn:? ]
    | match ?o with _ => _ end => destruct o; [contradiction H|]
    | _ => idtac
    end.

  Ltac finish :=
    try solve [apply sres_equiv_refl];
    match goal with
    | Hg : is_num_tag (vt ?v) = true, E : Value_incDec ?v ?n = Ok ?r |- context [Value_assign ?r (vt ?v)] =>
        rewrite <- (incdec_tag v n r Hg E), assign_same; apply sres_equiv_refl
    | H : iA ?i = 0 |- context [SJump (iA ?i)] =>
        rewrite H; right; do 3 eexists; left; split; reflexivity
    end.

  (* window of known length -> its instructions *)
  Ltac destr_w :=
    match goal with
    | H : List.length ?w = O |- _ => destruct w; [clear H | discriminate H]
    | H : List.length ?w = S _ |- _ =>
        let i := fresh "i" in
        destruct w as [|i w]; [discriminate H|]; cbn [List.length] in H; apply eq_add_S in H; destr_w
    end.

  Ltac split_match Hm :=
    unfold rule_matches in Hm;
    cbn [r_codes r_conds codes_match forallb cond_ok field_of win nth] in Hm;
    repeat rewrite andb_true_iff in Hm; repeat rewrite Z.eqb_eq in Hm;
    decompose [and] Hm; clear Hm.

  Ltac eval_kind Hg :=
    match type of Hg with context [guard_kind ?r] =>
      let k := eval vm_compute in (guard_kind r) in change (guard_kind r) with k in Hg end;
    cbv iota in Hg.
  Ltac open_guard Hg :=
    unfold guardP in Hg; eval_kind Hg;
    try (unfold guard in Hg; eval_kind Hg);
    cbn [fused r_out r_A r_B r_C r_pos eval_operand field_of win nth iA iB iC] in Hg.

  Ltac open_goal :=
    unfold fused; cbn [run_window r_out r_A r_B r_C r_pos eval_operand field_of win nth].

  Theorem c02_rule_sound_P : forall r, In r peephole_rules ->
    forall w, List.length w = rule_len r -> rule_matches r w = true ->
    forall codes pc pc' slots ops s, guardP r w slots ops ->
      sres_equiv (run_window codes pc w slots ops s) (step1 codes pc' (fused r w) slots ops s).
  Proof.
    intros r Hr. unfold peephole_rules in Hr. cbn [In] in Hr.
    repeat (destruct Hr as [<- | Hr]); [ .. | contradiction ].
    all: intros w Hlen Hm codes pc pc' slots ops s Hg.
    all: unfold rule_len in Hlen; cbn [r_codes List.length] in Hlen; destr_w.
    all: split_match Hm.
    all: open_guard Hg.
    all: open_goal.
    all: prep Hg.
    all: crunch.
    all: finish.
  Qed.

  (* TO PROVE *)
  Theorem c02_rule_sound : forall r, In r peephole_rules ->
    forall w, List.length w = rule_len r -> rule_matches r w = true ->
    forall codes pc pc' slots ops s, guard r w slots ops = true ->
      sres_equiv (run_window codes pc w slots ops s) (step1 codes pc' (fused r w) slots ops s).
  Proof.
    intros r Hr w Hlen Hm codes pc pc' slots ops s Hg.
    apply c02_rule_sound_P; try assumption. apply guard_guardP; assumption.
  Qed.

  (* the same with the weaker guard, depending on Coq's IEEE-754 specification of primitive floats *)
  Theorem c02_rule_sound_ieee : forall r, In r peephole_rules ->
    forall w, List.length w = rule_len r -> rule_matches r w = true ->
    forall codes pc pc' slots ops s, guard_ieee r w slots ops = true ->
      sres_equiv (run_window codes pc w slots ops s) (step1 codes pc' (fused r w) slots ops s).
  Proof.
    intros r Hr w Hlen Hm codes pc pc' slots ops s Hg.
    apply c02_rule_sound_P; try assumption. apply guard_ieee_guardP; assumption.
  Qed.

  (* guards are not vacuous: for each rule there is a window and a state satisfying it.  The witness is
     generic: the window carries the rule's opcodes with all operands 0 (1 for PUSH n; SUB, whose guard
     wants n > 0), one int32 local slot and one int32 operand. *)
  Definition wit_w (r : rule) : list instr :=
    let k := match guard_kind r with GIncSub => 1 | _ => 0 end in
    map (fun nm => mkI (C nm) k 0 0 0) (r_codes r).
  Definition sat_check (r : rule) : bool :=
    Nat.eqb (List.length (wit_w r)) (rule_len r) && rule_matches r (wit_w r) &&
    guard r (wit_w r) [fn_Int 0] [fn_Int 0].
  Lemma sat_all : forallb sat_check peephole_rules = true.
  Proof. vm_compute. reflexivity. Qed.

  Theorem c02_guard_satisfiable : forall r, In r peephole_rules ->
    exists w slots ops, List.length w = rule_len r /\ rule_matches r w = true /\ guard r w slots ops = true.
  Proof.
    intros r Hr. pose proof (proj1 (forallb_forall sat_check peephole_rules) sat_all r Hr) as H.
    unfold sat_check in H. apply andb_true_iff in H. destruct H as [H Hg].
    apply andb_true_iff in H. destruct H as [Hl Hm]. apply Nat.eqb_eq in Hl.
    exists (wit_w r), [fn_Int 0], [fn_Int 0]. auto.
  Qed.
End Rules.

(* the optimizer keeps every instruction it does not fuse and replaces each matched window by its fused
   instruction: a structural characterisation of do_optimize, rule order respected (first matching rule wins) *)
Inductive opt_rel (rs : list rule) : list instr -> list instr -> Prop :=
| opt_nil : opt_rel rs [] []
| opt_keep : forall i rest out, first_match rs (i :: rest) = None -> opt_rel rs rest out -> opt_rel rs (i :: rest) (i :: out)
| opt_fuse : forall code r out, first_match rs code = Some r -> code <> [] ->
    opt_rel rs (skipn (rule_len r) code) out -> opt_rel rs code (fused r code :: out).

Lemma first_match_In rs w r : first_match rs w = Some r -> In r rs.
Proof.
  induction rs as [|r0 rs IH]; cbn; [discriminate|].
  destruct (rule_matches r0 w).
  - intro H; inversion H; subst; left; reflexivity.
  - intro H; right; apply IH; assumption.
Qed.

Lemma do_optimize_fuel_rel rs : (forall r, In r rs -> (0 < rule_len r)%nat) ->
  forall fuel code, (List.length code < fuel)%nat -> opt_rel rs code (do_optimize_fuel fuel rs code).
Proof.
  intros Hpos fuel. induction fuel as [|f IH]; intros code Hlen; [inversion Hlen|].
  cbn [do_optimize_fuel]. destruct code as [|i rest]; [constructor|].
  destruct (first_match rs (i :: rest)) as [r|] eqn:E.
  - apply opt_fuse; [assumption | discriminate |].
    apply IH. pose proof (Hpos r (first_match_In _ _ _ E)) as Hr.
    destruct (rule_len r) as [|n]; [inversion Hr|].
    cbn [skipn]. pose proof (skipn_length n rest) as Hs. cbn [List.length] in Hlen. lia.
  - apply opt_keep; [assumption|]. apply IH. cbn [List.length] in Hlen. lia.
Qed.

Theorem do_optimize_rel : forall code, (forall r, In r peephole_rules -> (0 < rule_len r)%nat) ->
  opt_rel peephole_rules code (do_optimize peephole_rules code).
Proof.
  intros code H. unfold do_optimize. apply do_optimize_fuel_rel; [assumption | lia].
Qed.

Theorem rules_nonempty : forall r, In r peephole_rules -> (0 < rule_len r)%nat.
Proof.
  assert (H : forallb (fun r => Nat.ltb 0 (rule_len r)) peephole_rules = true) by (vm_compute; reflexivity).
  intros r Hr. apply (proj1 (forallb_forall _ _) H r) in Hr. apply Nat.ltb_lt in Hr. exact Hr.
Qed.

(* unconditional form *)
Corollary do_optimize_rel' : forall code, opt_rel peephole_rules code (do_optimize peephole_rules code).
Proof. intro code. apply do_optimize_rel, rules_nonempty. Qed.

(* ---------- the link between the optimizer's shape (opt_rel) and the rule theorem (c02_rule_sound) ----------
   opt_rel / do_optimize compute [rule_matches r code] and [fused r code] on the whole remaining SUFFIX [code], while
   c02_rule_sound speaks about windows of length exactly [rule_len r].  The two fit together because every rule of the
   generated table only looks at window positions < rule_len r (rule_closed: decidable, evaluated on the table
   regenerated from compiler.go on every run). *)
Fixpoint operand_in (n : nat) (o : operand) : bool :=
  match o with
  | OZero => true | OField k _ => Nat.ltb k n | ONeg o' => operand_in n o' | OJoin a b => operand_in n a && operand_in n b
  end.
Definition cond_in (n : nat) (c : cond) : bool :=
  match c with CSame i _ j _ => Nat.ltb i n && Nat.ltb j n | CConst i _ _ => Nat.ltb i n | CNotConst i _ _ => Nat.ltb i n end.
Definition rule_closed (r : rule) : bool :=
  let n := rule_len r in
  forallb (cond_in n) (r_conds r) && operand_in n (r_A r) && operand_in n (r_B r) && operand_in n (r_C r) && Nat.ltb (r_pos r) n.
Lemma rules_closed : forallb rule_closed peephole_rules = true. Proof. vm_compute. reflexivity. Qed.

Lemma ws_win_firstn n : forall k code, (k < n)%nat -> win (firstn n code) k = win code k.
Proof.
  unfold win. induction n as [|n IH]; intros k code H; [lia|].
  destruct code as [|i rest]; [destruct k; reflexivity|]. destruct k as [|k]; [reflexivity|]. cbn. apply IH. lia.
Qed.
Lemma ws_eval_operand_firstn n code o : operand_in n o = true -> eval_operand (firstn n code) o = eval_operand code o.
Proof.
  induction o as [|k f|o IH|a IHa b IHb]; cbn; intro H.
  - reflexivity.
  - apply Nat.ltb_lt in H. rewrite ws_win_firstn by assumption. reflexivity.
  - rewrite IH by assumption. reflexivity.
  - apply andb_true_iff in H. destruct H. rewrite IHa, IHb by assumption. reflexivity.
Qed.
Lemma ws_cond_ok_firstn n code c : cond_in n c = true -> cond_ok (firstn n code) c = cond_ok code c.
Proof.
  destruct c; cbn; intro H; try (apply andb_true_iff in H; destruct H as [H H']; apply Nat.ltb_lt in H');
    apply Nat.ltb_lt in H; rewrite ?ws_win_firstn by assumption; reflexivity.
Qed.
Lemma ws_codes_match_firstn names : forall code, codes_match names (firstn (List.length names) code) = codes_match names code.
Proof.
  induction names as [|n ns IH]; intro code; [reflexivity|].
  destruct code as [|i rest]; [reflexivity|]. cbn. rewrite IH. reflexivity.
Qed.
Lemma ws_codes_match_len names : forall code, codes_match names code = true -> (List.length names <= List.length code)%nat.
Proof.
  induction names as [|n ns IH]; intros code H; cbn; [lia|].
  destruct code as [|i rest]; [discriminate|]. cbn in H. apply andb_true_iff in H. destruct H as [_ H]. apply IH in H. cbn. lia.
Qed.

(* a rule that matches the suffix [code] matches the window [firstn (rule_len r) code], which has exactly the rule's
   length, and fuses it into the same instruction *)
Theorem window_of_suffix : forall r, In r peephole_rules -> forall code, rule_matches r code = true ->
  let w := firstn (rule_len r) code in
  List.length w = rule_len r /\ rule_matches r w = true /\ fused r w = fused r code.
Proof.
  intros r Hr code Hm w.
  pose proof (proj1 (forallb_forall _ _) rules_closed r Hr) as Hc. unfold rule_closed in Hc.
  repeat (apply andb_true_iff in Hc; let H := fresh "Hc" in destruct Hc as [Hc H]).
  unfold rule_matches in Hm. apply andb_true_iff in Hm. destruct Hm as [Hm1 Hm2].
  split; [|split].
  - subst w. unfold rule_len. apply firstn_length_le, ws_codes_match_len, Hm1.
  - unfold rule_matches. subst w. unfold rule_len at 1. rewrite ws_codes_match_firstn, Hm1. cbn [andb].
    rewrite forallb_forall in *. intros c Hin. rewrite ws_cond_ok_firstn by (apply Hc; assumption). apply Hm2, Hin.
  - unfold fused. subst w. rewrite !ws_eval_operand_firstn by assumption.
    rewrite ws_win_firstn by (apply Nat.ltb_lt; assumption). reflexivity.
Qed.
Lemma first_match_matches rs : forall w r, first_match rs w = Some r -> rule_matches r w = true.
Proof.
  induction rs as [|r0 rs IH]; cbn; intros w r H; [discriminate|].
  destruct (rule_matches r0 w) eqn:E; [injection H as <-; exact E | apply IH, H].
Qed.

(* every fusion step of the optimizer (constructor opt_fuse of opt_rel: first_match peephole_rules code = Some r, the
   window firstn (rule_len r) code is replaced by fused r code) satisfies every premise of c02_rule_sound except
   possibly the guard; under the guard it is an instance of it *)
Theorem shape_meets_rules : forall grow ext_get ext_set ext_len ext_getattr ext_setattr,
  (forall s r k k', vnum k = vnum k' -> vval k = vval k' -> ext_get s r k = ext_get s r k') ->
  (forall s r k k' v, vnum k = vnum k' -> vval k = vval k' -> ext_set s r k v = ext_set s r k' v) ->
  forall code r, first_match peephole_rules code = Some r ->
  let w := firstn (rule_len r) code in
  In r peephole_rules /\ List.length w = rule_len r /\ rule_matches r w = true /\ fused r w = fused r code /\
  forall codes pc pc' slots ops s, guard r w slots ops = true ->
    sres_equiv (run_window grow ext_get ext_set ext_len ext_getattr ext_setattr codes pc w slots ops s)
               (step1 grow ext_get ext_set ext_len ext_getattr ext_setattr codes pc' (fused r code) slots ops s).
Proof.
  intros grow ext_get ext_set ext_len ext_getattr ext_setattr Hg Hs code r H w.
  pose proof (first_match_In _ _ _ H) as Hin. pose proof (first_match_matches _ _ _ H) as Hm.
  destruct (window_of_suffix r Hin code Hm) as (Hl & Hmw & Hf).
  split; [exact Hin|]. split; [exact Hl|]. split; [exact Hmw|]. split; [exact Hf|].
  intros codes pc pc' slots ops s G. rewrite <- Hf.
  exact (c02_rule_sound grow ext_get ext_set ext_len ext_getattr ext_setattr r Hin _ Hl Hmw codes pc pc' slots ops s G).
Qed.

Print Assumptions c02_rule_sound.
Print Assumptions c02_rule_sound_ieee.
Print Assumptions c02_guard_satisfiable.
Print Assumptions do_optimize_rel.
Print Assumptions rules_nonempty.
Print Assumptions incdec_neg_int.
