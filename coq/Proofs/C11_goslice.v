(* C11, part 1: facts about GoSpec/GoSlice.v itself (any element type): cell-level
   description of every operation, aliasing, append in place / beyond capacity, copy,
   bounds, preservation of well-formedness. *)
From Coq Require Import ZArith List Bool Lia Arith.
From GV Require Import GoSpec.GoPrim GoSpec.GoSlice.
Import ListNotations.

(* ---- lists ---------------------------------------------------------------------------- *)

Lemma nth_error_firstn' {A} (l : list A) n i :
  nth_error (firstn n l) i = if (i <? n)%nat then nth_error l i else None.
Proof.
  revert n i. induction l as [|a l IH]; intros n i.
  - rewrite firstn_nil. destruct i; cbn [nth_error]; match goal with |- context [if ?c then _ else _] => destruct c end; reflexivity.
  - destruct n as [|n], i as [|i]; cbn; try reflexivity. apply IH.
Qed.

Lemma nth_error_skipn' {A} (l : list A) n i : nth_error (skipn n l) i = nth_error l (n + i).
Proof.
  revert l. induction n as [|n IH]; intros l; [reflexivity|].
  destruct l as [|a l]; cbn; [destruct i; reflexivity|]. apply IH.
Qed.

Lemma list_ext {A} (l1 l2 : list A) : (forall i, nth_error l1 i = nth_error l2 i) -> l1 = l2.
Proof.
  revert l2. induction l1 as [|a l1 IH]; intros [|b l2] H; try reflexivity.
  - specialize (H 0%nat). discriminate.
  - specialize (H 0%nat). discriminate.
  - pose proof (H 0%nat) as H0. cbn in H0. injection H0 as ->. f_equal.
    apply IH. intros i. exact (H (S i)).
Qed.

Lemma nth_nth_error {A} (l : list A) n d :
  nth n l d = match nth_error l n with Some v => v | None => d end.
Proof. revert n. induction l; intros [|n]; cbn; auto. Qed.

Lemma write_length {A} (l : list A) k vs : length (write l k vs) = length l.
Proof.
  unfold write. destruct (k + length vs <=? length l)%nat eqn:E; [|reflexivity].
  apply Nat.leb_le in E. rewrite !app_length, firstn_length, skipn_length. lia.
Qed.

Lemma nth_error_write {A} (l : list A) k vs i : (k + length vs <= length l)%nat ->
  nth_error (write l k vs) i =
  if (k <=? i)%nat && (i <? k + length vs)%nat then nth_error vs (i - k) else nth_error l i.
Proof.
  intros F. unfold write. apply Nat.leb_le in F as F'. rewrite F'.
  assert (Lf : length (firstn k l) = k) by (rewrite firstn_length; lia).
  destruct (k <=? i)%nat eqn:E1; cbn [andb].
  - apply Nat.leb_le in E1. rewrite nth_error_app2 by lia. rewrite Lf.
    destruct (i <? k + length vs)%nat eqn:E2.
    + apply Nat.ltb_lt in E2. rewrite nth_error_app1 by lia. reflexivity.
    + apply Nat.ltb_ge in E2. rewrite nth_error_app2 by lia. rewrite nth_error_skipn'. f_equal. lia.
  - apply Nat.leb_gt in E1. rewrite nth_error_app1 by lia. rewrite nth_error_firstn'.
    apply Nat.ltb_lt in E1. rewrite E1. reflexivity.
Qed.

Lemma write_nofit {A} (l : list A) k vs : (length l < k + length vs)%nat -> write l k vs = l.
Proof. intros H. unfold write. apply Nat.leb_gt in H. rewrite H. reflexivity. Qed.

Lemma map_write {A B} (f : A -> B) l k vs : map f (write l k vs) = write (map f l) k (map f vs).
Proof.
  unfold write. rewrite !map_length. destruct (k + length vs <=? length l)%nat; [|reflexivity].
  rewrite !map_app, firstn_map, skipn_map. reflexivity.
Qed.

(* writing what is already there changes nothing *)
Lemma write_same {A} (l : list A) k vs :
  (forall i, (i < length vs)%nat -> nth_error l (k + i) = nth_error vs i) -> write l k vs = l.
Proof.
  intros H. destruct (Nat.le_gt_cases (k + length vs) (length l)) as [F|F]; [|apply write_nofit; exact F].
  apply list_ext. intros i. rewrite nth_error_write by exact F.
  destruct (k <=? i)%nat eqn:E1; cbn [andb]; [|reflexivity].
  destruct (i <? k + length vs)%nat eqn:E2; [|reflexivity].
  apply Nat.leb_le in E1. apply Nat.ltb_lt in E2.
  rewrite <- H by lia. f_equal. lia.
Qed.

(* ---- stores --------------------------------------------------------------------------- *)

Section Facts.
  Context {V : Type}.
  Implicit Types (st : @store V) (s : slice).

  Definition cell st a i : option V := nth_error (array st a) i.

  Lemma length_arr_write st a k vs : length (arr_write st a k vs) = length st.
  Proof. apply write_length. Qed.

  Lemma array_arr_write st a k vs b : (a < length st)%nat ->
    array (arr_write st a k vs) b = if (b =? a)%nat then write (array st a) k vs else array st b.
  Proof.
    intros Ha. unfold array, arr_write. rewrite nth_nth_error.
    rewrite nth_error_write by (cbn; lia). cbn [length].
    destruct (b =? a)%nat eqn:E.
    - apply Nat.eqb_eq in E. subst b.
      replace ((a <=? a)%nat && (a <? a + 1)%nat) with true
        by (symmetry; apply andb_true_intro; split; [apply Nat.leb_le|apply Nat.ltb_lt]; lia).
      rewrite Nat.sub_diag. reflexivity.
    - apply Nat.eqb_neq in E.
      replace ((a <=? b)%nat && (b <? a + 1)%nat) with false.
      + rewrite <- nth_nth_error. reflexivity.
      + symmetry. apply andb_false_iff. destruct (Nat.lt_ge_cases b a).
        * left. apply Nat.leb_gt. lia.
        * right. apply Nat.ltb_ge. lia.
  Qed.

  Lemma arr_write_out st a k vs : (length st <= a)%nat -> arr_write st a k vs = st.
  Proof. intros H. unfold arr_write. apply write_nofit. cbn. lia. Qed.

  Lemma array_length_arr_write st a k vs b :
    length (array (arr_write st a k vs) b) = length (array st b).
  Proof.
    destruct (Nat.lt_ge_cases a (length st)) as [Ha|Ha].
    - rewrite array_arr_write by exact Ha. destruct (b =? a)%nat eqn:E; [|reflexivity].
      apply Nat.eqb_eq in E. subst b. apply write_length.
    - rewrite arr_write_out by exact Ha. reflexivity.
  Qed.

  Lemma cell_arr_write st a k vs b i : (a < length st)%nat -> (k + length vs <= length (array st a))%nat ->
    cell (arr_write st a k vs) b i =
    if (b =? a)%nat && ((k <=? i)%nat && (i <? k + length vs)%nat) then nth_error vs (i - k) else cell st b i.
  Proof.
    intros Ha F. unfold cell. rewrite array_arr_write by exact Ha.
    destruct (b =? a)%nat eqn:E; cbn [andb]; [|reflexivity].
    apply Nat.eqb_eq in E. subst b. apply nth_error_write. exact F.
  Qed.

  Lemma array_app_old st x a : (a < length st)%nat -> array (st ++ [x]) a = array st a.
  Proof. intros H. unfold array. apply app_nth1. exact H. Qed.
  Lemma array_app_new st x : array (st ++ [x]) (length st) = x.
  Proof. unfold array. rewrite app_nth2 by lia. rewrite Nat.sub_diag. reflexivity. Qed.

  Lemma store_ext (st1 st2 : @store V) : length st1 = length st2 ->
    (forall a, (a < length st1)%nat -> array st1 a = array st2 a) -> st1 = st2.
  Proof.
    intros L H. apply list_ext. intros a.
    destruct (Nat.lt_ge_cases a (length st1)) as [Ha|Ha].
    - specialize (H a Ha). unfold array in H. rewrite !nth_nth_error in H.
      destruct (nth_error st1 a) eqn:E1; [|apply nth_error_None in E1; lia].
      destruct (nth_error st2 a) eqn:E2; [|apply nth_error_None in E2; lia].
      subst. reflexivity.
    - assert (nth_error st1 a = None) as -> by (apply nth_error_None; lia).
      symmetry. apply nth_error_None. lia.
  Qed.

  (* ---- the elements of a slice, cell by cell ---- *)

  Lemma nth_error_cells st a o l c i :
    nth_error (cells st (SMk a o l c)) i = if (i <? l)%nat then cell st a (o + i) else None.
  Proof. cbn [cells]. rewrite nth_error_firstn', nth_error_skipn'. reflexivity. Qed.

  Lemma length_cells st s : wf_slice st s -> length (cells st s) = slen s.
  Proof.
    destruct s as [|a o l c]; [reflexivity|]. intros (Ha & Hl & Hc). cbn [cells slen].
    rewrite firstn_length, skipn_length. lia.
  Qed.

  Lemma cell_some st a o l c i : wf_slice st (SMk a o l c) -> (i < c)%nat -> exists v, cell st a (o + i) = Some v.
  Proof.
    intros (Ha & Hl & Hc) Hi. unfold cell. destruct (nth_error (array st a) (o + i)) eqn:E; [eauto|].
    apply nth_error_None in E. lia.
  Qed.

  Lemma index_cell st a o l c i :
    index st (SMk a o l c) i =
    if (0 <=? i)%Z && (i <? Z.of_nat l)%Z then
      match cell st a (o + Z.to_nat i) with Some v => Ok v | None => Panic end
    else Panic.
  Proof.
    unfold index. cbn [slen]. destruct ((0 <=? i)%Z && (i <? Z.of_nat l)%Z) eqn:E; [|reflexivity].
    rewrite nth_error_cells. apply andb_prop in E as [E1 E2]. apply Z.leb_le in E1. apply Z.ltb_lt in E2.
    assert ((Z.to_nat i <? l)%nat = true) as -> by (apply Nat.ltb_lt; lia). reflexivity.
  Qed.

  (* ---- bounds --------------------------------------------------------------------------- *)

  Lemma index_out st s i : ~ (0 <= i < Z.of_nat (slen s))%Z -> index st s i = Panic.
  Proof.
    intros H. unfold index. destruct ((0 <=? i)%Z && (i <? Z.of_nat (slen s))%Z) eqn:E; [|reflexivity].
    apply andb_prop in E as [E1 E2]. apply Z.leb_le in E1. apply Z.ltb_lt in E2. lia.
  Qed.
  Lemma index_in st s i : wf_slice st s -> (0 <= i < Z.of_nat (slen s))%Z -> exists v, index st s i = Ok v.
  Proof.
    intros W H. destruct s as [|a o l c]; [cbn in H; lia|]. cbn [slen] in H. rewrite index_cell.
    assert ((0 <=? i)%Z && (i <? Z.of_nat l)%Z = true) as ->
      by (apply andb_true_intro; split; [apply Z.leb_le|apply Z.ltb_lt]; lia).
    destruct (cell_some st a o l c (Z.to_nat i) W) as [v ->]; [destruct W as (_ & ? & _); lia|eauto].
  Qed.
  Lemma set_out st s i v : ~ (0 <= i < Z.of_nat (slen s))%Z -> set st s i v = Panic.
  Proof.
    intros H. destruct s as [|a o l c]; [reflexivity|]. cbn [set slen] in *.
    destruct ((0 <=? i)%Z && (i <? Z.of_nat l)%Z) eqn:E; [|reflexivity].
    apply andb_prop in E as [E1 E2]. apply Z.leb_le in E1. apply Z.ltb_lt in E2. lia.
  Qed.
  Lemma set_in st s i v : (0 <= i < Z.of_nat (slen s))%Z -> exists st', set st s i v = Ok st'.
  Proof.
    intros H. destruct s as [|a o l c]; [cbn in H; lia|]. cbn [set slen] in *.
    assert ((0 <=? i)%Z && (i <? Z.of_nat l)%Z = true) as ->
      by (apply andb_true_intro; split; [apply Z.leb_le|apply Z.ltb_lt]; lia). eauto.
  Qed.
  Lemma reslice_out s i j : ~ (0 <= i <= j /\ j <= Z.of_nat (scap s))%Z -> reslice s i j = Panic.
  Proof.
    intros H. destruct s as [|a o l c]; cbn [reslice scap] in *.
    - destruct ((i =? 0)%Z && (j =? 0)%Z) eqn:E; [|reflexivity].
      apply andb_prop in E as [E1 E2]. apply Z.eqb_eq in E1, E2. lia.
    - destruct ((0 <=? i)%Z && (i <=? j)%Z && (j <=? Z.of_nat c)%Z) eqn:E; [|reflexivity].
      apply andb_prop in E as [E E3]. apply andb_prop in E as [E1 E2].
      apply Z.leb_le in E1, E2, E3. lia.
  Qed.
  Lemma reslice_in s i j : (0 <= i <= j /\ j <= Z.of_nat (scap s))%Z ->
    exists t, reslice s i j = Ok t /\ slen t = (Z.to_nat j - Z.to_nat i)%nat /\ scap t = (scap s - Z.to_nat i)%nat.
  Proof.
    intros H. destruct s as [|a o l c]; cbn [reslice scap] in *.
    - assert (i = 0 /\ j = 0)%Z as [-> ->] by lia. cbn. eauto.
    - assert ((0 <=? i)%Z && (i <=? j)%Z && (j <=? Z.of_nat c)%Z = true) as ->.
      { repeat (apply andb_true_intro; split); apply Z.leb_le; lia. }
      eexists. split; [reflexivity|]. cbn. auto.
  Qed.
  Lemma make_negative st n z : (n < 0)%Z -> make_ st n z = Panic.
  Proof. intros H. unfold make_. apply Z.ltb_lt in H. rewrite H. reflexivity. Qed.

  (* ---- well-formedness is kept by everything ---------------------------------------------- *)

  Lemma wf_arr_write st a k vs s : wf_slice st s -> wf_slice (arr_write st a k vs) s.
  Proof.
    destruct s as [|b o l c]; [trivial|]. intros (Hb & Hl & Hc). cbn [wf_slice].
    rewrite length_arr_write, array_length_arr_write. auto.
  Qed.
  Lemma wf_app st x s : wf_slice st s -> wf_slice (st ++ [x]) s.
  Proof.
    destruct s as [|b o l c]; [trivial|]. intros (Hb & Hl & Hc). cbn [wf_slice].
    rewrite app_length, array_app_old by exact Hb. cbn. repeat split; lia.
  Qed.
  Lemma wf_new st x l c : (l <= c)%nat -> (c <= length x)%nat -> wf_slice (st ++ [x]) (SMk (length st) 0 l c).
  Proof. intros. cbn [wf_slice]. rewrite app_length, array_app_new. cbn. repeat split; lia. Qed.

  Lemma wf_reslice st s i j t : wf_slice st s -> reslice s i j = Ok t -> wf_slice st t.
  Proof.
    destruct s as [|a o l c]; cbn [reslice].
    - destruct ((i =? 0)%Z && (j =? 0)%Z); [|discriminate]. intros _ [= <-]. exact I.
    - destruct ((0 <=? i)%Z && (i <=? j)%Z && (j <=? Z.of_nat c)%Z) eqn:E; [|discriminate].
      apply andb_prop in E as [E E3]. apply andb_prop in E as [E1 E2]. apply Z.leb_le in E1, E2, E3.
      intros (Ha & Hl & Hc) [= <-]. cbn [wf_slice]. repeat split; lia.
  Qed.

  Lemma wf_set st s i v st' t : set st s i v = Ok st' -> wf_slice st t -> wf_slice st' t.
  Proof.
    destruct s as [|a o l c]; cbn [set]; [discriminate|].
    destruct ((0 <=? i)%Z && (i <? Z.of_nat l)%Z); [|discriminate]. intros [= <-]. apply wf_arr_write.
  Qed.

  Section Append.
    Variable zero : V.
    Variable grow : nat -> nat -> nat.

    Lemma wf_append_old st s vs t : wf_slice st t -> wf_slice (fst (append_ zero grow st s vs)) t.
    Proof.
      intros W. unfold append_. destruct (slen s + length vs <=? scap s)%nat.
      - destruct s; cbn [fst]; [exact W|apply wf_arr_write; exact W].
      - cbn [fst]. apply wf_app. exact W.
    Qed.
    Lemma wf_append_new st s vs : wf_slice st s ->
      wf_slice (fst (append_ zero grow st s vs)) (snd (append_ zero grow st s vs)).
    Proof.
      intros W. unfold append_. destruct (slen s + length vs <=? scap s)%nat eqn:E.
      - apply Nat.leb_le in E. destruct s as [|a o l c]; cbn [fst snd]; [exact I|].
        cbn [slen scap] in E. destruct W as (Ha & Hl & Hc). cbn [wf_slice slen].
        rewrite length_arr_write, array_length_arr_write. repeat split; lia.
      - cbn [fst snd]. apply wf_new; [lia|].
        rewrite !app_length, repeat_length, length_cells by exact W. lia.
    Qed.

    (* append within capacity: same array, same offset, longer; the new values are written
       into the cells right after the old elements and nothing else changes *)
    Lemma append_in_place st a o l c vs : wf_slice st (SMk a o l c) -> (l + length vs <= c)%nat ->
      append_ zero grow st (SMk a o l c) vs = (arr_write st a (o + l) vs, SMk a o (l + length vs) c) /\
      (forall b i, cell (arr_write st a (o + l) vs) b i =
                   if (b =? a)%nat && ((o + l <=? i)%nat && (i <? o + l + length vs)%nat)
                   then nth_error vs (i - (o + l)) else cell st b i).
    Proof.
      intros (Ha & Hl & Hc) H. split.
      - unfold append_. cbn [slen scap]. apply Nat.leb_le in H. rewrite H. reflexivity.
      - intros b i. apply cell_arr_write; [exact Ha|lia].
    Qed.

    (* append beyond capacity: a new array; no existing array is touched; the new slice holds the
       old elements followed by the new values and has room for at least that many *)
    Lemma append_fresh st s vs : wf_slice st s -> (scap s < slen s + length vs)%nat ->
      exists c', (slen s + length vs <= c')%nat /\
        append_ zero grow st s vs =
          (st ++ [cells st s ++ vs ++ repeat zero (c' - (slen s + length vs))],
           SMk (length st) 0 (slen s + length vs) c') /\
        (forall b, (b < length st)%nat -> array (fst (append_ zero grow st s vs)) b = array st b).
    Proof.
      intros W H. unfold append_. apply Nat.leb_gt in H. rewrite H. eexists. split; [|split; [reflexivity|]].
      - apply Nat.le_max_l.
      - intros b Hb. cbn [fst]. apply array_app_old. exact Hb.
    Qed.

    Lemma cells_append st s vs : wf_slice st s ->
      cells (fst (append_ zero grow st s vs)) (snd (append_ zero grow st s vs)) = cells st s ++ vs.
    Proof.
      intros W. unfold append_. destruct (slen s + length vs <=? scap s)%nat eqn:E.
      - apply Nat.leb_le in E. destruct s as [|a o l c]; cbn [fst snd slen scap] in *.
        + destruct vs; [reflexivity|cbn in E; lia].
        + destruct W as (Ha & Hl & Hc). apply list_ext. intros i. rewrite nth_error_cells.
          rewrite cell_arr_write by (auto; lia).
          rewrite Nat.eqb_refl. cbn [andb].
          destruct (Nat.lt_ge_cases i l) as [Hi|Hi].
          * assert ((i <? l + length vs)%nat = true) as -> by (apply Nat.ltb_lt; lia).
            assert ((o + l <=? o + i)%nat = false) as -> by (apply Nat.leb_gt; lia). cbn [andb].
            rewrite nth_error_app1 by (rewrite length_cells by (cbn; auto); cbn; lia).
            rewrite nth_error_cells. apply Nat.ltb_lt in Hi. rewrite Hi. reflexivity.
          * rewrite nth_error_app2 by (rewrite length_cells by (cbn; auto); cbn; lia).
            rewrite length_cells by (cbn; auto). cbn [slen].
            destruct (Nat.lt_ge_cases i (l + length vs)) as [Hj|Hj].
            -- assert ((i <? l + length vs)%nat = true) as -> by (apply Nat.ltb_lt; lia).
               assert ((o + l <=? o + i)%nat = true) as -> by (apply Nat.leb_le; lia).
               assert ((o + i <? o + l + length vs)%nat = true) as -> by (apply Nat.ltb_lt; lia).
               cbn [andb]. f_equal. lia.
            -- assert ((i <? l + length vs)%nat = false) as -> by (apply Nat.ltb_ge; lia).
               symmetry. apply nth_error_None. lia.
      - cbn [fst snd cells]. rewrite array_app_new. cbn [skipn].
        rewrite app_assoc. rewrite firstn_app.
        rewrite app_length, length_cells by exact W.
        rewrite Nat.sub_diag. cbn [firstn]. rewrite app_nil_r.
        apply firstn_all2. rewrite app_length, length_cells by exact W. lia.
    Qed.
  End Append.

  (* ---- element writes and aliasing -------------------------------------------------------- *)

  (* a write through one slice is seen through another slice exactly at the position that
     denotes the same cell of the same array *)
  Lemma index_after_set st a1 o1 l1 c1 k v st' a2 o2 l2 c2 m :
    wf_slice st (SMk a1 o1 l1 c1) ->
    set st (SMk a1 o1 l1 c1) k v = Ok st' ->
    index st' (SMk a2 o2 l2 c2) m =
      if (0 <=? m)%Z && (m <? Z.of_nat l2)%Z && (a2 =? a1)%nat && (o2 + Z.to_nat m =? o1 + Z.to_nat k)%nat
      then Ok v else index st (SMk a2 o2 l2 c2) m.
  Proof.
    intros (Ha & Hl & Hc). cbn [set].
    destruct ((0 <=? k)%Z && (k <? Z.of_nat l1)%Z) eqn:E; [|discriminate].
    apply andb_prop in E as [E1 E2]. apply Z.leb_le in E1. apply Z.ltb_lt in E2.
    intros [= <-]. rewrite !index_cell.
    destruct ((0 <=? m)%Z && (m <? Z.of_nat l2)%Z) eqn:Em; cbn [andb]; [|reflexivity].
    rewrite cell_arr_write by (cbn [length]; auto; lia). cbn [length].
    destruct (a2 =? a1)%nat eqn:Ea; cbn [andb]; [|reflexivity].
    destruct (o2 + Z.to_nat m =? o1 + Z.to_nat k)%nat eqn:Eo.
    - apply Nat.eqb_eq in Eo. rewrite Eo.
      assert ((o1 + Z.to_nat k <=? o1 + Z.to_nat k)%nat = true) as -> by (apply Nat.leb_le; lia).
      assert ((o1 + Z.to_nat k <? o1 + Z.to_nat k + 1)%nat = true) as -> by (apply Nat.ltb_lt; lia).
      cbn [andb]. rewrite Nat.sub_diag. reflexivity.
    - apply Nat.eqb_neq in Eo.
      assert ((o1 + Z.to_nat k <=? o2 + Z.to_nat m)%nat && (o2 + Z.to_nat m <? o1 + Z.to_nat k + 1)%nat = false) as ->; [|reflexivity].
      apply andb_false_iff. destruct (Nat.lt_ge_cases (o2 + Z.to_nat m) (o1 + Z.to_nat k)).
      + left. apply Nat.leb_gt. lia.
      + right. apply Nat.ltb_ge. lia.
  Qed.

  (* a sub-slice and its parent: position k of s[i:j] is position i+k of s *)
  Lemma sub_write_seen_by_parent st s i j t k v st' :
    wf_slice st s -> reslice s i j = Ok t -> set st t k v = Ok st' ->
    (i + k < Z.of_nat (slen s))%Z ->
    index st' s (i + k) = Ok v /\
    (forall m, m <> (i + k)%Z -> index st' s m = index st s m).
  Proof.
    intros W R S Hk. destruct s as [|a o l c]; cbn [reslice] in R.
    - destruct ((i =? 0)%Z && (j =? 0)%Z); [|discriminate]. injection R as <-. discriminate.
    - destruct ((0 <=? i)%Z && (i <=? j)%Z && (j <=? Z.of_nat c)%Z) eqn:E; [|discriminate].
      apply andb_prop in E as [E E3]. apply andb_prop in E as [E1 E2]. apply Z.leb_le in E1, E2, E3.
      injection R as <-.
      assert (Wt : wf_slice st (SMk a (o + Z.to_nat i) (Z.to_nat j - Z.to_nat i) (c - Z.to_nat i))).
      { destruct W as (Ha & Hl & Hc). cbn [wf_slice]. repeat split; lia. }
      pose proof S as S'. cbn [set] in S'.
      destruct ((0 <=? k)%Z && (k <? Z.of_nat (Z.to_nat j - Z.to_nat i))%Z) eqn:Ek; [|discriminate]. clear S'.
      apply andb_prop in Ek as [Ek1 Ek2]. apply Z.leb_le in Ek1. apply Z.ltb_lt in Ek2.
      cbn [slen] in Hk. split.
      + rewrite (index_after_set _ _ _ _ _ _ _ _ _ _ _ _ _ Wt S).
        assert ((0 <=? i + k)%Z = true) as -> by (apply Z.leb_le; lia).
        assert ((i + k <? Z.of_nat l)%Z = true) as -> by (apply Z.ltb_lt; lia).
        rewrite Nat.eqb_refl. cbn [andb].
        assert ((o + Z.to_nat (i + k) =? o + Z.to_nat i + Z.to_nat k)%nat = true) as -> by (apply Nat.eqb_eq; lia).
        reflexivity.
      + intros m Hm. rewrite (index_after_set _ _ _ _ _ _ _ _ _ _ _ _ _ Wt S).
        destruct ((0 <=? m)%Z && (m <? Z.of_nat l)%Z) eqn:Em; cbn [andb]; [|reflexivity].
        apply andb_prop in Em as [Em1 Em2]. apply Z.leb_le in Em1. apply Z.ltb_lt in Em2.
        rewrite Nat.eqb_refl. cbn [andb].
        assert ((o + Z.to_nat m =? o + Z.to_nat i + Z.to_nat k)%nat = false) as -> by (apply Nat.eqb_neq; lia).
        reflexivity.
  Qed.

  Lemma parent_write_seen_by_sub st s i j t k v st' :
    wf_slice st s -> reslice s i j = Ok t -> (0 <= k < j - i)%Z -> set st s (i + k) v = Ok st' ->
    index st' t k = Ok v /\
    (forall m, m <> k -> index st' t m = index st t m).
  Proof.
    intros W R Hk S. destruct s as [|a o l c]; cbn [reslice] in R.
    - discriminate.
    - destruct ((0 <=? i)%Z && (i <=? j)%Z && (j <=? Z.of_nat c)%Z) eqn:E; [|discriminate].
      apply andb_prop in E as [E E3]. apply andb_prop in E as [E1 E2]. apply Z.leb_le in E1, E2, E3.
      injection R as <-. split.
      + rewrite (index_after_set _ _ _ _ _ _ _ _ _ _ _ _ _ W S).
        assert ((0 <=? k)%Z = true) as -> by (apply Z.leb_le; lia).
        assert ((k <? Z.of_nat (Z.to_nat j - Z.to_nat i))%Z = true) as -> by (apply Z.ltb_lt; lia).
        rewrite Nat.eqb_refl. cbn [andb].
        assert ((o + Z.to_nat i + Z.to_nat k =? o + Z.to_nat (i + k))%nat = true) as -> by (apply Nat.eqb_eq; lia).
        reflexivity.
      + intros m Hm. rewrite (index_after_set _ _ _ _ _ _ _ _ _ _ _ _ _ W S).
        destruct ((0 <=? m)%Z && (m <? Z.of_nat (Z.to_nat j - Z.to_nat i))%Z) eqn:Em; cbn [andb]; [|reflexivity].
        apply andb_prop in Em as [Em1 Em2]. apply Z.leb_le in Em1. apply Z.ltb_lt in Em2.
        rewrite Nat.eqb_refl. cbn [andb].
        assert ((o + Z.to_nat i + Z.to_nat m =? o + Z.to_nat (i + k))%nat = false) as -> by (apply Nat.eqb_neq; lia).
        reflexivity.
  Qed.

  (* ---- copy --------------------------------------------------------------------------------- *)

  Lemma wf_copy_vals st dst vs t : wf_slice st t -> wf_slice (fst (copy_vals st dst vs)) t.
  Proof. intros W. destruct dst; cbn [copy_vals fst]; [exact W|apply wf_arr_write; exact W]. Qed.

  (* copy moves n = min(len(dst), number of source values) elements: the first n elements of dst
     become the first n source values (as they were BEFORE the copy, even when source and
     destination overlap), the rest of dst is untouched *)
  Lemma copy_vals_spec st dst vs : wf_slice st dst ->
    snd (copy_vals st dst vs) = Nat.min (slen dst) (length vs) /\
    cells (fst (copy_vals st dst vs)) dst =
      firstn (Nat.min (slen dst) (length vs)) vs ++ skipn (Nat.min (slen dst) (length vs)) (cells st dst).
  Proof.
    intros W. destruct dst as [|a o l c]; cbn [copy_vals fst snd slen].
    - split; reflexivity.
    - split; [reflexivity|]. destruct W as (Ha & Hl & Hc).
      set (n := Nat.min l (length vs)).
      assert (Ln : length (firstn n vs) = n) by (rewrite firstn_length; lia).
      apply list_ext. intros i. rewrite nth_error_cells.
      rewrite cell_arr_write by (auto; rewrite Ln; lia). rewrite Nat.eqb_refl, Ln. cbn [andb].
      assert ((o <=? o + i)%nat = true) as -> by (apply Nat.leb_le; lia). cbn [andb].
      destruct (Nat.lt_ge_cases i n) as [Hi|Hi].
      + assert ((o + i <? o + n)%nat = true) as -> by (apply Nat.ltb_lt; lia).
        assert ((i <? l)%nat = true) as -> by (apply Nat.ltb_lt; lia).
        rewrite nth_error_app1 by lia. f_equal. lia.
      + assert ((o + i <? o + n)%nat = false) as -> by (apply Nat.ltb_ge; lia).
        rewrite nth_error_app2 by lia. rewrite Ln, nth_error_skipn', nth_error_cells.
        replace (n + (i - n))%nat with i by lia. reflexivity.
  Qed.

  Lemma copy_spec st dst src : wf_slice st dst -> wf_slice st src ->
    snd (copy_ st dst src) = Nat.min (slen dst) (slen src) /\
    cells (fst (copy_ st dst src)) dst =
      firstn (Nat.min (slen dst) (slen src)) (cells st src) ++ skipn (Nat.min (slen dst) (slen src)) (cells st dst).
  Proof.
    intros Wd Ws. unfold copy_. pose proof (copy_vals_spec st dst (cells st src) Wd) as H.
    rewrite length_cells in H by exact Ws. exact H.
  Qed.

  (* copy touches no other array *)
  Lemma copy_vals_other st dst vs b : (match dst with SNil => True | SMk a _ _ _ => b <> a end) ->
    array (fst (copy_vals st dst vs)) b = array st b.
  Proof.
    destruct dst as [|a o l c]; cbn [copy_vals fst]; [reflexivity|]. intros Hb.
    destruct (Nat.lt_ge_cases a (length st)) as [Ha|Ha].
    - rewrite array_arr_write by exact Ha. apply Nat.eqb_neq in Hb. rewrite Hb. reflexivity.
    - rewrite arr_write_out by exact Ha. reflexivity.
  Qed.
End Facts.
