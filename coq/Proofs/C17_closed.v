(* C17, part 5: there are no other function objects.  In every reachable state each
   object of the function heap is the object of a declared function / method, or a
   bound method whose target is one; so EVERY successful call of ANY function value,
   however it was obtained and wherever it was kept, runs a body of the version
   loaded last. *)
From Coq Require Import ZArith List Bool Lia.
From GV Require Import Model.Reload Proofs.C17_base Proofs.C17_reload Proofs.C17_hist.
Import ListNotations.
Open Scope Z_scope.

Lemma nth_app_cases : forall {A} (l x : list A) c o, nth_error (l ++ x) c = Some o ->
  nth_error l c = Some o \/ ((length l <= c)%nat /\ In o x).
Proof.
  intros. destruct (Nat.lt_ge_cases c (length l)).
  - left. now rewrite nth_error_app1 in H.
  - right. split; auto. rewrite nth_error_app2 in H by auto. eapply nth_error_In; eauto.
Qed.

Lemma nth_app1_cases : forall {A} (l : list A) x c o, nth_error (l ++ [x]) c = Some o ->
  nth_error l c = Some o \/ (c = length l /\ o = x).
Proof.
  intros. destruct (Nat.lt_ge_cases c (length l)).
  - left. now rewrite nth_error_app1 in H.
  - right. rewrite nth_error_app2 in H by auto.
    destruct (c - length l)%nat eqn:D; simpl in H.
    + inv H. split; auto. lia.
    + destruct n; discriminate.
Qed.

(* objects allocated by evaluating paths: bound methods whose target is an entry of a method table *)
Definition newbound (st : state) (x : list fobj) : Prop :=
  Forall (fun o => exists r f ta ty m, o = FBound r f /\ nth_error (types st) ta = Some ty /\
                                       lookup m (tmethods ty) = Some (VFunc f)) x.

Definition allocs (st st' : state) : Prop :=
  types st' = types st /\ exists x, (funcs st' = funcs st ++ x)%list /\ newbound st x.

Lemma allocs_refl : forall st, allocs st st.
Proof. intros. split; auto. exists []. split. now rewrite app_nil_r. constructor. Qed.
Lemma allocs_trans : forall a b c, allocs a b -> allocs b c -> allocs a c.
Proof.
  intros a b c [T1 (x1 & F1 & N1)] [T2 (x2 & F2 & N2)]. split. congruence.
  exists (x1 ++ x2)%list. split. rewrite F2, F1. now rewrite app_assoc.
  apply Forall_app. split; auto. unfold newbound in *. rewrite T1 in N2. exact N2.
Qed.

Lemma get_index_allocs : forall st i a st' v, get_index st i a = Some (st', v) -> allocs st st'.
Proof.
  unfold get_index. intros.
  destruct (nth_error (insts st) i); try discriminate.
  destruct (lookup a (ifields i0)).
  - inv H. apply allocs_refl.
  - destruct (nth_error (types st) (ity i0)) as [ty|] eqn:N; try discriminate.
    destruct (lookup a (tmethods ty)) as [[| |f| |]|] eqn:L; try discriminate.
    inv H. split; auto. exists [FBound i f]. split; auto. constructor; [|constructor].
    exists i, f, (ity i0), ty, a. auto.
Qed.
Lemma eval_path_allocs : forall p st st' v, eval_path st p = Some (st', v) -> allocs st st'.
Proof.
  induction p; simpl; intros.
  - inv H. apply allocs_refl.
  - destruct (nth_error (slots st) k); inv H. apply allocs_refl.
  - destruct (eval_path st p) as [[st1 []]|] eqn:E; try discriminate.
    eapply allocs_trans; [eapply IHp; eauto | eapply get_index_allocs; eauto].
Qed.
Lemma eval_arg_allocs : forall a st st' v, eval_arg st a = Some (st', v) -> allocs st st'.
Proof. destruct a; simpl; intros. inv H. apply allocs_refl. eapply eval_path_allocs; eauto. Qed.
Lemma eval_args_allocs : forall fs st st' vs, eval_args st fs = Some (st', vs) -> allocs st st'.
Proof.
  induction fs as [|[k a] r IH]; simpl; intros.
  - inv H. apply allocs_refl.
  - destruct (eval_arg st a) as [[st1 v]|] eqn:E; try discriminate.
    destruct (eval_args st1 r) as [[st2 vs']|] eqn:E2; try discriminate. inv H.
    eapply allocs_trans; [eapply eval_arg_allocs; eauto | eauto].
Qed.
Lemma eval_expr_allocs : forall e st st' v, eval_expr st e = Some (st', v) -> allocs st st'.
Proof.
  destruct e; simpl; intros.
  - eapply eval_arg_allocs; eauto.
  - destruct (eval_args st fs) as [[st1 vs]|] eqn:E; try discriminate.
    destruct (gget st1 t); try discriminate.
    destruct (nth_error (types st1) a); try discriminate. inv H.
    eapply allocs_trans; [eapply eval_args_allocs; eauto|]. split; auto. exists []. split. simpl. now rewrite app_nil_r. constructor.
Qed.
Lemma store_allocs : forall st l v st', store st l v = Some st' -> allocs st st'.
Proof.
  intros st l v st' E. destruct l; simpl in E.
  - inv E. split; auto. exists []. split. simpl. now rewrite app_nil_r. constructor.
  - inv E. split; auto. exists []. split. simpl. now rewrite app_nil_r. constructor.
  - destruct (eval_path st p) as [[st1 []]|] eqn:EP; try discriminate.
    destruct (nth_error (insts st1) a); inv E.
    eapply allocs_trans; [eapply eval_path_allocs; eauto|]. split; auto. exists []. split. simpl. now rewrite app_nil_r. constructor.
Qed.
Lemma step_allocs : forall prog st o st' ob, (forall v, o <> HLoad v) -> step prog st o = Some (st', ob) -> allocs st st'.
Proof.
  intros prog st o st' ob NL E. destruct o; simpl in E.
  - exfalso. eapply NL; eauto.
  - destruct (eval_expr st e) as [[st1 v]|] eqn:EE; try discriminate.
    destruct (store st1 l v) as [st2|] eqn:ES; inv E.
    eapply allocs_trans; [eapply eval_expr_allocs; eauto | eapply store_allocs; eauto].
  - destruct (eval_path st p) as [[st1 v]|] eqn:EP; try discriminate.
    destruct (call_obs st1 v); inv E. eapply eval_path_allocs; eauto.
  - destruct (eval_path st p) as [[st1 v]|] eqn:EP; try discriminate.
    destruct (eval_path st1 q) as [[st2 w]|] eqn:EQ; try discriminate.
    destruct (same_obj v w); inv E. eapply allocs_trans; eapply eval_path_allocs; eauto.
Qed.

Section Closed.
  Variable S : sig.
  Hypothesis WF : wf_sig S.

  Definition owned (st : state) (a : addr) : Prop := exists k, key_ok S k /\ fn_addr st k = Some a.
  (* every function object is a declared one or a bound method of a declared one *)
  Definition Heap (st : state) : Prop :=
    forall c o, nth_error (funcs st) c = Some o -> owned st c \/ exists r f, o = FBound r f /\ owned st f.
  (* every entry of every method table is the object of a declared method *)
  Definition Meths (st : state) : Prop :=
    forall ta ty m f, nth_error (types st) ta = Some ty -> lookup m (tmethods ty) = Some (VFunc f) ->
      exists t, key_ok S (KMeth t m) /\ fn_addr st (KMeth t m) = Some f.
  Definition Closed (st : state) : Prop := Heap st /\ Meths st.

  Lemma closed_init : Closed init_state.
  Proof. split; intros c o H; destruct c; discriminate. Qed.

  Lemma owned_mono : forall st st', (forall k a, key_ok S k -> fn_addr st k = Some a -> fn_addr st' k = Some a) ->
    forall a, owned st a -> owned st' a.
  Proof. intros st st' ST a (k & KO & F). exists k. auto. Qed.

  (* allocation of bound methods keeps the heap closed *)
  Lemma allocs_closed : forall st st', allocs st st' ->
    (forall k, key_ok S k -> fn_addr st' k = fn_addr st k) -> Closed st -> Closed st'.
  Proof.
    intros st st' [T (x & F & NB)] FA [H M].
    assert (OM : forall a, owned st a -> owned st' a).
    { apply owned_mono. intros. rewrite FA; auto. }
    split.
    - intros c o N. rewrite F in N. apply nth_app_cases in N. destruct N as [N|[_ IN]].
      + destruct (H c o N) as [O|(r & f & E & O)]; [left|right]; eauto.
      + unfold newbound in NB. rewrite Forall_forall in NB.
        destruct (NB o IN) as (r & f & ta & ty & m & -> & N & L).
        destruct (M ta ty m f N L) as (t & KO & FF). right. exists r, f. split; auto. apply OM. exists (KMeth t m). auto.
    - intros ta ty m f N L. rewrite T in N. destruct (M ta ty m f N L) as (t & KO & FF).
      exists t. split; auto. rewrite FA; auto.
  Qed.

  Lemma exec_closed : forall st i st', instr_ok S i -> Inv S st -> Closed st -> exec_instr st i = Some st' -> Closed st'.
  Proof.
    intros st i st' OK I [H M] E.
    pose proof (exec_fn_addr S WF st i st' OK I E) as FA.
    assert (ST : forall k a, key_ok S k -> fn_addr st k = Some a -> fn_addr st' k = Some a).
    { intros k a KO F. rewrite (FA k KO), F. reflexivity. }
    pose proof (owned_mono st st' ST) as OM.
    assert (HOLD : forall c o, nth_error (funcs st) c = Some o ->
                     owned st' c \/ exists r f, o = FBound r f /\ owned st' f).
    { intros c o N. destruct (H c o N) as [O|(r & f & EQ & O)]; [left|right]; eauto. }
    assert (MOLD : forall ta ty m f, nth_error (types st) ta = Some ty -> lookup m (tmethods ty) = Some (VFunc f) ->
                     exists t, key_ok S (KMeth t m) /\ fn_addr st' (KMeth t m) = Some f).
    { intros ta ty m f N L. destruct (M ta ty m f N L) as (t & KO & FF). exists t. auto. }
    destruct i; simpl in OK.
    - (* GlobalStruct *)
      apply exec_GlobalStruct in E. destruct E as [[G ->]|(ta0 & ty0 & G & N0 & ->)].
      + split. exact HOLD.
        intros ta ty m f N L. simpl in N. apply nth_app_cases in N. destruct N as [N|[_ IN]].
        * eapply MOLD; eauto.
        * destruct IN as [<-|[]]. discriminate.
      + split. exact HOLD.
        intros ta ty m f N L. simpl in N. destruct (Nat.eq_dec ta0 ta).
        * subst. rewrite nth_upd_same in N by (eapply nth_lt; eauto). inv N. simpl in L. eapply MOLD; eauto.
        * rewrite nth_upd_other in N by auto. eapply MOLD; eauto.
    - (* SetMethod *)
      apply exec_SetMethod in E. destruct E as (ta0 & ty0 & G & N0 & [(a & L0 & LT & ->)|(FN & ->)]).
      + split.
        * intros c o N. simpl in N. destruct (Nat.eq_dec a c).
          -- subst. left. apply OM. exists (KMeth t m). split; auto. simpl. now rewrite G, N0, L0.
          -- rewrite nth_upd_other in N by auto. eauto.
        * exact MOLD.
      + assert (NEW : fn_addr (set_types (set_funcs st (funcs st ++ [FBody b]))
                         (upd (types st) ta0 (mkTy (tfields ty0) (upsert m (VFunc (length (funcs st))) (tmethods ty0)))))
                        (KMeth t m) = Some (length (funcs st))).
        { rewrite (FA (KMeth t m) OK), FN. now rewrite key_is_refl by reflexivity. }
        split.
        * intros c o N. simpl in N. apply nth_app1_cases in N. destruct N as [N|[-> ->]].
          -- eauto.
          -- left. exists (KMeth t m). auto.
        * intros ta ty m' f N L. simpl in N. destruct (Nat.eq_dec ta0 ta).
          -- subst. rewrite nth_upd_same in N by (eapply nth_lt; eauto). inv N. simpl in L.
             destruct (Z.eq_dec m' m).
             ++ subst. rewrite lookup_upsert_same in L. inv L. exists t. auto.
             ++ rewrite lookup_upsert_other in L by auto. eapply MOLD; eauto.
          -- rewrite nth_upd_other in N by auto. eapply MOLD; eauto.
    - (* GlobalFunc *)
      apply exec_GlobalFunc in E. destruct E as [[G ->]|(a & G & LT & ->)].
      + assert (NEW : fn_addr (gset (set_funcs st (funcs st ++ [FBody b])) n (VFunc (length (funcs st)))) (KFunc n)
                      = Some (length (funcs st))).
        { rewrite (FA (KFunc n) OK). simpl. rewrite G. now rewrite key_is_refl by reflexivity. }
        split.
        * intros c o N. simpl in N. apply nth_app1_cases in N. destruct N as [N|[-> ->]].
          -- eauto.
          -- left. exists (KFunc n). auto.
        * exact MOLD.
      + split.
        * intros c o N. simpl in N. destruct (Nat.eq_dec a c).
          -- subst. left. apply OM. exists (KFunc n). split; auto. simpl. now rewrite G.
          -- rewrite nth_upd_other in N by auto. eauto.
        * exact MOLD.
    - (* GlobalZero *)
      apply exec_GlobalZero in E. destruct E as [[_ ->]|[_ ->]]; split; auto.
    - (* GlobalSet *)
      apply exec_GlobalSet in E. destruct E as (st1 & v & EE & F & ->).
      assert (C1 : Closed st1).
      { eapply allocs_closed; [eapply eval_expr_allocs; eauto | | split; auto].
        intros. now apply frame_fn_addr. }
      destruct C1 as [H1 M1].
      assert (ST1 : forall k a, key_ok S k -> fn_addr st1 k = Some a -> fn_addr (gset st1 n v) k = Some a).
      { intros k a KO FF. rewrite (frame_fn_addr _ _ k F) in FF. auto. }
      pose proof (owned_mono _ _ ST1) as OM1.
      split.
      + intros c o N. simpl in N. destruct (H1 c o N) as [O|(r & f & EQ & O)]; [left|right]; eauto.
      + intros ta ty m f N L. simpl in N. destruct (M1 ta ty m f N L) as (t & KO & FF). exists t. auto.
  Qed.

  Lemma exec_list_closed : forall is st st', Forall (instr_ok S) is -> Inv S st -> Closed st ->
    exec_list st is = Some st' -> Closed st'.
  Proof.
    induction is as [|i is IH]; simpl; intros st st' OK I C E. now inv E.
    inv OK. destruct (exec_instr st i) as [st1|] eqn:E1; try discriminate.
    eapply IH; [eauto | eapply exec_inv; eauto | eapply exec_closed; eauto | exact E].
  Qed.

  Variable beta : nat -> bodies.

  Lemma step_closed : forall st o st' ob, hop_ok S o -> Inv S st -> Closed st ->
    step (prog S beta) st o = Some (st', ob) -> Closed st'.
  Proof.
    intros st o st' ob OK I C E.
    destruct o as [v|l e|p|p q];
      try (eapply allocs_closed; [eapply step_allocs; eauto; congruence | | exact C];
           intros; eapply hframe_fn_addr; eauto; eapply step_hframe; eauto; congruence).
    simpl in E. destruct (exec_list st (prog S beta v)) as [st1|] eqn:EL; inv E.
    exact (exec_list_closed _ _ _ (proj1 (version_ok S (beta v))) I C EL).
  Qed.

  Lemma run_closed : forall h st st' o, hist_ok S h -> Inv S st -> Closed st ->
    run (prog S beta) st h = Some (st', o) -> Closed st'.
  Proof.
    induction h as [|op r IH]; simpl; intros st st' o OK I C E. now inv E.
    inv OK. destruct (step (prog S beta) st op) as [[st1 ob]|] eqn:ES; try discriminate.
    destruct (run (prog S beta) st1 r) as [[st2 obs]|] eqn:ER; inv E.
    destruct (step_good S WF beta _ _ _ _ H1 I ES) as (I1 & _).
    exact (IH _ _ _ H2 I1 (step_closed _ _ _ _ H1 I C ES) ER).
  Qed.

  (* every successful call of any function value in a reachable state runs the body that the version
     loaded last gives some declared function or method *)
  Theorem any_call : forall h st o v, hist_ok S h -> run (prog S beta) init_state h = Some (st, o) ->
    last_load h = Some v ->
    forall c ob, call_obs st (VFunc c) = Some ob ->
      exists k recv, key_ok S k /\ ob = OCall (body_of (beta v) k) recv /\
        ((recv = None /\ fn_addr st k = Some c) \/
         (exists r a, recv = Some r /\ nth_error (funcs st) c = Some (FBound r a) /\ fn_addr st k = Some a)).
  Proof.
    intros h st o v OK R LL c ob CO.
    pose proof (run_closed _ _ _ _ OK (inv_init S) closed_init R) as [H _].
    pose proof (latest S WF beta _ _ _ _ OK R LL) as LA.
    destruct (run_good S WF beta _ _ _ _ OK (inv_init S) R) as (I & _).
    simpl in CO. destruct (nth_error (funcs st) c) as [o0|] eqn:N; try discriminate.
    destruct (H c o0 N) as [(k & KO & F)|(r & f & -> & (k & KO & F))].
    - rewrite (LA k c KO F) in N. inv N. inv CO. exists k, None. split; auto.
    - rewrite (LA k f KO F) in CO. inv CO. exists k, (Some r). split; auto. split; auto. right. eauto.
  Qed.
End Closed.
