(* C18, run part (3): renumbering slots keeps blocks closed; sequential composition [exec_seq];
   the chunks run one after the other against the assembled code run once [run_chunks]. *)
From Coq Require Import ZArith List String Ascii Bool Lia.
From GV Require Import GoSpec.GoPrim Gen.ValueOps_gen Gen.Tables_gen Model.VM Model.Incr Proofs.C18_step Proofs.C18_seq Proofs.C18_slots.
Import ListNotations.
Open Scope Z_scope.

Lemma forallb_ext' : forall {A} (f g : A -> bool) l, (forall x, f x = g x) -> forallb f l = forallb g l.
Proof. intros A f g l H. induction l as [|x l IH]; [reflexivity|]. cbn [forallb]. rewrite H, IH. reflexivity. Qed.

(* ---- renumbering the slots keeps a block closed ---- *)
Lemma icode_shift : forall b i, icode (shift_instr b i) = icode i.
Proof. reflexivity. Qed.
Lemma iC_shift : forall b i, iC (shift_instr b i) = iC i.
Proof. reflexivity. Qed.

Lemma shift_code_length : forall b c k, List.length (shift_code b k c) = List.length c.
Proof.
  induction c as [|i r IH]; intros k; [reflexivity|].
  destruct k; cbn [shift_code]; [destruct (icode i =? c_Func)|]; cbn [List.length]; rewrite IH; reflexivity.
Qed.
Lemma tops_shift : forall b c k, tops k (shift_code b k c) = tops k c.
Proof.
  induction c as [|i r IH]; intros k; [reflexivity|].
  destruct k; cbn [shift_code tops].
  - destruct (icode i =? c_Func) eqn:E; cbn [tops]; [rewrite E|rewrite icode_shift, E]; rewrite IH; reflexivity.
  - rewrite IH; reflexivity.
Qed.
Lemma final_skip_shift : forall b c k, final_skip k (shift_code b k c) = final_skip k c.
Proof.
  induction c as [|i r IH]; intros k; [reflexivity|].
  destruct k; cbn [shift_code final_skip].
  - destruct (icode i =? c_Func) eqn:E; cbn [final_skip]; [rewrite E|rewrite icode_shift, E]; rewrite IH; reflexivity.
  - rewrite IH; reflexivity.
Qed.

Lemma jumps_shift : forall b i, jumps (shift_instr b i) = jumps i.
Proof.
  intros b i. unfold jumps. rewrite icode_shift. unfold shift_instr. cbn [iA iB iC icode].
  destruct ((icode i =? c_Jump) || (icode i =? c_JumpFalse) || (icode i =? c_JumpTrue) || (icode i =? c_And) || (icode i =? c_Or)) eqn:E1.
  - assert (Hs : slotA (icode i) = false).
    { repeat (apply orb_true_iff in E1; destruct E1 as [E1|E1]); apply Z.eqb_eq in E1; rewrite E1; reflexivity. }
    rewrite Hs, Z.add_0_r. reflexivity.
  - destruct (icode i =? c_Range) eqn:E2.
    + apply Z.eqb_eq in E2. rewrite E2. change (slotB c_Range) with false. change (c_Range =? c_Iter) with false.
      cbv iota. rewrite Z.add_0_r. reflexivity.
    + destruct (icode i =? c_Iter); reflexivity.
Qed.

Lemma shift_instr_func : forall b i, icode i = c_Func -> shift_instr b i = i.
Proof.
  intros b i E. unfold shift_instr. rewrite E. change (slotA c_Func) with false. change (slotB c_Func) with false.
  change (c_Func =? c_Iter) with false. cbv iota. rewrite !Z.add_0_r, <- E. destruct i; reflexivity.
Qed.

Lemma shift_nth : forall b c k p,
  nth_error (shift_code b k c) p =
  match nth_error c p with
  | None => None
  | Some i => Some (if nth p (tops k c) false then shift_instr b i else i)
  end.
Proof.
  induction c as [|i r IH]; intros k p; [destruct p; reflexivity|].
  destruct k; cbn [shift_code tops].
  - destruct (icode i =? c_Func) eqn:E.
    + destruct p; cbn [nth_error nth]; [rewrite shift_instr_func by (apply Z.eqb_eq; exact E); reflexivity|apply IH].
    + destruct p; cbn [nth_error nth]; [reflexivity|apply IH].
  - destruct p; cbn [nth_error nth]; [reflexivity|apply IH].
Qed.

Lemma top_or_end_shift : forall b c p, top_or_end (shift_code b O c) p = top_or_end c p.
Proof. intros. unfold top_or_end, zlen. rewrite shift_code_length, tops_shift. reflexivity. Qed.

Lemma closedb_shift : forall b c, closedb (shift_code b O c) = closedb c.
Proof.
  intros b c. unfold closedb, completeb. rewrite final_skip_shift, shift_code_length. f_equal.
  apply forallb_ext'. intro pc. unfold closed_at. rewrite shift_nth, tops_shift.
  destruct (nth_error c pc) as [i|]; [|reflexivity].
  destruct (nth pc (tops 0 c) false) eqn:Et; cbn [negb]; [|reflexivity].
  rewrite icode_shift. f_equal.
  destruct (icode i =? c_Func) eqn:E.
  - rewrite shift_instr_func by (apply Z.eqb_eq; exact E). rewrite top_or_end_shift. reflexivity.
  - rewrite top_or_end_shift, jumps_shift. f_equal. apply forallb_ext'. intro d. apply top_or_end_shift.
Qed.


(* ---- the body of a top-level FUNC is not renumbered ---- *)
Lemma tops_skip : forall c k j, (j < k)%nat -> nth j (tops k c) false = false.
Proof.
  induction c as [|x r IH]; intros k j H; [destruct j; reflexivity|].
  destruct k as [|k]; [lia|]. cbn [tops]. destruct j as [|j]; [reflexivity|]. cbn [nth]. apply IH. lia.
Qed.
Lemma tops_body : forall c k pc i, nth pc (tops k c) false = true -> nth_error c pc = Some i ->
  icode i = c_Func -> forall j, (0 < j <= Z.to_nat (func_len i))%nat -> nth (pc + j) (tops k c) false = false.
Proof.
  induction c as [|x r IH]; intros k pc i Ht Hn Hf j Hj; [destruct pc; discriminate|].
  destruct pc as [|pc].
  - cbn [nth_error] in Hn. inversion Hn; subst x. destruct k as [|k]; cbn [tops nth] in Ht; [|discriminate].
    cbn [tops]. rewrite Hf, Z.eqb_refl. destruct j as [|j]; [lia|]. cbn [Nat.add nth]. apply tops_skip. lia.
  - cbn [nth_error] in Hn. destruct k as [|k]; cbn [tops nth Nat.add] in *; eapply IH; eauto.
Qed.
Lemma firstn_skipn_ext : forall {A} a n (l1 l2 : list A), List.length l1 = List.length l2 ->
  (forall j, (a <= j < a + n)%nat -> nth_error l1 j = nth_error l2 j) ->
  firstn n (skipn a l1) = firstn n (skipn a l2).
Proof.
  induction a as [|a IHa]; intros n l1 l2 Hl H.
  - cbn [skipn]. revert l1 l2 Hl H. induction n as [|n IHn]; intros l1 l2 Hl H; [reflexivity|].
    destruct l1 as [|x l1], l2 as [|y l2]; try discriminate; [reflexivity|].
    pose proof (H 0%nat ltac:(lia)) as H0. cbn in H0. inversion H0; subst y. cbn [firstn]. f_equal.
    apply IHn; [cbn in Hl; lia|]. intros j Hj. apply (H (S j)). lia.
  - destruct l1 as [|x l1], l2 as [|y l2]; try discriminate; [reflexivity|]. cbn [skipn].
    apply IHa; [cbn in Hl; lia|]. intros j Hj. apply (H (S j)). lia.
Qed.
Lemma shift_body : forall b c pc i, nth pc (tops O c) false = true -> nth_error c pc = Some i -> icode i = c_Func ->
  firstn (Z.to_nat (func_len i)) (skipn (S pc) (shift_code b O c)) = firstn (Z.to_nat (func_len i)) (skipn (S pc) c).
Proof.
  intros b c pc i Ht Hn Hf. apply firstn_skipn_ext; [apply shift_code_length|].
  intros j Hj. rewrite shift_nth. destruct (nth_error c j) as [x|]; [|reflexivity].
  replace j with (pc + (j - pc))%nat by lia. rewrite (tops_body c O pc i Ht Hn Hf) by lia. reflexivity.
Qed.

(* ---- what slots_okb says of a top-level instruction ---- *)
Lemma slots_ok_at : forall n c k pc i, slots_okb_from k n c = true ->
  nth pc (tops k c) false = true -> nth_error c pc = Some i -> icode i <> c_Func ->
  forallb (fun a => (0 <=? a) && (a <? n)) (slot_uses i) = true /\
  ((icode i =? c_Iter) = true -> 0 <= iB i < 4294967296).
Proof.
  intros n. induction c as [|x r IH]; intros k pc i Hs Ht Hn Hf; [destruct pc; discriminate|].
  destruct pc as [|pc].
  - cbn [nth_error] in Hn. inversion Hn; subst x. destruct k as [|k]; cbn [tops nth] in Ht; [|discriminate].
    cbn [slots_okb_from] in Hs. apply Z.eqb_neq in Hf. rewrite Hf in Hs.
    apply andb_true_iff in Hs. destruct Hs as [Hs _]. apply andb_true_iff in Hs. destruct Hs as [H1 H2].
    split; [exact H1|]. intro EI. rewrite EI in H2. apply andb_true_iff in H2. destruct H2 as [Ha Hb].
    apply Z.leb_le in Ha. apply Z.ltb_lt in Hb. lia.
  - cbn [nth_error] in Hn. destruct k as [|k]; cbn [tops nth slots_okb_from] in *.
    + destruct (icode x =? c_Func); [eapply IH; eauto|].
      apply andb_true_iff in Hs. destruct Hs as [_ Hs]. eapply IH; eauto.
    + eapply IH; eauto.
Qed.

Lemma slot_cond_of_okb : forall n b i, 0 <= b -> b + n < slot_limit ->
  forallb (fun a => (0 <=? a) && (a <? n)) (slot_uses i) = true ->
  ((icode i =? c_Iter) = true -> 0 <= iB i < 4294967296) ->
  slot_cond i n b.
Proof.
  intros n b i Hb Hlim Hu Hi. rewrite forallb_forall in Hu.
  assert (Hin : forall a, In a (slot_uses i) -> 0 <= a < n).
  { intros a Ha. specialize (Hu a Ha). apply andb_true_iff in Hu. destruct Hu as [H1 H2].
    apply Z.leb_le in H1. apply Z.ltb_lt in H2. lia. }
  unfold slot_uses in Hin. split; [|split].
  - intro EA. apply Hin. rewrite EA. left. reflexivity.
  - intro EB. apply Hin. rewrite EB. apply in_or_app. right. left. reflexivity.
  - intro EI. rewrite EI in Hin. destruct (splitParams (iB i)) as [b1 b2]. cbn [fst snd].
    split; [apply Hi; exact EI|]. split; [|split].
    + apply Hin. apply in_or_app. right. apply in_or_app. right. left. reflexivity.
    + apply Hin. apply in_or_app. right. apply in_or_app. right. right. left. reflexivity.
    + unfold slot_limit in Hlim. exact Hlim.
Qed.

Lemma top_or_end_0 : forall c, top_or_end c 0 = true.
Proof. intros [|i r]; reflexivity. Qed.

Lemma total_slots_nonneg : forall cs, Forall (fun ch : chunk => 0 <= snd ch) cs -> 0 <= total_slots cs.
Proof.
  induction cs as [|[c n] r IH]; intros H; cbn [total_slots]; [lia|].
  inversion H; subst. cbn [snd] in *. specialize (IH H3). lia.
Qed.

Section Run.
  Variable grow : Z -> Z -> Z.
  Variable ext_get : st -> value -> value -> option (res value).
  Variable ext_set : st -> value -> value -> value -> option (res st).
  Variable ext_len : st -> value -> option Z.
  Variable ext_getattr : st -> value -> Z -> option (res (value * st)).
  Variable ext_setattr : st -> value -> Z -> value -> option (res st).
  Notation exec := (VM.exec grow ext_get ext_set ext_len ext_getattr ext_setattr).
  Notation run := (VM.run grow ext_get ext_set ext_len ext_getattr ext_setattr).
  Notation run_seq := (Incr.run_seq grow ext_get ext_set ext_len ext_getattr ext_setattr).
  Notation exec_ctx := (exec_ctx grow ext_get ext_set ext_len ext_getattr ext_setattr).
  Notation exec_S := (exec_S grow ext_get ext_set ext_len ext_getattr ext_setattr).
  Notation lifts := (lifts grow ext_get ext_set ext_len ext_getattr ext_setattr).
  Notation step1 := (VM.step1 grow ext_get ext_set ext_len ext_getattr ext_setattr).
  Notation call_fn := (VM.call_fn grow ext_get ext_set ext_len ext_getattr ext_setattr).
  Notation exec_O := (exec_O grow ext_get ext_set ext_len ext_getattr ext_setattr).
  Notation call_err_not_done := (call_err_not_done grow ext_get ext_set ext_len ext_getattr ext_setattr).
  Notation step1_slots := (step1_slots grow ext_get ext_set ext_len ext_getattr ext_setattr).
  Notation step1_len := (step1_len grow ext_get ext_set ext_len ext_getattr ext_setattr).
  Notation step1_codes := (step1_codes grow ext_get ext_set ext_len ext_getattr ext_setattr).

  Lemma exec_at_end : forall C sl ops s, exec 1 C (zlen C) sl ops s = RDone sl ops s.
  Proof.
    intros. rewrite exec_S. replace (znth C (zlen C)) with (@None instr); [reflexivity|].
    symmetry. unfold znth, zlen. destruct (Z.of_nat (List.length C) <? 0) eqn:E; [reflexivity|].
    apply nth_error_None. lia.
  Qed.

  (* ---- sequential composition of two closed blocks ---- *)
  Theorem exec_seq : forall c1 c2, closedb c1 = true -> closedb c2 = true ->
    forall f1 sl ops s,
    match exec f1 c1 0 sl ops s with
    | RFuel => True
    | RDone sl1 ops1 s1 =>
        forall f2 r, exec f2 c2 0 sl1 ops1 s1 = r -> r <> RFuel ->
        exists f', exec f' (c1 ++ c2) 0 sl ops s = r
    | r => exec f1 (c1 ++ c2) 0 sl ops s = r
    end.
  Proof.
    intros c1 c2 H1 H2 f1 sl ops s.
    pose proof (exec_ctx c1 H1 [] c2 f1 0 sl ops s (top_or_end_0 c1)) as Hc.
    change (zlen (@nil instr)) with 0 in Hc. cbn [app] in Hc. rewrite !Z.add_0_l in Hc.
    destruct (exec f1 c1 0 sl ops s) as [sl1 ops1 s1| | | |] eqn:E1; cbn in Hc; try exact Hc.
    intros f2 r E2 Hr.
    pose proof (exec_ctx c2 H2 c1 [] f2 0 sl1 ops1 s1 (top_or_end_0 c2)) as Hd.
    rewrite app_nil_r, Z.add_0_r, E2 in Hd.
    destruct r as [sl2 ops2 s2| | | |]; cbn in Hd.
    - exists (f1 + (f2 + 1))%nat. apply Hc; [|discriminate]. apply Hd; [|discriminate].
      replace (zlen c1 + zlen c2) with (zlen (c1 ++ c2)) by (unfold zlen; rewrite app_length; lia).
      apply exec_at_end.
    - exists (f1 + f2)%nat. apply Hc; [exact Hd|discriminate].
    - exists (f1 + f2)%nat. apply Hc; [exact Hd|discriminate].
    - congruence.
    - exists (f1 + f2)%nat. apply Hc; [exact Hd|discriminate].
  Qed.


  (* ---- a block on its own slots = the renumbered block on a shared slot array ---- *)
  Lemma slot_cond_func : forall i n b, icode i = c_Func -> slot_cond i n b.
  Proof.
    intros i n b E. unfold slot_cond. rewrite E. split; [|split]; intro X; vm_compute in X; discriminate X.
  Qed.

  Theorem exec_shift : forall c n, closedb c = true -> slots_okb c n = true ->
    forall pre post, zlen pre + n < slot_limit ->
    forall f pc sl ops s, top_or_end c pc = true -> zlen sl = n ->
      exec f (shift_code (zlen pre) O c) pc (pre ++ sl ++ post)%list ops s =
        map_slots (fun x => (pre ++ x ++ post)%list) (exec f c pc sl ops s) /\
      (forall sl' ops' s', exec f c pc sl ops s = RDone sl' ops' s' -> zlen sl' = n).
  Proof.
    intros c n Hc Hs pre post Hlim. set (b := zlen pre). set (C' := shift_code b O c).
    unfold slots_okb in Hs. apply andb_true_iff in Hs. destruct Hs as [Hn0 Hs]. apply Z.leb_le in Hn0.
    assert (Hb0 : 0 <= b) by (unfold b, zlen; lia).
    induction f as [|f IH]; intros pc sl ops s Ht Hl.
    - rewrite !exec_O. split; [reflexivity|discriminate].
    - rewrite !exec_S. destruct (znth c pc) as [i|] eqn:Ez.
      + pose proof (znth_range _ _ _ Ez) as [Hp0 Hp1].
        pose proof (top_in_range _ _ _ Ht Ez) as Htop.
        pose proof Ez as En. rewrite znth_nth_error in En by assumption.
        assert (Hz' : znth C' pc = Some (shift_instr b i)).
        { rewrite znth_nth_error by assumption. unfold C'. rewrite shift_nth, En, Htop. reflexivity. }
        destruct (closed_at_spec _ _ _ Hc Ht Ez) as [Hnr [Hfn Hnf]].
        assert (Hstep : step1 C' pc (shift_instr b i) (pre ++ sl ++ post)%list ops s =
                        map_sres (fun x => (pre ++ x ++ post)%list) (step1 c pc i sl ops s)).
        { destruct (Z.eq_dec (icode i) c_Func) as [Ef|Ef].
          - rewrite (shift_instr_func b i Ef).
            rewrite (step1_codes C' c pc pc i).
            + rewrite <- (shift_instr_func b i Ef) at 1. unfold b. apply step1_slots. apply slot_cond_func. exact Ef.
            + intros _. replace (Z.to_nat (pc + 1)) with (S (Z.to_nat pc)) by lia. unfold C'. apply shift_body; assumption.
          - rewrite (step1_codes C' c pc pc (shift_instr b i)) by (intro E; rewrite icode_shift in E; contradiction).
            unfold b. apply step1_slots. rewrite Hl.
            destruct (slots_ok_at n c O (Z.to_nat pc) i Hs Htop En Ef) as [Hu Hi].
            apply slot_cond_of_okb; assumption. }
        rewrite Hz', Hstep.
        pose proof (step1_len c pc i sl ops s _ eq_refl) as Hlen.
        destruct (step1 c pc i sl ops s) eqn:Es; cbn [map_sres sres_len] in *.
        * assert (Hnf' : icode i <> c_Func) by (eapply step1_next_notfunc; exact Es).
          apply IH; [apply (Hnf Hnf')|unfold zlen in *; lia].
        * pose proof (step1_jump _ _ _ _ _ _ _ _ _ _ _ _ _ _ _ _ Es) as Hj.
          apply IH; [|unfold zlen in *; lia].
          destruct (Z.eq_dec (icode i) c_Func) as [Ef|Ef].
          -- rewrite (jump_ok_func _ _ Hj Ef). apply (Hfn Ef).
          -- apply (Hnf Ef). apply jump_ok_jumps; assumption.
        * assert (Hnf' : icode i <> c_Func) by (eapply step1_call_notfunc; exact Es).
          unfold shift_instr. cbn [ipos].
          destruct (call_fn f pack fa xArgs xRets (ipos i) ops0 s0) as [ops'' s''|r0] eqn:Ec.
          -- apply IH; [apply (Hnf Hnf')|unfold zlen in *; lia].
          -- pose proof (call_err_not_done _ _ _ _ _ _ _ _ _ Ec) as Hnd.
             split; [destruct r0; try reflexivity; exfalso; eapply Hnd; reflexivity|].
             intros sl' ops' s' E. exfalso. eapply Hnd. exact E.
        * split; [reflexivity|]. intros sl' ops' s' E. inversion E; subst. unfold zlen in *. lia.
        * unfold shift_instr. cbn [ipos]. split; [reflexivity|discriminate].
        * split; [reflexivity|discriminate].
        * split; [reflexivity|discriminate].
      + assert (Hz' : znth C' pc = None).
        { apply (znth_len_none c). - unfold C'. rewrite shift_code_length. reflexivity. - exact Ez. }
        rewrite Hz'. split; [reflexivity|]. intros sl' ops' s' E. inversion E; subst. reflexivity.
  Qed.

  (* ---- the chunks one after the other = the assembled code once ---- *)
  Lemma same_outcome_nofuel : forall r w, observable r -> same_outcome r w -> w <> RFuel.
  Proof. intros r w Ho Hs. destruct r; cbn in *; try contradiction; [destruct Hs as [sl ->]|subst w]; discriminate. Qed.

  Lemma zlen_repeat : forall n, 0 <= n -> zlen (repeat nilV (Z.to_nat n)) = n.
  Proof. intros n H. unfold zlen. rewrite repeat_length. lia. Qed.

  Lemma chunk_okb_spec : forall c n, chunk_okb (c, n) = true -> closedb c = true /\ slots_okb c n = true /\ 0 <= n.
  Proof.
    intros c n H. unfold chunk_okb in H. cbn [fst snd] in H. apply andb_true_iff in H. destruct H as [H1 H2].
    split; [exact H1|split; [exact H2|]]. unfold slots_okb in H2. apply andb_true_iff in H2. destruct H2 as [H2 _].
    apply Z.leb_le in H2. exact H2.
  Qed.

  Lemma run_chunks_ctx : forall cs, Forall (fun ch => chunk_okb ch = true) cs -> forall preC preS fuel s r,
    zlen preS + total_slots cs < slot_limit ->
    run_seq fuel cs s = r -> observable r ->
    exists fuel', same_outcome r
      (exec fuel' (preC ++ assemble (zlen preS) cs) (zlen preC)
            (preS ++ repeat nilV (Z.to_nat (total_slots cs)))%list [] s).
  Proof.
    induction cs as [|[c n] rest IH]; intros Hok preC preS fuel s r Hlim Hr Hobs.
    - cbn in Hr. subst r. exists 1%nat. cbn [assemble total_slots]. rewrite app_nil_r.
      rewrite exec_at_end. eexists; reflexivity.
    - inversion Hok as [|x l Hck Hrest]; subst x l.
      destruct (chunk_okb_spec _ _ Hck) as [Hcl [Hsl Hn]].
      assert (Hnn : Forall (fun ch : chunk => 0 <= snd ch) rest).
      { eapply Forall_impl; [|exact Hrest]. intros [c' n'] H'. apply (chunk_okb_spec _ _ H'). }
      pose proof (total_slots_nonneg _ Hnn) as Ht.
      cbn [total_slots] in Hlim.
      set (b := zlen preS) in *.
      set (post := repeat nilV (Z.to_nat (total_slots rest))).
      set (C := (preC ++ assemble b ((c, n) :: rest))%list).
      assert (HC : C = (preC ++ shift_code b O c ++ assemble (b + n) rest)%list) by reflexivity.
      assert (Hslots : (preS ++ repeat nilV (Z.to_nat (total_slots (@cons chunk (c, n) rest))) =
                        preS ++ repeat nilV (Z.to_nat n) ++ post)%list).
      { cbn [total_slots]. rewrite Z2Nat.inj_add by lia. rewrite repeat_app. reflexivity. }
      enough (exists fuel', same_outcome r (exec fuel' C (zlen preC) (preS ++ repeat nilV (Z.to_nat n) ++ post)%list [] s)) as [f' Hf'].
      { exists f'. rewrite Hslots. exact Hf'. }
      destruct (exec_shift c n Hcl Hsl preS post ltac:(fold b; lia) fuel 0 (repeat nilV (Z.to_nat n)) [] s
                  (top_or_end_0 c) (zlen_repeat n Hn)) as [Heq Hlen]. fold b in Heq.
      assert (Hcl' : closedb (shift_code b O c) = true) by (rewrite closedb_shift; exact Hcl).
      pose proof (exec_ctx _ Hcl' preC (assemble (b + n) rest) fuel 0
                    (preS ++ repeat nilV (Z.to_nat n) ++ post)%list [] s (top_or_end_0 _)) as Hctx.
      rewrite <- HC, Heq, Z.add_0_r in Hctx.
      change (exec fuel c 0 (repeat nilV (Z.to_nat n)) [] s) with (run fuel c n s) in Hctx, Hlen.
      cbn [Incr.run_seq] in Hr.
      destruct rest as [|ch2 rest'].
      + (* the last chunk *)
        subst r. destruct (run fuel c n s) as [sl1 ops1 s1|msg p s1| | |] eqn:Er; cbn in Hobs; try contradiction.
        * cbn in Hctx. exists (fuel + 1)%nat. cbn [same_outcome]. eexists.
          apply Hctx; [|discriminate].
          replace (zlen preC + zlen (shift_code b O c)) with (zlen C).
          2:{ rewrite HC. cbn [assemble]. rewrite app_nil_r. unfold zlen. rewrite app_length. lia. }
          apply exec_at_end.
        * cbn in Hctx. exists fuel. exact Hctx.
      + destruct (run fuel c n s) as [sl1 ops1 s1|msg p s1| | |] eqn:Er.
        * destruct ops1 as [|o ops1]; [|subst r; contradiction].
          specialize (Hlen _ _ _ eq_refl).
          assert (Hb : zlen (preS ++ sl1) = b + n).
          { unfold b, zlen in *. rewrite app_length, Nat2Z.inj_add. lia. }
          destruct (IH Hrest (preC ++ shift_code b O c)%list (preS ++ sl1)%list fuel s1 r ltac:(rewrite Hb; lia) Hr Hobs) as [fuel2 H2].
          rewrite Hb in H2. rewrite <- !app_assoc in H2. fold post in H2. rewrite <- HC in H2.
          replace (zlen (preC ++ shift_code b O c)) with (zlen preC + zlen (shift_code b O c)) in H2
            by (unfold zlen; rewrite app_length; lia).
          exists (fuel + fuel2)%nat. cbn in Hctx.
          rewrite (Hctx fuel2 _ eq_refl (same_outcome_nofuel _ _ Hobs H2)). exact H2.
        * subst r. cbn in Hctx. exists fuel. exact Hctx.
        * subst r; contradiction.
        * subst r; contradiction.
        * subst r; contradiction.
  Qed.

  (* c18_run: the runs of the chunks in sequence (fresh nil slots and an empty operand stack for each,
     as successive Eval calls do) against ONE run of the assembled code on one slot array *)
  Theorem run_chunks : forall cs fuel s r, Forall (fun ch => chunk_okb ch = true) cs -> total_slots cs < slot_limit ->
    run_seq fuel cs s = r -> observable r ->
    exists fuel', same_outcome r (run fuel' (assemble 0 cs) (total_slots cs) s).
  Proof.
    intros cs fuel s r Hok Hlim Hr Hobs.
    destruct (run_chunks_ctx cs Hok [] [] fuel s r ltac:(exact Hlim) Hr Hobs) as [fuel' H].
    exists fuel'. exact H.
  Qed.
End Run.
