(* C12: functional correctness of the robin-hood table of Model/IntMap.v. *)
From Coq Require Import ZArith List Bool Lia PeanoNat.
From Coq Require Import ZifyNat.
From GV Require Import Model.IntMap Proofs.C12_cyc Proofs.C12_table.
Import ListNotations.

Ltac Zify.zify_post_hook ::= Z.div_mod_to_equations.

Lemma opt_ext : forall {A} (a b : option A), (forall v, a = Some v <-> b = Some v) -> a = b.
Proof.
  intros A a b H. destruct a as [x|], b as [y|]; try reflexivity.
  - symmetry. apply (H x). reflexivity.
  - destruct (H x) as [H1 _]. discriminate (H1 eq_refl).
  - destruct (H y) as [_ H2]. discriminate (H2 eq_refl).
Qed.

Lemma pow2_half : forall n, (exists j, n = 2 ^ j) -> 2 <= n -> exists j, n / 2 = 2 ^ j.
Proof.
  intros n [j Hj] Hn. destruct j as [|j].
  - cbn in Hj. lia.
  - exists j. rewrite Hj, Nat.pow_succ_r'. rewrite Nat.mul_comm. apply Nat.div_mul. lia.
Qed.

Section Spec.
  Context {V : Type}.
  Variable vzero : V.
  Variable assignV : V -> V -> V.

  Notation imap := (@imap V).
  Notation get := (get vzero).
  Notation set := (set vzero).
  Notation assign := (assign vzero assignV).
  Notation delete := (delete vzero).
  Notation newIntMap := (newIntMap vzero).

  (* The representation invariant.  With n = size m and d p = cdist of cell p:
     - the array has n cells, n is a power of two >= 16, mx = n*3/4, mn = n/4;
     - total counts the occupied cells (cdist <> 0) and total <= mx;
     - an occupied cell p with key q has cdist = ((p - home q) mod n) + 1;
     - d (next p) <= d p + 1 for EVERY p (occupied or not): this one clause is
       the robin-hood order and also says that all cells cyclically between
       home q and p are occupied (an empty p forces d (next p) <= 1);
     - the keys of occupied cells are pairwise distinct. *)
  Definition Inv (m : imap) : Prop :=
    let n := size m in
    let dd := fun p => cdist (get_cell vzero (cells m) p) in
    let kk := fun p => ckey (get_cell vzero (cells m) p) in
    (exists j, n = 2 ^ j) /\ 16 <= n /\
    mx m = n * 3 / 4 /\ mn m = n / 4 /\
    total m = length (filter (fun c => negb (cdist c =? 0)) (cells m)) /\
    total m <= mx m /\
    length (cells m) = n /\
    (forall p, p < n -> dd p <> 0 -> dd p = S ((p + n - home n (kk p)) mod n)) /\
    (forall p, p < n -> dd (next n p) <= S (dd p)) /\
    (forall p q, p < n -> q < n -> dd p <> 0 -> dd q <> 0 -> kk p = kk q -> p = q).

  (* the abstract view: what a lookup returns, as a total function *)
  Definition find (m : imap) (k : Z) : option V :=
    match get m k with Some r => r | None => None end.

  (* ---------- internal packaging of the invariant ---------- *)

  Notation WF := (WF vzero).
  Notation HasKV := (HasKV vzero).
  Notation HasKVex := (HasKVex vzero).
  Notation probe := (probe vzero).
  Notation d := (d vzero).
  Notation key := (key vzero).
  Notation val := (val vzero).

  (* everything but [total <= mx] *)
  Record Pre (m : imap) : Prop := mkPre {
    pre_pow2 : exists j, size m = 2 ^ j;
    pre_min : 16 <= size m;
    pre_mx : mx m = size m * 3 / 4;
    pre_mn : mn m = size m / 4;
    pre_total : total m = count (cells m);
    pre_wf : WF (size m) (cells m) }.

  Lemma Inv_iff : forall m, Inv m <-> (Pre m /\ total m <= mx m).
  Proof.
    intros m. unfold Inv. cbv zeta. split.
    - intros (H1 & H2 & H3 & H4 & H5 & H6 & H7 & H8 & H9 & H10).
      split; [|exact H6]. split; auto. split; auto.
    - intros [[H1 H2 H3 H4 H5 [H7 H8 H9 H10]] H6].
      repeat split; auto.
  Qed.

  Lemma Inv_pre : forall m, Inv m -> Pre m.
  Proof. intros m H. apply Inv_iff in H. tauto. Qed.

  Lemma Pre_n2 : forall m, Pre m -> 2 <= size m.
  Proof. intros m H. pose proof (pre_min m H). lia. Qed.

  Lemma Inv_count_lt : forall m, Inv m -> count (cells m) < size m.
  Proof.
    intros m H. apply Inv_iff in H. destruct H as [[_ Hmin Hmx _ Ht _] Hle].
    rewrite <- Ht. lia.
  Qed.

  (* ---------- the loops as a probe followed by an action ---------- *)

  Lemma get_loop_probe : forall f n cs i k,
    get_loop vzero f n cs i k =
    match probe n f cs i k with
    | None => None
    | Some None => Some None
    | Some (Some p) => Some (Some (val cs p))
    end.
  Proof.
    induction f as [|f IH]; intros n cs i k; cbn [get_loop C12_table.probe]; [reflexivity|].
    destruct (cdist (get_cell vzero cs i) =? 0); [reflexivity|].
    destruct (Z.eqb (ckey (get_cell vzero cs i)) k); [reflexivity|]. apply IH.
  Qed.

  Lemma set_loop_probe : forall f m i k v,
    set_loop vzero f m i k v =
    match probe (size m) f (cells m) i k with
    | None => None
    | Some None =>
        match insert vzero (size m) (cells m) k v with
        | None => None
        | Some cs =>
            let m' := mkMap cs (S (total m)) (size m) (mn m) (mx m) in
            if mx m' <? total m' then resize vzero m' (size m' * 2) else Some m'
        end
    | Some (Some p) =>
        Some (mkMap (set_cell (cells m) p (mkCell (d (cells m) p) (key (cells m) p) v))
                    (total m) (size m) (mn m) (mx m))
    end.
  Proof.
    induction f as [|f IH]; intros m i k v; cbn [set_loop C12_table.probe]; [reflexivity|].
    destruct (cdist (get_cell vzero (cells m) i) =? 0); [reflexivity|].
    destruct (Z.eqb (ckey (get_cell vzero (cells m) i)) k); [reflexivity|]. apply IH.
  Qed.

  Lemma assign_loop_probe : forall f m i k v,
    assign_loop vzero assignV f m i k v =
    match probe (size m) f (cells m) i k with
    | None => None
    | Some None => Some m
    | Some (Some p) =>
        Some (mkMap (set_cell (cells m) p
                       (mkCell (d (cells m) p) (key (cells m) p) (assignV v (val (cells m) p))))
                    (total m) (size m) (mn m) (mx m))
    end.
  Proof.
    induction f as [|f IH]; intros m i k v; cbn [assign_loop C12_table.probe]; [reflexivity|].
    destruct (cdist (get_cell vzero (cells m) i) =? 0); [reflexivity|].
    destruct (Z.eqb (ckey (get_cell vzero (cells m) i)) k); [reflexivity|]. apply IH.
  Qed.

  Lemma delete_loop_probe : forall f m i k,
    delete_loop vzero f m i k =
    match probe (size m) f (cells m) i k with
    | None => None
    | Some None => Some m
    | Some (Some p) => shift_loop vzero (S (size m)) m p (next (size m) p)
    end.
  Proof.
    induction f as [|f IH]; intros m i k; cbn [delete_loop C12_table.probe]; [reflexivity|].
    destruct (cdist (get_cell vzero (cells m) i) =? 0); [reflexivity|].
    destruct (Z.eqb (ckey (get_cell vzero (cells m) i)) k); [reflexivity|]. apply IH.
  Qed.

  (* ---------- lookups ---------- *)

  Lemma find_cases : forall m k, Inv m ->
    (exists p, probe (size m) (S (size m)) (cells m) (home (size m) k) k = Some (Some p) /\
       p < size m /\ d (cells m) p <> 0 /\ key (cells m) p = k /\ find m k = Some (val (cells m) p))
    \/ (probe (size m) (S (size m)) (cells m) (home (size m) k) k = Some None /\
        (forall q, q < size m -> d (cells m) q <> 0 -> key (cells m) q <> k) /\ find m k = None).
  Proof.
    intros m k HI.
    pose proof (Inv_pre m HI) as HP.
    destruct (probe_cases vzero (size m) (Pre_n2 m HP) (cells m) k (S (size m)) (pre_wf m HP)
                (Inv_count_lt m HI) ltac:(lia)) as [[p [Hpr Hp]] | [Hpr Hno]].
    - left. exists p. split; [exact Hpr|]. repeat split; try tauto.
      unfold find, IntMap.get. rewrite get_loop_probe, Hpr. reflexivity.
    - right. split; [exact Hpr|]. split; [exact Hno|].
      unfold find, IntMap.get. rewrite get_loop_probe, Hpr. reflexivity.
  Qed.

  Lemma find_some : forall m k v, Inv m -> (find m k = Some v <-> HasKV (cells m) k v).
  Proof.
    intros m k v HI.
    pose proof (Inv_pre m HI) as HP.
    pose proof (wf_len _ _ _ (pre_wf m HP)) as Hl.
    destruct (find_cases m k HI) as [[p (Hpr & Hp & Hdp & Hk & Hf)] | (Hpr & Hno & Hf)]; rewrite Hf.
    - split.
      + intros E. inversion E; subst v. exists p. rewrite Hl. auto.
      + intros [q (Hq & Hdq & Hkq & Hvq)]. rewrite Hl in Hq.
        assert (p = q) by (apply (wf_uniq _ _ _ (pre_wf m HP)); auto; congruence).
        subst q. congruence.
    - split; [discriminate|].
      intros [q (Hq & Hdq & Hkq & Hvq)]. rewrite Hl in Hq. exfalso. apply (Hno q); auto.
  Qed.

  Lemma find_none : forall m k, Inv m -> (forall v, ~ HasKV (cells m) k v) -> find m k = None.
  Proof.
    intros m k HI H. destruct (find m k) as [v|] eqn:E; [|reflexivity].
    exfalso. apply (H v). apply find_some; auto.
  Qed.

  (* from a description of the stored pairs to the lookup equations *)
  Lemma kv_put : forall m m' k v, Inv m -> Inv m' ->
    (forall k' v', HasKV (cells m') k' v' <->
       ((HasKV (cells m) k' v' /\ k' <> k) \/ (k' = k /\ v' = v))) ->
    find m' k = Some v /\ (forall k', k' <> k -> find m' k' = find m k').
  Proof.
    intros m m' k v HI HI' H. split.
    - apply find_some; auto. apply H. right. auto.
    - intros k' Hne. apply opt_ext. intros v'.
      rewrite (find_some m' k' v' HI'), (find_some m k' v' HI), H. tauto.
  Qed.

  Lemma kv_del : forall m m' k, Inv m -> Inv m' ->
    (forall k' v', HasKV (cells m') k' v' <-> (HasKV (cells m) k' v' /\ k' <> k)) ->
    find m' k = None /\ (forall k', k' <> k -> find m' k' = find m k').
  Proof.
    intros m m' k HI HI' H. split.
    - apply find_none; auto. intros v Hv. apply H in Hv. tauto.
    - intros k' Hne. apply opt_ext. intros v'.
      rewrite (find_some m' k' v' HI'), (find_some m k' v' HI), H. tauto.
  Qed.

  (* ---------- the empty table ---------- *)

  Lemma grow_to_ok : forall fuel sz need, (exists j, sz = 2 ^ j) -> 16 <= sz ->
    (exists j, grow_to fuel sz need = 2 ^ j) /\ 16 <= grow_to fuel sz need.
  Proof.
    induction fuel as [|fuel IH]; intros sz need Hp Hm; cbn [grow_to]; [auto|].
    destruct (sz <? need); [|auto].
    apply IH; [|lia]. destruct Hp as [j Hj]. exists (S j). rewrite Nat.pow_succ_r'. lia.
  Qed.

  Lemma Inv_init : forall sz, (exists j, sz = 2 ^ j) -> 16 <= sz -> Inv (init vzero sz 0).
  Proof.
    intros sz Hp Hm. apply Inv_iff. unfold init. split; [split|]; cbn [size mx mn total cells]; auto.
    - rewrite count_repeat. reflexivity.
    - apply WF_repeat. lia.
    - lia.
  Qed.

  Lemma no_kv_init : forall sz k v, ~ HasKV (cells (init vzero sz 0)) k v.
  Proof.
    intros sz k v [q (_ & Hd & _)]. unfold init in Hd. cbn [cells] in Hd.
    rewrite d_repeat in Hd. contradiction.
  Qed.

  Theorem inv_new : forall alloc, Inv (newIntMap alloc).
  Proof using All.
    intros alloc. unfold IntMap.newIntMap.
    destruct (grow_to_ok 64 intMapMin (alloc * 2)) as [Hp Hm].
    - exists 4. reflexivity.
    - unfold intMapMin. lia.
    - apply Inv_init; assumption.
  Qed.

  (* budgets are never exhausted: the Go `for {}` loops terminate *)
  Theorem get_total : forall m k, Inv m -> exists r, get m k = Some r.
  Proof using All.
    intros m k HI. unfold IntMap.get. rewrite get_loop_probe.
    destruct (find_cases m k HI) as [[p (Hpr & _)] | (Hpr & _)]; rewrite Hpr; eauto.
  Qed.

  Theorem new_empty : forall alloc k, find (newIntMap alloc) k = None /\ len (newIntMap alloc) = 0.
  Proof using All.
    intros alloc k. split; [|reflexivity].
    apply find_none; [apply inv_new|]. intros v. apply no_kv_init.
  Qed.

  (* ---------- resize ---------- *)

  Lemma resize_ok : forall m newsz,
    Pre m ->
    (exists j, (if newsz <? 16 then 16 else newsz) = 2 ^ j) ->
    total m <= (if newsz <? 16 then 16 else newsz) * 3 / 4 ->
    exists m', resize vzero m newsz = Some m' /\ Inv m' /\ total m' = total m /\
      forall k v, HasKV (cells m') k v <-> HasKV (cells m) k v.
  Proof.
    intros m newsz HP Hp2 Hle. unfold resize, intMapMin.
    set (sz := if newsz <? 16 then 16 else newsz) in *.
    assert (Hsz : 16 <= sz) by (unfold sz; destruct (Nat.ltb_spec newsz 16); lia).
    destruct (Nat.eqb_spec sz (size m)) as [E|E].
    - exists m. split; [reflexivity|]. split; [|split; [reflexivity | tauto]].
      apply Inv_iff. split; [exact HP|]. rewrite (pre_mx m HP), <- E. exact Hle.
    - destruct HP as [Hpow Hmin Hmx Hmn Htot Hwf].
      pose proof (wf_len _ _ _ Hwf) as Hl.
      assert (Hsz2 : 2 <= sz) by lia.
      destruct (reinsert_ok vzero sz Hsz2 (cells m) (repeat (empty_cell vzero) sz))
        as [cs' (Hrun & Hwf' & Hcnt & Hkv)].
      + apply (WF_repeat vzero sz Hsz2).
      + apply (nodup_keys vzero). rewrite Hl. apply (wf_uniq _ _ _ Hwf).
      + intros c _ _ q _ Hd. rewrite d_repeat in Hd. contradiction.
      + rewrite count_repeat. fold (count (cells m)). rewrite <- Htot. lia.
      + unfold init. cbn [cells total size mn mx]. rewrite Hrun.
        eexists. split; [reflexivity|]. cbn [cells total]. split; [|split; [reflexivity|]].
        * apply Inv_iff. rewrite count_repeat in Hcnt. cbn [Nat.add] in Hcnt. fold (count (cells m)) in Hcnt.
          split; [split|]; cbn [size mx mn total cells]; auto; congruence.
        * intros k v. rewrite Hkv. split.
          -- intros [[q (_ & Hd & _)] | [c (Hin & Ho & Hk & Hv)]].
             ++ rewrite d_repeat in Hd. contradiction.
             ++ destruct (proj1 (occ_cells_index vzero (cells m) c) (conj Hin Ho)) as [q (Hq & Hd & Hg)].
                exists q. unfold C12_table.key, C12_table.val. rewrite Hg. auto.
          -- intros [q (Hq & Hd & Hk & Hv)]. right. exists (get_cell vzero (cells m) q).
             pose proof (proj2 (occ_cells_index vzero (cells m) (get_cell vzero (cells m) q))) as H.
             destruct H as [Hin Ho]; [exists q; auto|]. auto.
  Qed.

  (* ---------- Set ---------- *)

  Theorem set_spec : forall m k v, Inv m ->
    exists m', set m k v = Some m' /\ Inv m' /\
      find m' k = Some v /\ (forall k', k' <> k -> find m' k' = find m k') /\
      len m' = (if find m k then len m else S (len m)).
  Proof using All.
    intros m k v HI.
    pose proof (Inv_pre m HI) as HP.
    pose proof (Pre_n2 m HP) as Hn2.
    assert (Hle : total m <= mx m) by (apply Inv_iff in HI; tauto).
    unfold IntMap.set. rewrite set_loop_probe.
    destruct (find_cases m k HI) as [[p (Hpr & Hp & Hdp & Hk & Hf)] | (Hpr & Hno & Hf)];
      rewrite Hpr, Hf.
    - (* the key is present: overwrite the value *)
      destruct (update_ok vzero (size m) Hn2 (cells m) p v (pre_wf m HP) Hp Hdp) as (Hwf' & Hcnt & Hkv).
      eexists. split; [reflexivity|].
      match goal with |- Inv ?M /\ _ => assert (HI' : Inv M) end.
      { apply Inv_iff. destruct HP. split; [split|]; cbn [size mx mn total cells]; auto. congruence. }
      split; [exact HI'|].
      destruct (kv_put m _ k v HI HI') as [H1 H2].
      { cbn [cells]. rewrite <- Hk. exact Hkv. }
      split; [exact H1|]. split; [exact H2|]. reflexivity.
    - (* the key is absent: insert, then maybe grow *)
      destruct (insert_ok vzero (size m) Hn2 (cells m) k v (pre_wf m HP) (Inv_count_lt m HI) Hno)
        as [cs1 (Hins & Hwf1 & Hcnt1 & Hkv1)].
      rewrite Hins. cbv zeta. cbn [mx total size].
      set (m1 := mkMap cs1 (S (total m)) (size m) (mn m) (mx m)).
      assert (HP1 : Pre m1).
      { destruct HP. split; unfold m1; cbn [size mx mn total cells]; auto. congruence. }
      assert (G : exists m', (if mx m <? S (total m) then resize vzero m1 (size m * 2) else Some m1) = Some m'
                /\ Inv m' /\ total m' = S (total m) /\
                forall k' v', HasKV (cells m') k' v' <-> HasKV cs1 k' v').
      { destruct (Nat.ltb_spec (mx m) (S (total m))) as [Hlt|Hge].
        - pose proof (pre_min m HP) as Hmin. pose proof (pre_mx m HP) as Hmx.
          assert (Eif : (if size m * 2 <? 16 then 16 else size m * 2) = size m * 2).
          { destruct (Nat.ltb_spec (size m * 2) 16); lia. }
          destruct (resize_ok m1 (size m * 2) HP1) as [m' (Hr & HI' & Ht' & Hkv')].
          + rewrite Eif. destruct (pre_pow2 m HP) as [j Hj]. exists (S j).
            rewrite Nat.pow_succ_r'. lia.
          + rewrite Eif. cbn [total m1]. lia.
          + exists m'. auto.
        - exists m1. split; [reflexivity|]. split; [|split; [reflexivity | tauto]].
          apply Inv_iff. split; [exact HP1|]. cbn [total mx m1]. lia. }
      destruct G as [m' (Hr & HI' & Ht' & Hkv')].
      exists m'. split; [exact Hr|]. split; [exact HI'|].
      destruct (kv_put m m' k v HI HI') as [H1 H2].
      { intros k' v'. rewrite Hkv', Hkv1. split.
        - intros [H|H]; [|right; exact H]. left. split; [exact H|].
          destruct H as [q (Hq & Hd & Hkq & _)].
          rewrite (wf_len _ _ _ (pre_wf m HP)) in Hq. intro E. apply (Hno q); auto. congruence.
        - tauto. }
      split; [exact H1|]. split; [exact H2|]. unfold len. exact Ht'.
  Qed.

  (* ---------- Assign ---------- *)

  Theorem assign_spec : forall m k v, Inv m ->
    exists m', assign m k v = Some m' /\ Inv m' /\
      find m' k = option_map (assignV v) (find m k) /\ (forall k', k' <> k -> find m' k' = find m k') /\
      len m' = len m.
  Proof using All.
    intros m k v HI.
    pose proof (Inv_pre m HI) as HP.
    pose proof (Pre_n2 m HP) as Hn2.
    assert (Hle : total m <= mx m) by (apply Inv_iff in HI; tauto).
    unfold IntMap.assign. rewrite assign_loop_probe.
    destruct (find_cases m k HI) as [[p (Hpr & Hp & Hdp & Hk & Hf)] | (Hpr & Hno & Hf)];
      rewrite Hpr, Hf.
    - destruct (update_ok vzero (size m) Hn2 (cells m) p (assignV v (val (cells m) p))
                  (pre_wf m HP) Hp Hdp) as (Hwf' & Hcnt & Hkv).
      eexists. split; [reflexivity|].
      match goal with |- Inv ?M /\ _ => assert (HI' : Inv M) end.
      { apply Inv_iff. destruct HP. split; [split|]; cbn [size mx mn total cells]; auto. congruence. }
      split; [exact HI'|].
      destruct (kv_put m _ k (assignV v (val (cells m) p)) HI HI') as [H1 H2].
      { cbn [cells]. rewrite <- Hk. exact Hkv. }
      split; [exact H1|]. split; [exact H2|]. reflexivity.
    - exists m. split; [reflexivity|]. split; [exact HI|]. cbn [option_map]. auto.
  Qed.

  (* ---------- Delete ---------- *)

  Section Shift.
    Variables n mnv mxv : nat.
    Hypothesis Hpow : exists j, n = 2 ^ j.
    Hypothesis Hmin : 16 <= n.
    Hypothesis Hmn : mnv = n / 4.
    Hypothesis Hmx : mxv = n * 3 / 4.

    Let Hn2 : 2 <= n. Proof. lia. Qed.

    Lemma shift_finish : forall tot cs prev i,
      SH vzero n prev cs -> i = next n prev -> d cs i <= 1 -> count cs = tot -> tot <= mxv ->
      exists m',
        (let p := get_cell vzero cs prev in
         let m' := mkMap (set_cell cs prev (mkCell 0 (ckey p) (cval p))) (tot - 1) n mnv mxv in
         if total m' <? mn m' then resize vzero m' (size m' / 2) else Some m') = Some m' /\
        Inv m' /\ total m' = tot - 1 /\
        forall k v, HasKV (cells m') k v <-> HasKVex prev cs k v.
    Proof.
      intros tot cs prev i Hsh Ei Hd1 Hcnt Htot.
      destruct (shift_final vzero n Hn2 cs prev i Hsh Ei Hd1) as (Hwf' & Hc' & Hkv').
      cbv zeta. fold (key cs prev). fold (val cs prev).
      set (cs' := set_cell cs prev (mkCell 0 (key cs prev) (val cs prev))) in *.
      set (m1 := mkMap cs' (tot - 1) n mnv mxv).
      assert (HP1 : Pre m1).
      { split; cbn [size mx mn total cells m1]; auto. lia. }
      cbn [total mn size m1].
      destruct (Nat.ltb_spec (tot - 1) mnv) as [Hlt|Hge].
      - destruct (resize_ok m1 (n / 2) HP1) as [m' (Hr & HI' & Ht' & Hkv)].
        + destruct (Nat.ltb_spec (n / 2) 16) as [H|H]; [exists 4; reflexivity|].
          apply pow2_half; [exact Hpow | lia].
        + cbn [total m1]. destruct (Nat.ltb_spec (n / 2) 16) as [H|H]; lia.
        + exists m'. split; [exact Hr|]. split; [exact HI'|]. split; [exact Ht'|].
          intros k v. rewrite Hkv. apply Hkv'.
      - exists m1. split; [reflexivity|]. split; [|split; [reflexivity | exact Hkv']].
        apply Inv_iff. split; [exact HP1|]. cbn [total mx m1]. lia.
    Qed.

    Lemma shift_loop_ok : forall tot e, e < n -> tot <= mxv ->
      forall t fuel cs prev i,
      SH vzero n prev cs -> i = next n prev -> d cs e = 0 -> cd n i e = t -> t < fuel ->
      count cs = tot ->
      exists m', shift_loop vzero fuel (mkMap cs tot n mnv mxv) prev i = Some m' /\
        Inv m' /\ total m' = tot - 1 /\
        forall k v, HasKV (cells m') k v <-> HasKVex prev cs k v.
    Proof.
      intros tot e He Htot.
      induction t as [|t IH]; intros fuel cs prev i Hsh Ei Hde Ht Hf Hcnt;
        (destruct fuel as [|f]; [lia|]); cbn [shift_loop cells total size mn mx];
        assert (Hi : i < n) by (rewrite Ei; apply next_lt; lia).
      - assert (Eie : i = e) by (apply (cd_0_eq n); auto).
        assert (Hd1 : d cs i <= 1) by (rewrite Eie, Hde; lia).
        destruct (Nat.leb_spec (cdist (get_cell vzero cs i)) 1) as [H|H]; [|unfold C12_table.d in Hd1; lia].
        apply (shift_finish tot cs prev i); auto.
      - destruct (Nat.leb_spec (cdist (get_cell vzero cs i)) 1) as [H|H].
        + apply (shift_finish tot cs prev i); auto.
        + fold (d cs i) in H |- *. fold (key cs i). fold (val cs i).
          destruct (shift_step vzero n Hn2 cs prev i Hsh Ei ltac:(lia)) as (Hsh' & Hc' & Hd' & Hkv').
          set (cs' := set_cell cs prev (mkCell (d cs i - 1) (key cs i) (val cs i))) in *.
          assert (Hne : i <> e) by (intro E; rewrite E, Hde in H; lia).
          pose proof (cd_next_l n i e Hi He Hne) as Hs.
          assert (Hpe : e <> prev) by (intro E; apply (sh_occ _ _ _ _ Hsh); rewrite <- E; exact Hde).
          destruct (IH f cs' i (next n i) Hsh' eq_refl) as [m' (Hr & HI' & Ht' & Hkv)].
          * rewrite Hd' by exact Hpe. exact Hde.
          * lia.
          * lia.
          * lia.
          * exists m'. split; [exact Hr|]. split; [exact HI'|]. split; [exact Ht'|].
            intros k v. rewrite Hkv. apply Hkv'.
    Qed.
  End Shift.

  Theorem delete_spec : forall m k, Inv m ->
    exists m', delete m k = Some m' /\ Inv m' /\
      find m' k = None /\ (forall k', k' <> k -> find m' k' = find m k') /\
      len m' = (if find m k then len m - 1 else len m).
  Proof using All.
    intros m k HI.
    pose proof (Inv_pre m HI) as HP.
    pose proof (Pre_n2 m HP) as Hn2.
    assert (Hle : total m <= mx m) by (apply Inv_iff in HI; tauto).
    unfold IntMap.delete. rewrite delete_loop_probe.
    destruct (find_cases m k HI) as [[p (Hpr & Hp & Hdp & Hk & Hf)] | (Hpr & Hno & Hf)];
      rewrite Hpr, Hf.
    - destruct (exists_empty vzero (cells m)) as [e [He Hde]].
      { rewrite (wf_len _ _ _ (pre_wf m HP)). apply Inv_count_lt. exact HI. }
      rewrite (wf_len _ _ _ (pre_wf m HP)) in He.
      pose proof (SH_init vzero (size m) (cells m) p (pre_wf m HP) Hp Hdp) as Hsh.
      pose proof (cd_lt (size m) (next (size m) p) e ltac:(lia)) as Hcd.
      destruct (shift_loop_ok (size m) (mn m) (mx m) (pre_pow2 m HP) (pre_min m HP) (pre_mn m HP)
                  (pre_mx m HP) (total m) e He Hle _ (S (size m)) (cells m) p (next (size m) p)
                  Hsh eq_refl Hde eq_refl ltac:(lia) (eq_sym (pre_total m HP)))
        as [m' (Hr & HI' & Ht' & Hkv)].
      exists m'. split.
      { destruct m; exact Hr. }
      split; [exact HI'|].
      destruct (kv_del m m' k HI HI') as [H1 H2].
      { intros k' v'. rewrite Hkv, <- Hk.
        apply (HasKVex_init vzero (size m) Hn2); auto. apply (pre_wf m HP). }
      split; [exact H1|]. split; [exact H2|]. unfold len. exact Ht'.
    - exists m. split; [reflexivity|]. split; [exact HI|]. split; [exact Hf|]. auto.
  Qed.

  (* len counts the keys that are found *)
  Theorem len_spec : forall m, Inv m ->
    exists keys, NoDup keys /\ length keys = len m /\ forall k, In k keys <-> find m k <> None.
  Proof using All.
    intros m HI.
    pose proof (Inv_pre m HI) as HP.
    pose proof (wf_len _ _ _ (pre_wf m HP)) as Hl.
    exists (map ckey (filter (occ) (cells m))). split; [|split].
    - apply (nodup_keys vzero). rewrite Hl. apply (wf_uniq _ _ _ (pre_wf m HP)).
    - rewrite map_length. unfold len. rewrite (pre_total m HP). reflexivity.
    - intros k. split.
      + intros Hin. apply in_map_iff in Hin. destruct Hin as [c [Hk Hc]].
        apply filter_In in Hc.
        destruct (proj1 (occ_cells_index vzero (cells m) c) Hc) as [q (Hq & Hd & Hg)].
        assert (Hf : find m k = Some (cval c)).
        { apply find_some; [exact HI|]. exists q.
          unfold C12_table.key, C12_table.val. rewrite Hg. auto. }
        congruence.
      + intros Hne. destruct (find m k) as [v|] eqn:E; [|congruence].
        apply find_some in E; [|exact HI]. destruct E as [q (Hq & Hd & Hkq & Hvq)].
        apply in_map_iff. exists (get_cell vzero (cells m) q). split; [exact Hkq|].
        apply filter_In.
        apply (proj2 (occ_cells_index vzero (cells m) (get_cell vzero (cells m) q))).
        exists q. auto.
  Qed.
End Spec.
