(* C15: the loader visits exactly the packages reachable from the top package and hands them
   to the compiler in a dependency-first order; an import cycle is an error. *)
From Coq Require Import List String Bool PeanoNat Lia.
From GV Require Import Model.Loader.
Import ListNotations.
Open Scope string_scope.

(* ------------------------------------------------------------------ *)
(* generic lemmas about the list helpers of the model                  *)
(* ------------------------------------------------------------------ *)

Lemma mem_In : forall k l, mem k l = true <-> In k l.
Proof.
  intros k l; induction l as [|x r IH]; simpl.
  - split; [discriminate | tauto].
  - rewrite orb_true_iff, IH, String.eqb_eq. intuition congruence.
Qed.

Lemma mem_notIn : forall k l, mem k l = false <-> ~ In k l.
Proof.
  intros k l. rewrite <- mem_In. destruct (mem k l); intuition congruence.
Qed.

Lemma In_remove_str : forall k x l, In x (remove_str k l) <-> In x l /\ x <> k.
Proof.
  intros k x l; induction l as [|y r IH]; simpl.
  - tauto.
  - destruct (String.eqb_spec k y) as [E|E].
    + rewrite IH. subst. intuition congruence.
    + simpl. rewrite IH. intuition congruence.
Qed.

Lemma NoDup_remove_str : forall k l, NoDup l -> NoDup (remove_str k l).
Proof.
  intros k l H; induction H as [|y r Hy Hr IH]; simpl.
  - constructor.
  - destruct (String.eqb k y); auto.
    constructor; auto. rewrite In_remove_str. tauto.
Qed.

Lemma length_remove_str_le : forall k l, List.length (remove_str k l) <= List.length l.
Proof.
  intros k l; induction l as [|y r IH]; simpl; auto.
  destruct (String.eqb k y); simpl; lia.
Qed.

Lemma length_remove_str_lt : forall k l, In k l -> List.length (remove_str k l) < List.length l.
Proof.
  intros k l; induction l as [|y r IH]; simpl; intros H.
  - tauto.
  - destruct (String.eqb_spec k y) as [E|E].
    + pose proof (length_remove_str_le k r). lia.
    + simpl. destruct H as [H|H]; [congruence|]. apply IH in H. lia.
Qed.

Lemma aget_step : forall pkg k (dp : list (string * list string)),
  aget k (map (fun e => (fst e, remove_str pkg (snd e))) (adel pkg dp)) =
  if String.eqb k pkg then None else option_map (remove_str pkg) (aget k dp).
Proof.
  intros pkg k dp; induction dp as [|[k' v] r IH]; simpl.
  - destruct (String.eqb k pkg); reflexivity.
  - destruct (String.eqb_spec pkg k') as [E1|E1].
    + rewrite IH. destruct (String.eqb_spec k pkg) as [E2|E2]; [reflexivity|].
      destruct (String.eqb_spec k k'); [congruence|reflexivity].
    + simpl. destruct (String.eqb_spec k k') as [E3|E3].
      * destruct (String.eqb_spec k pkg); [congruence|reflexivity].
      * apply IH.
Qed.

Lemma first_ready_some : forall keys dp k, first_ready keys dp = Some k ->
  In k keys /\ (aget k dp = None \/ aget k dp = Some []).
Proof.
  intros keys dp k; induction keys as [|x r IH]; simpl; intros H.
  - discriminate.
  - destruct (aget x dp) as [[|y ys]|] eqn:Ha.
    + inversion H; subst. split; auto.
    + apply IH in H. tauto.
    + inversion H; subst. split; auto.
Qed.

Lemma first_ready_none : forall keys dp, first_ready keys dp = None ->
  forall k, In k keys -> exists x r, aget k dp = Some (x :: r).
Proof.
  intros keys dp; induction keys as [|x r IH]; simpl; intros H k Hk.
  - tauto.
  - destruct (aget x dp) as [[|y ys]|] eqn:Ha; try discriminate.
    destruct Hk as [Hk|Hk].
    + subst. eauto.
    + auto.
Qed.

Lemma In_insert_sorted : forall k x l, In x (insert_sorted k l) <-> x = k \/ In x l.
Proof.
  intros k x l; induction l as [|y r IH]; simpl.
  - intuition congruence.
  - destruct (String.leb k y); simpl.
    + intuition congruence.
    + rewrite IH. intuition congruence.
Qed.

Lemma NoDup_insert_sorted : forall k l, ~ In k l -> NoDup l -> NoDup (insert_sorted k l).
Proof.
  intros k l; induction l as [|y r IH]; simpl; intros Hk Hl.
  - constructor; auto.
  - destruct (String.leb k y).
    + constructor; simpl; auto.
    + inversion Hl; subst. constructor.
      * rewrite In_insert_sorted. intuition congruence.
      * apply IH; auto.
Qed.

Lemma In_sort_keys : forall x l, In x (sort_keys l) <-> In x l.
Proof.
  intros x l; induction l as [|y r IH]; simpl.
  - tauto.
  - rewrite In_insert_sorted, IH. intuition congruence.
Qed.

Lemma In_sort_keys_1 : forall x l, In x (sort_keys l) -> In x l.
Proof. intros x l; apply In_sort_keys. Qed.
Lemma In_sort_keys_2 : forall x l, In x l -> In x (sort_keys l).
Proof. intros x l; apply In_sort_keys. Qed.

Lemma NoDup_sort_keys : forall l, NoDup l -> NoDup (sort_keys l).
Proof.
  intros l H; induction H as [|y r Hy Hr IH]; simpl.
  - constructor.
  - apply NoDup_insert_sorted; auto. rewrite In_sort_keys; auto.
Qed.

Lemma order_loop_S : forall n keys dp, keys <> [] ->
  order_loop (S n) keys dp =
  match first_ready keys dp with
  | None => None
  | Some pkg =>
      match order_loop n (remove_str pkg keys)
              (map (fun e => (fst e, remove_str pkg (snd e))) (adel pkg dp)) with
      | Some r => Some (pkg :: r)
      | None => None
      end
  end.
Proof.
  intros n keys dp H. destruct keys; [congruence|reflexivity].
Qed.

Lemma last_cons_default : forall (r : list string) b a, last (b :: r) a = last r b.
Proof.
  induction r as [|c r IH]; intros b a.
  - reflexivity.
  - change (last (b :: c :: r) a) with (last (c :: r) a).
    rewrite IH. change (last (c :: r) b) with (last (c :: r) b).
    rewrite (IH c b). reflexivity.
Qed.

(* position of x in l *)
Fixpoint index (x : string) (l : list string) : nat :=
  match l with [] => 0 | y :: r => if String.eqb x y then 0 else S (index x r) end.

Lemma index_app_notin : forall p l1 l2, ~ In p l1 -> index p (l1 ++ p :: l2)%list = List.length l1.
Proof.
  intros p l1 l2; induction l1 as [|y r IH]; simpl; intros H.
  - rewrite String.eqb_refl. reflexivity.
  - destruct (String.eqb_spec p y) as [E|E].
    + subst. tauto.
    + rewrite IH; tauto.
Qed.

Lemma index_app_in : forall q l1 l2, In q l1 -> index q (l1 ++ l2)%list < List.length l1.
Proof.
  intros q l1 l2; induction l1 as [|y r IH]; simpl; intros H.
  - tauto.
  - destruct (String.eqb_spec q y) as [E|E].
    + lia.
    + destruct H as [H|H]; [congruence|]. apply IH in H. lia.
Qed.

Lemma not_NoDup_split : forall l : list string, ~ NoDup l ->
  exists a l1 l2 l3, l = (l1 ++ a :: l2 ++ a :: l3)%list.
Proof.
  induction l as [|x r IH]; intros H.
  - exfalso. apply H. constructor.
  - destruct (in_dec string_dec x r) as [Hx|Hx].
    + apply in_split in Hx. destruct Hx as (l2 & l3 & E). subst r.
      exists x, [], l2, l3. reflexivity.
    + destruct IH as (a & l1 & l2 & l3 & E).
      * intros Hr. apply H. constructor; auto.
      * subst r. exists a, (x :: l1), l2, l3. reflexivity.
Qed.

Section Spec.
  Variable imports : string -> option (list string).

  (* p imports q directly *)
  Definition edge (p q : string) : Prop := exists l, imports p = Some l /\ In q l.
  (* reachability from the top package through import edges *)
  Inductive reach (top : string) : string -> Prop :=
  | reach_top : reach top top
  | reach_step : forall p q, reach top p -> edge p q -> reach top q.

  (* a valid initialisation order for the packages reachable from top *)
  Definition valid_order (top : string) (l : list string) : Prop :=
    NoDup l /\ (forall p, In p l <-> reach top p) /\
    (* every package comes after everything it imports *)
    (forall l1 p l2, l = (l1 ++ p :: l2)%list -> forall q, edge p q -> In q l1).

  (* there is a cycle among the reachable packages *)
  Definition cyclic (top : string) : Prop :=
    exists p, reach top p /\ exists path, path <> [] /\
      (* path = p1 .. pn with p -> p1 -> ... -> pn = p *)
      last path p = p /\
      (fix chain (a : string) (l : list string) : Prop :=
         match l with [] => True | b :: r => edge a b /\ chain b r end) p path.

  (* the reachable part of the graph is finite: a list that contains every reachable package *)
  Variable universe : list string.
  (* (a per-top premise: `reach top top` holds for every top, so no finite list covers ALL tops) *)
  Definition universe_ok (top : string) : Prop := forall p, reach top p -> In p universe.

  (* with a budget of at least 1 + the number of import edges in the universe + |universe|, discovery
     never runs out (the Go worklist loop terminates) and finds exactly the reachable packages *)
  Definition budget : nat :=
    S (List.length universe + fold_right (fun p n => match imports p with Some l => List.length l + n | None => n end) 0 universe).

  (* ---------------------------------------------------------------- *)
  (* chains                                                            *)
  (* ---------------------------------------------------------------- *)

  Fixpoint chain (a : string) (l : list string) : Prop :=
    match l with [] => True | b :: r => edge a b /\ chain b r end.

  Definition chainl (l : list string) : Prop :=
    match l with [] => True | a :: r => chain a r end.

  Lemma chain_chainl : forall x l, chain x l -> chainl l.
  Proof.
    intros x l H. destruct l as [|y r]; simpl in *; tauto.
  Qed.

  Lemma chainl_app_r : forall l1 l2, chainl (l1 ++ l2)%list -> chainl l2.
  Proof.
    induction l1 as [|x r IH]; intros l2 H.
    - exact H.
    - apply IH. simpl in H. eapply chain_chainl; eauto.
  Qed.

  Lemma chain_app_l : forall l1 l2 a, chain a (l1 ++ l2)%list -> chain a l1.
  Proof.
    induction l1 as [|x r IH]; intros l2 a H; simpl in *.
    - exact I.
    - destruct H as [H1 H2]. split; eauto.
  Qed.

  Lemma cyclic_intro : forall top p path, reach top p -> path <> [] -> last path p = p ->
    chain p path -> cyclic top.
  Proof.
    intros top p path Hr Hne Hl Hc. exists p. split; auto. exists path. repeat split; auto.
  Qed.

  Lemma cyclic_elim : forall top, cyclic top ->
    exists p path, reach top p /\ path <> [] /\ last path p = p /\ chain p path.
  Proof.
    intros top (p & Hr & path & Hne & Hl & Hc). exists p, path. repeat split; auto.
  Qed.

  (* ---------------------------------------------------------------- *)
  (* discovery                                                         *)
  (* ---------------------------------------------------------------- *)

  Definition vis (d : disc) : list string := map fst (packages d).

  Definition DInv (top : string) (todo : list string) (d : disc) : Prop :=
    (forall x, In x todo -> reach top x) /\
    (forall p, In p (vis d) -> reach top p) /\
    NoDup (vis d) /\
    (forall p, aget p (deps d) = if mem p (vis d) then imports p else None) /\
    (forall p q, In p (vis d) -> edge p q -> In q (vis d) \/ In q todo) /\
    (In top (vis d) \/ In top todo).

  Lemma discover_inv : forall top f todo d d',
    DInv top todo d -> discover imports f todo d = Some d' -> DInv top [] d'.
  Proof.
    intros top; induction f as [|f IH]; intros todo d d' HI HD; simpl in HD; [discriminate|].
    destruct todo as [|pkg rest].
    - inversion HD; subst; exact HI.
    - destruct HI as (Ht & Hv & Hnd & Hdeps & Hcl & Htop).
      fold (vis d) in HD.
      destruct (mem pkg (vis d)) eqn:Hm.
      + (* already visited *)
        apply mem_In in Hm.
        apply (IH rest d d'); auto.
        repeat split; auto.
        * intros x Hx. apply Ht. right; auto.
        * intros p q Hp He. destruct (Hcl p q Hp He) as [H|[H|H]]; auto.
          subst. auto.
        * destruct Htop as [H|[H|H]]; auto. subst. auto.
      + apply mem_notIn in Hm.
        assert (Hrp : reach top pkg) by (apply Ht; left; auto).
        destruct (imports pkg) as [imps|] eqn:Hi.
        * (* script package *)
          apply (IH _ _ _) in HD; auto.
          unfold DInv, vis; simpl. fold (vis d).
          repeat split.
          -- intros x Hx. apply in_app_or in Hx. destruct Hx as [Hx|Hx].
             ++ apply reach_step with pkg; auto. exists imps. split; auto.
                apply in_rev; auto.
             ++ apply Ht. right; auto.
          -- intros p [Hp|Hp]; subst; auto.
          -- constructor; auto.
          -- intros p. destruct (String.eqb_spec p pkg) as [E|E]; simpl.
             ++ subst; auto.
             ++ apply Hdeps.
          -- intros p q [Hp|Hp] He.
             ++ subst p. destruct He as (l & Hl & Hq). rewrite Hi in Hl.
                inversion Hl; subst l. right. apply in_or_app. left.
                apply -> in_rev. auto.
             ++ destruct (Hcl p q Hp He) as [H|[H|H]]; auto.
                right. apply in_or_app. auto.
          -- destruct Htop as [H|[H|H]]; auto.
             right. apply in_or_app. auto.
        * (* native package *)
          apply (IH _ _ _) in HD; auto.
          unfold DInv, vis; simpl. fold (vis d).
          repeat split.
          -- intros x Hx. apply Ht. right; auto.
          -- intros p [Hp|Hp]; subst; auto.
          -- constructor; auto.
          -- intros p. destruct (String.eqb_spec p pkg) as [E|E]; simpl.
             ++ subst. rewrite Hdeps. apply mem_notIn in Hm. rewrite Hm. auto.
             ++ apply Hdeps.
          -- intros p q [Hp|Hp] He.
             ++ subst p. destruct He as (l & Hl & Hq). congruence.
             ++ destruct (Hcl p q Hp He) as [H|[H|H]]; auto.
          -- destruct Htop as [H|[H|H]]; auto.
  Qed.

  (* fuel *)
  Definition w (p : string) : nat :=
    match imports p with Some l => List.length l | None => 0 end.
  Definition sumw (l : list string) : nat :=
    fold_right (fun p n => match imports p with Some l => List.length l + n | None => n end) 0 l.
  Definition unvis (v u : list string) : list string := filter (fun x => negb (mem x v)) u.

  Lemma sumw_cons : forall x l, sumw (x :: l) = w x + sumw l.
  Proof.
    intros x l. unfold sumw, w; simpl. destruct (imports x); reflexivity.
  Qed.

  Lemma unvis_cons : forall v x r,
    unvis v (x :: r) = if negb (mem x v) then x :: unvis v r else unvis v r.
  Proof. reflexivity. Qed.

  Lemma sumw_unvis_le : forall v u, sumw (unvis v u) <= sumw u.
  Proof.
    intros v u; induction u as [|x r IH]; [apply le_n|].
    rewrite unvis_cons.
    destruct (negb (mem x v)); rewrite ?sumw_cons; lia.
  Qed.

  Lemma sumw_unvis_cons_le : forall pkg v u, sumw (unvis (pkg :: v) u) <= sumw (unvis v u).
  Proof.
    intros pkg v u; induction u as [|x r IH]; [apply le_n|].
    rewrite !unvis_cons. cbn [mem].
    destruct (String.eqb x pkg); cbn [orb negb].
    - destruct (negb (mem x v)); rewrite ?sumw_cons; lia.
    - destruct (negb (mem x v)); rewrite ?sumw_cons; lia.
  Qed.

  Lemma sumw_unvis_cons_lt : forall pkg imps v u,
    imports pkg = Some imps -> ~ In pkg v -> In pkg u ->
    sumw (unvis (pkg :: v) u) + List.length imps <= sumw (unvis v u).
  Proof.
    intros pkg imps v u Hi Hv; induction u as [|x r IH]; intros Hu; [destruct Hu|].
    rewrite !unvis_cons. cbn [mem].
    destruct (String.eqb_spec x pkg) as [E|E]; cbn [orb negb].
    - subst x. apply mem_notIn in Hv. rewrite Hv. cbn [negb]. rewrite sumw_cons.
      unfold w. rewrite Hi. pose proof (sumw_unvis_cons_le pkg v r). lia.
    - destruct Hu as [Hu|Hu]; [congruence|]. specialize (IH Hu).
      destruct (negb (mem x v)); rewrite ?sumw_cons; lia.
  Qed.

  Lemma discover_fuel : forall top, universe_ok top -> forall f todo d,
    (forall x, In x todo -> reach top x) ->
    List.length todo + sumw (unvis (vis d) universe) < f ->
    discover imports f todo d <> None.
  Proof.
    intros top HU; induction f as [|f IH]; intros todo d Ht Hf; [lia|].
    simpl. destruct todo as [|pkg rest]; [discriminate|].
    simpl in Hf. fold (vis d).
    destruct (mem pkg (vis d)) eqn:Hm.
    - apply IH.
      + intros x Hx. apply Ht. right; auto.
      + lia.
    - apply mem_notIn in Hm.
      assert (Hrp : reach top pkg) by (apply Ht; left; auto).
      destruct (imports pkg) as [imps|] eqn:Hi.
      + apply IH.
        * intros x Hx. apply in_app_or in Hx. destruct Hx as [Hx|Hx].
          -- apply reach_step with pkg; auto. exists imps. split; auto. apply in_rev; auto.
          -- apply Ht. right; auto.
        * unfold vis; simpl. fold (vis d). rewrite app_length, rev_length.
          pose proof (sumw_unvis_cons_lt pkg imps (vis d) universe Hi Hm
                        (HU pkg Hrp)). lia.
      + apply IH.
        * intros x Hx. apply Ht. right; auto.
        * unfold vis; simpl. fold (vis d).
          pose proof (sumw_unvis_cons_le pkg (vis d) universe). lia.
  Qed.

  Lemma discover_total : forall top b, universe_ok top -> budget <= b ->
    exists d, discover imports b [top] (mkDisc [] []) = Some d /\
              NoDup (vis d) /\
              (forall p, In p (vis d) <-> reach top p) /\
              (forall p, In p (vis d) -> aget p (deps d) = imports p).
  Proof.
    intros top b HU Hb.
    assert (HI : DInv top [top] (mkDisc [] [])).
    { unfold DInv, vis; simpl. repeat split.
      - intros x [Hx|[]]. subst. constructor.
      - tauto.
      - constructor.
      - tauto.
      - auto. }
    destruct (discover imports b [top] (mkDisc [] [])) as [d|] eqn:Hd.
    - exists d. split; auto.
      apply discover_inv with (top := top) in Hd; auto.
      destruct Hd as (Ht & Hv & Hnd & Hdeps & Hcl & Htop).
      repeat split; auto.
      + intros Hr. induction Hr as [|p q Hr IHr He].
        * destruct Htop as [H|[]]; auto.
        * destruct (Hcl p q IHr He) as [H|[]]; auto.
      + intros p Hp. rewrite Hdeps. apply mem_In in Hp. rewrite Hp. reflexivity.
    - exfalso. revert Hd. apply discover_fuel with (top := top); [exact HU| |].
      + intros x [Hx|[]]. subst. constructor.
      + simpl. pose proof (sumw_unvis_le [] universe) as Hle.
        assert (Hu : In top universe) by (apply HU; constructor).
        assert (Hlen : 1 <= List.length universe)
          by (destruct universe; [destruct Hu | simpl; lia]).
        unfold budget in Hb. fold (sumw universe) in Hb.
        unfold vis; simpl. lia.
  Qed.

  (* ---------------------------------------------------------------- *)
  (* ordering                                                          *)
  (* ---------------------------------------------------------------- *)

  Definition OInv (top : string) (keys : list string) (dp : list (string * list string))
             (E : list string) : Prop :=
    NoDup keys /\
    (forall k, In k keys ->
       match imports k with
       | None => aget k dp = None
       | Some imps => exists r, aget k dp = Some r /\ forall q, In q r <-> In q imps /\ ~ In q E
       end) /\
    (forall k q, In k keys -> edge k q -> In q keys \/ In q E) /\
    (forall k, In k keys -> reach top k).

  Lemma OInv_step : forall top keys dp E pkg,
    OInv top keys dp E -> first_ready keys dp = Some pkg ->
    OInv top (remove_str pkg keys)
         (map (fun e => (fst e, remove_str pkg (snd e))) (adel pkg dp)) (pkg :: E) /\
    In pkg keys /\
    (forall q, edge pkg q -> In q E).
  Proof.
    intros top keys dp E pkg (Hnd & Hget & Hcl & Hr) Hfr.
    apply first_ready_some in Hfr. destruct Hfr as [Hin Hag].
    split; [|split; auto].
    - repeat split.
      + apply NoDup_remove_str; auto.
      + intros k Hk. apply In_remove_str in Hk. destruct Hk as [Hk Hne].
        rewrite aget_step. destruct (String.eqb_spec k pkg) as [E1|E1]; [congruence|].
        specialize (Hget k Hk). destruct (imports k) as [imps|].
        * destruct Hget as (r & Hr1 & Hr2). exists (remove_str pkg r). rewrite Hr1. simpl.
          split; auto. intros q. rewrite In_remove_str, Hr2. simpl. intuition congruence.
        * rewrite Hget. reflexivity.
      + intros k q Hk He. apply In_remove_str in Hk. destruct Hk as [Hk Hne].
        destruct (string_dec q pkg) as [E1|E1].
        * subst. right. left. auto.
        * destruct (Hcl k q Hk He) as [H|H].
          -- left. apply In_remove_str. auto.
          -- right. right. auto.
      + intros k Hk. apply In_remove_str in Hk. apply Hr. tauto.
    - intros q (l & Hl & Hq). specialize (Hget pkg Hin). rewrite Hl in Hget.
      destruct Hget as (r & Hr1 & Hr2).
      destruct Hag as [Hag|Hag]; [congruence|].
      rewrite Hag in Hr1. inversion Hr1; subst r.
      destruct (in_dec string_dec q E) as [HE|HE]; auto.
      exfalso. apply (Hr2 q). auto.
  Qed.

  Lemma order_loop_spec : forall top n keys dp E,
    List.length keys <= n -> OInv top keys dp E ->
    match order_loop n keys dp with
    | Some l => NoDup l /\ (forall x, In x l <-> In x keys) /\
                (forall l1 p l2, l = (l1 ++ p :: l2)%list -> forall q, edge p q -> In q E \/ In q l1)
    | None => exists keys' dp' E', OInv top keys' dp' E' /\ keys' <> [] /\ first_ready keys' dp' = None
    end.
  Proof.
    intros top; induction n as [|n IH]; intros keys dp E Hlen HI.
    - destruct keys as [|k0 ks]; [|simpl in Hlen; lia]. simpl.
      split; [constructor|]. split; [tauto|].
      intros l1 p l2 H. destruct l1; discriminate.
    - assert (Hk : keys = [] \/ keys <> []) by (destruct keys; [left|right]; congruence).
      destruct Hk as [Hk|Hk].
      + subst keys. simpl.
        split; [constructor|]. split; [tauto|].
        intros l1 p l2 H. destruct l1; discriminate.
      + rewrite order_loop_S; auto.
        destruct (first_ready keys dp) as [pkg|] eqn:Hfr.
        * destruct (OInv_step top keys dp E pkg HI Hfr) as (HI' & Hin & Hedges).
          set (dp' := map (fun e => (fst e, remove_str pkg (snd e))) (adel pkg dp)) in *.
          assert (Hlen' : List.length (remove_str pkg keys) <= n).
          { pose proof (length_remove_str_lt pkg keys Hin). lia. }
          specialize (IH (remove_str pkg keys) dp' (pkg :: E) Hlen' HI').
          destruct (order_loop n (remove_str pkg keys) dp') as [r|].
          -- destruct IH as (Hnd & Hiff & Hsplit).
             split; [|split].
             ++ constructor; auto. rewrite Hiff, In_remove_str. tauto.
             ++ intros x. simpl. rewrite Hiff, In_remove_str.
                destruct (string_dec x pkg) as [E1|E1].
                ** subst. tauto.
                ** intuition congruence.
             ++ intros l1 p l2 Heq q He. destruct l1 as [|a l1]; simpl in Heq.
                ** inversion Heq; subst. left. auto.
                ** inversion Heq; subst a.
                   destruct (Hsplit l1 p l2 H1 q He) as [[H|H]|H].
                   --- subst. right. left. auto.
                   --- left. auto.
                   --- right. right. auto.
          -- exact IH.
        * exists keys, dp, E. auto.
  Qed.

  (* a stuck state of the ordering loop exhibits a cycle *)
  Lemma stuck_cyclic : forall top keys dp E,
    OInv top keys dp E -> keys <> [] -> first_ready keys dp = None -> cyclic top.
  Proof.
    intros top keys dp E (Hnd & Hget & Hcl & Hr) Hne Hfr.
    assert (Hsucc : forall k, In k keys -> exists k', edge k k' /\ In k' keys).
    { intros k Hk. destruct (first_ready_none keys dp Hfr k Hk) as (x & r & Ha).
      specialize (Hget k Hk). destruct (imports k) as [imps|] eqn:Hi; [|congruence].
      destruct Hget as (r' & Hr1 & Hr2). rewrite Ha in Hr1. inversion Hr1; subst r'.
      destruct (Hr2 x) as [H _]. destruct H as [Hx1 Hx2]; [left; auto|].
      assert (He : edge k x) by (exists imps; auto).
      exists x. split; auto. destruct (Hcl k x Hk He); tauto. }
    assert (Hpath : forall n k, In k keys ->
              exists path, List.length path = n /\ chain k path /\ incl path keys).
    { induction n as [|n IHn]; intros k Hk.
      - exists []. simpl. repeat split; auto. intros x [].
      - destruct (Hsucc k Hk) as (k' & He & Hk').
        destruct (IHn k' Hk') as (path & Hl & Hc & Hinc).
        exists (k' :: path). simpl. repeat split; auto.
        intros x [Hx|Hx]; subst; auto. }
    destruct keys as [|k0 ks]; [congruence|].
    destruct (Hpath (List.length (k0 :: ks)) k0 (or_introl eq_refl)) as (path & Hl & Hc & Hinc).
    assert (Hdup : ~ NoDup (k0 :: path)).
    { intros HN. apply NoDup_incl_length with (l' := k0 :: ks) in HN.
      - simpl in HN, Hl. lia.
      - intros x [Hx|Hx]; [subst; left; auto | apply Hinc; auto]. }
    apply not_NoDup_split in Hdup. destruct Hdup as (a & l1 & l2 & l3 & Heq).
    assert (Hcl2 : chainl (k0 :: path)) by exact Hc.
    rewrite Heq in Hcl2. apply chainl_app_r in Hcl2. simpl in Hcl2.
    assert (Hc3 : chain a (l2 ++ [a])%list).
    { apply chain_app_l with (l2 := l3). rewrite <- app_assoc. exact Hcl2. }
    assert (Ha : In a (k0 :: ks)).
    { assert (Hin : In a (k0 :: path)) by (rewrite Heq; apply in_or_app; right; left; auto).
      destruct Hin as [Hin|Hin]; [subst; left; auto | apply Hinc; auto]. }
    apply cyclic_intro with (p := a) (path := (l2 ++ [a])%list); auto.
    - intros H. apply app_eq_nil in H. destruct H; discriminate.
    - apply last_last.
  Qed.

  (* a valid order excludes cycles *)
  Lemma valid_order_edge : forall top l p q, valid_order top l -> In p l -> edge p q ->
    index q l < index p l.
  Proof.
    intros top l p q (Hnd & Hiff & Hdep) Hp He.
    apply in_split in Hp. destruct Hp as (l1 & l2 & Heq).
    pose proof (Hdep l1 p l2 Heq q He) as Hq.
    subst l. apply NoDup_remove_2 in Hnd.
    rewrite index_app_notin.
    - apply index_app_in; auto.
    - intros H. apply Hnd. apply in_or_app; auto.
  Qed.

  Lemma chain_index : forall top l, valid_order top l ->
    forall path a, In a l -> chain a path ->
    index (last path a) l + List.length path <= index a l.
  Proof.
    intros top l HV; induction path as [|b r IH]; intros a Ha Hc.
    - simpl. lia.
    - rewrite last_cons_default. destruct Hc as [He Hc].
      pose proof (valid_order_edge top l a b HV Ha He) as Hlt.
      assert (Hb : In b l).
      { destruct HV as (_ & Hiff & _). apply Hiff. apply reach_step with a; auto.
        apply Hiff; auto. }
      specialize (IH b Hb Hc). simpl. lia.
  Qed.

  Lemma valid_order_not_cyclic : forall top l, valid_order top l -> cyclic top -> False.
  Proof.
    intros top l HV HC. apply cyclic_elim in HC.
    destruct HC as (p & path & Hr & Hne & Hl & Hc).
    assert (Hp : In p l) by (destruct HV as (_ & Hiff & _); apply Hiff; auto).
    pose proof (chain_index top l HV path p Hp Hc) as H.
    rewrite Hl in H. destruct path; [congruence|]. simpl in H. lia.
  Qed.

  (* ---------------------------------------------------------------- *)
  (* the load function                                                 *)
  (* ---------------------------------------------------------------- *)

  Lemma load_cases : forall top b, universe_ok top -> budget <= b ->
    (exists l, load imports b top = LoadOk l /\ valid_order top l) \/
    (load imports b top = LoadCycle /\ cyclic top).
  Proof.
    intros top b HU Hb.
    destruct (discover_total top b HU Hb) as (d & Hd & Hnd & Hiff & Hdeps).
    unfold load. rewrite Hd. fold (vis d).
    set (keys := sort_keys (vis d)).
    assert (HI : OInv top keys (deps d) []).
    { unfold keys. repeat split.
      - apply NoDup_sort_keys; auto.
      - intros k Hk. apply In_sort_keys_1 in Hk. rewrite (Hdeps k Hk).
        destruct (imports k) as [imps|]; auto.
        exists imps. split; auto. intros q. simpl. tauto.
      - intros k q Hk He. left. apply In_sort_keys_1 in Hk. apply In_sort_keys_2.
        apply Hiff. apply reach_step with k; auto. apply Hiff; auto.
      - intros k Hk. apply In_sort_keys_1 in Hk. apply Hiff; auto. }
    pose proof (order_loop_spec top (List.length keys) keys (deps d) [] (le_n _) HI) as HS.
    destruct (order_loop (List.length keys) keys (deps d)) as [l|].
    - left. exists l. split; auto.
      destruct HS as (Hnd' & Hiff' & Hsplit).
      repeat split; auto.
      + intros Hp. apply Hiff. apply Hiff' in Hp. unfold keys in Hp.
        apply In_sort_keys_1 in Hp. auto.
      + intros Hp. apply Hiff'. unfold keys. apply In_sort_keys_2. apply Hiff; auto.
      + intros l1 p l2 Heq q He. destruct (Hsplit l1 p l2 Heq q He) as [[]|H]; auto.
    - right. split; auto.
      destruct HS as (keys' & dp' & E' & HI' & Hne & Hfr).
      eapply stuck_cyclic; eauto.
  Qed.

  (* TO PROVE *)

  Theorem c15_no_fuel : forall top b, universe_ok top -> budget <= b -> load imports b top <> LoadFuel.
  Proof.
    intros top b HU Hb. destruct (load_cases top b HU Hb) as [(l & H & _)|[H _]]; rewrite H; discriminate.
  Qed.

  Theorem c15_order : forall top b l, universe_ok top -> budget <= b -> load imports b top = LoadOk l -> valid_order top l.
  Proof.
    intros top b l HU Hb Hl. destruct (load_cases top b HU Hb) as [(l' & H & HV)|[H _]].
    - rewrite H in Hl. inversion Hl; subst; auto.
    - rewrite H in Hl. discriminate.
  Qed.

  Theorem c15_cycle : forall top b, universe_ok top -> budget <= b -> cyclic top -> load imports b top = LoadCycle.
  Proof.
    intros top b HU Hb HC. destruct (load_cases top b HU Hb) as [(l' & H & HV)|[H _]]; auto.
    exfalso. eapply valid_order_not_cyclic; eauto.
  Qed.

  Theorem c15_acyclic : forall top b, universe_ok top -> budget <= b -> ~ cyclic top -> exists l, load imports b top = LoadOk l.
  Proof.
    intros top b HU Hb HC. destruct (load_cases top b HU Hb) as [(l' & H & HV)|[H HC']].
    - eauto.
    - tauto.
  Qed.

  (* the code that runs: every piece of code (top-level code of each file, init) of an imported package runs
     before any piece of code of its importer, and each package's code runs exactly once *)
  Lemma in_run_events : forall nf l x, In x (run_events nf l) -> In x l.
  Proof.
    intros nf l x H. unfold run_events in H. apply in_flat_map in H. destruct H as (p & Hp & Hx).
    apply repeat_spec in Hx. subst; auto.
  Qed.

  Lemma run_events_app : forall nf a b, run_events nf (a ++ b) = (run_events nf a ++ run_events nf b)%list.
  Proof. intros; unfold run_events; apply flat_map_app. Qed.

  Lemma app_split_notin : forall (A B pre : list string) p post,
    (A ++ B = pre ++ p :: post)%list -> ~ In p A -> exists pre', pre = (A ++ pre')%list /\ B = (pre' ++ p :: post)%list.
  Proof.
    induction A as [|a A IH]; intros B pre p post H Hn.
    - exists pre; auto.
    - destruct pre as [|x pre].
      + simpl in H. inversion H; subst. exfalso; apply Hn; left; auto.
      + simpl in H. inversion H; subst. destruct (IH B pre p post H2) as (pre' & E1 & E2).
        * intros Hin; apply Hn; right; auto.
        * exists pre'; subst; auto.
  Qed.

  Theorem c15_events : forall top l nf, valid_order top l -> forall p q, In p l -> edge p q ->
    forall pre post, run_events nf l = (pre ++ p :: post)%list -> ~ In q post.
  Proof.
    intros top l nf (Hnd & Hiff & Hdep) p q Hp He pre post Hev Hq.
    apply in_split in Hp. destruct Hp as (l1 & l2 & Heq).
    pose proof (Hdep l1 p l2 Heq q He) as Hq1.
    subst l. pose proof (NoDup_remove_2 _ _ _ Hnd) as Hpn.
    assert (Hqn : ~ In q (p :: l2)).
    { intros Hin.
      (* q in l1 and in p :: l2 contradicts NoDup (l1 ++ p :: l2) *)
      clear - Hnd Hq1 Hin. induction l1 as [|a l1 IH]; [inversion Hq1|].
      simpl in Hnd. inversion Hnd as [|? ? Hna Hnd']; subst. destruct Hq1 as [->|Hq1].
      - apply Hna. apply in_or_app; right; auto.
      - apply IH; auto. }
    rewrite run_events_app in Hev.
    destruct (app_split_notin _ _ _ _ _ Hev) as (pre' & _ & HB).
    { intros Hin. apply in_run_events in Hin. apply Hpn. apply in_or_app; left; auto. }
    apply Hqn. apply (in_run_events nf). rewrite HB. apply in_or_app; right; right; auto.
  Qed.

  Lemma count_occ_repeat_other : forall (x y : string) n, x <> y -> count_occ string_dec (repeat y n) x = 0.
  Proof. intros x y n Hne; induction n as [|n IH]; simpl; auto. destruct (string_dec y x); [congruence|auto]. Qed.
  Lemma count_occ_repeat_same : forall (x : string) n, count_occ string_dec (repeat x n) x = n.
  Proof. intros x n; induction n as [|n IH]; simpl; auto. destruct (string_dec x x); [auto|congruence]. Qed.

  Theorem c15_events_once : forall top l nf, valid_order top l -> forall p, In p l ->
    count_occ string_dec (run_events nf l) p = S (nf p).
  Proof.
    intros top l nf (Hnd & _ & _) p Hp. clear top.
    induction l as [|a l IH]; [inversion Hp|].
    change (run_events nf (a :: l)) with (repeat a (S (nf a)) ++ run_events nf l)%list.
    rewrite count_occ_app. inversion Hnd as [|? ? Hna Hnd']; subst.
    destruct Hp as [->|Hp].
    - rewrite count_occ_repeat_same.
      assert (H0 : count_occ string_dec (run_events nf l) p = 0).
      { apply count_occ_not_In. intros Hin. apply Hna. eapply in_run_events; eauto. }
      rewrite H0. lia.
    - rewrite count_occ_repeat_other; [apply IH; auto|]. intros ->; auto.
  Qed.
End Spec.

Print Assumptions c15_no_fuel.
Print Assumptions c15_order.
Print Assumptions c15_cycle.
Print Assumptions c15_acyclic.
