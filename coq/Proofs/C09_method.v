(* C09, bound methods.  Model/VM.v has no struct objects (GETATTR / FASTCALLATTR go through
   the [ext_getattr] oracle), so receiver binding is stated over Model/Call.v, the stack-
   discipline model of value.go newMethod / vm.go mkFunc, call, callReady that property C19
   ties to the implementation: a method value [newMethod obj f] created when the attribute was
   read (structT.GetIndex) carries [obj]; calling it later, on any stack, runs the method's
   body with [obj] as parameter 0 followed by the arguments, each assigned its declared type. *)
From Coq Require Import ZArith List Bool Lia.
From GV Require Import GoSpec.GoPrim Gen.ValueOps_gen Model.Call Proofs.C19_adapter.
Import ListNotations.
Open Scope Z_scope.

Section Method.
  Variables (nargs rets : Z) (atys rtys : list Z) (code : list cell -> cres (list cell)).
  Hypothesis Hn : 1 <= nargs.
  Hypothesis Hcode : forall a outs, code a = Good outs -> slen outs = rets.

  Let f := script_fn nargs rets atys rtys code.

  Lemma script_args : Args f = nargs /\ Variadic f = false.
  Proof.
    unfold f, script_fn, newFunc. cbn [Args Variadic].
    destruct (nargs <? 0) eqn:E; [lia|]. auto.
  Qed.

  (* the receiver captured at creation time arrives as parameter 0, the arguments after it,
     all assigned the declared parameter types; the results, assigned the declared result
     types, land on the untouched [lo] *)
  Lemma method_script obj lo args xRets :
    slen args = nargs - 1 -> 0 <= xRets ->
    call (lo ++ args) (newMethod obj f) (slen args) xRets =
      (outs <~ code (assign_zip atys (obj :: args)) ;; deliver lo (assign_zip rtys outs) xRets).
  Proof.
    intros Ha Hx. destruct script_args as [HA HV].
    rewrite method_call by (rewrite ?HA; auto).
    rewrite call_fixed by exact HV.
    replace (slen args + 1) with (Args f) by lia.
    replace (lo ++ [obj] ++ args) with (lo ++ (obj :: args)) by reflexivity.
    rewrite (callReady_frame f _ lo (obj :: args) xRets
               (script_frame nargs rets atys rtys code ltac:(lia) Hcode)).
    - destruct (code (assign_zip atys (obj :: args))); reflexivity.
    - unfold slen in *. cbn [length]. lia.
    - exact Hx.
  Qed.

  (* a wrong number of arguments for a method: "incorrect args", the body is not run *)
  Lemma method_script_wrong obj lo args xRets :
    slen args <> nargs - 1 ->
    call (lo ++ args) (newMethod obj f) (slen args) xRets = Fail EIncorrectArgs.
  Proof.
    intros Ha. destruct script_args as [HA HV].
    rewrite method_call by (rewrite ?HA; auto).
    rewrite call_fixed by exact HV.
    apply callReady_args. lia.
  Qed.
End Method.
