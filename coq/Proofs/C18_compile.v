(* C18, compile part: compiling statement lists in one go or chunk by chunk (Model/Incr.v), the
   compile-time reads, and the composition with the run theorem into whole-vs-incremental Eval. *)
From Coq Require Import ZArith List String Ascii Bool Lia.
From GV Require Import GoSpec.GoPrim Gen.ValueOps_gen Gen.Tables_gen Model.Lookup Model.VM Model.Incr
                       Proofs.C18_step Proofs.C18_seq Proofs.C18_run.
Import ListNotations.
Open Scope Z_scope.

(* ---- slot renumbering: algebra ---- *)
Lemma shift_instr_shift : forall a b i, shift_instr a (shift_instr b i) = shift_instr (a + b) i.
Proof.
  intros a b i. unfold shift_instr. cbn [icode iA iB iC ipos]. f_equal.
  - destruct (slotA (icode i)); lia.
  - destruct (slotB (icode i)); [lia|]. destruct (icode i =? c_Iter); lia.
Qed.
Lemma shift_instr_0 : forall i, shift_instr 0 i = i.
Proof.
  intros i. unfold shift_instr.
  replace (iA i + (if slotA (icode i) then 0 else 0)) with (iA i) by (destruct (slotA (icode i)); lia).
  replace (iB i + (if slotB (icode i) then 0 else if icode i =? c_Iter then 0 * 65537 else 0)) with (iB i)
    by (destruct (slotB (icode i)); [lia|destruct (icode i =? c_Iter); lia]).
  destruct i; reflexivity.
Qed.
Lemma shift_code_shift : forall a b c k, shift_code a k (shift_code b k c) = shift_code (a + b) k c.
Proof.
  induction c as [|i r IH]; intros k; [reflexivity|].
  destruct k; cbn [shift_code].
  - destruct (icode i =? c_Func) eqn:E; cbn [shift_code].
    + rewrite E, IH. reflexivity.
    + rewrite icode_shift, E, shift_instr_shift, IH. reflexivity.
  - rewrite IH. reflexivity.
Qed.
Lemma shift_code_0 : forall c k, shift_code 0 k c = c.
Proof.
  induction c as [|i r IH]; intros k; [reflexivity|].
  destruct k; cbn [shift_code]; [destruct (icode i =? c_Func); [|rewrite shift_instr_0]|]; rewrite IH; reflexivity.
Qed.
Lemma shift_code_app : forall b c1 c2 k,
  shift_code b k (c1 ++ c2) = (shift_code b k c1 ++ shift_code b (final_skip k c1) c2)%list.
Proof.
  induction c1 as [|i r IH]; intros c2 k; [reflexivity|].
  destruct k; cbn [shift_code final_skip app].
  - destruct (icode i =? c_Func); cbn [app]; rewrite IH; reflexivity.
  - rewrite IH. reflexivity.
Qed.
Lemma final_skip_app : forall c1 c2 k, final_skip k (c1 ++ c2) = final_skip (final_skip k c1) c2.
Proof.
  induction c1 as [|i r IH]; intros c2 k; [reflexivity|].
  destruct k; cbn [final_skip app]; apply IH.
Qed.
Lemma complete_0 : forall c, completeb c = true -> final_skip O c = O.
Proof. intros c H. unfold completeb in H. apply Nat.eqb_eq in H. exact H. Qed.

(* ---- statements emit complete code ---- *)
Lemma compile_stmt_complete : forall t, wf_stmt t -> forall g c0 n0 g',
  compile_stmt t g = (Some (c0, n0), g') -> completeb c0 = true.
Proof.
  induction 1; intros g c0 n0 g' Hc; cbn [compile_stmt] in Hc.
  - inversion Hc; subst. assumption.
  - destruct (index (c_lk g) k) as [lk' ix]. eapply H0; eauto.
  - eapply H0; eauto.
  - destruct (znth (c_vals g) i); [eapply H0; eauto|discriminate].
  - destruct (znth (c_vals g) i); [eapply H0; eauto|discriminate].
  - destruct (znth (c_vals g) i); [eapply IHwf_stmt; eauto|discriminate].
  - eapply IHwf_stmt; eauto.
  - eapply H0; eauto.
  - discriminate.
Qed.

Lemma compile_top_complete : forall p, Forall wf_stmt p -> forall b g c n g',
  compile_top p b g = (Some (c, n), g') -> final_skip O c = O.
Proof.
  induction p as [|t r IH]; intros Hwf b g c n g' Hc; cbn [compile_top] in Hc.
  - inversion Hc; subst. reflexivity.
  - inversion Hwf; subst.
    destruct (compile_stmt t g) as [[[c0 n0]|] g1] eqn:Es; [|discriminate].
    destruct (compile_top r (b + n0) g1) as [[[cr tot]|] g2] eqn:Er; [|discriminate].
    inversion Hc; subst. rewrite final_skip_app, final_skip_shift.
    rewrite (complete_0 _ (compile_stmt_complete _ H1 _ _ _ _ Es)). eapply IH; eauto.
Qed.

(* ---- c18_compile: one compile of p1 ++ p2 = compile p1, then p2 from the state it left ---- *)
Theorem compile_top_app : forall p1 p2 b g,
  compile_top (p1 ++ p2) b g =
  match compile_top p1 b g with
  | (None, g1) => (None, g1)
  | (Some (c1, b1), g1) =>
      match compile_top p2 b1 g1 with
      | (None, g2) => (None, g2)
      | (Some (c2, b2), g2) => (Some ((c1 ++ c2)%list, b2), g2)
      end
  end.
Proof.
  induction p1 as [|t r IH]; intros p2 b g; cbn [compile_top app].
  - destruct (compile_top p2 b g) as [[[c2 b2]|] g2]; reflexivity.
  - destruct (compile_stmt t g) as [[[c0 n0]|] g1]; [|reflexivity].
    rewrite IH. destruct (compile_top r (b + n0) g1) as [[[cr tot]|] g2]; [|reflexivity].
    destruct (compile_top p2 tot g2) as [[[c2 b2]|] g3]; [|reflexivity].
    rewrite app_assoc. reflexivity.
Qed.

(* the slot base only renumbers: same Globals effects, same code up to [shift_code] *)
Lemma compile_top_base : forall p, Forall wf_stmt p -> forall b g,
  compile_top p b g =
  match compile_top p 0 g with
  | (None, g') => (None, g')
  | (Some (c, n), g') => (Some (shift_code b O c, b + n), g')
  end.
Proof.
  induction p as [|t r IH]; intros Hwf b g; cbn [compile_top].
  - rewrite Z.add_0_r. reflexivity.
  - inversion Hwf; subst.
    destruct (compile_stmt t g) as [[[c0 n0]|] g1] eqn:Es; [|reflexivity].
    rewrite (IH H2 (b + n0) g1), (IH H2 (0 + n0) g1).
    destruct (compile_top r 0 g1) as [[[cr tot]|] g2] eqn:Er; [|reflexivity].
    rewrite shift_code_app, final_skip_shift, (complete_0 _ (compile_stmt_complete _ H1 _ _ _ _ Es)).
    rewrite !shift_code_shift, Z.add_0_r, Z.add_0_l.
    replace (b + n0 + tot) with (b + (n0 + tot)) by lia. reflexivity.
Qed.

(* every cutting: the single compile produces the chunks' codes assembled, and leaves Globals /
   Imports exactly as the chunk-by-chunk compiles do (same keys at the same indices) *)
Theorem compile_chunks_concat : forall cs, Forall (Forall wf_stmt) cs -> forall b g,
  compile_top (List.concat cs) b g =
  match compile_chunks cs g with
  | (None, g') => (None, g')
  | (Some chs, g') => (Some (assemble b chs, b + total_slots chs), g')
  end.
Proof.
  induction cs as [|p rest IH]; intros Hwf b g; cbn [List.concat compile_chunks compile_top].
  - rewrite Z.add_0_r. reflexivity.
  - inversion Hwf; subst. rewrite compile_top_app, (compile_top_base p H1 b g).
    destruct (compile_top p 0 g) as [[[c n]|] g1] eqn:Ep; [|reflexivity].
    rewrite (IH H2 (b + n) g1).
    destruct (compile_chunks rest g1) as [[chs|] g2]; [|reflexivity].
    cbn [assemble total_slots]. replace (b + n + total_slots chs) with (b + (n + total_slots chs)) by lia. reflexivity.
Qed.

(* ---- c18_compiletime_reads: the compiler sees the global VALUES only through [view_type] /
   [view_int] at the indices it reads; two states that agree there compile alike ---- *)
Lemma znth_app_nil : forall (v : list value) i, znth (v ++ [nilV]) i =
  match znth v i with Some a => Some a | None => if i =? zlen v then Some nilV else None end.
Proof.
  intros v i. unfold znth. destruct (i <? 0) eqn:E.
  { apply Z.ltb_lt in E. replace (i =? zlen v) with false; [reflexivity|]. symmetry. apply Z.eqb_neq. unfold zlen. lia. }
  apply Z.ltb_ge in E.
  destruct (nth_error v (Z.to_nat i)) eqn:En.
  - rewrite nth_error_app1; [assumption|]. apply nth_error_Some. congruence.
  - apply nth_error_None in En. rewrite nth_error_app2 by assumption.
    destruct (i =? zlen v) eqn:Ei.
    + apply Z.eqb_eq in Ei. unfold zlen in Ei. replace (Z.to_nat i - List.length v)%nat with 0%nat by lia. reflexivity.
    + apply Z.eqb_neq in Ei. unfold zlen in Ei.
      destruct (Z.to_nat i - List.length v)%nat eqn:Ed; [lia|]. destruct n; reflexivity.
Qed.
Lemma nth_error_nset : forall {A} (l : list A) n m v,
  nth_error (nset l n v) m = if Nat.eqb n m then (match nth_error l m with Some _ => Some v | None => None end) else nth_error l m.
Proof.
  induction l as [|x l IH]; intros n m v.
  - destruct n, m; cbn [nset nth_error Nat.eqb]; try reflexivity; destruct (Nat.eqb n m); reflexivity.
  - destruct n, m; cbn [nset nth_error Nat.eqb]; try reflexivity. apply IH.
Qed.
Lemma znth_zset : forall {A} (l : list A) i j v, 0 <= i ->
  znth (zset l i v) j = if i =? j then (match znth l j with Some _ => Some v | None => None end) else znth l j.
Proof.
  intros A l i j v Hi. unfold zset. replace (i <? 0) with false by (symmetry; apply Z.ltb_ge; lia).
  unfold znth. destruct (j <? 0) eqn:Ej.
  - apply Z.ltb_lt in Ej. replace (i =? j) with false by (symmetry; apply Z.eqb_neq; lia). reflexivity.
  - apply Z.ltb_ge in Ej. rewrite nth_error_nset.
    destruct (i =? j) eqn:E.
    + apply Z.eqb_eq in E. subst. rewrite Nat.eqb_refl. reflexivity.
    + apply Z.eqb_neq in E. replace (Nat.eqb (Z.to_nat i) (Z.to_nat j)) with false; [reflexivity|].
      symmetry. apply Nat.eqb_neq. lia.
Qed.

Lemma vagree_app : forall S v v', vagree S v v' -> vagree S (v ++ [nilV]) (v' ++ [nilV]).
Proof.
  intros S v v' [Hl H]. split; [rewrite !app_length, Hl; reflexivity|].
  intros i Hi. specialize (H i Hi). unfold stable in *. rewrite !znth_app_nil.
  unfold zlen. rewrite <- Hl.
  destruct (znth v i), (znth v' i); try contradiction; try exact H.
  destruct (i =? Z.of_nat (List.length v)); auto.
Qed.
Lemma vagree_set : forall S v v' i x, vagree S v v' -> vagree S (zset v i x) (zset v' i x).
Proof.
  intros S v v' i x [Hl H]. split; [rewrite !zset_length; exact Hl|].
  intros j Hj. specialize (H j Hj). unfold stable in *.
  destruct (Z.ltb_spec i 0) as [Hn|Hn].
  - unfold zset. replace (i <? 0) with true by (symmetry; apply Z.ltb_lt; lia). exact H.
  - rewrite !znth_zset by assumption. destruct (i =? j); [|exact H].
    destruct (znth v j), (znth v' j); try contradiction; auto.
Qed.

Lemma csim_intro : forall S lk lk' im im' v v',
  lk = lk' -> im = im' -> vagree S v v' -> csim S (mkC lk v im) (mkC lk' v' im').
Proof. intros. split; [|split]; assumption. Qed.

Lemma compile_stmt_agree : forall S t g g', csim S g g' -> Forall S (stmt_reads t g) ->
  fst (compile_stmt t g') = fst (compile_stmt t g) /\
  csim S (snd (compile_stmt t g)) (snd (compile_stmt t g')) /\
  stmt_reads t g' = stmt_reads t g.
Proof.
  intros S. induction t as [code n|k cont IH|k cont IH|i cont IH|i cont IH|i v cont IH|a p cont IH|a cont IH|msg];
    intros g g' Hs Hr; cbn [compile_stmt stmt_reads] in *.
  - auto.
  - destruct Hs as [Hlk [Him Hv]]. rewrite <- Hlk, <- Him.
    destruct (index (c_lk g) k) as [lk' ix] eqn:Ei.
    apply IH; [|exact Hr]. apply csim_intro; auto.
    destruct (exists_ (c_lk g) k); [exact Hv|apply vagree_app; exact Hv].
  - destruct Hs as [Hlk [Him Hv]]. rewrite <- Hlk. apply IH; [split; [|split]; assumption|exact Hr].
  - inversion Hr as [|x l Hi Hr']; subst. destruct Hs as [Hlk [Him [Hl Hv]]].
    pose proof (Hv i Hi) as Hst. unfold stable in Hst.
    destruct (znth (c_vals g) i) as [a|], (znth (c_vals g') i) as [b|]; try contradiction.
    + destruct Hst as [Ht _]. rewrite <- Ht.
      destruct (IH (view_type a) g g') as [H1 [H2 H3]]; [split; [|split; [|split]]; assumption|exact Hr'|].
      split; [exact H1|split; [exact H2|rewrite H3; reflexivity]].
    + split; [reflexivity|split; [split; [|split; [|split]]; assumption|reflexivity]].
  - inversion Hr as [|x l Hi Hr']; subst. destruct Hs as [Hlk [Him [Hl Hv]]].
    pose proof (Hv i Hi) as Hst. unfold stable in Hst.
    destruct (znth (c_vals g) i) as [a|], (znth (c_vals g') i) as [b|]; try contradiction.
    + destruct Hst as [_ Ht]. rewrite <- Ht.
      destruct (IH (view_int a) g g') as [H1 [H2 H3]]; [split; [|split; [|split]]; assumption|exact Hr'|].
      split; [exact H1|split; [exact H2|rewrite H3; reflexivity]].
    + split; [reflexivity|split; [split; [|split; [|split]]; assumption|reflexivity]].
  - destruct Hs as [Hlk [Him Hv]].
    destruct (znth (c_vals g) i) as [a|] eqn:Ea.
    + destruct (znth_len_some _ (c_vals g') _ _ (proj1 Hv) Ea) as [b Hb]. rewrite Hb.
      rewrite <- Hlk, <- Him. apply IH; [|exact Hr].
      apply csim_intro; auto. apply vagree_set; exact Hv.
    + rewrite (znth_len_none _ (c_vals g') _ (proj1 Hv) Ea).
      split; [reflexivity|split; [split; [|split]; assumption|reflexivity]].
  - destruct Hs as [Hlk [Him Hv]]. rewrite <- Hlk, <- Him. apply IH; [|exact Hr].
    apply csim_intro; auto.
  - destruct Hs as [Hlk [Him Hv]]. rewrite <- Him. apply IH; [split; [|split]; assumption|exact Hr].
  - auto.
Qed.

Lemma compile_top_agree : forall S p b g g', csim S g g' -> Forall S (top_reads p g) ->
  fst (compile_top p b g') = fst (compile_top p b g) /\
  csim S (snd (compile_top p b g)) (snd (compile_top p b g')) /\
  top_reads p g' = top_reads p g.
Proof.
  intros S. induction p as [|t r IH]; intros b g g' Hs Hr; cbn [compile_top top_reads] in *.
  - auto.
  - apply Forall_app in Hr. destruct Hr as [Hr1 Hr2].
    destruct (compile_stmt_agree S t g g' Hs Hr1) as [H1 [H2 H3]].
    destruct (compile_stmt t g) as [o g1] eqn:E1, (compile_stmt t g') as [o' g1'] eqn:E1'.
    cbn [fst snd] in *. subst o'. rewrite H3.
    destruct o as [[c0 n0]|]; [|rewrite (proj2 (proj2 (IH 0 g1 g1' H2 Hr2))); auto].
    destruct (IH (b + n0) g1 g1' H2 Hr2) as [H4 [H5 H6]].
    destruct (compile_top r (b + n0) g1) as [o2 g2], (compile_top r (b + n0) g1') as [o2' g2'].
    cbn [fst snd] in *. subst o2'. rewrite H6.
    destruct o2 as [[cr tot]|]; auto.
Qed.

Lemma compile_chunks_agree : forall S cs g g', csim S g g' -> Forall S (chunks_reads cs g) ->
  fst (compile_chunks cs g') = fst (compile_chunks cs g) /\
  csim S (snd (compile_chunks cs g)) (snd (compile_chunks cs g')).
Proof.
  intros S. induction cs as [|p r IH]; intros g g' Hs Hr; cbn [compile_chunks chunks_reads] in *.
  - auto.
  - apply Forall_app in Hr. destruct Hr as [Hr1 Hr2].
    destruct (compile_top_agree S p 0 g g' Hs Hr1) as [H1 [H2 _]].
    destruct (compile_top p 0 g) as [o g1], (compile_top p 0 g') as [o' g1'].
    cbn [fst snd] in *. subst o'.
    destruct o as [ch|]; [|auto].
    destruct (IH g1 g1' H2 Hr2) as [H4 H5].
    destruct (compile_chunks r g1) as [o2 g2], (compile_chunks r g1') as [o2' g2'].
    cbn [fst snd] in *. subst o2'.
    destruct o2; auto.
Qed.

(* ---- c18_eval: successive Evals of the chunks against one Eval of the whole program ---- *)
Section EvalThm.
  Variable grow : Z -> Z -> Z.
  Variable ext_get : st -> value -> value -> option (res value).
  Variable ext_set : st -> value -> value -> value -> option (res st).
  Variable ext_len : st -> value -> option Z.
  Variable ext_getattr : st -> value -> Z -> option (res (value * st)).
  Variable ext_setattr : st -> value -> Z -> value -> option (res st).
  Notation run := (VM.run grow ext_get ext_set ext_len ext_getattr ext_setattr).
  Notation run_seq := (Incr.run_seq grow ext_get ext_set ext_len ext_getattr ext_setattr).
  Notation eval1 := (Incr.eval1 grow ext_get ext_set ext_len ext_getattr ext_setattr true).
  Notation eval_seq := (Incr.eval_seq grow ext_get ext_set ext_len ext_getattr ext_setattr true).
  Notation incr_hyps := (Incr.incr_hyps grow ext_get ext_set ext_len ext_getattr ext_setattr).
  Notation run_chunks := (C18_run.run_chunks grow ext_get ext_set ext_len ext_getattr ext_setattr).

  Lemma cstate_eta : forall g, mkC (c_lk g) (c_vals g) (c_imps g) = g.
  Proof. destruct g; reflexivity. Qed.

  Lemma compile_chunks_cons : forall p rest g chs g', compile_chunks (p :: rest) g = (Some chs, g') ->
    exists ch chs', chs = ch :: chs'.
  Proof.
    intros p rest g chs g' H. cbn [compile_chunks] in H.
    destruct (compile_top p 0 g) as [[ch|] g1]; [|discriminate].
    destruct (compile_chunks rest g1) as [[chs'|] g2]; [|discriminate].
    inversion H; subst. eauto.
  Qed.

  Lemma compile_chunks_S : forall p r g, compile_chunks (p :: r) g =
    match compile_top p 0 g with
    | (None, g1) => (None, g1)
    | (Some ch, g1) => match compile_chunks r g1 with (None, g2) => (None, g2) | (Some chs, g2) => (Some (ch :: chs), g2) end
    end.
  Proof. reflexivity. Qed.
  Lemma run_seq_S2 : forall fuel c n ch r s, run_seq fuel ((c, n) :: ch :: r) s =
    match run fuel c n s with
    | RDone _ [] s' => run_seq fuel (ch :: r) s'
    | RDone _ (_ :: _) _ => RStuck "operands left by a chunk that is not the last"
    | other => other
    end.
  Proof. reflexivity. Qed.
  Lemma eval_seq_S : forall fuel m p r, eval_seq fuel m (p :: r) =
    let (e, m1) := eval1 fuel m p in let (es, m2) := eval_seq fuel m1 r in (e :: es, m2).
  Proof. reflexivity. Qed.

  (* the incremental session = compile every chunk first (in order), then run the chunks in order *)
  Lemma incr_staged : forall cs fuel m, cs <> [] -> incr_hyps fuel m cs ->
    exists chs gN slN opsN sN,
      compile_chunks cs (cstate_of m) = (Some chs, gN) /\ Forall (fun ch => chunk_okb ch = true) chs /\
      run_seq fuel chs (set_globals (m_vm m) (c_vals gN)) = RDone slN opsN sN /\
      snd (eval_seq fuel m cs) = mkM (c_lk gN) (c_imps gN) sN /\
      last (fst (eval_seq fuel m cs)) ECompileErr = EOk (rev opsN) /\
      Forall is_ok (fst (eval_seq fuel m cs)).
  Proof.
    induction cs as [|p rest IH]; intros fuel m Hne Hh; [congruence|].
    cbn [incr_hyps] in Hh.
    destruct (compile_top p 0 (cstate_of m)) as [[[c n]|] g1] eqn:Ep; [|contradiction].
    destruct Hh as [Hok Hh].
    destruct (run fuel c n (set_globals (m_vm m) (c_vals g1))) as [sl ops s1| | | |] eqn:Er; try contradiction.
    cbv zeta in Hh. destruct Hh as [Hleft [Hlen [Hreads [Hwr Hrest]]]].
    assert (E1 : eval1 fuel m p = (EOk (rev ops), mkM (c_lk g1) (c_imps g1) s1)).
    { unfold Incr.eval1. rewrite Ep, Er. reflexivity. }
    destruct rest as [|p2 rest'].
    - exists [(c, n)], g1, sl, ops, s1.
      cbn [compile_chunks Incr.eval_seq Incr.run_seq]. rewrite Ep, E1. cbn [fst snd last].
      repeat split; auto. repeat constructor. eexists; reflexivity.
    - assert (Hne' : p2 :: rest' <> []) by discriminate.
      destruct (IH fuel _ Hne' Hrest) as [chs' [gB [slN [opsN [sN [Hc' [Hok' [Hrun' [Hm' [Hlast' Hall']]]]]]]]]].
      unfold cstate_of in Hc'. cbn [m_lk m_vm m_imps] in Hc', Hrun'.
      set (gpost := mkC (c_lk g1) (globals s1) (c_imps g1)) in *.
      (* the later chunks compile alike before and after this chunk's run *)
      assert (Hsim : csim (stable (globals s1) (c_vals g1)) gpost g1).
      { split; [reflexivity|split; [reflexivity|]]. split; [exact Hlen|auto]. }
      destruct (compile_chunks_agree _ _ _ _ Hsim Hreads) as [Hfst Hsnd].
      rewrite Hc' in Hfst, Hsnd. cbn [fst snd] in Hfst, Hsnd.
      destruct (compile_chunks (p2 :: rest') g1) as [o gA] eqn:EA. cbn [fst snd] in Hfst, Hsnd. subst o.
      destruct Hsnd as [Hlk [Him _]].
      destruct (Hwr chs' gA gB eq_refl Hc') as [sl' Hrun1].
      rewrite (Hleft Hne') in *.
      destruct (compile_chunks_cons _ _ _ _ _ Hc') as [ch [chs'' Echs]].
      exists ((c, n) :: chs'), gA, slN, opsN, sN.
      rewrite compile_chunks_S, eval_seq_S, Ep, EA, E1.
      destruct (eval_seq fuel (mkM (c_lk g1) (c_imps g1) s1) (p2 :: rest')) as [es mN] eqn:Ees.
      cbn [fst snd] in *.
      split; [reflexivity|]. split; [constructor; assumption|].
      split.
      { rewrite Echs in *. rewrite run_seq_S2, Hrun1. exact Hrun'. }
      split; [rewrite Hm', Hlk, Him; reflexivity|].
      split.
      { destruct es as [|e es']; [inversion Hall'; cbn in Hlast'; discriminate|exact Hlast']. }
      constructor; [eexists; reflexivity|exact Hall'].
  Qed.

  (* for every cutting cs of the program List.concat cs: the successive Evals of the chunks and the
     single Eval end in the same machine state (same interning table, same imports, same globals,
     heap, output) and the single Eval returns the values of the last chunk's Eval *)
  Theorem eval_incremental_whole : forall cs fuel m,
    Forall (Forall wf_stmt) cs -> cs <> [] -> incr_hyps fuel m cs ->
    (forall chs g, compile_chunks cs (cstate_of m) = (Some chs, g) -> total_slots chs < slot_limit) ->
    exists fuel' rets,
      eval1 fuel' m (List.concat cs) = (EOk rets, snd (eval_seq fuel m cs)) /\
      last (fst (eval_seq fuel m cs)) ECompileErr = EOk rets /\
      Forall is_ok (fst (eval_seq fuel m cs)).
  Proof.
    intros cs fuel m Hwf Hne Hh Hlim.
    destruct (incr_staged cs fuel m Hne Hh) as [chs [gN [slN [opsN [sN [Hc [Hok [Hrun [Hm [Hlast Hall]]]]]]]]]].
    destruct (run_chunks chs fuel _ _ Hok (Hlim _ _ Hc) Hrun I) as [fuel' [sl' Hw]].
    exists fuel', (rev opsN). split; [|split; assumption].
    unfold Incr.eval1. rewrite (compile_chunks_concat cs Hwf 0), Hc, Z.add_0_l, Hw, Hm. reflexivity.
  Qed.

  (* a failing chunk: in the single call the chunks after it are not run (and if a later chunk does
     not even compile, nothing runs at all); the session of successive Evals goes on *)
  Theorem eval_whole_stops : forall cs fuel m chs gN msg pos s',
    Forall (Forall wf_stmt) cs -> compile_chunks cs (cstate_of m) = (Some chs, gN) ->
    Forall (fun ch => chunk_okb ch = true) chs -> total_slots chs < slot_limit ->
    run_seq fuel chs (set_globals (m_vm m) (c_vals gN)) = RFail msg pos s' ->
    exists fuel', eval1 fuel' m (List.concat cs) = (ERunErr msg pos, mkM (c_lk gN) (c_imps gN) s').
  Proof.
    intros cs fuel m chs gN msg pos s' Hwf Hc Hok Hlim Hrun.
    destruct (run_chunks chs fuel _ _ Hok Hlim Hrun I) as [fuel' Hw]. cbn in Hw.
    exists fuel'. unfold Incr.eval1. rewrite (compile_chunks_concat cs Hwf 0), Hc, Z.add_0_l, Hw. reflexivity.
  Qed.
  Theorem eval_whole_compile_error : forall cs fuel m g',
    Forall (Forall wf_stmt) cs -> compile_chunks cs (cstate_of m) = (None, g') ->
    eval1 fuel m (List.concat cs) = (ECompileErr, mkM (c_lk g') (c_imps g') (set_globals (m_vm m) (c_vals g'))).
  Proof.
    intros cs fuel m g' Hwf Hc. unfold Incr.eval1. rewrite (compile_chunks_concat cs Hwf 0), Hc. reflexivity.
  Qed.
End EvalThm.
