(* C02_fixpoint: the peephole optimizer reaches a FIXPOINT after its
   `optimize_passes` passes, for EVERY instruction list.

   General theorem (arbitrary rule table `rules`, arbitrary number of passes n):

       chain_free n rules = true ->
       forall code, do_optimize rules (iter_opt n rules code) = iter_opt n rules code

   where `chain_free n rules` is a decidable table-level condition:

     (wf)    every rule has a non-empty pattern, and every side condition only
             inspects instructions INSIDE the rule's own window;
     (chain) there is no chain r_1, ..., r_{n+1} of rules of the table with
             C (r_out r_k) occurring among map C (r_codes r_{k+1}) for each k
             (opcode NUMBERS are compared, not names).

   Both (wf) conjuncts are NECESSARY for the general theorem: see the
   counterexamples `empty_pattern_*` and `lookahead_*` below (checked by
   vm_compute): with only the (chain) part the statement is FALSE for arbitrary
   rule tables.  Comparing names instead of numbers is also unsound in general
   (`alias_*`).  The generated table satisfies (wf), so nothing is lost for it.

   Proof idea (no instrumented optimizer is needed).  Let
       created_by k z  :=  k = 0, or z is the out-opcode of a rule that ends a
                           chain of k rules (k-1 links).
       quiet S code    :=  every match of every rule at every position of `code`
                           has, inside its window, an instruction whose opcode
                           satisfies S.
   Every code is `quiet (created_by 0)`.  One pass maps `quiet (created_by k)`
   code to `quiet (created_by (S k))` code: a window of the output made only of
   copied instructions is a contiguous window of the input starting at a
   position that was visited and where NO rule matched; so a match in the output
   must contain an instruction created by this pass; that instruction is the
   output of a rule whose window contained (by quietness of the input) an
   opcode in `created_by k`, so its opcode is in `created_by (S k)`.
   After n passes the code is `quiet (created_by n)`; a match of r there would
   make r the end of a chain of n+1 rules; chain_free excludes it; so nothing
   matches anywhere and do_optimize is the identity. *)
From Coq Require Import ZArith List String Bool Lia Arith.
From GV Require Import Model.PeepTypes Model.VM Gen.Tables_gen Model.Peephole.
Import ListNotations.
Local Open Scope string_scope.
Local Open Scope list_scope.
Local Open Scope nat_scope.

Local Arguments C : simpl never.

(* ------------------------------------------------------------------------- *)
(* 1. The decidable table-level condition                                     *)
(* ------------------------------------------------------------------------- *)

(* side condition c only looks at window positions < k *)
Definition cond_idx_ok (k : nat) (c : cond) : bool :=
  match c with
  | CSame i _ j _ => (i <? k) && (j <? k)
  | CConst i _ _ => i <? k
  | CNotConst i _ _ => i <? k
  end.

Definition rule_wf (r : rule) : bool :=
  (0 <? rule_len r) && forallb (cond_idx_ok (rule_len r)) (r_conds r).

Definition rules_wf (rules : list rule) : bool := forallb rule_wf rules.

(* one link: the output opcode NUMBER of r' occurs among the pattern opcode numbers of r *)
Definition feeds1 (r' r : rule) : bool :=
  existsb (fun c => (C c =? C (r_out r'))%Z) (r_codes r).

(* r is the last rule of a chain of d links (d+1 rules); all predecessors are in `rules` *)
Fixpoint feeds (rules : list rule) (d : nat) (r : rule) : bool :=
  match d with
  | O => true
  | S d' => existsb (fun r' => feeds rules d' r' && feeds1 r' r) rules
  end.

(* no chain of passes+1 rules of the table *)
Definition no_chain (passes : nat) (rules : list rule) : bool :=
  forallb (fun r => negb (feeds rules passes r)) rules.

Definition chain_free (passes : nat) (rules : list rule) : bool :=
  rules_wf rules && no_chain passes rules.

(* readable form of the chain part for two passes *)
Lemma no_chain_two_spec : forall rules,
  no_chain 2 rules = true <->
  (forall r1 r2 r3, In r1 rules -> In r2 rules -> In r3 rules ->
     feeds1 r1 r2 = true -> feeds1 r2 r3 = true -> False).
Proof.
  intros rules. unfold no_chain. rewrite forallb_forall. split.
  - intros H r1 r2 r3 H1 H2 H3 H12 H23.
    specialize (H r3 H3). apply negb_true_iff in H.
    assert (Hf : feeds rules 2 r3 = true).
    { cbn [feeds]. apply existsb_exists. exists r2. split; [exact H2|].
      apply andb_true_iff. split; [|exact H23].
      apply existsb_exists. exists r1. split; [exact H1|]. exact H12. }
    congruence.
  - intros H r3 H3. apply negb_true_iff.
    destruct (feeds rules 2 r3) eqn:Hf; [exfalso|reflexivity].
    cbn [feeds] in Hf. apply existsb_exists in Hf. destruct Hf as (r2 & H2 & Hf).
    apply andb_true_iff in Hf. destruct Hf as (Hf & H23).
    apply existsb_exists in Hf. destruct Hf as (r1 & H1 & H12).
    cbn [andb] in H12. exact (H r1 r2 r3 H1 H2 H3 H12 H23).
Qed.

Lemma feeds1_spec : forall r' r,
  feeds1 r' r = true <-> In (C (r_out r')) (map C (r_codes r)).
Proof.
  intros r' r. unfold feeds1. rewrite existsb_exists, in_map_iff. split.
  - intros (c & Hc & He). apply Z.eqb_eq in He. exists c. split; assumption.
  - intros (c & He & Hc). exists c. split; [exact Hc|]. apply Z.eqb_eq. exact He.
Qed.

(* ------------------------------------------------------------------------- *)
(* 2. Basic facts about windows and matching                                  *)
(* ------------------------------------------------------------------------- *)

Lemma nth_firstn_lt {A} (d : A) : forall k i (w : list A),
  i < k -> nth i (firstn k w) d = nth i w d.
Proof.
  induction k as [|k IH]; intros i w Hlt; [lia|].
  destruct w as [|x w]; [reflexivity|].
  destruct i as [|i]; [reflexivity|].
  cbn [firstn nth]. apply IH. lia.
Qed.

Lemma forallb_ext_in {A} (f g : A -> bool) : forall l,
  (forall x, In x l -> f x = g x) -> forallb f l = forallb g l.
Proof.
  induction l as [|x l IH]; intros H; [reflexivity|].
  cbn [forallb]. rewrite (H x (or_introl eq_refl)). f_equal.
  apply IH. intros y Hy. apply H. right. exact Hy.
Qed.

Lemma codes_match_firstn : forall ns w,
  codes_match ns (firstn (List.length ns) w) = codes_match ns w.
Proof.
  induction ns as [|n ns IH]; intros w; [reflexivity|].
  destruct w as [|i w]; [reflexivity|].
  cbn [List.length firstn codes_match]. rewrite IH. reflexivity.
Qed.

Lemma cond_ok_firstn : forall k w c,
  cond_idx_ok k c = true -> cond_ok (firstn k w) c = cond_ok w c.
Proof.
  intros k w c Hc. destruct c as [i f j g|i f v|i f v]; cbn [cond_idx_ok] in Hc;
    unfold cond_ok, win.
  - apply andb_true_iff in Hc. destruct Hc as (Hi & Hj).
    apply Nat.ltb_lt in Hi. apply Nat.ltb_lt in Hj.
    rewrite !nth_firstn_lt by assumption. reflexivity.
  - apply Nat.ltb_lt in Hc. rewrite nth_firstn_lt by assumption. reflexivity.
  - apply Nat.ltb_lt in Hc. rewrite nth_firstn_lt by assumption. reflexivity.
Qed.

(* for a well-formed rule, matching depends only on the rule's own window *)
Lemma rule_matches_firstn : forall r w,
  rule_wf r = true ->
  rule_matches r (firstn (rule_len r) w) = rule_matches r w.
Proof.
  intros r w Hwf. unfold rule_wf in Hwf. apply andb_true_iff in Hwf.
  destruct Hwf as (_ & Hconds). rewrite forallb_forall in Hconds.
  unfold rule_matches, rule_len. rewrite codes_match_firstn. f_equal.
  apply forallb_ext_in. intros c Hc. apply cond_ok_firstn. apply Hconds. exact Hc.
Qed.

(* every instruction of a matched window carries one of the rule's pattern opcodes *)
Lemma codes_match_In : forall ns w,
  codes_match ns w = true ->
  forall i, In i (firstn (List.length ns) w) -> exists c, In c ns /\ icode i = C c.
Proof.
  induction ns as [|n ns IH]; intros w Hm i Hin.
  - cbn [List.length firstn] in Hin. contradiction.
  - destruct w as [|x w]; [cbn [codes_match] in Hm; discriminate|].
    cbn [codes_match] in Hm. apply andb_true_iff in Hm. destruct Hm as (Hx & Hm).
    cbn [List.length firstn] in Hin. destruct Hin as [Hin|Hin].
    + subst i. exists n. split; [left; reflexivity|]. apply Z.eqb_eq. exact Hx.
    + destruct (IH w Hm i Hin) as (c & Hc & He). exists c. split; [right; exact Hc|exact He].
Qed.

(* a matched window of a rule with a non-empty pattern starts with the head of w *)
Lemma matched_head_in_window : forall r w,
  rule_wf r = true -> rule_matches r w = true ->
  exists i rest, w = i :: rest /\ In i (firstn (rule_len r) w).
Proof.
  intros r w Hwf Hm. unfold rule_wf in Hwf. apply andb_true_iff in Hwf.
  destruct Hwf as (Hlen & _). apply Nat.ltb_lt in Hlen.
  unfold rule_matches in Hm. apply andb_true_iff in Hm. destruct Hm as (Hm & _).
  unfold rule_len in *. destruct (r_codes r) as [|n ns]; [cbn [List.length] in Hlen; lia|].
  destruct w as [|i rest]; [cbn [codes_match] in Hm; discriminate|].
  exists i, rest. split; [reflexivity|]. cbn [List.length firstn]. left. reflexivity.
Qed.

Lemma first_match_some : forall rs w r,
  first_match rs w = Some r -> In r rs /\ rule_matches r w = true.
Proof.
  induction rs as [|r0 rs IH]; intros w r H; cbn [first_match] in H; [discriminate|].
  destruct (rule_matches r0 w) eqn:Hm.
  - inversion H; subst r0. split; [left; reflexivity|exact Hm].
  - destruct (IH w r H) as (Hin & Hr). split; [right; exact Hin|exact Hr].
Qed.

Lemma first_match_none : forall rs w,
  first_match rs w = None <-> (forall r, In r rs -> rule_matches r w = false).
Proof.
  induction rs as [|r0 rs IH]; intros w; cbn [first_match].
  - split; [intros _ r []|reflexivity].
  - destruct (rule_matches r0 w) eqn:Hm.
    + split; [discriminate|]. intros H. specialize (H r0 (or_introl eq_refl)). congruence.
    + rewrite IH. split.
      * intros H r [Hr|Hr]; [subst r; exact Hm|apply H; exact Hr].
      * intros H r Hr. apply H. right. exact Hr.
Qed.

(* ------------------------------------------------------------------------- *)
(* 3. do_optimize as a relation; fuel independence                            *)
(* ------------------------------------------------------------------------- *)

Inductive opt_rel (rs : list rule) : list instr -> list instr -> Prop :=
| OR_nil : opt_rel rs [] []
| OR_copy : forall i rest out,
    first_match rs (i :: rest) = None ->
    opt_rel rs rest out ->
    opt_rel rs (i :: rest) (i :: out)
| OR_fuse : forall i rest r out,
    first_match rs (i :: rest) = Some r ->
    opt_rel rs (skipn (rule_len r) (i :: rest)) out ->
    opt_rel rs (i :: rest) (fused r (i :: rest) :: out).

Lemma rules_wf_in : forall rs r, rules_wf rs = true -> In r rs -> rule_wf r = true.
Proof. intros rs r H Hin. unfold rules_wf in H. rewrite forallb_forall in H. apply H. exact Hin. Qed.

Lemma rule_wf_len : forall r, rule_wf r = true -> 0 < rule_len r.
Proof.
  intros r H. unfold rule_wf in H. apply andb_true_iff in H. destruct H as (H & _).
  apply Nat.ltb_lt. exact H.
Qed.

Lemma opt_rel_fuel : forall rs, rules_wf rs = true ->
  forall fuel code, List.length code <= fuel -> opt_rel rs code (do_optimize_fuel fuel rs code).
Proof.
  intros rs Hwf. induction fuel as [|f IH]; intros code Hlen.
  - destruct code as [|i rest]; [constructor|cbn [List.length] in Hlen; lia].
  - destruct code as [|i rest]; [constructor|].
    cbn [do_optimize_fuel]. destruct (first_match rs (i :: rest)) as [r|] eqn:Hfm.
    + apply OR_fuse; [exact Hfm|]. apply IH.
      destruct (first_match_some _ _ _ Hfm) as (Hin & _).
      pose proof (rule_wf_len r (rules_wf_in _ _ Hwf Hin)) as Hpos.
      rewrite skipn_length. cbn [List.length] in *. lia.
    + apply OR_copy; [exact Hfm|]. apply IH. cbn [List.length] in Hlen. lia.
Qed.

Lemma opt_rel_fun : forall rs code o1, opt_rel rs code o1 ->
  forall o2, opt_rel rs code o2 -> o1 = o2.
Proof.
  intros rs code o1 H1. induction H1 as [|i rest out Hfm H1 IH|i rest r out Hfm H1 IH];
    intros o2 H2; inversion H2; subst; try congruence.
  - f_equal. apply IH. assumption.
  - match goal with Hx : first_match rs (i :: rest) = Some ?r' |- _ =>
      assert (r' = r) by congruence; subst r' end.
    f_equal. apply IH. assumption.
Qed.

Lemma opt_rel_do_optimize : forall rs code, rules_wf rs = true ->
  opt_rel rs code (do_optimize rs code).
Proof. intros rs code Hwf. unfold do_optimize. apply opt_rel_fuel; [exact Hwf|lia]. Qed.

(* fuel independence: any fuel >= length code gives the same result as do_optimize *)
Lemma fuel_independent : forall rs fuel code, rules_wf rs = true ->
  List.length code <= fuel -> do_optimize_fuel fuel rs code = do_optimize rs code.
Proof.
  intros rs fuel code Hwf Hlen.
  eapply opt_rel_fun; [apply opt_rel_fuel; eassumption|apply opt_rel_do_optimize; exact Hwf].
Qed.

(* ------------------------------------------------------------------------- *)
(* 4. The general theorem                                                     *)
(* ------------------------------------------------------------------------- *)

Section General.
Variable rules : list rule.
Hypothesis Hwf : rules_wf rules = true.

(* opcodes that can be carried by an instruction created in pass k (k >= 1):
   outputs of rules ending a chain of k rules; for k = 0: anything *)
Definition created_by (k : nat) (z : Z) : Prop :=
  match k with
  | O => True
  | S k' => exists r, In r rules /\ feeds rules k' r = true /\ z = C (r_out r)
  end.

(* every match anywhere in `code` has an S-opcode inside its window *)
Definition quiet (S : Z -> Prop) (code : list instr) : Prop :=
  forall p w r, code = p ++ w -> In r rules -> rule_matches r w = true ->
    exists i, In i (firstn (rule_len r) w) /\ S (icode i).

Lemma quiet_app : forall S p code, quiet S (p ++ code) -> quiet S code.
Proof.
  intros S p code H p' w r Heq Hin Hm. subst code.
  apply (H (p ++ p') w r); [apply app_assoc|exact Hin|exact Hm].
Qed.

Lemma quiet_skipn : forall S k code, quiet S code -> quiet S (skipn k code).
Proof.
  intros S k code H. apply (quiet_app S (firstn k code)). rewrite firstn_skipn. exact H.
Qed.

Lemma quiet_zero : forall code, quiet (created_by 0) code.
Proof.
  intros code p w r _ Hin Hm.
  destruct (matched_head_in_window r w (rules_wf_in _ _ Hwf Hin) Hm) as (i & rest & _ & Hi).
  exists i. split; [exact Hi|exact I].
Qed.

(* a rule that matches a window containing a generation-k opcode ends a chain of k links *)
Lemma matched_feeds : forall k r w,
  In r rules -> rule_matches r w = true ->
  (exists i, In i (firstn (rule_len r) w) /\ created_by k (icode i)) ->
  feeds rules k r = true.
Proof.
  intros k r w Hin Hm (i & Hi & Hc). destruct k as [|k]; [reflexivity|].
  cbn [created_by] in Hc. destruct Hc as (r' & Hr' & Hf & Hz).
  unfold rule_matches in Hm. apply andb_true_iff in Hm. destruct Hm as (Hm & _).
  destruct (codes_match_In _ _ Hm i Hi) as (c & Hc & He).
  cbn [feeds]. apply existsb_exists. exists r'. split; [exact Hr'|].
  apply andb_true_iff. split; [exact Hf|].
  unfold feeds1. apply existsb_exists. exists c. split; [exact Hc|].
  apply Z.eqb_eq. congruence.
Qed.

(* the instruction created by a match in quiet-k code has a generation-(k+1) opcode *)
Lemma created_step : forall k code r,
  quiet (created_by k) code -> first_match rules code = Some r ->
  created_by (S k) (icode (fused r code)).
Proof.
  intros k code r Hq Hfm. destruct (first_match_some _ _ _ Hfm) as (Hin & Hm).
  cbn [created_by]. exists r. split; [exact Hin|]. split; [|reflexivity].
  apply (matched_feeds k r code Hin Hm). apply (Hq [] code r); [reflexivity|exact Hin|exact Hm].
Qed.

(* a prefix of the output is either a verbatim prefix of the input, or contains a created instruction *)
Lemma prefix_copied_or_created : forall k code out,
  opt_rel rules code out -> quiet (created_by k) code ->
  forall m, firstn m out = firstn m code \/
            exists i, In i (firstn m out) /\ created_by (S k) (icode i).
Proof.
  intros k code out Hrel. induction Hrel as [|i rest out Hfm Hrel IH|i rest r out Hfm Hrel IH];
    intros Hq m.
  - left. reflexivity.
  - destruct m as [|m]; [left; reflexivity|].
    assert (Hq' : quiet (created_by k) rest) by (apply (quiet_app _ [i]); exact Hq).
    destruct (IH Hq' m) as [Heq|(j & Hj & Hc)].
    + left. cbn [firstn]. rewrite Heq. reflexivity.
    + right. exists j. split; [cbn [firstn]; right; exact Hj|exact Hc].
  - destruct m as [|m]; [left; reflexivity|].
    right. exists (fused r (i :: rest)). split; [cbn [firstn]; left; reflexivity|].
    apply created_step; assumption.
Qed.

(* THE PASS LEMMA: one pass turns quiet-k code into quiet-(k+1) code *)
Lemma pass_quiet : forall k code out,
  opt_rel rules code out -> quiet (created_by k) code -> quiet (created_by (S k)) out.
Proof.
  intros k code out Hrel.
  induction Hrel as [|i rest out Hfm Hrel IH|i rest r out Hfm Hrel IH]; intros Hq p w r' Heq Hin' Hm'.
  - (* empty output: nothing can match *)
    destruct p; [|discriminate]. cbn [app] in Heq. subst w.
    destruct (matched_head_in_window r' [] (rules_wf_in _ _ Hwf Hin') Hm') as (? & ? & Hx & _).
    discriminate.
  - destruct p as [|x p].
    + (* the match starts at the copied instruction i *)
      cbn [app] in Heq. subst w.
      destruct (prefix_copied_or_created k (i :: rest) (i :: out)
                  (OR_copy rules i rest out Hfm Hrel) Hq (rule_len r')) as [Hpre|Hcr].
      * (* window made of copied instructions only: it already matched in the input *)
        exfalso.
        pose proof (rules_wf_in _ _ Hwf Hin') as Hwf'.
        assert (Hin_match : rule_matches r' (i :: rest) = true).
        { rewrite <- (rule_matches_firstn r' (i :: rest) Hwf'). rewrite <- Hpre.
          rewrite (rule_matches_firstn r' (i :: out) Hwf'). exact Hm'. }
        pose proof (proj1 (first_match_none rules (i :: rest)) Hfm r' Hin') as Hno.
        congruence.
      * exact Hcr.
    + cbn [app] in Heq. inversion Heq; subst x out.
      assert (Hq' : quiet (created_by k) rest) by (apply (quiet_app _ [i]); exact Hq).
      apply (IH Hq' p w r'); [reflexivity|exact Hin'|exact Hm'].
  - destruct p as [|x p].
    + (* the match starts at the created instruction *)
      cbn [app] in Heq. subst w.
      destruct (matched_head_in_window r' _ (rules_wf_in _ _ Hwf Hin') Hm') as (h & t & Hx & Hh).
      inversion Hx; subst h t.
      exists (fused r (i :: rest)). split; [exact Hh|]. apply created_step; assumption.
    + cbn [app] in Heq. inversion Heq; subst x out.
      assert (Hq' : quiet (created_by k) (skipn (rule_len r) (i :: rest))) by (apply quiet_skipn; exact Hq).
      apply (IH Hq' p w r'); [reflexivity|exact Hin'|exact Hm'].
Qed.

Lemma iter_quiet : forall n k code,
  quiet (created_by k) code -> quiet (created_by (n + k)) (iter_opt n rules code).
Proof.
  induction n as [|n IH]; intros k code Hq; [exact Hq|].
  cbn [iter_opt]. replace (S n + k) with (n + S k) by lia.
  apply IH. apply (pass_quiet k code); [apply opt_rel_do_optimize; exact Hwf|exact Hq].
Qed.

(* if nothing matches anywhere, a pass is the identity (whatever the fuel) *)
Lemma no_match_fixed : forall code,
  (forall p w r, code = p ++ w -> In r rules -> rule_matches r w = false) ->
  forall fuel, do_optimize_fuel fuel rules code = code.
Proof.
  induction code as [|i rest IH]; intros H fuel; destruct fuel as [|f]; try reflexivity.
  cbn [do_optimize_fuel].
  assert (Hfm : first_match rules (i :: rest) = None).
  { apply first_match_none. intros r Hr. apply (H [] (i :: rest) r); [reflexivity|exact Hr]. }
  rewrite Hfm. f_equal. apply IH. intros p w r Heq Hr.
  apply (H (i :: p) w r); [cbn [app]; rewrite Heq; reflexivity|exact Hr].
Qed.

Lemma quiet_no_chain_fixed : forall n code,
  no_chain n rules = true -> quiet (created_by n) code ->
  do_optimize rules code = code.
Proof.
  intros n code Hnc Hq. unfold do_optimize. apply no_match_fixed.
  intros p w r Heq Hr. destruct (rule_matches r w) eqn:Hm; [exfalso|reflexivity].
  pose proof (matched_feeds n r w Hr Hm (Hq p w r Heq Hr Hm)) as Hf.
  unfold no_chain in Hnc. rewrite forallb_forall in Hnc. specialize (Hnc r Hr).
  rewrite Hf in Hnc. discriminate.
Qed.

End General.

Theorem fixpoint_after_n : forall n rules,
  chain_free n rules = true ->
  forall code, do_optimize rules (iter_opt n rules code) = iter_opt n rules code.
Proof.
  intros n rules Hcf code. unfold chain_free in Hcf. apply andb_true_iff in Hcf.
  destruct Hcf as (Hwf & Hnc).
  apply (quiet_no_chain_fixed rules n _ Hnc).
  replace n with (n + 0) at 1 by lia.
  apply iter_quiet; [exact Hwf|]. apply quiet_zero. exact Hwf.
Qed.

Theorem fixpoint_after_two : forall rules,
  chain_free 2 rules = true ->
  forall code, do_optimize rules (iter_opt 2 rules code) = iter_opt 2 rules code.
Proof. intros rules. apply (fixpoint_after_n 2). Qed.

(* consequences: any number of further passes changes nothing *)
Lemma iter_opt_fixed : forall rules x,
  do_optimize rules x = x -> forall m, iter_opt m rules x = x.
Proof.
  intros rules x Hx. induction m as [|m IH]; [reflexivity|]. cbn [iter_opt]. rewrite Hx. exact IH.
Qed.

Lemma iter_opt_add : forall rules a b code,
  iter_opt (a + b) rules code = iter_opt b rules (iter_opt a rules code).
Proof.
  intros rules. induction a as [|a IH]; intros b code; [reflexivity|].
  cbn [Nat.add iter_opt]. apply IH.
Qed.

Theorem more_passes_same : forall n rules,
  chain_free n rules = true ->
  forall m code, iter_opt (n + m) rules code = iter_opt n rules code.
Proof.
  intros n rules Hcf m code. rewrite iter_opt_add.
  apply iter_opt_fixed. apply fixpoint_after_n. exact Hcf.
Qed.

(* ------------------------------------------------------------------------- *)
(* 5. The generated table                                                     *)
(* ------------------------------------------------------------------------- *)

Lemma peephole_chain_free : chain_free optimize_passes peephole_rules = true.
Proof. vm_compute. reflexivity. Qed.

Theorem c02_reoptimize_stable : forall code,
  do_optimize peephole_rules (iter_opt optimize_passes peephole_rules code)
  = iter_opt optimize_passes peephole_rules code.
Proof. apply fixpoint_after_n. exact peephole_chain_free. Qed.

(* idempotence of the compiler's optimize (for either value of the flag) *)
Theorem c02_optimize_idempotent : forall on code,
  optimize on (optimize on code) = optimize on code.
Proof.
  intros on code. destruct on; [|reflexivity]. unfold optimize.
  apply iter_opt_fixed. apply c02_reoptimize_stable.
Qed.

Corollary c02_optimize_true_idempotent : forall code,
  optimize true (optimize true code) = optimize true code.
Proof. intros code. apply c02_optimize_idempotent. Qed.

(* the compiler computes jump offsets from the optimised length of inner blocks;
   re-optimising (by one raw pass, by optimize, or by any number of passes) keeps the length *)
Corollary c02_length_stable : forall code,
  List.length (do_optimize peephole_rules (optimize true code)) = List.length (optimize true code)
  /\ List.length (optimize true (optimize true code)) = List.length (optimize true code)
  /\ forall m, List.length (iter_opt m peephole_rules (optimize true code)) = List.length (optimize true code).
Proof.
  intros code. split; [|split].
  - unfold optimize. rewrite c02_reoptimize_stable. reflexivity.
  - rewrite c02_optimize_true_idempotent. reflexivity.
  - intros m. unfold optimize. rewrite iter_opt_fixed; [reflexivity|apply c02_reoptimize_stable].
Qed.

(* the fuel of the model is irrelevant on the generated table *)
Corollary c02_fuel_independent : forall fuel code,
  List.length code <= fuel ->
  do_optimize_fuel fuel peephole_rules code = do_optimize peephole_rules code.
Proof. intros fuel code H. apply fuel_independent; [vm_compute; reflexivity|exact H]. Qed.

(* ------------------------------------------------------------------------- *)
(* 6. Tightness                                                               *)
(* ------------------------------------------------------------------------- *)

Definition I (name : string) (a : Z) : instr := mkI (C name) a 0 0 0.

(* (a) ONE pass is not enough for the generated table: a = a + 1 *)
Definition incr_code : list instr :=
  [I "codeLocalGet" 3; I "codePush" 1; I "codeAdd" 0; I "codeLocalSet" 3].

Example one_pass_not_chain_free : chain_free 1 peephole_rules = false.
Proof. vm_compute. reflexivity. Qed.

Example one_pass_not_fixpoint :
  iter_opt 1 peephole_rules incr_code
    = [I "codeLocalGet" 3; mkI (C "codeIncDec") 1 0 0 0; I "codeLocalSet" 3]
  /\ do_optimize peephole_rules (iter_opt 1 peephole_rules incr_code)
    = [mkI (C "codeLocalIncDec") 3 1 0 0]
  /\ do_optimize peephole_rules (iter_opt 1 peephole_rules incr_code)
     <> iter_opt 1 peephole_rules incr_code.
Proof. vm_compute. repeat split. discriminate. Qed.

(* (b1) adding  PUSH; INCDEC -> PUSH  creates the chain
        (PUSH;ADD->INCDEC) -> (PUSH;INCDEC->PUSH) -> (PUSH;ADD->INCDEC): a third pass changes the code *)
Definition rule_push_incdec : rule :=
  mkRule ["codePush"; "codeIncDec"] [] "codePush" (OField 0 FA) OZero OZero 1.
Definition rules_b1 : list rule := peephole_rules ++ [rule_push_incdec].
Definition code_b1 : list instr :=
  [I "codePush" 1; I "codePush" 2; I "codeAdd" 0; I "codeAdd" 0].

Example b1_wf_but_chain : rules_wf rules_b1 = true /\ no_chain 2 rules_b1 = false
                          /\ chain_free 2 rules_b1 = false.
Proof. vm_compute. repeat split. Qed.

Example b1_third_pass_changes :
  iter_opt 2 rules_b1 code_b1 = [mkI (C "codePush") 1 0 0 0; I "codeAdd" 0]
  /\ do_optimize rules_b1 (iter_opt 2 rules_b1 code_b1) = [mkI (C "codeIncDec") 1 0 0 0]
  /\ do_optimize rules_b1 (iter_opt 2 rules_b1 code_b1) <> iter_opt 2 rules_b1 code_b1.
Proof. vm_compute. repeat split. discriminate. Qed.

(* (b2) adding  INCDEC; INCDEC -> INCDEC  (a self-chain: out is one of its own pattern opcodes) *)
Definition rule_incdec_incdec : rule :=
  mkRule ["codeIncDec"; "codeIncDec"] [] "codeIncDec" (OField 0 FA) OZero OZero 1.
Definition rules_b2 : list rule := peephole_rules ++ [rule_incdec_incdec].
Definition code_b2 : list instr :=
  [I "codePush" 1; I "codeAdd" 0; I "codePush" 1; I "codeAdd" 0;
   I "codePush" 1; I "codeAdd" 0; I "codePush" 1; I "codeAdd" 0].

Example b2_self_chain : feeds1 rule_incdec_incdec rule_incdec_incdec = true
                        /\ rules_wf rules_b2 = true /\ chain_free 2 rules_b2 = false
                        /\ forall n, chain_free n [rule_incdec_incdec] = false.
Proof.
  split; [vm_compute; reflexivity|]. split; [vm_compute; reflexivity|].
  split; [vm_compute; reflexivity|].
  assert (Hf : forall n, feeds [rule_incdec_incdec] n rule_incdec_incdec = true).
  { induction n as [|n IH]; [reflexivity|]. cbn [feeds existsb]. rewrite IH. vm_compute. reflexivity. }
  intros n. unfold chain_free, no_chain. cbn [forallb]. rewrite Hf.
  cbn [negb andb]. apply andb_false_r.
Qed.

Example b2_third_pass_changes :
  List.length (iter_opt 1 rules_b2 code_b2) = 4
  /\ List.length (iter_opt 2 rules_b2 code_b2) = 2
  /\ List.length (do_optimize rules_b2 (iter_opt 2 rules_b2 code_b2)) = 1
  /\ do_optimize rules_b2 (iter_opt 2 rules_b2 code_b2) <> iter_opt 2 rules_b2 code_b2.
Proof. vm_compute. repeat split. discriminate. Qed.

(* ------------------------------------------------------------------------- *)
(* 7. Why chain_free contains the well-formedness part: the chain condition   *)
(*    ALONE does not imply the fixpoint property for arbitrary rule tables     *)
(* ------------------------------------------------------------------------- *)

(* (i) a rule with an EMPTY pattern matches everywhere and consumes nothing: each pass
       inserts instructions (until the fuel runs out), the code grows for ever.  There is no
       chain at all, since the rule has no pattern opcode. *)
Definition rule_empty : rule := mkRule [] [] "codePass" OZero OZero OZero 0.

Example empty_pattern_counterexample :
  (forall n, no_chain (S n) [rule_empty] = true)
  /\ rules_wf [rule_empty] = false
  /\ List.length (iter_opt 2 [rule_empty] [I "codeAdd" 0]) = 7
  /\ List.length (do_optimize [rule_empty] (iter_opt 2 [rule_empty] [I "codeAdd" 0])) = 15.
Proof.
  split.
  - intros n. unfold no_chain. cbn [forallb feeds existsb].
    change (feeds1 rule_empty rule_empty) with false.
    rewrite andb_false_r. reflexivity.
  - vm_compute. repeat split.
Qed.

(* (ii) a side condition that looks BEYOND the rule's window (here: at the next instruction)
        can be switched on by an instruction created next to -- not inside -- the window. *)
Definition rule_lookahead : rule :=
  mkRule ["codeReturn"] [CConst 1 FA 0] "codeZero" OZero OZero OZero 0.
Definition rule_mk_zero : rule :=
  mkRule ["codeLt"; "codeGt"] [] "codeDiv" OZero OZero OZero 0.
Definition rules_lookahead : list rule := [rule_lookahead; rule_mk_zero].
Definition code_lookahead : list instr := [I "codeReturn" 7; I "codeLt" 5; I "codeGt" 5].

Example lookahead_counterexample :
  no_chain 1 rules_lookahead = true
  /\ rules_wf rules_lookahead = false
  /\ iter_opt 1 rules_lookahead code_lookahead = [I "codeReturn" 7; mkI (C "codeDiv") 0 0 0 0]
  /\ do_optimize rules_lookahead (iter_opt 1 rules_lookahead code_lookahead)
     = [mkI (C "codeZero") 0 0 0 0; mkI (C "codeDiv") 0 0 0 0].
Proof. vm_compute. repeat split. Qed.

(* (iii) opcode NAMES are not enough: two names may denote the same number (here two names
         unknown to the opcode table both denote -999); a name-based chain test sees no link
         between these two rules, but the instruction created by the first is matched by the second. *)
Definition rule_alias1 : rule := mkRule ["codePush"] [] "codeFoo" OZero OZero OZero 0.
Definition rule_alias2 : rule := mkRule ["codeBar"] [] "codeAdd" OZero OZero OZero 0.

Example alias_counterexample :
  existsb (String.eqb (r_out rule_alias1)) (r_codes rule_alias2) = false   (* no link by name *)
  /\ feeds1 rule_alias1 rule_alias2 = true                                 (* link by number *)
  /\ chain_free 1 [rule_alias1; rule_alias2] = false
  /\ chain_free 2 [rule_alias1; rule_alias2] = true
  /\ iter_opt 1 [rule_alias1; rule_alias2] [I "codePush" 1] = [mkI (-999) 0 0 0 0]
  /\ iter_opt 2 [rule_alias1; rule_alias2] [I "codePush" 1] = [mkI (C "codeAdd") 0 0 0 0].
Proof. vm_compute. repeat split. Qed.

(* ------------------------------------------------------------------------- *)
(* 8. Assumptions                                                             *)
(* ------------------------------------------------------------------------- *)
Print Assumptions fixpoint_after_n.
Print Assumptions fixpoint_after_two.
Print Assumptions more_passes_same.
Print Assumptions fuel_independent.
Print Assumptions c02_reoptimize_stable.
Print Assumptions c02_optimize_idempotent.
Print Assumptions c02_optimize_true_idempotent.
Print Assumptions c02_length_stable.
Print Assumptions c02_fuel_independent.
