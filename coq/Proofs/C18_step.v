(* C18, run part (1): fuel monotonicity of Model/VM.v [exec] and what one instruction can do, by opcode. *)
From Coq Require Import ZArith List String Ascii Bool Lia.
From GV Require Import GoSpec.GoPrim Gen.ValueOps_gen Gen.Tables_gen Model.VM Model.Incr.
Import ListNotations.
Open Scope Z_scope.

Section Exec.
  Variable grow : Z -> Z -> Z.
  Variable ext_get : st -> value -> value -> option (res value).
  Variable ext_set : st -> value -> value -> value -> option (res st).
  Variable ext_len : st -> value -> option Z.
  Variable ext_getattr : st -> value -> Z -> option (res (value * st)).
  Variable ext_setattr : st -> value -> Z -> value -> option (res st).
  Notation step1 := (VM.step1 grow ext_get ext_set ext_len ext_getattr ext_setattr).
  Notation exec := (VM.exec grow ext_get ext_set ext_len ext_getattr ext_setattr).
  Notation call_fn := (VM.call_fn grow ext_get ext_set ext_len ext_getattr ext_setattr).
  Notation run := (VM.run grow ext_get ext_set ext_len ext_getattr ext_setattr).

  (* ---- unfolding ---- *)
  Lemma exec_S : forall f codes pc sl ops s,
    exec (S f) codes pc sl ops s =
    match znth codes pc with
    | None => RDone sl ops s
    | Some i =>
        match step1 codes pc i sl ops s with
        | SNext sl' ops' s' => exec f codes (pc + 1) sl' ops' s'
        | SJump d sl' ops' s' => exec f codes (pc + d + 1) sl' ops' s'
        | SCall pack fa xArgs xRets sl' ops' s' =>
            match call_fn f pack fa xArgs xRets (ipos i) ops' s' with
            | COk ops'' s'' => exec f codes (pc + 1) sl' ops'' s''
            | CErr r => r
            end
        | SRet sl' ops' s' => RDone sl' ops' s'
        | SFail msg s' => RFail msg (ipos i) s'
        | SStuck w => RStuck w
        | SUnmod w => RUnmod w
        end
    end.
  Proof. reflexivity. Qed.

  Lemma call_fn_S : forall f pack fa xArgs xRets pos ops s,
    call_fn (S f) pack fa xArgs xRets pos ops s =
      match hget s fa with
      | Some (HNative name) =>
          if (String.eqb name "builtin.println") || (String.eqb name "builtin.print") ||
             (String.eqb name "fmt.Println") || (String.eqb name "fmt.Print") then
            if negb pack then CErr (RUnmod "native with spread") else
            match popn (Z.to_nat xArgs) ops [] with
            | Some (args, rest) =>
                match all_some (map to_string args) with
                | Some strs =>
                    let line := if (String.eqb name "builtin.println") || (String.eqb name "fmt.Println")
                                then (join_sp strs ++ [10])%list else join_sp strs in
                    if 0 <? xRets then CErr (RFail "incorrect returns" pos s) else COk rest (emit s line)
                | None => CErr (RUnmod "printing of this value kind")
                end
            | None => CErr (RStuck "native arguments")
            end
          else CErr (RUnmod "native function")
      | Some (HFunc nargs nrets variadic vtype nslots types body) =>
          let packed :=
            if variadic && pack then
              let nVar := xArgs - nargs + 1 in
              if nVar <? 0 then inr (RFail "runtime error" pos s) else
              match popn (Z.to_nat nVar) ops [] with
              | Some (vargs, rest) =>
                  let (s1, sv) := variadic_arg s vtype nVar vargs in
                  inl (sv :: rest, xArgs - nVar + 1, s1)
              | None => inr (RStuck "variadic arguments")
              end
            else inl (ops, xArgs, s) in
          match packed with
          | inr r => CErr r
          | inl (ops1, xArgs1, s1) =>
              if negb (xArgs1 =? nargs) then CErr (RFail "incorrect args" pos s1) else
              match popn (Z.to_nat nargs) ops1 [] with
              | None => CErr (RStuck "arguments")
              | Some (args, rest) =>
                  let typed := map (fun p => Value_assign (fst p) (snd p)) (combine args types) in
                  let slots := (typed ++ repeat nilV (Z.to_nat (nslots - nargs)))%list in
                  match exec f body 0 slots [] (push_bt s1 pos) with
                  | RDone _ rops s2 =>
                      let results := rev rops in
                      let n := zlen results in
                      if n <? nrets then CErr (RFail "missing return" pos (pop_bt s2)) else
                      let rtypes := skipn (Z.to_nat nargs) types in
                      let keep := firstn (Z.to_nat (n - nrets)) results in
                      let top := skipn (Z.to_nat (n - nrets)) results in
                      let results' := (keep ++ map (fun p => Value_assign (fst p) (snd p)) (combine top rtypes))%list in
                      if n <? xRets then CErr (RFail "incorrect returns" pos (pop_bt s2))
                      else COk (rev (firstn (Z.to_nat xRets) results') ++ rest)%list (pop_bt s2)
                  | r => CErr r
                  end
              end
          end
      | Some _ => CErr (RFail "interface conversion" pos s)
      | None => CErr (RFail "interface conversion" pos s)
      end.
  Proof. reflexivity. Qed.

  (* ---- more fuel, same answer ---- *)
  Lemma fuel_mono : forall f,
    (forall codes pc sl ops s r f', exec f codes pc sl ops s = r -> r <> RFuel -> (f <= f')%nat ->
                                    exec f' codes pc sl ops s = r) /\
    (forall pack fa xa xr pos ops s r f', call_fn f pack fa xa xr pos ops s = r -> r <> CErr RFuel -> (f <= f')%nat ->
                                    call_fn f' pack fa xa xr pos ops s = r).
  Proof.
    induction f as [|f [IHe IHc]].
    - split; intros; cbn [VM.exec VM.call_fn] in *; subst; exfalso; auto.
    - split.
      + intros codes pc sl ops s r f' H Hr Hle.
        destruct f' as [|f']; [lia|]. assert (Hle' : (f <= f')%nat) by lia.
        rewrite exec_S in *.
        destruct (znth codes pc) as [i|]; [|exact H].
        destruct (step1 codes pc i sl ops s) eqn:E; try exact H.
        * eapply IHe; eauto.
        * eapply IHe; eauto.
        * destruct (call_fn f pack fa xArgs xRets (ipos i) ops0 s0) eqn:Ec.
          -- rewrite (IHc _ _ _ _ _ _ _ _ f' Ec); [| congruence | exact Hle']. eapply IHe; eauto.
          -- rewrite (IHc _ _ _ _ _ _ _ _ f' Ec); [exact H | | exact Hle']. intro X; inversion X; subst; congruence.
      + intros pack fa xa xr pos ops s r f' H Hr Hle.
        destruct f' as [|f']; [lia|]. assert (Hle' : (f <= f')%nat) by lia.
        rewrite call_fn_S in *.
        destruct (hget s fa) as [o|]; [|exact H].
        destruct o; try exact H.
        cbv zeta in *.
        match type of H with context [match ?p with inl _ => _ | inr _ => _ end] => destruct p as [[[ops1 xa1] s1]|r1] end; [|exact H].
        destruct (negb (xa1 =? nargs)); [exact H|].
        destruct (popn (Z.to_nat nargs) ops1 []) as [[args rest]|]; [|exact H].
        match type of H with context [exec f ?b ?p ?sl ?o ?s] => destruct (exec f b p sl o s) eqn:Ee end;
          try (rewrite (IHe _ _ _ _ _ _ f' Ee); [exact H | congruence | exact Hle']).
        all: try (exfalso; apply Hr; rewrite <- H; reflexivity).
  Qed.

  Lemma exec_mono : forall f f' codes pc sl ops s r,
    exec f codes pc sl ops s = r -> r <> RFuel -> (f <= f')%nat -> exec f' codes pc sl ops s = r.
  Proof. intros; eapply (proj1 (fuel_mono f)); eauto. Qed.
  Lemma call_mono : forall f f' pack fa xa xr pos ops s r,
    call_fn f pack fa xa xr pos ops s = r -> r <> CErr RFuel -> (f <= f')%nat -> call_fn f' pack fa xa xr pos ops s = r.
  Proof. intros; eapply (proj2 (fuel_mono f)); eauto. Qed.

  (* ---- what one instruction can do, by opcode (a walk through every case of step1) ---- *)
  Ltac brk R :=
    repeat match goal with
    | |- _ = _ -> _ => intro
    | H : SNext _ _ _ = R |- _ => discriminate H
    | H : SFail _ _ = R |- _ => discriminate H
    | H : SStuck _ = R |- _ => discriminate H
    | H : SUnmod _ = R |- _ => discriminate H
    | H : SRet _ _ _ = R |- _ => discriminate H || (injection H as <- <- <-)
    | H : SCall _ _ _ _ _ _ _ = R |- _ => discriminate H
    | H : SJump _ _ _ _ = R |- _ => discriminate H || (injection H as <- <- <- <-)
    | H : context [match ?x with _ => _ end] |- _ => destruct x eqn:?
    end.
  Ltac eqbs :=
    repeat match goal with
    | H : (_ =? _) = true |- _ => apply Z.eqb_eq in H
    | H : (_ || _) = true |- _ => apply orb_true_iff in H; destruct H
    end.

  Definition jump_ok (i : instr) (d : Z) : Prop :=
    ((icode i = c_Jump \/ icode i = c_JumpFalse \/ icode i = c_JumpTrue \/ icode i = c_And \/ icode i = c_Or) /\ d = iA i) \/
    (icode i = c_Range /\ d = iB i) \/ (icode i = c_Iter /\ d = iC i) \/
    (icode i = c_Func /\ d = func_len i).

  Lemma step1_jump : forall codes pc i sl ops s d sl' ops' s',
    step1 codes pc i sl ops s = SJump d sl' ops' s' -> jump_ok i d.
  Proof.
    intros codes pc i sl ops s d sl' ops' s'. unfold VM.step1, slift.
    brk (SJump d sl' ops' s'); eqbs; unfold jump_ok; try tauto.
    all: right; right; right; split; [assumption|]; unfold func_len;
      match goal with H : splitParams _ = _ |- _ => rewrite H end; reflexivity.
  Qed.

  Lemma step1_ret : forall codes pc i sl ops s sl' ops' s',
    step1 codes pc i sl ops s = SRet sl' ops' s' -> icode i = c_Return.
  Proof.
    intros codes pc i sl ops s sl' ops' s'. unfold VM.step1, slift.
    brk (SRet sl' ops' s'); eqbs; assumption.
  Qed.

  Ltac notfunc :=
    let E := fresh "E" in
    intro E; rewrite E in *;
    repeat match goal with
    | H : ?T |- _ => match T with context [c_Func] => vm_compute in H; (discriminate H || clear H) end
    end.

  Lemma step1_next_notfunc : forall codes pc i sl ops s sl' ops' s',
    step1 codes pc i sl ops s = SNext sl' ops' s' -> icode i <> c_Func.
  Proof.
    intros codes pc i sl ops s sl' ops' s'. unfold VM.step1, slift.
    brk (SNext sl' ops' s'); notfunc.
  Qed.

  Lemma step1_call_notfunc : forall codes pc i sl ops s pack fa xa xr sl' ops' s',
    step1 codes pc i sl ops s = SCall pack fa xa xr sl' ops' s' -> icode i <> c_Func.
  Proof.
    intros codes pc i sl ops s pack fa xa xr sl' ops' s'. unfold VM.step1, slift.
    brk (SCall pack fa xa xr sl' ops' s'); notfunc.
  Qed.

  (* step1 looks at the code only to read the types and body that follow a FUNC *)
  Lemma step1_codes : forall codes codes' pc pc' i sl ops s,
    (icode i = c_Func ->
       firstn (Z.to_nat (func_len i)) (skipn (Z.to_nat (pc + 1)) codes) =
       firstn (Z.to_nat (func_len i)) (skipn (Z.to_nat (pc' + 1)) codes')) ->
    step1 codes pc i sl ops s = step1 codes' pc' i sl ops s.
  Proof.
    intros codes codes' pc pc' i sl ops s H. unfold VM.step1.
    destruct (icode i =? c_Func) eqn:E.
    - apply Z.eqb_eq in E. specialize (H E). unfold func_len in H.
      destruct (splitParams (iA i)) as [a r] eqn:Es. cbv zeta. rewrite H. reflexivity.
    - reflexivity.
  Qed.
End Exec.
