(* C08: the "~"-renaming symbol table refines Go's block scoping.

   Main theorem c08_refine: for every well-bracketed sequence of Begin / End / Declare / Resolve on valid
   names (not empty, not starting with "~"), started inside a function body (one open block), the
   implementation model gives exactly the answers of the specification: every declaration gets the slot
   the specification assigns, every name occurrence resolves to the innermost enclosing declaration, and
   to "not a local" (None) when there is none -- at any nesting depth, for any order of declarations.

   Structure: (1) tilde-chain / association-list lemmas, characterisation of shadow and unshadow on a
   chain; (2) the simulation invariant R and the steps Begin / Resolve / Declare; (3) End (the Drop loop);
   (4) runs: c08_sim, c08_refine, c08_reachable_R; (5) the renaming budget: c08_budget. *)
From Coq Require Import ZArith List String Ascii Bool Lia PeanoNat.
From GV Require Import Model.Lookup.
Import ListNotations.
Open Scope string_scope.

(* ---------- strings: tilde chains ---------- *)
Fixpoint tildes (i : nat) (k : string) : string :=
  match i with O => k | S i' => tilde (tildes i' k) end.

Lemma tildes_tilde : forall i k, tildes i (tilde k) = tilde (tildes i k).
Proof. induction i as [|i IH]; intros k; simpl; [reflexivity | rewrite IH; reflexivity]. Qed.

Lemma tildes_length : forall i k, String.length (tildes i k) = i + String.length k.
Proof. induction i as [|i IH]; intros k; simpl; [reflexivity | rewrite IH; reflexivity]. Qed.

Lemma tildes_inj_idx : forall i j k, tildes i k = tildes j k -> i = j.
Proof.
  intros i j k H. apply (f_equal String.length) in H. rewrite !tildes_length in H. lia.
Qed.

Lemma valid_not_tilde : forall x k, valid_name x = true -> x <> tilde k.
Proof.
  intros x k Hv He. subst x. simpl in Hv. discriminate.
Qed.

Lemma valid_nonempty : forall x, valid_name x = true -> x <> "".
Proof. intros x Hv He. subst x. simpl in Hv. discriminate. Qed.

Lemma tilde_inj : forall a b, tilde a = tilde b -> a = b.
Proof. intros a b H. unfold tilde in H. congruence. Qed.

Lemma tildes_decomp : forall i j x y, valid_name x = true -> valid_name y = true ->
  tildes i x = tildes j y -> i = j /\ x = y.
Proof.
  induction i as [|i IH]; intros j x y Hx Hy H; destruct j as [|j]; simpl in H.
  - split; [reflexivity|exact H].
  - exfalso. exact (valid_not_tilde _ _ Hx H).
  - exfalso. symmetry in H. exact (valid_not_tilde _ _ Hy H).
  - apply tilde_inj in H. destruct (IH j x y Hx Hy H) as [E1 E2]. split; congruence.
Qed.

(* ---------- association lists ---------- *)
Lemma kget_kdel : forall k k' m, kget k (kdel k' m) = if String.eqb k k' then None else kget k m.
Proof.
  intros k k' m. induction m as [|[k0 n0] r IH]; simpl.
  - destruct (String.eqb k k'); reflexivity.
  - destruct (String.eqb k' k0) eqn:E1.
    + apply String.eqb_eq in E1. subst k0. rewrite IH. destruct (String.eqb k k'); reflexivity.
    + simpl. rewrite IH. destruct (String.eqb k k') eqn:E2.
      * apply String.eqb_eq in E2. subst k'. rewrite E1. reflexivity.
      * reflexivity.
Qed.

Lemma kget_kset : forall k k' n m, kget k (kset k' n m) = if String.eqb k k' then Some n else kget k m.
Proof.
  intros k k' n m. unfold kset. simpl. rewrite kget_kdel. destruct (String.eqb k k'); reflexivity.
Qed.

Lemma kget_kdel_same : forall k m, kget k (kdel k m) = None.
Proof. intros. rewrite kget_kdel, String.eqb_refl. reflexivity. Qed.
Lemma kget_kdel_other : forall k k' m, k <> k' -> kget k (kdel k' m) = kget k m.
Proof. intros k k' m H. rewrite kget_kdel. apply String.eqb_neq in H. rewrite H. reflexivity. Qed.
Lemma kget_kset_same : forall k n m, kget k (kset k n m) = Some n.
Proof. intros. rewrite kget_kset, String.eqb_refl. reflexivity. Qed.
Lemma kget_kset_other : forall k k' n m, k <> k' -> kget k (kset k' n m) = kget k m.
Proof. intros k k' n m H. rewrite kget_kset. apply String.eqb_neq in H. rewrite H. reflexivity. Qed.

Lemma kdel_length_le : forall k m, List.length (kdel k m) <= List.length m.
Proof.
  intros k m. induction m as [|[k0 n0] r IH]; simpl; [lia|].
  destruct (String.eqb k k0); simpl; lia.
Qed.
Lemma kdel_length_lt : forall k m, kget k m <> None -> List.length (kdel k m) < List.length m.
Proof.
  intros k m. induction m as [|[k0 n0] r IH]; simpl; intros H.
  - congruence.
  - destruct (String.eqb k k0); simpl.
    + pose proof (kdel_length_le k r). lia.
    + apply IH in H. lia.
Qed.

Lemma kget_In : forall k n m, kget k m = Some n -> In (k, n) m.
Proof.
  intros k n m. induction m as [|[k0 n0] r IH]; simpl; intros H; [discriminate|].
  destruct (String.eqb k k0) eqn:E.
  - apply String.eqb_eq in E. left. congruence.
  - right. auto.
Qed.

(* ---------- chains ---------- *)
Definition chain (m : list (string * nat)) (k : string) (c : nat) : Prop :=
  (forall i, i < c -> kget (tildes i k) m <> None) /\ kget (tildes c k) m = None.

Lemma chain_bound : forall c m k, (forall i, i < c -> kget (tildes i k) m <> None) -> c <= List.length m.
Proof.
  induction c as [|c IH]; intros m k H; [lia|].
  assert (Hc : c <= List.length (kdel (tildes c k) m)).
  { apply (IH _ k). intros i Hi. rewrite kget_kdel_other.
    - apply H. lia.
    - intros E. apply tildes_inj_idx in E. lia. }
  assert (Hl := kdel_length_lt (tildes c k) m (H c (Nat.lt_succ_diag_r c))). lia.
Qed.

Lemma chain_exists : forall m k, exists c, chain m k c.
Proof.
  intros m k.
  assert (H : forall n, (exists c, chain m k c) \/ (forall i, i < n -> kget (tildes i k) m <> None)).
  { induction n as [|n IH].
    - right. intros i Hi. lia.
    - destruct IH as [IH|IH]; [left; exact IH|].
      destruct (kget (tildes n k) m) eqn:E.
      + right. intros i Hi. destruct (Nat.eq_dec i n) as [->|Hn]; [congruence|]. apply IH. lia.
      + left. exists n. split; assumption. }
  destruct (H (S (List.length m))) as [Hc|Hc]; [exact Hc|].
  apply chain_bound in Hc. lia.
Qed.

Lemma chain_tilde : forall m k c, chain m k (S c) -> chain m (tilde k) c.
Proof.
  intros m k c [H1 H2]. split.
  - intros i Hi. rewrite tildes_tilde. apply (H1 (S i)). lia.
  - rewrite tildes_tilde. exact H2.
Qed.

(* ---------- shadow ---------- *)
Lemma shadow_S : forall f m k, shadow (S f) m k =
  match kget k m with Some n => kdel k (kset (tilde k) n (shadow f m (tilde k))) | None => m end.
Proof. reflexivity. Qed.
Lemma unshadow_S : forall f m k, unshadow (S f) m k =
  match kget (tilde k) m with Some n => unshadow f (kdel (tilde k) (kset k n m)) (tilde k) | None => m end.
Proof. reflexivity. Qed.
Lemma shadow_none : forall f m k, kget k m = None -> shadow f m k = m.
Proof. intros f m k H. destruct f; [reflexivity|]. rewrite shadow_S, H. reflexivity. Qed.
Lemma unshadow_none : forall f m k, kget (tilde k) m = None -> unshadow f m k = m.
Proof. intros f m k H. destruct f; [reflexivity|]. rewrite unshadow_S, H. reflexivity. Qed.
Lemma shadow_fuel : forall c f1 f2 m k, chain m k c -> c <= f1 -> c <= f2 -> shadow f1 m k = shadow f2 m k.
Proof.
  induction c as [|c IH]; intros f1 f2 m k Hch H1 H2.
  - destruct Hch as [_ Hn]. simpl in Hn. rewrite !shadow_none by exact Hn. reflexivity.
  - destruct f1 as [|f1]; [lia|]. destruct f2 as [|f2]; [lia|]. rewrite !shadow_S.
    destruct (kget k m) eqn:E; [|reflexivity].
    rewrite (IH f1 f2 m (tilde k)); [reflexivity| apply chain_tilde; exact Hch | lia | lia].
Qed.

Lemma shadow_get : forall c f m k, chain m k c -> c <= f ->
  (forall i, i < c -> kget (tildes (S i) k) (shadow f m k) = kget (tildes i k) m) /\
  kget k (shadow f m k) = None /\
  (forall k', (forall i, i <= c -> k' <> tildes i k) -> kget k' (shadow f m k) = kget k' m).
Proof.
  induction c as [|c IH]; intros f m k Hch Hf.
  - destruct Hch as [_ Hn]. simpl in Hn.
    assert (Hs : shadow f m k = m) by (apply shadow_none; exact Hn).
    rewrite Hs. split; [intros i Hi; lia|]. split; [exact Hn|]. intros; reflexivity.
  - destruct f as [|f]; [lia|]. rewrite shadow_S.
    assert (H0 : kget k m <> None) by (apply (proj1 Hch 0); lia).
    destruct (kget k m) as [n|] eqn:E; [|congruence]. clear H0.
    destruct (IH f m (tilde k) (chain_tilde _ _ _ Hch) ltac:(lia)) as (Ha & Hb & Hc).
    assert (Hneq : forall i, tildes (S i) k <> k).
    { intros i He. change k with (tildes 0 k) in He at 2. apply tildes_inj_idx in He. lia. }
    split; [|split].
    + intros i Hi. rewrite kget_kdel_other by apply Hneq.
      destruct i as [|i].
      * change (tildes 1 k) with (tilde k). rewrite kget_kset_same. simpl. congruence.
      * rewrite kget_kset_other.
        2:{ intros He. change (tilde k) with (tildes 1 k) in He. apply tildes_inj_idx in He. lia. }
        specialize (Ha i ltac:(lia)). rewrite !tildes_tilde in Ha. exact Ha.
    + apply kget_kdel_same.
    + intros k' Hk'.
      rewrite kget_kdel_other by (apply (Hk' 0); lia).
      rewrite kget_kset_other by (apply (Hk' 1); lia).
      apply Hc. intros i Hi. rewrite tildes_tilde. apply (Hk' (S i)). lia.
Qed.

(* ---------- unshadow ---------- *)
Lemma unshadow_step_chain : forall m k c n, chain m (tilde k) (S c) ->
  chain (kdel (tilde k) (kset k n m)) (tilde (tilde k)) c.
Proof.
  intros m k c n [H1 H2].
  assert (Hne1 : forall i, tildes i (tilde (tilde k)) <> tilde k).
  { intros i He. apply (f_equal String.length) in He. rewrite tildes_length in He. simpl in He. lia. }
  assert (Hne2 : forall i, tildes i (tilde (tilde k)) <> k).
  { intros i He. apply (f_equal String.length) in He. rewrite tildes_length in He. simpl in He. lia. }
  split.
  - intros i Hi. rewrite kget_kdel_other by apply Hne1. rewrite kget_kset_other by apply Hne2.
    rewrite tildes_tilde. apply (H1 (S i)). lia.
  - rewrite kget_kdel_other by apply Hne1. rewrite kget_kset_other by apply Hne2.
    rewrite tildes_tilde. exact H2.
Qed.

Lemma unshadow_fuel : forall c f1 f2 m k, chain m (tilde k) c -> c <= f1 -> c <= f2 ->
  unshadow f1 m k = unshadow f2 m k.
Proof.
  induction c as [|c IH]; intros f1 f2 m k Hch H1 H2.
  - destruct Hch as [_ Hn]. simpl in Hn. rewrite !unshadow_none by exact Hn. reflexivity.
  - destruct f1 as [|f1]; [lia|]. destruct f2 as [|f2]; [lia|]. rewrite !unshadow_S.
    destruct (kget (tilde k) m) as [n|] eqn:E; [|reflexivity].
    apply IH; [apply unshadow_step_chain; exact Hch | lia | lia].
Qed.

Lemma unshadow_get : forall c f m k, chain m (tilde k) c -> kget k m = None -> c <= f ->
  (forall i, i < c -> kget (tildes i k) (unshadow f m k) = kget (tildes (S i) k) m) /\
  kget (tildes c k) (unshadow f m k) = None /\
  (forall k', (forall i, i <= c -> k' <> tildes i k) -> kget k' (unshadow f m k) = kget k' m).
Proof.
  induction c as [|c IH]; intros f m k Hch Hk Hf.
  - destruct Hch as [_ Hn]. simpl in Hn.
    assert (Hs : unshadow f m k = m) by (apply unshadow_none; exact Hn).
    rewrite Hs. split; [intros i Hi; lia|]. split; [exact Hk|]. intros; reflexivity.
  - destruct f as [|f]; [lia|]. rewrite unshadow_S.
    assert (H0 : kget (tilde k) m <> None) by (apply (proj1 Hch 0); lia).
    destruct (kget (tilde k) m) as [n|] eqn:E; [|congruence]. clear H0.
    set (m' := kdel (tilde k) (kset k n m)).
    assert (Hk' : kget (tilde k) m' = None) by apply kget_kdel_same.
    destruct (IH f m' (tilde k) (unshadow_step_chain _ _ _ n Hch) Hk' ltac:(lia)) as (Ha & Hb & Hc).
    assert (Hlen : forall i j, i <> j -> tildes i k <> tildes j k).
    { intros i j Hij He. apply tildes_inj_idx in He. lia. }
    split; [|split].
    + intros i Hi. destruct i as [|i].
      * change (tildes 0 k) with k. change (tildes 1 k) with (tilde k). rewrite Hc.
        -- unfold m'. rewrite kget_kdel_other by (apply (Hlen 0 1); lia).
           rewrite kget_kset_same. congruence.
        -- intros i Hi'. rewrite tildes_tilde. apply (Hlen 0 (S i)). lia.
      * specialize (Ha i ltac:(lia)). rewrite !tildes_tilde in Ha. 
        change (tilde (tildes i k)) with (tildes (S i) k) in Ha. rewrite Ha.
        unfold m'. rewrite kget_kdel_other by (apply (Hlen (S (S i)) 1); lia).
        rewrite kget_kset_other by (apply (Hlen (S (S i)) 0); lia). reflexivity.
    + rewrite tildes_tilde in Hb. exact Hb.
    + intros k' Hk''. rewrite Hc.
      * unfold m'. rewrite kget_kdel_other by (apply (Hk'' 1); lia).
        rewrite kget_kset_other by (apply (Hk'' 0); lia). reflexivity.
      * intros i Hi. rewrite tildes_tilde. apply (Hk'' (S i)). lia.
Qed.
(* ---------- specification-side structure ---------- *)
Definition block := list (string * nat).

Fixpoint ids (x : string) (bs : list block) : list nat :=
  match bs with
  | [] => []
  | b :: r => match kget x b with Some n => n :: ids x r | None => ids x r end
  end.

Lemma ids_cons_same : forall k n b rest, ids k (((k, n) :: b) :: rest) = n :: ids k rest.
Proof. intros. simpl. rewrite String.eqb_refl. reflexivity. Qed.
Lemma ids_cons_other : forall y k n b rest, y <> k -> ids y (((k, n) :: b) :: rest) = ids y (b :: rest).
Proof. intros y k n b rest H. simpl. apply String.eqb_neq in H. rewrite H. reflexivity. Qed.
Lemma ids_cons_none : forall x b rest, kget x b = None -> ids x (b :: rest) = ids x rest.
Proof. intros x b rest H. simpl. rewrite H. reflexivity. Qed.
Lemma ids_cons_some : forall x b rest n, kget x b = Some n -> ids x (b :: rest) = n :: ids x rest.
Proof. intros x b rest n H. simpl. rewrite H. reflexivity. Qed.

Lemma s_find_ids : forall x bs, s_find x bs = nth_error (ids x bs) 0.
Proof.
  intros x bs. induction bs as [|b r IH]; simpl; [reflexivity|].
  destruct (kget x b); simpl; [reflexivity | exact IH].
Qed.

Fixpoint block_ok (a hi : nat) (b : block) : Prop :=
  match b with
  | [] => True
  | (x, n) :: b' => a <= n /\ n < hi /\ valid_name x = true /\ kget x b' = None /\ block_ok a n b'
  end.

Fixpoint blocks_ok (sc : list nat) (bs : list block) (hi : nat) : Prop :=
  match sc, bs with
  | [], [] => True
  | a :: sc', b :: bs' => a <= hi /\ block_ok a hi b /\ blocks_ok sc' bs' a
  | _, _ => False
  end.

Definition bound_in (x : string) (n : nat) (bs : list block) : Prop :=
  exists b, In b bs /\ In (x, n) b.

Lemma bound_in_cons : forall x n b bs, bound_in x n (b :: bs) <-> In (x, n) b \/ bound_in x n bs.
Proof.
  intros x n b bs. unfold bound_in. split.
  - intros (b0 & [Hb|Hb] & Hin); [subst b0; left; exact Hin | right; exists b0; split; assumption].
  - intros [Hin | (b0 & Hb & Hin)]; [exists b; split; [left; reflexivity | exact Hin] | exists b0; split; [right; exact Hb | exact Hin]].
Qed.

Lemma bound_in_nil : forall x n, ~ bound_in x n [].
Proof. intros x n (b0 & [] & _). Qed.

Lemma block_ok_weaken : forall a hi hi' b, block_ok a hi b -> hi <= hi' -> block_ok a hi' b.
Proof.
  intros a hi hi' b H Hle. destruct b as [|[x n] b']; simpl in *; [exact I|].
  destruct H as (H1 & H2 & H3 & H4 & H5). repeat split; try assumption; lia.
Qed.

Lemma block_ok_In : forall b a hi x n, block_ok a hi b -> In (x, n) b -> a <= n /\ n < hi /\ valid_name x = true.
Proof.
  induction b as [|[y m] b' IH]; intros a hi x n H Hin; simpl in *; [contradiction|].
  destruct H as (H1 & H2 & H3 & H4 & H5). destruct Hin as [He|Hin].
  - inversion He; subst. repeat split; assumption.
  - destruct (IH a m x n H5 Hin) as (I1 & I2 & I3). repeat split; try assumption; lia.
Qed.

Lemma block_ok_kget : forall b a hi x n, block_ok a hi b -> kget x b = Some n -> a <= n /\ n < hi.
Proof.
  intros b a hi x n H Hg. apply kget_In in Hg. destruct (block_ok_In _ _ _ _ _ H Hg) as (H1 & H2 & _). split; assumption.
Qed.

Lemma blocks_ok_weaken : forall sc bs hi hi', blocks_ok sc bs hi -> hi <= hi' -> blocks_ok sc bs hi'.
Proof.
  intros sc bs hi hi' H Hle. destruct sc as [|a sc'], bs as [|b bs']; simpl in *; try assumption.
  destruct H as (H1 & H2 & H3). repeat split; [lia | eapply block_ok_weaken; eassumption | assumption].
Qed.

Lemma blocks_ok_bound : forall sc bs hi x n, blocks_ok sc bs hi -> bound_in x n bs -> n < hi.
Proof.
  induction sc as [|a sc' IH]; intros bs hi x n H Hb; destruct bs as [|b bs']; simpl in H;
    try (exfalso; exact H); try (exfalso; exact (bound_in_nil _ _ Hb)).
  destruct H as (H1 & H2 & H3). apply bound_in_cons in Hb. destruct Hb as [Hb|Hb].
  - destruct (block_ok_In _ _ _ _ _ H2 Hb) as (_ & I2 & _). exact I2.
  - specialize (IH _ _ _ _ H3 Hb). lia.
Qed.

Lemma blocks_ok_ids : forall sc bs hi x n, blocks_ok sc bs hi -> In n (ids x bs) -> n < hi.
Proof.
  induction sc as [|a sc' IH]; intros bs hi x n H Hin; destruct bs as [|b bs']; simpl in H;
    try (exfalso; exact H); try (exfalso; exact Hin).
  destruct H as (H1 & H2 & H3). simpl in Hin. destruct (kget x b) as [nb|] eqn:E.
  - destruct Hin as [He|Hin].
    + subst nb. destruct (block_ok_kget _ _ _ _ _ H2 E). assumption.
    + specialize (IH _ _ _ _ H3 Hin). lia.
  - specialize (IH _ _ _ _ H3 Hin). lia.
Qed.

(* ---------- the simulation invariant ---------- *)
Definition Rcore (l : lookup) (bs : list block) : Prop :=
  (forall x, valid_name x = true -> forall i, kget (tildes i x) (k2i l) = nth_error (ids x bs) i) /\
  (forall x n, bound_in x n bs -> nth n (i2k l) "" = x) /\
  (forall n, (forall x, ~ bound_in x n bs) -> nth n (i2k l) "" = "").

Definition R (c : cscope) (e : senv) : Prop :=
  fresh e = llen (locals c) /\
  Rcore (locals c) (blocks e) /\
  blocks_ok (scope c) (blocks e) (fresh e).

Lemma R_init : R new_scope s_new.
Proof.
  unfold R, Rcore; simpl. repeat split.
  - intros x Hx i. destruct i; reflexivity.
  - intros x n Hb. exfalso. exact (bound_in_nil _ _ Hb).
  - intros n _. destruct n; reflexivity.
Qed.

Lemma Rcore_push_nil : forall l bs, Rcore l bs <-> Rcore l ([] :: bs).
Proof.
  intros l bs. unfold Rcore. split; intros (H1 & H2 & H3); repeat split.
  - intros x Hx i. simpl. apply H1; exact Hx.
  - intros x n Hb. apply H2. apply bound_in_cons in Hb. destruct Hb as [[]|Hb]. exact Hb.
  - intros n Hn. apply H3. intros x Hb. apply (Hn x). apply bound_in_cons. right. exact Hb.
  - intros x Hx i. apply (H1 x Hx i).
  - intros x n Hb. apply H2. apply bound_in_cons. right. exact Hb.
  - intros n Hn. apply H3. intros x Hb. apply bound_in_cons in Hb. destruct Hb as [[]|Hb]. exact (Hn x Hb).
Qed.

Lemma begin_sim : forall c e, R c e -> R (c_begin c) (s_begin e).
Proof.
  intros [l sc] [bs fr] (Hf & Hc & Hb). unfold R, c_begin, s_begin in *; simpl in *.
  split; [exact Hf|]. split; [apply (proj1 (Rcore_push_nil _ _)); exact Hc|].
  rewrite <- Hf. split; [lia|]. split; [exact I | exact Hb].
Qed.

Lemma resolve_sim : forall c e k, R c e -> valid_name k = true -> c_resolve c k = s_resolve e k.
Proof.
  intros [l sc] [bs fr] k (Hf & (H1 & _) & Hb) Hk. unfold c_resolve, s_resolve; simpl in *.
  rewrite s_find_ids. apply (H1 k Hk 0).
Qed.

(* a fresh declaration of k: the table after (optional) renaming has k's chain shifted by one *)
Lemma declare_new_R : forall l top sc b rest fr k m1 cap',
  fr = llen l ->
  Rcore l (b :: rest) ->
  blocks_ok (top :: sc) (b :: rest) fr ->
  valid_name k = true ->
  kget k b = None ->
  (forall i, kget (tildes (S i) k) m1 = nth_error (ids k rest) i) ->
  (forall y, valid_name y = true -> y <> k -> forall i, kget (tildes i y) m1 = kget (tildes i y) (k2i l)) ->
  R (mkScope (mkLookup (kset k (llen l) m1) (i2k l ++ [k]) cap') (top :: sc))
    (mkSenv (((k, fr) :: b) :: rest) (S fr)).
Proof.
  intros l top sc b rest fr k m1 cap' Hf (H1 & H2 & H3) Hb Hk Hkb Hsh Hoth.
  unfold R; cbn [locals scope blocks fresh]. split; [|split].
  - unfold llen; cbn [i2k]. rewrite app_length; simpl. unfold llen in Hf. lia.
  - unfold Rcore; cbn [k2i i2k]. split; [|split].
    + intros x Hx i. destruct (String.eqb x k) eqn:E.
      * apply String.eqb_eq in E. subst x. rewrite ids_cons_same. destruct i as [|i].
        -- change (tildes 0 k) with k. rewrite kget_kset_same. subst fr. reflexivity.
        -- rewrite kget_kset_other.
           2:{ intros He. change k with (tildes 0 k) in He at 2. apply tildes_inj_idx in He. lia. }
           rewrite Hsh. reflexivity.
      * assert (Hne : x <> k) by (apply String.eqb_neq; exact E).
        rewrite kget_kset_other.
        2:{ intros He. change k with (tildes 0 k) in He. destruct (tildes_decomp _ _ _ _ Hx Hk He) as [_ He']. contradiction. }
        rewrite (Hoth x Hx Hne i). rewrite (H1 x Hx i). rewrite (ids_cons_other _ _ _ _ _ Hne). reflexivity.
    + intros x n Hbi. apply bound_in_cons in Hbi. destruct Hbi as [[He|Hin]|Hbi].
      * inversion He; subst. unfold llen. rewrite app_nth2 by lia. rewrite Nat.sub_diag. reflexivity.
      * assert (Hbi : bound_in x n (b :: rest)) by (apply bound_in_cons; left; exact Hin).
        assert (Hlt := blocks_ok_bound _ _ _ _ _ Hb Hbi). rewrite app_nth1 by (unfold llen in Hf; lia).
        apply H2; exact Hbi.
      * assert (Hbi' : bound_in x n (b :: rest)) by (apply bound_in_cons; right; exact Hbi).
        assert (Hlt := blocks_ok_bound _ _ _ _ _ Hb Hbi'). rewrite app_nth1 by (unfold llen in Hf; lia).
        apply H2; exact Hbi'.
    + intros n Hn.
      assert (Hn' : forall x, ~ bound_in x n (b :: rest)).
      { intros x Hbi. apply (Hn x). apply bound_in_cons. apply bound_in_cons in Hbi.
        destruct Hbi as [Hin|Hbi]; [left; right; exact Hin | right; exact Hbi]. }
      assert (Hnk : n <> llen l).
      { intros He. apply (Hn k). apply bound_in_cons. left. left. subst. reflexivity. }
      destruct (Nat.lt_ge_cases n (llen l)) as [Hlt|Hge].
      * rewrite app_nth1 by exact Hlt. apply H3; exact Hn'.
      * apply nth_overflow. rewrite app_length; simpl. unfold llen in *. lia.
  - simpl in Hb. destruct Hb as (Hb1 & Hb2 & Hb3). split; [lia|]. split; [|exact Hb3].
    repeat split; try assumption; lia.
Qed.

Lemma nth_error_zero_none : forall (l : list nat), nth_error l 0 = None -> l = [].
Proof. intros [|a l] H; [reflexivity | discriminate]. Qed.

Lemma declare_sim : forall c e k, R c e -> valid_name k = true -> 0 < List.length (blocks e) ->
  snd (c_declare c k) = snd (s_declare e k) /\ R (fst (c_declare c k)) (fst (s_declare e k)).
Proof.
  intros [l sc] [bs fr] k HR Hk Hd.
  destruct bs as [|b rest]; [simpl in Hd; lia|].
  destruct sc as [|top sc']; [destruct HR as (_ & _ & Hb); simpl in Hb; contradiction|].
  assert (HR' := HR). destruct HR' as (Hf & Hc & Hb). cbn [locals scope blocks fresh] in Hf, Hc, Hb.
  assert (Hc' := Hc). destruct Hc' as (H1 & H2 & H3).
  assert (Hb' := Hb). cbn [blocks_ok] in Hb'. destruct Hb' as (Hb1 & Hb2 & Hb3).
  unfold c_declare, s_declare. cbn [locals scope blocks fresh hd].
  assert (H0 := H1 k Hk 0). change (tildes 0 k) with k in H0.
  destruct (kget k b) as [nb|] eqn:Ekb.
  - (* already declared in the innermost block: same slot *)
    rewrite (ids_cons_some _ _ _ _ Ekb) in H0. simpl in H0. rewrite H0.
    destruct (block_ok_kget _ _ _ _ _ Hb2 Ekb) as [Hge Hlt].
    assert (Hltb : Nat.ltb nb top = false) by (apply Nat.ltb_ge; exact Hge).
    rewrite Hltb. unfold index. rewrite H0. simpl. split; [reflexivity | exact HR].
  - rewrite (ids_cons_none _ _ _ Ekb) in H0.
    assert (Hshift0 : forall i, kget (tildes i k) (k2i l) = nth_error (ids k rest) i).
    { intros i. rewrite (H1 k Hk i). rewrite (ids_cons_none _ _ _ Ekb). reflexivity. }
    destruct (kget k (k2i l)) as [n|] eqn:Ekl.
    + (* bound in an outer block: rename the chain, then bind *)
      assert (Hn : n < top).
      { apply (blocks_ok_ids _ _ _ k n Hb3). eapply nth_error_In. symmetry. exact H0. }
      assert (Hltb : Nat.ltb n top = true) by (apply Nat.ltb_lt; exact Hn).
      rewrite Hltb. unfold lshadow.
      set (c := List.length (ids k rest)).
      assert (Hch : chain (k2i l) k c).
      { split.
        - intros i Hi. rewrite Hshift0. apply nth_error_Some. exact Hi.
        - rewrite Hshift0. apply nth_error_None. unfold c. lia. }
      assert (Hfuel : c <= chain_fuel (k2i l)).
      { unfold chain_fuel. assert (Hcb := chain_bound c (k2i l) k (proj1 Hch)). lia. }
      destruct (shadow_get c _ _ _ Hch Hfuel) as (Sa & Sb & Sc).
      set (m1 := shadow (chain_fuel (k2i l)) (k2i l) k) in *.
      unfold index. cbn [k2i i2k lcap]. rewrite Sb. cbn [fst snd].
      split; [unfold llen; cbn [i2k]; symmetry; exact Hf|].
      apply (declare_new_R l top sc' b rest fr k m1); try assumption.
      * intros i. destruct (Nat.lt_ge_cases i c) as [Hi|Hi].
        -- rewrite (Sa i Hi). apply Hshift0.
        -- rewrite Sc.
           ++ rewrite Hshift0. transitivity (@None nat).
              ** apply nth_error_None. fold c. lia.
              ** symmetry. apply nth_error_None. fold c. lia.
           ++ intros j Hj He. apply tildes_inj_idx in He. lia.
      * intros y Hy Hne i. apply Sc. intros j Hj He.
        destruct (tildes_decomp _ _ _ _ Hy Hk He) as [_ He']. contradiction.
    + (* unbound: plain Index *)
      unfold index. rewrite Ekl. cbn [fst snd].
      split; [symmetry; exact Hf|].
      apply (declare_new_R l top sc' b rest fr k (k2i l)); try assumption.
      * intros i. rewrite Hshift0. symmetry in H0. apply nth_error_zero_none in H0. rewrite H0.
        destruct i; reflexivity.
      * intros; reflexivity.
Qed.

(* ---------- End / drop ---------- *)
Lemma set_nth_length : forall l n v, List.length (set_nth l n v) = List.length l.
Proof.
  induction l as [|a l IH]; intros n v; simpl; [reflexivity|].
  destruct n; simpl; [reflexivity | rewrite IH; reflexivity].
Qed.
Lemma nth_set_nth_same : forall l n v, nth n (set_nth l n v) v = v.
Proof.
  induction l as [|a l IH]; intros n v; simpl.
  - destruct n; reflexivity.
  - destruct n; simpl; [reflexivity | apply IH].
Qed.
Lemma nth_set_nth_other : forall l n k v d, k <> n -> nth k (set_nth l n v) d = nth k l d.
Proof.
  induction l as [|a l IH]; intros n k v d H; simpl; [reflexivity|].
  destruct n as [|n]; destruct k as [|k]; simpl; try reflexivity; try lia.
  apply IH. lia.
Qed.

Lemma drop_loop_S : forall t i l,
  drop_loop (S t) i l =
  drop_loop t (S i)
    (if String.eqb (nth (llen l - i) (i2k l) "") "" then l
     else mkLookup (unshadow (chain_fuel (kdel (nth (llen l - i) (i2k l) "") (k2i l)))
                             (kdel (nth (llen l - i) (i2k l) "") (k2i l))
                             (nth (llen l - i) (i2k l) ""))
                   (set_nth (i2k l) (llen l - i) "") (lcap l)).
Proof. reflexivity. Qed.

Lemma drop_live_Rcore : forall l x n b' rest top sc,
  Rcore l (((x, n) :: b') :: rest) ->
  block_ok top (S n) ((x, n) :: b') ->
  blocks_ok sc rest top ->
  Rcore (mkLookup (unshadow (chain_fuel (kdel x (k2i l))) (kdel x (k2i l)) x)
                  (set_nth (i2k l) n "") (lcap l))
        (b' :: rest).
Proof.
  intros l x n b' rest top sc (H1 & H2 & H3) Hbo Hrest.
  cbn [block_ok] in Hbo. destruct Hbo as (Hge & _ & Hx & Hxb & Hb').
  set (m1 := kdel x (k2i l)).
  set (L := ids x rest).
  assert (HidsL : ids x (b' :: rest) = L) by (apply ids_cons_none; exact Hxb).
  assert (Hneq : forall i j, i <> j -> tildes i x <> tildes j x).
  { intros i j Hij He. apply tildes_inj_idx in He. lia. }
  assert (Hm1 : forall i, kget (tildes (S i) x) m1 = nth_error L i).
  { intros i. unfold m1. rewrite kget_kdel_other by (apply (Hneq (S i) 0); lia).
    rewrite (H1 x Hx (S i)). rewrite ids_cons_same. reflexivity. }
  assert (Hch : chain m1 (tilde x) (List.length L)).
  { split.
    - intros i Hi. rewrite tildes_tilde. change (tilde (tildes i x)) with (tildes (S i) x).
      rewrite Hm1. apply nth_error_Some. exact Hi.
    - rewrite tildes_tilde. change (tilde (tildes (List.length L) x)) with (tildes (S (List.length L)) x).
      rewrite Hm1. apply nth_error_None. lia. }
  assert (Hfuel : List.length L <= chain_fuel m1).
  { unfold chain_fuel. assert (Hcb := chain_bound _ _ _ (proj1 Hch)). lia. }
  assert (Hx1 : kget x m1 = None) by apply kget_kdel_same.
  destruct (unshadow_get _ _ _ _ Hch Hx1 Hfuel) as (Ua & Ub & Uc).
  unfold Rcore; cbn [k2i i2k]. split; [|split].
  - intros y Hy i. destruct (String.eqb y x) eqn:E.
    + apply String.eqb_eq in E. subst y. rewrite HidsL.
      destruct (Nat.lt_trichotomy i (List.length L)) as [Hi|[Hi|Hi]].
      * rewrite (Ua i Hi). apply Hm1.
      * subst i. rewrite Ub. symmetry. apply nth_error_None. lia.
      * rewrite Uc by (intros j Hj; apply Hneq; lia).
        destruct i as [|i]; [lia|]. rewrite Hm1.
        transitivity (@None nat); [apply nth_error_None; lia | symmetry; apply nth_error_None; lia].
    + assert (Hne : y <> x) by (apply String.eqb_neq; exact E).
      assert (Hd : forall j, tildes i y <> tildes j x).
      { intros j He. destruct (tildes_decomp _ _ _ _ Hy Hx He) as [_ He']. contradiction. }
      rewrite Uc by (intros j _; apply Hd).
      unfold m1. rewrite kget_kdel_other by (apply (Hd 0)).
      rewrite (H1 y Hy i). rewrite (ids_cons_other _ _ _ _ _ Hne). reflexivity.
  - intros y k Hbi.
    assert (Hbi' : bound_in y k (((x, n) :: b') :: rest)).
    { apply bound_in_cons. apply bound_in_cons in Hbi. destruct Hbi as [Hin|Hbi]; [left; right; exact Hin | right; exact Hbi]. }
    assert (Hkn : k <> n).
    { apply bound_in_cons in Hbi. destruct Hbi as [Hin|Hbi].
      - destruct (block_ok_In _ _ _ _ _ Hb' Hin) as (_ & Hlt & _). lia.
      - assert (Hlt := blocks_ok_bound _ _ _ _ _ Hrest Hbi). lia. }
    rewrite nth_set_nth_other by exact Hkn. apply H2. exact Hbi'.
  - intros k Hk. destruct (Nat.eq_dec k n) as [->|Hkn].
    + apply nth_set_nth_same.
    + rewrite nth_set_nth_other by exact Hkn. apply H3. intros y Hbi.
      apply bound_in_cons in Hbi. destruct Hbi as [[He|Hin]|Hbi].
      * inversion He. lia.
      * apply (Hk y). apply bound_in_cons. left. exact Hin.
      * apply (Hk y). apply bound_in_cons. right. exact Hbi.
Qed.

Lemma drop_loop_inv : forall top sc rest t i l b,
  Rcore l (b :: rest) -> block_ok top (top + t) b -> blocks_ok sc rest top ->
  llen l + 1 = top + t + i ->
  Rcore (drop_loop t i l) ([] :: rest) /\ llen (drop_loop t i l) = llen l.
Proof.
  intros top sc rest. induction t as [|t IH]; intros i l b Hc Hbo Hrest Hlen.
  - simpl. destruct b as [|[x m] b'].
    + split; [exact Hc | reflexivity].
    + cbn [block_ok] in Hbo. lia.
  - rewrite drop_loop_S.
    assert (Hn : llen l - i = top + t) by lia. rewrite Hn.
    assert (Hc' := Hc). destruct Hc' as (H1 & H2 & H3).
    assert (Hrest_not : forall y, ~ bound_in y (top + t) rest).
    { intros y Hbi. assert (Hlt := blocks_ok_bound _ _ _ _ _ Hrest Hbi). lia. }
    assert (Hskip : (forall y, ~ In (y, top + t) b) -> block_ok top (top + t) b ->
                    Rcore (drop_loop t (S i) (if String.eqb (nth (top + t) (i2k l) "") "" then l
                      else mkLookup (unshadow (chain_fuel (kdel (nth (top + t) (i2k l) "") (k2i l)))
                             (kdel (nth (top + t) (i2k l) "") (k2i l)) (nth (top + t) (i2k l) ""))
                             (set_nth (i2k l) (top + t) "") (lcap l))) ([] :: rest) /\
                    llen (drop_loop t (S i) (if String.eqb (nth (top + t) (i2k l) "") "" then l
                      else mkLookup (unshadow (chain_fuel (kdel (nth (top + t) (i2k l) "") (k2i l)))
                             (kdel (nth (top + t) (i2k l) "") (k2i l)) (nth (top + t) (i2k l) ""))
                             (set_nth (i2k l) (top + t) "") (lcap l))) = llen l).
    { intros Hnot Hbo'.
      assert (Hempty : nth (top + t) (i2k l) "" = "").
      { apply H3. intros y Hbi. apply bound_in_cons in Hbi. destruct Hbi as [Hin|Hbi];
          [exact (Hnot y Hin) | exact (Hrest_not y Hbi)]. }
      rewrite Hempty. change (String.eqb "" "") with true. cbv iota.
      apply (IH (S i) l b Hc Hbo' Hrest). lia. }
    destruct b as [|[x m] b'].
    + apply Hskip; [intros y [] | exact I].
    + assert (Hbo' := Hbo). cbn [block_ok] in Hbo'. destruct Hbo' as (Hge & Hlt & Hx & Hxb & Hb').
      destruct (Nat.eq_dec m (top + t)) as [Hm|Hm].
      * subst m.
        assert (Hkey : nth (top + t) (i2k l) "" = x).
        { apply H2. apply bound_in_cons. left. left. reflexivity. }
        rewrite Hkey.
        assert (Hxe : String.eqb x "" = false) by (apply String.eqb_neq; apply valid_nonempty; exact Hx).
        rewrite Hxe.
        assert (Hlive : Rcore (mkLookup (unshadow (chain_fuel (kdel x (k2i l))) (kdel x (k2i l)) x)
                  (set_nth (i2k l) (top + t) "") (lcap l)) (b' :: rest)).
        { apply (drop_live_Rcore l x (top + t) b' rest top sc Hc); [|exact Hrest].
          cbn [block_ok]. repeat split; try assumption; lia. }
        destruct (IH (S i) _ b' Hlive Hb' Hrest) as [I1 I2].
        { unfold llen; cbn [i2k]. rewrite set_nth_length. unfold llen in Hlen. lia. }
        split; [exact I1|]. rewrite I2. unfold llen; cbn [i2k]. apply set_nth_length.
      * assert (Hbo2 : block_ok top (top + t) ((x, m) :: b')).
        { cbn [block_ok]. repeat split; try assumption; lia. }
        apply Hskip; [|exact Hbo2].
        intros y Hin. destruct (block_ok_In _ _ _ _ _ Hbo2 Hin) as (_ & Hlt' & _). lia.
Qed.

Lemma end_sim : forall c e, R c e -> 0 < List.length (blocks e) -> R (c_end c) (s_end e).
Proof.
  intros [l sc] [bs fr] HR Hd.
  destruct bs as [|b rest]; [simpl in Hd; lia|].
  destruct sc as [|top sc']; [destruct HR as (_ & _ & Hb); simpl in Hb; contradiction|].
  destruct HR as (Hf & Hc & Hb). cbn [locals scope blocks fresh] in Hf, Hc, Hb.
  cbn [blocks_ok] in Hb. destruct Hb as (Hb1 & Hb2 & Hb3).
  unfold c_end, s_end, drop. cbn [locals scope blocks fresh hd tl].
  destruct (drop_loop_inv top sc' rest (llen l - top) 1 l b Hc) as [D1 D2].
  - replace (top + (llen l - top)) with fr by lia. exact Hb2.
  - exact Hb3.
  - lia.
  - unfold R. cbn [locals scope blocks fresh]. split; [|split].
    + rewrite D2. exact Hf.
    + apply (proj2 (Rcore_push_nil _ _)). exact D1.
    + apply (blocks_ok_weaken _ _ top); [exact Hb3 | exact Hb1].
Qed.

(* ---------- steps and runs ---------- *)
Fixpoint c_exec (c : cscope) (os : list sop) : cscope :=
  match os with [] => c | o :: r => c_exec (fst (c_step c o)) r end.
Fixpoint s_exec (e : senv) (os : list sop) : senv :=
  match os with [] => e | o :: r => s_exec (fst (s_step e o)) r end.

Lemma c_run_cons : forall c o os, c_run c (o :: os) = snd (c_step c o) :: c_run (fst (c_step c o)) os.
Proof. intros c o os. simpl. destruct (c_step c o); reflexivity. Qed.
Lemma s_run_cons : forall e o os, s_run e (o :: os) = snd (s_step e o) :: s_run (fst (s_step e o)) os.
Proof. intros e o os. simpl. destruct (s_step e o); reflexivity. Qed.

Lemma s_declare_depth : forall e k, List.length (blocks (fst (s_declare e k))) = List.length (blocks e).
Proof.
  intros [bs fr] k. unfold s_declare. cbn [blocks fresh]. destruct bs as [|b rest]; [reflexivity|].
  destruct (kget k b); reflexivity.
Qed.

(* one step: same answer, invariant preserved, remaining sequence well formed at the new depth *)
Lemma step_sim : forall c e o os, R c e -> well_formed (List.length (blocks e)) (o :: os) = true ->
  snd (c_step c o) = snd (s_step e o) /\
  R (fst (c_step c o)) (fst (s_step e o)) /\
  well_formed (List.length (blocks (fst (s_step e o)))) os = true.
Proof.
  intros c e o os HR Hwf. destruct o as [| |k|k|k]; cbn [well_formed] in Hwf.
  - cbn [c_step s_step fst snd]. split; [reflexivity|]. split; [apply begin_sim; exact HR | exact Hwf].
  - destruct (List.length (blocks e)) as [|d] eqn:Ed; [discriminate|].
    cbn [c_step s_step fst snd]. split; [reflexivity|]. split; [apply end_sim; [exact HR | lia]|].
    destruct e as [bs fr]; cbn [s_end blocks tl] in *. destruct bs as [|b rest]; simpl in Ed; [discriminate|].
    cbn [tl]. injection Ed as Ed. rewrite Ed. exact Hwf.
  - apply andb_prop in Hwf. destruct Hwf as [Hwf Hwf3]. apply andb_prop in Hwf. destruct Hwf as [Hk Hd].
    apply Nat.ltb_lt in Hd.
    destruct (declare_sim c e k HR Hk Hd) as [Hans HR'].
    assert (Hlen := s_declare_depth e k).
    cbn [c_step s_step].
    destruct (c_declare c k) as [c' n]. destruct (s_declare e k) as [e' n'].
    cbn [fst snd] in *. subst n'. split; [reflexivity|]. split; [exact HR'|]. rewrite Hlen. exact Hwf3.
  - apply andb_prop in Hwf. destruct Hwf as [Hk Hwf].
    cbn [c_step s_step fst snd]. rewrite (resolve_sim c e k HR Hk).
    split; [reflexivity|]. split; assumption.
  - discriminate.
Qed.

Theorem c08_sim : forall os c e, R c e -> well_formed (List.length (blocks e)) os = true ->
  c_run c os = s_run e os /\ R (c_exec c os) (s_exec e os).
Proof.
  induction os as [|o os IH]; intros c e HR Hwf.
  - split; [reflexivity | exact HR].
  - destruct (step_sim c e o os HR Hwf) as (Hans & HR' & Hwf').
    destruct (IH _ _ HR' Hwf') as [I1 I2].
    split; [|exact I2]. rewrite c_run_cons, s_run_cons, Hans, I1. reflexivity.
Qed.

Lemma R_start : R (c_begin new_scope) (s_begin s_new).
Proof. apply begin_sim. exact R_init. Qed.

Theorem c08_refine : forall os, well_formed 1 os = true ->
  c_run (c_begin new_scope) os = s_run (s_begin s_new) os.
Proof.
  intros os Hwf. exact (proj1 (c08_sim os _ _ R_start Hwf)).
Qed.

(* every reachable implementation state is related to the specification state reached by the same operations *)
Theorem c08_reachable_R : forall os, well_formed 1 os = true ->
  R (c_exec (c_begin new_scope) os) (s_exec (s_begin s_new) os).
Proof.
  intros os Hwf. exact (proj2 (c08_sim os _ _ R_start Hwf)).
Qed.

(* ---------- the renaming budget ---------- *)
(* The chain k, ~k, ~~k, ... of bound keys consists of pairwise distinct keys of m, hence is no longer than
   m: any fuel >= the chain length gives the same result.  This holds for every table and key, in
   particular for the intermediate tables inside Drop (after delete(m, key)). *)
Theorem shadow_budget_any : forall m k f, chain_fuel m <= f -> shadow f m k = shadow (chain_fuel m) m k.
Proof.
  intros m k f Hf. destruct (chain_exists m k) as [c Hch].
  assert (Hc := chain_bound c m k (proj1 Hch)). unfold chain_fuel in *.
  apply (shadow_fuel c); [exact Hch | lia | lia].
Qed.

Theorem unshadow_budget_any : forall m k f, chain_fuel m <= f -> unshadow f m k = unshadow (chain_fuel m) m k.
Proof.
  intros m k f Hf. destruct (chain_exists m (tilde k)) as [c Hch].
  assert (Hc := chain_bound c m (tilde k) (proj1 Hch)). unfold chain_fuel in *.
  apply (unshadow_fuel c); [exact Hch | lia | lia].
Qed.

Definition reachable (c : cscope) : Prop :=
  exists os, well_formed 1 os = true /\ c = c_exec (c_begin new_scope) os.

Theorem c08_budget : forall c, reachable c ->
  forall k f, chain_fuel (k2i (locals c)) <= f ->
    shadow f (k2i (locals c)) k = shadow (chain_fuel (k2i (locals c))) (k2i (locals c)) k /\
    unshadow f (k2i (locals c)) k = unshadow (chain_fuel (k2i (locals c))) (k2i (locals c)) k /\
    (* and for the table on which Drop calls unshadow, i.e. after delete(m, key) *)
    (forall key f', chain_fuel (kdel key (k2i (locals c))) <= f' ->
       unshadow f' (kdel key (k2i (locals c))) key =
       unshadow (chain_fuel (kdel key (k2i (locals c)))) (kdel key (k2i (locals c))) key).
Proof.
  intros c _ k f Hf. split; [apply shadow_budget_any; exact Hf|].
  split; [apply unshadow_budget_any; exact Hf|].
  intros key f' Hf'. apply unshadow_budget_any; exact Hf'.
Qed.

(* sharper, invariant-based form: on a reachable table the renaming chain of a valid name x is exactly
   as long as the number of live declarations of x, and the recursion stops on a missing key (not on
   fuel exhaustion) after that many steps *)
Theorem c08_budget_chain : forall c e x, R c e -> valid_name x = true ->
  chain (k2i (locals c)) x (List.length (ids x (blocks e))) /\
  List.length (ids x (blocks e)) < chain_fuel (k2i (locals c)).
Proof.
  intros c e x (_ & (H1 & _) & _) Hx.
  assert (Hch : chain (k2i (locals c)) x (List.length (ids x (blocks e)))).
  { split.
    - intros i Hi. rewrite (H1 x Hx i). apply nth_error_Some. exact Hi.
    - rewrite (H1 x Hx _). apply nth_error_None. lia. }
  split; [exact Hch|]. assert (Hb := chain_bound _ _ _ (proj1 Hch)). unfold chain_fuel. lia.
Qed.
