(* C07: code accepted by the static checker Model/StackCheck.v never reaches below the operands
   of its frame in the VM model (Model/VM.v), in this frame or in any callee frame; every exit
   leaves exactly the static exit depth; a call pops its arguments and pushes its results. *)
From Coq Require Import ZArith List String Bool Lia ZifyBool.
From GV Require Import GoSpec.GoPrim Gen.ValueOps_gen Gen.Tables_gen Model.VM Model.StackCheck.
Import ListNotations.
Open Scope Z_scope.

(* ---- lists --------------------------------------------------------------------------------- *)

Lemma zlen_nil {A} : zlen (@nil A) = 0. Proof. reflexivity. Qed.
Lemma zlen_cons {A} (x : A) l : zlen (x :: l) = zlen l + 1.
Proof. unfold zlen. cbn [List.length]. lia. Qed.
Lemma zlen_nonneg {A} (l : list A) : 0 <= zlen l. Proof. unfold zlen. lia. Qed.
Lemma zlen_app {A} (a b : list A) : zlen (a ++ b) = zlen a + zlen b.
Proof. unfold zlen. rewrite app_length. lia. Qed.
Lemma nset_length {A} (l : list A) n v : List.length (nset l n v) = List.length l.
Proof. revert n; induction l; intros [|n]; cbn; auto. Qed.
Lemma zlen_zset {A} (l : list A) n v : zlen (zset l n v) = zlen l.
Proof. unfold zset, zlen. destruct (n <? 0); [reflexivity|]. now rewrite nset_length. Qed.
Lemma znth_Some {A} (l : list A) n x : znth l n = Some x -> 0 <= n < zlen l.
Proof.
  unfold znth, zlen. destruct (n <? 0) eqn:E; [discriminate|]. intro H.
  assert (Z.to_nat n < List.length l)%nat by (apply nth_error_Some; congruence). lia.
Qed.
Lemma znth_lt {A} (l : list A) n : 0 <= n < zlen l -> exists x, znth l n = Some x.
Proof.
  unfold znth, zlen. intro H. destruct (n <? 0) eqn:E; [lia|].
  destruct (nth_error l (Z.to_nat n)) eqn:N; [eauto|]. apply nth_error_None in N. lia.
Qed.
Lemma znth_None {A} (l : list A) n : 0 <= n -> znth l n = None -> zlen l <= n.
Proof.
  unfold znth, zlen. intros H. destruct (n <? 0) eqn:E; [lia|]. intro N. apply nth_error_None in N. lia.
Qed.

Lemma zlen_firstn {A} n (l : list A) : zlen (firstn n l) = Z.min (Z.of_nat n) (zlen l).
Proof. unfold zlen. rewrite firstn_length. lia. Qed.
Lemma zlen_skipn {A} n (l : list A) : zlen (skipn n l) = Z.max 0 (zlen l - Z.of_nat n).
Proof. unfold zlen. rewrite skipn_length. lia. Qed.
Lemma zlen_map {A B} (f : A -> B) l : zlen (map f l) = zlen l.
Proof. unfold zlen. now rewrite map_length. Qed.

Section PopN.
  Lemma popn_some n : forall ops acc a rest, popn n ops acc = Some (a, rest) ->
    rest = skipn n ops /\ zlen rest = zlen ops - Z.of_nat n /\ zlen a = zlen acc + Z.of_nat n.
  Proof.
    induction n; intros ops acc a rest H; cbn in H.
    - inversion H; subst. cbn. repeat split; lia.
    - destruct ops as [|x r]; [discriminate|]. apply IHn in H. destruct H as (-> & H2 & H3).
      cbn [skipn]. rewrite zlen_cons in *. repeat split; lia.
  Qed.
  Lemma popn_none n : forall ops acc, popn n ops acc = None -> zlen ops < Z.of_nat n.
  Proof.
    induction n; intros ops acc H; cbn in H; [discriminate|].
    destruct ops as [|x r]; [rewrite zlen_nil; lia|]. apply IHn in H. rewrite zlen_cons. lia.
  Qed.
End PopN.

Lemma verify_from_spec chk : forall l pc0, verify_from chk pc0 l = true ->
  forall k i, nth_error l k = Some i -> chk (pc0 + Z.of_nat k) i = true.
Proof.
  induction l as [|x l IH]; intros pc0 H k i N; [destruct k; discriminate|].
  cbn in H. apply andb_true_iff in H. destruct H as [H1 H2]. destruct k as [|k]; cbn in N.
  - inversion N; subst. replace (pc0 + Z.of_nat 0) with pc0 by lia. exact H1.
  - replace (pc0 + Z.of_nat (S k)) with (pc0 + 1 + Z.of_nat k) by lia. eapply IH; eauto.
Qed.

(* ---- the state invariant ------------------------------------------------------------------- *)

Section Inv.
  Variable ng : Z.

  Local Notation obj_ok := (obj_ok ng).
  Local Notation heap_ok := (heap_ok ng).
  Local Notation st_ok := (st_ok ng).

  Lemma heap_ok_app h o : heap_ok h -> obj_ok o -> heap_ok (h ++ [o]).
  Proof. intros. apply Forall_app; split; auto. Qed.
  Lemma heap_ok_nset h : forall n o, heap_ok h -> obj_ok o -> heap_ok (nset h n o).
  Proof.
    induction h; intros n o H Ho; destruct n; cbn; auto; inversion H; subst; constructor; auto.
    apply IHh; auto.
  Qed.
  Lemma heap_ok_zset h n o : heap_ok h -> obj_ok o -> heap_ok (zset h n o).
  Proof. intros. unfold zset. destruct (n <? 0); auto. apply heap_ok_nset; auto. Qed.
  Lemma heap_ok_get s a o : st_ok s -> hget s a = Some o -> obj_ok o.
  Proof.
    intros [_ H] G. unfold hget, znth in G. destruct (a <? 0); [discriminate|].
    apply nth_error_In in G. eapply Forall_forall in H; eauto.
  Qed.

  Lemma st_ok_alloc s o : st_ok s -> obj_ok o -> st_ok (fst (alloc s o)).
  Proof. intros [H1 H2] Ho. unfold alloc; split; cbn [fst globals heap]; auto. apply heap_ok_app; auto. Qed.
  Lemma st_ok_hset s a o : st_ok s -> obj_ok o -> st_ok (hset s a o).
  Proof. intros [H1 H2] Ho. unfold hset; split; cbn [globals heap]; auto. apply heap_ok_zset; auto. Qed.
  Lemma st_ok_set_global s i v : st_ok s -> st_ok (set_global s i v).
  Proof. intros [H1 H2]. unfold set_global; split; cbn [globals heap]; auto. rewrite zlen_zset; auto. Qed.
  Lemma st_ok_new_slice s e cells : st_ok s -> st_ok (fst (new_slice s e cells)).
  Proof.
    intros H. unfold new_slice.
    pose proof (st_ok_alloc s (HArr cells) H I) as H1. destruct (alloc s (HArr cells)) as [s1 arr]. cbn [fst] in H1.
    pose proof (st_ok_alloc s1 (HSlice e arr 0 (zlen cells) (zlen cells)) H1 I) as H2.
    destruct (alloc s1 _) as [s2 h]. exact H2.
  Qed.
  Lemma st_ok_variadic_arg s vtype n vargs : st_ok s -> st_ok (fst (variadic_arg s vtype n vargs)).
  Proof.
    intros H. unfold variadic_arg. destruct (n =? 0); [exact H|]. apply st_ok_new_slice; exact H.
  Qed.
  Lemma st_ok_emit s b : st_ok s -> st_ok (emit s b). Proof. intros [? ?]; split; auto. Qed.
  Lemma st_ok_push_bt s p : st_ok s -> st_ok (push_bt s p). Proof. intros [? ?]; split; auto. Qed.
  Lemma st_ok_pop_bt s : st_ok s -> st_ok (pop_bt s). Proof. intros [? ?]; split; auto. Qed.
End Inv.

(* ---- one instruction ------------------------------------------------------------------------ *)

(* evaluate the opcode tests between constants (after the opcode of the instruction is known) *)
Ltac eval_tests :=
  repeat match goal with
  | |- context[Z.eqb ?a ?b] => is_const a; is_const b; let v := eval vm_compute in (Z.eqb a b) in change (Z.eqb a b) with v
  | |- context[Z.ltb ?a 0] => is_const a; let v := eval vm_compute in (Z.ltb a 0) in change (Z.ltb a 0) with v
  end; cbn [orb andb negb].
Ltac eval_tests_in H :=
  repeat match type of H with
  | context[Z.eqb ?a ?b] => is_const a; is_const b; let v := eval vm_compute in (Z.eqb a b) in change (Z.eqb a b) with v in H
  | context[Z.ltb ?a 0] => is_const a; let v := eval vm_compute in (Z.ltb a 0) in change (Z.ltb a 0) with v in H
  end; cbn [orb andb negb] in H.

Section Step.
  Variable grow : Z -> Z -> Z.
  Variable ext_get : st -> value -> value -> option (res value).
  Variable ext_set : st -> value -> value -> value -> option (res st).
  Variable ext_len : st -> value -> option Z.
  Variable ext_getattr : st -> value -> Z -> option (res (value * st)).
  Variable ext_setattr : st -> value -> Z -> value -> option (res st).
  Variable ng : Z.
  (* objects outside the modelled fragment keep the invariant: they neither drop globals nor
     forge function objects with unchecked bodies *)
  Hypothesis ext_set_ok : forall s r k v s', st_ok ng s -> ext_set s r k v = Some (Ok s') -> st_ok ng s'.
  Hypothesis ext_getattr_ok : forall s r k v s', st_ok ng s -> ext_getattr s r k = Some (Ok (v, s')) -> st_ok ng s'.
  Hypothesis ext_setattr_ok : forall s r k v s', st_ok ng s -> ext_setattr s r k v = Some (Ok s') -> st_ok ng s'.

  Notation step1 := (VM.step1 grow ext_get ext_set ext_len ext_getattr ext_setattr).

  Variable chk_body : Z -> Z -> list instr -> bool.
  Hypothesis chk_body_sound : forall ns nr b, chk_body ns nr b = true -> exists fuel, check_code_f fuel ng ns (Some nr) b = true.
  Variables (ns : Z) (final : option Z) (codes : list instr) (m : dmap).

  Definition at_depth (pc d : Z) : Prop := 0 <= pc <= zlen codes /\ 0 <= d /\ dget m pc = Some d.

  Lemma tgt_ok_spec pc d : tgt_ok (zlen codes) m pc d = true -> at_depth pc d.
  Proof.
    unfold tgt_ok, at_depth. intro H. destruct (dget m pc) as [x|]; [|rewrite andb_false_r in H; discriminate].
    assert (x = d) by lia. subst. repeat split; try lia. 
  Qed.
  Lemma at_depth_eq pc d d' : at_depth pc d -> d = d' -> at_depth pc d'.
  Proof. intros H <-. exact H. Qed.

  Definition step_post (pc : Z) (i : instr) (d0 : Z) (r : sres) : Prop :=
    match r with
    | SNext sl ops s => zlen sl = ns /\ st_ok ng s /\ at_depth (pc + 1) (zlen ops)
    | SJump dl sl ops s => zlen sl = ns /\ st_ok ng s /\ at_depth (pc + dl + 1) (zlen ops)
    | SCall pack fa xa xr sl ops s =>
        zlen sl = ns /\ st_ok ng s /\ 0 <= xa <= zlen ops /\ 0 <= xr /\ at_depth (pc + 1) (zlen ops - xa + xr)
    | SRet sl ops s => zlen sl = ns /\ st_ok ng s /\ icode i = c_Return /\ zlen ops = d0 /\ final_ok final (zlen ops) = true
    | SStuck w => heap_reason w
    | SFail _ _ => True
    | SUnmod _ => True
    end.

  Lemma slift_post pc i d0 r s k : (forall v, step_post pc i d0 (k v)) -> step_post pc i d0 (slift r s k).
  Proof. intro H. destruct r; cbn; auto. Qed.

  Lemma refs1 n x l : refs_ok n (x :: l) = true -> 0 <= x < n /\ refs_ok n l = true.
  Proof. unfold refs_ok. cbn [forallb]. lia. Qed.
  Lemma slot_some (slots : list value) x : zlen slots = ns -> 0 <= x < ns -> exists v, znth slots x = Some v.
  Proof. intros. apply znth_lt. lia. Qed.

  (* Value.Set on the modelled containers only rewrites a backing array *)
  Lemma obj_set_ok s0 r k v s' : st_ok ng s0 -> obj_set ext_set s0 r k v = inl (Ok s') -> st_ok ng s'.
  Proof.
    intros Hs H. unfold obj_set in H.
    destruct (is_slice_tag (vt r)).
    - destruct (slice_parts s0 r) as [[[[[e arr] off] len] cap]|]; [|discriminate].
      destruct ((0 <=? Value_Int k) && (Value_Int k <? len)); [|discriminate].
      inversion H; subst. apply st_ok_hset; auto. exact I.
    - destruct (ext_set s0 r k v) as [[s1| |]|] eqn:X; try discriminate. inversion H; subst. eapply ext_set_ok; eauto.
  Qed.

  Variables (pc : Z) (i : instr) (slots ops : list value) (s : st).
  Hypothesis Hslots : zlen slots = ns.
  Hypothesis Hst : st_ok ng s.

  Ltac open_step_ev E := unfold VM.step1; rewrite E; unfold bin_of, local_bin_of; eval_tests.
  Ltac open_lazy := lazy beta iota delta [Z.eqb Z.ltb Z.compare Pos.eqb Pos.compare Pos.compare_cont orb negb c_Add c_And c_Append c_BitAnd c_BitComplement c_BitLsh c_BitOr c_BitRsh c_BitXor c_Call c_CallVariadic c_Cast c_Const c_Convert c_Copy c_Div c_Eq c_FastCall c_FastGetInt c_FastSetInt c_Func c_Get c_GlobalFunc c_GlobalGet c_GlobalRef c_GlobalSet c_GlobalZero c_Gt c_Gte c_IncDec c_Iter c_Jump c_JumpFalse c_JumpTrue c_Len c_LocalAdd c_LocalDiv c_LocalGet c_LocalIncDec c_LocalMul c_LocalSet c_LocalSub c_LocalZero c_Lt c_Lte c_Make c_Mod c_Mul c_Negate c_Neq c_NewSlice c_Not c_Or c_Panic c_Pass c_Pop c_Push c_Range c_Return c_Set c_Slice c_Sub c_Zero c_FastGet c_FastSet c_GetAttr c_SetAttr c_FastGetAttr c_FastSetAttr c_FastCallAttr c_NewMap c_GetOk c_Delete c_Struct c_GlobalStruct c_NewStruct c_SetMethod].
  Ltac open_step E := unfold VM.step1; rewrite E; unfold bin_of, local_bin_of; open_lazy.
  Ltac refs_open E Hs Hg :=
    unfold slot_refs, is_localbin in Hs; rewrite E in Hs; eval_tests_in Hs;
    unfold global_refs in Hg; rewrite E in Hg; eval_tests_in Hg.
  Ltac refs_split :=
    repeat match goal with
    | H : refs_ok _ (_ :: _) = true |- _ => apply refs1 in H; let H' := fresh H in destruct H as [H' H]
    end.
  Ltac refs E Hs Hg := refs_open E Hs Hg; refs_split.
  Ltac bools H := repeat match goal with
    | X : (_ && _) = true |- _ => let X1 := fresh X in apply andb_true_iff in X; destruct X as [X X1]
    end;
    repeat match goal with X : tgt_ok _ _ _ _ = true |- _ => apply tgt_ok_spec in X end.

  Ltac stok := first [ assumption | apply st_ok_set_global; stok | apply st_ok_hset; [stok | first [exact I | eapply heap_ok_get; [|eassumption]; stok]]
                     | eapply obj_set_ok; [|eassumption]; stok
                     | eapply ext_set_ok; [|eassumption]; stok
                     | eapply ext_getattr_ok; [|eassumption]; stok
                     | eapply ext_setattr_ok; [|eassumption]; stok ].

  (* facts about the states produced by allocation *)
  Ltac states :=
    repeat match goal with
    | X : alloc ?s0 ?o = (?s1, _) |- _ =>
        lazymatch goal with
        | _ : st_ok ng s1 |- _ => fail
        | _ => let K := fresh "K" in
               assert (K : st_ok ng s1) by (let Y := fresh in pose proof (st_ok_alloc ng s0 o) as Y; rewrite X in Y; apply Y; [stok | repeat match goal with |- context[match ?x with _ => _ end] => destruct x end; exact I])
        end
    | X : new_slice ?s0 ?e ?c = (?s1, _) |- _ =>
        lazymatch goal with
        | _ : st_ok ng s1 |- _ => fail
        | _ => let K := fresh "K" in
               assert (K : st_ok ng s1) by (let Y := fresh in pose proof (st_ok_new_slice ng s0 e c) as Y; rewrite X in Y; apply Y; stok)
        end
    end.

  Ltac lens := rewrite ?zlen_cons, ?zlen_nil, ?zlen_zset in *.

  Ltac depth_goal :=
    match goal with X : at_depth ?p _ |- at_depth ?p _ => apply (at_depth_eq _ _ _ X); lens; lia end.
  Ltac tail_goal :=
    lazymatch goal with
    | |- at_depth _ _ => depth_goal
    | |- final_ok _ _ = true => assumption
    | |- _ /\ _ => split; [lia | tail_goal]
    end.

  Ltac leaf :=
    cbn [step_post];
    repeat match goal with
    | X : popn _ _ _ = Some (_, _) |- _ => apply popn_some in X; destruct X as (_ & ? & ?)
    | X : popn _ _ _ = None |- _ => apply popn_none in X
    end;
    lazymatch goal with
    | |- True => exact I
    | |- heap_reason _ => first [ left; reflexivity | right; reflexivity | exfalso ]; lens;
        repeat match goal with
        | X : znth _ _ = None |- _ => apply znth_None in X; [|lia]
        end; unfold st_ok in *; lia
    | |- _ => states; lens; split; [lens; lia|]; split; [stok|]; tail_goal
    end.

  Ltac head_destruct :=
    lazymatch goal with
    | |- step_post _ _ _ (slift _ _ _) => apply slift_post; intro
    | |- step_post _ _ _ (match ?x with _ => _ end) => destruct x eqn:?
    | |- step_post _ _ _ (if ?x then _ else _) => destruct x eqn:?
    | |- step_post _ _ _ (let (_, _) := ?x in _) => destruct x eqn:?
    end.
  Ltac crush := repeat head_destruct; leaf.
  Ltac solve_op E Hs Hg He := refs E Hs Hg; bools He; open_step E; crush.

  Lemma step_sound :
    0 <= pc ->
    check_instr chk_body ng ns final codes (zlen codes) m pc i (zlen ops) = true ->
    step_post pc i (zlen ops) (step1 codes pc i slots ops s).
  Proof.
    intros Hpc H. unfold check_instr in H.
    apply andb_true_iff in H. destruct H as [H He]. apply andb_true_iff in H. destruct H as [Hs Hg].
    unfold effect in He. cbv zeta in He.
    destruct (icode i <? 0) eqn:Eneg; [discriminate|].
    destruct (icode i =? c_Pass) eqn:E; [apply Z.eqb_eq in E; cbn [orb] in He | cbn [orb] in He].
    { solve_op E Hs Hg He. }
    clear E. destruct (icode i =? c_Push) eqn:E; [apply Z.eqb_eq in E; cbn [orb] in He | cbn [orb] in He].
    { solve_op E Hs Hg He. }
    clear E. destruct (icode i =? c_GlobalRef) eqn:E; [apply Z.eqb_eq in E; cbn [orb] in He | cbn [orb] in He].
    { solve_op E Hs Hg He. }
    clear E. destruct (icode i =? c_Zero) eqn:E; [apply Z.eqb_eq in E; cbn [orb] in He | cbn [orb] in He].
    { solve_op E Hs Hg He. }
    clear E. destruct (icode i =? c_Pop) eqn:E; [apply Z.eqb_eq in E; cbn [orb] in He | cbn [orb] in He].
    { solve_op E Hs Hg He. }
    unfold is_binop in He.
    clear E. destruct (icode i =? c_Add) eqn:E; [apply Z.eqb_eq in E; cbn [orb] in He | cbn [orb] in He].
    { solve_op E Hs Hg He. }
    clear E. destruct (icode i =? c_Sub) eqn:E; [apply Z.eqb_eq in E; cbn [orb] in He | cbn [orb] in He].
    { solve_op E Hs Hg He. }
    clear E. destruct (icode i =? c_Mul) eqn:E; [apply Z.eqb_eq in E; cbn [orb] in He | cbn [orb] in He].
    { solve_op E Hs Hg He. }
    clear E. destruct (icode i =? c_Div) eqn:E; [apply Z.eqb_eq in E; cbn [orb] in He | cbn [orb] in He].
    { solve_op E Hs Hg He. }
    clear E. destruct (icode i =? c_Mod) eqn:E; [apply Z.eqb_eq in E; cbn [orb] in He | cbn [orb] in He].
    { solve_op E Hs Hg He. }
    clear E. destruct (icode i =? c_Lt) eqn:E; [apply Z.eqb_eq in E; cbn [orb] in He | cbn [orb] in He].
    { solve_op E Hs Hg He. }
    clear E. destruct (icode i =? c_Gt) eqn:E; [apply Z.eqb_eq in E; cbn [orb] in He | cbn [orb] in He].
    { solve_op E Hs Hg He. }
    clear E. destruct (icode i =? c_Lte) eqn:E; [apply Z.eqb_eq in E; cbn [orb] in He | cbn [orb] in He].
    { solve_op E Hs Hg He. }
    clear E. destruct (icode i =? c_Gte) eqn:E; [apply Z.eqb_eq in E; cbn [orb] in He | cbn [orb] in He].
    { solve_op E Hs Hg He. }
    clear E. destruct (icode i =? c_Eq) eqn:E; [apply Z.eqb_eq in E; cbn [orb] in He | cbn [orb] in He].
    { solve_op E Hs Hg He. }
    clear E. destruct (icode i =? c_Neq) eqn:E; [apply Z.eqb_eq in E; cbn [orb] in He | cbn [orb] in He].
    { solve_op E Hs Hg He. }
    clear E. destruct (icode i =? c_BitAnd) eqn:E; [apply Z.eqb_eq in E; cbn [orb] in He | cbn [orb] in He].
    { solve_op E Hs Hg He. }
    clear E. destruct (icode i =? c_BitOr) eqn:E; [apply Z.eqb_eq in E; cbn [orb] in He | cbn [orb] in He].
    { solve_op E Hs Hg He. }
    clear E. destruct (icode i =? c_BitXor) eqn:E; [apply Z.eqb_eq in E; cbn [orb] in He | cbn [orb] in He].
    { solve_op E Hs Hg He. }
    clear E. destruct (icode i =? c_BitLsh) eqn:E; [apply Z.eqb_eq in E; cbn [orb] in He | cbn [orb] in He].
    { solve_op E Hs Hg He. }
    clear E. destruct (icode i =? c_BitRsh) eqn:E; [apply Z.eqb_eq in E; cbn [orb] in He | cbn [orb] in He].
    { solve_op E Hs Hg He. }
    unfold is_localbin in He.
    clear E. destruct (icode i =? c_LocalAdd) eqn:E; [apply Z.eqb_eq in E; cbn [orb] in He | cbn [orb] in He].
    { solve_op E Hs Hg He. }
    clear E. destruct (icode i =? c_LocalSub) eqn:E; [apply Z.eqb_eq in E; cbn [orb] in He | cbn [orb] in He].
    { solve_op E Hs Hg He. }
    clear E. destruct (icode i =? c_LocalMul) eqn:E; [apply Z.eqb_eq in E; cbn [orb] in He | cbn [orb] in He].
    { solve_op E Hs Hg He. }
    clear E. destruct (icode i =? c_LocalDiv) eqn:E; [apply Z.eqb_eq in E; cbn [orb] in He | cbn [orb] in He].
    { solve_op E Hs Hg He. }
    unfold is_unop in He.
    clear E. destruct (icode i =? c_IncDec) eqn:E; [apply Z.eqb_eq in E; cbn [orb] in He | cbn [orb] in He].
    { solve_op E Hs Hg He. }
    clear E. destruct (icode i =? c_Convert) eqn:E; [apply Z.eqb_eq in E; cbn [orb] in He | cbn [orb] in He].
    { solve_op E Hs Hg He. }
    clear E. destruct (icode i =? c_Cast) eqn:E; [apply Z.eqb_eq in E; cbn [orb] in He | cbn [orb] in He].
    { solve_op E Hs Hg He. }
    clear E. destruct (icode i =? c_Negate) eqn:E; [apply Z.eqb_eq in E; cbn [orb] in He | cbn [orb] in He].
    { solve_op E Hs Hg He. }
    clear E. destruct (icode i =? c_BitComplement) eqn:E; [apply Z.eqb_eq in E; cbn [orb] in He | cbn [orb] in He].
    { solve_op E Hs Hg He. }
    clear E. destruct (icode i =? c_Not) eqn:E; [apply Z.eqb_eq in E; cbn [orb] in He | cbn [orb] in He].
    { solve_op E Hs Hg He. }
    clear E. destruct (icode i =? c_Len) eqn:E; [apply Z.eqb_eq in E; cbn [orb] in He | cbn [orb] in He].
    { solve_op E Hs Hg He. }
    clear E. destruct (icode i =? c_Make) eqn:E; [apply Z.eqb_eq in E; cbn [orb] in He | cbn [orb] in He].
    { solve_op E Hs Hg He. }
    clear E. destruct (icode i =? c_GetAttr) eqn:E; [apply Z.eqb_eq in E; cbn [orb] in He | cbn [orb] in He].
    { solve_op E Hs Hg He. }
    clear E. destruct (icode i =? c_LocalIncDec) eqn:E; [apply Z.eqb_eq in E; cbn [orb] in He | cbn [orb] in He].
    { solve_op E Hs Hg He. }
    clear E. destruct (icode i =? c_And) eqn:E; [apply Z.eqb_eq in E; cbn [orb] in He | cbn [orb] in He].
    { solve_op E Hs Hg He. }
    clear E. destruct (icode i =? c_Or) eqn:E; [apply Z.eqb_eq in E; cbn [orb] in He | cbn [orb] in He].
    { solve_op E Hs Hg He. }
    clear E. destruct (icode i =? c_GlobalSet) eqn:E; [apply Z.eqb_eq in E; cbn [orb] in He | cbn [orb] in He].
    { solve_op E Hs Hg He. }
    clear E. destruct (icode i =? c_GlobalFunc) eqn:E; [apply Z.eqb_eq in E; cbn [orb] in He | cbn [orb] in He].
    { solve_op E Hs Hg He. }
    clear E. destruct (icode i =? c_LocalSet) eqn:E; [apply Z.eqb_eq in E; cbn [orb] in He | cbn [orb] in He].
    { solve_op E Hs Hg He. }
    clear E. destruct (icode i =? c_GlobalZero) eqn:E; [apply Z.eqb_eq in E; cbn [orb] in He | cbn [orb] in He].
    { solve_op E Hs Hg He. }
    clear E. destruct (icode i =? c_LocalZero) eqn:E; [apply Z.eqb_eq in E; cbn [orb] in He | cbn [orb] in He].
    { solve_op E Hs Hg He. }
    clear E. destruct (icode i =? c_GlobalGet) eqn:E; [apply Z.eqb_eq in E; cbn [orb] in He | cbn [orb] in He].
    { solve_op E Hs Hg He. }
    clear E. destruct (icode i =? c_Const) eqn:E; [apply Z.eqb_eq in E; cbn [orb] in He | cbn [orb] in He].
    { solve_op E Hs Hg He. }
    clear E. destruct (icode i =? c_LocalGet) eqn:E; [apply Z.eqb_eq in E; cbn [orb] in He | cbn [orb] in He].
    { solve_op E Hs Hg He. }
    clear E. destruct (icode i =? c_Return) eqn:E; [apply Z.eqb_eq in E; cbn [orb] in He | cbn [orb] in He].
    { solve_op E Hs Hg He. }
    clear E. destruct (icode i =? c_Jump) eqn:E; [apply Z.eqb_eq in E; cbn [orb] in He | cbn [orb] in He].
    { solve_op E Hs Hg He. }
    clear E. destruct (icode i =? c_JumpFalse) eqn:E; [apply Z.eqb_eq in E; cbn [orb] in He | cbn [orb] in He].
    { solve_op E Hs Hg He. }
    clear E. destruct (icode i =? c_JumpTrue) eqn:E; [apply Z.eqb_eq in E; cbn [orb] in He | cbn [orb] in He].
    { solve_op E Hs Hg He. }
    clear E. destruct (icode i =? c_Panic) eqn:E; [apply Z.eqb_eq in E; cbn [orb] in He | cbn [orb] in He].
    { solve_op E Hs Hg He. }
    clear E. destruct (icode i =? c_Func) eqn:E; [apply Z.eqb_eq in E; cbn [orb] in He | cbn [orb] in He].
    { destruct (splitParams (iA i)) as [args rets] eqn:Esp. cbv zeta in He. bools He.
      match goal with X : chk_body _ _ _ = true |- _ => apply chk_body_sound in X; destruct X as [fuel Hbody] end. unfold func_body in Hbody.
      open_step_ev E; rewrite Esp; cbv zeta.
      set (nargs := Z.abs args) in *. set (n := nargs + rets + iC i) in *.
      set (tokens := firstn (Z.to_nat n) (skipn (Z.to_nat (pc + 1)) codes)) in *.
      assert (Htok : zlen tokens = n).
      { subst tokens. rewrite zlen_firstn, zlen_skipn. lia. }
      destruct (zlen tokens <? n) eqn:EL; [lia|].
      match goal with |- context[alloc s ?o] =>
        assert (Ho : obj_ok ng o);
        [| pose proof (st_ok_alloc ng s o Hst Ho) as K; destruct (alloc s o) as [s1 a]; cbn [fst] in K ]
      end.
      { cbn [obj_ok]. repeat split; try lia.
        - rewrite zlen_map, zlen_firstn. lia.
        - eauto. }
      cbn [step_post]. split; [assumption|]. split; [assumption|].
      match goal with X : at_depth _ _ |- _ => apply (at_depth_eq _ _ _ X) end. rewrite zlen_cons. lia. }
    clear E. destruct (icode i =? c_Call) eqn:E; [apply Z.eqb_eq in E; cbn [orb] in He | cbn [orb] in He].
    { solve_op E Hs Hg He. }
    clear E. destruct (icode i =? c_CallVariadic) eqn:E; [apply Z.eqb_eq in E; cbn [orb] in He | cbn [orb] in He].
    { solve_op E Hs Hg He. }
    clear E. destruct (icode i =? c_FastCall) eqn:E; [apply Z.eqb_eq in E; cbn [orb] in He | cbn [orb] in He].
    { solve_op E Hs Hg He. }
    clear E. destruct (icode i =? c_FastCallAttr) eqn:E; [apply Z.eqb_eq in E; cbn [orb] in He | cbn [orb] in He].
    { destruct (splitParams (iC i)) as [c1 c2] eqn:Esp.
      refs E Hs Hg; bools He; open_step E; rewrite Esp; crush. }
    clear E. destruct (icode i =? c_Get) eqn:E; [apply Z.eqb_eq in E; cbn [orb] in He | cbn [orb] in He].
    { solve_op E Hs Hg He. }
    clear E. destruct (icode i =? c_Set) eqn:E; [apply Z.eqb_eq in E; cbn [orb] in He | cbn [orb] in He].
    { solve_op E Hs Hg He. }
    clear E. destruct (icode i =? c_FastGetInt) eqn:E; [apply Z.eqb_eq in E; cbn [orb] in He | cbn [orb] in He].
    { solve_op E Hs Hg He. }
    clear E. destruct (icode i =? c_FastGet) eqn:E; [apply Z.eqb_eq in E; cbn [orb] in He | cbn [orb] in He].
    { solve_op E Hs Hg He. }
    clear E. destruct (icode i =? c_FastGetAttr) eqn:E; [apply Z.eqb_eq in E; cbn [orb] in He | cbn [orb] in He].
    { solve_op E Hs Hg He. }
    clear E. destruct (icode i =? c_FastSetInt) eqn:E; [apply Z.eqb_eq in E; cbn [orb] in He | cbn [orb] in He].
    { solve_op E Hs Hg He. }
    clear E. destruct (icode i =? c_FastSet) eqn:E; [apply Z.eqb_eq in E; cbn [orb] in He | cbn [orb] in He].
    { solve_op E Hs Hg He. }
    clear E. destruct (icode i =? c_FastSetAttr) eqn:E; [apply Z.eqb_eq in E; cbn [orb] in He | cbn [orb] in He].
    { solve_op E Hs Hg He. }
    clear E. destruct (icode i =? c_SetAttr) eqn:E; [apply Z.eqb_eq in E; cbn [orb] in He | cbn [orb] in He].
    { solve_op E Hs Hg He. }
    clear E. destruct (icode i =? c_NewSlice) eqn:E; [apply Z.eqb_eq in E; cbn [orb] in He | cbn [orb] in He].
    { solve_op E Hs Hg He. }
    clear E. destruct (icode i =? c_Range) eqn:E; [apply Z.eqb_eq in E; cbn [orb] in He | cbn [orb] in He].
    { solve_op E Hs Hg He. }
    clear E. destruct (icode i =? c_Iter) eqn:E; [apply Z.eqb_eq in E; cbn [orb] in He | cbn [orb] in He].
    { destruct (splitParams (iB i)) as [b1 b2] eqn:Esp.
      refs_open E Hs Hg; rewrite Esp in Hs; refs_split; bools He; open_step E; rewrite Esp; crush. }
    clear E. destruct (icode i =? c_Slice) eqn:E; [apply Z.eqb_eq in E; cbn [orb] in He | cbn [orb] in He].
    { solve_op E Hs Hg He. }
    clear E. destruct (icode i =? c_Append) eqn:E; [apply Z.eqb_eq in E; cbn [orb] in He | cbn [orb] in He].
    { destruct (iA i <? 1) eqn:EA; [discriminate|]. solve_op E Hs Hg He. }
    clear E. destruct (icode i =? c_Copy) eqn:E; [apply Z.eqb_eq in E; cbn [orb] in He | cbn [orb] in He].
    { refs E Hs Hg; unfold VM.step1; rewrite E; unfold bin_of, local_bin_of; destruct (iB i =? 0) eqn:EB; bools He; open_lazy; crush. }
    clear E. destruct (icode i =? c_NewMap) eqn:E; [apply Z.eqb_eq in E; cbn [orb] in He | cbn [orb] in He].
    { solve_op E Hs Hg He. }
    clear E. destruct (icode i =? c_GetOk) eqn:E; [apply Z.eqb_eq in E; cbn [orb] in He | cbn [orb] in He].
    { solve_op E Hs Hg He. }
    clear E. destruct (icode i =? c_Delete) eqn:E; [apply Z.eqb_eq in E; cbn [orb] in He | cbn [orb] in He].
    { solve_op E Hs Hg He. }
    clear E. destruct (icode i =? c_Struct) eqn:E; [apply Z.eqb_eq in E; cbn [orb] in He | cbn [orb] in He].
    { solve_op E Hs Hg He. }
    clear E. destruct (icode i =? c_GlobalStruct) eqn:E; [apply Z.eqb_eq in E; cbn [orb] in He | cbn [orb] in He].
    { solve_op E Hs Hg He. }
    clear E. destruct (icode i =? c_NewStruct) eqn:E; [apply Z.eqb_eq in E; cbn [orb] in He | cbn [orb] in He].
    { solve_op E Hs Hg He. }
    clear E. destruct (icode i =? c_SetMethod) eqn:E; [apply Z.eqb_eq in E; cbn [orb] in He | cbn [orb] in He].
    { solve_op E Hs Hg He. }
    discriminate.
  Qed.
End Step.

