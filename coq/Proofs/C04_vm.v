(* How the GENERATED dispatch step (Gen/Steps_gen.v step_gen, translated from /repo/do.go on every run)
   uses the operator functions of Gen/ValueOps_gen.v: which function each opcode applies, to which
   operands, in which order, and where the result goes -- for every instruction, stack and state.
   The corollaries transfer the statements to the hand-written model step1 through steps_agree. *)
From Coq Require Import ZArith List String Ascii Bool Lia.
From GV Require Import GoSpec.GoPrim Gen.ValueOps_gen Gen.Tables_gen Model.VM Gen.Steps_gen Proofs.Steps_agree.
Import ListNotations.
Open Scope string_scope.
Open Scope Z_scope.

(* ---- tactics ------------------------------------------------------------------------------------ *)

(* the instruction's opcode is known ([H : icode i = C "codeX"]): select that case of step_gen.  Only the
   opcode lookup and the comparisons between opcode numbers are computed; no operator is unfolded. *)
Ltac pick_case i H :=
  destruct i as [? ? ? ? ?];
  cbn [icode iA iB iC ipos] in *;
  subst;
  cbv beta iota zeta delta [step_gen icode iA iB iC ipos C code_of opcodes
                            String.eqb Ascii.eqb Bool.eqb andb orb Z.eqb Pos.eqb].

Ltac by_case i H := pick_case i H; reflexivity.

(* ---- 1. two-operand opcodes --------------------------------------------------------------------- *)

Inductive binop :=
| BRes (f : value -> value -> res value)      (* may panic / be unmodelled: result through slift *)
| BPlain (f : value -> value -> value).

(* opcode, operands swapped?, operator *)
Definition vm_binops : list (string * bool * binop) :=
  [ ("codeAdd", false, BRes Value_opAdd);
    ("codeSub", false, BPlain Value_opSub);
    ("codeMul", false, BPlain Value_opMul);
    ("codeDiv", false, BRes Value_opDiv);
    ("codeMod", false, BRes Value_opMod);
    ("codeLt", false, BRes Value_opLt);
    ("codeGt", true, BRes Value_opLt);
    ("codeLte", false, BRes Value_opLte);
    ("codeGte", true, BRes Value_opLte);
    ("codeEq", false, BRes Value_opEq);
    ("codeNeq", false, BRes Value_opNeq);
    ("codeBitAnd", false, BPlain Value_opBitAnd);
    ("codeBitOr", false, BPlain Value_opBitOr);
    ("codeBitXor", false, BPlain Value_opBitXor);
    ("codeBitLsh", false, BRes Value_opBitLsh);
    ("codeBitRsh", false, BRes Value_opBitRsh) ].

(* a = LEFT operand (pushed first), b = RIGHT operand (top of the stack); both are popped, the result is pushed *)
Definition binop_result (sw : bool) (f : binop) (slots : list value) (a b : value) (rest : list value) (s : st) : sres :=
  let (x, y) := if sw then (b, a) else (a, b) in
  match f with
  | BRes g => slift (g x y) s (fun r => SNext slots (r :: rest) s)
  | BPlain g => SNext slots (g x y :: rest) s
  end.

Theorem vm_binop_step : forall name sw f, In (name, sw, f) vm_binops ->
  forall i slots a b rest s, icode i = C name ->
  step_gen i slots (b :: a :: rest) s = Some (binop_result sw f slots a b rest s).
Proof.
  intros name sw f Hin i slots a b rest s Hc.
  unfold vm_binops in Hin. cbv beta iota delta [In] in Hin.
  Time repeat (destruct Hin as [Hin | Hin];
          [ injection Hin as <- <- <-; unfold binop_result; by_case i Hc | ]).
  destruct Hin.
Time Qed.

(* every two-operand opcode of the translated subset is in the table: with fewer than two operands ... *)
Theorem vm_binop_under : forall name sw f, In (name, sw, f) vm_binops ->
  forall i slots ops s, icode i = C name -> (List.length ops < 2)%nat ->
  exists w, step_gen i slots ops s = Some (SStuck w).
Proof.
  intros name sw f Hin i slots ops s Hc Hl.
  assert (Hops : ops = [] \/ exists x, ops = [x]).
  { destruct ops as [|x [|y r]]; [ left; reflexivity | right; eexists; reflexivity | simpl in Hl; lia ]. }
  clear Hl.
  unfold vm_binops in Hin. cbv beta iota delta [In] in Hin.
  Time repeat (destruct Hin as [Hin | Hin];
          [ injection Hin as <- <- <-; destruct Hops as [-> | [x ->]]; pick_case i Hc; eexists; reflexivity | ]).
  destruct Hin.
Time Qed.

(* ---- 2. INCDEC ---------------------------------------------------------------------------------- *)

Theorem vm_incdec_step : forall i slots a rest s, icode i = C "codeIncDec" ->
  step_gen i slots (a :: rest) s =
  Some (slift (Value_incDec a (iA i)) s (fun r => SNext slots (r :: rest) s)).
Proof. intros i slots a rest s Hc. Time by_case i Hc. Time Qed.

(* ---- 3. one-operand opcodes --------------------------------------------------------------------- *)

Theorem vm_cast_step : forall i slots a rest s, icode i = C "codeCast" ->
  step_gen i slots (a :: rest) s = Some (SNext slots (Value_assign a (iA i) :: rest) s).
Proof. intros i slots a rest s Hc. by_case i Hc. Qed.

Theorem vm_convert_step : forall i slots a rest s, icode i = C "codeConvert" ->
  step_gen i slots (a :: rest) s =
  Some (slift (Value_convert a (iA i)) s (fun r => SNext slots (r :: rest) s)).
Proof. intros i slots a rest s Hc. by_case i Hc. Qed.

Theorem vm_negate_step : forall i slots a rest s, icode i = C "codeNegate" ->
  step_gen i slots (a :: rest) s =
  Some (SNext slots (Value_opMul a (fn_newUntypedInt (-1)) :: rest) s).
Proof. intros i slots a rest s Hc. by_case i Hc. Qed.

(* ^a : the operand is first detached from its named type (assign to TypeNil), the all-ones uint32 is
   converted to the operand's type, and the two are xor-ed *)
Theorem vm_complement_step : forall i slots a rest s, icode i = C "codeBitComplement" ->
  step_gen i slots (a :: rest) s =
  Some (let a' := Value_assign a TypeNil in
        slift (Value_convert (fn_Uint32 4294967295) (vt a')) s
              (fun m => SNext slots (Value_opBitXor a' m :: rest) s)).
Proof. intros i slots a rest s Hc. by_case i Hc. Qed.

Theorem vm_not_step : forall i slots a rest s, icode i = C "codeNot" ->
  step_gen i slots (a :: rest) s = Some (SNext slots (fn_Bool (negb (Value_Bool a)) :: rest) s).
Proof. intros i slots a rest s Hc. by_case i Hc. Qed.

(* ---- 4. stores, and operators on slots ---------------------------------------------------------- *)

(* LOCALSET: the popped operand is assigned at the type of the slot's current content *)
Theorem vm_localset_step : forall i slots a rest s l, icode i = C "codeLocalSet" ->
  znth slots (iA i) = Some l ->
  step_gen i slots (a :: rest) s =
  Some (SNext (zset slots (iA i) (Value_assign a (vt l))) rest s).
Proof.
  intros i slots a rest s l Hc Hz. pick_case i Hc. rewrite Hz. reflexivity.
Qed.

(* LOCALINCDEC: slot iA is incremented by iB in place; the operand stack is untouched *)
Theorem vm_localincdec_step : forall i slots ops s l, icode i = C "codeLocalIncDec" ->
  znth slots (iA i) = Some l ->
  step_gen i slots ops s =
  Some (slift (Value_incDec l (iB i)) s (fun r => SNext (zset slots (iA i) r) ops s)).
Proof.
  intros i slots ops s l Hc Hz. pick_case i Hc. rewrite Hz. reflexivity.
Qed.

(* GLOBALSET: the popped operand is assigned at the type of the global's current content *)
Theorem vm_globalset_step : forall i slots a rest s g, icode i = C "codeGlobalSet" ->
  znth (globals s) (iA i) = Some g ->
  step_gen i slots (a :: rest) s =
  Some (SNext slots rest (set_global s (iA i) (Value_assign a (vt g)))).
Proof.
  intros i slots a rest s g Hc Hz. pick_case i Hc. rewrite Hz. reflexivity.
Qed.

(* GLOBALZERO (a package-level `var x T`): a variable that already holds a non-nil value is left alone *)
Theorem vm_globalzero_step : forall i slots ops s g, icode i = C "codeGlobalZero" ->
  znth (globals s) (iA i) = Some g ->
  step_gen i slots ops s =
    Some (if Value_IsNil g then SNext slots ops (set_global s (iA i) (Value_assign (fn_newZero (iB i)) (vt g)))
          else SNext slots ops s).
Proof.
  intros i slots ops s g Hc Hz. pick_case i Hc. rewrite Hz. destruct (Value_IsNil g); reflexivity.
Qed.

(* LOCALADD / SUB / MUL / DIV: left operand = slot iA, right operand = slot iB, result pushed *)
Definition vm_local_binops : list (string * binop) :=
  [ ("codeLocalAdd", BRes Value_opAdd);
    ("codeLocalSub", BPlain Value_opSub);
    ("codeLocalMul", BPlain Value_opMul);
    ("codeLocalDiv", BRes Value_opDiv) ].

Theorem vm_localop_step : forall name f, In (name, f) vm_local_binops ->
  forall i slots ops s l1 l2, icode i = C name ->
  znth slots (iA i) = Some l1 -> znth slots (iB i) = Some l2 ->
  step_gen i slots ops s = Some (binop_result false f slots l1 l2 ops s).
Proof.
  intros name f Hin i slots ops s l1 l2 Hc H1 H2.
  unfold vm_local_binops in Hin. cbv beta iota delta [In] in Hin.
  repeat (destruct Hin as [Hin | Hin];
          [ injection Hin as <- <-; unfold binop_result; pick_case i Hc; rewrite H1, H2; reflexivity | ]).
  destruct Hin.
Qed.

Theorem vm_localadd_step : forall i slots ops s l1 l2, icode i = C "codeLocalAdd" ->
  znth slots (iA i) = Some l1 -> znth slots (iB i) = Some l2 ->
  step_gen i slots ops s = Some (slift (Value_opAdd l1 l2) s (fun r => SNext slots (r :: ops) s)).
Proof. intros. apply (vm_localop_step "codeLocalAdd" (BRes Value_opAdd)); auto. simpl; tauto. Qed.

Theorem vm_localsub_step : forall i slots ops s l1 l2, icode i = C "codeLocalSub" ->
  znth slots (iA i) = Some l1 -> znth slots (iB i) = Some l2 ->
  step_gen i slots ops s = Some (SNext slots (Value_opSub l1 l2 :: ops) s).
Proof. intros. apply (vm_localop_step "codeLocalSub" (BPlain Value_opSub)); auto. simpl; tauto. Qed.

Theorem vm_localmul_step : forall i slots ops s l1 l2, icode i = C "codeLocalMul" ->
  znth slots (iA i) = Some l1 -> znth slots (iB i) = Some l2 ->
  step_gen i slots ops s = Some (SNext slots (Value_opMul l1 l2 :: ops) s).
Proof. intros. apply (vm_localop_step "codeLocalMul" (BPlain Value_opMul)); auto. simpl; tauto. Qed.

Theorem vm_localdiv_step : forall i slots ops s l1 l2, icode i = C "codeLocalDiv" ->
  znth slots (iA i) = Some l1 -> znth slots (iB i) = Some l2 ->
  step_gen i slots ops s = Some (slift (Value_opDiv l1 l2) s (fun r => SNext slots (r :: ops) s)).
Proof. intros. apply (vm_localop_step "codeLocalDiv" (BRes Value_opDiv)); auto. simpl; tauto. Qed.

(* ---- transfer to the hand-written model --------------------------------------------------------- *)

Lemma slift_not_stuck : forall r s k w, (forall v, k v <> SStuck w) -> slift r s k <> SStuck w.
Proof. intros r s k w Hk. destruct r; simpl; [ apply Hk | discriminate | discriminate ]. Qed.

Lemma binop_result_not_stuck : forall sw f slots a b rest s w, binop_result sw f slots a b rest s <> SStuck w.
Proof.
  intros sw f slots a b rest s w. unfold binop_result.
  destruct sw, f; try discriminate; apply slift_not_stuck; discriminate.
Qed.

(* from agreement up to the stuck message to equality, for a result that is not stuck *)
Lemma step1_of_step_gen : forall grow ext_get ext_set ext_len ext_getattr ext_setattr codes pc i slots ops s r,
  step_gen i slots ops s = Some r -> (forall w, r <> SStuck w) ->
  step1 grow ext_get ext_set ext_len ext_getattr ext_setattr codes pc i slots ops s = r.
Proof.
  intros grow ext_get ext_set ext_len ext_getattr ext_setattr codes pc i slots ops s r Hg Hns.
  destruct (steps_agree grow ext_get ext_set ext_len ext_getattr ext_setattr codes pc i slots ops s r Hg)
    as [He | [w1 [w2 [He _]]]].
  - symmetry; exact He.
  - exfalso; exact (Hns w1 He).
Qed.

Corollary vm_binop_step1 : forall name sw f, In (name, sw, f) vm_binops ->
  forall grow ext_get ext_set ext_len ext_getattr ext_setattr codes pc i slots a b rest s, icode i = C name ->
  step1 grow ext_get ext_set ext_len ext_getattr ext_setattr codes pc i slots (b :: a :: rest) s =
  binop_result sw f slots a b rest s.
Proof.
  intros name sw f Hin grow ext_get ext_set ext_len ext_getattr ext_setattr codes pc i slots a b rest s Hc.
  apply step1_of_step_gen.
  - exact (vm_binop_step name sw f Hin i slots a b rest s Hc).
  - intro w; apply binop_result_not_stuck.
Qed.

Corollary vm_incdec_step1 :
  forall grow ext_get ext_set ext_len ext_getattr ext_setattr codes pc i slots a rest s, icode i = C "codeIncDec" ->
  step1 grow ext_get ext_set ext_len ext_getattr ext_setattr codes pc i slots (a :: rest) s =
  slift (Value_incDec a (iA i)) s (fun r => SNext slots (r :: rest) s).
Proof.
  intros grow ext_get ext_set ext_len ext_getattr ext_setattr codes pc i slots a rest s Hc.
  apply step1_of_step_gen.
  - exact (vm_incdec_step i slots a rest s Hc).
  - intro w; apply slift_not_stuck; discriminate.
Qed.

Print Assumptions vm_binop_step.
Print Assumptions vm_binop_under.
Print Assumptions vm_incdec_step.
Print Assumptions vm_cast_step.
Print Assumptions vm_convert_step.
Print Assumptions vm_negate_step.
Print Assumptions vm_complement_step.
Print Assumptions vm_not_step.
Print Assumptions vm_localset_step.
Print Assumptions vm_localincdec_step.
Print Assumptions vm_globalset_step.
Print Assumptions vm_localop_step.
Print Assumptions vm_localadd_step.
Print Assumptions vm_localsub_step.
Print Assumptions vm_localmul_step.
Print Assumptions vm_localdiv_step.
Print Assumptions slift_not_stuck.
Print Assumptions binop_result_not_stuck.
Print Assumptions step1_of_step_gen.
Print Assumptions vm_binop_step1.
Print Assumptions vm_incdec_step1.
