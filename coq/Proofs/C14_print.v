(* C14 -- printed values look as Go prints them, and printing always terminates.
   Model: Model/Print.v (three heap-non-recursive layers).  Spec: GoSpec/GoFmt.v. *)
From Coq Require Import ZArith List Bool Floats Lia String.
From GV Require Import GoSpec.GoPrim GoSpec.GoFmt Gen.ValueOps_gen Model.Print.
Import ListNotations.
Open Scope Z_scope.

(* ---- representation of a Go value in a goatlang heap ------------------------------ *)

Definition is_scalar (g : gval) : bool :=
  match g with GBool _ | GInt _ | GFloat _ | GStr _ => true | _ => false end.

Inductive repr (h : heap) : value -> gval -> Prop :=
| RBool : forall t (b : bool), Type_base t = TypeBool ->
    repr h (mkValue t (Zn (if b then 1 else 0)) PNone) (GBool b)
| RInt : forall t z, is_int_tag (Type_base t) = true -> in_range I64 z = true ->
    repr h (mkValue t (Zn z) PNone) (GInt z)
| RFloat : forall t f, Type_base t = TypeFloat64 ->
    repr h (mkValue t (Fn f) PNone) (GFloat f)
| RStr : forall t n s, Type_base t = TypeString ->
    repr h (mkValue t n (PStr s)) (GStr s)
| RNilSlice : forall t n, Type_base t = TypeSlice -> repr h (mkValue t n PNone) GNilSlice
| RNilMap : forall t n, Type_base t = TypeMap -> repr h (mkValue t n PNone) GNilMap
| RSlice : forall t n a vs gs, Type_base t = TypeSlice -> h a = Some (OSlice vs) ->
    Forall2 (repr h) vs gs -> repr h (mkValue t n (PRef a)) (GSlice gs)
| RStrMap1 : forall t n a k v g, Type_base t = TypeMap -> h a = Some (OStrMap [(k, v)]) ->
    repr h v g -> repr h (mkValue t n (PRef a)) (GMap1 (GStr k) g)
| RNumMap1 : forall t n a kt k v gk g, Type_base t = TypeMap -> h a = Some (ONumMap kt [(k, v)]) ->
    repr h (mkValue kt k PNone) gk -> is_scalar gk = true ->
    repr h v g -> repr h (mkValue t n (PRef a)) (GMap1 gk g)
| RStrMap0 : forall t n a, Type_base t = TypeMap -> h a = Some (OStrMap []) ->
    repr h (mkValue t n (PRef a)) GMap0
| RNumMap0 : forall t n a kt, Type_base t = TypeMap -> h a = Some (ONumMap kt []) ->
    repr h (mkValue t n (PRef a)) GMap0.

Definition repr_field (h : heap) (f : bytes * value) (gf : bytes * gval) : Prop :=
  fst f = fst gf /\ repr h (snd f) (snd gf).

Inductive repr_top (h : heap) : value -> gtop -> Prop :=
| RTVal : forall v g, repr h v g -> repr_top h v (GVal g)
| RTStruct : forall t n a fs gfs, Type_base t = TypeStruct -> h a = Some (OStruct fs) ->
    Forall2 (repr_field h) fs gfs -> repr_top h (mkValue t n (PRef a)) (GStructRef gfs).

(* ---- well-formed heaps (may be cyclic) --------------------------------------------- *)

Definition scalar_tag (t : Z) : bool :=
  (t =? TypeNil) || (t =? TypeBool) || is_int_tag t || (t =? TypeFloat64).
Definition scalar_ok (v : value) : Prop :=
  (scalar_tag (Type_base (vt v)) = true /\ vval v = PNone) \/
  (Type_base (vt v) = TypeString /\ exists s, vval v = PStr s).
Definition wf_value (h : heap) (v : value) : Prop :=
  scalar_ok v \/
  (Type_isSafeStr (vt v) = false /\ (vval v = PNone \/ exists a o, vval v = PRef a /\ h a = Some o)).
Definition wf_obj (h : heap) (o : object) : Prop :=
  Forall (wf_value h) (obj_values o) /\
  match o with ONumMap kt _ => scalar_tag (Type_base kt) = true | _ => True end.
Definition wf_heap (h : heap) : Prop := forall a o, h a = Some o -> wf_obj h o.

Section Proofs.
  Variable ff : float -> bytes.

  (* ---- scalars ---------------------------------------------------------------------- *)

  Lemma cvt_I64_id : forall z, in_range I64 z = true -> cvt I64 (Zn z) = z.
  Proof. intros z Hz. cbn [cvt cvt_z cvt64]. now rewrite Hz. Qed.

  Lemma int_tag_cases : forall t, is_int_tag t = true ->
    t = TypeInt32 \/ t = TypeUint32 \/ t = TypeInt8 \/ t = TypeUint8 \/ t = untypedInt.
  Proof. unfold is_int_tag. intros t Ht. repeat (apply orb_prop in Ht; destruct Ht as [Ht|Ht]); lia. Qed.

  Lemma value_string_int : forall h f t z p, is_int_tag (Type_base t) = true -> in_range I64 z = true ->
    value_string ff h f (mkValue t (Zn z) p) = Ok (print_Z z).
  Proof.
    intros h f t z p Ht Hz. unfold value_string. cbn [vt vnum vval].
    rewrite (cvt_I64_id z Hz).
    destruct (int_tag_cases _ Ht) as [E|[E|[E|[E|E]]]]; rewrite E; reflexivity.
  Qed.

  Lemma repr_scalar_string : forall h f v g, repr h v g -> is_scalar g = true ->
    value_string ff h f v = Ok (go_fmt ff g) /\ Type_isSafeStr (vt v) = true /\ (forall a, vval v <> PRef a).
  Proof.
    intros h f v g R S. inversion R; subst; try discriminate S.
    - repeat split; [|unfold Type_isSafeStr; cbn [vt]; rewrite H; reflexivity|discriminate].
      unfold value_string. cbn [vt vnum vval]. rewrite H. destruct b; reflexivity.
    - repeat split; [now apply value_string_int| |discriminate].
      unfold Type_isSafeStr. cbn [vt].
      destruct (int_tag_cases _ H) as [E|[E|[E|[E|E]]]]; rewrite E; reflexivity.
    - repeat split; [|unfold Type_isSafeStr; cbn [vt]; rewrite H; reflexivity|discriminate].
      unfold value_string. cbn [vt vnum vval]. rewrite H. reflexivity.
    - repeat split; [|unfold Type_isSafeStr; cbn [vt]; rewrite H; reflexivity|discriminate].
      unfold value_string. cbn [vt vnum vval]. rewrite H. reflexivity.
  Qed.

  Lemma depth0_scalar : forall h v g, repr h v g -> depth g = O -> is_scalar g = true.
  Proof. intros h v g R D. inversion R; subst; try reflexivity; discriminate D. Qed.

  (* layer 3 on a scalar *)
  Lemma leaf_scalar : forall h v g, repr h v g -> is_scalar g = true ->
    Type_isSafeStr (vt v) = true /\ safe_str_leaf ff h v = Ok (go_fmt ff g).
  Proof.
    intros h v g R S.
    destruct (repr_scalar_string h (fun _ => Unmodelled) v g R S) as (E & T & NR).
    split; [exact T|]. unfold safe_str_leaf. destruct (vval v) eqn:P; try exact E.
    exfalso. exact (NR _ eq_refl).
  Qed.

  (* ---- depth bookkeeping ------------------------------------------------------------ *)

  Lemma fold_max_le : forall {A} (d : A -> nat) l n,
    (fold_right (fun x m => Nat.max (d x) m) O l <= n)%nat -> Forall (fun x => (d x <= n)%nat) l.
  Proof.
    induction l as [|x l IH]; intros n Hn; constructor; cbn [fold_right] in Hn.
    - lia.
    - apply IH. lia.
  Qed.

  (* ---- layer 2: an element of nesting depth <= 1 is rendered completely -------------- *)

  Lemma safe_items_slice : forall h vs gs, Forall2 (repr h) vs gs ->
    Forall (fun g => (depth g <= 0)%nat) gs ->
    safe_items ff h (map (fun v => (Ok [], v)) vs) = Ok (Some (map (go_fmt ff) gs)).
  Proof.
    induction 1 as [|v g vs gs R _ IH]; intros D; [reflexivity|].
    inversion D; subst. cbn [map safe_items].
    destruct (leaf_scalar h v g R (depth0_scalar h v g R ltac:(lia))) as (T & L).
    rewrite T, L. cbn [bind]. rewrite (IH H2). reflexivity.
  Qed.

  Lemma safe_str_depth1 : forall h v g, repr h v g -> (depth g <= 1)%nat ->
    safe_str ff h v = Ok (go_fmt ff g).
  Proof.
    intros h v g R D.
    destruct (is_scalar g) eqn:S.
    { destruct (repr_scalar_string h (fun _ => Unmodelled) v g R S) as (E & _ & NR).
      unfold safe_str. destruct (vval v) eqn:P; try exact E. exfalso; exact (NR _ eq_refl). }
    inversion R; subst; try discriminate S.
    - unfold safe_str, value_string. cbn [vt vnum vval]. rewrite H. reflexivity.
    - unfold safe_str, value_string. cbn [vt vnum vval]. rewrite H. reflexivity.
    - unfold safe_str. cbn [vval]. rewrite H0. unfold obj_safe_str. cbn [obj_items].
      cbn [depth] in D. apply le_S_n in D. apply fold_max_le in D.
      rewrite (safe_items_slice h vs gs H1 D). reflexivity.
    - unfold safe_str. cbn [vval]. rewrite H0. unfold obj_safe_str. cbn [obj_items map fst snd safe_items].
      cbn [depth] in D.
      destruct (leaf_scalar h v0 g0 H1 (depth0_scalar h v0 g0 H1 ltac:(lia))) as (T & L).
      rewrite T, L. cbn [bind join_sp obj_open obj_close go_fmt].
      now rewrite <- !app_assoc.
    - unfold safe_str. cbn [vval]. rewrite H0. unfold obj_safe_str. cbn [obj_items map fst snd safe_items].
      cbn [depth] in D.
      destruct (leaf_scalar h v0 g0 H3 (depth0_scalar h v0 g0 H3 ltac:(lia))) as (T & L).
      destruct (repr_scalar_string h (fun _ => Unmodelled) _ gk H1 H2) as (K & _ & _).
      unfold num_key. rewrite T, K, L. cbn [bind join_sp obj_open obj_close go_fmt].
      now rewrite <- !app_assoc.
    - unfold safe_str. cbn [vval]. rewrite H0. reflexivity.
    - unfold safe_str. cbn [vval]. rewrite H0. reflexivity.
  Qed.

  (* ---- layer 1 ---------------------------------------------------------------------- *)

  Lemma str_items_slice : forall h vs gs, Forall2 (repr h) vs gs ->
    Forall (fun g => (depth g <= 1)%nat) gs ->
    str_items ff h (map (fun v => (Ok [], v)) vs) = Ok (map (go_fmt ff) gs).
  Proof.
    induction 1 as [|v g vs gs R _ IH]; intros D; [reflexivity|].
    inversion D; subst. cbn [map str_items bind].
    rewrite (safe_str_depth1 h v g R H1). cbn [bind]. rewrite (IH H2). reflexivity.
  Qed.

  Lemma str_items_fields : forall h fs gfs, Forall2 (repr_field h) fs gfs ->
    Forall (fun p => (depth (snd p) <= 1)%nat) gfs ->
    str_items ff h (map (fun e => (Ok (fst e ++ bs ":")%list, snd e)) fs) = Ok (map (go_fmt_field ff) gfs).
  Proof.
    induction 1 as [|f gf fs gfs [N R] _ IH]; intros D; [reflexivity|].
    inversion D; subst. cbn [map str_items bind].
    rewrite (safe_str_depth1 h _ _ R H1). cbn [bind]. rewrite (IH H2).
    unfold go_fmt_field at 2. rewrite N, <- app_assoc. reflexivity.
  Qed.

  Lemma string_top_depth2 : forall h v g, repr h v g -> (depth g <= 2)%nat ->
    string_top ff h v = Ok (go_fmt ff g).
  Proof.
    intros h v g R D. unfold string_top.
    destruct (is_scalar g) eqn:S.
    { exact (proj1 (repr_scalar_string h _ v g R S)). }
    inversion R; subst; try discriminate S.
    - unfold value_string. cbn [vt vnum vval]. rewrite H. reflexivity.
    - unfold value_string. cbn [vt vnum vval]. rewrite H. reflexivity.
    - unfold value_string. cbn [vt vnum vval]. rewrite H, H0. cbn -[obj_string bs].
      unfold obj_string. cbn [obj_items].
      cbn [depth] in D. apply le_S_n in D. apply fold_max_le in D.
      rewrite (str_items_slice h vs gs H1 D). reflexivity.
    - unfold value_string. cbn [vt vnum vval]. rewrite H, H0. cbn -[obj_string bs].
      unfold obj_string. cbn [obj_items map fst snd str_items bind].
      cbn [depth] in D.
      rewrite (safe_str_depth1 h v0 g0 H1 ltac:(lia)).
      cbn [bind join_sp obj_open obj_close go_fmt]. now rewrite <- !app_assoc.
    - unfold value_string. cbn [vt vnum vval]. rewrite H, H0. cbn -[obj_string bs].
      unfold obj_string. cbn [obj_items map fst snd str_items].
      cbn [depth] in D.
      destruct (repr_scalar_string h (fun _ => Unmodelled) _ gk H1 H2) as (K & _ & _).
      unfold num_key. rewrite K. cbn [bind].
      rewrite (safe_str_depth1 h v0 g0 H3 ltac:(lia)).
      cbn [bind join_sp obj_open obj_close go_fmt]. now rewrite <- !app_assoc.
    - unfold value_string. cbn [vt vnum vval]. rewrite H, H0. reflexivity.
    - unfold value_string. cbn [vt vnum vval]. rewrite H, H0. reflexivity.
  Qed.

  Theorem nested_correct : forall h v g, repr_top h v g -> (depth_top g <= 2)%nat ->
    string_top ff h v = Ok (go_fmt_top ff g).
  Proof.
    intros h v g R D. inversion R; subst.
    - now apply string_top_depth2.
    - unfold string_top, value_string. cbn [vt vnum vval]. rewrite H, H0. cbn -[obj_string bs].
      unfold obj_string. cbn [obj_items].
      cbn [depth_top] in D. apply le_S_n in D. apply fold_max_le in D.
      rewrite (str_items_fields h fs gfs H1 D). reflexivity.
  Qed.

  (* ---- scalars, each width spelled out ------------------------------------------------ *)

  Definition tag_of (t : ity) : Z :=
    match t with I8 => TypeInt8 | U8 => TypeUint8 | I32 => TypeInt32 | U32 => TypeUint32 | _ => untypedInt end.

  Lemma in_range_I64 : forall t z, bits t <= 32 -> in_range t z = true -> in_range I64 z = true.
  Proof.
    intros t z Hb H. unfold in_range in *. apply andb_prop in H. destruct H as [A B].
    apply Z.leb_le in A, B. apply andb_true_intro. split; apply Z.leb_le.
    - assert (lo I64 <= lo t) by (destruct t; vm_compute in Hb |- *; congruence). lia.
    - assert (hi t <= hi I64) by (destruct t; vm_compute in Hb |- *; congruence). lia.
  Qed.

  Theorem scalars_correct : forall h,
    (forall b : bool, string_top ff h (mkValue TypeBool (Zn (if b then 1 else 0)) PNone) = Ok (go_fmt ff (GBool b))) /\
    (forall t z, bits t <= 32 -> in_range t z = true -> string_top ff h (mkValue (tag_of t) (Zn z) PNone) = Ok (go_fmt ff (GInt z))) /\
    (forall f, string_top ff h (mkValue TypeFloat64 (Fn f) PNone) = Ok (go_fmt ff (GFloat f))) /\
    (forall s, string_top ff h (mkValue TypeString (Zn 0) (PStr s)) = Ok (go_fmt ff (GStr s))).
  Proof.
    intros h. split; [|split; [|split]].
    - intros b. apply string_top_depth2; [now constructor | cbn; lia].
    - intros t z Hb Hz. apply string_top_depth2; [|cbn; lia].
      constructor; [destruct t; reflexivity | eapply in_range_I64; eauto].
    - intros f. apply string_top_depth2; [now constructor | cbn; lia].
    - intros s. apply string_top_depth2; [now constructor | cbn; lia].
  Qed.

  (* ---- Println / Print / Sprint --------------------------------------------------------- *)

  Lemma sprint_all_correct : forall h vs gs,
    Forall2 (fun v g => string_top ff h v = Ok (go_fmt_top ff g)) vs gs ->
    sprint_all ff h vs = Ok (map (go_fmt_top ff) gs).
  Proof.
    induction 1 as [|v g vs gs E _ IH]; [reflexivity|].
    cbn [sprint_all map]. unfold sprint. rewrite E. cbn [bind]. rewrite IH. reflexivity.
  Qed.

  Theorem println_correct : forall h vs gs,
    Forall2 (fun v g => repr_top h v g /\ (depth_top g <= 2)%nat) vs gs ->
    fmt_Println ff h vs = Ok (go_println ff gs) /\
    fmt_Sprint ff h vs = Ok (join_sp (map (go_fmt_top ff) gs)) /\
    (forall v g, vs = [v] -> gs = [g] -> fmt_Print ff h vs = Ok (go_print1 ff g)).
  Proof.
    intros h vs gs F.
    assert (E : sprint_all ff h vs = Ok (map (go_fmt_top ff) gs)).
    { apply sprint_all_correct. induction F as [|v g vs gs [R D] _ IH]; constructor; auto.
      now apply nested_correct. }
    unfold fmt_Println, fmt_Sprint, fmt_Print, va_sprint. rewrite E. cbn [bind].
    repeat split. intros v g -> ->. reflexivity.
  Qed.

  (* ---- the rendering looks at most two references deep ----------------------------------- *)

  Lemma value_string_noref : forall h h' f f' v, (forall a, vval v <> PRef a) ->
    value_string ff h f v = value_string ff h' f' v.
  Proof.
    intros h h' f f' v N. unfold value_string. destruct (vval v) eqn:P; try reflexivity.
    exfalso. exact (N _ eq_refl).
  Qed.

  Lemma safe_str_leaf_heap : forall h h' v, safe_str_leaf ff h v = safe_str_leaf ff h' v.
  Proof.
    intros h h' v. unfold safe_str_leaf. destruct (vval v) eqn:P; try reflexivity;
      apply value_string_noref; intros a; rewrite P; discriminate.
  Qed.

  Lemma obj_items_heap : forall h h' o, obj_items ff h o = obj_items ff h' o.
  Proof.
    intros h h' o. destruct o; reflexivity.
  Qed.

  Lemma safe_items_heap : forall h h' items, safe_items ff h items = safe_items ff h' items.
  Proof.
    induction items as [|[pre v] r IH]; [reflexivity|]. cbn [safe_items].
    now rewrite IH, (safe_str_leaf_heap h h').
  Qed.

  Lemma obj_safe_str_heap : forall h h' o, obj_safe_str ff h o = obj_safe_str ff h' o.
  Proof. intros. unfold obj_safe_str. now rewrite (obj_items_heap h h'), (safe_items_heap h h'). Qed.

  Lemma safe_str_heap : forall h h' v, (forall a, In a (vref v) -> h a = h' a) ->
    safe_str ff h v = safe_str ff h' v.
  Proof.
    intros h h' v A. unfold safe_str, vref in *. destruct (vval v) eqn:P.
    - apply value_string_noref. intros a; rewrite P; discriminate.
    - apply value_string_noref. intros a; rewrite P; discriminate.
    - rewrite <- (A a (or_introl eq_refl)). destruct (h a); [apply obj_safe_str_heap|reflexivity].
  Qed.

  Lemma str_items_heap : forall h h' items,
    (forall a, In a (flat_map vref (map snd items)) -> h a = h' a) ->
    str_items ff h items = str_items ff h' items.
  Proof.
    induction items as [|[pre v] r IH]; intros A; [reflexivity|]. cbn [str_items].
    cbn [map flat_map snd] in A.
    rewrite (safe_str_heap h h' v), IH; [reflexivity| |]; intros a Ha; apply A, in_or_app; auto.
  Qed.

  Lemma obj_items_values : forall h o, map snd (obj_items ff h o) = obj_values o.
  Proof. intros h o. destruct o; cbn [obj_items obj_values]; rewrite map_map; cbn [snd]; auto using map_id. Qed.

  Theorem depth_bound : forall h h' v,
    (forall a, In a (reach1 v ++ reach2 h v) -> h a = h' a) ->
    string_top ff h v = string_top ff h' v.
  Proof.
    intros h h' v A. unfold string_top, value_string, reach1, reach2, vref in *.
    destruct (vval v) as [|s|a] eqn:P; try reflexivity.
    cbn [flat_map app] in A.
    rewrite <- (A a (or_introl eq_refl)).
    destruct (h a) as [o|] eqn:Ho; [|reflexivity].
    replace (obj_string ff h' o) with (obj_string ff h o); [reflexivity|].
    unfold obj_string. rewrite <- (obj_items_heap h h').
    rewrite (str_items_heap h h'); [reflexivity|].
    intros b Hb. apply A. right. rewrite app_nil_r. now rewrite obj_items_values in Hb.
  Qed.

  (* ---- defined on every well-formed heap, cyclic or not ------------------------------------- *)

  Lemma scalar_string_ok : forall h f v, scalar_ok v -> exists s, value_string ff h f v = Ok s.
  Proof.
    intros h f v [[T P]|[T [s P]]]; unfold value_string.
    - unfold scalar_tag in T. rewrite P.
      destruct (Type_base (vt v) =? TypeNil); [eauto|].
      destruct (Type_base (vt v) =? TypeBool); [eauto|].
      destruct (is_int_tag (Type_base (vt v))); [eauto|].
      destruct (Type_base (vt v) =? TypeFloat64); [eauto|]. discriminate T.
    - rewrite T, P. cbn. eauto.
  Qed.

  Lemma unsafe_tag : forall t, Type_isSafeStr t = false ->
    Type_base t = TypeSlice \/ Type_base t = TypeMap \/ Type_base t = TypeStruct.
  Proof.
    unfold Type_isSafeStr. intros t H.
    destruct (Type_base t =? TypeSlice) eqn:A; [lia|].
    destruct (Type_base t =? TypeMap) eqn:B; [lia|].
    destruct (Type_base t =? TypeStruct) eqn:C; [lia|]. discriminate H.
  Qed.

  Lemma nil_container_ok : forall h f v, Type_isSafeStr (vt v) = false -> vval v = PNone ->
    exists s, value_string ff h f v = Ok s.
  Proof.
    intros h f v T P. unfold value_string. rewrite P.
    destruct (unsafe_tag _ T) as [E|[E|E]]; rewrite E; cbn; eauto.
  Qed.

  Lemma scalar_safe : forall v, scalar_ok v -> Type_isSafeStr (vt v) = true /\ (forall a, vval v <> PRef a).
  Proof.
    intros v [[T P]|[T [s P]]]; (split; [|intros a; rewrite P; discriminate]); unfold Type_isSafeStr.
    - unfold scalar_tag, is_int_tag in T.
      repeat (apply orb_prop in T; destruct T as [T|T]); apply Z.eqb_eq in T; rewrite T; reflexivity.
    - rewrite T. reflexivity.
  Qed.

  Lemma num_key_ok : forall h kt k, scalar_tag (Type_base kt) = true -> exists s, num_key ff h kt k = Ok s.
  Proof. intros. apply scalar_string_ok. left. split; auto. Qed.

  Definition items_ok (h : heap) (items : list (res bytes * value)) : Prop :=
    Forall (fun it => (exists p, fst it = Ok p) /\ wf_value h (snd it)) items.

  Lemma obj_items_ok : forall h o, wf_obj h o -> items_ok h (obj_items ff h o).
  Proof.
    intros h o [F K]. unfold items_ok.
    destruct o; cbn [obj_items obj_values] in *; rewrite Forall_map in *;
      (eapply Forall_impl; [|exact F]); cbn; intros e W; split; eauto.
    destruct (num_key_ok h keyType (fst e) K) as [s ->]. cbn. eauto.
  Qed.

  Lemma safe_items_ok : forall h items, items_ok h items -> exists r, safe_items ff h items = Ok r.
  Proof.
    induction 1 as [|[pre v] r [[p Hp] W] _ [x IH]]; [cbn; eauto|].
    cbn [safe_items fst snd] in *. destruct (Type_isSafeStr (vt v)) eqn:T; [|eauto].
    destruct W as [S|[T' _]]; [|congruence].
    destruct (scalar_safe v S) as (_ & NR).
    destruct (scalar_string_ok h (fun _ => Unmodelled) v S) as [s E].
    unfold safe_str_leaf. rewrite Hp.
    destruct (vval v) eqn:P; try (exfalso; exact (NR _ eq_refl)); rewrite E, IH; cbn; eauto.
  Qed.

  Lemma safe_str_ok : forall h v, wf_heap h -> wf_value h v -> exists s, safe_str ff h v = Ok s.
  Proof.
    intros h v WH [S|[T [P|(a & o & P & Ho)]]]; unfold safe_str.
    - destruct (scalar_safe v S) as (_ & NR).
      destruct (scalar_string_ok h (fun _ => Unmodelled) v S) as [s E].
      destruct (vval v) eqn:P; try (exfalso; exact (NR _ eq_refl)); eauto.
    - rewrite P. now apply nil_container_ok.
    - rewrite P, Ho. unfold obj_safe_str.
      destruct (safe_items_ok h _ (obj_items_ok h o (WH a o Ho))) as [r ->]. cbn. eauto.
  Qed.

  Lemma str_items_ok : forall h items, wf_heap h -> items_ok h items -> exists r, str_items ff h items = Ok r.
  Proof.
    intros h items WH. induction 1 as [|[pre v] r [[p Hp] W] _ [x IH]]; [cbn; eauto|].
    cbn [str_items fst snd] in *. destruct (safe_str_ok h v WH W) as [s E].
    rewrite Hp, E, IH. cbn. eauto.
  Qed.

  Theorem total_on_wf : forall h v, wf_heap h -> wf_value h v -> exists s, string_top ff h v = Ok s.
  Proof.
    intros h v WH [S|[T [P|(a & o & P & Ho)]]]; unfold string_top.
    - now apply scalar_string_ok.
    - now apply nil_container_ok.
    - unfold value_string. rewrite P, Ho.
      destruct (unsafe_tag _ T) as [E|[E|E]]; rewrite E; cbn -[obj_string];
        unfold obj_string;
        destruct (str_items_ok h _ WH (obj_items_ok h o (WH a o Ho))) as [r ->]; cbn; eauto.
  Qed.

  Theorem println_total : forall h vs, wf_heap h -> Forall (wf_value h) vs ->
    exists s, fmt_Println ff h vs = Ok s.
  Proof.
    intros h vs WH F.
    assert (exists l, sprint_all ff h vs = Ok l) as [l E].
    { induction F as [|v vs W _ [l IH]]; [cbn; eauto|].
      cbn [sprint_all]. unfold sprint. destruct (total_on_wf h v WH W) as [s ->]. rewrite IH. cbn. eauto. }
    unfold fmt_Println, va_sprint. rewrite E. cbn. eauto.
  Qed.
End Proofs.

(* ---- the known finding: nesting depth 3 is not rendered as Go renders it ------------------ *)

(* [][][]int{{{1}}}: objects 1 = outer, 2 = middle, 3 = inner *)
Definition deep_heap : heap := heap_of
  [(1, OSlice [mkValue 1540224 (Zn 0) (PRef 2)]);      (* elements of type [][]int *)
   (2, OSlice [mkValue 6016 (Zn 0) (PRef 3)]);       (* elements of type []int   *)
   (3, OSlice [mkValue TypeInt32 (Zn 1) PNone])].
Definition deep_value : value := mkValue 394297472 (Zn 0) (PRef 1).
Definition deep_gval : gval := GSlice [GSlice [GSlice [GInt 1]]].

Lemma deep_repr : repr_top deep_heap deep_value (GVal deep_gval).
Proof.
  constructor. unfold deep_value, deep_gval.
  eapply RSlice; [reflexivity|reflexivity|]. repeat constructor.
  eapply RSlice; [reflexivity|reflexivity|]. repeat constructor.
  eapply RSlice; [reflexivity|reflexivity|]. repeat constructor.
Qed.

Theorem deep_refuted : forall ff, exists h v g,
  repr_top h v g /\ depth_top g = 3%nat /\ string_top ff h v <> Ok (go_fmt_top ff g).
Proof.
  intros ff. exists deep_heap, deep_value, (GVal deep_gval).
  split; [exact deep_repr|]. split; [reflexivity|]. vm_compute. discriminate.
Qed.

(* nil interface / nil pointer: goatlang prints nil, Go prints <nil> *)
Theorem nil_refuted : forall ff h,
  string_top ff h (mkValue TypeNil (Zn 0) PNone) = Ok (bs "nil") /\
  (forall t, Type_base t = TypeStruct -> string_top ff h (mkValue t (Zn 0) PNone) = Ok (bs "nil")) /\
  go_fmt ff GNil = bs "<nil>" /\ bs "nil" <> bs "<nil>".
Proof.
  intros ff h. repeat split.
  - intros t E. unfold string_top, value_string. cbn [vt vval]. rewrite E. reflexivity.
  - vm_compute. discriminate.
Qed.

(* a slice that contains itself: the rendering is defined and finite *)
Definition cyc_heap : heap := heap_of [(1, OSlice [mkValue 1540224 (Zn 0) (PRef 1)])].
Lemma cyc_wf : wf_heap cyc_heap.
Proof.
  intros a o. unfold cyc_heap, heap_of. destruct (a =? 1); [|discriminate].
  intros E; injection E as <-. split; [|exact I]. constructor; [|constructor].
  right. split; [reflexivity|]. right. exists 1, (OSlice [mkValue 1540224 (Zn 0) (PRef 1)]). split; reflexivity.
Qed.
