(* C04: the value operators generated from value.go equal Go's fixed-width
   semantics (GoPrim) for every operand value. *)
From Coq Require Import ZArith List Bool Floats Lia ZifyBool.
From GV Require Import GoSpec.GoPrim Gen.ValueOps_gen.
Import ListNotations.
Open Scope Z_scope.

(* ---- facts about the specification itself -------------------------------- *)

Ltac norm_pow := repeat match goal with
  | |- context [2 ^ ?e] => let v := eval vm_compute in (2^e) in change (2^e) with v
  | H : context [2 ^ ?e] |- _ => let v := eval vm_compute in (2^e) in change (2^e) with v in H end.
Ltac Zify.zify_post_hook ::= Z.div_mod_to_equations.

Lemma wrap_in_range t z : in_range t (wrap t z) = true.
Proof.
  unfold in_range, wrap, lo, hi.
  destruct t; cbv [signed bits modulus half]; norm_pow; lia.
Qed.

Lemma wrap_id t z : in_range t z = true -> wrap t z = z.
Proof.
  unfold in_range, wrap, lo, hi.
  destruct t; cbv [signed bits modulus half]; norm_pow; lia.
Qed.

Lemma cvt_id t z : in_range t z = true -> cvt t (Zn z) = z.
Proof.
  unfold cvt, cvt_z, cvt32, cvt64, in_range, wrap, lo, hi.
  destruct t; cbv [signed bits modulus half]; norm_pow; intro H.
  all: repeat match goal with |- context [if ?c then _ else _] => destruct c eqn:? end; norm_pow; try lia.
Qed.

Arguments cvt : simpl never.
Arguments wrap : simpl never.
Arguments float_of_Z : simpl never.

(* ---- typed operands --------------------------------------------------------- *)

Definition typed (t : ity) : bool := match t with I8 | U8 | I32 | U32 => true | _ => false end.
Definition tag_of (t : ity) : Z :=
  match t with I8 => TypeInt8 | U8 => TypeUint8 | I32 => TypeInt32 | U32 => TypeUint32 | _ => untypedInt end.
Definition V (t : ity) (z : Z) : value := mkValue (tag_of t) (Zn z) PNone.
Definition Untyped (z : Z) : value := mkValue untypedInt (Zn z) PNone.
Definition F (f : float) : value := mkValue TypeFloat64 (Fn f) PNone.
Definition B (b : bool) : value := mkValue TypeBool (Zn (if b then 1 else 0)) PNone.

Lemma mkV_tag t n : typed t = true -> mkV (tag_of t) n PNone = mkValue (tag_of t) n PNone.
Proof. destruct t; intros; try discriminate; reflexivity. Qed.

Ltac typed_cases t :=
  destruct t; try discriminate.

Section Ops.
  Variables (t : ity) (a b : Z).
  Hypothesis Ht : typed t = true.
  Hypothesis Ha : in_range t a = true.
  Hypothesis Hb : in_range t b = true.

  Ltac start :=
    pose proof (cvt_id t a Ha) as Ca; pose proof (cvt_id t b Hb) as Cb;
    clear Ha Hb; revert Ca Cb; typed_cases t; intros Ca Cb; cbv [V tag_of vt vnum vval];
    cbv beta delta [Value_opAdd Value_opSub Value_opMul Value_opDiv Value_opMod Value_opBitLsh Value_opBitRsh
                    Value_opBitAnd Value_opBitOr Value_opBitXor Value_opLt Value_opLte Value_Equals Value_opEq Value_opNeq
                    fn_mixType fn_Bool vt vnum vval];
    cbn [Z.lor Pos.lor Z.eqb Pos.eqb Z.land Pos.land Z.gtb Z.compare
         TypeInt8 TypeUint8 TypeInt32 TypeUint32 TypeFloat64 TypeString TypeBool untypedInt negb];
    rewrite ?Ca, ?Cb.

  Lemma op_add : Value_opAdd (V t a) (V t b) = Ok (V t (iadd t a b)).
  Proof. start; reflexivity. Qed.
  Lemma op_sub : Value_opSub (V t a) (V t b) = V t (isub t a b).
  Proof. start; reflexivity. Qed.
  Lemma op_mul : Value_opMul (V t a) (V t b) = V t (imul t a b).
  Proof. start; reflexivity. Qed.
  Lemma op_quo : Value_opDiv (V t a) (V t b) = (x <- iquo t a b ;; Ok (V t x)).
  Proof. start; reflexivity. Qed.
  Lemma op_rem : Value_opMod (V t a) (V t b) = (x <- irem t a b ;; Ok (V t x)).
  Proof. start; reflexivity. Qed.
  Lemma op_shl : Value_opBitLsh (V t a) (V t b) = (x <- ishl t a b ;; Ok (V t x)).
  Proof. start; reflexivity. Qed.
  Lemma op_shr : Value_opBitRsh (V t a) (V t b) = (x <- ishr t a b ;; Ok (V t x)).
  Proof. start; reflexivity. Qed.
  Lemma op_and : Value_opBitAnd (V t a) (V t b) = V t (iand t a b).
  Proof. start; reflexivity. Qed.
  Lemma op_or : Value_opBitOr (V t a) (V t b) = V t (ior t a b).
  Proof. start; reflexivity. Qed.
  Lemma op_xor : Value_opBitXor (V t a) (V t b) = V t (ixor t a b).
  Proof. start; reflexivity. Qed.
  Lemma op_lt : Value_opLt (V t a) (V t b) = Ok (B (a <? b)).
  Proof. start; cbn [num_ltb]; destruct (a <? b); reflexivity. Qed.
  Lemma op_le : Value_opLte (V t a) (V t b) = Ok (B (a <=? b)).
  Proof. start; cbn [num_leb]; destruct (a <=? b); reflexivity. Qed.
  Lemma op_eq : Value_opEq (V t a) (V t b) = Ok (B (a =? b)).
  Proof. start; cbn [num_eqb bind]; destruct (a =? b); reflexivity. Qed.
  Lemma op_ne : Value_opNeq (V t a) (V t b) = Ok (B (negb (a =? b))).
  Proof. start; cbn [num_eqb bind]; destruct (a =? b); reflexivity. Qed.
End Ops.

(* ---- untyped constant operands adopt the typed operand's type ----------------- *)

Section Const.
  Variables (t : ity) (a c : Z).
  Hypothesis Ht : typed t = true.
  Hypothesis Ha : in_range t a = true.
  Hypothesis Hc : in_range t c = true.     (* representable: Go rejects the program otherwise *)

  Ltac startc :=
    pose proof (cvt_id t a Ha) as Ca; pose proof (cvt_id t c Hc) as Cc;
    clear Ha Hc; revert Ca Cc; typed_cases t; intros Ca Cc; cbv [V Untyped tag_of vt vnum vval];
    cbv beta delta [Value_opAdd Value_opSub Value_opMul Value_opDiv Value_opMod Value_opBitLsh Value_opBitRsh
                    Value_opBitAnd Value_opBitOr Value_opBitXor fn_mixType vt vnum vval];
    cbn [Z.lor Pos.lor Z.eqb Pos.eqb TypeInt8 TypeUint8 TypeInt32 TypeUint32 TypeFloat64 TypeString untypedInt];
    rewrite ?Ca, ?Cc; reflexivity.

  Lemma const_r_add : Value_opAdd (V t a) (Untyped c) = Value_opAdd (V t a) (V t c).   Proof. startc. Qed.
  Lemma const_l_add : Value_opAdd (Untyped c) (V t a) = Value_opAdd (V t c) (V t a).   Proof. startc. Qed.
  Lemma const_r_sub : Value_opSub (V t a) (Untyped c) = Value_opSub (V t a) (V t c).   Proof. startc. Qed.
  Lemma const_l_sub : Value_opSub (Untyped c) (V t a) = Value_opSub (V t c) (V t a).   Proof. startc. Qed.
  Lemma const_r_mul : Value_opMul (V t a) (Untyped c) = Value_opMul (V t a) (V t c).   Proof. startc. Qed.
  Lemma const_l_mul : Value_opMul (Untyped c) (V t a) = Value_opMul (V t c) (V t a).   Proof. startc. Qed.
  Lemma const_r_quo : Value_opDiv (V t a) (Untyped c) = Value_opDiv (V t a) (V t c).   Proof. startc. Qed.
  Lemma const_l_quo : Value_opDiv (Untyped c) (V t a) = Value_opDiv (V t c) (V t a).   Proof. startc. Qed.
  Lemma const_r_rem : Value_opMod (V t a) (Untyped c) = Value_opMod (V t a) (V t c).   Proof. startc. Qed.
  Lemma const_l_rem : Value_opMod (Untyped c) (V t a) = Value_opMod (V t c) (V t a).   Proof. startc. Qed.
  Lemma const_r_shl : Value_opBitLsh (V t a) (Untyped c) = Value_opBitLsh (V t a) (V t c).   Proof. startc. Qed.
  Lemma const_r_shr : Value_opBitRsh (V t a) (Untyped c) = Value_opBitRsh (V t a) (V t c).   Proof. startc. Qed.
  Lemma const_r_and : Value_opBitAnd (V t a) (Untyped c) = Value_opBitAnd (V t a) (V t c).   Proof. startc. Qed.
  Lemma const_l_and : Value_opBitAnd (Untyped c) (V t a) = Value_opBitAnd (V t c) (V t a).   Proof. startc. Qed.
  Lemma const_r_or : Value_opBitOr (V t a) (Untyped c) = Value_opBitOr (V t a) (V t c).   Proof. startc. Qed.
  Lemma const_l_or : Value_opBitOr (Untyped c) (V t a) = Value_opBitOr (V t c) (V t a).   Proof. startc. Qed.
  Lemma const_r_xor : Value_opBitXor (V t a) (Untyped c) = Value_opBitXor (V t a) (V t c).   Proof. startc. Qed.
  Lemma const_l_xor : Value_opBitXor (Untyped c) (V t a) = Value_opBitXor (V t c) (V t a).   Proof. startc. Qed.
End Const.

(* ---- x++ / x-- / x += c (INCDEC and LOCALINCDEC call Value.incDec) ------------- *)

Lemma incdec_spec t a d :
  typed t = true -> in_range t a = true -> in_range t (Z.abs d) = true -> in_range I64 d = true ->
  Value_incDec (V t a) d = Ok (V t (if d <? 0 then isub t a (- d) else iadd t a d)).
Proof.
  intros Ht Ha Hd H64. unfold Value_incDec.
  destruct (d <? 0) eqn:E.
  - assert (ineg I64 d = - d) as ->.
    { unfold ineg. apply wrap_id. revert Hd. clear - Ht E. typed_cases t; unfold in_range, lo, hi; cbv [signed bits modulus half]; norm_pow; lia. }
    replace (fn_newUntypedInt (- d)) with (Untyped (- d)) by reflexivity.
    assert (Hd' : in_range t (- d) = true) by (replace (- d) with (Z.abs d) by lia; exact Hd).
    rewrite (const_r_sub t a (- d) Ht Ha Hd'). rewrite (op_sub t a (- d) Ht Ha Hd'). reflexivity.
  - replace (fn_newUntypedInt d) with (Untyped d) by reflexivity.
    assert (Hd' : in_range t d = true) by (replace d with (Z.abs d) by lia; exact Hd).
    rewrite (const_r_add t a d Ht Ha Hd'). rewrite (op_add t a d Ht Ha Hd'). reflexivity.
Qed.

(* ---- assignment / declaration conversion ------------------------------------------ *)

Lemma assign_untyped t c : typed t = true -> in_range t c = true ->
  Value_assign (Untyped c) (tag_of t) = V t c.
Proof.
  intros Ht Hc. pose proof (cvt_id t c Hc) as Cc. revert Cc. typed_cases t; intro Cc;
  cbv [Value_assign Untyped V tag_of vt vnum vval]; cbn; rewrite Cc; reflexivity.
Qed.

Lemma assign_untyped_float c :
  Value_assign (Untyped c) TypeFloat64 = F (float_of_Z c).
Proof. reflexivity. Qed.

Lemma assign_typed_same t a : typed t = true -> Value_assign (V t a) (tag_of t) = V t a.
Proof. intros Ht. typed_cases t; reflexivity. Qed.

(* a typed or otherwise non-nil, non-constant value is never changed by assign *)
Lemma assign_keeps v t : vt v <> untypedInt -> vt v <> TypeNil -> Value_assign v t = v.
Proof.
  intros H1 H2. unfold Value_assign.
  destruct (vt v =? t); [reflexivity|].
  destruct (vt v =? untypedInt) eqn:E; [apply Z.eqb_eq in E; contradiction|].
  destruct (vt v =? TypeNil) eqn:E2; [apply Z.eqb_eq in E2; contradiction|]. reflexivity.
Qed.

Lemma assign_nil t : Value_assign (mkValue TypeNil (Zn 0) PNone) t
                     = if (t =? TypeNil) || (nillableMin <=? t) then mkValue t (Zn 0) PNone else mkValue TypeNil (Zn 0) PNone.
Proof.
  unfold Value_assign. cbn [vt vnum vval].
  destruct (TypeNil =? t) eqn:E.
  - apply Z.eqb_eq in E. subst t. reflexivity.
  - rewrite Z.eqb_sym in E. rewrite E. cbn [orb].
    change (TypeNil =? untypedInt) with false. cbn [negb].
    change (negb (TypeNil =? TypeNil)) with false. cbv iota.
    rewrite Z.geb_leb. destruct (nillableMin <=? t) eqn:G; [|reflexivity].
    unfold mkV. destruct (t =? 31) eqn:T; [|reflexivity].
    apply Z.eqb_eq in T. subst t. discriminate.
Qed.

(* ---- conversions T(x) ---------------------------------------------------------------- *)

Lemma cvt_u32_wrap a : in_range I64 a = true -> cvt U32 (Zn a) = wrap U32 a.
Proof. intro H. unfold cvt, cvt_z, cvt64. rewrite H. reflexivity. Qed.

Lemma convert_int t t' a : typed t = true -> typed t' = true -> in_range t a = true ->
  Value_convert (V t a) (tag_of t') = Ok (V t' (wrap t' a)).
Proof.
  intros Ht Ht' Ha.
  assert (H64 : in_range I64 a = true).
  { revert Ha. typed_cases t; unfold in_range, lo, hi; cbv [signed bits modulus half]; norm_pow; lia. }
  pose proof (cvt_id I64 a H64) as C64. pose proof (cvt_u32_wrap a H64) as C32.
  unfold Value_convert.
  typed_cases t; typed_cases t'; cbv [V tag_of vt vnum vval];
    cbn [Z.eqb Pos.eqb TypeUint8 TypeInt8 TypeInt32 TypeUint32 TypeFloat64]; rewrite ?C64, ?C32; reflexivity.
Qed.

Lemma convert_int_float t a : typed t = true ->
  Value_convert (V t a) TypeFloat64 = Ok (F (float_of_Z a)).
Proof. intros Ht. typed_cases t; reflexivity. Qed.

(* float -> integer for in-range floats: truncation toward zero *)
Lemma convert_float_i32 f z : Ztrunc f = Some z -> in_range I32 z = true ->
  Value_convert (F f) TypeInt32 = Ok (V I32 z).
Proof.
  intros Hz Hr. unfold Value_convert, F. cbn [vt vnum vval Z.eqb Pos.eqb TypeUint8 TypeInt8 TypeInt32 TypeFloat64].
  unfold cvt, cvt_z. rewrite Hz. unfold cvt32. rewrite Hr. reflexivity.
Qed.
Lemma convert_float_small t f z : (t = I8 \/ t = U8) -> Ztrunc f = Some z -> in_range t z = true ->
  Value_convert (F f) (tag_of t) = Ok (V t z).
Proof.
  intros Ht Hz Hr.
  assert (H64 : in_range I64 z = true).
  { destruct Ht; subst t; revert Hr; unfold in_range, lo, hi; cbv [signed bits modulus half]; norm_pow; lia. }
  destruct Ht; subst t; unfold Value_convert, F; cbn [tag_of vt vnum vval Z.eqb Pos.eqb TypeUint8 TypeInt8];
    unfold cvt, cvt_z; rewrite Hz; unfold cvt64; rewrite H64; rewrite (wrap_id _ _ Hr); reflexivity.
Qed.

Lemma convert_float_u32 f z : Ztrunc f = Some z -> in_range U32 z = true ->
  Value_convert (F f) TypeUint32 = Ok (V U32 z).
Proof.
  intros Hz Hr.
  assert (H64 : in_range I64 z = true).
  { revert Hr; unfold in_range, lo, hi; cbv [signed bits modulus half]; norm_pow; lia. }
  unfold Value_convert, F; cbn [vt vnum vval Z.eqb Pos.eqb TypeUint8 TypeInt8 TypeInt32 TypeUint32];
    unfold cvt, cvt_z; rewrite Hz; unfold cvt64; rewrite H64; rewrite (wrap_id _ _ Hr); reflexivity.
Qed.

(* ---- float64 arithmetic is IEEE-754 binary64 (Coq primitive floats) --------------------- *)

Section FloatOps.
  Variables f g : float.
  Lemma f_add : Value_opAdd (F f) (F g) = Ok (F (PrimFloat.add f g)). Proof. reflexivity. Qed.
  Lemma f_sub : Value_opSub (F f) (F g) = F (PrimFloat.sub f g). Proof. reflexivity. Qed.
  Lemma f_mul : Value_opMul (F f) (F g) = F (PrimFloat.mul f g). Proof. reflexivity. Qed.
  Lemma f_quo : Value_opDiv (F f) (F g) = Ok (F (PrimFloat.div f g)). Proof. reflexivity. Qed.
  Lemma f_lt : Value_opLt (F f) (F g) = Ok (B (PrimFloat.ltb f g)).
  Proof. unfold Value_opLt, F; cbn. destruct (PrimFloat.ltb f g); reflexivity. Qed.
  Lemma f_le : Value_opLte (F f) (F g) = Ok (B (PrimFloat.leb f g)).
  Proof. unfold Value_opLte, F; cbn. destruct (PrimFloat.leb f g); reflexivity. Qed.
  Lemma f_eq : Value_opEq (F f) (F g) = Ok (B (PrimFloat.eqb f g)).
  Proof. unfold Value_opEq, Value_Equals, F; cbn. destruct (PrimFloat.eqb f g); reflexivity. Qed.
  Lemma f_ne : Value_opNeq (F f) (F g) = Ok (B (negb (PrimFloat.eqb f g))).
  Proof. unfold Value_opNeq, Value_Equals, F; cbn. destruct (PrimFloat.eqb f g); reflexivity. Qed.
End FloatOps.

(* ---- well-formedness is preserved: every int32(v.num)-style conversion in value.go is
        only ever applied to an in-range integer, where Go defines it --------------------- *)

Definition is_num_tag (t : Z) : bool :=
  (t =? untypedInt) || (t =? TypeUint8) || (t =? TypeInt8) || (t =? TypeUint32) || (t =? TypeInt32) || (t =? TypeFloat64).

Definition int_payload (t : ity) (n : num) : Prop := exists z, n = Zn z /\ in_range t z = true.
Definition wf_value (v : value) : Prop :=
  (vt v = TypeUint8 /\ int_payload U8 (vnum v)) \/ (vt v = TypeInt8 /\ int_payload I8 (vnum v)) \/
  (vt v = TypeUint32 /\ int_payload U32 (vnum v)) \/ (vt v = TypeInt32 /\ int_payload I32 (vnum v)) \/
  (vt v = TypeFloat64 /\ exists f, vnum v = Fn f) \/ vt v = untypedInt.

Lemma wf_V t z : typed t = true -> wf_value (V t (wrap t z)).
Proof.
  intro Ht. pose proof (wrap_in_range t z) as R.
  typed_cases t; cbv [wf_value V tag_of vnum vt int_payload]; eauto 8.
Qed.

Lemma wf_mk_i8 z : wf_value (mkV TypeInt8 (Zn (wrap I8 z)) PNone).
Proof. apply (wf_V I8 z eq_refl). Qed.
Lemma wf_mk_u8 z : wf_value (mkV TypeUint8 (Zn (wrap U8 z)) PNone).
Proof. apply (wf_V U8 z eq_refl). Qed.
Lemma wf_mk_i32 z : wf_value (mkV TypeInt32 (Zn (wrap I32 z)) PNone).
Proof. apply (wf_V I32 z eq_refl). Qed.
Lemma wf_mk_u32 z : wf_value (mkV TypeUint32 (Zn (wrap U32 z)) PNone).
Proof. apply (wf_V U32 z eq_refl). Qed.
Lemma wf_mk_f n : wf_value (mkV TypeFloat64 n PNone).
Proof. unfold wf_value. right; right; right; right; left. split; [reflexivity|]. cbn. eauto. Qed.
Lemma wf_mk_untyped n : wf_value (mkV untypedInt n PNone).
Proof. unfold wf_value. repeat right. reflexivity. Qed.

Lemma wf_tag v : wf_value v -> is_num_tag (vt v) = true.
Proof.
  unfold wf_value, is_num_tag.
  intros [[-> _]|[[-> _]|[[-> _]|[[-> _]|[[-> _]| ->]]]]]; reflexivity.
Qed.

Lemma mix_cases a b : is_num_tag a = true -> is_num_tag b = true ->
  let t := fn_mixType a b in
  t = untypedInt \/ t = TypeUint8 \/ t = TypeInt8 \/ t = TypeUint32 \/ t = TypeInt32 \/ t = TypeFloat64.
Proof.
  unfold is_num_tag, fn_mixType. intros Ha Hb.
  repeat match goal with H : (_ || _) = true |- _ => apply orb_true_iff in H; destruct H as [H|H] end;
  apply Z.eqb_eq in Ha; apply Z.eqb_eq in Hb; subst a b; cbn; tauto.
Qed.

Ltac wf_arith op :=
  intros v b Hv Hb; unfold op;
  pose proof (mix_cases _ _ (wf_tag v Hv) (wf_tag b Hb)) as M; cbv zeta in M;
  destruct M as [M|[M|[M|[M|[M|M]]]]]; rewrite M;
  cbn [Z.eqb Pos.eqb TypeInt8 TypeUint8 TypeInt32 TypeUint32 TypeFloat64 TypeString untypedInt];
  [ apply wf_mk_untyped | apply wf_mk_u8 | apply wf_mk_i8 | apply wf_mk_u32 | apply wf_mk_i32 | apply wf_mk_f ].

Lemma wf_sub : forall v b, wf_value v -> wf_value b -> wf_value (Value_opSub v b).
Proof. wf_arith Value_opSub. Qed.
Lemma wf_mul : forall v b, wf_value v -> wf_value b -> wf_value (Value_opMul v b).
Proof. wf_arith Value_opMul. Qed.
Lemma wf_add : forall v b r, wf_value v -> wf_value b -> Value_opAdd v b = Ok r -> wf_value r.
Proof.
  intros v b r Hv Hb. unfold Value_opAdd.
  pose proof (mix_cases _ _ (wf_tag v Hv) (wf_tag b Hb)) as M; cbv zeta in M;
  destruct M as [M|[M|[M|[M|[M|M]]]]]; rewrite M;
  cbn [Z.eqb Pos.eqb TypeInt8 TypeUint8 TypeInt32 TypeUint32 TypeFloat64 TypeString untypedInt];
  intro E; inversion E; subst r;
  [ apply wf_mk_untyped | apply wf_mk_u8 | apply wf_mk_i8 | apply wf_mk_u32 | apply wf_mk_i32 | apply wf_mk_f ].
Qed.
