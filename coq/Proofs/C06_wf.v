(* C06: a skeleton the Go compiler accepts (break only inside for / range / switch, continue only
   inside a loop) compiles to code without BREAK / CONTINUE placeholders: every placeholder is
   rewritten by the construct it belongs to. *)
From Coq Require Import ZArith List Bool Lia.
From GV Require Import GoSpec.GoCtl Model.Ctl.
Import ListNotations.
Open Scope Z_scope.

Definition is_brk (i : cinstr) : bool := match i with CBreak => true | _ => false end.
Definition is_cnt (i : cinstr) : bool := match i with CContinue => true | _ => false end.
Definition has_brk (c : code) : bool := existsb is_brk c.
Definition has_cnt (c : code) : bool := existsb is_cnt c.

Lemma has_brk_app : forall a b, has_brk (a ++ b) = has_brk a || has_brk b.
Proof. intros; apply existsb_app. Qed.
Lemma has_cnt_app : forall a b, has_cnt (a ++ b) = has_cnt a || has_cnt b.
Proof. intros; apply existsb_app. Qed.

Lemma has_brk_cons : forall i c, has_brk (i :: c) = is_brk i || has_brk c.
Proof. reflexivity. Qed.
Lemma has_cnt_cons : forall i c, has_cnt (i :: c) = is_cnt i || has_cnt c.
Proof. reflexivity. Qed.

Lemma rewrite_no_brk : forall c brk cnt n, (forall m, brk m <> None) -> has_brk (rewrite brk cnt n c) = false.
Proof.
  induction c; intros brk cnt n T; cbn [rewrite has_brk existsb]; [reflexivity|].
  fold (has_brk (rewrite brk cnt (n + 1) c)). rewrite IHc by assumption.
  destruct a; try reflexivity.
  - specialize (T n). destruct (brk n); [reflexivity | congruence].
  - destruct (cnt n); reflexivity.
Qed.

Lemma rewrite_no_cnt : forall c brk cnt n, (forall m, cnt m <> None) -> has_cnt (rewrite brk cnt n c) = false.
Proof.
  induction c; intros brk cnt n T; cbn [rewrite has_cnt existsb]; [reflexivity|].
  fold (has_cnt (rewrite brk cnt (n + 1) c)). rewrite IHc by assumption.
  destruct a; try reflexivity.
  - destruct (brk n); reflexivity.
  - specialize (T n). destruct (cnt n); [reflexivity | congruence].
Qed.

Lemma rewrite_keep_cnt : forall c brk n, has_cnt (rewrite brk (fun _ => None) n c) = has_cnt c.
Proof.
  induction c; intros brk n; cbn [rewrite has_cnt existsb]; [reflexivity|].
  fold (has_cnt (rewrite brk (fun _ : Z => None) (n + 1) c)). fold (has_cnt c). rewrite IHc.
  destruct a; try reflexivity. destruct (brk n); reflexivity.
Qed.

Lemma simple_clean : forall o, has_brk (c_simple o) = false /\ has_cnt (c_simple o) = false.
Proof. destruct o; split; reflexivity. Qed.
Lemma optcond_clean : forall o, has_brk (c_optcond o) = false /\ has_cnt (c_optcond o) = false.
Proof. destruct o; split; reflexivity. Qed.
Lemma one_guard_clean : forall isv v g, has_brk (one_guard isv v g) = false /\ has_cnt (one_guard isv v g) = false.
Proof. destruct isv; split; reflexivity. Qed.
Lemma guards_clean : forall isv v g gs, has_brk (guards isv v g gs) = false /\ has_cnt (guards isv v g gs) = false.
Proof.
  intros. unfold guards. rewrite has_brk_app, has_cnt_app.
  destruct (one_guard_clean isv v g) as [-> ->]. cbn [orb].
  induction gs; [split; reflexivity|].
  cbn [more_guards]. rewrite has_brk_app, has_cnt_app. cbn [has_brk has_cnt existsb is_brk is_cnt orb].
  fold (has_brk (one_guard isv v a)). fold (has_cnt (one_guard isv v a)).
  destruct (one_guard_clean isv v a) as [-> ->]. exact IHgs.
Qed.

Scheme stmt_mut := Induction for stmt Sort Prop
  with block_mut := Induction for block Sort Prop
  with cases_mut := Induction for cases Sort Prop.
Combined Scheme ctl_mutind from stmt_mut, block_mut, cases_mut.

Definition clean_stmt (s : stmt) : Prop := forall L inl ins, wf inl ins s = true ->
  (has_brk (compile L s) = true -> inl || ins = true) /\ (has_cnt (compile L s) = true -> inl = true).
Definition clean_block (b : block) : Prop := forall L inl ins, wf_block inl ins b = true ->
  (has_brk (compile_block L b) = true -> inl || ins = true) /\ (has_cnt (compile_block L b) = true -> inl = true).
Definition clean_cases (cs : cases) : Prop := forall isv v L ldef inl, wf_cases inl true cs = true ->
  has_brk (compile_cases isv v L ldef cs) = false /\ (has_cnt (compile_cases isv v L ldef cs) = true -> inl = true).

Ltac clean_simpl :=
  repeat (rewrite has_brk_app || rewrite has_cnt_app);
  cbn [has_brk has_cnt existsb is_brk is_cnt orb].

Lemma total_some : forall (f : Z -> Z) m, (fun n => Some (f n)) m <> None.
Proof. intros; discriminate. Qed.

Lemma clean_all : (forall s, clean_stmt s) /\ (forall b, clean_block b) /\ (forall cs, clean_cases cs).
Proof.
  apply ctl_mutind; unfold clean_stmt, clean_block, clean_cases.
  - (* Emit *) intros l L inl ins _. split; intros H; discriminate H.
  - (* If *) intros init c thn IHt els IHe L inl ins W. cbn [wf] in W. apply andb_true_iff in W. destruct W as [W1 W2].
    destruct (IHt L inl ins W1) as [T1 T2]. destruct (IHe (L + slots_block thn)%nat inl ins W2) as [E1 E2].
    cbn [compile]. destruct (simple_clean init) as [S1 S2].
    set (T := compile_block L thn) in *. set (E := compile_block (L + slots_block thn) els) in *.
    assert (X : forall tail, has_brk (c_simple init ++ c_cond c ++ tail) = has_brk tail /\
                             has_cnt (c_simple init ++ c_cond c ++ tail) = has_cnt tail).
    { intros. rewrite !has_brk_app, !has_cnt_app, S1, S2. split; reflexivity. }
    destruct (len E =? 0).
    + destruct (X (CJumpFalse (len T) :: T)) as [-> ->]. rewrite has_brk_cons, has_cnt_cons. exact (conj T1 T2).
    + destruct (X (CJumpFalse (len T + 1) :: T ++ CJump (len E) :: E)) as [-> ->].
      rewrite has_brk_cons, has_cnt_cons, has_brk_app, has_cnt_app, has_brk_cons, has_cnt_cons. cbn [is_brk is_cnt orb].
      split; intros H; apply orb_true_iff in H; destruct H; auto.
  - (* For *) intros init cond post body IHb L inl ins W. cbn [compile].
    destruct (simple_clean init) as [S1 S2]. destruct (simple_clean post) as [P1 P2]. destruct (optcond_clean cond) as [C1 C2].
    assert (B : forall (x : bool) (a b : code), has_brk (if x then a else b) = if x then has_brk a else has_brk b) by (destruct x; reflexivity).
    assert (B' : forall (x : bool) (a b : code), has_cnt (if x then a else b) = if x then has_cnt a else has_cnt b) by (destruct x; reflexivity).
    clean_simpl. rewrite !B, !B'. clean_simpl.
    rewrite rewrite_no_brk by (intros; discriminate). rewrite rewrite_no_cnt by (intros; discriminate).
    rewrite S1, S2, P1, P2, C1, C2.
    destruct (0 <? len (c_optcond cond)); cbn; split; intros H; discriminate H.
  - (* Range *) intros k body IHb L inl ins W. cbn [compile]. clean_simpl.
    rewrite rewrite_no_brk by (intros; discriminate). rewrite rewrite_no_cnt by (intros; discriminate).
    cbn. split; intros H; discriminate H.
  - (* Switch *) intros tag cs IHc dpos dflt IHd L inl ins W. cbn [wf] in W. apply andb_true_iff in W. destruct W as [W1 W2].
    cbn [compile].
    set (stm := match tag with Some k => c_tag k ++ [CLocalSet L] | None => [] end).
    assert (T : has_brk stm = false /\ has_cnt stm = false) by (subst stm; destruct tag; split; reflexivity).
    destruct T as [T1 T2].
    rewrite !has_brk_app, !has_cnt_app, T1, T2.
    rewrite rewrite_no_brk by (intros; discriminate). rewrite rewrite_keep_cnt.
    match goal with |- context [compile_cases ?a ?b ?c ?d cs] => destruct (IHc a b c d inl W1) as [K1 K2]; rewrite K1 end.
    cbn [orb]. split; [intros H; discriminate H|].
    intros H. apply orb_true_iff in H. destruct H as [H|H]; [auto|].
    match type of H with has_cnt (compile_block ?l dflt) = true => destruct (IHd l inl true W2) as [_ D2] end. auto.
  - (* Break *) intros L inl ins W. cbn [wf] in W. cbn. split; [auto | intros H; discriminate H].
  - (* Continue *) intros L inl ins W. cbn [wf] in W. cbn. split; [intros H; discriminate H | auto].
  - (* Return *) intros L inl ins W. cbn. split; intros H; discriminate H.
  - (* BNil *) intros L inl ins W. cbn. split; intros H; discriminate H.
  - (* BCons *) intros s IHs b IHb L inl ins W. cbn [wf_block] in W. apply andb_true_iff in W. destruct W as [W1 W2].
    cbn [compile_block]. clean_simpl.
    destruct (IHs L inl ins W1) as [A1 A2]. destruct (IHb (L + slots s)%nat inl ins W2) as [B1 B2].
    split; intros H; apply orb_true_iff in H; destruct H; auto.
  - (* CNil *) intros isv v L ldef inl W. cbn. split; [reflexivity | intros H; discriminate H].
  - (* CCons *) intros g gs body IHb cs IHc isv v L ldef inl W. cbn [wf_cases] in W. apply andb_true_iff in W. destruct W as [W1 W2].
    cbn [compile_cases]. clean_simpl.
    destruct (guards_clean isv v g gs) as [-> ->].
    rewrite rewrite_no_brk by (intros; discriminate). rewrite rewrite_keep_cnt.
    destruct (IHc isv v L ldef inl W2) as [K1 K2]. rewrite K1. cbn [orb].
    split; [reflexivity|]. intros H. apply orb_true_iff in H. destruct H as [H|H]; [|auto].
    destruct (IHb (L + slots_cases cs)%nat inl true W1) as [_ D2]. auto.
Qed.

Lemma wf_no_placeholder : forall b, wf_block false false b = true ->
  forall i, In i (compile_ctl b) -> i <> CBreak /\ i <> CContinue.
Proof.
  intros b W i Hi. destruct clean_all as [_ [Hb _]].
  destruct (Hb b 0%nat false false W) as [B C]. unfold compile_ctl in *.
  split; intros ->.
  - assert (has_brk (compile_block 0 b) = true) by (apply existsb_exists; exists CBreak; split; auto).
    specialize (B H). discriminate B.
  - assert (has_cnt (compile_block 0 b) = true) by (apply existsb_exists; exists CContinue; split; auto).
    specialize (C H). discriminate C.
Qed.
