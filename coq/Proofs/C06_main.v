(* C06: assembling the induction, and the link from reachability to the executable `run`. *)
From Coq Require Import ZArith List Bool Lia.
From GV Require Import GoSpec.GoCtl Model.Ctl Proofs.C06_base Proofs.C06_ctl.
Import ListNotations.
Open Scope Z_scope.

Section Main.
  Variable orc : oracle.

  Lemma all_ok : forall f, P_stmt orc f /\ P_block orc f /\ P_for orc f /\ P_range orc f /\ P_cases orc f.
  Proof.
    induction f as [|f [IHs [IHb [IHf [IHr IHc]]]]].
    - unfold P_stmt, P_block, P_for, P_range, P_cases. repeat split; intros; discriminate.
    - assert (Hb : P_block orc (S f)) by (apply ok_block_S; auto).
      repeat split; auto.
      + apply ok_stmt_S; auto.
      + apply ok_for_S; auto.
      + apply ok_range_S; auto.
      + apply ok_cases_S; auto.
  Qed.

  (* a step is only taken inside the code *)
  Lemma step_inside : forall C c c', step orc C c = Next c' -> pc c < len C.
  Proof.
    intros C c c' H. unfold step in H. destruct (fetch C (pc c)) eqn:F; [|discriminate].
    unfold fetch in F. destruct (Z.ltb_spec (pc c) 0); [discriminate|].
    assert (Z.to_nat (pc c) < length C)%nat by (apply nth_error_Some; congruence).
    unfold len. lia.
  Qed.

  Lemma star_run_finished : forall C c c', star orc C c c' -> len C <= pc c' ->
    exists fuel, run orc fuel C c = Finished (ctr c') (stk c').
  Proof.
    induction 1; intros Hend.
    - exists 1%nat. cbn [run]. destruct (Z.leb_spec (len C) (pc c)); [reflexivity | lia].
    - destruct (IHstar Hend) as [fuel Hf]. exists (S fuel). cbn [run].
      pose proof (step_inside _ _ _ H). destruct (Z.leb_spec (len C) (pc c)); [lia|].
      rewrite H. exact Hf.
  Qed.

  Lemma star_run_returned : forall C c c' n, star orc C c c' -> fetch C (pc c') = Some (CReturn n) ->
    exists fuel, run orc fuel C c = Ret_at (pc c') (ctr c') (stk c').
  Proof.
    induction 1; intros Hr.
    - exists 1%nat. cbn [run].
      assert (pc c < len C).
      { unfold fetch in Hr. destruct (Z.ltb_spec (pc c) 0); [discriminate|].
        assert (Z.to_nat (pc c) < length C)%nat by (apply nth_error_Some; congruence). unfold len; lia. }
      destruct (Z.leb_spec (len C) (pc c)); [lia|].
      unfold step. rewrite Hr. reflexivity.
    - destruct (IHstar Hr) as [fuel Hf]. exists (S fuel). cbn [run].
      pose proof (step_inside _ _ _ H). destruct (Z.leb_spec (len C) (pc c)); [lia|].
      rewrite H. exact Hf.
  Qed.

  (* what the machine does with the compiled function body, for an outcome of the Go semantics *)
  Definition machine_agrees (b : block) (tr0 : trace) (s0 : nat -> sval) (out : outcome) (tr' : trace) : Prop :=
    match out with
    | Normal => exists fuel, run orc fuel (compile_ctl b) (mkCfg 0 tr0 [] s0) = Finished tr' []
    | Ret => exists fuel p, run orc fuel (compile_ctl b) (mkCfg 0 tr0 [] s0) = Ret_at p tr' []
    | Brk | Cont => True      (* not an outcome of a function body in a valid Go program *)
    end.

  Lemma skeleton_ok : forall b fuel tr0 s0 out tr',
    exec_block orc fuel b tr0 = Some (out, tr') -> machine_agrees b tr0 s0 out tr'.
  Proof.
    intros b fuel tr0 s0 out tr' E.
    destruct (all_ok fuel) as [_ [Hb _]].
    pose proof (Hb b tr0 out tr' E (compile_ctl b) 0 0%nat None None [] s0 ltac:(lia) (carries_self _)) as R.
    unfold compile_ctl in *. destruct out; cbn [C06_base.post_ok machine_agrees] in *; auto.
    - destruct R as [s' [S _]].
      destruct (star_run_finished _ _ _ S) as [mf Hm]; [cbn [pc]; lia|]. exists mf. exact Hm.
    - destruct R as [pr [n [[s' [S _]] F]]].
      destruct (star_run_returned _ _ _ n S F) as [mf Hm]. exists mf, pr. exact Hm.
  Qed.

  (* switch cases never fall through: when the first guard of the first case holds, only that case's
     block runs, whatever the other cases and the default are *)
  Lemma no_fallthrough : forall g gs body cs dpos dflt fuel tr0 s0 tr',
    o_cond orc tr0 g = true ->
    exec_block orc fuel body (EvCond g :: tr0) = Some (Normal, tr') ->
    exists mf, run orc mf (compile_ctl (BCons (Switch None (CCons g gs body cs) dpos dflt) BNil)) (mkCfg 0 tr0 [] s0)
               = Finished tr' [].
  Proof.
    intros g gs body cs dpos dflt fuel tr0 s0 tr' Hg E.
    apply (skeleton_ok _ (S (S (S fuel))) tr0 s0 Normal tr').
    rewrite exec_block_S, exec_S. cbv zeta. rewrite exec_cases_S, eval_guards_cons, Hg, E.
    destruct fuel; [discriminate E|]. reflexivity.
  Qed.

  (* the same for a tagged switch whose first listed value equals the tag *)
  Lemma no_fallthrough_tagged : forall k g gs body cs dpos dflt fuel tr0 s0 tr',
    o_tag orc tr0 k = g ->
    exec_block orc fuel body (EvTag k :: tr0) = Some (Normal, tr') ->
    exists mf, run orc mf (compile_ctl (BCons (Switch (Some k) (CCons g gs body cs) dpos dflt) BNil)) (mkCfg 0 tr0 [] s0)
               = Finished tr' [].
  Proof.
    intros k g gs body cs dpos dflt fuel tr0 s0 tr' Hg E.
    apply (skeleton_ok _ (S (S (S fuel))) tr0 s0 Normal tr').
    rewrite exec_block_S, exec_S. cbv zeta. rewrite exec_cases_S, eval_guards_cons, Hg, Z.eqb_refl, E.
    destruct fuel; [discriminate E|]. reflexivity.
  Qed.

  (* The default clause.  Where it stands among the cases (the field dpos of Switch) is looked at neither by
     GoSpec/GoCtl.v nor by Model/Ctl.v: a dead field, so "the position does not matter" is a modelling
     assumption here, not a theorem (tied to the implementation only by the instruction-for-instruction
     correspondence of Model/CorrC06.v).  What IS proved about the default: it runs when no guard of any case
     holds, for any dpos. *)

  (* all guards of all cases, evaluated top to bottom, fail: the trace afterwards (None: some guard holds) *)
  Fixpoint no_match (tag : option Z) (cs : cases) (tr : trace) : option trace :=
    match cs with
    | CNil => Some tr
    | CCons g gs _ cs' =>
        let '(m, tr1) := eval_guards orc tag (g :: gs) tr in
        if m then None else no_match tag cs' tr1
    end.

  Fixpoint ncases (cs : cases) : nat := match cs with CNil => O | CCons _ _ _ cs' => S (ncases cs') end.

  Lemma exec_cases_no_match : forall cs tag dflt tr tr2 fuel,
    no_match tag cs tr = Some tr2 ->
    exec_cases orc (S (ncases cs + fuel)) tag cs dflt tr = exec_block orc fuel dflt tr2.
  Proof.
    induction cs as [|g gs body cs' IH]; intros tag dflt tr tr2 fuel H; rewrite exec_cases_S.
    - cbn in H. inversion H; subst. reflexivity.
    - cbn [no_match] in H. destruct (eval_guards orc tag (g :: gs) tr) as [m tr1].
      destruct m; [discriminate|]. cbn [ncases Nat.add]. apply IH. exact H.
  Qed.

  Lemma default_entered : forall tag cs dpos dflt fuel tr0 s0 tr2 tr',
    no_match (option_map (o_tag orc tr0) tag) cs (match tag with Some k => EvTag k :: tr0 | None => tr0 end) = Some tr2 ->
    exec_block orc fuel dflt tr2 = Some (Normal, tr') ->
    exists mf, run orc mf (compile_ctl (BCons (Switch tag cs dpos dflt) BNil)) (mkCfg 0 tr0 [] s0) = Finished tr' [].
  Proof.
    intros tag cs dpos dflt fuel tr0 s0 tr2 tr' Hn E.
    apply (skeleton_ok _ (S (S (S (ncases cs + fuel)))) tr0 s0 Normal tr').
    rewrite exec_block_S, exec_S. cbv zeta.
    destruct tag as [k|]; cbn [option_map] in Hn; rewrite (exec_cases_no_match _ _ _ _ _ _ Hn), E; reflexivity.
  Qed.
End Main.
