(* C18: concrete instances (oracles that model nothing, an empty machine) for the witnesses of Props/C18.v,
   and the proof that the hypotheses of c18_eval hold along a concrete session. *)
From Coq Require Import ZArith List String Ascii Bool Lia.
From GV Require Import GoSpec.GoPrim Gen.ValueOps_gen Model.Lookup Model.VM Model.Incr.
Import ListNotations.
Open Scope Z_scope.
Open Scope string_scope.

Definition w_grow := fun _ _ : Z => 0.
Definition w_get := fun (_ : st) (_ _ : value) => @None (res value).
Definition w_set := fun (_ : st) (_ _ _ : value) => @None (res st).
Definition w_len := fun (_ : st) (_ : value) => @None Z.
Definition w_ga := fun (_ : st) (_ : value) (_ : Z) => @None (res (value * st)).
Definition w_sa := fun (_ : st) (_ : value) (_ : Z) (_ : value) => @None (res st).
Definition w_eval1 := Incr.eval1 w_grow w_get w_set w_len w_ga w_sa.
Definition w_eval_seq := Incr.eval_seq w_grow w_get w_set w_len w_ga w_sa.
Definition w_m0 := mkM new_lookup [] (mkSt [] [] [] []).
Definition w_obs (r : list eres * mstate) := (fst r, globals (m_vm (snd r)), i2k (m_lk (snd r))).
Definition w_whole (p : list tstmt) := w_obs (let (e, m) := w_eval1 true 100 w_m0 p in ([e], m)).
Definition w_incr (cs : list (list tstmt)) := w_obs (w_eval_seq true 100 w_m0 cs).
Definition vInt32 (n : Z) := mkValue 23 (Zn n) PNone.
Definition vType (t : Z) := mkValue 4 (Zn t) PNone.


Ltac comp t := let v := eval vm_compute in t in replace t with v by (vm_compute; reflexivity).
Ltac comp_in t H := let v := eval vm_compute in t in replace t with v in H by (vm_compute; reflexivity).
(* one chunk of incr_hyps: compute the compile and the run, then each named hypothesis *)
Ltac hyps_step :=
  cbn [Incr.incr_hyps];
  match goal with |- context [compile_top ?p 0 ?g] => comp (compile_top p 0 g) end;
  cbv beta iota;
  split; [vm_compute; reflexivity|];
  match goal with |- match ?r with _ => _ end => comp r end;
  cbv beta iota zeta;
  split; [intro; reflexivity|];
  split; [vm_compute; reflexivity|];
  split; [match goal with |- Forall _ ?l => comp l end; repeat (constructor; [vm_compute; auto|]); constructor|];
  split; [intros chs gA gB H1 H2;
          match type of H1 with ?l = _ => comp_in l H1 end; match type of H2 with ?l = _ => comp_in l H2 end;
          inversion H1; inversion H2; subst; eexists; vm_compute; reflexivity|].

Lemma hyps_witness :
  Incr.incr_hyps w_grow w_get w_set w_len w_ga w_sa 50 w_m0
    [[s_type_basic "T" 23]; [s_define_int "x" 7]; [s_define_call "y" "T" 2]] /\
  (forall chs g, compile_chunks [[s_type_basic "T" 23]; [s_define_int "x" 7]; [s_define_call "y" "T" 2]] (cstate_of w_m0) = (Some chs, g) ->
                 total_slots chs < slot_limit).
Proof.
  split.
  - hyps_step. hyps_step.
    (* the last chunk leaves nothing to commute with *)
    cbn [Incr.incr_hyps].
    match goal with |- context [compile_top ?p 0 ?g] => comp (compile_top p 0 g) end.
    cbv beta iota. split; [vm_compute; reflexivity|].
    match goal with |- match ?r with _ => _ end => comp r end.
    cbv beta iota zeta.
    split; [intro H; exfalso; apply H; reflexivity|].
    split; [vm_compute; reflexivity|].
    split; [constructor|].
    split; [|exact I].
    intros chs gA gB H1 H2. cbn [compile_chunks] in H1, H2. inversion H1; inversion H2; subst.
    eexists. vm_compute. reflexivity.
  - intros chs g H. match type of H with ?l = _ => comp_in l H end. inversion H; subst. vm_compute. reflexivity.
Qed.
