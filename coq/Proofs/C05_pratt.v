(* C05: soundness and completeness of the Pratt expression core with respect to
   the declarative grouping specification GoPrec.grouped. *)
From Coq Require Import ZArith List String Bool Lia.
From GV Require Import GoSpec.GoPrec Model.Pratt.
Import ListNotations.
Open Scope string_scope.
Open Scope Z_scope.

(* every binary operator of a tree satisfies P *)
Fixpoint ops_ok (P : string -> bool) (t : tree) : bool :=
  match t with
  | Atom _ _ => true
  | Paren t => ops_ok P t
  | Un _ t => ops_ok P t
  | Bin op l r => P op && ops_ok P l && ops_ok P r
  end.

(* number of binary nodes on the left spine = number of iterations of the
   led loop that the call parsing [t] performs for [t] itself *)
Fixpoint spine (t : tree) : nat :=
  match t with
  | Bin _ l _ => S (spine l)
  | _ => O
  end.

Lemma spine_len : forall t, (2 * spine t + 1 <= List.length (flatten t))%nat.
Proof.
  induction t as [i s|op l IHl r IHr|u e IHe|e IHe]; simpl.
  - lia.
  - rewrite app_length. simpl. lia.
  - lia.
  - lia.
Qed.

Section Generic.
  Variable lbp : string -> Z.
  Variable infix : string -> bool.
  Variables neg_rbp compl_rbp not_rbp paren_rbp : Z.

  (* what the proofs need from the table *)
  Hypothesis infix_pos : forall s, infix s = true -> 0 < lbp s.
  Hypothesis infix_paren : forall s, infix s = true -> paren_rbp < lbp s.
  Hypothesis infix_un : forall s, infix s = true -> lbp s <= neg_rbp /\ lbp s <= compl_rbp /\ lbp s <= not_rbp.
  Hypothesis close_lbp : lbp ")" = 0.
  Hypothesis paren_nonneg : 0 <= paren_rbp.
  (* the symbols with a dedicated nud are not binary-only tokens confused with them:
     "(" is never infix in the core; "-" and "^" may be both *)
  Hypothesis open_not_infix : infix "(" = false.
  Hypothesis close_not_infix : infix ")" = false.
  (* ADDED (needed by pratt_complete only; decidable table fact, holds for the
     goatlang table where all three unary operand binding powers are 130).
     Without it pratt_complete is false: take infix = fun _ => false,
     lbp = fun _ => 0, paren_rbp = 0, neg_rbp = -1; every hypothesis above holds
     (the infix_* ones vacuously), t = Paren (Un UNeg (Atom true "a")) is grouped,
     but after the operand "a" the loop of doExpression(-1) sees ")" with
     -1 < lbp ")" = 0, enters the led branch and fails with PErrSyntax. *)
  Hypothesis un_nonneg : 0 <= neg_rbp /\ 0 <= compl_rbp /\ 0 <= not_rbp.

  Let expr := Pratt.expr lbp infix neg_rbp compl_rbp not_rbp paren_rbp.
  Let led_loop := Pratt.led_loop lbp infix neg_rbp compl_rbp not_rbp paren_rbp.
  Let parse := Pratt.parse lbp infix neg_rbp compl_rbp not_rbp paren_rbp.

  (* ---------------------------------------------------------------- *)
  (* one-step unfoldings *)

  Definition nud (fuel : nat) (ts : list tok) : (tree * list tok) + perr :=
    match ts with
    | [] => inr PErrSyntax
    | TAtom i s :: rest => inl (Atom i s, rest)
    | TSym s :: rest =>
        if String.eqb s "(" then
          match expr fuel paren_rbp rest with
          | inl (e, TSym c :: rest') => if String.eqb c ")" then inl (Paren e, rest') else inr PErrSyntax
          | inl _ => inr PErrSyntax
          | inr e => inr e
          end
        else if String.eqb s "-" then
          match expr fuel neg_rbp rest with inl (e, r) => inl (Un UNeg e, r) | inr e => inr e end
        else if String.eqb s "^" then
          match expr fuel compl_rbp rest with inl (e, r) => inl (Un UCompl e, r) | inr e => inr e end
        else if String.eqb s "!" then
          match expr fuel not_rbp rest with inl (e, r) => inl (Un UNot e, r) | inr e => inr e end
        else inr PErrSyntax
    end.

  Lemma expr_O : forall rbp ts, expr O rbp ts = inr PErrFuel.
  Proof. reflexivity. Qed.

  Lemma expr_S : forall fuel rbp ts,
    expr (S fuel) rbp ts =
    match nud fuel ts with
    | inr e => inr e
    | inl (lft, rest) => led_loop fuel rbp lft rest
    end.
  Proof. reflexivity. Qed.

  Lemma led_O : forall rbp lft ts,
    led_loop O rbp lft ts = if rbp <? cur_lbp lbp ts then inr PErrFuel else inl (lft, ts).
  Proof. reflexivity. Qed.

  Lemma led_S : forall fuel rbp lft ts,
    led_loop (S fuel) rbp lft ts =
    match ts with
    | TSym s :: rest =>
        if rbp <? lbp s then
          if infix s then
            match expr fuel (lbp s) rest with
            | inl (rgt, rest') => led_loop fuel rbp (Bin s lft rgt) rest'
            | inr e => inr e
            end
          else inr PErrSyntax
        else inl (lft, ts)
    | _ => inl (lft, ts)
    end.
  Proof. reflexivity. Qed.

  (* the unary operand binding power of each prefix operator *)
  Definition un_rbp (u : unop) : Z :=
    match u with UNeg => neg_rbp | UCompl => compl_rbp | UNot => not_rbp end.

  Lemma nud_un : forall fuel u rest,
    nud fuel (TSym (unop_sym u) :: rest) =
    match expr fuel (un_rbp u) rest with inl (e, r) => inl (Un u e, r) | inr e => inr e end.
  Proof. intros fuel u rest. destruct u; reflexivity. Qed.

  Lemma nud_paren : forall fuel rest,
    nud fuel (TSym "(" :: rest) =
    match expr fuel paren_rbp rest with
    | inl (e, TSym c :: rest') => if String.eqb c ")" then inl (Paren e, rest') else inr PErrSyntax
    | inl _ => inr PErrSyntax
    | inr e => inr e
    end.
  Proof. reflexivity. Qed.

  Lemma infix_un_rbp : forall u s, infix s = true -> lbp s <= un_rbp u.
  Proof.
    intros u s Hs. destruct (infix_un s Hs) as (H1 & H2 & H3).
    destruct u; simpl; assumption.
  Qed.

  (* ---------------------------------------------------------------- *)
  (* soundness *)

  (* if the remaining input starts with a symbol, its Lbp is at most b:
     the loop of doExpression(b) would stop here *)
  Definition head_le (b : Z) (ts : list tok) : Prop :=
    forall s tl, ts = TSym s :: tl -> lbp s <= b.

  Lemma un_grouped : forall u e,
    grouped lbp e -> ops_ok infix e = true ->
    (forall p, root_prec lbp e = Some p -> un_rbp u < p) ->
    grouped lbp (Un u e).
  Proof.
    intros u e Hg Ho Hr. simpl. split; [exact Hg|].
    destruct e as [i s|op l r|u' e'|e']; try reflexivity.
    exfalso. simpl in Ho.
    apply andb_true_iff in Ho. destruct Ho as [Ho _].
    apply andb_true_iff in Ho. destruct Ho as [Hop _].
    pose proof (infix_un_rbp u op Hop) as Hle.
    pose proof (Hr (lbp op) eq_refl) as Hlt. lia.
  Qed.

  Definition sound_post (rbp : Z) (src : list tok) (t : tree) (rest : list tok) : Prop :=
    (flatten t ++ rest)%list = src /\ grouped lbp t /\ ops_ok infix t = true /\
    (forall p, root_prec lbp t = Some p -> rbp < p) /\ head_le rbp rest.

  Lemma sound_gen : forall fuel,
    (forall rbp ts t rest, expr fuel rbp ts = inl (t, rest) -> sound_post rbp ts t rest) /\
    (forall rbp lft ts t rest, led_loop fuel rbp lft ts = inl (t, rest) ->
       grouped lbp lft -> ops_ok infix lft = true ->
       (forall p, root_prec lbp lft = Some p -> rbp < p) ->
       (forall p, root_prec lbp lft = Some p -> head_le p ts) ->
       sound_post rbp (flatten lft ++ ts)%list t rest).
  Proof.
    induction fuel as [|fuel [IHe IHl]].
    - split.
      + intros rbp ts t rest H. rewrite expr_O in H. discriminate H.
      + intros rbp lft ts t rest H Hg Ho Hr Hh. rewrite led_O in H.
        destruct (rbp <? cur_lbp lbp ts) eqn:Elt; [discriminate H|].
        injection H as <- <-.
        apply Z.ltb_ge in Elt.
        unfold sound_post. repeat split; try assumption.
        intros s tl Hts. subst ts. simpl in Elt. exact Elt.
    - split.
      + (* expr *)
        intros rbp ts t rest H. rewrite expr_S in H.
        destruct ts as [|[i a|s] rest0].
        * simpl in H. discriminate H.
        * simpl in H.
          apply IHl in H.
          -- exact H.
          -- exact I.
          -- reflexivity.
          -- intros p Hp. discriminate Hp.
          -- intros p Hp. discriminate Hp.
        * unfold nud in H.
          destruct (String.eqb s "(") eqn:E1.
          { apply String.eqb_eq in E1. subst s.
            destruct (expr fuel paren_rbp rest0) as [[e r]|err] eqn:Ee; [|discriminate H].
            destruct r as [|[i a|c] r']; try discriminate H.
            destruct (String.eqb c ")") eqn:E2; [|discriminate H].
            apply String.eqb_eq in E2. subst c.
            apply IHe in Ee. destruct Ee as (Hf & Hg & Ho & _ & _).
            apply IHl in H.
            - destruct H as (Hf' & Hg' & Ho' & Hr' & Hh').
              unfold sound_post. repeat split; try assumption.
              rewrite Hf'. simpl. rewrite <- app_assoc. simpl. rewrite Hf. reflexivity.
            - simpl. exact Hg.
            - simpl. exact Ho.
            - intros p Hp. discriminate Hp.
            - intros p Hp. discriminate Hp. }
          assert (Hun : forall u, s = unop_sym u ->
                    match expr fuel (un_rbp u) rest0 with
                    | inl (e, r) => led_loop fuel rbp (Un u e) r
                    | inr e => inr e
                    end = inl (t, rest) ->
                    sound_post rbp (TSym s :: rest0) t rest).
          { intros u Hs H'. subst s.
            destruct (expr fuel (un_rbp u) rest0) as [[e r]|err] eqn:Ee; [|discriminate H'].
            apply IHe in Ee. destruct Ee as (Hf & Hg & Ho & Hr & _).
            apply IHl in H'.
            - destruct H' as (Hf' & Hg' & Ho' & Hr' & Hh').
              unfold sound_post. repeat split; try assumption.
              rewrite Hf'. simpl. rewrite Hf. reflexivity.
            - apply un_grouped; assumption.
            - simpl. exact Ho.
            - intros p Hp. discriminate Hp.
            - intros p Hp. discriminate Hp. }
          destruct (String.eqb s "-") eqn:E2.
          { apply String.eqb_eq in E2. apply (Hun UNeg E2).
            simpl un_rbp.
            destruct (expr fuel neg_rbp rest0) as [[e r]|err]; exact H. }
          destruct (String.eqb s "^") eqn:E3.
          { apply String.eqb_eq in E3. apply (Hun UCompl E3).
            simpl un_rbp.
            destruct (expr fuel compl_rbp rest0) as [[e r]|err]; exact H. }
          destruct (String.eqb s "!") eqn:E4.
          { apply String.eqb_eq in E4. apply (Hun UNot E4).
            simpl un_rbp.
            destruct (expr fuel not_rbp rest0) as [[e r]|err]; exact H. }
          discriminate H.
      + (* led_loop *)
        intros rbp lft ts t rest H Hg Ho Hr Hh. rewrite led_S in H.
        assert (Hstop : inl (lft, ts) = (inl (t, rest) : (tree * list tok) + perr) ->
                        (forall s tl, ts = TSym s :: tl -> lbp s <= rbp) ->
                        sound_post rbp (flatten lft ++ ts)%list t rest).
        { intros Heq Hle. injection Heq as <- <-.
          unfold sound_post. repeat split; assumption. }
        destruct ts as [|[i a|s] rest0].
        * apply Hstop; [exact H|]. intros s tl Hts. discriminate Hts.
        * apply Hstop; [exact H|]. intros s tl Hts. discriminate Hts.
        * destruct (rbp <? lbp s) eqn:Elt.
          2:{ apply Hstop; [exact H|]. intros s' tl Hts. injection Hts as <- <-.
              apply Z.ltb_ge in Elt. exact Elt. }
          apply Z.ltb_lt in Elt.
          destruct (infix s) eqn:Einf; [|discriminate H].
          destruct (expr fuel (lbp s) rest0) as [[rgt rest']|err] eqn:Ee; [|discriminate H].
          apply IHe in Ee. destruct Ee as (Hf & Hgr & Hor & Hrr & Hhr).
          apply IHl in H.
          -- destruct H as (Hf' & Hg' & Ho' & Hr' & Hh').
             unfold sound_post. repeat split; try assumption.
             rewrite Hf'. simpl. rewrite <- app_assoc. simpl. rewrite Hf. reflexivity.
          -- simpl. repeat split; try assumption.
             ++ apply infix_pos. exact Einf.
             ++ intros p Hp. apply (Hh p Hp s rest0 eq_refl).
          -- simpl. rewrite Einf, Ho, Hor. reflexivity.
          -- intros p Hp. simpl in Hp. injection Hp as <-. exact Elt.
          -- intros p Hp. simpl in Hp. injection Hp as <-. exact Hhr.
  Qed.

  (* STRENGTHENED: extra last conjunct -- the loop stops at [rest] *)
  Theorem pratt_sound : forall fuel rbp ts t rest, 0 <= rbp ->
    expr fuel rbp ts = inl (t, rest) ->
    (flatten t ++ rest)%list = ts /\ grouped lbp t /\ ops_ok infix t = true /\
    (forall p, root_prec lbp t = Some p -> rbp < p) /\
    cur_lbp lbp rest <= rbp.
  Proof.
    intros fuel rbp ts t rest Hrbp H.
    destruct (sound_gen fuel) as [He _].
    apply He in H. destruct H as (Hf & Hg & Ho & Hr & Hh).
    repeat split; try assumption.
    destruct rest as [|[i a|s] tl]; simpl; try exact Hrbp.
    apply (Hh s tl eq_refl).
  Qed.

  (* ---------------------------------------------------------------- *)
  (* completeness *)

  (* what may follow a complete operand: end of input, a token of Lbp <= 0
     (e.g. ")"), or a binary operator of the core *)
  Definition follow_ok (ts : list tok) : Prop :=
    cur_lbp lbp ts <= 0 \/ exists s tl, ts = TSym s :: tl /\ infix s = true.

  Lemma led_stop : forall fuel rbp lft ts,
    cur_lbp lbp ts <= rbp -> led_loop fuel rbp lft ts = inl (lft, ts).
  Proof.
    intros fuel rbp lft ts Hle. destruct fuel as [|fuel].
    - rewrite led_O. apply Z.ltb_ge in Hle. rewrite Hle. reflexivity.
    - rewrite led_S. destruct ts as [|[i a|s] tl]; try reflexivity.
      simpl in Hle. apply Z.ltb_ge in Hle. rewrite Hle. reflexivity.
  Qed.

  Lemma follow_un : forall u ts, follow_ok ts -> cur_lbp lbp ts <= un_rbp u.
  Proof.
    intros u ts [Hle|(s & tl & Hts & Hinf)].
    - destruct un_nonneg as (H1 & H2 & H3). destruct u; simpl; lia.
    - subst ts. simpl. apply infix_un_rbp. exact Hinf.
  Qed.

  Lemma complete_gen : forall t,
    grouped lbp t -> ops_ok infix t = true ->
    forall f rbp ts',
      (List.length (flatten t) <= S f)%nat ->
      (forall p, root_prec lbp t = Some p -> rbp < p) ->
      follow_ok ts' ->
      (forall p, root_prec lbp t = Some p -> cur_lbp lbp ts' <= p) ->
      expr (S f) rbp (flatten t ++ ts')%list = led_loop (f - spine t) rbp t ts'.
  Proof.
    induction t as [i a|op l IHl r IHr|u e IHe|e IHe];
      intros Hg Ho f rbp ts' Hlen Hr Hfo Hcur.
    - (* Atom *)
      rewrite expr_S. simpl. rewrite Nat.sub_0_r. reflexivity.
    - (* Bin *)
      simpl in Hg. destruct Hg as (Hpos & Hgl & Hgr & Hll & Hrr).
      simpl in Ho. apply andb_true_iff in Ho. destruct Ho as [Ho Hor].
      apply andb_true_iff in Ho. destruct Ho as [Hinf Hol].
      simpl in Hlen. rewrite app_length in Hlen. simpl in Hlen.
      pose proof (spine_len l) as Hsl.
      pose proof (spine_len r) as Hsr.
      pose proof (Hr (lbp op) eq_refl) as Hlt.
      pose proof (Hcur (lbp op) eq_refl) as Hcle.
      simpl flatten. rewrite <- app_assoc. simpl app.
      rewrite (IHl Hgl Hol f rbp (TSym op :: flatten r ++ ts')%list).
      + remember (f - spine l - 2)%nat as g eqn:Eg.
        replace (f - spine l)%nat with (S (S g)) by lia.
        rewrite led_S.
        apply Z.ltb_lt in Hlt. rewrite Hlt. rewrite Hinf.
        rewrite (IHr Hgr Hor g (lbp op) ts').
        * rewrite (led_stop (g - spine r) (lbp op) r ts') by exact Hcle.
          simpl spine. f_equal. lia.
        * lia.
        * exact Hrr.
        * exact Hfo.
        * intros p Hp. pose proof (Hrr p Hp). lia.
      + lia.
      + intros p Hp. pose proof (Hll p Hp). lia.
      + right. exists op, (flatten r ++ ts')%list. split; [reflexivity|exact Hinf].
      + intros p Hp. simpl. apply Hll. exact Hp.
    - (* Un *)
      simpl in Hg. destruct Hg as [Hge Hnb].
      simpl in Ho. simpl in Hlen.
      pose proof (spine_len e) as Hse.
      simpl flatten. simpl app.
      rewrite expr_S. rewrite nud_un.
      destruct f as [|g]; [lia|].
      rewrite (IHe Hge Ho g (un_rbp u) ts').
      + rewrite (led_stop (g - spine e) (un_rbp u) e ts') by (apply follow_un; exact Hfo).
        simpl spine. rewrite Nat.sub_0_r. reflexivity.
      + lia.
      + intros p Hp. destruct e; simpl in Hnb; try discriminate Hnb; discriminate Hp.
      + exact Hfo.
      + intros p Hp. destruct e; simpl in Hnb; try discriminate Hnb; discriminate Hp.
    - (* Paren *)
      simpl in Hg. simpl in Ho. simpl in Hlen. rewrite app_length in Hlen. simpl in Hlen.
      pose proof (spine_len e) as Hse.
      simpl flatten. simpl app. rewrite <- app_assoc. simpl app.
      rewrite expr_S. rewrite nud_paren.
      destruct f as [|g]; [lia|].
      assert (Hroot : forall p, root_prec lbp e = Some p -> paren_rbp < p).
      { intros p Hp. destruct e as [i a|op l r|u' e'|e']; try discriminate Hp.
        simpl in Hp. injection Hp as <-. apply infix_paren.
        simpl in Ho. apply andb_true_iff in Ho. destruct Ho as [Ho _].
        apply andb_true_iff in Ho. destruct Ho as [Hop _]. exact Hop. }
      rewrite (IHe Hg Ho g paren_rbp (TSym ")" :: ts')).
      + rewrite (led_stop (g - spine e) paren_rbp e (TSym ")" :: ts'))
          by (simpl; rewrite close_lbp; exact paren_nonneg).
        simpl. rewrite ?Nat.sub_0_r. reflexivity.
      + lia.
      + exact Hroot.
      + left. simpl. rewrite close_lbp. lia.
      + intros p Hp. simpl. rewrite close_lbp. pose proof (Hroot p Hp). lia.
  Qed.

  Theorem pratt_complete : forall t, grouped lbp t -> ops_ok infix t = true ->
    parse (flatten t) = inl (t, []).
  Proof.
    intros t Hg Ho. unfold parse, Pratt.parse.
    change (expr (S (S (List.length (flatten t)))) 0 (flatten t) = inl (t, [])).
    rewrite <- (app_nil_r (flatten t)) at 2.
    rewrite (complete_gen t Hg Ho).
    - apply led_stop. simpl. lia.
    - lia.
    - intros p Hp. destruct t as [i a|op l r|u e|e]; try discriminate Hp.
      simpl in Hp. injection Hp as <-. simpl in Hg. tauto.
    - left. simpl. lia.
    - intros p Hp. destruct t as [i a|op l r|u e|e]; try discriminate Hp.
      simpl in Hp. injection Hp as <-. simpl in Hg. simpl. lia.
  Qed.

  Corollary grouping_unique : forall t1 t2,
    grouped lbp t1 -> ops_ok infix t1 = true -> grouped lbp t2 -> ops_ok infix t2 = true ->
    flatten t1 = flatten t2 -> t1 = t2.
  Proof.
    intros t1 t2 Hg1 Ho1 Hg2 Ho2 Hfl.
    pose proof (pratt_complete t1 Hg1 Ho1) as H1.
    pose proof (pratt_complete t2 Hg2 Ho2) as H2.
    rewrite Hfl in H1. rewrite H1 in H2. injection H2 as H2. exact H2.
  Qed.
End Generic.

(* transfer along an order isomorphism of precedences on the operators that occur *)
Lemma grouped_iso (p q : string -> Z) (P : string -> bool) :
  (forall a b, P a = true -> P b = true -> (p a < p b <-> q a < q b)) ->
  (forall a, P a = true -> (0 < p a <-> 0 < q a)) ->
  forall t, ops_ok P t = true -> (grouped p t <-> grouped q t).
Proof.
  intros Hlt Hpos.
  induction t as [i a|op l IHl r IHr|u e IHe|e IHe]; intros Ho; simpl.
  - tauto.
  - simpl in Ho. apply andb_true_iff in Ho. destruct Ho as [Ho Hor].
    apply andb_true_iff in Ho. destruct Ho as [Hop Hol].
    specialize (IHl Hol). specialize (IHr Hor).
    pose proof (Hpos op Hop) as Hp0.
    assert (HL : (forall x, root_prec p l = Some x -> p op <= x) <->
                 (forall x, root_prec q l = Some x -> q op <= x)).
    { destruct l as [i a|op' l' r'|u' e'|e']; simpl;
        try (split; intros _ x Hx; discriminate Hx).
      simpl in Hol. apply andb_true_iff in Hol. destruct Hol as [Hol _].
      apply andb_true_iff in Hol. destruct Hol as [Hop' _].
      pose proof (Hlt op' op Hop' Hop) as Hiff.
      split; intros H x Hx; injection Hx as <-; specialize (H _ eq_refl); lia. }
    assert (HR : (forall x, root_prec p r = Some x -> p op < x) <->
                 (forall x, root_prec q r = Some x -> q op < x)).
    { destruct r as [i a|op' l' r'|u' e'|e']; simpl;
        try (split; intros _ x Hx; discriminate Hx).
      simpl in Hor. apply andb_true_iff in Hor. destruct Hor as [Hor _].
      apply andb_true_iff in Hor. destruct Hor as [Hop' _].
      pose proof (Hlt op op' Hop Hop') as Hiff.
      split; intros H x Hx; injection Hx as <-; specialize (H _ eq_refl); lia. }
    tauto.
  - simpl in Ho. specialize (IHe Ho). tauto.
  - simpl in Ho. specialize (IHe Ho). tauto.
Qed.
