(* C09, frame isolation at every call depth.  Whatever lies below the operands a piece of
   code works on ([lo]: the caller's pending operands, and below them in the Go code the
   operands of every outer frame) is neither read nor changed by running that code, however
   deep the calls inside it nest: executing on [ops ++ lo] is executing on [ops] with [lo]
   carried along underneath.  Proved for every instruction ([step1_frame]) and then, by
   induction on the fuel over the mutual fixpoint, for [exec] and [call_fn] together.
   The only outcome excluded is [RStuck] on the short stack: an operand access below [ops]
   (which the longer stack would satisfy from [lo]). *)
From Coq Require Import ZArith String List Bool Lia.
From GV Require Import GoSpec.GoPrim Gen.ValueOps_gen Gen.Tables_gen Model.VM Proofs.C09_call.
Import ListNotations.
Open Scope Z_scope.

Definition lift_s (lo : list value) (r : sres) : sres :=
  match r with
  | SNext sl ops s => SNext sl (ops ++ lo)%list s
  | SJump d sl ops s => SJump d sl (ops ++ lo)%list s
  | SCall p fa a b sl ops s => SCall p fa a b sl (ops ++ lo)%list s
  | SRet sl ops s => SRet sl (ops ++ lo)%list s
  | r => r
  end.

Definition lift_r (lo : list value) (r : result) : result :=
  match r with RDone sl ops s => RDone sl (ops ++ lo)%list s | r => r end.

Definition lift_c (lo : list value) (r : cres) : cres :=
  match r with COk ops s => COk (ops ++ lo)%list s | r => r end.

Section Frame.
  Variable grow : Z -> Z -> Z.
  Variable ext_get : st -> value -> value -> option (res value).
  Variable ext_set : st -> value -> value -> value -> option (res st).
  Variable ext_len : st -> value -> option Z.
  Variable ext_getattr : st -> value -> Z -> option (res (value * st)).
  Variable ext_setattr : st -> value -> Z -> value -> option (res st).

  Notation stepf := (step1 grow ext_get ext_set ext_len ext_getattr ext_setattr).
  Notation execf := (exec grow ext_get ext_set ext_len ext_getattr ext_setattr).
  Notation callf := (call_fn grow ext_get ext_set ext_len ext_getattr ext_setattr).

  Definition frame_ok_s (lo : list value) (R L : sres) : Prop :=
    match R with SStuck _ => True | r => L = lift_s lo r end.

  Lemma ite_frame lo (b : bool) A A' B B' :
    frame_ok_s lo A A' -> frame_ok_s lo B B' ->
    frame_ok_s lo (if b then A else B) (if b then A' else B').
  Proof. destruct b; auto. Qed.

  Ltac leaf lo :=
    unfold frame_ok_s;
    repeat first
    [ progress cbn [app lift_s slift]
    | match goal with
      | |- True => exact I
      | |- ?x = ?x => reflexivity
      | |- context [popn ?n (?o ++ lo)%list ?acc] =>
          let E := fresh "EP" in
          destruct (popn n o acc) as [[? ?]|] eqn:E;
          [ rewrite (popn_frame _ _ _ _ _ lo E) | ]
      | |- context [match (?o ++ lo)%list with _ => _ end] => is_var o; destruct o
      | |- context [match ?x with _ => _ end] =>
          lazymatch x with
          | context [match _ with _ => _ end] => fail
          | _ => destruct x eqn:?
          end
      end ].

  Ltac chain lo :=
    lazymatch goal with
    | |- frame_ok_s lo (match ?b with Some _ => _ | None => _ end) _ =>
        lazymatch type of b with
        | option (value -> value -> res value) => destruct b; cbv beta iota; chain lo
        | _ => leaf lo
        end
    | |- frame_ok_s lo (if ?b then _ else _) (if ?b then _ else _) =>
        lazymatch type of b with
        | bool => apply ite_frame; [ chain lo | chain lo ]
        | _ => leaf lo
        end
    | |- _ => leaf lo
    end.

  (* one instruction: same step, [lo] carried along *)
  Lemma step1_frame codes pc i slots ops s lo :
    frame_ok_s lo (stepf codes pc i slots ops s) (stepf codes pc i slots (ops ++ lo)%list s).
  Proof.
    unfold step1, slift. cbv zeta. generalize (icode i) as c. intro c.
    chain lo.
  Qed.

  (* ---- calls and whole runs --------------------------------------------------------------- *)

  Definition frame_ok_r (lo : list value) (R L : result) : Prop :=
    match R with RStuck _ => True | r => L = lift_r lo r end.
  Definition frame_ok_c (lo : list value) (R L : cres) : Prop :=
    match R with CErr (RStuck _) => True | r => L = lift_c lo r end.

  Lemma exec_S fuel codes pc slots ops s :
    execf (S fuel) codes pc slots ops s =
      match znth codes pc with
      | None => RDone slots ops s
      | Some i =>
          match stepf codes pc i slots ops s with
          | SNext slots' ops' s' => execf fuel codes (pc + 1) slots' ops' s'
          | SJump d slots' ops' s' => execf fuel codes (pc + d + 1) slots' ops' s'
          | SCall pack fa xArgs xRets slots' ops' s' =>
              match callf fuel pack fa xArgs xRets (ipos i) ops' s' with
              | COk ops'' s'' => execf fuel codes (pc + 1) slots' ops'' s''
              | CErr r => r
              end
          | SRet slots' ops' s' => RDone slots' ops' s'
          | SFail msg s' => RFail msg (ipos i) s'
          | SStuck w => RStuck w
          | SUnmod w => RUnmod w
          end
      end.
  Proof. reflexivity. Qed.

  Ltac leafc lo :=
    repeat first
    [ progress cbn [app lift_c]
    | match goal with
      | |- True => exact I
      | |- ?x = ?x => reflexivity
      | |- COk (_ ++ _ ++ lo)%list _ = COk ((_ ++ _) ++ lo)%list _ => rewrite app_assoc; reflexivity
      | |- context [popn ?n (?x :: ?o ++ lo)%list ?acc] =>
          let E := fresh "EP" in
          destruct (popn n (x :: o) acc) as [[? ?]|] eqn:E;
          [ change (popn n (x :: o ++ lo)%list acc) with (popn n ((x :: o) ++ lo)%list acc);
            rewrite (popn_frame _ _ _ _ _ lo E) | ]
      | |- context [popn ?n (?o ++ lo)%list ?acc] =>
          let E := fresh "EP" in
          destruct (popn n o acc) as [[? ?]|] eqn:E;
          [ rewrite (popn_frame _ _ _ _ _ lo E) | ]
      | |- context [match ?x with _ => _ end] =>
          lazymatch x with
          | context [match _ with _ => _ end] => fail
          | _ => destruct x eqn:?
          end
      end ].

  (* a call: the callee's body runs on an empty operand stack of its own, so whatever the call
     does not pop as arguments is handed back untouched; the outcome does not depend on it *)
  Lemma call_frame fuel pack fa xArgs xRets pos ops s lo :
    frame_ok_c lo (callf fuel pack fa xArgs xRets pos ops s)
                  (callf fuel pack fa xArgs xRets pos (ops ++ lo)%list s).
  Proof.
    destruct fuel; [reflexivity|].
    rewrite !call_fn_S. unfold frame_ok_c. cbv zeta.
    destruct (hget s fa) as [[nargs nrets variadic vtype nslots types body|name| | | | |]|]; try reflexivity.
    - destruct (variadic && pack).
      + destruct (xArgs - nargs + 1 <? 0); [reflexivity|].
        destruct (popn (Z.to_nat (xArgs - nargs + 1)) ops []) as [[vargs rest]|] eqn:EP; [|exact I].
        rewrite (popn_frame _ _ _ _ _ lo EP).
        destruct (variadic_arg s vtype _ _) as [s1 sv].
        destruct (negb (xArgs - (xArgs - nargs + 1) + 1 =? nargs)); [reflexivity|].
        leafc lo.
      + destruct (negb (xArgs =? nargs)); [reflexivity|]. leafc lo.
    - match goal with |- context [if ?c then (if negb pack then _ else _) else _] => destruct c end; [|reflexivity].
      destruct (negb pack); [reflexivity|].
      destruct (popn (Z.to_nat xArgs) ops []) as [[args rest]|] eqn:EP; [|exact I].
      rewrite (popn_frame _ _ _ _ _ lo EP).
      destruct (all_some (map to_string args)); [|reflexivity].
      destruct (0 <? xRets); reflexivity.
  Qed.

  (* a call never hands a body's [RDone] on as an error *)
  Lemma call_not_done fuel pack fa xArgs xRets pos ops s sl o s' :
    callf fuel pack fa xArgs xRets pos ops s <> CErr (RDone sl o s').
  Proof.
    destruct fuel; [discriminate|].
    rewrite call_fn_S. cbv zeta.
    destruct (hget s fa) as [[nargs nrets variadic vtype nslots types body|name| | | | |]|]; try discriminate.
    - destruct (variadic && pack).
      + destruct (xArgs - nargs + 1 <? 0); [discriminate|].
        destruct (popn (Z.to_nat (xArgs - nargs + 1)) ops []) as [[vargs rest]|]; [|discriminate].
        destruct (variadic_arg s vtype _ _) as [s1 sv].
        destruct (negb (xArgs - (xArgs - nargs + 1) + 1 =? nargs)); [discriminate|].
        destruct (popn (Z.to_nat nargs) (sv :: rest) []) as [[args rest']|]; [|discriminate].
        destruct (execf fuel body 0 _ [] (push_bt s1 pos)); try discriminate.
        destruct (zlen (rev ops0) <? nrets); [discriminate|].
        destruct (zlen (rev ops0) <? xRets); discriminate.
      + destruct (negb (xArgs =? nargs)); [discriminate|].
        destruct (popn (Z.to_nat nargs) ops []) as [[args rest']|]; [|discriminate].
        destruct (execf fuel body 0 _ [] (push_bt s pos)); try discriminate.
        destruct (zlen (rev ops0) <? nrets); [discriminate|].
        destruct (zlen (rev ops0) <? xRets); discriminate.
    - match goal with |- context [if ?c then (if negb pack then _ else _) else _] => destruct c end; [|discriminate].
      destruct (negb pack); [discriminate|].
      destruct (popn (Z.to_nat xArgs) ops []) as [[args rest]|]; [|discriminate].
      destruct (all_some (map to_string args)); [|discriminate].
      destruct (0 <? xRets); discriminate.
  Qed.

  (* any code, any nesting depth of calls inside it *)
  Lemma exec_frame fuel : forall codes pc slots ops s lo,
    frame_ok_r lo (execf fuel codes pc slots ops s) (execf fuel codes pc slots (ops ++ lo)%list s).
  Proof.
    induction fuel as [|f IH]; intros codes pc slots ops s lo; [reflexivity|].
    rewrite !exec_S.
    destruct (znth codes pc) as [i|]; [|reflexivity].
    pose proof (step1_frame codes pc i slots ops s lo) as HS. unfold frame_ok_s in HS.
    destruct (stepf codes pc i slots ops s) eqn:E; try rewrite HS; cbn [lift_s].
    - apply IH.
    - apply IH.
    - pose proof (call_frame f pack fa xArgs xRets (ipos i) ops0 s0 lo) as HC. unfold frame_ok_c in HC.
      destruct (callf f pack fa xArgs xRets (ipos i) ops0 s0) as [ops2 s2|r] eqn:EC.
      + rewrite HC. cbn [lift_c]. apply IH.
      + destruct r; try (rewrite HC; reflexivity); [|exact I].
        exfalso. exact (call_not_done _ _ _ _ _ _ _ _ _ _ _ EC).
    - reflexivity.
    - reflexivity.
    - exact I.
    - reflexivity.
  Qed.

  (* the same, as implications *)
  Lemma exec_frame_ns fuel codes pc slots ops s lo :
    (forall w, execf fuel codes pc slots ops s <> RStuck w) ->
    execf fuel codes pc slots (ops ++ lo)%list s = lift_r lo (execf fuel codes pc slots ops s).
  Proof.
    intros H. pose proof (exec_frame fuel codes pc slots ops s lo) as F. unfold frame_ok_r in F.
    destruct (execf fuel codes pc slots ops s); try exact F. exfalso. eapply H. reflexivity.
  Qed.

  Lemma call_frame_ns fuel pack fa xArgs xRets pos ops s lo :
    (forall w, callf fuel pack fa xArgs xRets pos ops s <> CErr (RStuck w)) ->
    callf fuel pack fa xArgs xRets pos (ops ++ lo)%list s = lift_c lo (callf fuel pack fa xArgs xRets pos ops s).
  Proof.
    intros H. pose proof (call_frame fuel pack fa xArgs xRets pos ops s lo) as F. unfold frame_ok_c in F.
    destruct (callf fuel pack fa xArgs xRets pos ops s) as [o s'|r]; [exact F|].
    destruct r; try exact F. exfalso. eapply H. reflexivity.
  Qed.

  (* ---- the caller's view: a call with its arguments on top of [lo] -------------------------------- *)

  Lemma finish_lift nargs nrets xRets pos types lo r :
    finish nargs nrets xRets pos types lo r = lift_c lo (finish nargs nrets xRets pos types [] r).
  Proof.
    unfold finish. destruct r; try reflexivity.
    destruct (zlen (rev ops) <? nrets); [reflexivity|].
    destruct (zlen (rev ops) <? xRets); [reflexivity|].
    cbn [lift_c]. now rewrite app_nil_r.
  Qed.

  (* With all its xArgs arguments present, a call of a script function answers the same whatever
     lies below them, at every fuel (= however deep the calls inside nest): [lo] comes back untouched
     under the results, and errors (wrong counts, failures and stuck states of the body) are the same. *)
  Lemma call_args_frame fuel pack fa xArgs xRets pos args lo s nargs nrets variadic vtype nslots types body :
    hget s fa = Some (HFunc nargs nrets variadic vtype nslots types body) ->
    (variadic = true -> 1 <= nargs) ->
    zlen args = xArgs ->
    callf fuel pack fa xArgs xRets pos (rev args ++ lo)%list s =
      lift_c lo (callf fuel pack fa xArgs xRets pos (rev args) s).
  Proof.
    intros H HW HA. destruct fuel as [|fuel]; [reflexivity|].
    destruct (variadic && pack) eqn:HV.
    - apply andb_true_iff in HV. destruct HV as [-> ->]. specialize (HW eq_refl).
      destruct (Z_lt_le_dec xArgs (nargs - 1)) as [Hf|Hf].
      + rewrite !(call_variadic_few _ _ _ _ _ _ _ _ _ _ _ _ _ _ _ _ _ _ _ H Hf). reflexivity.
      + set (fixed := firstn (Z.to_nat (nargs - 1)) args). set (extra := skipn (Z.to_nat (nargs - 1)) args).
        assert (EA : args = (fixed ++ extra)%list) by (symmetry; apply firstn_skipn).
        assert (LF : zlen fixed = nargs - 1) by (apply zlen_firstn; lia).
        assert (EX : xArgs = zlen fixed + zlen extra) by (rewrite <- HA, EA, zlen_app; reflexivity).
        rewrite EA, rev_app_distr, <- app_assoc, EX.
        pose proof (call_variadic_gen grow ext_get ext_set ext_len ext_getattr ext_setattr
                    fuel fa xRets pos fixed extra lo s nargs nrets vtype nslots types body H LF) as E1.
        pose proof (call_variadic_gen grow ext_get ext_set ext_len ext_getattr ext_setattr
                    fuel fa xRets pos fixed extra [] s nargs nrets vtype nslots types body H LF) as E2.
        cbv zeta in E1, E2. rewrite E1. rewrite app_nil_r in E2. rewrite E2.
        set (s1 := fst (variadic_arg s vtype (zlen extra) extra)) in *.
        set (sv := snd (variadic_arg s vtype (zlen extra) extra)) in *.
        assert (Hh : hget s1 fa = Some (HFunc nargs nrets true vtype nslots types body))
          by (apply hget_variadic_arg; exact H).
        assert (LA : zlen (fixed ++ [sv]) = nargs) by (rewrite zlen_app; unfold zlen at 2; cbn [List.length]; lia).
        rewrite (call_exact _ _ _ _ _ _ _ _ _ _ _ _ _ _ _ _ _ _ _ _ _ Hh eq_refl LA).
        rewrite (call_exact _ _ _ _ _ _ _ _ _ _ _ _ _ _ _ _ _ _ _ _ _ Hh eq_refl LA).
        apply finish_lift.
    - destruct (Z.eq_dec xArgs nargs) as [->|Hne].
      + rewrite (call_exact _ _ _ _ _ _ _ _ _ _ _ _ _ _ _ _ _ _ _ _ _ H HV HA).
        rewrite <- (app_nil_r (rev args)).
        rewrite (call_exact _ _ _ _ _ _ _ _ _ _ _ _ _ _ _ _ _ _ _ _ _ H HV HA).
        apply finish_lift.
      + rewrite !(call_wrong_args _ _ _ _ _ _ _ _ _ _ _ _ _ _ _ _ _ _ _ _ _ H HV Hne). reflexivity.
  Qed.
End Frame.
