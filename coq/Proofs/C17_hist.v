(* C17, part 3: histories (Load | capture/store | call | identity test) and what
   a Load does to package-level variables. *)
From Coq Require Import ZArith List Bool Lia.
From GV Require Import Model.Reload Proofs.C17_base Proofs.C17_reload.
Import ListNotations.
Open Scope Z_scope.

(* stores made by scripts or the host go to variables, never to the name of a declared
   function or type (Go has no assignment to a function or type name) *)
Definition protected (S : sig) (n : name) : Prop := In n (tnames S) \/ In n (sfuncs S).
Definition hop_ok (S : sig) (o : hop) : Prop :=
  match o with HStore (LGlobal n) _ => ~ protected S n | _ => True end.
Definition hist_ok (S : sig) (h : list hop) : Prop := Forall (hop_ok S) h.

Fixpoint last_load (h : list hop) : option nat :=
  match h with
  | [] => None
  | o :: r => match last_load r with
              | Some v => Some v
              | None => match o with HLoad v => Some v | _ => None end
              end
  end.

Lemma last_load_app : forall h1 h2,
  last_load (h1 ++ h2) = match last_load h2 with Some v => Some v | None => last_load h1 end.
Proof.
  induction h1; simpl; intros.
  - destruct (last_load h2); auto.
  - rewrite IHh1. destruct (last_load h2); auto.
Qed.

Lemma run_app : forall prog h1 h2 st,
  run prog st (h1 ++ h2) =
  match run prog st h1 with
  | Some (st1, o1) => match run prog st1 h2 with Some (st2, o2) => Some (st2, (o1 ++ o2)%list) | None => None end
  | None => None
  end.
Proof.
  induction h1; simpl; intros.
  - destruct (run prog st h2) as [[]|]; auto.
  - destruct (step prog st a) as [[st1 ob]|]; auto. rewrite IHh1.
    destruct (run prog st1 h1) as [[st2 o1]|]; auto.
    destruct (run prog st2 h2) as [[st3 o2]|]; auto. now rewrite app_assoc.
Qed.

(* ---- what an operation other than Load can change ------------------------------- *)
Definition hframe (S : sig) (st st' : state) : Prop :=
  types st' = types st /\ (exists x, funcs st' = funcs st ++ x)%list /\
  (forall n, protected S n -> gget st' n = gget st n) /\ (exists y, slots st' = slots st ++ y)%list.

Lemma frame_hframe : forall S st st', frame st st' -> hframe S st st'.
Proof.
  intros S st st' F. pose proof F as (T & G & SL & FX & _). repeat split; auto.
  - intros. eapply frame_gget; eauto.
  - exists []. now rewrite app_nil_r.
Qed.
Lemma hframe_trans : forall S a b c, hframe S a b -> hframe S b c -> hframe S a c.
Proof.
  intros S a b c (T1 & [x1 F1] & G1 & [y1 S1]) (T2 & [x2 F2] & G2 & [y2 S2]). repeat split.
  - congruence.
  - exists (x1 ++ x2)%list. rewrite F2, F1. now rewrite app_assoc.
  - intros. rewrite G2, G1; auto.
  - exists (y1 ++ y2)%list. rewrite S2, S1. now rewrite app_assoc.
Qed.

Lemma store_hframe : forall S st l v st', hop_ok S (HStore l (EArg (AConst 0))) -> store st l v = Some st' -> hframe S st st'.
Proof.
  intros S st l v st' OK E.
  assert (NIL : forall A (x : list A), exists y, x = (x ++ y)%list) by (intros; exists []; now rewrite app_nil_r).
  destruct l; simpl in *.
  - inv E. unfold hframe; simpl. split; [reflexivity|]. split; [apply NIL|]. split; [reflexivity|]. eauto.
  - inv E. unfold hframe; simpl. split; [reflexivity|]. split; [apply NIL|]. split; [|apply NIL].
    intros m P. apply gget_gset_other. intro. subst. contradiction.
  - destruct (eval_path st p) as [[st1 []]|] eqn:EP; try discriminate.
    destruct (nth_error (insts st1) a); inv E.
    eapply hframe_trans. eapply frame_hframe. eapply eval_path_frame; eauto.
    unfold hframe; simpl. split; [reflexivity|]. split; [apply NIL|]. split; [reflexivity|apply NIL].
Qed.

Lemma step_hframe : forall S prog st o st' ob, (forall v, o <> HLoad v) -> hop_ok S o ->
  step prog st o = Some (st', ob) -> hframe S st st'.
Proof.
  intros S prog st o st' ob NL OK E. destruct o; simpl in E.
  - exfalso. eapply NL; eauto.
  - destruct (eval_expr st e) as [[st1 v]|] eqn:EE; try discriminate.
    destruct (store st1 l v) as [st2|] eqn:ES; inv E.
    eapply hframe_trans. eapply frame_hframe. eapply eval_expr_frame; eauto.
    eapply store_hframe; [|exact ES]. destruct l; simpl in *; auto.
  - destruct (eval_path st p) as [[st1 v]|] eqn:EP; try discriminate.
    destruct (call_obs st1 v); inv E. eapply frame_hframe. eapply eval_path_frame; eauto.
  - destruct (eval_path st p) as [[st1 v]|] eqn:EP; try discriminate.
    destruct (eval_path st1 q) as [[st2 w]|] eqn:EQ; try discriminate.
    destruct (same_obj v w); inv E.
    eapply frame_hframe. eapply frame_trans; eapply eval_path_frame; eauto.
Qed.

Section Hist.
  Variable S : sig.
  Hypothesis WF : wf_sig S.
  Variable beta : nat -> bodies.                      (* version number -> its bodies *)
  Definition prog (v : nat) : list instr := version_of S (beta v).

  Definition Latest (st : state) (v : nat) : Prop :=
    forall k a, key_ok S k -> fn_addr st k = Some a -> nth_error (funcs st) a = Some (FBody (body_of (beta v) k)).
  Definition Defined (st : state) : Prop := forall k, key_ok S k -> exists a, fn_addr st k = Some a.
  Definition Stable (st st' : state) : Prop :=
    (forall k a, key_ok S k -> fn_addr st k = Some a -> fn_addr st' k = Some a) /\
    (forall c r f, nth_error (funcs st) c = Some (FBound r f) -> nth_error (funcs st') c = Some (FBound r f)) /\
    (exists y, slots st' = slots st ++ y)%list.

  Lemma key_protected : forall k, key_ok S k -> protected S (key_name k).
  Proof. destruct k; simpl; intros. now right. left. eapply wf_meth; eauto. Qed.

  Lemma hframe_fn_addr : forall st st' k, hframe S st st' -> key_ok S k -> fn_addr st' k = fn_addr st k.
  Proof.
    intros st st' k (T & _ & G & _) KO. pose proof (G _ (key_protected k KO)) as GK.
    destruct k; simpl in *; rewrite GK; auto. now rewrite T.
  Qed.

  Lemma hframe_inv : forall st st', hframe S st st' -> Inv S st -> Inv S st'.
  Proof.
    intros st st' H I. pose proof H as (T & [x F] & G & _). split.
    - intros k a KO FA. rewrite (hframe_fn_addr _ _ _ H KO) in FA.
      destruct (inv_faddr S st I k a KO FA) as [b N]. exists b. rewrite F. now apply nth_app_old.
    - intros k k' a KO KO' FA FA'. rewrite (hframe_fn_addr _ _ _ H KO) in FA. rewrite (hframe_fn_addr _ _ _ H KO') in FA'.
      eapply (inv_inj S st I); eauto.
    - intros t ta TN GG. rewrite G in GG by (left; auto). rewrite T. eapply (inv_ty S st I); eauto.
    - intros t t' ta TN TN' GG GG'. rewrite G in GG by (left; auto). rewrite G in GG' by (left; auto).
      eapply (inv_tyinj S st I); eauto.
  Qed.

  Lemma hframe_stable : forall st st', hframe S st st' -> Stable st st'.
  Proof.
    intros st st' H. pose proof H as (T & [x F] & G & SL). repeat split; auto.
    - intros k a KO FA. now rewrite (hframe_fn_addr _ _ _ H KO).
    - intros. rewrite F. now apply nth_app_old.
  Qed.

  Lemma hframe_latest : forall st st' v, hframe S st st' -> Latest st v -> Latest st' v.
  Proof.
    intros st st' v H L k a KO FA. rewrite (hframe_fn_addr _ _ _ H KO) in FA.
    destruct H as (_ & [x F] & _). rewrite F. apply nth_app_old. now apply L.
  Qed.

  Lemma stable_trans : forall a b c, Stable a b -> Stable b c -> Stable a c.
  Proof.
    intros a b c (A1 & B1 & [y1 S1]) (A2 & B2 & [y2 S2]). repeat split; auto.
    exists (y1 ++ y2)%list. rewrite S2, S1. now rewrite app_assoc.
  Qed.

  Lemma load_slots : forall is st st', exec_list st is = Some st' ->
    slots st' = slots st /\ exists y, (insts st' = insts st ++ y)%list.
  Proof.
    induction is as [|i is IH]; simpl; intros st st' E.
    - inv E. split; auto. exists []. now rewrite app_nil_r.
    - destruct (exec_instr st i) as [st1|] eqn:E1; try discriminate.
      destruct (IH _ _ E) as [SL [y IN]].
      assert (slots st1 = slots st /\ exists y1, (insts st1 = insts st ++ y1)%list) as [SL1 [y1 IN1]].
      { destruct i.
        - apply exec_GlobalStruct in E1. destruct E1 as [[_ ->]|(ta & ty & _ & _ & ->)]; split; auto; exists []; simpl; now rewrite app_nil_r.
        - apply exec_SetMethod in E1. destruct E1 as (ta & ty & _ & _ & [(a & _ & _ & ->)|(_ & ->)]); split; auto; exists []; simpl; now rewrite app_nil_r.
        - apply exec_GlobalFunc in E1. destruct E1 as [[_ ->]|(a & _ & _ & ->)]; split; auto; exists []; simpl; now rewrite app_nil_r.
        - apply exec_GlobalZero in E1. destruct E1 as [[_ ->]|[_ ->]]; split; auto; exists []; simpl; now rewrite app_nil_r.
        - apply exec_GlobalSet in E1. destruct E1 as (s1 & v & _ & (_ & _ & SS & _ & II) & ->). split; auto. }
      split. congruence. exists (y1 ++ y)%list. rewrite IN, IN1. now rewrite app_assoc.
  Qed.

  (* one step of a history *)
  Lemma step_good : forall st o st' ob, hop_ok S o -> Inv S st -> step prog st o = Some (st', ob) ->
    Inv S st' /\ Stable st st' /\
    match o with
    | HLoad v => Latest st' v /\ Defined st'
    | _ => (forall v, Latest st v -> Latest st' v)
    end.
  Proof.
    intros st o st' ob OK I E.
    destruct o as [v|l e|p|p q].
    - simpl in E. destruct (exec_list st (prog v)) as [st1|] eqn:EL; inv E.
      destruct (version_ok S (beta v)) as [VO VB].
      pose proof (exec_list_inv S WF _ _ _ VO I EL) as I'.
      destruct (exec_list_stable S WF _ _ _ VO I EL) as [SA SB].
      destruct (load_slots _ _ _ EL) as [SL _].
      split; [exact I'|]. split; [split; [exact SA| split; [exact SB| exists []; rewrite SL; now rewrite app_nil_r]]|].
      split.
      + intros k a KO FA.
        destruct (exec_list_latest S WF (beta v) _ _ _ VO VB I EL k a KO FA) as [Y _].
        apply Y. now apply version_has_key.
      + intros k KO. apply (exec_list_defined S WF _ _ _ VO I EL k KO). now apply version_has_key.
    - assert (H : hframe S st st') by (eapply step_hframe; eauto; congruence).
      split; [eapply hframe_inv; eauto|]. split; [apply hframe_stable; auto | intros; eapply hframe_latest; eauto].
    - assert (H : hframe S st st') by (eapply step_hframe; eauto; congruence).
      split; [eapply hframe_inv; eauto|]. split; [apply hframe_stable; auto | intros; eapply hframe_latest; eauto].
    - assert (H : hframe S st st') by (eapply step_hframe; eauto; congruence).
      split; [eapply hframe_inv; eauto|]. split; [apply hframe_stable; auto | intros; eapply hframe_latest; eauto].
  Qed.

  Lemma stable_defined : forall st st', Stable st st' -> Defined st -> Defined st'.
  Proof. intros st st' (A & _) D k KO. destruct (D k KO) as [a F]. eauto. Qed.

  Lemma run_good : forall h st st' o, hist_ok S h -> Inv S st -> run prog st h = Some (st', o) ->
    Inv S st' /\ Stable st st' /\
    match last_load h with
    | Some v => Latest st' v /\ Defined st'
    | None => (forall v, Latest st v -> Latest st' v)
    end.
  Proof.
    induction h as [|op r IH]; simpl; intros st st' o OK I E.
    - inv E. split; [auto|]. split; [|auto]. split; [auto|]. split; [auto|]. exists []. now rewrite app_nil_r.
    - inv OK. destruct (step prog st op) as [[st1 ob]|] eqn:ES; try discriminate.
      destruct (run prog st1 r) as [[st2 obs]|] eqn:ER; inv E.
      destruct (step_good _ _ _ _ H1 I ES) as (I1 & S1 & L1).
      destruct (IH _ _ _ H2 I1 ER) as (I2 & S2 & L2).
      split; auto. split. eapply stable_trans; eauto.
      destruct (last_load r) as [v|]; auto.
      destruct op; auto.
      destruct L1 as [LA DE]. split; auto. eapply stable_defined; eauto.
  Qed.

  (* ---- the theorems ------------------------------------------------------------------- *)

  (* every declared function / method has ONE function object from its first Load on; bound-method
     objects keep receiver and target; what the host keeps, it keeps *)
  Theorem identity : forall h1 h2 st1 o1 st2 o2, hist_ok S h1 -> hist_ok S h2 ->
    run prog init_state h1 = Some (st1, o1) -> run prog st1 h2 = Some (st2, o2) ->
    (forall k a, key_ok S k -> fn_addr st1 k = Some a -> fn_addr st2 k = Some a) /\
    (last_load h1 <> None -> forall k, key_ok S k -> exists a, fn_addr st1 k = Some a) /\
    (forall k k' a, key_ok S k -> key_ok S k' -> fn_addr st1 k = Some a -> fn_addr st1 k' = Some a -> k = k') /\
    (forall c r f, nth_error (funcs st1) c = Some (FBound r f) -> nth_error (funcs st2) c = Some (FBound r f)) /\
    (forall i v, nth_error (slots st1) i = Some v -> nth_error (slots st2) i = Some v).
  Proof.
    intros h1 h2 st1 o1 st2 o2 OK1 OK2 R1 R2.
    destruct (run_good _ _ _ _ OK1 (inv_init S) R1) as (I1 & _ & L1).
    destruct (run_good _ _ _ _ OK2 I1 R2) as (I2 & (SA & SB & [y SL]) & _).
    repeat split; auto.
    - intros NL. destruct (last_load h1); [tauto|congruence].
    - intros. eapply (inv_inj S st1 I1); eauto.
    - intros. rewrite SL. now apply nth_app_old.
  Qed.

  (* after any history, every declared function object holds the body of the version loaded last *)
  Theorem latest : forall h st o v, hist_ok S h -> run prog init_state h = Some (st, o) -> last_load h = Some v ->
    forall k a, key_ok S k -> fn_addr st k = Some a ->
      nth_error (funcs st) a = Some (FBody (body_of (beta v) k)).
  Proof.
    intros h st o v OK R LL. destruct (run_good _ _ _ _ OK (inv_init S) R) as (_ & _ & L).
    rewrite LL in L. destruct L as [LA _]. exact LA.
  Qed.

  (* ... so a call through a reference taken at ANY earlier point -- the function value itself, or a
     bound method made from it -- runs the body of the version loaded last *)
  Theorem latest_call : forall h1 h2 st1 o1 st2 o2 v, hist_ok S h1 -> hist_ok S h2 ->
    run prog init_state h1 = Some (st1, o1) -> run prog st1 h2 = Some (st2, o2) ->
    last_load (h1 ++ h2) = Some v ->
    forall k c, key_ok S k ->
      (fn_addr st1 k = Some c -> call_obs st2 (VFunc c) = Some (OCall (body_of (beta v) k) None)) /\
      (forall r a, nth_error (funcs st1) c = Some (FBound r a) -> fn_addr st1 k = Some a ->
                   call_obs st2 (VFunc c) = Some (OCall (body_of (beta v) k) (Some r))).
  Proof.
    intros h1 h2 st1 o1 st2 o2 v OK1 OK2 R1 R2 LL k c KO.
    assert (R : run prog init_state (h1 ++ h2) = Some (st2, (o1 ++ o2)%list)) by (rewrite run_app, R1, R2; auto).
    assert (OK : hist_ok S (h1 ++ h2)) by (apply Forall_app; auto).
    pose proof (latest _ _ _ _ OK R LL) as LA.
    destruct (identity _ _ _ _ _ _ OK1 OK2 R1 R2) as (SA & _ & _ & SB & _).
    split.
    - intros F. simpl. rewrite (LA k c KO (SA _ _ KO F)). reflexivity.
    - intros r a N F. simpl. rewrite (SB _ _ _ N). rewrite (LA k a KO (SA _ _ KO F)). reflexivity.
  Qed.
End Hist.

(* ---- package-level variables across one Load ---------------------------------------- *)
Lemma exec_writes : forall st i st' x, exec_instr st i = Some st' -> writes i <> Some x ->
  lookup x (globals st') = lookup x (globals st).
Proof.
  intros st i st' x E W. destruct i; simpl in W.
  - apply exec_GlobalStruct in E. destruct E as [[_ ->]|(ta & ty & _ & _ & ->)]; auto.
    rewrite glookup_gset_other by congruence. reflexivity.
  - apply exec_SetMethod in E. destruct E as (ta & ty & _ & _ & [(a & _ & _ & ->)|(_ & ->)]); auto.
  - apply exec_GlobalFunc in E. destruct E as [[_ ->]|(a & _ & _ & ->)]; auto.
    rewrite glookup_gset_other by congruence. reflexivity.
  - apply exec_GlobalZero in E. destruct E as [[_ ->]|[_ ->]]; auto. rewrite glookup_gset_other by congruence. reflexivity.
  - apply exec_GlobalSet in E. destruct E as (st1 & v & _ & (_ & G & _) & ->).
    rewrite glookup_gset_other by congruence. now rewrite G.
Qed.

Lemma exec_list_writes : forall is st st' x, exec_list st is = Some st' ->
  Forall (fun i => writes i <> Some x) is -> lookup x (globals st') = lookup x (globals st).
Proof.
  induction is as [|i is IH]; simpl; intros st st' x E W. now inv E.
  inv W. destruct (exec_instr st i) as [st1|] eqn:E1; try discriminate.
  rewrite (IH _ _ _ E H2). eapply exec_writes; eauto.
Qed.

Lemma exec_list_app : forall l1 l2 st st', exec_list st (l1 ++ l2) = Some st' ->
  exists st1, exec_list st l1 = Some st1 /\ exec_list st1 l2 = Some st'.
Proof.
  induction l1; simpl; intros. eauto.
  destruct (exec_instr st a); try discriminate. eauto.
Qed.

Lemma gget_lookup : forall st st' x, lookup x (globals st') = lookup x (globals st) -> gget st' x = gget st x.
Proof. unfold gget. intros. now rewrite H. Qed.

(* from ANY machine state: once a list of instructions in which only GLOBALFUNC f writes the global f has
   run through and contained such an instruction (or f held a function object to begin with), f holds a
   function object *)
Lemma exec_list_func_defined : forall is st st' f, exec_list st is = Some st' ->
  Forall (fun i => writes i = Some f -> exists b, i = GlobalFunc f b) is ->
  (exists b, In (GlobalFunc f b) is) \/ (exists a, gget st f = VFunc a) ->
  exists a, gget st' f = VFunc a.
Proof.
  induction is as [|i is IH]; simpl; intros st st' f E W H.
  - inv E. destruct H as [[b []]|H]; exact H.
  - inv W. destruct (exec_instr st i) as [st1|] eqn:E1; try discriminate.
    apply (IH st1 st' f E H3).
    assert (D : {writes i = Some f} + {writes i <> Some f}).
    { destruct (writes i) as [n|]; [|right; discriminate].
      destruct (Z.eq_dec n f) as [->|NE]; [left; reflexivity|right; congruence]. }
    destruct D as [Wf|Wf].
    + right. destruct (H2 Wf) as [b ->].
      apply exec_GlobalFunc in E1. destruct E1 as [[_ ->]|(a & G & _ & ->)].
      * rewrite gget_gset_same. eauto.
      * rewrite gget_set_funcs. eauto.
    + destruct H as [[b [->|HI]]|[a G]].
      * exfalso. apply Wf. reflexivity.
      * left. eauto.
      * right. exists a. rewrite (gget_lookup _ _ _ (exec_writes _ _ _ _ E1 Wf)). exact G.
Qed.

Section State.
  Variable S : sig.
  Hypothesis WF : wf_sig S.
  Variable B : bodies.

  Definition decls_before : list instr :=
    (map (fun tf => GlobalStruct (fst tf) (snd tf)) (stypes S)
     ++ map (fun tm => SetMethod (fst tm) (snd tm) (mbody B (fst tm) (snd tm))) (smethods S)
     ++ map (fun n => GlobalFunc n (fbody B n)) (sfuncs S))%list.

  Lemma version_split : forall d, In d (svars S) -> exists v1 v2,
    svars S = (v1 ++ d :: v2)%list /\
    version_of S B = ((decls_before ++ map vinstr v1) ++ vinstr d :: map vinstr v2)%list /\
    Forall (fun i => writes i <> Some (vname d)) (decls_before ++ map vinstr v1) /\
    Forall (fun i => writes i <> Some (vname d)) (map vinstr v2).
  Proof.
    intros d HI. destruct (in_split _ _ HI) as (v1 & v2 & EQ). exists v1, v2.
    pose proof (wf_names S WF) as ND. unfold vnames in ND. rewrite EQ in ND. rewrite map_app in ND. simpl in ND.
    assert (DV : In (vname d) (vnames S)) by (unfold vnames; apply in_map; auto).
    split; auto. split.
    { unfold version_of, decls_before. rewrite EQ. rewrite map_app. simpl. now rewrite <- !app_assoc. }
    assert (NV : ~ In (vname d) (map vname v1) /\ ~ In (vname d) (map vname v2)).
    { apply nodup_app_r in ND. apply nodup_app_r in ND. apply NoDup_remove_2 in ND.
      split; intro; apply ND; apply in_or_app; auto. }
    destruct NV as [NV1 NV2].
    split.
    - unfold decls_before. repeat rewrite Forall_app. repeat split; apply Forall_forall; intros i II;
        apply in_map_iff in II; destruct II as (x & <- & II); simpl.
      + intro E. inv E. eapply (t_not_v S WF (fst x)); [apply in_map; auto | congruence].
      + discriminate.
      + intro E. injection E as E'. eapply (f_not_v S WF x); [auto | rewrite E'; auto].
      + intro E. apply NV1. apply in_map_iff. exists x. split; auto. destruct x; simpl in *; congruence.
    - apply Forall_forall. intros i II. apply in_map_iff in II. destruct II as (x & <- & II).
      intro E. apply NV2. apply in_map_iff. exists x. split; auto. destruct x; simpl in *; congruence.
  Qed.

  (* var n T: the current value survives the Load (a nil value is replaced by the zero value) *)
  Theorem state_zero : forall st st' n z, In (VZero n z) (svars S) -> exec_list st (version_of S B) = Some st' ->
    gget st' n = if is_nil (gget st n) then z else gget st n.
  Proof.
    intros st st' n z HI E. destruct (version_split _ HI) as (v1 & v2 & _ & EQ & W1 & W2). simpl in *.
    rewrite EQ in E. apply exec_list_app in E. destruct E as (sa & E1 & E2). simpl in E2.
    destruct (is_nil (gget sa n)) eqn:NIL; simpl in E2.
    - rewrite (gget_lookup _ _ _ (exec_list_writes _ _ _ _ E2 W2)). rewrite gget_gset_same.
      rewrite <- (gget_lookup _ _ _ (exec_list_writes _ _ _ _ E1 W1)). now rewrite NIL.
    - rewrite (gget_lookup _ _ _ (exec_list_writes _ _ _ _ E2 W2)).
      rewrite <- (gget_lookup _ _ _ (exec_list_writes _ _ _ _ E1 W1)). now rewrite NIL.
  Qed.

  (* var n = c: re-initialised *)
  Theorem state_const : forall st st' n z, In (VSet n (EArg (AConst z))) (svars S) ->
    exec_list st (version_of S B) = Some st' -> gget st' n = VInt z.
  Proof.
    intros st st' n z HI E. destruct (version_split _ HI) as (v1 & v2 & _ & EQ & W1 & W2). simpl in *.
    rewrite EQ in E. apply exec_list_app in E. destruct E as (sa & E1 & E2). simpl in E2.
    rewrite (gget_lookup _ _ _ (exec_list_writes _ _ _ _ E2 W2)). apply gget_gset_same.
  Qed.

  (* var n = f: holds THE function object of f again -- from ANY machine state st (no invariant needed:
     GLOBALFUNC f either fails or leaves a function object in f, and nothing after it writes f) *)
  Theorem state_funcref : forall st st' n f, In (VSet n (EArg (APath (PGlobal f)))) (svars S) -> In f (sfuncs S) ->
    exec_list st (version_of S B) = Some st' ->
    gget st' n = gget st' f /\ exists a, gget st' f = VFunc a.
  Proof.
    intros st st' n f HI HF E.
    destruct (version_split _ HI) as (v1 & v2 & SV & EQ & W1 & W2). simpl in *.
    destruct (version_ok S B) as [VO _]. rewrite EQ in VO. apply Forall_app in VO. destruct VO as [OKa _].
    rewrite EQ in E. apply exec_list_app in E. destruct E as (sa & E1 & E2). simpl in E2.
    assert (exists a, gget sa f = VFunc a) as [a Gf].
    { apply (exec_list_func_defined _ _ _ _ E1).
      - eapply Forall_impl; [|exact OKa]. intros i OKi Wi. destruct i; simpl in Wi, OKi; inv Wi.
        + exfalso. eapply (t_not_f S WF f); eauto.
        + eauto.
        + exfalso. eapply (f_not_v S WF f); eauto.
        + exfalso. eapply (f_not_v S WF f); eauto.
      - left. exists (fbody B f). apply in_or_app. left. unfold decls_before.
        apply in_or_app. right. apply in_or_app. right. apply in_map_iff. exists f. auto. }
    assert (WF2 : Forall (fun i => writes i <> Some f) (map vinstr v2)).
    { apply Forall_forall. intros i II. apply in_map_iff in II. destruct II as (x & <- & II).
      intro EE. eapply (f_not_v S WF f); auto. unfold vnames. rewrite SV.
      apply in_map_iff. exists x. split. destruct x; simpl in *; congruence.
      apply in_or_app. right. right. exact II. }
    assert (NE : f <> n).
    { intro. subst. eapply (f_not_v S WF n); auto. unfold vnames. apply in_map_iff. eexists. split; [|exact HI]. reflexivity. }
    rewrite (gget_lookup _ _ _ (exec_list_writes _ _ _ _ E2 W2)).
    rewrite (gget_lookup _ _ _ (exec_list_writes _ _ _ _ E2 WF2)).
    rewrite gget_gset_same. rewrite gget_gset_other by auto. rewrite Gf. eauto.
  Qed.

  (* a Load never touches what the host keeps, nor any existing instance *)
  Theorem state_objects : forall st st', exec_list st (version_of S B) = Some st' ->
    slots st' = slots st /\ exists y, (insts st' = insts st ++ y)%list.
  Proof. intros. eapply load_slots; eauto. Qed.
End State.
