(* C18, run part (2): a closed block of code runs the same inside any surrounding code; sequential
   composition of closed blocks under Model/VM.v [exec]; the runs of the chunks one after the other
   against the run of the assembled code. *)
From Coq Require Import ZArith List String Ascii Bool Lia.
From GV Require Import GoSpec.GoPrim Gen.ValueOps_gen Gen.Tables_gen Model.VM Model.Incr Proofs.C18_step.
Import ListNotations.
Open Scope Z_scope.

(* ---- lists ---- *)
Lemma znth_range : forall {A} (l : list A) p x, znth l p = Some x -> 0 <= p < zlen l.
Proof.
  intros A l p x H. unfold znth in H. destruct (p <? 0) eqn:E; [discriminate|].
  apply Z.ltb_ge in E. split; [assumption|].
  assert (Hn : (Z.to_nat p < List.length l)%nat) by (apply nth_error_Some; congruence).
  unfold zlen. lia.
Qed.
Lemma znth_none : forall {A} (l : list A) p, znth l p = None -> p < 0 \/ zlen l <= p.
Proof.
  intros A l p H. unfold znth in H. destruct (p <? 0) eqn:E.
  - left. apply Z.ltb_lt in E. assumption.
  - right. apply Z.ltb_ge in E. apply nth_error_None in H. unfold zlen. lia.
Qed.
Lemma znth_nth_error : forall {A} (l : list A) p, 0 <= p -> znth l p = nth_error l (Z.to_nat p).
Proof. intros A l p H. unfold znth. destruct (p <? 0) eqn:E; [apply Z.ltb_lt in E; lia|reflexivity]. Qed.
Lemma znth_ctx : forall {A} (pre c post : list A) p x,
  znth c p = Some x -> znth (pre ++ c ++ post) (zlen pre + p) = Some x.
Proof.
  intros A pre c post p x H. pose proof (znth_range _ _ _ H) as [H0 H1].
  rewrite znth_nth_error in H by assumption.
  rewrite znth_nth_error by (unfold zlen; lia).
  replace (Z.to_nat (zlen pre + p)) with (List.length pre + Z.to_nat p)%nat by (unfold zlen; lia).
  rewrite nth_error_app2 by lia. replace (List.length pre + Z.to_nat p - List.length pre)%nat with (Z.to_nat p) by lia.
  rewrite nth_error_app1; [assumption|]. apply nth_error_Some. congruence.
Qed.
Lemma skipn_ctx : forall {A} (pre c post : list A) k n, (k + n <= List.length c)%nat ->
  firstn n (skipn (List.length pre + k) (pre ++ c ++ post)) = firstn n (skipn k c).
Proof.
  intros A pre c post k n H.
  assert (Hs : skipn (List.length pre + k) (pre ++ c ++ post) = skipn k (c ++ post)).
  { induction pre as [|x pre IH]; simpl; [reflexivity|exact IH]. }
  rewrite Hs, skipn_app, firstn_app.
  replace (n - List.length (skipn k c))%nat with 0%nat by (rewrite skipn_length; lia).
  rewrite firstn_O, app_nil_r. reflexivity.
Qed.

Lemma nset_length : forall {A} (l : list A) n v, List.length (nset l n v) = List.length l.
Proof. induction l as [|x l IH]; intros [|n] v; cbn [nset List.length]; try reflexivity. rewrite IH. reflexivity. Qed.
Lemma zset_length : forall {A} (l : list A) i v, List.length (zset l i v) = List.length l.
Proof. intros. unfold zset. destruct (i <? 0); [reflexivity|apply nset_length]. Qed.

Lemma znth_len_some : forall {A B} (v : list A) (v' : list B) i a,
  List.length v = List.length v' -> znth v i = Some a -> exists b, znth v' i = Some b.
Proof.
  intros A B v v' i a Hl H. pose proof (znth_range _ _ _ H) as [H0 H1].
  rewrite znth_nth_error by assumption.
  destruct (nth_error v' (Z.to_nat i)) eqn:E; [eauto|].
  apply nth_error_None in E. unfold zlen in H1. lia.
Qed.
Lemma znth_len_none : forall {A B} (v : list A) (v' : list B) i,
  List.length v = List.length v' -> znth v i = None -> znth v' i = None.
Proof.
  intros A B v v' i Hl H. destruct (znth v' i) eqn:E; [|reflexivity].
  destruct (znth_len_some v' v i b (eq_sym Hl) E) as [a Ha]. congruence.
Qed.
(* ---- top-level positions ---- *)
Lemma tops_length : forall c k, List.length (tops k c) = List.length c.
Proof. induction c as [|i r IH]; intros k; [reflexivity|]. destruct k; cbn [tops List.length]; rewrite IH; reflexivity. Qed.

Lemma top_or_end_range : forall c p, top_or_end c p = true -> 0 <= p <= zlen c.
Proof.
  intros c p H. unfold top_or_end in H. apply andb_true_iff in H. destruct H as [H0 H].
  apply Z.leb_le in H0. apply orb_true_iff in H. destruct H as [H|H].
  - apply Z.eqb_eq in H. lia.
  - assert (Hn : (Z.to_nat p < List.length (tops O c))%nat).
    { destruct (Nat.lt_ge_cases (Z.to_nat p) (List.length (tops O c))) as [|Hge]; [assumption|].
      rewrite nth_overflow in H by assumption. discriminate. }
    rewrite tops_length in Hn. unfold zlen. lia.
Qed.

Lemma top_in_range : forall c p i, top_or_end c p = true -> znth c p = Some i ->
  nth (Z.to_nat p) (tops O c) false = true.
Proof.
  intros c p i H Hz. pose proof (znth_range _ _ _ Hz) as [H0 H1].
  unfold top_or_end in H. apply andb_true_iff in H. destruct H as [_ H].
  apply orb_true_iff in H. destruct H as [H|H]; [apply Z.eqb_eq in H; lia|assumption].
Qed.

Lemma jump_ok_jumps : forall i d, jump_ok i d -> icode i <> c_Func -> In d (jumps i).
Proof.
  intros i d H Hn. unfold jumps.
  destruct H as [[Hc ->]|[[Hc ->]|[[Hc ->]|[Hc _]]]]; [| | |contradiction].
  - destruct Hc as [Hc|[Hc|[Hc|[Hc|Hc]]]]; rewrite Hc; simpl; auto.
  - rewrite Hc; simpl; auto.
  - rewrite Hc; simpl; auto.
Qed.
Lemma jump_ok_func : forall i d, jump_ok i d -> icode i = c_Func -> d = func_len i.
Proof.
  intros i d H Hf.
  destruct H as [[Hc _]|[[Hc _]|[[Hc _]|[_ ->]]]]; [| | |reflexivity].
  - destruct Hc as [Hc|[Hc|[Hc|[Hc|Hc]]]]; rewrite Hf in Hc; discriminate.
  - rewrite Hf in Hc; discriminate.
  - rewrite Hf in Hc; discriminate.
Qed.

Lemma closed_at_spec : forall c p i, closedb c = true -> top_or_end c p = true -> znth c p = Some i ->
  icode i <> c_Return /\
  (icode i = c_Func -> 0 <= func_len i /\ top_or_end c (p + func_len i + 1) = true) /\
  (icode i <> c_Func -> top_or_end c (p + 1) = true /\ forall d, In d (jumps i) -> top_or_end c (p + d + 1) = true).
Proof.
  intros c p i Hc Ht Hz. pose proof (znth_range _ _ _ Hz) as [H0 H1].
  pose proof (top_in_range _ _ _ Ht Hz) as Htop.
  unfold closedb in Hc. apply andb_true_iff in Hc. destruct Hc as [Hc _].
  rewrite forallb_forall in Hc. specialize (Hc (Z.to_nat p)).
  assert (Hin : In (Z.to_nat p) (seq 0 (List.length c))) by (apply in_seq; unfold zlen in H1; lia).
  specialize (Hc Hin). unfold closed_at in Hc.
  rewrite znth_nth_error in Hz by assumption. rewrite Hz, Htop in Hc. cbn [negb] in Hc.
  apply andb_true_iff in Hc. destruct Hc as [Hr Hc].
  rewrite Z2Nat.id in Hc by assumption.
  split; [|split].
  - intro E. rewrite E in Hr. discriminate.
  - intro E. rewrite E, Z.eqb_refl in Hc. apply andb_true_iff in Hc. destruct Hc as [Ha Hb].
    apply Z.leb_le in Ha. split; assumption.
  - intro E. apply Z.eqb_neq in E. rewrite E in Hc. apply andb_true_iff in Hc. destruct Hc as [Ha Hb].
    split; [assumption|]. rewrite forallb_forall in Hb. exact Hb.
Qed.

Section Seq.
  Variable grow : Z -> Z -> Z.
  Variable ext_get : st -> value -> value -> option (res value).
  Variable ext_set : st -> value -> value -> value -> option (res st).
  Variable ext_len : st -> value -> option Z.
  Variable ext_getattr : st -> value -> Z -> option (res (value * st)).
  Variable ext_setattr : st -> value -> Z -> value -> option (res st).
  Notation step1 := (VM.step1 grow ext_get ext_set ext_len ext_getattr ext_setattr).
  Notation exec := (VM.exec grow ext_get ext_set ext_len ext_getattr ext_setattr).
  Notation call_fn := (VM.call_fn grow ext_get ext_set ext_len ext_getattr ext_setattr).
  Notation run := (VM.run grow ext_get ext_set ext_len ext_getattr ext_setattr).
  Notation exec_S := (exec_S grow ext_get ext_set ext_len ext_getattr ext_setattr).
  Notation exec_mono := (exec_mono grow ext_get ext_set ext_len ext_getattr ext_setattr).
  Notation call_mono := (call_mono grow ext_get ext_set ext_len ext_getattr ext_setattr).

  Lemma exec_O : forall codes pc sl ops s, exec O codes pc sl ops s = RFuel.
  Proof. reflexivity. Qed.

  Lemma call_err_not_done : forall f pack fa xa xr pos ops s r,
    call_fn f pack fa xa xr pos ops s = CErr r -> forall a b c, r <> RDone a b c.
  Proof.
    intros f pack fa xa xr pos ops s r H a b c E. subst r.
    destruct f as [|f]; [discriminate H|].
    rewrite call_fn_S in H.
    destruct (hget s fa) as [o|]; [|discriminate H].
    destruct o; try discriminate H.
    - cbv zeta in H.
      match type of H with context [match ?p with inl _ => _ | inr _ => _ end] => destruct p as [[[ops1 xa1] s1]|r1] eqn:Ep end.
      + destruct (negb (xa1 =? nargs)); [discriminate H|].
        destruct (popn (Z.to_nat nargs) ops1 []) as [[args rest]|]; [|discriminate H].
        match type of H with context [exec f ?b ?p ?sl ?o ?s] => destruct (exec f b p sl o s) eqn:Ee end; try discriminate H.
        destruct (_ <? nrets); [discriminate H|]. destruct (_ <? xr); discriminate H.
      + destruct (variadic && pack); [|discriminate Ep].
        destruct (_ <? 0); [injection Ep as <-; discriminate H|].
        destruct (popn _ ops []) as [[vargs rest]|]; [|injection Ep as <-; discriminate H].
        destruct (variadic_arg _ _ _ _). discriminate Ep.
    - destruct (_ || _); [|discriminate H].
      destruct (negb pack); [discriminate H|].
      destruct (popn _ ops []) as [[args rest]|]; [|discriminate H].
      destruct (all_some _); [|discriminate H].
      cbv zeta in H. destruct (0 <? xr); discriminate H.
  Qed.

  (* [lifts C e f pcC .. r]: r, obtained with fuel f for a block placed inside the code C, is what
     C does from pcC: a failure of the block is the failure of C; when the block completes, C goes
     on from the block's end e *)
  Definition lifts (C : list instr) (e : Z) (f : nat) (pcC : Z) (sl ops : list value) (s : st) (r : result) : Prop :=
    match r with
    | RFuel => True
    | RDone sl' ops' s' =>
        forall f2 r2, exec f2 C e sl' ops' s' = r2 -> r2 <> RFuel -> exec (f + f2) C pcC sl ops s = r2
    | _ => exec f C pcC sl ops s = r
    end.

  Lemma lifts_step : forall C e f pcC pcC' sl ops s sl' ops' s' r,
    (forall f', exec (S f') C pcC sl ops s = exec f' C pcC' sl' ops' s') ->
    lifts C e f pcC' sl' ops' s' r -> lifts C e (S f) pcC sl ops s r.
  Proof.
    intros C e f pcC pcC' sl ops s sl' ops' s' r Hstep H.
    destruct r; simpl in *; try (rewrite Hstep; exact H); [|exact I].
    intros f2 r2 H2 Hr. rewrite Hstep. apply H; assumption.
  Qed.

  (* the heart: a closed block does inside any code what it does alone *)
  Lemma exec_ctx : forall c, closedb c = true -> forall pre post f pc sl ops s,
    top_or_end c pc = true ->
    lifts (pre ++ c ++ post) (zlen pre + zlen c) f (zlen pre + pc) sl ops s (exec f c pc sl ops s).
  Proof.
    intros c Hc pre post. set (C := (pre ++ c ++ post)%list). set (L := zlen pre).
    induction f as [|f IH]; intros pc sl ops s Ht.
    - rewrite exec_O. exact I.
    - rewrite exec_S. destruct (znth c pc) as [i|] eqn:Ez.
      + pose proof (znth_range _ _ _ Ez) as [Hp0 Hp1].
        assert (HzC : znth C (L + pc) = Some i) by (apply znth_ctx; assumption).
        destruct (closed_at_spec _ _ _ Hc Ht Ez) as [Hnr [Hfn Hnf]].
        assert (Hs : step1 C (L + pc) i sl ops s = step1 c pc i sl ops s).
        { apply step1_codes. intro Ef. destruct (Hfn Ef) as [Hl0 Hl1].
          apply top_or_end_range in Hl1.
          replace (Z.to_nat (L + pc + 1)) with (List.length pre + Z.to_nat (pc + 1))%nat by (unfold L, zlen; lia).
          unfold C. apply skipn_ctx. unfold zlen in *. lia. }
        destruct (step1 c pc i sl ops s) eqn:Es.
        * (* SNext *)
          assert (Hnf' : icode i <> c_Func) by (eapply step1_next_notfunc; eauto).
          destruct (Hnf Hnf') as [Hn1 _].
          eapply lifts_step; [|apply IH; exact Hn1].
          intro f'. rewrite exec_S, HzC, Hs. replace (L + pc + 1) with (L + (pc + 1)) by lia. reflexivity.
        * (* SJump *)
          pose proof (step1_jump _ _ _ _ _ _ _ _ _ _ _ _ _ _ _ _ Es) as Hj.
          assert (Hn1 : top_or_end c (pc + d + 1) = true).
          { destruct (Z.eq_dec (icode i) c_Func) as [Ef|Ef].
            - rewrite (jump_ok_func _ _ Hj Ef). apply (Hfn Ef).
            - apply (Hnf Ef). apply jump_ok_jumps; assumption. }
          eapply lifts_step; [|apply IH; exact Hn1].
          intro f'. rewrite exec_S, HzC, Hs. replace (L + pc + d + 1) with (L + (pc + d + 1)) by lia. reflexivity.
        * (* SCall *)
          assert (Hnf' : icode i <> c_Func) by (eapply step1_call_notfunc; eauto).
          destruct (Hnf Hnf') as [Hn1 _].
          destruct (call_fn f pack fa xArgs xRets (ipos i) ops0 s0) as [ops'' s''|r0] eqn:Ec.
          -- specialize (IH (pc + 1) slots ops'' s'' Hn1).
             destruct (exec f c (pc + 1) slots ops'' s'') eqn:Er; simpl in *.
             ++ intros f2 r2 H2 Hr2. rewrite exec_S, HzC, Hs.
                rewrite (call_mono f (f + f2) _ _ _ _ _ _ _ _ Ec) by (congruence || lia).
                replace (L + pc + 1) with (L + (pc + 1)) by lia. apply IH; assumption.
             ++ rewrite exec_S, HzC, Hs, Ec. replace (L + pc + 1) with (L + (pc + 1)) by lia. exact IH.
             ++ rewrite exec_S, HzC, Hs, Ec. replace (L + pc + 1) with (L + (pc + 1)) by lia. exact IH.
             ++ exact I.
             ++ rewrite exec_S, HzC, Hs, Ec. replace (L + pc + 1) with (L + (pc + 1)) by lia. exact IH.
          -- pose proof (call_err_not_done _ _ _ _ _ _ _ _ _ Ec) as Hnd.
             destruct r0; simpl; try (rewrite exec_S, HzC, Hs, Ec; reflexivity); [|exact I].
             exfalso. eapply Hnd. reflexivity.
        * (* SRet *) exfalso. apply Hnr. eapply step1_ret; eauto.
        * simpl. rewrite exec_S, HzC, Hs. reflexivity.
        * simpl. rewrite exec_S, HzC, Hs. reflexivity.
        * simpl. rewrite exec_S, HzC, Hs. reflexivity.
      + (* the end of the block *)
        pose proof (top_or_end_range _ _ Ht) as [Hp0 Hp1].
        destruct (znth_none _ _ Ez) as [Hlt|Hge]; [lia|].
        assert (pc = zlen c) by lia. subst pc. simpl.
        intros f2 r2 H2 Hr2. eapply exec_mono; eauto. lia.
  Qed.
End Seq.
