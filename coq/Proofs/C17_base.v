(* C17, part 1: association lists, in-place heap update, and what evaluating a
   path / expression can change (it only allocates). *)
From Coq Require Import ZArith List Bool Lia.
From GV Require Import Model.Reload.
Import ListNotations.
Open Scope Z_scope.

Ltac inv H := inversion H; subst; clear H.

(* ---- association lists ---------------------------------------------------- *)
Section Assoc.
  Context {V : Type}.
  Implicit Types l : list (name * V).

  Lemma lookup_upsert_same : forall k v l, lookup k (upsert k v l) = Some v.
  Proof.
    induction l as [|[k' v'] r IH]; simpl.
    - now rewrite Z.eqb_refl.
    - destruct (k =? k') eqn:E; simpl; rewrite E; auto.
  Qed.
  Lemma lookup_upsert_other : forall k k' v l, k' <> k -> lookup k' (upsert k v l) = lookup k' l.
  Proof.
    induction l as [|[k0 v0] r IH]; simpl; intros.
    - destruct (k' =? k) eqn:E; auto. apply Z.eqb_eq in E. contradiction.
    - destruct (k =? k0) eqn:E; simpl.
      + apply Z.eqb_eq in E. subst. destruct (k' =? k0) eqn:E'; auto. apply Z.eqb_eq in E'. contradiction.
      + destruct (k' =? k0); auto.
  Qed.
  Lemma upsert_noop : forall k v l, lookup k l = Some v -> upsert k v l = l.
  Proof.
    induction l as [|[k0 v0] r IH]; simpl; intros; try discriminate.
    destruct (k =? k0) eqn:E.
    - inv H. apply Z.eqb_eq in E. now subst.
    - now rewrite IH.
  Qed.
  Lemma lookup_assign_other : forall k k' v l, k' <> k -> lookup k' (assign k v l) = lookup k' l.
  Proof.
    induction l as [|[k0 v0] r IH]; simpl; intros; auto.
    destruct (k =? k0) eqn:E; simpl.
    - apply Z.eqb_eq in E. subst. destruct (k' =? k0) eqn:E'; auto. apply Z.eqb_eq in E'. contradiction.
    - destruct (k' =? k0); auto.
  Qed.
  (* syncFields over distinct field names: afterwards every listed field has the listed value *)
  Lemma lookup_fold_upsert_notin : forall (fs : list (name * V)) l k, ~ In k (map fst fs) ->
    lookup k (fold_left (fun acc kv => upsert (fst kv) (snd kv) acc) fs l) = lookup k l.
  Proof.
    induction fs as [|[k0 v0] r IH]; simpl; intros; auto.
    rewrite IH by tauto. apply lookup_upsert_other. intro. subst. tauto.
  Qed.
  Lemma lookup_fold_upsert : forall (fs : list (name * V)) l k v, NoDup (map fst fs) -> In (k, v) fs ->
    lookup k (fold_left (fun acc kv => upsert (fst kv) (snd kv) acc) fs l) = Some v.
  Proof.
    induction fs as [|[k0 v0] r IH]; simpl; intros l k v ND HIn; [tauto|].
    inv ND. destruct HIn as [E|HIn].
    - inv E. rewrite lookup_fold_upsert_notin by auto. apply lookup_upsert_same.
    - now apply IH.
  Qed.
  Lemma fold_upsert_noop : forall (fs : list (name * V)) l,
    (forall k v, In (k, v) fs -> lookup k l = Some v) ->
    fold_left (fun acc kv => upsert (fst kv) (snd kv) acc) fs l = l.
  Proof.
    induction fs as [|[k0 v0] r IH]; simpl; intros; auto.
    rewrite upsert_noop by auto. apply IH. auto.
  Qed.
End Assoc.

(* ---- heaps ------------------------------------------------------------------ *)
Section Heap.
  Context {A : Type}.
  Lemma upd_length : forall (l : list A) n x, length (upd l n x) = length l.
  Proof. induction l; destruct n; simpl; auto. Qed.
  Lemma nth_upd_same : forall (l : list A) n x, (n < length l)%nat -> nth_error (upd l n x) n = Some x.
  Proof. induction l; destruct n; simpl; intros; try lia; auto. apply IHl. lia. Qed.
  Lemma nth_upd_other : forall (l : list A) n m x, n <> m -> nth_error (upd l n x) m = nth_error l m.
  Proof. induction l; destruct n, m; simpl; intros; auto; try congruence. Qed.
  Lemma upd_noop : forall (l : list A) n x, nth_error l n = Some x -> upd l n x = l.
  Proof.
    induction l; destruct n; simpl; intros; try discriminate.
    - now inv H.
    - now rewrite IHl.
  Qed.
  Lemma nth_lt : forall (l : list A) n x, nth_error l n = Some x -> (n < length l)%nat.
  Proof. intros. apply nth_error_Some. congruence. Qed.
  Lemma nth_app_old : forall (l x : list A) n y, nth_error l n = Some y -> nth_error (l ++ x) n = Some y.
  Proof. intros. rewrite nth_error_app1; auto. eapply nth_lt; eauto. Qed.
  Lemma nth_app_new : forall (l : list A) x, nth_error (l ++ [x]) (length l) = Some x.
  Proof. intros. rewrite nth_error_app2 by lia. now rewrite Nat.sub_diag. Qed.
End Heap.

(* ---- globals ------------------------------------------------------------------ *)
Lemma gget_gset_same : forall st n v, gget (gset st n v) n = v.
Proof. intros. unfold gget, gset. simpl. now rewrite lookup_upsert_same. Qed.
Lemma gget_gset_other : forall st n n' v, n' <> n -> gget (gset st n v) n' = gget st n'.
Proof. intros. unfold gget, gset. simpl. now rewrite lookup_upsert_other. Qed.
Lemma glookup_gset_other : forall st n n' v, n' <> n -> lookup n' (globals (gset st n v)) = lookup n' (globals st).
Proof. intros. unfold gset. simpl. now rewrite lookup_upsert_other. Qed.
Lemma is_nil_eq : forall v, is_nil v = true -> v = VNil.
Proof. destruct v; simpl; congruence. Qed.

(* ---- evaluation only allocates -------------------------------------------------- *)
Definition frame (st st' : state) : Prop :=
  types st' = types st /\ globals st' = globals st /\ slots st' = slots st /\
  (exists x, funcs st' = funcs st ++ x)%list /\ (exists y, insts st' = insts st ++ y)%list.

Lemma frame_refl : forall st, frame st st.
Proof. intros. repeat split; auto; exists []; now rewrite app_nil_r. Qed.
Lemma frame_trans : forall a b c, frame a b -> frame b c -> frame a c.
Proof.
  intros a b c (T1 & G1 & S1 & [x1 F1] & [y1 I1]) (T2 & G2 & S2 & [x2 F2] & [y2 I2]).
  repeat split; try congruence.
  - exists (x1 ++ x2)%list. rewrite F2, F1. now rewrite app_assoc.
  - exists (y1 ++ y2)%list. rewrite I2, I1. now rewrite app_assoc.
Qed.

Lemma get_index_frame : forall st i a st' v, get_index st i a = Some (st', v) -> frame st st'.
Proof.
  unfold get_index. intros.
  destruct (nth_error (insts st) i); try discriminate.
  destruct (lookup a (ifields i0)).
  - inv H. apply frame_refl.
  - destruct (nth_error (types st) (ity i0)); try discriminate.
    destruct (lookup a (tmethods t)) as [[]|]; try discriminate.
    inv H. repeat split; simpl; eauto. exists []. now rewrite app_nil_r.
Qed.
Lemma eval_path_frame : forall p st st' v, eval_path st p = Some (st', v) -> frame st st'.
Proof.
  induction p; simpl; intros.
  - inv H. apply frame_refl.
  - destruct (nth_error (slots st) k); inv H. apply frame_refl.
  - destruct (eval_path st p) as [[st1 []]|] eqn:E; try discriminate.
    eapply frame_trans; [eapply IHp; eauto | eapply get_index_frame; eauto].
Qed.
Lemma eval_arg_frame : forall a st st' v, eval_arg st a = Some (st', v) -> frame st st'.
Proof. destruct a; simpl; intros. inv H. apply frame_refl. eapply eval_path_frame; eauto. Qed.
Lemma eval_args_frame : forall fs st st' vs, eval_args st fs = Some (st', vs) -> frame st st'.
Proof.
  induction fs as [|[k a] r IH]; simpl; intros.
  - inv H. apply frame_refl.
  - destruct (eval_arg st a) as [[st1 v]|] eqn:E; try discriminate.
    destruct (eval_args st1 r) as [[st2 vs']|] eqn:E2; try discriminate. inv H.
    eapply frame_trans; [eapply eval_arg_frame; eauto | eauto].
Qed.
Lemma eval_expr_frame : forall e st st' v, eval_expr st e = Some (st', v) -> frame st st'.
Proof.
  destruct e; simpl; intros.
  - eapply eval_arg_frame; eauto.
  - destruct (eval_args st fs) as [[st1 vs]|] eqn:E; try discriminate.
    destruct (gget st1 t); try discriminate.
    destruct (nth_error (types st1) a); try discriminate. inv H.
    eapply frame_trans; [eapply eval_args_frame; eauto|].
    repeat split; simpl; eauto. exists []. now rewrite app_nil_r.
Qed.

Lemma frame_gget : forall st st' n, frame st st' -> gget st' n = gget st n.
Proof. intros st st' n (_ & G & _). unfold gget. now rewrite G. Qed.
Lemma frame_fn_addr : forall st st' k, frame st st' -> fn_addr st' k = fn_addr st k.
Proof.
  intros st st' k F. pose proof (fun n => frame_gget st st' n F) as G. destruct F as (T & _).
  destruct k; simpl; rewrite G; auto. now rewrite T.
Qed.
Lemma frame_funcs_old : forall st st' a x, frame st st' -> nth_error (funcs st) a = Some x -> nth_error (funcs st') a = Some x.
Proof. intros st st' a x (_ & _ & _ & [y F] & _) H. rewrite F. now apply nth_app_old. Qed.
