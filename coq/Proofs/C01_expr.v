(* C01 (composition of C05 and C04): for arithmetic / bitwise / shift expressions over int32 variables,
   what goatlang computes -- its own grouping of the token list, the opcode its compiler picks for each
   operator, the Value methods the VM executes -- is what Go computes for Go's grouping with Go's int32
   operators, for every token list, every variable assignment, every operand value. *)
From Coq Require Import ZArith List String Bool Lia.
From GV Require Import GoSpec.GoPrim GoSpec.GoPrec Gen.ValueOps_gen Gen.Tables_gen Model.Pratt Model.PrattInst Model.ExprEval
                        Proofs.C04_ops Proofs.C05_pratt Proofs.C05_inst.
Import ListNotations.
Open Scope string_scope.
Open Scope Z_scope.

(* lift a Go-side result to a goatlang value *)
Definition lift32 (r : res Z) : res value :=
  match r with Ok z => Ok (V I32 z) | Panic => Panic | Unmodelled => Unmodelled end.

(* ---- auxiliary lemmas ------------------------------------------------------- *)

Lemma in_range_I32_iff z : in_range I32 z = true <-> -2147483648 <= z <= 2147483647.
Proof.
  unfold in_range, lo, hi. cbv [signed half modulus].
  rewrite andb_true_iff, !Z.leb_le. lia.
Qed.

(* floor division by 2^n keeps the int32 range *)
Lemma shiftr_in_range a n : in_range I32 a = true -> 0 <= n -> in_range I32 (Z.shiftr a n) = true.
Proof.
  intros Ha Hn. apply in_range_I32_iff in Ha. apply in_range_I32_iff.
  rewrite Z.shiftr_div_pow2 by exact Hn.
  assert (Hp : 0 < 2 ^ n) by (apply Z.pow_pos_nonneg; lia).
  remember (2 ^ n) as p eqn:Ep. clear Ep Hn n.
  split.
  - apply Z.div_le_lower_bound; [exact Hp|]. nia.
  - apply Z.div_le_upper_bound; [exact Hp|]. nia.
Qed.

Lemma mem_arith_ops op : existsb (String.eqb op) arith_ops = true ->
  op = "+" \/ op = "-" \/ op = "*" \/ op = "/" \/ op = "%" \/ op = "&" \/ op = "|" \/ op = "^" \/ op = "<<" \/ op = ">>".
Proof.
  unfold arith_ops. cbn [existsb]. rewrite !orb_true_iff, !String.eqb_eq. intuition discriminate.
Qed.

(* the step taken at a binary node, goatlang side and Go side *)
Definition goat_bin (op : string) (a b : value) : res value :=
  match assoc op infixMap with
  | Some code => match binop_of_code code with Some f => f a b | None => Unmodelled end
  | None => Unmodelled
  end.
Definition go_bin (op : string) (a b : Z) : res Z :=
  match go_binop op with Some f => f a b | None => Unmodelled end.

(* evaluate the (closed) table lookups after the operator is known *)
Ltac eval_tables :=
  unfold goat_bin, go_bin;
  match goal with |- context [assoc ?o infixMap] =>
    let v := eval vm_compute in (assoc o infixMap) in change (assoc o infixMap) with v end;
  cbv iota beta;
  match goal with |- context [binop_of_code ?c] =>
    let v := eval cbv [binop_of_code String.eqb Ascii.eqb Bool.eqb] in (binop_of_code c) in
    change (binop_of_code c) with v end;
  match goal with |- context [go_binop ?o] =>
    let v := eval cbv [go_binop String.eqb Ascii.eqb Bool.eqb] in (go_binop o) in
    change (go_binop o) with v end;
  cbv iota beta.

Lemma bin_step op a b :
  existsb (String.eqb op) arith_ops = true ->
  in_range I32 a = true -> in_range I32 b = true ->
  goat_bin op (V I32 a) (V I32 b) = lift32 (go_bin op a b) /\
  (forall z, go_bin op a b = Ok z -> in_range I32 z = true).
Proof.
  intros Hop Ha Hb. apply mem_arith_ops in Hop.
  assert (Ht : typed I32 = true) by reflexivity.
  destruct Hop as [->|[->|[->|[->|[->|[->|[->|[->|[->| ->]]]]]]]]]; eval_tables.
  - (* + *) rewrite (op_add I32 a b Ht Ha Hb). split; [reflexivity|].
    intros z E; inversion E; apply wrap_in_range.
  - (* - *) rewrite (op_sub I32 a b Ht Ha Hb). split; [reflexivity|].
    intros z E; inversion E; apply wrap_in_range.
  - (* * *) rewrite (op_mul I32 a b Ht Ha Hb). split; [reflexivity|].
    intros z E; inversion E; apply wrap_in_range.
  - (* / *) rewrite (op_quo I32 a b Ht Ha Hb). unfold iquo.
    destruct (b =? 0); split; try reflexivity; intros z E; inversion E; apply wrap_in_range.
  - (* % *) rewrite (op_rem I32 a b Ht Ha Hb). unfold irem.
    destruct (b =? 0); split; try reflexivity; intros z E; inversion E; apply wrap_in_range.
  - (* & *) rewrite (op_and I32 a b Ht Ha Hb). split; [reflexivity|].
    intros z E; inversion E; apply wrap_in_range.
  - (* | *) rewrite (op_or I32 a b Ht Ha Hb). split; [reflexivity|].
    intros z E; inversion E; apply wrap_in_range.
  - (* ^ *) rewrite (op_xor I32 a b Ht Ha Hb). split; [reflexivity|].
    intros z E; inversion E; apply wrap_in_range.
  - (* << *) rewrite (op_shl I32 a b Ht Ha Hb). unfold ishl.
    destruct (b <? 0); [split; [reflexivity|discriminate]|].
    destruct (bits I32 <=? b); split; try reflexivity; intros z E; inversion E;
      [reflexivity | apply wrap_in_range].
  - (* >> *) rewrite (op_shr I32 a b Ht Ha Hb). unfold ishr.
    destruct (b <? 0) eqn:Eb; [split; [reflexivity|discriminate]|].
    apply Z.ltb_ge in Eb.
    destruct (bits I32 <=? b); split; try reflexivity; intros z E; inversion E.
    + destruct (a <? 0); reflexivity.
    + apply shiftr_in_range; assumption.
Qed.

Lemma neg_step a : in_range I32 a = true ->
  Value_opMul (V I32 a) (fn_newUntypedInt (-1)) = V I32 (ineg I32 a).
Proof.
  intro Ha.
  change (fn_newUntypedInt (-1)) with (Untyped (-1)).
  rewrite (const_r_mul I32 a (-1) eq_refl Ha eq_refl).
  rewrite (op_mul I32 a (-1) eq_refl Ha eq_refl).
  unfold imul, ineg. do 2 f_equal. lia.
Qed.

Lemma convert_allones : Value_convert (fn_Uint32 4294967295) TypeInt32 = Ok (V I32 (-1)).
Proof. vm_compute. reflexivity. Qed.

Lemma compl_step a : in_range I32 a = true ->
  (let a' := Value_assign (V I32 a) TypeNil in
   b <- Value_convert (fn_Uint32 4294967295) (vt a') ;; Ok (Value_opBitXor a' b))
  = Ok (V I32 (inot I32 a)).
Proof.
  intro Ha. cbv zeta.
  rewrite (assign_keeps (V I32 a) TypeNil) by (cbn; discriminate).
  change (vt (V I32 a)) with TypeInt32.
  rewrite convert_allones. cbn [bind].
  rewrite (op_xor I32 a (-1) eq_refl Ha eq_refl).
  unfold ixor, inot. rewrite Z.lxor_m1_r. reflexivity.
Qed.

(* ---- the theorems ----------------------------------------------------------------- *)

(* evaluation agrees on every arithmetic tree (no parser involved): by induction on t with the C04 lemmas
   op_add ... op_xor, op_quo, op_rem, op_shl, op_shr of Proofs/C04_ops.v; results of Go's operators are
   in range again (wrap_in_range; iquo/irem/ishl results are wraps; ishr: floor division keeps the range) *)
Theorem c01_eval_agrees : forall (env : string -> Z) t,
  (forall x, in_range I32 (env x) = true) -> arith t = true ->
  eval_goat (fun x => V I32 (env x)) t = lift32 (eval_go env t) /\
  (forall z, eval_go env t = Ok z -> in_range I32 z = true).
Proof.
  intros env t Henv.
  induction t as [i x | op l IHl r IHr | u t IHt | t IHt]; intro Har.
  - (* Atom *) cbn [eval_goat eval_go lift32]. split; [reflexivity|].
    intros z E; inversion E; apply Henv.
  - (* Bin *) cbn [arith] in Har.
    apply andb_true_iff in Har. destruct Har as [Har Harr].
    apply andb_true_iff in Har. destruct Har as [Hop Harl].
    destruct (IHl Harl) as [El Rl]. destruct (IHr Harr) as [Er Rr].
    cbn [eval_goat eval_go]. rewrite El, Er.
    destruct (eval_go env l) as [a| |]; cbn [lift32 bind];
      [|split; [reflexivity|discriminate]|split; [reflexivity|discriminate]].
    destruct (eval_go env r) as [b| |]; cbn [lift32 bind];
      [|split; [reflexivity|discriminate]|split; [reflexivity|discriminate]].
    exact (bin_step op a b Hop (Rl a eq_refl) (Rr b eq_refl)).
  - (* Un *) destruct u; cbn [arith] in Har; try discriminate.
    + (* - *) destruct (IHt Har) as [Et Rt]. cbn [eval_goat eval_go]. rewrite Et.
      destruct (eval_go env t) as [a| |]; cbn [lift32 bind];
        [|split; [reflexivity|discriminate]|split; [reflexivity|discriminate]].
      rewrite (neg_step a (Rt a eq_refl)). split; [reflexivity|].
      intros z E; inversion E; apply wrap_in_range.
    + (* ^ *) destruct (IHt Har) as [Et Rt]. cbn [eval_goat eval_go]. rewrite Et.
      destruct (eval_go env t) as [a| |]; cbn [lift32 bind];
        [|split; [reflexivity|discriminate]|split; [reflexivity|discriminate]].
      pose proof (compl_step a (Rt a eq_refl)) as C. cbv zeta in C. rewrite C. split; [reflexivity|].
      intros z E; inversion E; apply wrap_in_range.
  - (* Paren *) cbn [arith] in Har. cbn [eval_goat eval_go]. exact (IHt Har).
Qed.

(* with the parser: whatever goatlang's parser returns for a token list is Go's grouping of it (C05) and
   evaluates to Go's value *)
Theorem c01_expr : table_ok_b = true ->
  forall ts t (env : string -> Z), goat_parse ts = inl (t, []) ->
  (forall x, in_range I32 (env x) = true) -> arith t = true ->
  flatten t = ts /\ grouped go_prec t /\
  eval_goat (fun x => V I32 (env x)) t = lift32 (eval_go env t).
Proof.
  intros Htab ts t env Hparse Henv Har.
  destruct (grouping_sound Htab ts t Hparse) as [Hf [Hg _]].
  split; [exact Hf|]. split; [exact Hg|].
  exact (proj1 (c01_eval_agrees env t Henv Har)).
Qed.

Print Assumptions c01_expr.
