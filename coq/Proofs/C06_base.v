(* C06 infrastructure: reachability of the abstract machine, code "carried" by a
   larger program modulo rewritten placeholders, the rewriting loops. *)
From Coq Require Import ZArith List Bool Lia.
From GV Require Import GoSpec.GoCtl Model.Ctl.
Import ListNotations.
Open Scope Z_scope.

Lemma len_app : forall a b : code, len (a ++ b) = len a + len b.
Proof. intros; unfold len; rewrite app_length; lia. Qed.
Lemma len_cons : forall (x : cinstr) c, len (x :: c) = 1 + len c.
Proof. intros; unfold len; cbn [length]; lia. Qed.
Lemma len_nil : len [] = 0.
Proof. reflexivity. Qed.
Lemma len_nonneg : forall c, 0 <= len c.
Proof. intros; unfold len; lia. Qed.

Lemma rewrite_length : forall b brk cnt n, length (rewrite brk cnt n b) = length b.
Proof. induction b; intros; cbn [rewrite length]; [reflexivity | now rewrite IHb]. Qed.
Lemma len_rewrite : forall b brk cnt n, len (rewrite brk cnt n b) = len b.
Proof. intros; unfold len; now rewrite rewrite_length. Qed.

Lemma fetch_nth : forall C p i, 0 <= p -> fetch C (p + Z.of_nat i) = nth_error C (Z.to_nat p + i).
Proof.
  intros. unfold fetch. destruct (Z.ltb_spec (p + Z.of_nat i) 0); [lia|].
  f_equal. lia.
Qed.

Section Base.
  Variable orc : oracle.

  Inductive star (C : code) : cfg -> cfg -> Prop :=
  | star_refl : forall c, star C c c
  | star_step : forall c c' c'', step orc C c = Next c' -> star C c' c'' -> star C c c''.

  Lemma star_trans : forall C a b c, star C a b -> star C b c -> star C a c.
  Proof. induction 1; intros; [assumption | econstructor; eauto]. Qed.

  Lemma star_one : forall C a b, step orc C a = Next b -> star C a b.
  Proof. intros; econstructor; [eassumption | constructor]. Qed.

  (* the program C holds the code c at position p, except that a BREAK / CONTINUE placeholder of c
     may have been rewritten: then it is a JUMP to the designated target (if one is designated) *)
  Definition carried_instr (C : code) (q : Z) (x : cinstr) (bt ct : option Z) : Prop :=
    match x with
    | CBreak => match bt with Some t => fetch C q = Some (CJump (t - q - 1)) | None => True end
    | CContinue => match ct with Some t => fetch C q = Some (CJump (t - q - 1)) | None => True end
    | _ => fetch C q = Some x
    end.

  Definition carries (C : code) (p : Z) (c : code) (bt ct : option Z) : Prop :=
    forall i x, nth_error c i = Some x -> carried_instr C (p + Z.of_nat i) x bt ct.

  Lemma carries_nil : forall C p bt ct, carries C p [] bt ct.
  Proof. intros C p bt ct i x H; destruct i; discriminate. Qed.

  Lemma carries_cons : forall C p x c bt ct,
    carries C p (x :: c) bt ct <-> carried_instr C p x bt ct /\ carries C (p + 1) c bt ct.
  Proof.
    intros; split.
    - intros H; split.
      + specialize (H 0%nat x eq_refl). now rewrite Z.add_0_r in H.
      + intros i y Hy. specialize (H (S i) y Hy). replace (p + 1 + Z.of_nat i) with (p + Z.of_nat (S i)) by lia. exact H.
    - intros [H0 H1] i y Hy. destruct i.
      + cbn in Hy. inversion Hy; subst. now rewrite Z.add_0_r.
      + specialize (H1 i y Hy). replace (p + Z.of_nat (S i)) with (p + 1 + Z.of_nat i) by lia. exact H1.
  Qed.

  Lemma carries_app : forall a C p b bt ct,
    carries C p (a ++ b) bt ct <-> carries C p a bt ct /\ carries C (p + len a) b bt ct.
  Proof.
    induction a; intros.
    - cbn [app]. rewrite len_nil, Z.add_0_r. split; [intros; split; [apply carries_nil | assumption] | tauto].
    - cbn [app]. rewrite !carries_cons, IHa, len_cons.
      replace (p + (1 + len a0)) with (p + 1 + len a0) by lia. tauto.
  Qed.

  (* same code, whole program: nothing designated *)
  Lemma carries_self : forall C, carries C 0 C None None.
  Proof.
    intros C i x H. unfold carried_instr.
    assert (F : fetch C (0 + Z.of_nat i) = Some x).
    { rewrite fetch_nth by lia. cbn. exact H. }
    destruct x; auto.
  Qed.

  (* the effect of a rewriting loop: f gives the operand written at index n *)
  Definition rw_ok (f : Z -> option Z) (n0 p : Z) (t_old t_new : option Z) : Prop :=
    (exists t, t_new = Some t /\ forall i, 0 <= i -> f (n0 + i) = Some (t - (p + i) - 1))
    \/ ((forall n, f n = None) /\ t_new = t_old).

  Lemma rw_ok_shift : forall f n0 p a b, rw_ok f n0 p a b -> rw_ok f (n0 + 1) (p + 1) a b.
  Proof.
    intros f n0 p a b [[t [E H]] | [H E]]; [left | right; auto].
    exists t; split; auto. intros i Hi. specialize (H (i + 1) ltac:(lia)).
    replace (n0 + 1 + i) with (n0 + (i + 1)) by lia. rewrite H. f_equal. lia.
  Qed.

  Lemma carries_rewrite : forall c C p n0 brk cnt bt ct bt' ct',
    carries C p (rewrite brk cnt n0 c) bt ct ->
    rw_ok brk n0 p bt bt' -> rw_ok cnt n0 p ct ct' ->
    carries C p c bt' ct'.
  Proof.
    induction c; intros C p n0 brk cnt bt ct bt' ct' H Hb Hc.
    - apply carries_nil.
    - cbn [rewrite] in H. apply carries_cons in H. destruct H as [H0 H1].
      apply carries_cons. split.
      + destruct a; try exact H0; unfold carried_instr in *.
        * destruct Hb as [[t [E Hf]] | [Hf E]].
          -- subst bt'. specialize (Hf 0 ltac:(lia)). rewrite Z.add_0_r in Hf. rewrite Hf in H0.
             cbn in H0. rewrite H0. do 2 f_equal. lia.
          -- subst bt'. rewrite Hf in H0. exact H0.
        * destruct Hc as [[t [E Hf]] | [Hf E]].
          -- subst ct'. specialize (Hf 0 ltac:(lia)). rewrite Z.add_0_r in Hf. rewrite Hf in H0.
             cbn in H0. rewrite H0. do 2 f_equal. lia.
          -- subst ct'. rewrite Hf in H0. exact H0.
      + eapply IHc; [exact H1 | apply rw_ok_shift; exact Hb | apply rw_ok_shift; exact Hc].
  Qed.

  (* ---- reaching a program point with the operand stack restored and the slots below L untouched *)
  Definition reaches (C : code) (p : Z) (tr : trace) (stk : list sval) (s : nat -> sval)
             (p' : Z) (tr' : trace) (L : nat) : Prop :=
    exists s', star C (mkCfg p tr stk s) (mkCfg p' tr' stk s') /\ forall i, (i < L)%nat -> s' i = s i.

  Lemma reaches_refl : forall C p tr stk s L, reaches C p tr stk s p tr L.
  Proof. intros; exists s; split; [constructor | auto]. Qed.

  Lemma reaches_star : forall C p tr stk s p' tr' L,
    star C (mkCfg p tr stk s) (mkCfg p' tr' stk s) -> reaches C p tr stk s p' tr' L.
  Proof. intros; exists s; auto. Qed.

  Lemma reaches_trans : forall C p tr stk s p1 tr1 p2 tr2 L L1,
    reaches C p tr stk s p1 tr1 L ->
    (forall s1, reaches C p1 tr1 stk s1 p2 tr2 L1) -> (L <= L1)%nat ->
    reaches C p tr stk s p2 tr2 L.
  Proof.
    intros C p tr stk s p1 tr1 p2 tr2 L L1 [s1 [S1 F1]] H2 HL.
    destruct (H2 s1) as [s2 [S2 F2]]. exists s2; split.
    - eapply star_trans; eauto.
    - intros i Hi. rewrite F2 by lia. auto.
  Qed.

  Lemma reaches_weaken : forall C p tr stk s p' tr' L L',
    reaches C p tr stk s p' tr' L -> (L' <= L)%nat -> reaches C p tr stk s p' tr' L'.
  Proof. intros C p tr stk s p' tr' L L' [s1 [S1 F1]] HL. exists s1; split; auto. intros; apply F1; lia. Qed.

  (* what an outcome means for the machine: pend = the point just after the code;
     bt / ct = the break / continue targets the enclosing constructs designate *)
  Definition post_ok (C : code) (p pend : Z) (tr : trace) (stk : list sval) (s : nat -> sval) (L : nat)
             (bt ct : option Z) (out : outcome) (tr' : trace) : Prop :=
    match out with
    | Normal => reaches C p tr stk s pend tr' L
    | Brk => match bt with Some t => reaches C p tr stk s t tr' L | None => True end
    | Cont => match ct with Some t => reaches C p tr stk s t tr' L | None => True end
    | Ret => exists pr n, reaches C p tr stk s pr tr' L /\ fetch C pr = Some (CReturn n)
    end.

  Lemma post_ok_trans : forall C p tr stk s p1 tr1 L L1 pend bt ct out tr',
    reaches C p tr stk s p1 tr1 L ->
    (forall s1, post_ok C p1 pend tr1 stk s1 L1 bt ct out tr') -> (L <= L1)%nat ->
    post_ok C p pend tr stk s L bt ct out tr'.
  Proof.
    intros C p tr stk s p1 tr1 L L1 pend bt ct out tr' R H HL.
    destruct out; cbn [post_ok] in *.
    - eapply reaches_trans; eauto.
    - destruct bt; auto. eapply reaches_trans; eauto.
    - destruct ct; auto. eapply reaches_trans; eauto.
    - destruct R as [s1 [S1 F1]]. destruct (H s1) as [pr [n [[s2 [S2 F2]] Hf]]].
      exists pr, n; split; auto. exists s2; split.
      + eapply star_trans; eauto.
      + intros i Hi. rewrite F2 by lia. auto.
  Qed.

  (* an outcome other than Normal does not depend on where the code ends *)
  Lemma post_ok_pend : forall C p pend pend' tr stk s L bt ct out tr',
    out <> Normal -> post_ok C p pend tr stk s L bt ct out tr' -> post_ok C p pend' tr stk s L bt ct out tr'.
  Proof. intros; destruct out; auto; congruence. Qed.

  Lemma post_ok_weaken : forall C p pend tr stk s L L' bt ct out tr',
    post_ok C p pend tr stk s L bt ct out tr' -> (L' <= L)%nat -> post_ok C p pend tr stk s L' bt ct out tr'.
  Proof.
    intros C p pend tr stk s L L' bt ct out tr' H HL. destruct out; cbn [post_ok] in *.
    - eapply reaches_weaken; eauto.
    - destruct bt; auto; eapply reaches_weaken; eauto.
    - destruct ct; auto; eapply reaches_weaken; eauto.
    - destruct H as [pr [n [R F]]]. exists pr, n; split; auto. eapply reaches_weaken; eauto.
  Qed.
End Base.
