(* C05: the generic Pratt theorems instantiated with the table regenerated from
   symbol.go, and transported from the table's binding powers to Go's precedence levels. *)
From Coq Require Import ZArith List String Bool Lia.
From GV Require Import GoSpec.GoPrec Model.Pratt Model.PrattInst Gen.Tables_gen Proofs.C05_pratt.
Import ListNotations.
Open Scope string_scope.
Open Scope Z_scope.

Definition is_binop (s : string) : bool := existsb (String.eqb s) binops.

Lemma infix_in s : infix_of s = true -> In s binops.
Proof.
  unfold infix_of. intro H. apply andb_prop in H. destruct H as [H _].
  apply existsb_exists in H. destruct H as (x & Hx & E). apply String.eqb_eq in E. subst x. exact Hx.
Qed.

Section WithTable.
  Hypothesis Htab : table_ok_b = true.

  Lemma tab_parts :
    forallb (fun o => infix_of o) binops = true /\
    forallb (fun o1 => forallb (fun o2 => Bool.eqb (lbp_of o1 <? lbp_of o2) (go_prec o1 <? go_prec o2)) binops) binops = true /\
    forallb (fun o => (0 <? lbp_of o) && (commaBP <? lbp_of o) && (lbp_of o <=? neg_bp) && (lbp_of o <=? compl_bp) && (lbp_of o <=? not_bp)) binops = true /\
    (lbp_of ")" =? 0) = true.
  Proof.
    unfold table_ok_b in Htab.
    repeat match goal with H : (_ && _) = true |- _ => apply andb_prop in H; destruct H end.
    repeat split; assumption.
  Qed.

  Lemma binop_facts s : In s binops ->
    0 < lbp_of s /\ commaBP < lbp_of s /\ lbp_of s <= neg_bp /\ lbp_of s <= compl_bp /\ lbp_of s <= not_bp.
  Proof.
    intro Hs. destruct tab_parts as (_ & _ & H & _). rewrite forallb_forall in H. specialize (H s Hs).
    repeat match goal with H : (_ && _) = true |- _ => apply andb_prop in H; destruct H end.
    rewrite ?Z.ltb_lt, ?Z.leb_le in *. lia.
  Qed.

  Lemma binop_infix s : In s binops -> infix_of s = true.
  Proof. intro Hs. destruct tab_parts as (H & _). rewrite forallb_forall in H. exact (H s Hs). Qed.

  Lemma order_iso a b : In a binops -> In b binops -> (lbp_of a < lbp_of b <-> go_prec a < go_prec b).
  Proof.
    intros Ha Hb. destruct tab_parts as (_ & H & _). rewrite forallb_forall in H. specialize (H a Ha).
    rewrite forallb_forall in H. specialize (H b Hb). apply eqb_prop in H. rewrite <- !Z.ltb_lt. rewrite H. tauto.
  Qed.

  Lemma go_prec_pos a : In a binops -> 0 < go_prec a.
  Proof.
    assert (H : forallb (fun o => 0 <? go_prec o) binops = true) by (vm_compute; reflexivity).
    intro Ha. rewrite forallb_forall in H. apply Z.ltb_lt. exact (H a Ha).
  Qed.

  Lemma h_infix_pos : forall s, infix_of s = true -> 0 < lbp_of s.
  Proof. intros s H. apply (binop_facts s (infix_in s H)). Qed.
  Lemma h_infix_paren : forall s, infix_of s = true -> commaBP < lbp_of s.
  Proof. intros s H. apply (binop_facts s (infix_in s H)). Qed.
  Lemma h_infix_un : forall s, infix_of s = true -> lbp_of s <= neg_bp /\ lbp_of s <= compl_bp /\ lbp_of s <= not_bp.
  Proof. intros s H. pose proof (binop_facts s (infix_in s H)). tauto. Qed.
  Lemma h_close : lbp_of ")" = 0.
  Proof. destruct tab_parts as (_ & _ & _ & H). apply Z.eqb_eq. exact H. Qed.
  Lemma h_un_nonneg : 0 <= neg_bp /\ 0 <= compl_bp /\ 0 <= not_bp.
  Proof.
    assert (In "*" binops) as Hm by (cbv; tauto).
    pose proof (binop_facts "*" Hm). lia.
  Qed.
  Lemma h_paren_nonneg : 0 <= commaBP.
  Proof. vm_compute. discriminate. Qed.

  Lemma grouped_transport t : ops_ok infix_of t = true -> (grouped lbp_of t <-> grouped go_prec t).
  Proof.
    apply (grouped_iso lbp_of go_prec infix_of).
    - intros a b Ha Hb. apply order_iso; apply infix_in; assumption.
    - intros a Ha. pose proof (h_infix_pos a Ha). pose proof (go_prec_pos a (infix_in a Ha)). tauto.
  Qed.

  Lemma ops_binop_infix t : ops_ok is_binop t = true -> ops_ok infix_of t = true.
  Proof.
    induction t as [i s|op l IHl r IHr|u t IH|t IH]; cbn [ops_ok]; auto.
    intro H. apply andb_prop in H. destruct H as [H Hr]. apply andb_prop in H. destruct H as [Hop Hl].
    rewrite IHl, IHr by assumption. rewrite binop_infix; [reflexivity|].
    unfold is_binop in Hop. apply existsb_exists in Hop. destruct Hop as (x & Hx & E). apply String.eqb_eq in E. subst x. exact Hx.
  Qed.

  (* soundness: whatever the parser returns for a whole token list is the Go grouping of that list *)
  Lemma grouping_sound : forall ts t, goat_parse ts = inl (t, []) ->
    flatten t = ts /\ grouped go_prec t /\ ops_ok is_binop t = true.
  Proof.
    intros ts t H. unfold goat_parse, parse in H.
    destruct (pratt_sound lbp_of infix_of neg_bp compl_bp not_bp commaBP h_infix_pos h_infix_un _ 0 ts t [] ltac:(lia) H)
      as (Hf & Hg & Ho & _).
    rewrite app_nil_r in Hf. split; [exact Hf|]. split.
    - apply grouped_transport; assumption.
    - clear - Ho. induction t as [i s|op l IHl r IHr|u t IH|t IH]; cbn [ops_ok] in *; auto.
      apply andb_prop in Ho. destruct Ho as [Ho Hr]. apply andb_prop in Ho. destruct Ho as [Hop Hl].
      rewrite IHl, IHr by assumption. unfold is_binop. unfold infix_of in Hop. apply andb_prop in Hop. destruct Hop as [-> _]. reflexivity.
  Qed.

  (* completeness: every tree grouped by Go's precedence is what the parser returns for its token list *)
  Lemma grouping_complete : forall t, grouped go_prec t -> ops_ok is_binop t = true ->
    goat_parse (flatten t) = inl (t, []).
  Proof.
    intros t Hg Ho. pose proof (ops_binop_infix t Ho) as Hi.
    unfold goat_parse.
    apply (pratt_complete lbp_of infix_of neg_bp compl_bp not_bp commaBP h_infix_paren h_infix_un h_close h_paren_nonneg h_un_nonneg).
    - apply grouped_transport; assumption.
    - exact Hi.
  Qed.

  (* the specification determines the tree: Go's grouping of a token list is unique *)
  Lemma grouping_unique_go : forall t1 t2, grouped go_prec t1 -> ops_ok is_binop t1 = true ->
    grouped go_prec t2 -> ops_ok is_binop t2 = true -> flatten t1 = flatten t2 -> t1 = t2.
  Proof.
    intros t1 t2 G1 O1 G2 O2 E.
    pose proof (grouping_complete t1 G1 O1) as P1. pose proof (grouping_complete t2 G2 O2) as P2.
    rewrite E in P1. rewrite P1 in P2. inversion P2. reflexivity.
  Qed.
End WithTable.
