(* C12 (part 2): the cell-array level: well-formedness, probing, insert,
   reinsert (resize) and the backward shift. *)
From Coq Require Import ZArith List Bool Lia PeanoNat.
From GV Require Import Model.IntMap Proofs.C12_cyc.
Import ListNotations.

Section Table.
  Context {V : Type}.
  Variable vzero : V.

  Notation cell := (@cell V).
  Notation get_cell := (get_cell vzero).

  Definition occ (c : cell) : bool := negb (cdist c =? 0).
  Definition d (cs : list cell) (p : nat) : nat := cdist (get_cell cs p).
  Definition key (cs : list cell) (p : nat) : Z := ckey (get_cell cs p).
  Definition val (cs : list cell) (p : nat) : V := cval (get_cell cs p).
  Definition count (cs : list cell) : nat := length (filter occ cs).

  Lemma occ_true : forall c, occ c = true <-> cdist c <> 0.
  Proof.
    intros c. unfold occ. destruct (Nat.eqb_spec (cdist c) 0); cbn; split; intros; try lia; congruence.
  Qed.

  Lemma occ_false : forall c, occ c = false <-> cdist c = 0.
  Proof.
    intros c. unfold occ. destruct (Nat.eqb_spec (cdist c) 0); cbn; split; intros; try lia; congruence.
  Qed.

  (* ---------- get_cell / set_cell ---------- *)

  Lemma length_set_cell : forall (cs : list cell) i c, length (set_cell cs i c) = length cs.
  Proof.
    induction cs as [|x r IH]; intros i c; [reflexivity|].
    destruct i; cbn [set_cell length]; [reflexivity|]. rewrite IH. reflexivity.
  Qed.

  Lemma get_set_eq : forall (cs : list cell) i c, i < length cs -> get_cell (set_cell cs i c) i = c.
  Proof.
    unfold IntMap.get_cell.
    induction cs as [|x r IH]; intros i c Hi; cbn [length] in Hi; [lia|].
    destruct i; cbn [set_cell nth]; [reflexivity|]. apply IH. lia.
  Qed.

  Lemma get_set_neq : forall (cs : list cell) i j c, i <> j -> get_cell (set_cell cs i c) j = get_cell cs j.
  Proof.
    unfold IntMap.get_cell.
    induction cs as [|x r IH]; intros i j c Hne; [reflexivity|].
    destruct i, j; cbn [set_cell nth]; try reflexivity; try lia.
    apply IH. lia.
  Qed.

  Lemma d_set_eq : forall cs i c, i < length cs -> d (set_cell cs i c) i = cdist c.
  Proof. intros. unfold d. rewrite get_set_eq; auto. Qed.
  Lemma d_set_neq : forall cs i j c, i <> j -> d (set_cell cs i c) j = d cs j.
  Proof. intros. unfold d. rewrite get_set_neq; auto. Qed.
  Lemma key_set_eq : forall cs i c, i < length cs -> key (set_cell cs i c) i = ckey c.
  Proof. intros. unfold key. rewrite get_set_eq; auto. Qed.
  Lemma key_set_neq : forall cs i j c, i <> j -> key (set_cell cs i c) j = key cs j.
  Proof. intros. unfold key. rewrite get_set_neq; auto. Qed.
  Lemma val_set_eq : forall cs i c, i < length cs -> val (set_cell cs i c) i = cval c.
  Proof. intros. unfold val. rewrite get_set_eq; auto. Qed.
  Lemma val_set_neq : forall cs i j c, i <> j -> val (set_cell cs i c) j = val cs j.
  Proof. intros. unfold val. rewrite get_set_neq; auto. Qed.

  Lemma count_set_cell : forall (cs : list cell) i c, i < length cs ->
    count (set_cell cs i c) + (if occ (get_cell cs i) then 1 else 0)
    = count cs + (if occ c then 1 else 0).
  Proof.
    unfold count, IntMap.get_cell.
    induction cs as [|x r IH]; intros i c Hi; cbn [length] in Hi; [lia|].
    destruct i; cbn [set_cell nth filter].
    - destruct (occ c), (occ x); cbn [length]; lia.
    - specialize (IH i c ltac:(lia)).
      destruct (occ x); cbn [length]; lia.
  Qed.

  Lemma exists_empty : forall (cs : list cell), count cs < length cs ->
    exists e, e < length cs /\ d cs e = 0.
  Proof.
    unfold count, d, IntMap.get_cell.
    induction cs as [|x r IH]; intros H; cbn [length] in H; [lia|].
    cbn [filter] in H.
    destruct (occ x) eqn:Ex.
    - cbn [length] in H. destruct IH as [e [He Hd]]; [lia|].
      exists (S e). split; [cbn [length]; lia | exact Hd].
    - exists 0. split; [cbn [length]; lia|]. cbn [nth]. apply occ_false. exact Ex.
  Qed.

  (* ---------- well-formedness ---------- *)

  Section WF.
    Variable n : nat.
    Hypothesis Hn2 : 2 <= n.

    Definition dist_ok (cs : list cell) : Prop :=
      forall p, p < n -> d cs p <> 0 -> d cs p = S (cd n (home n (key cs p)) p).
    Definition ord_ok (cs : list cell) : Prop :=
      forall p, p < n -> d cs (next n p) <= S (d cs p).
    Definition uniq_ok (cs : list cell) : Prop :=
      forall p q, p < n -> q < n -> d cs p <> 0 -> d cs q <> 0 -> key cs p = key cs q -> p = q.
    (* all but index x *)
    Definition uniq_ex (x : nat) (cs : list cell) : Prop :=
      forall p q, p < n -> q < n -> p <> x -> q <> x ->
        d cs p <> 0 -> d cs q <> 0 -> key cs p = key cs q -> p = q.

    Record WF (cs : list cell) : Prop := mkWF {
      wf_len : length cs = n;
      wf_dist : dist_ok cs;
      wf_ord : ord_ok cs;
      wf_uniq : uniq_ok cs }.

    Definition HasKV (cs : list cell) (k : Z) (v : V) : Prop :=
      exists q, q < length cs /\ d cs q <> 0 /\ key cs q = k /\ val cs q = v.
    Definition HasKVex (x : nat) (cs : list cell) (k : Z) (v : V) : Prop :=
      exists q, q < length cs /\ q <> x /\ d cs q <> 0 /\ key cs q = k /\ val cs q = v.

    Let Hn : 0 < n. Proof. lia. Qed.

    (* distances are bounded by the distance from any empty cell *)
    Lemma dist_le_at : forall cs e, ord_ok cs -> e < n -> d cs e = 0 ->
      forall j, d cs (at_ n e j) <= j.
    Proof.
      intros cs e Ho He Hd. induction j as [|j IH].
      - rewrite at_0 by exact He. lia.
      - rewrite <- next_at by exact Hn.
        pose proof (Ho (at_ n e j) (at_lt n e j Hn)). lia.
    Qed.

    Lemma dist_le_cd : forall cs e q, ord_ok cs -> e < n -> d cs e = 0 -> q < n ->
      d cs q <= cd n e q.
    Proof.
      intros cs e q Ho He Hd Hq.
      pose proof (dist_le_at cs e Ho He Hd (cd n e q)) as H.
      rewrite at_cd in H by auto. exact H.
    Qed.

    (* ---------- probing ---------- *)

    Fixpoint probe (fuel : nat) (cs : list cell) (i : nat) (k : Z) : option (option nat) :=
      match fuel with
      | O => None
      | S f =>
          let c := get_cell cs i in
          if cdist c =? 0 then Some None
          else if Z.eqb (ckey c) k then Some (Some i)
          else probe f cs (next n i) k
      end.

    Lemma probe_found : forall cs k p, ord_ok cs -> dist_ok cs -> uniq_ok cs ->
      p < n -> d cs p <> 0 -> key cs p = k ->
      forall fuel, n <= fuel -> probe fuel cs (home n k) k = Some (Some p).
    Proof.
      intros cs k p Ho Hdi Hu Hp Hdp Hk fuel Hfuel.
      set (h := home n k).
      assert (Hh : h < n) by (apply home_lt; exact Hn).
      set (c := cd n h p).
      assert (Hc : c < n) by (apply cd_lt; exact Hn).
      assert (Hdc : d cs p = S c).
      { rewrite (Hdi p Hp Hdp). rewrite Hk. reflexivity. }
      assert (Hpc : at_ n h c = p) by (apply at_cd; auto).
      assert (G : forall r f j, j + r = c -> r < f -> probe f cs (at_ n h j) k = Some (Some p)).
      { induction r as [|r IH]; intros f j Hjr Hf; (destruct f as [|f]; [lia|]); cbn [probe].
        - replace j with c by lia. rewrite Hpc.
          fold (d cs p). fold (key cs p).
          destruct (Nat.eqb_spec (d cs p) 0) as [E|E]; [contradiction|].
          rewrite Hk, Z.eqb_refl. reflexivity.
        - set (i := at_ n h j).
          assert (Hi : i < n) by (apply at_lt; exact Hn).
          fold (d cs i). fold (key cs i).
          destruct (Nat.eqb_spec (d cs i) 0) as [E|E].
          + exfalso.
            pose proof (dist_le_at cs i Ho Hi E (S r)) as H.
            unfold i in H. rewrite at_at in H by exact Hn.
            rewrite Hjr, Hpc in H. lia.
          + destruct (Z.eqb_spec (key cs i) k) as [Ek|Ek].
            * assert (Eip : i = p) by (apply Hu; auto; congruence). rewrite Eip. reflexivity.
            * unfold i. rewrite next_at by exact Hn. apply IH; lia. }
      rewrite <- (at_0 n h Hh). apply (G c fuel 0); lia.
    Qed.

    Lemma probe_term : forall cs e k, e < n -> d cs e = 0 ->
      forall t fuel i, i < n -> cd n i e = t -> t < fuel ->
      exists r, probe fuel cs i k = Some r /\
        (forall p, r = Some p -> p < n /\ d cs p <> 0 /\ key cs p = k).
    Proof.
      intros cs e k He Hde.
      induction t as [|t IH]; intros fuel i Hi Ht Hf; (destruct fuel as [|f]; [lia|]); cbn [probe];
        fold (d cs i); fold (key cs i).
      - assert (i = e) by (apply (cd_0_eq n); auto). subst i.
        rewrite Hde. cbn. eexists; split; [reflexivity|]. intros p Hp; discriminate.
      - destruct (Nat.eqb_spec (d cs i) 0) as [E|E].
        + eexists; split; [reflexivity|]. intros p Hp; discriminate.
        + destruct (Z.eqb_spec (key cs i) k) as [Ek|Ek].
          * eexists; split; [reflexivity|]. intros p Hp. inversion Hp; subst p. auto.
          * assert (Hne : i <> e) by congruence.
            pose proof (cd_next_l n i e Hi He Hne) as Hs.
            apply IH; [apply next_lt; exact Hn | lia | lia].
    Qed.

    Lemma probe_cases : forall cs k fuel, WF cs -> count cs < n -> n <= fuel ->
      (exists p, probe fuel cs (home n k) k = Some (Some p) /\ p < n /\ d cs p <> 0 /\ key cs p = k)
      \/ (probe fuel cs (home n k) k = Some None /\ forall q, q < n -> d cs q <> 0 -> key cs q <> k).
    Proof.
      intros cs k fuel [Hl Hdi Ho Hu] Hc Hf.
      destruct (exists_empty cs) as [e [He Hde]]; [lia|]. rewrite Hl in He.
      assert (Hh : home n k < n) by (apply home_lt; exact Hn).
      destruct (probe_term cs e k He Hde (cd n (home n k) e) fuel (home n k) Hh eq_refl) as [r [Hr Hp]].
      { pose proof (cd_lt n (home n k) e Hn). lia. }
      destruct r as [p|].
      - left. exists p. split; [exact Hr|]. apply Hp. reflexivity.
      - right. split; [exact Hr|]. intros q Hq Hdq Hk.
        rewrite (probe_found cs k q Ho Hdi Hu Hq Hdq Hk fuel Hf) in Hr. discriminate.
    Qed.

    (* ---------- placing a cell ---------- *)

    Lemma place_ok : forall cs i p j,
      WF cs -> i < n -> j < n -> i = at_ n (home n (ckey p)) j -> cdist p = S j ->
      d cs i <= S j ->
      (forall q, q < n -> next n q = i -> j <= d cs q) ->
      (forall q, q < n -> d cs q <> 0 -> key cs q <> ckey p) ->
      WF (set_cell cs i p).
    Proof.
      intros cs i p j [Hl Hdi Ho Hu] Hi Hj Ei Ep Hle Hprev Hkeys.
      assert (Hil : i < length cs) by lia.
      split.
      - rewrite length_set_cell. exact Hl.
      - intros q Hq Hdq. destruct (Nat.eq_dec i q) as [E|E].
        + subst q. rewrite d_set_eq, key_set_eq by exact Hil.
          rewrite Ep. f_equal. rewrite Ei. symmetry. apply cd_at; [apply home_lt; exact Hn | exact Hj].
        + rewrite d_set_neq in * by exact E. rewrite key_set_neq by exact E. apply Hdi; auto.
      - intros q Hq.
        assert (Hnq : next n q < n) by (apply next_lt; exact Hn).
        pose proof (next_neq n q Hn2 Hq) as Hnn.
        destruct (Nat.eq_dec i (next n q)) as [E1|E1].
        + rewrite <- E1. rewrite d_set_eq by exact Hil.
          rewrite d_set_neq by congruence.
          pose proof (Hprev q Hq (eq_sym E1)). lia.
        + rewrite (d_set_neq cs i (next n q)) by exact E1.
          destruct (Nat.eq_dec i q) as [E2|E2].
          * subst q. rewrite d_set_eq by exact Hil. pose proof (Ho i Hi). lia.
          * rewrite d_set_neq by exact E2. apply Ho. exact Hq.
      - intros a b Ha Hb Hda Hdb Hk.
        destruct (Nat.eq_dec i a) as [Ea|Ea]; destruct (Nat.eq_dec i b) as [Eb|Eb].
        + congruence.
        + subst a. rewrite key_set_eq in Hk by exact Hil.
          rewrite d_set_neq in Hdb by exact Eb. rewrite key_set_neq in Hk by exact Eb.
          exfalso. apply (Hkeys b Hb Hdb). congruence.
        + subst b. rewrite key_set_eq in Hk by exact Hil.
          rewrite d_set_neq in Hda by exact Ea. rewrite key_set_neq in Hk by exact Ea.
          exfalso. apply (Hkeys a Ha Hda). congruence.
        + rewrite d_set_neq in Hda, Hdb by assumption.
          rewrite !key_set_neq in Hk by assumption. apply Hu; auto.
    Qed.

    Lemma HasKV_place : forall cs i p, i < length cs -> cdist p <> 0 ->
      forall k v, (HasKV (set_cell cs i p) k v \/ (d cs i <> 0 /\ k = key cs i /\ v = val cs i))
               <-> (HasKV cs k v \/ (k = ckey p /\ v = cval p)).
    Proof.
      intros cs i p Hil Hp k v. unfold HasKV. rewrite length_set_cell. split.
      - intros [[q [Hq [Hdq [Hk Hv]]]] | [Hdi [Hk Hv]]].
        + destruct (Nat.eq_dec i q) as [E|E].
          * subst q. rewrite key_set_eq in Hk by exact Hil. rewrite val_set_eq in Hv by exact Hil.
            right. split; congruence.
          * rewrite d_set_neq in Hdq by exact E. rewrite key_set_neq in Hk by exact E.
            rewrite val_set_neq in Hv by exact E. left. exists q. auto.
        + left. exists i. auto.
      - intros [[q [Hq [Hdq [Hk Hv]]]] | [Hk Hv]].
        + destruct (Nat.eq_dec i q) as [E|E].
          * subst q. right. auto.
          * left. exists q. rewrite d_set_neq, key_set_neq, val_set_neq by exact E. auto.
        + left. exists i. rewrite d_set_eq, key_set_eq, val_set_eq by exact Hil. auto.
    Qed.

    (* ---------- insert ---------- *)

    Lemma insert_loop_ok : forall e, e < n -> forall t fuel cs i p j,
      WF cs -> d cs e = 0 -> i < n -> cd n i e = t -> t < fuel ->
      i = at_ n (home n (ckey p)) j -> cdist p = S j -> j + t < n ->
      (forall q, q < n -> next n q = i -> j <= d cs q) ->
      (forall q, q < n -> d cs q <> 0 -> key cs q <> ckey p) ->
      exists cs', insert_loop vzero fuel n cs i p = Some cs' /\ WF cs' /\
        count cs' = S (count cs) /\
        forall k v, HasKV cs' k v <-> (HasKV cs k v \/ (k = ckey p /\ v = cval p)).
    Proof.
      intros e He.
      induction t as [|t IH]; intros fuel cs i p j Hwf Hde Hi Ht Hf Ei Ep Hjt Hprev Hkeys;
        (destruct fuel as [|f]; [lia|]); cbn [insert_loop];
        pose proof (wf_len cs Hwf) as Hl;
        assert (Hil : i < length cs) by lia;
        fold (d cs i); rewrite Ep.
      - (* i = e: the cell is empty *)
        assert (Eie : i = e) by (apply (cd_0_eq n); auto).
        assert (E0 : d cs i = 0) by (rewrite Eie; exact Hde).
        rewrite E0. cbn.
        exists (set_cell cs i p). split; [reflexivity|]. split; [|split].
        + apply (place_ok cs i p j); auto; lia.
        + pose proof (count_set_cell cs i p Hil) as Hc.
          assert (O1 : occ (get_cell cs i) = false) by (apply occ_false; exact E0).
          assert (O2 : occ p = true) by (apply occ_true; lia).
          rewrite O1, O2 in Hc. lia.
        + intros k v. rewrite <- (HasKV_place cs i p Hil ltac:(lia) k v).
          split; [auto|]. intros [H|[H _]]; [exact H | contradiction].
      - destruct (Nat.ltb_spec (d cs i) (S j)) as [Hlt|Hge].
        + destruct (Nat.eqb_spec (d cs i) 0) as [E0|E0].
          * (* an empty cell before e *)
            exists (set_cell cs i p). split; [reflexivity|]. split; [|split].
            -- apply (place_ok cs i p j); auto; lia.
            -- pose proof (count_set_cell cs i p Hil) as Hc.
               assert (O1 : occ (get_cell cs i) = false) by (apply occ_false; exact E0).
               assert (O2 : occ p = true) by (apply occ_true; lia).
               rewrite O1, O2 in Hc. lia.
            -- intros k v. rewrite <- (HasKV_place cs i p Hil ltac:(lia) k v).
               split; [auto|]. intros [H|[H _]]; [exact H | contradiction].
          * (* swap and carry the old occupant *)
            assert (Hne : i <> e) by congruence.
            pose proof (cd_next_l n i e Hi He Hne) as Hs.
            set (c := get_cell cs i).
            set (cs1 := set_cell cs i p).
            assert (Hwf1 : WF cs1) by (apply (place_ok cs i p j); auto; lia).
            pose proof (wf_dist cs Hwf i Hi E0) as Hdi.
            set (h' := home n (key cs i)) in Hdi.
            assert (Hh' : h' < n) by (apply home_lt; exact Hn).
            pose proof (dist_le_cd cs e i (wf_ord cs Hwf) He Hde Hi) as Hle.
            pose proof (cd_sym n i e Hi He Hne) as Hsym.
            destruct (IH f cs1 (next n i) (mkCell (S (d cs i)) (ckey c) (cval c)) (d cs i))
              as [cs' [Hrun [Hwf' [Hcnt Hkv]]]]; auto.
            -- unfold cs1. rewrite d_set_neq by exact Hne. exact Hde.
            -- apply next_lt; exact Hn.
            -- lia.
            -- lia.
            -- cbn [ckey]. fold (key cs i). fold h'.
               rewrite Hdi. rewrite <- next_at by exact Hn. rewrite at_cd by auto. reflexivity.
            -- lia.
            -- intros q Hq Hnq. apply next_inj in Hnq; auto. subst q.
               unfold cs1. rewrite d_set_eq by exact Hil. lia.
            -- cbn [ckey]. fold (key cs i). intros q Hq Hdq. unfold cs1 in *.
               destruct (Nat.eq_dec i q) as [E|E].
               ++ subst q. rewrite key_set_eq by exact Hil.
                  intro Hk. apply (Hkeys i Hi E0). symmetry. exact Hk.
               ++ rewrite d_set_neq in Hdq by exact E. rewrite key_set_neq by exact E.
                  intro Hk. apply E. symmetry. apply (wf_uniq cs Hwf); auto.
            -- exists cs'. split; [exact Hrun|]. split; [exact Hwf'|]. split.
               ++ rewrite Hcnt. f_equal.
                  pose proof (count_set_cell cs i p Hil) as Hc.
                  assert (O1 : occ (get_cell cs i) = true) by (apply occ_true; exact E0).
                  assert (O2 : occ p = true) by (apply occ_true; lia).
                  rewrite O1, O2 in Hc. unfold cs1. lia.
               ++ intros k v. rewrite Hkv. cbn [ckey cval].
                  rewrite <- (HasKV_place cs i p Hil ltac:(lia) k v).
                  fold cs1. fold (key cs i). fold (val cs i). tauto.
        + (* keep probing with the same carried pair *)
          assert (E0 : d cs i <> 0) by lia.
          assert (Hne : i <> e) by congruence.
          pose proof (cd_next_l n i e Hi He Hne) as Hs.
          destruct (IH f cs (next n i) (mkCell (S (S j)) (ckey p) (cval p)) (S j))
            as [cs' [Hrun [Hwf' [Hcnt Hkv]]]]; auto.
          * apply next_lt; exact Hn.
          * lia.
          * lia.
          * cbn [ckey]. rewrite Ei. apply next_at. exact Hn.
          * lia.
          * intros q Hq Hnq. apply next_inj in Hnq; auto. subst q. lia.
          * exists cs'. split; [exact Hrun|]. split; [exact Hwf'|]. split; [exact Hcnt|].
            intros k v. rewrite Hkv. cbn [ckey cval]. tauto.
    Qed.

    Lemma insert_ok : forall cs k v, WF cs -> count cs < n ->
      (forall q, q < n -> d cs q <> 0 -> key cs q <> k) ->
      exists cs', insert vzero n cs k v = Some cs' /\ WF cs' /\ count cs' = S (count cs) /\
        forall k' v', HasKV cs' k' v' <-> (HasKV cs k' v' \/ (k' = k /\ v' = v)).
    Proof.
      intros cs k v Hwf Hc Hkeys.
      pose proof (wf_len cs Hwf) as Hl.
      destruct (exists_empty cs) as [e [He Hde]]; [lia|]. rewrite Hl in He.
      assert (Hh : home n k < n) by (apply home_lt; exact Hn).
      pose proof (cd_lt n (home n k) e Hn) as Hcd.
      unfold insert.
      apply (insert_loop_ok e He (cd n (home n k) e) (2 * n) cs (home n k) (mkCell 1 k v) 0); auto.
      - lia.
      - cbn [ckey]. symmetry. apply at_0. exact Hh.
      - intros; lia.
    Qed.

    (* ---------- reinsert (the body of resize) ---------- *)

    Lemma reinsert_ok : forall old cs, WF cs ->
      NoDup (map ckey (filter occ old)) ->
      (forall c, In c old -> occ c = true -> forall q, q < n -> d cs q <> 0 -> key cs q <> ckey c) ->
      count cs + length (filter occ old) < n ->
      exists cs', reinsert vzero n old cs = Some cs' /\ WF cs' /\
        count cs' = count cs + length (filter occ old) /\
        forall k v, HasKV cs' k v <->
          (HasKV cs k v \/ exists c, In c old /\ occ c = true /\ ckey c = k /\ cval c = v).
    Proof.
      induction old as [|c r IH]; intros cs Hwf Hnd Hdisj Hcnt; cbn [reinsert].
      - exists cs. split; [reflexivity|]. split; [exact Hwf|]. split; [cbn; lia|].
        intros k v. split; [auto|]. intros [H|[c [[] _]]]. exact H.
      - cbn [filter] in Hnd, Hcnt |- *.
        destruct (Nat.eqb_spec (cdist c) 0) as [E|E].
        + assert (Oc : occ c = false) by (apply occ_false; exact E).
          rewrite Oc in Hnd, Hcnt |- *.
          destruct (IH cs Hwf Hnd) as [cs' [Hrun [Hwf' [Hc' Hkv]]]]; auto.
          { intros c' Hin. apply Hdisj. right. exact Hin. }
          exists cs'. split; [exact Hrun|]. split; [exact Hwf'|]. split; [exact Hc'|].
          intros k v. rewrite Hkv. split.
          * intros [H|[c' [Hin H]]]; [left; exact H|]. right. exists c'. split; [right; exact Hin | exact H].
          * intros [H|[c' [[Hin|Hin] [Ho H]]]]; [left; exact H | subst c'; congruence |].
            right. exists c'. auto.
        + assert (Oc : occ c = true) by (apply occ_true; exact E).
          rewrite Oc in Hnd, Hcnt |- *. cbn [map length] in Hnd, Hcnt |- *.
          apply NoDup_cons_iff in Hnd. destruct Hnd as [Hnin Hnd].
          destruct (insert_ok cs (ckey c) (cval c) Hwf) as [cs1 [Hrun1 [Hwf1 [Hc1 Hkv1]]]].
          { lia. }
          { apply Hdisj; [left; reflexivity | exact Oc]. }
          rewrite Hrun1.
          pose proof (wf_len cs1 Hwf1) as Hl1.
          destruct (IH cs1 Hwf1 Hnd) as [cs' [Hrun [Hwf' [Hc' Hkv]]]].
          { intros c' Hin Ho q Hq Hdq Hk.
            assert (HK : HasKV cs1 (key cs1 q) (val cs1 q)).
            { exists q. rewrite Hl1. auto. }
            apply Hkv1 in HK. destruct HK as [[q' [Hq' [Hdq' [Hk' _]]]] | [Hk' _]].
            - rewrite (wf_len cs Hwf) in Hq'.
              apply (Hdisj c' (or_intror Hin) Ho q' Hq' Hdq'). congruence.
            - apply Hnin. apply in_map_iff. exists c'. split; [congruence|].
              apply filter_In. auto. }
          { lia. }
          exists cs'. split; [exact Hrun|]. split; [exact Hwf'|]. split; [lia|].
          intros k v. rewrite Hkv, Hkv1. split.
          * intros [[H|[Hk Hv]]|[c' [Hin H]]].
            -- left; exact H.
            -- right. exists c. split; [left; reflexivity|]. auto.
            -- right. exists c'. split; [right; exact Hin | exact H].
          * intros [H|[c' [[Hin|Hin] [Ho [Hk Hv]]]]].
            -- left; left; exact H.
            -- subst c'. left; right. auto.
            -- right. exists c'. auto.
    Qed.

    (* ---------- in-place update of a value ---------- *)

    Lemma WF_same : forall cs cs', WF cs -> length cs' = length cs ->
      (forall q, d cs' q = d cs q) -> (forall q, key cs' q = key cs q) -> WF cs'.
    Proof.
      intros cs cs' [Hl Hdi Ho Hu] Hl' Hd Hk. split.
      - congruence.
      - intros p Hp. rewrite Hd, Hk. apply Hdi. exact Hp.
      - intros p Hp. rewrite !Hd. apply Ho. exact Hp.
      - intros p q Hp Hq. rewrite !Hd, !Hk. apply Hu; auto.
    Qed.

    Lemma update_ok : forall cs p v, WF cs -> p < n -> d cs p <> 0 ->
      let cs' := set_cell cs p (mkCell (d cs p) (key cs p) v) in
      WF cs' /\ count cs' = count cs /\
      forall k' v', HasKV cs' k' v' <->
        ((HasKV cs k' v' /\ k' <> key cs p) \/ (k' = key cs p /\ v' = v)).
    Proof.
      intros cs p v Hwf Hp Hdp cs'.
      pose proof (wf_len cs Hwf) as Hl.
      assert (Hpl : p < length cs) by lia.
      assert (Hd : forall q, d cs' q = d cs q).
      { intros q. unfold cs'. destruct (Nat.eq_dec p q) as [E|E].
        - subst q. rewrite d_set_eq by exact Hpl. reflexivity.
        - apply d_set_neq. exact E. }
      assert (Hk : forall q, key cs' q = key cs q).
      { intros q. unfold cs'. destruct (Nat.eq_dec p q) as [E|E].
        - subst q. rewrite key_set_eq by exact Hpl. reflexivity.
        - apply key_set_neq. exact E. }
      split; [|split].
      - apply (WF_same cs); auto. unfold cs'. apply length_set_cell.
      - pose proof (count_set_cell cs p (mkCell (d cs p) (key cs p) v) Hpl) as Hc.
        assert (O1 : occ (get_cell cs p) = true) by (apply occ_true; exact Hdp).
        assert (O2 : occ (mkCell (d cs p) (key cs p) v) = true) by (apply occ_true; exact Hdp).
        rewrite O1, O2 in Hc. fold cs' in Hc. lia.
      - intros k' v'. unfold HasKV. unfold cs' at 1. rewrite length_set_cell. split.
        + intros [q [Hq [Hdq [Hkq Hvq]]]]. rewrite Hd in Hdq. rewrite Hk in Hkq.
          destruct (Nat.eq_dec p q) as [E|E].
          * subst q. right. split; [congruence|].
            unfold cs' in Hvq. rewrite val_set_eq in Hvq by exact Hpl. cbn in Hvq. congruence.
          * left. split.
            -- exists q. unfold cs' in Hvq. rewrite val_set_neq in Hvq by exact E. auto.
            -- intro Ek. apply E. symmetry. apply (wf_uniq cs Hwf); auto; try lia; congruence.
        + intros [[[q [Hq [Hdq [Hkq Hvq]]]] Hne] | [Ek Ev]].
          * exists q. rewrite Hd, Hk. assert (E : p <> q) by congruence.
            unfold cs'. rewrite val_set_neq by exact E. auto.
          * exists p. rewrite Hd, Hk. unfold cs'. rewrite val_set_eq by exact Hpl. cbn. auto.
    Qed.

    (* ---------- backward shift ---------- *)

    Record SH (prev : nat) (cs : list cell) : Prop := mkSH {
      sh_len : length cs = n;
      sh_dist : dist_ok cs;
      sh_ord : ord_ok cs;
      sh_uniq : uniq_ex prev cs;
      sh_lt : prev < n;
      sh_occ : d cs prev <> 0 }.

    Lemma SH_init : forall cs p, WF cs -> p < n -> d cs p <> 0 -> SH p cs.
    Proof.
      intros cs p [Hl Hdi Ho Hu] Hp Hdp. split; auto.
      intros a b Ha Hb _ _. apply Hu; auto.
    Qed.

    Lemma HasKVex_init : forall cs p, WF cs -> p < n -> d cs p <> 0 ->
      forall k v, HasKVex p cs k v <-> (HasKV cs k v /\ k <> key cs p).
    Proof.
      intros cs p Hwf Hp Hdp k v. pose proof (wf_len cs Hwf) as Hl. split.
      - intros [q [Hq [Hne [Hdq [Hk Hv]]]]]. split; [exists q; auto|].
        intro E. apply Hne. apply (wf_uniq cs Hwf); auto; try lia; congruence.
      - intros [[q [Hq [Hdq [Hk Hv]]]] Hne]. exists q. repeat split; auto. congruence.
    Qed.

    Lemma shift_step : forall cs prev i, SH prev cs -> i = next n prev -> 2 <= d cs i ->
      let cs' := set_cell cs prev (mkCell (d cs i - 1) (key cs i) (val cs i)) in
      SH i cs' /\ count cs' = count cs /\ (forall q, q <> prev -> d cs' q = d cs q) /\
      forall k v, HasKVex i cs' k v <-> HasKVex prev cs k v.
    Proof.
      intros cs prev i [Hl Hdi Ho Hu Hp Hdp] Ei Hd2 cs'.
      assert (Hpl : prev < length cs) by lia.
      assert (Hi : i < n) by (rewrite Ei; apply next_lt; exact Hn).
      assert (Hne : prev <> i) by (rewrite Ei; intro E; symmetry in E; revert E; apply next_neq; auto).
      assert (Hdq : forall q, q <> prev -> d cs' q = d cs q).
      { intros q Hq. unfold cs'. apply d_set_neq. congruence. }
      assert (Hkq : forall q, q <> prev -> key cs' q = key cs q).
      { intros q Hq. unfold cs'. apply key_set_neq. congruence. }
      assert (Hvq : forall q, q <> prev -> val cs' q = val cs q).
      { intros q Hq. unfold cs'. apply val_set_neq. congruence. }
      assert (Hdp' : d cs' prev = d cs i - 1) by (unfold cs'; rewrite d_set_eq by exact Hpl; reflexivity).
      assert (Hkp' : key cs' prev = key cs i) by (unfold cs'; rewrite key_set_eq by exact Hpl; reflexivity).
      assert (Hvp' : val cs' prev = val cs i) by (unfold cs'; rewrite val_set_eq by exact Hpl; reflexivity).
      split; [|split; [|split]].
      - split.
        + unfold cs'. rewrite length_set_cell. exact Hl.
        + intros q Hq Hdq0. destruct (Nat.eq_dec q prev) as [E|E].
          * subst q. rewrite Hdp', Hkp'.
            pose proof (Hdi i Hi ltac:(lia)) as Hdii.
            set (h := home n (key cs i)) in *.
            assert (Hh : h < n) by (apply home_lt; exact Hn).
            assert (Hnz : cd n h (next n prev) <> 0) by (rewrite <- Ei; lia).
            pose proof (cd_next_r n h prev Hh Hp Hnz) as Hs. rewrite <- Ei in Hs. lia.
          * rewrite Hdq in * by exact E. rewrite Hkq by exact E. apply Hdi; auto.
        + intros q Hq.
          pose proof (next_neq n q Hn2 Hq) as Hnn.
          destruct (Nat.eq_dec (next n q) prev) as [E1|E1].
          * rewrite E1, Hdp'. rewrite Hdq by congruence.
            pose proof (Ho q Hq) as H1. rewrite E1 in H1.
            pose proof (Ho prev Hp) as H2. rewrite <- Ei in H2. lia.
          * rewrite (Hdq (next n q)) by exact E1.
            destruct (Nat.eq_dec q prev) as [E2|E2].
            -- subst q. rewrite Hdp'. rewrite <- Ei. lia.
            -- rewrite Hdq by exact E2. apply Ho. exact Hq.
        + intros a b Ha Hb Hai Hbi Hda Hdb Hk.
          destruct (Nat.eq_dec a prev) as [Ea|Ea]; destruct (Nat.eq_dec b prev) as [Eb|Eb].
          * congruence.
          * subst a. rewrite Hkp' in Hk. rewrite Hdq in Hdb by exact Eb. rewrite Hkq in Hk by exact Eb.
            exfalso. apply Hbi. apply Hu; auto; try lia; congruence.
          * subst b. rewrite Hkp' in Hk. rewrite Hdq in Hda by exact Ea. rewrite Hkq in Hk by exact Ea.
            exfalso. apply Hai. apply Hu; auto; lia.
          * rewrite Hdq in Hda, Hdb by assumption. rewrite !Hkq in Hk by assumption.
            apply Hu; auto.
        + exact Hi.
        + rewrite Hdq by congruence. lia.
      - pose proof (count_set_cell cs prev (mkCell (d cs i - 1) (key cs i) (val cs i)) Hpl) as Hc.
        assert (O1 : occ (get_cell cs prev) = true) by (apply occ_true; exact Hdp).
        assert (O2 : occ (mkCell (d cs i - 1) (key cs i) (val cs i)) = true) by (apply occ_true; cbn; lia).
        rewrite O1, O2 in Hc. fold cs' in Hc. lia.
      - exact Hdq.
      - intros k v. unfold HasKVex. unfold cs' at 1. rewrite length_set_cell. split.
        + intros [q [Hq [Hqi [Hdq0 [Hk Hv]]]]].
          destruct (Nat.eq_dec q prev) as [E|E].
          * subst q. exists i. rewrite Hkp' in Hk. rewrite Hvp' in Hv.
            repeat split; auto; try lia.
          * exists q. rewrite Hdq in Hdq0 by exact E. rewrite Hkq in Hk by exact E.
            rewrite Hvq in Hv by exact E. auto.
        + intros [q [Hq [Hqp [Hdq0 [Hk Hv]]]]].
          destruct (Nat.eq_dec q i) as [E|E].
          * subst q. exists prev. rewrite Hdp', Hkp', Hvp'. repeat split; auto; lia.
          * exists q. rewrite Hdq, Hkq, Hvq by exact Hqp. auto.
    Qed.

    Lemma shift_final : forall cs prev i, SH prev cs -> i = next n prev -> d cs i <= 1 ->
      let cs' := set_cell cs prev (mkCell 0 (key cs prev) (val cs prev)) in
      WF cs' /\ S (count cs') = count cs /\
      forall k v, HasKV cs' k v <-> HasKVex prev cs k v.
    Proof.
      intros cs prev i [Hl Hdi Ho Hu Hp Hdp] Ei Hd1 cs'.
      assert (Hpl : prev < length cs) by lia.
      assert (Hdq : forall q, q <> prev -> d cs' q = d cs q).
      { intros q Hq. unfold cs'. apply d_set_neq. congruence. }
      assert (Hkq : forall q, q <> prev -> key cs' q = key cs q).
      { intros q Hq. unfold cs'. apply key_set_neq. congruence. }
      assert (Hvq : forall q, q <> prev -> val cs' q = val cs q).
      { intros q Hq. unfold cs'. apply val_set_neq. congruence. }
      assert (Hdp' : d cs' prev = 0) by (unfold cs'; rewrite d_set_eq by exact Hpl; reflexivity).
      split; [|split].
      - split.
        + unfold cs'. rewrite length_set_cell. exact Hl.
        + intros q Hq Hdq0. destruct (Nat.eq_dec q prev) as [E|E].
          * subst q. contradiction.
          * rewrite Hdq in * by exact E. rewrite Hkq by exact E. apply Hdi; auto.
        + intros q Hq.
          destruct (Nat.eq_dec (next n q) prev) as [E1|E1].
          * rewrite E1, Hdp'. lia.
          * rewrite (Hdq (next n q)) by exact E1.
            destruct (Nat.eq_dec q prev) as [E2|E2].
            -- subst q. rewrite <- Ei. lia.
            -- rewrite Hdq by exact E2. apply Ho. exact Hq.
        + intros a b Ha Hb Hda Hdb Hk.
          destruct (Nat.eq_dec a prev) as [Ea|Ea]; [subst a; contradiction|].
          destruct (Nat.eq_dec b prev) as [Eb|Eb]; [subst b; contradiction|].
          rewrite Hdq in Hda, Hdb by assumption. rewrite !Hkq in Hk by assumption.
          apply Hu; auto.
      - pose proof (count_set_cell cs prev (mkCell 0 (key cs prev) (val cs prev)) Hpl) as Hc.
        assert (O1 : occ (get_cell cs prev) = true) by (apply occ_true; exact Hdp).
        assert (O2 : occ (mkCell 0 (key cs prev) (val cs prev)) = false) by (apply occ_false; reflexivity).
        rewrite O1, O2 in Hc. fold cs' in Hc. lia.
      - intros k v. unfold HasKV, HasKVex. unfold cs' at 1. rewrite length_set_cell. split.
        + intros [q [Hq [Hdq0 [Hk Hv]]]].
          destruct (Nat.eq_dec q prev) as [E|E]; [subst q; contradiction|].
          exists q. rewrite Hdq in Hdq0 by exact E. rewrite Hkq in Hk by exact E.
          rewrite Hvq in Hv by exact E. auto.
        + intros [q [Hq [Hqp [Hdq0 [Hk Hv]]]]].
          exists q. rewrite Hdq, Hkq, Hvq by exact Hqp. auto.
    Qed.

    (* ---------- the empty table ---------- *)

    Lemma d_repeat : forall q, d (repeat (empty_cell vzero) n) q = 0.
    Proof. intros q. unfold d, IntMap.get_cell. rewrite nth_repeat. reflexivity. Qed.

    Lemma WF_repeat : WF (repeat (empty_cell vzero) n).
    Proof.
      split.
      - apply repeat_length.
      - intros p _ H. rewrite d_repeat in H. contradiction.
      - intros p _. rewrite !d_repeat. lia.
      - intros p q _ _ H. rewrite d_repeat in H. contradiction.
    Qed.

  End WF.

  Lemma count_repeat : forall n, count (repeat (empty_cell vzero) n) = 0.
  Proof. induction n as [|n IH]; [reflexivity|]. cbn [repeat]. unfold count in *. cbn. exact IH. Qed.

  (* ---------- occupied cells as a list ---------- *)

  Lemma occ_cells_index : forall (cs : list cell) c,
    (In c cs /\ occ c = true) <-> exists q, q < length cs /\ d cs q <> 0 /\ get_cell cs q = c.
  Proof.
    intros cs c. split.
    - intros [Hin Ho]. destruct (In_nth cs c (empty_cell vzero) Hin) as [q [Hq Hnth]].
      exists q. split; [exact Hq|]. unfold d, IntMap.get_cell. rewrite Hnth.
      split; [apply occ_true; exact Ho | reflexivity].
    - intros [q [Hq [Hd Hc]]]. subst c. split.
      + unfold IntMap.get_cell. apply nth_In. exact Hq.
      + apply occ_true. exact Hd.
  Qed.

  Lemma nodup_keys : forall (cs : list cell),
    (forall p q, p < length cs -> q < length cs -> d cs p <> 0 -> d cs q <> 0 ->
       key cs p = key cs q -> p = q) ->
    NoDup (map ckey (filter occ cs)).
  Proof.
    induction cs as [|x r IH]; intros H; [constructor|].
    assert (Hr : NoDup (map ckey (filter occ r))).
    { apply IH. intros p q Hp Hq Hdp Hdq Hk.
      assert (S p = S q); [|lia].
      apply H; cbn [length]; try lia; assumption. }
    cbn [filter]. destruct (occ x) eqn:Ox; [|exact Hr].
    cbn [map]. constructor; [|exact Hr].
    intro Hin. apply in_map_iff in Hin. destruct Hin as [c [Hk Hc]].
    apply filter_In in Hc.
    apply occ_cells_index in Hc. destruct Hc as [q [Hq [Hdq Hg]]].
    assert (0 = S q); [|lia].
    apply H; cbn [length]; try lia.
    - unfold d, IntMap.get_cell. cbn [nth]. apply occ_true. exact Ox.
    - exact Hdq.
    - unfold key, IntMap.get_cell. cbn [nth]. fold (get_cell r q). rewrite Hg. congruence.
  Qed.

End Table.
