(* C19 (part 2) -- proofs about the adapter layer model (Model/Call.v): the six
   NewFunc forms, call / callReady, VM.Func, newMethod, mkFunc, error propagation.
   All statements are for every arity, argument list, result list and stack prefix. *)
From Coq Require Import ZArith List Bool Lia.
From GV Require Import GoSpec.GoPrim Gen.ValueOps_gen Model.Call.
Import ListNotations.
Open Scope Z_scope.

(* ---- lists and lengths ----------------------------------------------------------- *)

Lemma slen_app a b : slen (a ++ b) = slen a + slen b.
Proof. unfold slen. rewrite app_length. lia. Qed.

Lemma slen_nonneg a : 0 <= slen a.
Proof. unfold slen. lia. Qed.

Lemma slen_one (x : cell) : slen [x] = 1.
Proof. reflexivity. Qed.

Lemma slen_nil : slen [] = 0.
Proof. reflexivity. Qed.

Lemma to_nat_slen a : Z.to_nat (slen a) = length a.
Proof. unfold slen. apply Nat2Z.id. Qed.

Lemma firstn_len_app (a b : list cell) : firstn (length a) (a ++ b) = a.
Proof. induction a; cbn; [now destruct b | now rewrite IHa]. Qed.

Lemma skipn_len_app (a b : list cell) : skipn (length a) (a ++ b) = b.
Proof. induction a; cbn; auto. Qed.

Lemma firstn_len_plus (a b : list cell) n : firstn (length a + n) (a ++ b) = a ++ firstn n b.
Proof. induction a; cbn; [reflexivity | now rewrite IHa]. Qed.

Lemma slen_firstn n (l : list cell) : 0 <= n <= slen l -> slen (firstn (Z.to_nat n) l) = n.
Proof. unfold slen. intros H. rewrite firstn_length. lia. Qed.

Lemma slen_map f (l : list cell) : slen (map f l) = slen l.
Proof. unfold slen. now rewrite map_length. Qed.

Lemma split_top_app n lo args : slen args = n -> split_top n (lo ++ args) = Good (lo, args).
Proof.
  intros H. unfold split_top. rewrite slen_app, H.
  replace (slen lo + n - n) with (slen lo) by lia.
  pose proof (slen_nonneg lo). pose proof (slen_nonneg args).
  destruct (slen lo <? 0) eqn:E1; [lia|]. destruct (slen lo + n <? slen lo) eqn:E2; [lia|].
  cbn [orb]. now rewrite to_nat_slen, firstn_len_app, skipn_len_app.
Qed.

Lemma split_top_good n st lo a : split_top n st = Good (lo, a) -> st = lo ++ a /\ slen a = n /\ 0 <= n.
Proof.
  unfold split_top. destruct ((slen st - n <? 0) || (slen st <? slen st - n)) eqn:E; [discriminate|].
  intros H. injection H as <- <-. rewrite firstn_skipn. split; [reflexivity|].
  apply orb_false_iff in E as [E1 E2].
  unfold slen in *. rewrite skipn_length. lia.
Qed.

Lemma pop_snoc st x : pop (st ++ [x]) = Some (st, x).
Proof. unfold pop. rewrite rev_app_distr. cbn. now rewrite rev_involutive. Qed.

Lemma pop_none st : pop st = None -> st = [].
Proof.
  unfold pop. destruct (rev st) eqn:E; [|discriminate]. intros _.
  rewrite <- (rev_involutive st), E. reflexivity.
Qed.

Lemma pop_some st l x : pop st = Some (l, x) -> st = l ++ [x].
Proof.
  unfold pop. destruct (rev st) eqn:E; [discriminate|]. intros H. injection H as <- <-.
  rewrite <- (rev_involutive st), E. reflexivity.
Qed.

Lemma slice_to_app lo outs n : 0 <= n <= slen outs ->
  slice_to (slen lo + n) (lo ++ outs) = Good (lo ++ firstn (Z.to_nat n) outs).
Proof.
  intros H. unfold slice_to. rewrite slen_app. pose proof (slen_nonneg lo).
  destruct (slen lo + n <? 0) eqn:E1; [lia|]. destruct (slen lo + slen outs <? slen lo + n) eqn:E2; [lia|].
  cbn [orb]. rewrite Z2Nat.inj_add by lia. now rewrite to_nat_slen, firstn_len_plus.
Qed.

Lemma last_n_exact n l : slen l = n -> last_n n l = Good l.
Proof. intros H. unfold last_n. now rewrite <- (app_nil_l l), split_top_app. Qed.

Lemma last_n_len n st rs : last_n n st = Good rs -> slen rs = n.
Proof.
  unfold last_n. destruct (split_top n st) as [[lo a]|] eqn:E; [|discriminate].
  cbn. intros H. injection H as <-. now apply split_top_good in E.
Qed.

Lemma body_newFunc a r f : Body (newFunc a r f) = f.
Proof. reflexivity. Qed.

(* ---- the six NewFunc forms --------------------------------------------------------- *)

Lemma adapter_N00 argc rets f st :
  Body (NewFunc argc rets (N00 f)) st = (_ <~ f ;; Good st).
Proof. reflexivity. Qed.

Lemma adapter_N01 argc rets f st :
  Body (NewFunc argc rets (N01 f)) st = (v <~ f ;; Good (st ++ [v])).
Proof. reflexivity. Qed.

Lemma adapter_NN0 argc rets f lo args : slen args = argc ->
  Body (NewFunc argc rets (NN0 f)) (lo ++ args) = (_ <~ f args ;; Good lo).
Proof. intros H. cbn [NewFunc]. rewrite body_newFunc, split_top_app by assumption. reflexivity. Qed.

Lemma adapter_NN1 argc rets f lo args : slen args = argc ->
  Body (NewFunc argc rets (NN1 f)) (lo ++ args) = (v <~ f args ;; Good (lo ++ [v])).
Proof. intros H. cbn [NewFunc]. rewrite body_newFunc, split_top_app by assumption. reflexivity. Qed.

Lemma adapter_NNM argc rets f lo args : slen args = argc ->
  Body (NewFunc argc rets (NNM f)) (lo ++ args) = (vs <~ f args ;; Good (lo ++ vs)).
Proof. intros H. cbn [NewFunc]. rewrite body_newFunc, split_top_app by assumption. reflexivity. Qed.

Lemma nth_error_snoc (a : list cell) x : nth_error (a ++ [x]) (length a) = Some x.
Proof. induction a; cbn; auto. Qed.

Lemma adapter_NNV argc rets f lo fixed last : slen fixed = argc - 1 ->
  Body (NewFunc argc rets (NNV f)) (lo ++ fixed ++ [last]) =
    (vargs <~ data last ;; vs <~ f fixed vargs ;; Good (lo ++ vs)).
Proof.
  intros H. cbn [NewFunc]. rewrite body_newFunc.
  rewrite split_top_app by (rewrite slen_app, slen_one; lia).
  cbn [cbind]. pose proof (slen_nonneg fixed).
  destruct (argc - 1 <? 0) eqn:E; [lia|].
  rewrite <- H, to_nat_slen, nth_error_snoc, firstn_len_app. reflexivity.
Qed.

(* with the packed slice made by [call]: the callback gets the fixed prefix and the spread items *)
Lemma adapter_NNV_pack argc rets f lo fixed et items : slen fixed = argc - 1 ->
  Body (NewFunc argc rets (NNV f)) (lo ++ fixed ++ [CPack et items]) =
    (vs <~ f fixed items ;; Good (lo ++ vs)).
Proof. intros H. rewrite adapter_NNV by assumption. reflexivity. Qed.

Lemma adapter_NNV_zero rets f st : Body (NewFunc 0 rets (NNV f)) st = Fail (ERuntime 1).
Proof.
  cbn [NewFunc]. rewrite body_newFunc. rewrite <- (app_nil_r st), split_top_app by reflexivity.
  reflexivity.
Qed.

(* what the function value says about itself *)
Lemma native_fields argc rets n : 0 <= argc ->
  Args (NewFunc argc rets n) = argc /\ Rets (NewFunc argc rets n) = rets /\
  VariadicType (NewFunc argc rets n) = 0 /\
  Variadic (NewFunc argc rets n) = match n with NNV _ => 0 <? argc | _ => false end.
Proof.
  intros H. destruct n; cbn [NewFunc newFunc Args Rets Variadic VariadicType].
  1-5: destruct (argc <? 0) eqn:E; [lia | auto].
  destruct (- argc <? 0) eqn:E; destruct (0 <? argc) eqn:E2; try lia; repeat split; auto; lia.
Qed.

(* ---- frame property: a function works on the top of the stack only ------------------ *)

Definition frame_ok (ft : funcT) (n : Z) (g : list cell -> cres (list cell)) : Prop :=
  forall lo args, slen args = n -> Body ft (lo ++ args) = (r <~ g args ;; Good (lo ++ r)).

(* the callback seen as a function from the argument cells to the result cells *)
Definition lift (n : native) (a : list cell) : cres (list cell) :=
  match n with
  | N00 f => _ <~ f ;; Good a
  | N01 f => v <~ f ;; Good (a ++ [v])
  | NN0 f => _ <~ f a ;; Good []
  | NN1 f => v <~ f a ;; Good [v]
  | NNM f => f a
  | NNV f => match pop a with
             | Some (fixed, last) => vargs <~ data last ;; f fixed vargs
             | None => Fail (ERuntime 1)
             end
  end.

Lemma native_frame argc rets n : frame_ok (NewFunc argc rets n) argc (lift n).
Proof.
  intros lo args H. destruct n; cbn [lift].
  - rewrite adapter_N00. now destruct f.
  - rewrite adapter_N01. destruct f; cbn; [now rewrite app_assoc | reflexivity].
  - rewrite adapter_NN0 by assumption. destruct (f args); cbn; [now rewrite app_nil_r | reflexivity].
  - rewrite adapter_NN1 by assumption. now destruct (f args).
  - rewrite adapter_NNM by assumption. now destruct (f args).
  - destruct (pop args) as [[fixed last]|] eqn:E.
    + apply pop_some in E. subst args. rewrite slen_app, slen_one in H.
      rewrite adapter_NNV by lia. destruct (data last); cbn; [|reflexivity]. now destruct (f fixed a).
    + apply pop_none in E. subst args. cbn in H. subst argc. rewrite app_nil_r. apply adapter_NNV_zero.
Qed.

(* ---- callReady ----------------------------------------------------------------------- *)

Lemma callReady_args st ft xArgs xRets : xArgs <> Args ft ->
  callReady st ft xArgs xRets = Fail EIncorrectArgs.
Proof. intros H. unfold callReady. destruct (xArgs =? Args ft) eqn:E; [lia | reflexivity]. Qed.

Lemma callReady_fail st ft xRets e : Body ft st = Fail e ->
  callReady st ft (Args ft) xRets = Fail e.
Proof. intros H. unfold callReady. now rewrite Z.eqb_refl, H. Qed.

Definition deliver (lo outs : list cell) (xRets : Z) : cres (list cell) :=
  if slen outs <? xRets then Fail EIncorrectReturns else Good (lo ++ firstn (Z.to_nat xRets) outs).

Lemma callReady_good lo args outs ft xRets :
  Body ft (lo ++ args) = Good (lo ++ outs) -> slen args = Args ft -> 0 <= xRets ->
  callReady (lo ++ args) ft (Args ft) xRets = deliver lo outs xRets.
Proof.
  intros HB Ha Hx. unfold callReady, deliver. rewrite Z.eqb_refl, HB. cbn [negb cbind].
  rewrite !slen_app, Ha.
  replace (slen lo + slen outs - (slen lo + Args ft - Args ft)) with (slen outs) by lia.
  replace (slen lo + Args ft - Args ft + xRets) with (slen lo + xRets) by lia.
  destruct (slen outs <? xRets) eqn:E1; [reflexivity|].
  destruct (xRets <? slen outs) eqn:E2.
  - apply slice_to_app. lia.
  - assert (xRets = slen outs) by lia. subst xRets. now rewrite to_nat_slen, firstn_all.
Qed.

Lemma callReady_frame ft g lo args xRets :
  frame_ok ft (Args ft) g -> slen args = Args ft -> 0 <= xRets ->
  callReady (lo ++ args) ft (Args ft) xRets = (outs <~ g args ;; deliver lo outs xRets).
Proof.
  intros HF Ha Hx. destruct (g args) as [outs|e] eqn:E; cbn [cbind].
  - apply callReady_good; auto. now rewrite HF, E.
  - apply callReady_fail. now rewrite HF, E.
Qed.

(* callReady looks at the stack only through the body and the frame base *)
Lemma callReady_ext st1 st2 f1 f2 x1 x2 xRets :
  (x1 =? Args f1) = (x2 =? Args f2) -> Body f1 st1 = Body f2 st2 -> slen st1 - x1 = slen st2 - x2 ->
  callReady st1 f1 x1 xRets = callReady st2 f2 x2 xRets.
Proof. intros H1 H2 H3. unfold callReady. now rewrite H1, H2, H3. Qed.

(* ---- call ------------------------------------------------------------------------------ *)

Lemma call_fixed st ft xArgs xRets : Variadic ft = false ->
  call st ft xArgs xRets = callReady st ft xArgs xRets.
Proof. intros H. unfold call. now rewrite H. Qed.

Lemma call_variadic_gen lo fixed extra ft xRets : Variadic ft = true -> slen fixed = Args ft - 1 ->
  call (lo ++ fixed ++ extra) ft (slen fixed + slen extra) xRets =
  callReady (lo ++ fixed ++ [variadic_cell (VariadicType ft) (slen extra) extra]) ft (Args ft) xRets.
Proof.
  intros HV HF. unfold call. rewrite HV. cbn [negb].
  pose proof (slen_nonneg lo). pose proof (slen_nonneg fixed). pose proof (slen_nonneg extra).
  replace (slen fixed + slen extra - Args ft + 1) with (slen extra) by lia.
  destruct (slen extra <? 0) eqn:E1; [lia|].
  rewrite app_assoc, slen_app.
  replace (slen (lo ++ fixed) + slen extra - slen extra) with (slen (lo ++ fixed)) by lia.
  pose proof (slen_nonneg (lo ++ fixed)).
  destruct (slen (lo ++ fixed) <? 0) eqn:E2; [lia|].
  rewrite to_nat_slen, firstn_len_app, skipn_len_app.
  replace (slen fixed + slen extra - slen extra + 1) with (Args ft) by lia.
  now rewrite <- app_assoc.
Qed.

Lemma variadic_cell_some vtype extra : 1 <= slen extra ->
  variadic_cell vtype (slen extra) extra = pack (Type_value vtype) extra.
Proof. intros H. unfold variadic_cell. destruct (slen extra =? 0) eqn:E; [lia | reflexivity]. Qed.

(* the callee's view of the variadic parameter through Value.data(): the surplus arguments assigned to
   the element type, whether they were packed into a slice or (none) the parameter is the nil slice *)
Lemma data_variadic_cell vtype extra :
  data (variadic_cell vtype (slen extra) extra) = Good (map (assign_cell (Type_value vtype)) extra).
Proof.
  unfold variadic_cell. destruct (slen extra =? 0) eqn:E; [|reflexivity].
  destruct extra; [reflexivity|]. exfalso. apply Z.eqb_eq in E. unfold slen in E. cbn [length] in E. lia.
Qed.

(* at least one surplus argument: they become ONE slice of the declared element type *)
Lemma call_variadic lo fixed extra ft xRets : Variadic ft = true -> slen fixed = Args ft - 1 ->
  1 <= slen extra ->
  call (lo ++ fixed ++ extra) ft (slen fixed + slen extra) xRets =
  callReady (lo ++ fixed ++ [pack (Type_value (VariadicType ft)) extra]) ft (Args ft) xRets.
Proof.
  intros HV HF HE. rewrite call_variadic_gen by assumption. now rewrite variadic_cell_some.
Qed.

(* no surplus argument: the variadic parameter is the nil slice of the declared variadic type *)
Lemma call_variadic_none lo fixed ft xRets : Variadic ft = true -> slen fixed = Args ft - 1 ->
  call (lo ++ fixed) ft (slen fixed) xRets =
  callReady (lo ++ fixed ++ [CVal (mkValue (VariadicType ft) (Zn 0) PNone)]) ft (Args ft) xRets.
Proof.
  intros HV HF. pose proof (call_variadic_gen lo fixed [] ft xRets HV HF) as G.
  rewrite app_nil_r in G. change (slen []) with 0 in G. rewrite Z.add_0_r in G. exact G.
Qed.

Lemma call_variadic_few st ft xArgs xRets : Variadic ft = true -> xArgs < Args ft - 1 ->
  call st ft xArgs xRets = Fail (ERuntime 2).
Proof.
  intros HV H. unfold call. rewrite HV. cbn [negb].
  destruct (xArgs - Args ft + 1 <? 0) eqn:E; [reflexivity | lia].
Qed.

(* end to end, fixed arity natives (five forms; the variadic form with argc = 0 as well) *)
Lemma native_call argc rets n lo args xRets :
  Variadic (NewFunc argc rets n) = false -> slen args = argc -> 0 <= xRets ->
  call (lo ++ args) (NewFunc argc rets n) argc xRets = (outs <~ lift n args ;; deliver lo outs xRets).
Proof.
  intros HV Ha Hx. rewrite call_fixed by assumption.
  pose proof (slen_nonneg args).
  destruct (native_fields argc rets n) as [HA _]; [lia|].
  rewrite <- HA at 2. apply callReady_frame; try lia; try congruence.
  rewrite HA. apply native_frame.
Qed.

Lemma native_call_wrong argc rets n st xArgs xRets :
  Variadic (NewFunc argc rets n) = false -> 0 <= argc -> xArgs <> argc ->
  call st (NewFunc argc rets n) xArgs xRets = Fail EIncorrectArgs.
Proof.
  intros HV H0 H. rewrite call_fixed by assumption. apply callReady_args.
  destruct (native_fields argc rets n) as [HA _]; [lia|]. now rewrite HA.
Qed.

Lemma type_value_0 : Type_value 0 = 0.
Proof. reflexivity. Qed.

(* end to end, variadic natives: fixed prefix + surplus arguments *)
Lemma variadic_call argc rets f lo fixed extra xRets :
  slen fixed = argc - 1 -> 0 <= xRets ->
  call (lo ++ fixed ++ extra) (NewFunc argc rets (NNV f)) (slen fixed + slen extra) xRets =
  (outs <~ f fixed (map (assign_cell 0) extra) ;; deliver lo outs xRets).
Proof.
  intros HF Hx. pose proof (slen_nonneg fixed).
  destruct (native_fields argc rets (NNV f)) as (HA & _ & HT & HV); [lia|].
  assert (0 <? argc = true) as Hpos by lia. rewrite Hpos in HV.
  rewrite call_variadic_gen by (try assumption; lia). rewrite HT.
  rewrite (callReady_frame _ (lift (NNV f)) lo (fixed ++ [variadic_cell 0 (slen extra) extra]) xRets).
  - cbn [lift]. rewrite pop_snoc, data_variadic_cell, type_value_0. reflexivity.
  - rewrite HA. apply native_frame.
  - rewrite slen_app, slen_one. lia.
  - assumption.
Qed.

(* a spread call f(a, s...) (CALLVARIADIC): the slice is handed over as it is *)
Lemma variadic_spread argc rets f lo fixed et items xRets :
  slen fixed = argc - 1 -> 0 <= xRets ->
  callReady (lo ++ fixed ++ [CPack et items]) (NewFunc argc rets (NNV f)) argc xRets =
  (outs <~ f fixed items ;; deliver lo outs xRets).
Proof.
  intros HF Hx. pose proof (slen_nonneg fixed).
  destruct (native_fields argc rets (NNV f)) as (HA & _); [lia|].
  rewrite <- HA at 2.
  rewrite (callReady_frame _ (lift (NNV f)) lo (fixed ++ [CPack et items]) xRets).
  - cbn [lift]. rewrite pop_snoc. reflexivity.
  - rewrite HA. apply native_frame.
  - rewrite slen_app, slen_one. lia.
  - assumption.
Qed.

(* ---- VM.Func ------------------------------------------------------------------------------ *)

Section Heap.
  Variable env : Z -> option funcT.

  Lemma deliver_nil_last outs xRets : 0 <= xRets ->
    (st <~ deliver [] outs xRets ;; last_n xRets st) =
    if slen outs <? xRets then Fail EIncorrectReturns else Good (firstn (Z.to_nat xRets) outs).
  Proof.
    intros Hx. unfold deliver. destruct (slen outs <? xRets) eqn:E; [reflexivity|].
    cbn [cbind app]. apply last_n_exact, slen_firstn. lia.
  Qed.

  Lemma vm_func_fixed h ft g xRets params :
    env h = Some ft -> Variadic ft = false -> frame_ok ft (Args ft) g ->
    slen params = Args ft -> 0 <= xRets ->
    vm_func env (CFn h) xRets params =
      (outs <~ g params ;; if slen outs <? xRets then Fail EIncorrectReturns
                           else Good (firstn (Z.to_nat xRets) outs)).
  Proof.
    intros He HV HF Hp Hx. unfold vm_func, op_call. rewrite pop_snoc. cbn [getFunc]. rewrite He.
    cbn [cbind]. rewrite call_fixed by assumption. rewrite Hp.
    rewrite <- (app_nil_l params) at 1. rewrite (callReady_frame ft g) by assumption.
    destruct (g params); cbn [cbind]; [now apply deliver_nil_last | reflexivity].
  Qed.

  Lemma vm_func_variadic_native h argc rets f xRets fixed extra :
    env h = Some (NewFunc argc rets (NNV f)) -> slen fixed = argc - 1 -> 0 <= xRets ->
    vm_func env (CFn h) xRets (fixed ++ extra) =
      (outs <~ f fixed (map (assign_cell 0) extra) ;;
       if slen outs <? xRets then Fail EIncorrectReturns else Good (firstn (Z.to_nat xRets) outs)).
  Proof.
    intros He HF Hx. unfold vm_func, op_call. rewrite pop_snoc. cbn [getFunc]. rewrite He.
    cbn [cbind]. rewrite slen_app. rewrite <- (app_nil_l (fixed ++ extra)).
    rewrite variadic_call by assumption.
    destruct (f fixed (map (assign_cell 0) extra)); cbn [cbind]; [now apply deliver_nil_last | reflexivity].
  Qed.

  Lemma vm_func_len fnc xRets params rs : vm_func env fnc xRets params = Good rs -> slen rs = xRets.
  Proof.
    unfold vm_func. destruct (op_call env (params ++ [fnc]) (slen params) xRets); [|discriminate].
    cbn [cbind]. apply last_n_len.
  Qed.

  Lemma vm_func_wrong_args h ft xRets params :
    env h = Some ft -> Variadic ft = false -> slen params <> Args ft ->
    vm_func env (CFn h) xRets params = Fail EIncorrectArgs.
  Proof.
    intros He HV Hp. unfold vm_func, op_call. rewrite pop_snoc. cbn [getFunc]. rewrite He.
    cbn [cbind]. rewrite call_fixed by assumption. now rewrite callReady_args.
  Qed.

  Lemma vm_func_not_func fnc xRets params :
    match fnc with CFn h => env h = None | _ => True end ->
    vm_func env fnc xRets params = Fail (ERuntime 4).
  Proof.
    intros H. unfold vm_func, op_call. rewrite pop_snoc.
    destruct fnc; cbn [getFunc cbind]; try reflexivity. now rewrite H.
  Qed.

  Lemma vm_func_fail h ft xRets params e :
    env h = Some ft -> Variadic ft = false -> slen params = Args ft -> Body ft params = Fail e ->
    vm_func env (CFn h) xRets params = Fail e.
  Proof.
    intros He HV Hp HB. unfold vm_func, op_call. rewrite pop_snoc. cbn [getFunc]. rewrite He.
    cbn [cbind]. rewrite call_fixed by assumption. rewrite Hp. now rewrite (callReady_fail _ _ _ e HB).
  Qed.
End Heap.

(* ---- bound methods ------------------------------------------------------------------------- *)

Lemma method_fields obj f : 1 <= Args f -> (Variadic f = true -> 2 <= Args f) ->
  Args (newMethod obj f) = Args f - 1 /\ Rets (newMethod obj f) = Rets f /\
  Variadic (newMethod obj f) = Variadic f /\ VariadicType (newMethod obj f) = VariadicType f.
Proof.
  intros H1 H2. unfold newMethod, newFunc. cbn [Args Rets Variadic VariadicType].
  destruct (Variadic f) eqn:EV.
  - specialize (H2 eq_refl). destruct (- (Args f - 1) <? 0) eqn:E; [|lia]. repeat split; auto; lia.
  - destruct (Args f - 1 <? 0) eqn:E; [lia|]. auto.
Qed.

Lemma method_body obj f lo args : slen args = Args f - 1 ->
  Body (newMethod obj f) (lo ++ args) = Body f (lo ++ [obj] ++ args).
Proof.
  intros H. unfold newMethod. cbn [Body]. rewrite body_newFunc. pose proof (slen_nonneg args).
  destruct (Args f - 1 <? 0) eqn:E; [lia|]. now rewrite split_top_app.
Qed.

(* calling a bound method = calling the underlying function with the receiver below the arguments *)
Lemma method_call obj f lo args xRets : Variadic f = false -> 1 <= Args f ->
  call (lo ++ args) (newMethod obj f) (slen args) xRets =
  call (lo ++ [obj] ++ args) f (slen args + 1) xRets.
Proof.
  intros HV H1. destruct (method_fields obj f H1) as (HA & _ & HV' & _); [congruence|].
  rewrite !call_fixed by congruence.
  destruct (Z.eq_dec (slen args) (Args f - 1)) as [E|E].
  - apply callReady_ext.
    + rewrite HA. destruct (slen args =? Args f - 1) eqn:E1; destruct (slen args + 1 =? Args f) eqn:E2; lia.
    + now apply method_body.
    + rewrite !slen_app, slen_one. lia.
  - rewrite !callReady_args; auto; lia.
Qed.

(* variadic methods: the variadic parameter is built with the declared variadic type of f *)
Lemma method_call_variadic_gen obj f lo fixed extra xRets : Variadic f = true -> 2 <= Args f ->
  slen fixed = Args f - 2 ->
  call (lo ++ fixed ++ extra) (newMethod obj f) (slen fixed + slen extra) xRets =
  callReady (lo ++ [obj] ++ fixed ++ [variadic_cell (VariadicType f) (slen extra) extra]) f (Args f) xRets.
Proof.
  intros HV H2 HF. destruct (method_fields obj f) as (HA & _ & HV' & HT); [lia | auto |].
  rewrite call_variadic_gen by (rewrite ?HA; try congruence; lia).
  rewrite HT.
  apply callReady_ext.
  - rewrite HA, !Z.eqb_refl. reflexivity.
  - rewrite (method_body obj f lo (fixed ++ [variadic_cell (VariadicType f) (slen extra) extra])).
    + reflexivity.
    + rewrite slen_app, slen_one. lia.
  - rewrite HA, !slen_app, !slen_one. lia.
Qed.

(* at least one surplus argument: packed into one slice of the declared element type of f *)
Lemma method_call_variadic_packed obj f lo fixed extra xRets : Variadic f = true -> 2 <= Args f ->
  slen fixed = Args f - 2 -> 1 <= slen extra ->
  call (lo ++ fixed ++ extra) (newMethod obj f) (slen fixed + slen extra) xRets =
  callReady (lo ++ [obj] ++ fixed ++ [pack (Type_value (VariadicType f)) extra]) f (Args f) xRets.
Proof.
  intros HV H2 HF HE. rewrite method_call_variadic_gen by assumption. now rewrite variadic_cell_some.
Qed.

(* no surplus argument: the nil slice of the declared variadic type of f *)
Lemma method_call_variadic_none obj f lo fixed xRets : Variadic f = true -> 2 <= Args f ->
  slen fixed = Args f - 2 ->
  call (lo ++ fixed) (newMethod obj f) (slen fixed) xRets =
  callReady (lo ++ [obj] ++ fixed ++ [CVal (mkValue (VariadicType f) (Zn 0) PNone)]) f (Args f) xRets.
Proof.
  intros HV H2 HF. pose proof (method_call_variadic_gen obj f lo fixed [] xRets HV H2 HF) as G.
  rewrite app_nil_r in G. change (slen []) with 0 in G. rewrite Z.add_0_r in G. exact G.
Qed.

Lemma func_call_variadic obj f lo fixed extra xRets : Variadic f = true -> 2 <= Args f ->
  slen fixed = Args f - 2 ->
  call (lo ++ [obj] ++ fixed ++ extra) f (slen fixed + slen extra + 1) xRets =
  callReady (lo ++ [obj] ++ fixed ++ [variadic_cell (VariadicType f) (slen extra) extra]) f (Args f) xRets.
Proof.
  intros HV H2 HF.
  replace (lo ++ [obj] ++ fixed ++ extra) with (lo ++ ([obj] ++ fixed) ++ extra) by now rewrite <- !app_assoc.
  replace (slen fixed + slen extra + 1) with (slen ([obj] ++ fixed) + slen extra)
    by (rewrite slen_app, slen_one; lia).
  rewrite call_variadic_gen; [now rewrite <- !app_assoc | assumption | rewrite slen_app, slen_one; lia].
Qed.

(* a variadic method packs exactly as the function does *)
Lemma method_call_variadic obj f lo fixed extra xRets : Variadic f = true -> 2 <= Args f ->
  slen fixed = Args f - 2 ->
  call (lo ++ fixed ++ extra) (newMethod obj f) (slen fixed + slen extra) xRets =
  call (lo ++ [obj] ++ fixed ++ extra) f (slen fixed + slen extra + 1) xRets.
Proof.
  intros HV H2 HF. now rewrite method_call_variadic_gen, func_call_variadic.
Qed.

(* ---- script functions (mkFunc) ---------------------------------------------------------------- *)

Lemma slen_assign_zip tys cs : slen (assign_zip tys cs) = slen cs.
Proof.
  unfold slen. f_equal. revert cs. induction tys; destruct cs; cbn; auto.
Qed.

Lemma mkFunc_frame args rets atys rtys code lo a pushed :
  slen a = args -> code (assign_zip atys a) = Good pushed -> slen pushed = rets ->
  mkFunc args rets atys rtys code (lo ++ a) = Good (lo ++ assign_zip rtys pushed).
Proof.
  intros Ha Hc Hp. unfold mkFunc. pose proof (slen_nonneg lo). pose proof (slen_nonneg a).
  rewrite slen_app. destruct (slen lo + slen a - args <? 0) eqn:E; [lia|].
  rewrite split_top_app by assumption. cbn [cbind]. rewrite Hc. cbn [cbind].
  rewrite slen_app. pose proof (slen_nonneg pushed).
  destruct (slen lo + slen pushed - rets <? 0) eqn:E2; [lia|].
  now rewrite split_top_app.
Qed.

Lemma mkFunc_fail args rets atys rtys code lo a e :
  slen a = args -> code (assign_zip atys a) = Fail e ->
  mkFunc args rets atys rtys code (lo ++ a) = Fail e.
Proof.
  intros Ha Hc. unfold mkFunc. pose proof (slen_nonneg lo). pose proof (slen_nonneg a).
  rewrite slen_app. destruct (slen lo + slen a - args <? 0) eqn:E; [lia|].
  rewrite split_top_app by assumption. cbn [cbind]. now rewrite Hc.
Qed.

(* a script function whose body always leaves exactly [rets] values *)
Definition script_fn (args rets : Z) (atys rtys : list Z) (code : list cell -> cres (list cell)) : funcT :=
  newFunc args rets (mkFunc args rets atys rtys code).

Lemma script_frame args rets atys rtys code :
  0 <= args -> (forall a outs, code a = Good outs -> slen outs = rets) ->
  frame_ok (script_fn args rets atys rtys code) (Args (script_fn args rets atys rtys code))
    (fun a => outs <~ code (assign_zip atys a) ;; Good (assign_zip rtys outs)).
Proof.
  intros H0 Hc lo a Ha. unfold script_fn in *. rewrite body_newFunc.
  assert (Args (newFunc args rets (mkFunc args rets atys rtys code)) = args) as HA.
  { unfold newFunc. cbn. destruct (args <? 0) eqn:E; [lia | reflexivity]. }
  rewrite HA in Ha.
  destruct (code (assign_zip atys a)) as [outs|e] eqn:E; cbn [cbind].
  - apply mkFunc_frame; auto. eapply Hc; eauto.
  - now apply mkFunc_fail.
Qed.

(* ---- errors ------------------------------------------------------------------------------------ *)

Lemma native_raise argc rets n lo args xRets e :
  Variadic (NewFunc argc rets n) = false -> slen args = argc -> 0 <= xRets ->
  lift n args = Fail e ->
  call (lo ++ args) (NewFunc argc rets n) argc xRets = Fail e.
Proof. intros HV Ha Hx HL. rewrite native_call by assumption. now rewrite HL. Qed.

Lemma variadic_raise argc rets f lo fixed extra xRets e :
  slen fixed = argc - 1 -> 0 <= xRets -> f fixed (map (assign_cell 0) extra) = Fail e ->
  call (lo ++ fixed ++ extra) (NewFunc argc rets (NNV f)) (slen fixed + slen extra) xRets = Fail e.
Proof. intros HF Hx HL. rewrite variadic_call by assumption. now rewrite HL. Qed.

Section Nested.
  Variable env : Z -> option funcT.

  (* a native of any argument-taking form whose callback calls VM.Func on [inner]
     (as slices.SortFunc does) and re-raises its error *)
  Variables (hin : Z) (k : Z) (sel : list cell -> list cell).

  Definition nested0 (cont : list cell -> list cell -> cres unit) : native :=
    NN0 (fun a => rs <~ vm_func env (CFn hin) k (sel a) ;; cont a rs).
  Definition nested1 (cont : list cell -> list cell -> cres cell) : native :=
    NN1 (fun a => rs <~ vm_func env (CFn hin) k (sel a) ;; cont a rs).
  Definition nestedM (cont : list cell -> list cell -> cres (list cell)) : native :=
    NNM (fun a => rs <~ vm_func env (CFn hin) k (sel a) ;; cont a rs).

  Lemma nested_lift_fail args e :
    vm_func env (CFn hin) k (sel args) = Fail e ->
    (forall c, lift (nested0 c) args = Fail e) /\ (forall c, lift (nested1 c) args = Fail e) /\
    (forall c, lift (nestedM c) args = Fail e).
  Proof. intros H. repeat split; intros c; cbn [lift nested0 nested1 nestedM]; now rewrite H. Qed.

  (* env2: the table in which the OUTER native is looked up.  It need not be the env its closure
     captured (a statement with env2 = env has a self-referential premise: the closure stored in env
     mentions env, which without functional extensionality can be established by conversion only) *)
  Lemma nested_error (env2 : Z -> option funcT) hout argc rets n lo args xRets e inner :
    (* the inner script function fails (a script panic, or a native below it) *)
    env hin = Some inner -> Variadic inner = false -> slen (sel args) = Args inner ->
    Body inner (sel args) = Fail e ->
    (* the outer native is one of the nested forms *)
    (exists c, n = nested0 c) \/ (exists c, n = nested1 c) \/ (exists c, n = nestedM c) ->
    slen args = argc -> 0 <= xRets ->
    call (lo ++ args) (NewFunc argc rets n) argc xRets = Fail e /\
    (env2 hout = Some (NewFunc argc rets n) -> vm_func env2 (CFn hout) xRets args = Fail e).
  Proof.
    intros He HV Hs HB Hn Ha Hx.
    assert (vm_func env (CFn hin) k (sel args) = Fail e) as HI by (eapply vm_func_fail; eauto).
    destruct (nested_lift_fail args e HI) as (L0 & L1 & LM).
    pose proof (slen_nonneg args) as Hnn.
    assert (Variadic (NewFunc argc rets n) = false /\ lift n args = Fail e) as [HVn HL].
    { destruct (native_fields argc rets n) as (_ & _ & _ & HVn); [lia|].
      destruct Hn as [[c ->]|[[c ->]|[c ->]]]; split; auto. }
    split.
    - now apply native_raise.
    - intros Ho. destruct (native_fields argc rets n) as (HA & _); [lia|].
      apply (vm_func_fail env2 hout (NewFunc argc rets n)); try assumption; [congruence|].
      rewrite <- (app_nil_l args). rewrite native_frame by assumption. now rewrite HL.
  Qed.
End Nested.
