(* C07, part 2: from one instruction (Proofs/C07_step.v) to the dispatch loop and the calls. *)
From Coq Require Import ZArith List String Bool Lia ZifyBool.
From GV Require Import GoSpec.GoPrim Gen.ValueOps_gen Gen.Tables_gen Model.VM Model.StackCheck Proofs.C07_step.
Import ListNotations.
Open Scope Z_scope.

(* ---- the loop and the calls ----------------------------------------------------------------- *)

Lemma zlen_combine {A B} (a : list A) (b : list B) : zlen (combine a b) = Z.min (zlen a) (zlen b).
Proof. unfold zlen. rewrite combine_length. lia. Qed.
Lemma zlen_repeat {A} (x : A) n : zlen (repeat x n) = Z.of_nat n.
Proof. unfold zlen. now rewrite repeat_length. Qed.
Lemma zlen_rev {A} (l : list A) : zlen (rev l) = zlen l.
Proof. unfold zlen. now rewrite rev_length. Qed.

Lemma skipn_add {A} (l : list A) : forall a b, skipn b (skipn a l) = skipn (a + b) l.
Proof.
  induction l as [|x l IH]; intros a b.
  - now rewrite !skipn_nil.
  - destruct a; cbn [skipn Nat.add]; [reflexivity|apply IH].
Qed.

Section Sound.
  Variable grow : Z -> Z -> Z.
  Variable ext_get : st -> value -> value -> option (res value).
  Variable ext_set : st -> value -> value -> value -> option (res st).
  Variable ext_len : st -> value -> option Z.
  Variable ext_getattr : st -> value -> Z -> option (res (value * st)).
  Variable ext_setattr : st -> value -> Z -> value -> option (res st).
  Variable ng : Z.
  Hypothesis ext_set_ok : forall s r k v s', st_ok ng s -> ext_set s r k v = Some (Ok s') -> st_ok ng s'.
  Hypothesis ext_getattr_ok : forall s r k v s', st_ok ng s -> ext_getattr s r k = Some (Ok (v, s')) -> st_ok ng s'.
  Hypothesis ext_setattr_ok : forall s r k v s', st_ok ng s -> ext_setattr s r k v = Some (Ok s') -> st_ok ng s'.

  Notation exec := (VM.exec grow ext_get ext_set ext_len ext_getattr ext_setattr).
  Notation call_fn := (VM.call_fn grow ext_get ext_set ext_len ext_getattr ext_setattr).
  Notation step1 := (VM.step1 grow ext_get ext_set ext_len ext_getattr ext_setattr).

  Definition chk_of (fc : nat) : Z -> Z -> list instr -> bool :=
    fun slots rets body => check_code_f fc ng slots (Some rets) body.
  Definition verified (fc : nat) (ns : Z) (final : option Z) (codes : list instr) (m : dmap) : Prop :=
    verify (chk_of fc) ng ns final codes m = true.

  Lemma check_code_f_verified fuel ns final codes :
    check_code_f fuel ng ns final codes = true -> exists fc, verified fc ns final codes (infer_map codes).
  Proof. destruct fuel as [|fc]; [discriminate|]. intro H. exists fc. exact H. Qed.

  Lemma verified_entry fc ns final codes m : verified fc ns final codes m -> 0 <= ns /\ at_depth codes m 0 0.
  Proof.
    unfold verified, verify. intro H. repeat (apply andb_true_iff in H; destruct H as [H ?]).
    destruct (dget m 0) as [d0|] eqn:D; [|discriminate].
    match goal with X : (d0 =? 0) = true |- _ => apply Z.eqb_eq in X; subst d0 end. apply Z.leb_le in H.
    split; [assumption|]. unfold at_depth. pose proof (zlen_nonneg codes). repeat split; try lia; assumption.
  Qed.
  Lemma verified_exit fc ns final codes m d :
    verified fc ns final codes m -> dget m (zlen codes) = Some d -> final_ok final d = true.
  Proof.
    unfold verified, verify. intros H D. repeat (apply andb_true_iff in H; destruct H as [H ?]).
    rewrite D in *. assumption.
  Qed.
  Lemma verified_instr fc ns final codes m pc i d :
    verified fc ns final codes m -> znth codes pc = Some i -> dget m pc = Some d ->
    check_instr (chk_of fc) ng ns final codes (zlen codes) m pc i d = true.
  Proof.
    unfold verified, verify. intros H N D. repeat (apply andb_true_iff in H; destruct H as [H ?]).
    pose proof (znth_Some _ _ _ N) as R. unfold znth in N. destruct (pc <? 0) eqn:E; [discriminate|].
    match goal with V : verify_from _ _ _ = true |- _ => pose proof (verify_from_spec _ _ _ V _ _ N) as K end.
    unfold check_at in K. replace (0 + Z.of_nat (Z.to_nat pc)) with pc in K by lia. rewrite D in K. exact K.
  Qed.
  Lemma chk_of_sound fc ns nr b : chk_of fc ns nr b = true -> exists fuel, check_code_f fuel ng ns (Some nr) b = true.
  Proof. intro H. exists fc. exact H. Qed.

  Definition res_ok (ns : Z) (final : option Z) (codes : list instr) (m : dmap) (r : result) : Prop :=
    match r with
    | RDone sl ops s =>
        zlen sl = ns /\ final_ok final (zlen ops) = true /\ st_ok ng s /\
        exists pcx, 0 <= pcx <= zlen codes /\ is_exit codes pcx /\ dget m pcx = Some (zlen ops)
    | RStuck w => heap_reason w
    | _ => True
    end.
  (* a call: on success the operands are the requested results on top of the caller's operands minus the arguments *)
  Definition cres_ok (ops : list value) (xa xr : Z) (c : cres) : Prop :=
    match c with
    | COk ops' s' => st_ok ng s' /\ exists results, zlen results = xr /\ ops' = (results ++ skipn (Z.to_nat xa) ops)%list
    | CErr (RDone _ _ _) => False
    | CErr (RStuck w) => heap_reason w
    | CErr _ => True
    end.

  Lemma exec_S f codes pc slots ops s :
    exec (S f) codes pc slots ops s =
    match znth codes pc with
    | None => RDone slots ops s
    | Some i =>
        match step1 codes pc i slots ops s with
        | SNext slots' ops' s' => exec f codes (pc + 1) slots' ops' s'
        | SJump d slots' ops' s' => exec f codes (pc + d + 1) slots' ops' s'
        | SCall pack fa xArgs xRets slots' ops' s' =>
            match call_fn f pack fa xArgs xRets (ipos i) ops' s' with
            | COk ops'' s'' => exec f codes (pc + 1) slots' ops'' s''
            | CErr r => r
            end
        | SRet slots' ops' s' => RDone slots' ops' s'
        | SFail msg s' => RFail msg (ipos i) s'
        | SStuck w => RStuck w
        | SUnmod w => RUnmod w
        end
    end.
  Proof. reflexivity. Qed.

  Lemma sound_exec_step f :
    (forall fc ns final codes m pc slots ops s,
        verified fc ns final codes m -> at_depth codes m pc (zlen ops) -> zlen slots = ns -> st_ok ng s ->
        res_ok ns final codes m (exec f codes pc slots ops s)) ->
    (forall pack fa xa xr pos ops s, st_ok ng s -> 0 <= xa <= zlen ops -> 0 <= xr ->
        cres_ok ops xa xr (call_fn f pack fa xa xr pos ops s)) ->
    forall fc ns final codes m pc slots ops s,
        verified fc ns final codes m -> at_depth codes m pc (zlen ops) -> zlen slots = ns -> st_ok ng s ->
        res_ok ns final codes m (exec (S f) codes pc slots ops s).
  Proof.
    intros IHe IHc fc ns final codes m pc slots ops s V (Hpc & Hd0 & Hd) Hsl Hst.
    rewrite exec_S. destruct (znth codes pc) as [i|] eqn:N.
    - pose proof (verified_instr _ _ _ _ _ _ _ _ V N Hd) as CI.
      pose proof (step_sound grow ext_get ext_set ext_len ext_getattr ext_setattr ng ext_set_ok ext_getattr_ok ext_setattr_ok
                    (chk_of fc) (chk_of_sound fc) ns final codes m pc i slots ops s Hsl Hst (proj1 Hpc) CI) as SP.
      destruct (step1 codes pc i slots ops s) as [sl' o' s'|dl sl' o' s'|pack fa xa xr sl' o' s'|sl' o' s'|msg s'|w|w];
        cbn [step_post] in SP.
      + destruct SP as (A & B & C). apply (IHe fc); auto.
      + destruct SP as (A & B & C). apply (IHe fc); auto.
      + destruct SP as (A & B & C & D & F).
        pose proof (IHc pack fa xa xr (ipos i) o' s' B C D) as K.
        destruct (call_fn f pack fa xa xr (ipos i) o' s') as [o'' s''|r]; cbn [cres_ok] in K.
        * destruct K as (K1 & results & K2 & ->). apply (IHe fc); auto.
          eapply at_depth_eq; [exact F|]. rewrite zlen_app, zlen_skipn. lia.
        * destruct r; cbn [res_ok]; auto; contradiction.
      + destruct SP as (A & B & C & D0 & D). cbn [res_ok]. split; [exact A|]. split; [exact D|]. split; [exact B|].
        exists pc. split; [lia|]. split; [right; eauto | rewrite D0; exact Hd].
      + exact I.
      + exact SP.
      + exact I.
    - cbn [res_ok]. assert (pc = zlen codes) by (apply znth_None in N; lia). subst pc.
      split; [exact Hsl|]. split; [eapply verified_exit; eauto|]. split; [exact Hst|].
      exists (zlen codes). split; [lia|]. split; [left; exact N | exact Hd].
  Qed.

  (* the part of call_fn after variadic packing and the argument-count test *)
  Definition call_tail (f : nat) (nargs nrets nslots : Z) (types : list Z) (body : list instr)
                       (xRets pos : Z) (ops1 : list value) (s1 : st) : cres :=
    match popn (Z.to_nat nargs) ops1 [] with
    | None => CErr (RStuck "arguments")
    | Some (args, rest) =>
        let typed := map (fun p => Value_assign (fst p) (snd p)) (combine args types) in
        let slots := (typed ++ repeat nilV (Z.to_nat (nslots - nargs)))%list in
        match exec f body 0 slots [] (push_bt s1 pos) with
        | RDone _ rops s2 =>
            let results := rev rops in
            let n := zlen results in
            if n <? nrets then CErr (RFail "missing return" pos (pop_bt s2)) else
            let rtypes := skipn (Z.to_nat nargs) types in
            let keep := firstn (Z.to_nat (n - nrets)) results in
            let top := skipn (Z.to_nat (n - nrets)) results in
            let results' := (keep ++ map (fun p => Value_assign (fst p) (snd p)) (combine top rtypes))%list in
            if n <? xRets then CErr (RFail "incorrect returns" pos (pop_bt s2))
            else COk (rev (firstn (Z.to_nat xRets) results') ++ rest)%list (pop_bt s2)
        | r => CErr r
        end
    end.

  Lemma call_fn_S f pack fa xArgs xRets pos ops s :
    call_fn (S f) pack fa xArgs xRets pos ops s =
    match hget s fa with
    | Some (HNative name) =>
        if (String.eqb name "builtin.println") || (String.eqb name "builtin.print") ||
           (String.eqb name "fmt.Println") || (String.eqb name "fmt.Print") then
          if negb pack then CErr (RUnmod "native with spread") else
          match popn (Z.to_nat xArgs) ops [] with
          | Some (args, rest) =>
              match all_some (map to_string args) with
              | Some strs =>
                  let line := if (String.eqb name "builtin.println") || (String.eqb name "fmt.Println")
                              then (join_sp strs ++ [10])%list else join_sp strs in
                  if 0 <? xRets then CErr (RFail "incorrect returns" pos s) else COk rest (emit s line)
              | None => CErr (RUnmod "printing of this value kind")
              end
          | None => CErr (RStuck "native arguments")
          end
        else CErr (RUnmod "native function")
    | Some (HFunc nargs nrets variadic vtype nslots types body) =>
        let packed :=
          if variadic && pack then
            let nVar := xArgs - nargs + 1 in
            if nVar <? 0 then inr (RFail "runtime error" pos s) else
            match popn (Z.to_nat nVar) ops [] with
            | Some (vargs, rest) =>
                let (s1, sv) := variadic_arg s vtype nVar vargs in
                inl (sv :: rest, xArgs - nVar + 1, s1)
            | None => inr (RStuck "variadic arguments")
            end
          else inl (ops, xArgs, s) in
        match packed with
        | inr r => CErr r
        | inl (ops1, xArgs1, s1) =>
            if negb (xArgs1 =? nargs) then CErr (RFail "incorrect args" pos s1) else
            call_tail f nargs nrets nslots types body xRets pos ops1 s1
        end
    | Some _ => CErr (RFail "interface conversion" pos s)
    | None => CErr (RFail "interface conversion" pos s)
    end.
  Proof. reflexivity. Qed.

  Section Calls.
    Variable f : nat.
    Hypothesis IHe : forall fc ns final codes m pc slots ops s,
        verified fc ns final codes m -> at_depth codes m pc (zlen ops) -> zlen slots = ns -> st_ok ng s ->
        res_ok ns final codes m (exec f codes pc slots ops s).

    Lemma call_tail_ok nargs nrets nslots types body xr pos ops1 s1 ops0 xa :
      0 <= nargs <= nslots -> 0 <= nrets -> zlen types = nargs + nrets ->
      (exists fuel, check_code_f fuel ng nslots (Some nrets) body = true) ->
      st_ok ng s1 -> 0 <= xr -> nargs <= zlen ops1 ->
      skipn (Z.to_nat nargs) ops1 = skipn (Z.to_nat xa) ops0 ->
      cres_ok ops0 xa xr (call_tail f nargs nrets nslots types body xr pos ops1 s1).
    Proof.
      intros Hna Hnr Hty (fuel & Hchk) Hst Hxr Hlen Hskip. unfold call_tail.
      destruct (popn (Z.to_nat nargs) ops1 []) as [[args rest]|] eqn:P.
      2: { apply popn_none in P. exfalso. lia. }
      apply popn_some in P. destruct P as (Prest & Plen & Pargs). rewrite zlen_nil in Pargs.
      cbv zeta.
      apply check_code_f_verified in Hchk. destruct Hchk as (fc & V).
      pose proof (verified_entry _ _ _ _ _ V) as (Hns & Hentry).
      match goal with |- context[exec f body 0 ?sl [] ?s0] =>
        pose proof (IHe fc nslots (Some nrets) body (infer_map body) 0 sl [] s0 V) as K
      end.
      specialize (K Hentry).
      match type of K with ?A -> _ => assert (HA : A) end.
      { rewrite zlen_app, zlen_map, zlen_combine, zlen_repeat. lia. }
      specialize (K HA (st_ok_push_bt ng s1 pos Hst)). clear HA.
      match goal with |- context[exec f body 0 ?sl [] ?s0] => destruct (exec f body 0 sl [] s0) as [sl' rops s2|msg p s2|w| |w] end;
        cbn [res_ok cres_ok] in *; auto.
      destruct K as (_ & Hfin & Hs2 & _). cbn [final_ok] in Hfin. apply Z.eqb_eq in Hfin.
      rewrite zlen_rev. rewrite Hfin. rewrite Z.ltb_irrefl.
      destruct (nrets <? xr) eqn:X; [exact I|].
      cbn [cres_ok]. split; [apply st_ok_pop_bt; exact Hs2|].
      eexists. split; [|rewrite Prest, Hskip; reflexivity].
      rewrite zlen_rev, zlen_firstn, zlen_app, zlen_firstn, zlen_map, zlen_combine, zlen_skipn, zlen_skipn, zlen_rev. lia.
    Qed.

    Lemma sound_call_step pack fa xa xr pos ops s :
      st_ok ng s -> 0 <= xa <= zlen ops -> 0 <= xr ->
      cres_ok ops xa xr (call_fn (S f) pack fa xa xr pos ops s).
    Proof.
      intros Hst Hxa Hxr. rewrite call_fn_S.
      destruct (hget s fa) as [o|] eqn:G; [|exact I].
      pose proof (heap_ok_get ng s fa o Hst G) as Ho.
      destruct o as [nargs nrets variadic vtype nslots types body|name| | | | |]; try exact I.
      - cbn [obj_ok] in Ho. destruct Ho as (Hna & Hnr & Hty & Hvar & Hchk).
        destruct (variadic && pack) eqn:VP; cbv zeta.
        + assert (1 <= nargs) by (apply Hvar; destruct variadic; [reflexivity|discriminate]).
          destruct (xa - nargs + 1 <? 0) eqn:NV; [exact I|].
          destruct (popn (Z.to_nat (xa - nargs + 1)) ops []) as [[vargs rest]|] eqn:P1.
          2: { apply popn_none in P1. exfalso. lia. }
          apply popn_some in P1. destruct P1 as (Prest & Plen & _).
          match goal with |- context[variadic_arg s ?t ?n ?c] =>
            pose proof (st_ok_variadic_arg ng s t n c Hst) as K; destruct (variadic_arg s t n c) as [s1 sv]; cbn [fst] in K end.
          destruct (negb (xa - (xa - nargs + 1) + 1 =? nargs)) eqn:NA; [exact I|].
          apply call_tail_ok; auto.
          * rewrite zlen_cons. lia.
          * replace (Z.to_nat nargs) with (S (Z.to_nat (nargs - 1))) by lia. cbn [skipn].
            rewrite Prest, skipn_add. f_equal. lia.
        + cbv beta iota zeta. destruct (negb (xa =? nargs)) eqn:NA; [exact I|].
          assert (xa = nargs) by lia. subst xa.
          apply call_tail_ok; auto; lia.
      - destruct ((String.eqb name "builtin.println") || (String.eqb name "builtin.print") ||
                  (String.eqb name "fmt.Println") || (String.eqb name "fmt.Print"))%bool; [|exact I].
        destruct (negb pack); [exact I|].
        destruct (popn (Z.to_nat xa) ops []) as [[args rest]|] eqn:P.
        2: { apply popn_none in P. exfalso. lia. }
        apply popn_some in P. destruct P as (Prest & _ & _).
        destruct (all_some (map to_string args)); [|exact I]. cbv zeta.
        destruct (0 <? xr) eqn:X; [exact I|].
        cbn [cres_ok]. split; [apply st_ok_emit; exact Hst|].
        exists []. split; [rewrite zlen_nil; lia | rewrite Prest; reflexivity].
    Qed.
  End Calls.

  (* ---- induction on the fuel -------------------------------------------------------------------- *)

  Lemma sound_fuel : forall f,
    (forall fc ns final codes m pc slots ops s,
        verified fc ns final codes m -> at_depth codes m pc (zlen ops) -> zlen slots = ns -> st_ok ng s ->
        res_ok ns final codes m (exec f codes pc slots ops s)) /\
    (forall pack fa xa xr pos ops s, st_ok ng s -> 0 <= xa <= zlen ops -> 0 <= xr ->
        cres_ok ops xa xr (call_fn f pack fa xa xr pos ops s)).
  Proof.
    induction f as [|f [IHe IHc]].
    - split; intros; exact I.
    - split.
      + apply sound_exec_step; assumption.
      + intros. apply sound_call_step; assumption.
  Qed.
End Sound.

(* ---- the theorems ------------------------------------------------------------------------------ *)

Section Theorems.
  Variable grow : Z -> Z -> Z.
  Variable ext_get : st -> value -> value -> option (res value).
  Variable ext_set : st -> value -> value -> value -> option (res st).
  Variable ext_len : st -> value -> option Z.
  Variable ext_getattr : st -> value -> Z -> option (res (value * st)).
  Variable ext_setattr : st -> value -> Z -> value -> option (res st).
  Variable ng : Z.
  Hypothesis ext_set_ok : forall s r k v s', st_ok ng s -> ext_set s r k v = Some (Ok s') -> st_ok ng s'.
  Hypothesis ext_getattr_ok : forall s r k v s', st_ok ng s -> ext_getattr s r k = Some (Ok (v, s')) -> st_ok ng s'.
  Hypothesis ext_setattr_ok : forall s r k v s', st_ok ng s -> ext_setattr s r k v = Some (Ok s') -> st_ok ng s'.

  Notation exec := (VM.exec grow ext_get ext_set ext_len ext_getattr ext_setattr).
  Notation call_fn := (VM.call_fn grow ext_get ext_set ext_len ext_getattr ext_setattr).
  Notation run := (VM.run grow ext_get ext_set ext_len ext_getattr ext_setattr).

  Lemma checked_run ns final codes fuel slots s :
    check_code ng ns final codes = true -> zlen slots = ns -> st_ok ng s ->
    res_ok ng ns final codes (infer_map codes) (exec fuel codes 0 slots [] s).
  Proof.
    intros C Hsl Hst. unfold check_code in C. apply (check_code_f_verified ng) in C. destruct C as (fc & V).
    pose proof (verified_entry ng _ _ _ _ _ V) as (_ & Hentry).
    apply (proj1 (sound_fuel grow ext_get ext_set ext_len ext_getattr ext_setattr ng ext_set_ok ext_getattr_ok ext_setattr_ok fuel) fc); auto.
  Qed.

  (* checked code is never stuck on an operand, slot, global or code-shape access -- in its own frame or,
     through call_fn, in any callee frame *)
  Theorem sound_thm : forall ns final codes fuel slots s w,
    check_code ng ns final codes = true -> zlen slots = ns -> st_ok ng s ->
    exec fuel codes 0 slots [] s = RStuck w -> heap_reason w.
  Proof.
    intros ns final codes fuel slots s w C Hsl Hst E.
    pose proof (checked_run ns final codes fuel slots s C Hsl Hst) as K. rewrite E in K. exact K.
  Qed.

  (* every completed run leaves the static exit depth on the operand stack and keeps the frame's slot count *)
  Theorem depth_thm : forall ns final codes fuel slots s slots' ops' s',
    check_code ng ns final codes = true -> zlen slots = ns -> st_ok ng s ->
    exec fuel codes 0 slots [] s = RDone slots' ops' s' ->
    zlen slots' = ns /\ st_ok ng s' /\ (forall n, final = Some n -> zlen ops' = n) /\
    exists pcx, 0 <= pcx <= zlen codes /\ is_exit codes pcx /\ depth_at codes pcx = Some (zlen ops').
  Proof.
    intros ns final codes fuel slots s slots' ops' s' C Hsl Hst E.
    pose proof (checked_run ns final codes fuel slots s C Hsl Hst) as K. rewrite E in K.
    destruct K as (A & B & D & F). split; [exact A|]. split; [exact D|]. split; [|exact F].
    intros n ->. cbn [final_ok] in B. lia.
  Qed.

  Theorem run_thm : forall ns codes fuel s,
    check_code ng ns (Some 0) codes = true -> st_ok ng s ->
    match run fuel codes ns s with
    | RDone slots' ops' s' => ops' = [] /\ zlen slots' = ns /\ st_ok ng s'
    | RStuck w => heap_reason w
    | _ => True
    end.
  Proof.
    intros ns codes fuel s C Hst. unfold VM.run.
    assert (Hns : 0 <= ns).
    { unfold check_code in C. apply (check_code_f_verified ng) in C. destruct C as (fc & V).
      apply (verified_entry ng) in V. tauto. }
    assert (Hsl : zlen (repeat nilV (Z.to_nat ns)) = ns) by (rewrite zlen_repeat; lia).
    pose proof (checked_run ns (Some 0) codes fuel _ s C Hsl Hst) as K.
    destruct (exec fuel codes 0 (repeat nilV (Z.to_nat ns)) [] s); auto.
    destruct K as (A & B & D & _). cbn [final_ok] in B. split; [|auto].
    destruct ops; [reflexivity|]. rewrite zlen_cons in B. pose proof (zlen_nonneg ops). lia.
  Qed.

  (* frames are isolated: a call that returns has popped exactly its arguments and pushed exactly the
     requested results; nothing else of the caller's operands changed (the caller's slots are not even
     passed to call_fn); a call that does not return is not stuck on a stack access either *)
  Theorem frame_thm : forall fuel pack fa xa xr pos ops s,
    st_ok ng s -> 0 <= xa <= zlen ops -> 0 <= xr ->
    match call_fn fuel pack fa xa xr pos ops s with
    | COk ops' s' => st_ok ng s' /\ exists results, zlen results = xr /\ ops' = (results ++ skipn (Z.to_nat xa) ops)%list
    | CErr (RStuck w) => heap_reason w
    | CErr _ => True
    end.
  Proof.
    intros fuel pack fa xa xr pos ops s Hst Hxa Hxr.
    pose proof (proj2 (sound_fuel grow ext_get ext_set ext_len ext_getattr ext_setattr ng ext_set_ok ext_getattr_ok ext_setattr_ok fuel)
                  pack fa xa xr pos ops s Hst Hxa Hxr) as K.
    destruct (call_fn fuel pack fa xa xr pos ops s) as [o' s'|r]; [exact K|].
    destruct r; cbn [cres_ok] in K; auto; contradiction.
  Qed.
End Theorems.

(* a heap that holds only native functions (the state before any code ran) satisfies the invariant *)
Lemma st_ok_natives ng s :
  ng <= zlen (globals s) -> Forall (fun o => match o with HFunc _ _ _ _ _ _ _ => False | _ => True end) (heap s) -> st_ok ng s.
Proof.
  intros H F. split; [exact H|]. unfold heap_ok. eapply Forall_impl; [|exact F].
  intros o Ho. destruct o; cbn; auto. contradiction.
Qed.
