(* C16: treeSort is THE stable descending sort, hence hoistable declarations may be permuted and
   repartitioned over files without changing what the compiler sees class by class. *)
From Coq Require Import ZArith List String Bool Lia Permutation Sorted.
From GV Require Import Model.TreeSort.
Import ListNotations.
Open Scope Z_scope.
Open Scope list_scope.

Section Spec.
  Context {A : Type}.
  Variable prio : A -> Z.
  Notation tree_sort := (tree_sort prio).

  (* TO PROVE *)

  Notation R := (fun a b : A => prio b <= prio a).
  Notation fp p := (fun x : A => prio x =? p).

  (* ---------- auxiliary: insertion ---------- *)

  Lemma insert_perm : forall x l, Permutation (insert_desc prio x l) (x :: l).
  Proof.
    intros x l; induction l as [|y r IHr]; simpl.
    - apply Permutation_refl.
    - destruct (prio y <=? prio x).
      + apply Permutation_refl.
      + eapply perm_trans; [apply perm_skip, IHr | apply perm_swap].
  Qed.

  Theorem sort_perm : forall l, Permutation (tree_sort l) l.
  Proof.
    intros l; induction l as [|x l IHl]; simpl.
    - apply perm_nil.
    - eapply perm_trans; [apply insert_perm | apply perm_skip, IHl].
  Qed.

  Lemma insert_sorted : forall x l, StronglySorted R l -> StronglySorted R (insert_desc prio x l).
  Proof.
    intros x l HS; induction HS as [|y r HSr IHr HF]; simpl.
    - constructor; constructor.
    - destruct (prio y <=? prio x) eqn:E.
      + apply Z.leb_le in E. constructor.
        * constructor; assumption.
        * constructor; [lia|].
          rewrite Forall_forall in *. intros z Hz. specialize (HF z Hz). simpl in HF. lia.
      + apply Z.leb_gt in E. constructor; [exact IHr|].
        rewrite Forall_forall in *. intros z Hz.
        apply (Permutation_in _ (insert_perm x r)) in Hz.
        destruct Hz as [Hz|Hz]; [subst z; lia | apply HF; exact Hz].
  Qed.

  (* descending *)
  Theorem sort_sorted : forall l, StronglySorted (fun a b => prio b <= prio a) (tree_sort l).
  Proof.
    intros l; induction l as [|x l IHl]; simpl.
    - constructor.
    - apply insert_sorted; exact IHl.
  Qed.

  (* ---------- auxiliary: per-priority filters of sorted lists ---------- *)

  Lemma filter_below_nil : forall p l, Forall (fun z => prio z < p) l -> filter (fp p) l = [].
  Proof.
    intros p l HF; induction HF as [|z l Hz HF IH]; simpl; [reflexivity|].
    destruct (prio z =? p) eqn:E; [apply Z.eqb_eq in E; lia | exact IH].
  Qed.

  Lemma filter_insert : forall p x l,
    filter (fp p) (insert_desc prio x l) =
    if prio x =? p then x :: filter (fp p) l else filter (fp p) l.
  Proof.
    intros p x l; induction l as [|y r IHr]; simpl.
    - destruct (prio x =? p); reflexivity.
    - destruct (prio y <=? prio x) eqn:E.
      + simpl. destruct (prio x =? p); reflexivity.
      + apply Z.leb_gt in E. simpl. rewrite IHr.
        destruct (prio y =? p) eqn:Ey; destruct (prio x =? p) eqn:Ex; try reflexivity.
        apply Z.eqb_eq in Ey, Ex. lia.
  Qed.

  Lemma filter_rev : forall (P : A -> bool) l, filter P (rev l) = rev (filter P l).
  Proof.
    intros P l; induction l as [|x l IHl]; simpl; [reflexivity|].
    rewrite filter_app, IHl. simpl. destruct (P x); simpl; [reflexivity | apply app_nil_r].
  Qed.

  Lemma filter_comm : forall (P Q : A -> bool) l, filter P (filter Q l) = filter Q (filter P l).
  Proof.
    intros P Q l; induction l as [|x l IHl]; simpl; [reflexivity|].
    destruct (P x) eqn:EP; destruct (Q x) eqn:EQ; simpl; rewrite ?EP, ?EQ, IHl; reflexivity.
  Qed.

  (* stable: elements of equal priority keep their relative order -- for every class predicate that is
     a union of priority levels *)
  Theorem sort_stable : forall (p : Z) l,
    filter (fun x => prio x =? p) (tree_sort l) = filter (fun x => prio x =? p) l.
  Proof.
    intros p l; induction l as [|x l IHl]; simpl; [reflexivity|].
    rewrite filter_insert, IHl. reflexivity.
  Qed.

  (* a descending list is determined by its per-priority filters *)
  Lemma sorted_filters_eq : forall l1 l2,
    StronglySorted R l1 -> StronglySorted R l2 ->
    (forall p, filter (fp p) l1 = filter (fp p) l2) -> l1 = l2.
  Proof.
    intros l1; induction l1 as [|x r1 IH]; intros l2 HS1 HS2 HF.
    - destruct l2 as [|y r2]; [reflexivity|].
      specialize (HF (prio y)). simpl in HF. rewrite Z.eqb_refl in HF. discriminate HF.
    - destruct l2 as [|y r2].
      + specialize (HF (prio x)). simpl in HF. rewrite Z.eqb_refl in HF. discriminate HF.
      + inversion HS1 as [|x' r1' HSr1 HF1]; subst.
        inversion HS2 as [|y' r2' HSr2 HF2]; subst.
        assert (Hxy : prio x = prio y).
        { destruct (Z.lt_trichotomy (prio x) (prio y)) as [Hlt|[Heq|Hgt]]; [|exact Heq|].
          - pose proof (HF (prio y)) as H. 
            rewrite (filter_below_nil (prio y) (x :: r1)) in H.
            + simpl in H. rewrite Z.eqb_refl in H. discriminate H.
            + constructor; [lia|]. rewrite Forall_forall in *. intros z Hz.
              specialize (HF1 z Hz). simpl in HF1. lia.
          - pose proof (HF (prio x)) as H.
            rewrite (filter_below_nil (prio x) (y :: r2)) in H.
            + simpl in H. rewrite Z.eqb_refl in H. discriminate H.
            + constructor; [lia|]. rewrite Forall_forall in *. intros z Hz.
              specialize (HF2 z Hz). simpl in HF2. lia. }
        pose proof (HF (prio x)) as Hp. simpl in Hp.
        rewrite Z.eqb_refl in Hp. rewrite <- Hxy, Z.eqb_refl in Hp.
        injection Hp as Hx Hr. subst y. f_equal.
        apply IH; [assumption|assumption|].
        intros q. destruct (Z.eq_dec q (prio x)) as [->|Hne]; [exact Hr|].
        specialize (HF q). simpl in HF.
        destruct (prio x =? q) eqn:E; [apply Z.eqb_eq in E; congruence | exact HF].
  Qed.

  (* sortedness and stability determine the result: any list that is sorted by descending priority and has,
     for every priority p, the same subsequence of priority-p elements as l IS tree_sort l (so the model
     equals Go's sort.SliceStable, whose contract is: a sorted permutation that keeps equal elements in
     their original order).  That l' is a permutation of l need not be assumed: it follows from the
     equations of the second premise. *)
  Theorem sort_unique : forall l l',
    StronglySorted (fun a b => prio b <= prio a) l' ->
    (forall p, filter (fun x => prio x =? p) l' = filter (fun x => prio x =? p) l) ->
    l' = tree_sort l.
  Proof.
    intros l l' HS HF. apply sorted_filters_eq; [exact HS | apply sort_sorted |].
    intros p. rewrite HF, sort_stable. reflexivity.
  Qed.

  (* ---------- auxiliary: filtering commutes with the sort ---------- *)

  Lemma sorted_filter : forall (P : A -> bool) l, StronglySorted R l -> StronglySorted R (filter P l).
  Proof.
    intros P l HS; induction HS as [|y r HSr IHr HF]; simpl; [constructor|].
    destruct (P y); [|exact IHr].
    constructor; [exact IHr|].
    rewrite Forall_forall in *. intros z Hz. apply filter_In in Hz. apply HF, Hz.
  Qed.

  Lemma filter_sort_comm : forall (P : A -> bool) l, filter P (tree_sort l) = tree_sort (filter P l).
  Proof.
    intros P l. apply sorted_filters_eq.
    - apply sorted_filter, sort_sorted.
    - apply sort_sorted.
    - intros p. rewrite filter_comm, !sort_stable. apply filter_comm.
  Qed.

  Lemma perm_filter : forall (P : A -> bool) l l', Permutation l l' -> Permutation (filter P l) (filter P l').
  Proof.
    intros P l l' HP; induction HP as [|x l l' HP IH|x y l|l l' l'' HP1 IH1 HP2 IH2]; simpl.
    - apply perm_nil.
    - destruct (P x); [apply perm_skip|]; exact IH.
    - destruct (P x); destruct (P y); try apply Permutation_refl. apply perm_swap.
    - eapply perm_trans; eassumption.
  Qed.

  Lemma sorted_app_r : forall l1 l2 : list A, StronglySorted R (l1 ++ l2) -> StronglySorted R l2.
  Proof.
    intros l1 l2; induction l1 as [|x l1 IH]; simpl; intros HS; [exact HS|].
    inversion HS; subst. apply IH; assumption.
  Qed.

  (* permutation / repartition invariance.  [hoist x = true] for function, method and type declarations.
     Two source layouts l and l' are hoist-equivalent when the non-hoistable nodes form the same sequence
     and, inside every priority level, the hoistable nodes are a permutation of each other. *)
  Variable hoist : A -> bool.
  Definition hoist_equiv (l l' : list A) : Prop :=
    filter (fun x => negb (hoist x)) l = filter (fun x => negb (hoist x)) l' /\
    forall p, Permutation (filter (fun x => hoist x && (prio x =? p)) l) (filter (fun x => hoist x && (prio x =? p)) l').

  Theorem sort_hoist_invariant : forall l l', hoist_equiv l l' ->
    (* the non-hoistable nodes (const, var, statements, init ...) reach the compiler in the same order *)
    filter (fun x => negb (hoist x)) (tree_sort l) = filter (fun x => negb (hoist x)) (tree_sort l') /\
    (* level by level the hoistable nodes are the same up to order *)
    (forall p, Permutation (filter (fun x => hoist x && (prio x =? p)) (tree_sort l))
                           (filter (fun x => hoist x && (prio x =? p)) (tree_sort l'))) /\
    (* and a node of higher priority always precedes a node of lower priority *)
    (forall l1 x l2 y l3, tree_sort l = l1 ++ x :: l2 ++ y :: l3 -> prio y <= prio x).
  Proof.
    intros l l' [Hnh Hh]. split; [|split].
    - rewrite !filter_sort_comm, Hnh. reflexivity.
    - intros p.
      eapply perm_trans; [apply perm_filter, sort_perm|].
      eapply perm_trans; [apply Hh|].
      apply Permutation_sym, perm_filter, sort_perm.
    - intros l1 x l2 y l3 Heq.
      pose proof (sort_sorted l) as HS. rewrite Heq in HS.
      apply sorted_app_r in HS. inversion HS as [|x' r HSr HF]; subst.
      rewrite Forall_forall in HF. apply (HF y). apply in_elt.
  Qed.
End Spec.

(* joinFiles keeps the nodes of every file in order and drops the package clause of later files *)
Theorem join_files_spec : forall (A : Type) (f : list A) (r : list (list A)),
  join_files (f :: r) = f ++ List.concat (map (@tl A) r).
Proof. intros A f r. reflexivity. Qed.
